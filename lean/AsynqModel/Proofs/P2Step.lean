import AsynqModel.Proofs.P2Helpers
/-!
  P2: classification of the transitions of the machine.  Every `step` is
  * quiet (no task is resumed or suspended) with a harmless change of the control stack, or
  * the start of `_continue_with_task(t)` (a `gen t` frame is pushed), or
  * a resume of the running task (`run` event), or
  * a `yield` of the running task.
-/
namespace AsynqModel.Core.P2
open AsynqModel.Core

/-- the tasks whose generator is running (has a frame on the Python stack), innermost first -/
def gens : List Ctl → List Nat
  | [] => []
  | .gen t _ :: rest => t :: gens rest
  | _ :: rest => gens rest

def notGen : Ctl → Bool
  | .gen _ _ => false
  | _ => true

/-- the harmless changes of the control stack, with what happens to the active task: nothing; a `wait_for` frame is
    popped (the stack guard also resets the active task); the frame of the running generator is popped and the saved
    active task restored; a `wait_for` frame changes its phase; a `wait_for` frame is pushed (not onto a generator that
    is suspended at a yield) -/
def CtlAct (s s' : State) : Prop :=
  (s'.ctl = s.ctl ∧ s'.active = s.active) ∨
  (∃ c rest, s.ctl = c :: rest ∧ notGen c = true ∧ s'.ctl = rest ∧ (s'.active = s.active ∨ s'.active = none)) ∨
  (∃ t old rest, s.ctl = .gen t old :: rest ∧ s'.ctl = rest ∧ s'.active = old) ∨
  (∃ c c' rest, s.ctl = c :: rest ∧ s'.ctl = c' :: rest ∧ notGen c = true ∧ notGen c' = true ∧
    s'.active = s.active) ∨
  (∃ f, s'.ctl = .waitEnter f :: s.ctl ∧ s'.active = s.active ∧
    ∀ t old rest, s.ctl = .gen t old :: rest → (s'.task t).pending = false)

/-- a change of the running task `t` alone by `g`, with one event `e` -/
structure CoreStep (s s' : State) (t : Nat) (g : TaskSt → TaskSt) (e : Event) : Prop where
  futs : s'.futs = (s.updTask t g).futs
  trace : s'.trace = e :: s.trace
  batches : s'.batches = s.batches
  ctxs : s'.ctxs = s.ctxs
  ctxg : ∀ ts, (g ts).ctxActive = ts.ctxActive ∧ (g ts).ctxs = ts.ctxs

/-- quiet at the level of a whole transition: a task is completed only by failing it while blocked or by finishing the
    running generator (whose frame is popped); `_contexts_active` is reset only for a blocked task, which ends up failed
    or without NonAsyncContexts; a context is registered only with the active task, and it is a new one; existing
    context objects keep their kind -/
structure QuietT (s s' : State) : Prop extends QuietF s s' where
  tf : ∀ f o, (s.fut f).kind = .task → s.out f = none → s'.out f = some o →
    Blocked s f ∨ ∃ old rest, s.ctl = .gen f old :: rest ∧ s'.ctl = rest
  caz : ∀ f, (s.task f).ctxActive = true → (s'.task f).ctxActive = false →
    Blocked s f ∧ (s'.out f ≠ none ∨ NAfree s' f)
  cxs : ∀ f, ∀ c ∈ (s'.task f).ctxs,
    c ∈ (s.task f).ctxs ∨ (s.active = some f ∧ c = s.ctxs.length ∧ s.ctxs.length < s'.ctxs.length)
  na : ∀ c, c < s.ctxs.length → s'.ctxIsNonAsync c = s.ctxIsNonAsync c
  clen : s.ctxs.length ≤ s'.ctxs.length

inductive StepKind (s s' : State) : Prop
  | quiet (q : QuietT s s') (c : CtlAct s s')
  | push (q : QuietT s s') (t : Nat) (r b : Nat) (rest : List Ctl)
      (h1 : s.ctl = .waitLoop r b :: rest) (h2 : s'.ctl = .gen t s.active :: s.ctl) (ha : s'.active = some t)
      (hca : (s'.task t).ctxActive = true)
      (hk : (s.fut t).kind = .task) (hn : t ∉ gens s.ctl) (ho : s.out t = none)
      (hd : ∀ d ∈ (s.task t).deps, s.computed d = true)
  | run0 (t : Nat) (old : Option Nat) (rest : List Ctl) (g : TaskSt → TaskSt)
      (h1 : s.ctl = .gen t old :: rest) (hp : (s.task t).pending = true) (hs : (s.task t).started = false)
      (hg : ∀ ts, (g ts).pending = false ∧ (g ts).started = true ∧ (g ts).resumes = ts.resumes ∧ (g ts).lastY = .none ∧
        ∀ d ∈ (g ts).deps, d ∈ ts.deps)
      (c : CoreStep s s' t g (.run t 0 true .start)) (hc : s'.ctl = s.ctl) (ha : s'.active = s.active)
  | run (t : Nat) (old : Option Nat) (rest : List Ctl) (g : TaskSt → TaskSt) (o : Outcome)
      (h1 : s.ctl = .gen t old :: rest) (hp : (s.task t).pending = true) (hs : (s.task t).started = true)
      (ho : o = outcomeOf (unwrap s.out (s.task t).lastY))
      (hg : ∀ ts, (g ts).pending = false ∧ (g ts).started = ts.started ∧ (g ts).resumes = (s.task t).resumes + 1 ∧
        (g ts).lastY = .none ∧ ∀ d ∈ (g ts).deps, d ∈ ts.deps)
      (c : CoreStep s s' t g (.run t ((s.task t).resumes + 1) ((s.task t).lastY.leaves.all s.computed) (.out o)))
      (hc : s'.ctl = s.ctl) (ha : s'.active = s.active)
  | yield (t : Nat) (old : Option Nat) (rest : List Ctl) (g : TaskSt → TaskSt) (ry : RY) (deps : List Nat)
      (h1 : s.ctl = .gen t old :: rest) (hp : (s.task t).pending = false)
      (hg : ∀ ts, (g ts).pending = true ∧ (g ts).started = ts.started ∧ (g ts).resumes = ts.resumes ∧
        (g ts).lastY = ry ∧ (g ts).deps = deps)
      (hsub : ∀ f ∈ ry.leaves, f ∈ deps)
      (c : CoreStep s s' t g (.yield t (s.task t).resumes ry))
      (hc : (s'.ctl = s.ctl ∧ s'.active = s.active ∧ deps = []) ∨ (s'.ctl = rest ∧ s'.active = old))

theorem ctlAct_same {s s' : State} (h : s'.ctl = s.ctl) (ha : s'.active = s.active) : CtlAct s s' := Or.inl ⟨h, ha⟩

/-- quiet followed by a change of fields other than futures, trace, batches (the control stack may change) -/
theorem QuietF.then_eq {s s1 s' : State} (q : QuietF s s1) (hf : s'.futs = s1.futs) (ht : s'.trace = s1.trace)
    (hb : s'.batches = s1.batches) : QuietF s s' := q.trans (quietF_of_eq hf ht hb)

theorem out_of_futs {s s' : State} (hf : s'.futs = s.futs) (f : Nat) : s'.out f = s.out f := by
  unfold State.out State.fut; rw [hf]

theorem task_of_futs {s s' : State} (hf : s'.futs = s.futs) (f : Nat) : s'.task f = s.task f := by
  unfold State.task State.fut; rw [hf]

theorem nafree_of_eq {s s' : State} (hf : s'.futs = s.futs) (hx : s'.ctxs = s.ctxs) {f : Nat} (h : NAfree s f) :
    NAfree s' f := by
  intro c hc
  rw [task_of_futs hf] at hc
  rw [nonasync_congr hx]; exact h c hc

/-- a quiet helper, followed by a change of fields other than futures, trace, batches, contexts -/
theorem Quiet.toT_eq {s s1 s' : State} (q : Quiet s s1) (hf : s'.futs = s1.futs) (ht : s'.trace = s1.trace)
    (hb : s'.batches = s1.batches) (hx : s'.ctxs = s1.ctxs) : QuietT s s' where
  toQuietF := q.toQuietF.then_eq hf ht hb
  tf := fun f o hk h1 h2 => Or.inl (q.tf f o hk h1 (by rw [← out_of_futs hf]; exact h2))
  caz := fun f h1 h2 => by
    rw [task_of_futs hf, q.ca f h1] at h2; cases h2
  cxs := fun f c hc => Or.inl (q.cxs f c (by rw [← task_of_futs hf]; exact hc))
  na := fun c _ => by rw [nonasync_congr hx]; exact q.na c
  clen := by rw [hx, q.clen]; exact Nat.le_refl _

theorem Quiet.toT {s s' : State} (q : Quiet s s') : QuietT s s' := q.toT_eq rfl rfl rfl rfl

/-- a change of fields other than futures, trace, batches, contexts, control stack after a quiet transition -/
theorem QuietT.then_eq {s s1 s' : State} (q : QuietT s s1) (hf : s'.futs = s1.futs) (ht : s'.trace = s1.trace)
    (hb : s'.batches = s1.batches) (hx : s'.ctxs = s1.ctxs) (hc : s'.ctl = s1.ctl) : QuietT s s' where
  toQuietF := q.toQuietF.then_eq hf ht hb
  tf := fun f o hk h1 h2 => by
    rw [out_of_futs hf] at h2; rw [hc]; exact q.tf f o hk h1 h2
  caz := fun f h1 h2 => by
    rw [task_of_futs hf] at h2
    obtain ⟨a, b⟩ := q.caz f h1 h2
    refine ⟨a, ?_⟩
    rcases b with b | b
    · left; rw [out_of_futs hf]; exact b
    · right; exact nafree_of_eq hf hx b
  cxs := fun f c hcx => by
    rw [task_of_futs hf] at hcx; rw [hx]; exact q.cxs f c hcx
  na := fun c h => by rw [nonasync_congr hx]; exact q.na c h
  clen := by rw [hx]; exact q.clen

theorem StepKind.ofQuiet {s s' : State} (q : Quiet s s') : StepKind s s' :=
  .quiet q.toT (ctlAct_same q.ctl q.active)

/-- quiet, then a change of fields other than futures, trace, batches, contexts, with a harmless change of the control
    stack -/
theorem StepKind.ofQuietEq {s s1 s' : State} (q : Quiet s s1) (hf : s'.futs = s1.futs) (ht : s'.trace = s1.trace)
    (hb : s'.batches = s1.batches) (hx : s'.ctxs = s1.ctxs) (c : CtlAct s s') : StepKind s s' :=
  .quiet (q.toT_eq hf ht hb hx) c

theorem mem_gens_of_any {ctl : List Ctl} {t : Nat} (h : t ∈ gens ctl) :
    ctl.any (fun c => match c with | .gen u _ => u == t | _ => false) = true := by
  induction ctl with
  | nil => simp [gens] at h
  | cons c rest ih =>
    cases c with
    | gen u o =>
      simp only [gens, List.mem_cons] at h
      simp only [List.any_cons, Bool.or_eq_true]
      cases h with
      | inl h => left; simp [h]
      | inr h => right; exact ih h
    | waitEnter r => simp only [gens] at h; simp only [List.any_cons, Bool.false_or]; exact ih h
    | waitLoop r b => simp only [gens] at h; simp only [List.any_cons, Bool.false_or]; exact ih h

/-! ### `_handle_async_task` -/

theorem blocked_of_any {s : State} {t : Nat}
    (h : ((s.task t).deps.any fun d => !s.computed d) = true) : Blocked s t := by
  rw [List.any_eq_true] at h
  obtain ⟨d, hd, hc⟩ := h
  exact ⟨d, hd, by simpa using hc⟩

theorem ca_updTask_ne (s : State) (t f : Nat) (g : TaskSt → TaskSt) (h : f ≠ t) :
    (s.updTask t g).task f = s.task f := by
  unfold State.task; rw [fut_updTask_ne s t f g h]

/-- the branch of `_handle_async_task` that pauses the contexts of a blocked task whose dependencies were scheduled -/
theorem pause_quietT (s : State) (t : Nat) (hk : (s.fut t).kind = .task) (hb : Blocked s t) :
    QuietT s ((s.updTask t fun ts => { ts with depsSched := false }).pauseContexts t) ∧
    ((s.updTask t fun ts => { ts with depsSched := false }).pauseContexts t).ctl = s.ctl ∧
    ((s.updTask t fun ts => { ts with depsSched := false }).pauseContexts t).active = s.active := by
  have hl := lt_of_task' hk
  have q0 : Quiet s (s.updTask t fun ts => { ts with depsSched := false }) := quiet_updTask s t _ (taskOk_depsSched false)
  have hk0 := q0.kind_task hk
  have hl0 := lt_of_task' hk0
  have hb0 : Blocked (s.updTask t fun ts => { ts with depsSched := false }) t := by
    refine blocked_forward hb ?_ (fun d => by simp)
    rw [task_updTask_self _ _ _ hl]
  rcases pauseContexts_facts _ t hk0 hb0 with ⟨e, _⟩ | ⟨hca, q2, hz⟩
  · rw [e]; exact ⟨q0.toT, q0.ctl, q0.active⟩
  · have q1 : QuietF (s.updTask t fun ts => { ts with depsSched := false })
        ((s.updTask t fun ts => { ts with depsSched := false }).updTask t fun ts => { ts with ctxActive := false }) :=
      quietF_updTask _ t _ (taskOkF_ctxActive false)
    refine ⟨⟨(q0.toQuietF.trans q1).trans q2.toQuietF, ?_, ?_, ?_, ?_, ?_⟩, q2.ctl.trans q0.ctl, q2.active.trans q0.active⟩
    · intro f o hkf h1 h2
      left
      have hk1 : ((State.updTask (s.updTask t fun ts => { ts with depsSched := false }) t
          fun ts => { ts with ctxActive := false }).fut f).kind = .task := by
        rw [kind_updTask, kind_updTask]; exact hkf
      exact (q0.toQuietF.trans q1).blocked (q2.tf f o hk1 (by rw [out_updTask, out_updTask]; exact h1) h2)
    · intro f h1 h2
      by_cases hft : f = t
      · subst hft; exact ⟨hb, hz⟩
      · exfalso
        have h3 := q0.ca f h1
        rw [← ca_updTask_ne _ t f (fun ts => { ts with ctxActive := false }) hft] at h3
        rw [q2.ca f h3] at h2; cases h2
    · intro f c hc
      left
      have h3 := q2.cxs f c hc
      refine q0.cxs f c ?_
      by_cases hft : f = t
      · subst hft; rw [task_updTask_self _ _ _ hl0] at h3; exact h3
      · rw [ca_updTask_ne _ t f _ hft] at h3; exact h3
    · intro c _; exact (q2.na c).trans (q0.na c)
    · rw [q2.clen]; exact Nat.le_of_eq q0.clen.symm

theorem handleTask_kind (s : State) (t r b : Nat) (rest : List Ctl) (hctl : s.ctl = .waitLoop r b :: rest)
    (hk : (s.fut t).kind = .task) (ho : s.out t = none) (hz : (s.task t).ctxActive = false → NAfree s t) :
    StepKind s (s.handleTask t) := by
  unfold State.handleTask
  simp only []
  split
  · rename_i hb
    have hbl := blocked_of_any hb
    split
    · obtain ⟨q, hc, ha⟩ := pause_quietT s t hk hbl
      exact .quiet (q.then_eq rfl rfl rfl rfl rfl) (ctlAct_same hc ha)
    · have q0 := quiet_updTask s t _ (taskOk_depsSched true)
      have q := q0.trans (quiet_resumeContexts _ t (q0.kind_task hk)
        (blocked_forward hbl (by rw [task_updTask_self _ _ _ (lt_of_task' hk)]) (fun d => by simp)))
      exact .ofQuietEq q rfl rfl rfl rfl (ctlAct_same q.ctl q.active)
  · rename_i hb
    split
    · exact .ofQuiet (quiet_fail _ _)
    · rename_i hre
      have q := quiet_resumeContexts_nofail s t hz
      refine .push (q.toT_eq rfl rfl rfl rfl) t r b rest hctl ?_ rfl ?_ hk ?_ ho ?_
      · show _ :: (s.resumeContexts t).ctl = _ :: s.ctl
        rw [q.ctl, q.active]
      · have := resumeContexts_active s t hk
        exact this
      · intro hm; exact hre (mem_gens_of_any hm)
      · intro d hd
        cases hc : s.computed d with
        | true => rfl
        | false =>
          exfalso; apply hb
          simp only [List.any_eq_true]
          exact ⟨d, hd, by simp [hc]⟩

/-! ### one iteration of `_execute` -/

theorem executeIter_kind (s : State) (r b : Nat) (rest : List Ctl) (hctl : s.ctl = .waitLoop r b :: rest)
    (hz : ∀ t, s.out t = none → (s.task t).ctxActive = false → NAfree s t) :
    StepKind s s.executeIter := by
  unfold State.executeIter
  split
  · exact .ofQuiet (quiet_fail _ _)
  · rename_i top _ _
    split
    · exact .ofQuietEq (Quiet.refl s) rfl rfl rfl rfl
        (Or.inr (Or.inl ⟨_, rest, hctl, rfl, by show List.tail s.ctl = rest; rw [hctl]; rfl, Or.inr rfl⟩))
    · split
      · exact .ofQuiet (quiet_of_eq rfl rfl rfl rfl rfl rfl)
      · rename_i hc
        split
        · rename_i hk
          exact handleTask_kind s top r b rest hctl hk (computed_false hc) (hz top (computed_false hc))
        · split
          · split
            · exact .ofQuiet (quiet_of_eq rfl rfl rfl rfl rfl rfl)
            · exact .ofQuiet (quiet_of_eq rfl rfl rfl rfl rfl rfl)
          · exact .ofQuiet (quiet_of_eq rfl rfl rfl rfl rfl rfl)
        · rename_i o hk
          exact .ofQuiet ((quiet_complete s top _ (by rw [hk]; intro h; cases h) (computed_false hc)
            (Or.inr (by rw [hk]; intro h; cases h)) (Or.inl (by rw [hk]; intro h; cases h))).trans
              (quiet_of_eq rfl rfl rfl rfl rfl rfl))
        · exact .ofQuiet (quiet_fail _ _)

/-! ### the scheduler flush -/

/-- what `schedulerFlush` needs of its result: quiet w.r.t. `s`, up to fields that are not tracked -/
structure FlushOk (s s' : State) (ctl : List Ctl) : Prop where
  q : QuietT s s'
  ctl : s'.ctl = ctl
  active : s'.active = s.active

theorem flush_tail (s s1 : State) (e e' : Event) (k q : Nat) (hf : s1.futs = s.futs) (ht : s1.trace = s.trace)
    (hb : s1.batches = s.batches) (hx : s1.ctxs = s.ctxs) (ha : s1.active = s.active) (hi : ItemsOk s)
    (he : isPlain e = true) (he' : isPlain e' = true) :
    FlushOk s (((s1.emit e).flushBatch k q).emit e') s1.ctl := by
  have q0 : QuietF s s1 := quietF_of_eq hf ht hb
  have q1 : Quiet s1 (s1.emit e) := quiet_emit _ _ he
  have q2 := quiet_flushBatch (s1.emit e) k q ((q0.trans q1.toQuietF).itemsOk hi)
  have q3 := (q1.trans q2).trans (quiet_emit _ _ he')
  refine ⟨⟨q0.trans q3.toQuietF, ?_, ?_, ?_, ?_, ?_⟩, q3.ctl, q3.active.trans ha⟩
  · intro f o hk h1 h2
    left
    have hb' := q3.tf f o (by unfold State.fut at hk ⊢; rw [hf]; exact hk) (by rw [out_of_futs hf]; exact h1) h2
    exact q0.blocked hb'
  · intro f h1 h2
    rw [q3.ca f (by rw [task_of_futs hf]; exact h1)] at h2; cases h2
  · intro f c hc
    left
    have := q3.cxs f c hc
    rw [task_of_futs hf] at this; exact this
  · intro c _; rw [q3.na c]; exact nonasync_congr hx c
  · rw [q3.clen, hx]; exact Nat.le_refl _

theorem flush_triv (s s1 : State) (hf : s1.futs = s.futs) (ht : s1.trace = s.trace)
    (hb : s1.batches = s.batches) (hx : s1.ctxs = s.ctxs) (ha : s1.active = s.active) : FlushOk s s1 s1.ctl :=
  ⟨(Quiet.refl s).toT_eq hf ht hb hx, rfl, ha⟩

theorem schedulerFlush_kind (s : State) (root b : Nat) (rest : List Ctl) (hctl : s.ctl = .waitLoop root b :: rest)
    (hi : ItemsOk s) : StepKind s (s.schedulerFlush root) := by
  have key : FlushOk s (s.schedulerFlush root) (.waitEnter root :: s.ctl.tail) := by
    unfold State.schedulerFlush
    simp only []
    repeat' split
    all_goals first
      | exact flush_triv s _ rfl rfl rfl rfl rfl
      | exact flush_tail s _ _ _ _ _ rfl rfl rfl rfl rfl hi rfl rfl
  exact .quiet key.q (Or.inr (Or.inr (Or.inr (Or.inl
    ⟨_, _, rest, hctl, by rw [key.ctl, hctl]; rfl, rfl, rfl, key.active⟩))))

/-! ### one instruction of the running task -/

theorem out_leaveGen (s : State) (t : Nat) (old : Option Nat) (f : Nat) : (s.leaveGen t old).out f = s.out f := by
  have : (s.leaveGen t old).out f = (s.updTask t fun ts => { ts with depsSched := false }).out f := rfl
  rw [this, out_updTask]

theorem finishTask_kind (s : State) (t : Nat) (old : Option Nat) (rest : List Ctl) (o : Outcome)
    (hctl : s.ctl = .gen t old :: rest) (hk : (s.fut t).kind = .task) : StepKind s (s.finishTask t old o) := by
  unfold State.finishTask
  split
  · exact .ofQuiet (quiet_fail _ _)
  · rename_i hc
    have q1 : Quiet s ((s.exitAll t).updTask t fun ts => { ts with pending := false }) :=
      (quiet_exitAll s t).trans (quiet_updTask _ _ _ taskOk_pendingFalse)
    have hk1 := q1.kind_task hk
    have q2 : QuietF ((s.exitAll t).updTask t fun ts => { ts with pending := false })
        (((s.exitAll t).updTask t fun ts => { ts with pending := false }).complete t o) := by
      refine quietF_complete _ t _ (by rw [hk1]; intro h; cases h) ?_ (Or.inl ?_)
      · rw [out_updTask, out_exitAll]; exact computed_false hc
      · have hk2 := (quiet_exitAll s t).kind_task hk
        rw [task_updTask_self _ _ _ (lt_of_kind _ _ (by rw [hk2]; intro h; cases h))]
    have c2 := ctxSame_complete ((s.exitAll t).updTask t fun ts => { ts with pending := false }) t o
    have q3 : Quiet (((s.exitAll t).updTask t fun ts => { ts with pending := false }).complete t o)
        ((((s.exitAll t).updTask t fun ts => { ts with pending := false }).complete t o).updTask t
          fun ts => { ts with depsSched := false }) := quiet_updTask _ t _ (taskOk_depsSched false)
    have hc' : (State.leaveGen (((s.exitAll t).updTask t fun ts => { ts with pending := false }).complete t o)
        t old).ctl = rest := by
      show List.tail (State.ctl (State.complete _ t o)) = rest
      rw [complete_ctl, q1.ctl, hctl]; rfl
    have cs := (q1.toCtxSame.trans c2).trans q3.toCtxSame
    refine .quiet ⟨((q1.toQuietF.trans q2).trans q3.toQuietF).then_eq rfl rfl rfl, ?_, ?_, ?_, ?_, ?_⟩
      (Or.inr (Or.inr (Or.inl ⟨t, old, rest, hctl, hc', rfl⟩)))
    · intro f o' hkf h1 h2
      by_cases hft : f = t
      · subst hft; exact Or.inr ⟨old, rest, hctl, hc'⟩
      · left
        have h2' := h2
        rw [out_leaveGen, out_complete] at h2'
        simp only [hft, false_and, if_false] at h2'
        exact q1.tf f o' hkf h1 h2'
    · intro f h1 h2
      have : (State.task (State.leaveGen (((s.exitAll t).updTask t
          fun ts => { ts with pending := false }).complete t o) t old) f).ctxActive = true := cs.ca f h1
      rw [this] at h2; cases h2
    · intro f c hcx; exact Or.inl (cs.cxs f c hcx)
    · intro c _; exact cs.na c
    · exact Nat.le_of_eq cs.clen.symm

theorem ctlAct_pushWait {s s' : State} (q : QuietF s s') (t f : Nat) (old : Option Nat) (rest : List Ctl)
    (hctl : s.ctl = .gen t old :: rest) (hp : (s.task t).pending = false) (h : s'.ctl = .waitEnter f :: s.ctl)
    (ha : s'.active = s.active) : CtlAct s s' := by
  refine Or.inr (Or.inr (Or.inr (Or.inr ⟨f, h, ha, ?_⟩)))
  intro t' old' rest' h'
  rw [hctl] at h'; injection h' with h1 h2; injection h1 with h1 h3; subst h1
  exact (q.fut t).pending_false hp

theorem updTask_updTask_futs (s : State) (t : Nat) (g h : TaskSt → TaskSt) :
    ((s.updTask t g).updTask t h).futs = (s.updTask t (fun ts => h (g ts))).futs := by
  by_cases hl : t < s.futs.length
  · have e := fut_updTask_self s t g hl
    unfold State.updTask at e ⊢
    rw [e]
    simp [State.setFut, List.set_set]
  · have e1 : ∀ (s : State) g, ¬ t < s.futs.length → (s.updTask t g).futs = s.futs := by
      intro s g h
      simp only [State.updTask, State.setFut]
      exact List.set_eq_of_length_le (by omega)
    rw [e1 _ _ (by rw [e1 s g hl]; exact hl), e1 s g hl, e1 s _ hl]

theorem coreStep_emit (s : State) (t : Nat) (g : TaskSt → TaskSt) (e : Event)
    (hg : ∀ ts, (g ts).ctxActive = ts.ctxActive ∧ (g ts).ctxs = ts.ctxs) :
    CoreStep s ((s.updTask t g).emit e) t g e := ⟨rfl, rfl, rfl, rfl, hg⟩

theorem coreStep_yield1 (s : State) (t : Nat) (g : TaskSt → TaskSt) (e : Event)
    (hg : ∀ ts, (g ts).ctxActive = ts.ctxActive ∧ (g ts).ctxs = ts.ctxs) :
    CoreStep s ((s.emit e).updTask t g) t g e := ⟨rfl, rfl, rfl, rfl, hg⟩

theorem coreStep_yield2 (s : State) (t : Nat) (old : Option Nat) (g : TaskSt → TaskSt) (e : Event)
    (hg : ∀ ts, (g ts).ctxActive = ts.ctxActive ∧ (g ts).ctxs = ts.ctxs) :
    CoreStep s (((s.emit e).updTask t g).leaveGen t old) t (fun ts => { g ts with depsSched := false }) e :=
  ⟨by
    show (((s.emit e).updTask t g).updTask t fun ts => { ts with depsSched := false }).futs = _
    exact updTask_updTask_futs (s.emit e) t g _, rfl, rfl, rfl, fun ts => hg ts⟩

theorem subset_extract (pre : List Nat) (ry : RY) : ∀ f ∈ ry.leaves, f ∈ pre ++ extractFutures ry := by
  intro f hf
  exact List.mem_append.2 (Or.inr ((mem_extractFutures ry f).2 hf))

theorem yield_kind (s : State) (t : Nat) (old : Option Nat) (rest : List Ctl) (hctl : s.ctl = .gen t old :: rest)
    (hp : (s.task t).pending = false) (ry : RY) (pre : List Nat) (g : TaskSt → TaskSt)
    (hg : ∀ ts, (g ts).pending = true ∧ (g ts).started = ts.started ∧ (g ts).resumes = ts.resumes ∧
        (g ts).lastY = ry ∧ (g ts).deps = pre ++ extractFutures ry)
    (hgc : ∀ ts, (g ts).ctxActive = ts.ctxActive ∧ (g ts).ctxs = ts.ctxs) :
    StepKind s (if (pre ++ extractFutures ry).isEmpty = true
      then (s.emit (.yield t (s.task t).resumes ry)).updTask t g
      else ((s.emit (.yield t (s.task t).resumes ry)).updTask t g).leaveGen t old) := by
  split
  · rename_i he
    exact .yield t old rest _ _ _ hctl hp hg (subset_extract _ _)
      (coreStep_yield1 _ _ _ _ hgc) (Or.inl ⟨rfl, rfl, by simpa using he⟩)
  · refine .yield t old rest _ ry (pre ++ extractFutures ry) hctl hp (fun ts => ?_) (subset_extract _ _)
      (coreStep_yield2 _ _ _ _ _ hgc) (Or.inr ⟨?_, rfl⟩)
    · exact hg ts
    · show List.tail _ = _
      simp [hctl]

theorem pushWait_kind (s s1 : State) (q : Quiet s s1) (t f : Nat) (old : Option Nat) (rest : List Ctl)
    (hctl : s.ctl = .gen t old :: rest) (hp : (s.task t).pending = false) :
    StepKind s { s1 with ctl := .waitEnter f :: s1.ctl } :=
  .ofQuietEq q rfl rfl rfl rfl
    (ctlAct_pushWait (q.toQuietF.then_eq rfl rfl rfl) t f old rest hctl hp (by show _ :: s1.ctl = _; rw [q.ctl])
      q.active)

/-- the quiet updates of the running task: everything but the tracked fields -/
local macro "taskok" : term => `(⟨fun _ => by simp, fun _ => by simp⟩)

theorem syncfut_kind (s s1 : State) (q : Quiet s s1) (hi : ItemsOk s) (t f : Nat) (old : Option Nat) (rest : List Ctl)
    (hctl : s.ctl = .gen t old :: rest) (hp : (s.task t).pending = false) :
    StepKind s (if s1.computed f then s1 else
      match (s1.fut f).kind with
      | .task => { s1 with ctl := .waitEnter f :: s1.ctl }
      | .item kind seq _ _ =>
        match s1.batch? kind seq with
        | some b => if b.flushed then s1 else s1.flushBatch kind seq
        | none => s1
      | .lazy o => s1.complete f (lazyOutcome o)
      | _ => s1) := by
  split
  · exact .ofQuiet q
  · rename_i hc
    split
    · exact pushWait_kind s s1 q t f old rest hctl hp
    · split
      · split
        · exact .ofQuiet q
        · exact .ofQuiet (q.trans (quiet_flushBatch _ _ _ (q.toQuietF.itemsOk hi)))
      · exact .ofQuiet q
    · rename_i o hk
      exact .ofQuiet (q.trans (quiet_complete _ _ _ (by rw [hk]; intro h; cases h) (computed_false hc)
        (Or.inr (by rw [hk]; intro h; cases h)) (Or.inl (by rw [hk]; intro h; cases h))))
    · exact .ofQuiet q

theorem quiet_addBatch (s : State) (b0 : Batch) (h0 : b0.items = []) :
    Quiet s { s with batches := s.batches ++ [b0] } := by
  refine ⟨⟨fun f => FutLe.refl _, ⟨[], rfl, by simp⟩, ?_⟩, ctxSame_of_eq rfl rfl rfl, rfl, tf_of_eq rfl⟩
  intro b hb i hi
  simp only [List.mem_append, List.mem_singleton] at hb
  cases hb with
  | inl hb => exact Or.inl ⟨b, hb, hi⟩
  | inr hb => subst hb; rw [h0] at hi; cases hi

theorem quiet_updBatch_add (s : State) (kind seq f : Nat) (hf : isItemKind (s.fut f).kind = true) :
    Quiet s (s.updBatch kind seq fun b => { b with items := b.items ++ [f] }) := by
  refine ⟨⟨fun f => FutLe.refl _, ⟨[], rfl, by simp⟩, ?_⟩, ctxSame_of_eq rfl rfl rfl, rfl, tf_of_eq rfl⟩
  intro b' hb' i hi
  simp only [State.updBatch, List.mem_map] at hb'
  obtain ⟨b, hb, rfl⟩ := hb'
  split at hi
  · simp only [List.mem_append, List.mem_singleton] at hi
    cases hi with
    | inl hi => exact Or.inl ⟨b, hb, hi⟩
    | inr hi => subst hi; exact Or.inr hf
  · exact Or.inl ⟨b, hb, hi⟩

theorem item_tail (s s0 : State) (q : Quiet s s0) (cb : Option Batch) (kind t : Nat) (x : Batch → Fut)
    (nk : Batch → NewKind) (hx : ∀ b, isItemKind (x b).kind = true ∧ (x b).ts.started = false ∧
      (x b).ts.resumes = 0 ∧ (x b).ts.lastY = .none ∧ (x b).ts.deps = [] ∧ (x b).ts.ctxs = [])
    (g : Batch → TaskSt → TaskSt) (hg : ∀ b, TaskOk (g b)) :
    StepKind s (match cb with
      | none => s0.fail "no batch"
      | some b =>
        ((s0.alloc (x b) (nk b)).1.updBatch kind b.seq fun b' =>
          { b' with items := b'.items ++ [(s0.alloc (x b) (nk b)).2] }).updTask t (g b)) := by
  cases cb with
  | none => exact .ofQuiet (q.trans (quiet_fail _ _))
  | some b =>
    obtain ⟨h1, h2, h3, h4, h5, h6⟩ := hx b
    refine .ofQuiet (((q.trans (quiet_alloc s0 _ _ h2 h3 h4 h5 h6)).trans (quiet_updBatch_add _ _ _ _ ?_)).trans
      (quiet_updTask _ _ _ (hg b)))
    rw [alloc_snd, fut_alloc]; simpa using h1

/-! `with c: ...`: the one instruction that creates a context object and registers it with the active task -/

theorem naList_append_left (l : List CtxSt) (x : CtxSt) (c : Nat) (h : c < l.length) :
    naList (l ++ [x]) c = naList l c := by
  unfold naList; rw [List.getElem?_append_left h]

/-- `enter_context`: the new context `cid` registers with the active task -/
@[reducible] def regCtx (s2 : State) (act : Option Nat) (cid : Nat) : State :=
  match act with
  | some a => s2.updTask a fun ts => { ts with ctxs := ts.ctxs ++ [cid] }
  | none => s2

theorem regCtx_facts (s2 : State) (act : Option Nat) (cid : Nat) :
    QuietF s2 (regCtx s2 act cid) ∧ (regCtx s2 act cid).ctl = s2.ctl ∧ (regCtx s2 act cid).active = s2.active ∧
    (regCtx s2 act cid).ctxs = s2.ctxs ∧ (∀ f, (regCtx s2 act cid).out f = s2.out f) ∧
    (∀ f, ((regCtx s2 act cid).task f).ctxActive = (s2.task f).ctxActive) ∧
    (∀ f, ∀ c ∈ ((regCtx s2 act cid).task f).ctxs, c ∈ (s2.task f).ctxs ∨ (act = some f ∧ c = cid)) := by
  cases act with
  | none =>
    exact ⟨QuietF.refl _, rfl, rfl, rfl, fun _ => rfl, fun _ => rfl, fun f c h => Or.inl h⟩
  | some a =>
    refine ⟨quietF_updTask _ a _ (fun _ => by simp), rfl, rfl, rfl, fun f => out_updTask _ _ _ _, ?_, ?_⟩
    · intro f
      show ((State.updTask s2 a _).task f).ctxActive = _
      unfold State.task; rw [fut_updTask]; split
      · rename_i h; rw [h.1]
      · rfl
    · intro f c hc
      have hc' : c ∈ ((State.updTask s2 a fun ts => { ts with ctxs := ts.ctxs ++ [cid] }).task f).ctxs := hc
      unfold State.task at hc'; rw [fut_updTask] at hc'; split at hc'
      · rename_i h
        simp only [List.mem_append, List.mem_singleton] at hc'
        rcases hc' with hc' | hc'
        · left; rw [h.1]; exact hc'
        · right; exact ⟨by rw [h.1], hc'⟩
      · exact Or.inl hc'

theorem withCtx_tail (s s2 : State) (x : CtxSt)
    (h2 : ∃ s1, Quiet s s1 ∧ s2 = { s1 with ctxs := s1.ctxs ++ [x] })
    (act : Option Nat) (hact : act = s2.active) (b : Bool) (t : Nat)
    (g : TaskSt → TaskSt) (hg : TaskOk g) :
    StepKind s ((if b = true then regCtx s2 act s.ctxs.length
      else (regCtx s2 act s.ctxs.length).ctxResumeOne s.ctxs.length).updTask t g) := by
  obtain ⟨s1, q1, rfl⟩ := h2
  obtain ⟨qM, hMctl, hMact, hMctxs, hMout, hMca, hMcxs⟩ :=
    regCtx_facts { s1 with ctxs := s1.ctxs ++ [x] } act s.ctxs.length
  generalize regCtx { s1 with ctxs := s1.ctxs ++ [x] } act s.ctxs.length = M at *
  have q12 : QuietF s1 { s1 with ctxs := s1.ctxs ++ [x] } := quietF_of_eq rfl rfl rfl
  -- after the optional resume()
  have hR : ∃ R : State, R = (if b = true then M else M.ctxResumeOne s.ctxs.length) ∧ Quiet M R := by
    refine ⟨_, rfl, ?_⟩
    cases b
    · exact quiet_ctxResumeOne _ _
    · exact Quiet.refl _
  obtain ⟨R, hRdef, qR⟩ := hR
  rw [← hRdef]
  have qF : Quiet R (R.updTask t g) := quiet_updTask _ _ _ hg
  have qRF := qR.trans qF
  have hact' : act = s.active := by rw [hact]; exact q1.active
  have hMctl' : M.ctl = s1.ctl := hMctl
  have hMact' : M.active = s1.active := hMact
  have hMctxs' : M.ctxs = s1.ctxs ++ [x] := hMctxs
  have hMout' : ∀ f, M.out f = s1.out f := hMout
  have hMca' : ∀ f, (M.task f).ctxActive = (s1.task f).ctxActive := hMca
  have hMcxs' : ∀ f, ∀ c ∈ (M.task f).ctxs, c ∈ (s1.task f).ctxs ∨ (act = some f ∧ c = s.ctxs.length) := hMcxs
  refine .quiet ⟨((q1.toQuietF.trans q12).trans qM).trans qRF.toQuietF, ?_, ?_, ?_, ?_, ?_⟩
    (ctlAct_same (qRF.ctl.trans (hMctl'.trans q1.ctl)) (qRF.active.trans (hMact'.trans q1.active)))
  · intro f o hk h1 h2
    left
    cases hM1 : M.out f with
    | none =>
      have hkM : (M.fut f).kind = .task := qM.kind_task (q12.kind_task (q1.kind_task hk))
      have hb := qRF.tf f o hkM hM1 h2
      exact ((q1.toQuietF.trans q12).trans qM).blocked hb
    | some o1 =>
      have := qRF.out hM1; rw [h2] at this; injection this with this; subst this
      rw [hMout'] at hM1
      exact q1.tf f o hk h1 hM1
  · intro f h1 h2
    have h3 : (M.task f).ctxActive = true := by rw [hMca']; exact q1.ca f h1
    rw [qRF.ca f h3] at h2; cases h2
  · intro f c hc
    rcases hMcxs' f c (qRF.cxs f c hc) with h | ⟨h3, h4⟩
    · exact Or.inl (q1.cxs f c h)
    · refine Or.inr ⟨by rw [← hact']; exact h3, h4, ?_⟩
      rw [qRF.clen, hMctxs', List.length_append, q1.clen]; simp
  · intro c hc
    rw [qRF.na c, ctxIsNonAsync_eq, hMctxs', naList_append_left _ _ _ (by rw [q1.clen]; exact hc)]
    exact q1.na c
  · rw [qRF.clen, hMctxs', List.length_append, q1.clen]; simp

theorem genStep_kind (s : State) (t : Nat) (old : Option Nat) (rest : List Ctl) (hctl : s.ctl = .gen t old :: rest)
    (hk : (s.fut t).kind = .task) (hi : ItemsOk s) : StepKind s (s.genStep t old) := by
  unfold State.genStep
  simp only []
  split
  · rename_i hp
    split
    · rename_i hs
      exact .run0 t old rest _ hctl hp (by simpa using hs) (fun ts => by simp)
        (coreStep_emit _ _ _ _ (fun ts => ⟨rfl, rfl⟩)) rfl rfl
    · rename_i hs
      have hs' : (s.task t).started = true := by simpa using hs
      split
      iterate 4
        · rename_i hu
          refine .run t old rest _ _ hctl hp hs' ?_ ?_ (coreStep_emit _ _ _ _ (fun ts => ⟨rfl, rfl⟩)) rfl rfl
          · rw [hu]; try rfl
          · intro ts
            refine ⟨rfl, rfl, rfl, rfl, fun d hd => ?_⟩
            split at hd
            · exact hd
            · cases hd
      · exact .ofQuiet (quiet_fail _ _)
  · rename_i hp
    have hp' : (s.task t).pending = false := by simpa using hp
    split
    · exact finishTask_kind s t old rest _ hctl hk
    · exact finishTask_kind s t old rest _ hctl hk
    · exact finishTask_kind s t old rest _ hctl hk
    · exact finishTask_kind s t old rest _ hctl hk
    · -- spawn
      exact .ofQuiet ((quiet_newTask s _ _).trans (quiet_updTask _ _ _ taskok))
    · -- item
      refine item_tail s _ ?_ _ _ t _ _ (fun b => ⟨rfl, rfl, rfl, rfl, rfl, rfl⟩) _ (fun b => taskok)
      split
      · exact Quiet.refl _
      · exact quiet_addBatch s _ rfl
    · exact .ofQuiet ((quiet_alloc s _ _ rfl rfl rfl rfl rfl).trans (quiet_updTask _ _ _ taskok))
    · exact .ofQuiet ((quiet_alloc s _ _ rfl rfl rfl rfl rfl).trans (quiet_updTask _ _ _ taskok))
    · exact .ofQuiet ((quiet_alloc s _ _ rfl rfl rfl rfl rfl).trans (quiet_updTask _ _ _ taskok))
    · -- yld
      exact yield_kind s t old rest hctl hp' _ _ _ (fun ts => ⟨rfl, rfl, rfl, rfl, rfl⟩) (fun ts => ⟨rfl, rfl⟩)
    · -- reyld
      exact yield_kind s t old rest hctl hp' _ _ _ (fun ts => ⟨rfl, rfl, rfl, rfl, rfl⟩) (fun ts => ⟨rfl, rfl⟩)
    · -- sync
      refine pushWait_kind s _ ?_ t _ old rest hctl hp'
      exact ((quiet_newTask s _ _).trans (quiet_updTask _ t _ taskok)).trans (quiet_emit _ _ rfl)
    · -- syncfut
      exact syncfut_kind s _ ((quiet_updTask s t _ taskok).trans (quiet_emit _ _ rfl)) hi t _ old rest hctl hp'
    · -- syncret
      split
      · exact .ofQuiet (quiet_fail _ _)
      · refine .ofQuiet (Quiet.trans ?_ (quiet_emit _ _ rfl))
        refine Quiet.trans ?_ (quiet_updTask _ _ _ taskok)
        exact quiet_of_eq rfl rfl rfl rfl rfl rfl
      · refine .ofQuiet (Quiet.trans ?_ (quiet_emit _ _ rfl))
        refine Quiet.trans ?_ (quiet_updTask _ _ _ taskok)
        exact quiet_of_eq rfl rfl rfl rfl rfl rfl
    · -- withCtx
      refine withCtx_tail s _ ?x ?h2 _ ?hact _ t _ taskok
      case h2 =>
        refine ⟨?s1, ?q, ?e⟩
        case e => exact rfl
        refine Quiet.trans ?_ (quiet_emit _ _ rfl)
        split
        · exact (sameC_svTouch _ _).quiet
        · exact Quiet.refl _
      case hact => rfl
    · -- endwith
      split
      · exact finishTask_kind s t old rest _ hctl hk
      · exact .ofQuiet ((quiet_ctxExit s _).trans (quiet_updTask _ _ _ taskok))
    · -- read
      exact .ofQuiet (((sameC_svTouch s _).quiet.trans (quiet_emit _ _ rfl)).trans (quiet_updTask _ _ _ taskok))
    · exact .ofQuiet ((quiet_emit _ _ rfl).trans (quiet_updTask _ _ _ taskok))

/-! ### the transition function -/

theorem quiet_finishTop (s : State) (f : Nat) : Quiet s (s.finishTop f) := by
  unfold State.finishTop
  simp only []
  refine Quiet.trans ?_ (quiet_emit _ _ rfl)
  refine Quiet.trans ?_ (quiet_emit _ _ rfl)
  refine Quiet.trans ?_ (quiet_emit _ _ rfl)
  exact quiet_of_eq rfl rfl rfl rfl rfl rfl

theorem step_kind (s : State) (hi : ItemsOk s) (hg : ∀ t ∈ gens s.ctl, (s.fut t).kind = .task)
    (hz : ∀ t, s.out t = none → (s.task t).ctxActive = false → NAfree s t) :
    StepKind s (step s) := by
  unfold step
  split
  · exact .ofQuiet (Quiet.refl _)
  · split
    · rename_i hctl
      split
      · exact .ofQuiet (quiet_finishTop _ _)
      · split
        · exact .ofQuiet (Quiet.refl _)
        · simp only []
          rename_i conv body rest' _
          have q : Quiet s (State.newTask (State.emit { s with tops := rest', topIdx := s.topIdx + 1 }
              (.top s.topIdx conv)) body []).1 := by
            refine Quiet.trans ?_ (quiet_newTask _ _ _)
            refine Quiet.trans ?_ (quiet_emit _ _ rfl)
            exact quiet_of_eq rfl rfl rfl rfl rfl rfl
          refine .ofQuietEq q rfl rfl rfl rfl (Or.inr (Or.inr (Or.inr (Or.inr ⟨s.futs.length, ?_, q.active, ?_⟩))))
          · show [_] = _ :: s.ctl
            rw [hctl]; rfl
          · intro t old rest h; rw [hctl] at h; cases h
    · rename_i root rest hctl
      have hpop : ∀ s' : State, s'.ctl = s.ctl.tail → s'.active = s.active → CtlAct s s' := fun s' h1 h2 =>
        Or.inr (Or.inl ⟨_, rest, hctl, rfl, by rw [h1, hctl]; rfl, Or.inl h2⟩)
      split
      · exact .ofQuietEq (Quiet.refl s) rfl rfl rfl rfl (hpop _ rfl rfl)
      · split
        · exact .ofQuietEq (Quiet.refl s) rfl rfl rfl rfl (hpop _ rfl rfl)
        · refine .ofQuietEq (Quiet.refl s) rfl rfl rfl rfl
            (Or.inr (Or.inr (Or.inr (Or.inl ⟨_, .waitLoop root s.stack.length, rest, hctl, ?_, rfl, rfl, rfl⟩))))
          show _ :: s.ctl.tail = _
          rw [hctl]; rfl
    · rename_i root base rest hctl
      have hpop : ∀ s' : State, s'.ctl = s.ctl.tail → s'.active = s.active → CtlAct s s' := fun s' h1 h2 =>
        Or.inr (Or.inl ⟨_, rest, hctl, rfl, by rw [h1, hctl]; rfl, Or.inl h2⟩)
      split
      · exact .ofQuietEq (Quiet.refl s) rfl rfl rfl rfl (hpop _ rfl rfl)
      · split
        · exact executeIter_kind s root base rest hctl hz
        · split
          · exact .ofQuietEq (Quiet.refl s) rfl rfl rfl rfl (hpop _ rfl rfl)
          · exact schedulerFlush_kind s root base rest hctl hi
    · rename_i t old rest hctl
      have hk := hg t (by rw [hctl]; simp [gens])
      repeat' split
      all_goals first
        | exact .ofQuiet (quiet_fail _ _)
        | exact genStep_kind s t old rest hctl hk hi

end AsynqModel.Core.P2
