import AsynqModel.Proofs.CtxExit
/-! `exit c`: the main lemma (helper for Theorems/C06c.lean) -/
namespace AsynqModel.Contexts

theorem CoreA_afterPause (defs : List Kind) (nvars : Nat) (r : St × List Call × Option Exc) (w : W) (c : Nat)
    (h : CoreA defs nvars r.1 w) (hc : ∀ o, (c, o) ∉ w.opened) : CoreA defs nvars (afterPause r c).1 w := by
  obtain ⟨f1, _, _, _, f5, _, _, f8, f9, f10⟩ := afterPause_fields r c
  have h2 := CoreA_cs defs nvars r.1 w h (afterPause r c).1.cs f8 f9
    (fun d o hm => f10 d (fun e => hc o (e ▸ hm)))
  exact CoreA_of_eq defs nvars _ _ w w h2 f1 rfl f5 rfl rfl rfl

theorem not_open_close (w : W) (c : Nat) : ∀ o, (c, o) ∉ (closeCtx w c).opened :=
  fun o hm => ((closeCtx_mem w c c o).mp hm).2 rfl

/-- the context gets its pause() (it is resumed) -/
theorem exit_resumed (defs : List Kind) (nvars : Nat) (s : St) (w : W) (h : Rel defs nvars s w) (c : Nat) (sb : St)
    (hcore : CoreA defs nvars sb (closeCtx w c)) (hph : sb.phase = s.phase) (hact : sb.active = s.active)
    (hst : sb.status = s.status) (hres : (!ownedOpen w c || w.act) = true) (hk : isAsyncCtx (kindOf defs c) = true) :
    ∃ w', watchExit defs nvars w c (obsOf (.exit c) (afterPause (pauseCtx defs sb c) c)) = .ok w' ∧
      Rel defs nvars (afterPause (pauseCtx defs sb c) c).1 w' := by
  obtain ⟨hc1, hev, hreg, hact1, hph1, hst1⟩ := pause_event defs nvars sb (closeCtx w c) c hcore
  obtain ⟨f1, f2, f3, f4, f5, f6, f7, f8, f9, f10⟩ := afterPause_fields (pauseCtx defs sb c) c
  have hpop := popOv_fields defs (closeCtx w c) c
  have hc2 : CoreA defs nvars (afterPause (pauseCtx defs sb c) c).1 (popOv defs (closeCtx w c) c) :=
    CoreA_afterPause defs nvars _ _ c hc1 (by rw [hpop.1]; exact not_open_close w c)
  have hstk : ∀ d ∈ (popOv defs (closeCtx w c) c).stk, d ∈ w.stk ∧ d ≠ c := by
    intro d hd
    obtain ⟨h1, h2⟩ := popOv_stk_sub defs (closeCtx w c) c d hd
    refine ⟨h1, ?_⟩
    cases hv : varOf defs c with
    | some x => exact h2 (by simp [hv])
    | none =>
      intro e; subst e
      obtain ⟨x, hx⟩ := h.core.stkOv d h1
      rw [hx] at hv; exact absurd hv (by simp)
  have hrel : Rel defs nvars (afterPause (pauseCtx defs sb c) c).1 (popOv defs (closeCtx w c) c) :=
    Rel_exit defs nvars s w h c _ _ hc2 hpop.1 hstk (by rw [f3, hph1, hph]) (by rw [f2, hact1, hact])
      (by rw [f4, hst1, hst]) hpop.2.1 hpop.2.2.1 hpop.2.2.2.1 (hpop.2.2.2.2.trans h.live)
  refine ⟨_, ?_, hrel⟩
  rw [watchExit_resumed defs nvars w c _ (pauseCtx defs sb c).2.2 hres hk (by simp only [obsOf, f6]; exact hev)
    (by simp only [obsOf, f7])]
  exact common_ok defs nvars _ _ hrel (.exit c) _ _

/-- the context gets no pause(): nothing but the bookkeeping changes -/
theorem exit_quiet (defs : List Kind) (nvars : Nat) (s : St) (w : W) (h : Rel defs nvars s w) (c : Nat) (sb : St)
    (hcore : CoreA defs nvars sb (closeCtx w c)) (hph : sb.phase = s.phase) (hact : sb.active = s.active)
    (hst : sb.status = s.status) (hns : c ∉ w.stk)
    (hw : ∀ ob : Obs, ob.calls = [] → ob.esc = .none → watchExit defs nvars w c ob = common defs nvars (closeCtx w c) ob) :
    ∃ w', watchExit defs nvars w c (obsOf (.exit c) (sb, [], .none)) = .ok w' ∧ Rel defs nvars sb w' := by
  have hrel : Rel defs nvars sb (closeCtx w c) :=
    Rel_exit defs nvars s w h c _ _ hcore rfl (fun d hd => ⟨hd, fun e => hns (e ▸ hd)⟩) hph hact hst rfl rfl rfl h.live
  refine ⟨_, ?_, hrel⟩
  rw [hw _ rfl rfl]
  exact common_ok defs nvars _ _ hrel (.exit c) _ _

theorem exit_sim (cfg : Cfg) (defs : List Kind) (nvars : Nat) (s : St) (w : W) (h : Rel defs nvars s w) (c : Nat) :
    Good defs nvars w (stepCore cfg defs s (.exit c)).1 (obsOf (.exit c) (stepCore cfg defs s (.exit c))) := by
  by_cases hlt : c < defs.length
  · have hstep : stepCore cfg defs s (.exit c) = exitOp cfg defs s c := by simp [stepCore, hlt]
    rw [hstep]
    by_cases hopen : isOpen w c = true
    · have hwatch : ∀ ob : Obs, ob.op = .exit c → watchStep defs nvars w ob = watchExit defs nvars w c ob := by
        intro ob hob
        unfold watchStep
        simp only [h.live, Bool.false_eq_true, if_false, hob, Nat.not_le.mpr hlt, hopen, Bool.not_true]
      obtain ⟨o, ho⟩ := (isOpen_iff w c).mp hopen
      have hattr := h.core.attr c o ho
      have hfin : ∀ r : St × List Call × Esc, (∃ w', watchExit defs nvars w c (obsOf (.exit c) r) = .ok w' ∧
          Rel defs nvars r.1 w') → Good defs nvars w r.1 (obsOf (.exit c) r) := by
        rintro r ⟨w', h1, h2⟩
        exact ⟨w', by rw [hwatch _ rfl]; exact h1, Or.inr h2⟩
      cases o with
      | false =>
        simp only [Bool.false_eq_true, if_false] at hattr
        have hno : ownedOpen w c = false := by
          cases hx : ownedOpen w c with
          | false => rfl
          | true => exact absurd (opened_unique w h.core.nodup c _ _ ho ((ownedOpen_iff w c).mp hx)) (by simp)
        have hnr : c ∉ s.reg := by
          rw [h.core.reg, mem_ownedIds]; intro hm
          exact absurd (opened_unique w h.core.nodup c _ _ ho hm) (by simp)
        have hcore : CoreA defs nvars s (closeCtx w c) := by
          have := CoreA_close defs nvars s w h.core c
          rw [filter_ne_of_not_mem _ _ hnr] at this
          exact this
        cases hk : kindOf defs c with
        | na =>
          rw [exitOp_noTask_na cfg defs s c hattr hk]
          have hns : c ∉ w.stk := fun hm => by
            obtain ⟨x, hx⟩ := h.core.stkOv c hm
            rw [varOf_na defs c hk] at hx; exact absurd hx (by simp)
          exact hfin _ (exit_quiet defs nvars s w h c s hcore rfl rfl rfl hns
            (fun ob h1 h2 => watchExit_na defs nvars w c ob hk h1 h2))
        | plain rr pr =>
          have hk' : isAsyncCtx (kindOf defs c) = true := by rw [hk]; rfl
          rw [exitOp_noTask_async cfg defs s c hattr hk']
          exact hfin _ (exit_resumed defs nvars s w h c s hcore rfl rfl rfl (by simp [hno]) hk')
        | ov x v =>
          have hk' : isAsyncCtx (kindOf defs c) = true := by rw [hk]; rfl
          rw [exitOp_noTask_async cfg defs s c hattr hk']
          exact hfin _ (exit_resumed defs nvars s w h c s hcore rfl rfl rfl (by simp [hno]) hk')
      | true =>
        simp only [if_true] at hattr
        have hyes : ownedOpen w c = true := (ownedOpen_iff w c).mpr ho
        have hin : c ∈ s.reg := by rw [h.core.reg, mem_ownedIds]; exact ho
        have hin' : s.reg.contains c = true := by simpa using hin
        have hnd : s.reg.Nodup := by rw [h.core.reg]; exact ownedIds_nodup w h.core.nodup
        have herase : s.reg.erase c = s.reg.filter (· != c) := hnd.erase_eq_filter c
        have hcore : CoreA defs nvars { s with reg := s.reg.erase c } (closeCtx w c) := by
          rw [herase]; exact CoreA_close defs nvars s w h.core c
        cases hk : kindOf defs c with
        | na =>
          rw [exitOp_task_na cfg defs s c hattr hin' hk]
          have hns : c ∉ w.stk := fun hm => by
            obtain ⟨x, hx⟩ := h.core.stkOv c hm
            rw [varOf_na defs c hk] at hx; exact absurd hx (by simp)
          exact hfin _ (exit_quiet defs nvars s w h c _ hcore rfl rfl rfl hns
            (fun ob h1 h2 => watchExit_na defs nvars w c ob hk h1 h2))
        | plain rr pr =>
          have hk' : isAsyncCtx (kindOf defs c) = true := by rw [hk]; rfl
          cases ha : s.active with
          | true =>
            rw [exitOp_task_active cfg defs s c hattr hin' hk' ha]
            have hwa : w.act = true := h.active.symm.trans ha
            exact hfin _ (exit_resumed defs nvars s w h c _ hcore rfl rfl rfl (by simp [hwa]) hk')
          | false =>
            rw [exitOp_task_paused cfg defs s c hattr hin' hk' ha]
            have hwa : w.act = false := h.active.symm.trans ha
            have hns : c ∉ w.stk := fun hm => by
              have := h.stkAct hwa c hm; rw [hyes] at this; exact absurd this (by simp)
            have hcore2 : CoreA defs nvars (delAttr { s with reg := s.reg.erase c } c) (closeCtx w c) :=
              CoreA_afterPause defs nvars ({ s with reg := s.reg.erase c }, [], none) (closeCtx w c) c hcore
                (not_open_close w c)
            exact hfin _ (exit_quiet defs nvars s w h c _ hcore2 rfl rfl rfl hns
              (fun ob h1 h2 => watchExit_paused defs nvars w c ob (by simp [hyes, hwa]) h1 h2))
        | ov x v =>
          have hk' : isAsyncCtx (kindOf defs c) = true := by rw [hk]; rfl
          cases ha : s.active with
          | true =>
            rw [exitOp_task_active cfg defs s c hattr hin' hk' ha]
            have hwa : w.act = true := h.active.symm.trans ha
            exact hfin _ (exit_resumed defs nvars s w h c _ hcore rfl rfl rfl (by simp [hwa]) hk')
          | false =>
            rw [exitOp_task_paused cfg defs s c hattr hin' hk' ha]
            have hwa : w.act = false := h.active.symm.trans ha
            have hns : c ∉ w.stk := fun hm => by
              have := h.stkAct hwa c hm; rw [hyes] at this; exact absurd this (by simp)
            have hcore2 : CoreA defs nvars (delAttr { s with reg := s.reg.erase c } c) (closeCtx w c) :=
              CoreA_afterPause defs nvars ({ s with reg := s.reg.erase c }, [], none) (closeCtx w c) c hcore
                (not_open_close w c)
            exact hfin _ (exit_quiet defs nvars s w h c _ hcore2 rfl rfl rfl hns
              (fun ob h1 h2 => watchExit_paused defs nvars w c ob (by simp [hyes, hwa]) h1 h2))
    · -- misuse: the block is not open - the observer stops making claims
      refine ⟨{ w with stopped := true }, ?_, Or.inl rfl⟩
      unfold watchStep
      have : isOpen w c = false := by simpa using hopen
      simp only [h.live, Bool.false_eq_true, if_false, obsOf, Nat.not_le.mpr hlt, this, Bool.not_false, if_true]
  · have e : stepCore cfg defs s (.exit c) = (s, [], .skip) := by simp [stepCore, hlt]
    rw [e]
    refine ⟨w, ?_, Or.inr h⟩
    unfold watchStep
    simp only [h.live, Bool.false_eq_true, if_false, obsOf, Nat.le_of_not_lt hlt, if_true]
    exact skip_sim defs nvars s w h (.exit c)

end AsynqModel.Contexts
