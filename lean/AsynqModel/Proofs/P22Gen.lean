import AsynqModel.Proofs.P22Upd
/-!
# P22, part 6: one instruction of a task body - the context, and `rest` after the instruction in terms of the state
# before it
-/
namespace AsynqModel.Core.P22
open AsynqModel.Core AsynqModel.Core.P22.SeqSV

/-- what is known when the generator of `t` is about to execute an instruction -/
structure GC (cfg : Cfg) (tops : List (Conv × Body)) (s : State) (g : Ghost) (t : Nat) (old : Option Nat)
    (rest : List Ctl) : Prop where
  sim : Sim cfg tops s g
  bnd : Bnd s
  good : P4.Good s
  hctl : s.ctl = .gen t old :: rest
  cfgEq : s.cfg = cfg
  active : s.active = some t
  called : g t ≠ none
  items : P2.ItemsOk s
  na : Inv.noNonAsync s = true

namespace GC
variable {cfg : Cfg} {tops : List (Conv × Body)} {s : State} {g : Ghost} {t : Nat} {old : Option Nat} {rest : List Ctl}

theorem kt (C : GC cfg tops s g t old rest) : (s.fut t).kind = .task := (C.good.top C.hctl).1
theorem out (C : GC cfg tops s g t old rest) : (s.fut t).out = none := (C.good.top C.hctl).2.1
theorem lt (C : GC cfg tops s g t old rest) : t < s.futs.length := (C.good.top C.hctl).2.2
theorem nct (C : GC cfg tops s g t old rest) : s.computed t = false := by
  simp [State.computed, State.out, C.out]

theorem info (C : GC cfg tops s g t old rest) : ∃ ip, g t = some ip := by
  cases h : g t with
  | none => exact absurd h C.called
  | some ip => exact ⟨ip, rfl⟩

/-- a task that is not suspended has started -/
theorem started_of_running (C : GC cfg tops s g t old rest) (hp : (s.task t).pending = false) :
    (s.task t).started = true := by
  cases hs : (s.task t).started with
  | true => rfl
  | false =>
    have := (C.sim.fresh t C.kt hs).1.pending
    rw [hp] at this; cases this

/-- the well-scopedness of the body of the running task -/
theorem ws (C : GC cfg tops s g t old rest) (hns : ∀ f k h, (s.task t).body ≠ .syncret f k h) :
    P4.ws (s.task t).body (s.task t).own.length (s.task t).inh.length
      (P4.contsK (s.task t).inh.length (s.task t).conts) = true := by
  have := C.good.fi.wsc t C.out
  rw [P4.wsTask_plain (s.fut t).ts hns] at this
  exact this

/-- when a task executes an instruction, every task it has called is finished -/
theorem nc (C : GC cfg tops s g t old rest) (hst : (s.genStep t old).stuck = none) :
    ∀ u ∈ (s.task t).own, g u ≠ none → s.computed u = true := by
  intro u hu hg
  obtain ⟨i, hi⟩ := P10.mem_getElem? hu
  cases hc : s.computed u with
  | true => rfl
  | false =>
    exfalso
    obtain ⟨_, hw⟩ := C.sim.waits t i u C.kt hi hg hc
    rcases hw with ⟨hp, hs, hl⟩ | ⟨hp, k, h, hb⟩
    · have hd := C.good.fi.depsOK t hp hs u hl
      have := C.good.ci.ready t old rest C.hctl hp hs u hd
      simp [State.computed, State.out] at hc
      exact this hc
    · have hr := C.good.ci.raising
      unfold State.genStep at hst
      simp only [hp, hb, hr, Bool.false_eq_true, if_false] at hst
      have : s.out u = none := by simpa [State.computed] using hc
      rw [this] at hst
      simp at hst

end GC

/-! ### the environment data of the state after a move, in terms of the state before -/

theorem den_fun_eq {s r : State} {t : Nat} (L : Lm s r t) (hlen : r.futs.length = s.futs.length) :
    (fun f => (r.fut f).den) = fun f => (s.fut f).den := by
  funext f
  rcases Nat.lt_or_ge f s.futs.length with h | h
  · exact (L.fut f h).2
  · rw [P4.fut_default s f h, P4.fut_default r f (by rw [hlen]; exact h)]

theorem dens_lm {s r : State} {t : Nat} (L : Lm s r t) {l : List Nat} (hl : ∀ f ∈ l, f < s.futs.length) :
    Inv.dens r l = Inv.dens s l := dens_congr (fun f hf => (L.fut f (hl f hf)).2)

theorem envOf_lm {s r : State} {t : Nat} (L : Lm s r t) (E : SvEnv) {cs : List Nat}
    (hc : ∀ c ∈ cs, c < s.ctxs.length) : envOf r E cs = envOf s E cs :=
  envOf_congr E (fun c h => ovOf_of_kindOf (L.kinds c (hc c h)))

/-- an own future of `t` as the sequential evaluator sees it, after a move of `t` -/
theorem kidOf_lm {cfg : Cfg} {tops : List (Conv × Body)} {s r : State} {g g' : Ghost} {t : Nat} (hS : Sim cfg tops s g)
    (L : Lm s r t) (hgt : g' t ≠ none) {f : Nat} (hf : f < s.futs.length) : kidOf r g' f = kidOf s g' f := by
  refine kidOf_congr rfl (L.fut f hf).1 ?_
  intro hg hk
  have hft : f ≠ t := by intro e; rw [e] at hg; exact hgt hg
  obtain ⟨h1, _, _, _, h5, _⟩ := P4.coreA_fields (L.task f hft hk).2
  refine ⟨h1, ?_⟩
  show Inv.dens r (r.fut f).ts.inh = Inv.dens s (s.fut f).ts.inh
  rw [h5]
  have : (s.fut f).ts.inh = [] := hS.inh f hk
  rw [this]; rfl

/-- `rest` of the task that moves, when its `own` list and the heap size stay -/
theorem rest_after {cfg : Cfg} {tops : List (Conv × Body)} {s r : State} {g g' : Ghost} {t : Nat}
    (hS : Sim cfg tops s g) (hB : Bnd s) (L : Lm s r t) (hlen : r.futs.length = s.futs.length) (hgt : g' t ≠ none)
    (hkt : (s.fut t).kind = .task) (hown : (r.task t).own = (s.task t).own) (hinh : (r.task t).inh = (s.task t).inh)
    (hc : r.computed t = false) (E : SvEnv) :
    rest cfg r g' t E =
      (headD cfg (envOf r E (cids (r.task t))) (fun f => (s.fut f).den) ((r.task t).pending && (r.task t).started)
        (r.task t).body [] ⟨(r.task t).env, Inv.dens s (s.task t).own, (s.task t).own.map (kidOf s g'), (r.task t).caught,
          (r.task t).prevYRef⟩).1 ++
      runFrames cfg r E [] (r.task t).conts
        (headD cfg (envOf r E (cids (r.task t))) (fun f => (s.fut f).den) ((r.task t).pending && (r.task t).started)
          (r.task t).body [] ⟨(r.task t).env, Inv.dens s (s.task t).own, (s.task t).own.map (kidOf s g'), (r.task t).caught,
            (r.task t).prevYRef⟩).2 := by
  have hi0 : (s.task t).inh = [] := hS.inh t hkt
  have hl : locOf r g' (r.task t) = ⟨(r.task t).env, Inv.dens s (s.task t).own, (s.task t).own.map (kidOf s g'),
      (r.task t).caught, (r.task t).prevYRef⟩ := by
    unfold locOf
    rw [hown, dens_lm L (fun f hf => hB.own t f hf),
      List.map_congr_left (fun f hf => kidOf_lm hS L hgt (hB.own t f hf))]
  unfold rest headRun
  rw [hc, hl, hinh, hi0, den_fun_eq L hlen]
  rfl

/-- `rest` of the running task before the move -/
theorem rest_before {cfg : Cfg} {tops : List (Conv × Body)} {s : State} {g : Ghost} {t : Nat}
    (hS : Sim cfg tops s g) (hkt : (s.fut t).kind = .task) (hc : s.computed t = false) (E : SvEnv) :
    rest cfg s g t E =
      (headD cfg (envOf s E (cids (s.task t))) (fun f => (s.fut f).den) ((s.task t).pending && (s.task t).started)
        (s.task t).body [] (locOf s g (s.task t))).1 ++
      runFrames cfg s E [] (s.task t).conts
        (headD cfg (envOf s E (cids (s.task t))) (fun f => (s.fut f).den) ((s.task t).pending && (s.task t).started)
          (s.task t).body [] (locOf s g (s.task t))).2 := by
  have hi0 : (s.task t).inh = [] := hS.inh t hkt
  unfold rest headRun
  rw [hc, hi0]
  rfl

/-- the obligations of a move that allocates nothing and keeps the `own` list of `t` -/
theorem mkUpd_same {cfg : Cfg} {tops : List (Conv × Body)} {s r : State} {g g' : Ghost} {t : Nat} {old : Option Nat}
    {rest' : List Ctl} {ip : Info} {mid : List Act}
    (C : GC cfg tops s g t old rest') (hst : (s.genStep t old).stuck = none) (hip : g t = some ip)
    (L : Lm s r t) (hlen : r.futs.length = s.futs.length)
    (hown : (r.task t).own = (s.task t).own) (hstd : (r.task t).started = true)
    (gmono : ∀ u iu, g u = some iu → g' u = some iu)
    (gnew : ∀ u iu, g u = none → g' u = some iu →
      ∃ i, (r.task t).own[i]? = some u ∧ (r.fut u).kind = .task ∧ (r.task u).started = false ∧
        iu.k = ip.k ∧ iu.ρ = ip.ρ ++ [i] ∧ iu.b = (r.task u).body ∧ iu.inh = Inv.dens r (r.task u).inh ∧
        iu.E = envOf r ip.E (cids (r.task t)) ∧ Act.call i iu.b iu.inh iu.E ∈ mid)
    (hsplit : rest cfg s g t ip.E = mid ++ rest cfg r g' t ip.E)
    (hrd : mreads t r.trace = mreads t s.trace ++ (reads mid).map rdVal)
    (hmc : ∀ i c ci E', Act.call i c ci E' ∈ mid →
      ∃ v iv, (r.task t).own[i]? = some v ∧ g' v = some iv ∧ iv.b = c ∧ iv.inh = ci ∧ iv.E = E')
    (hwn : ∀ (i u : Nat), (s.task t).own[i]? = some u → g u = none → g' u ≠ none →
      r.computed t = false ∧
      (((r.task t).pending = true ∧ (r.task t).started = true ∧ u ∈ (r.task t).lastY.leaves) ∨
       ((r.task t).pending = false ∧ ∃ k h, (r.task t).body = .syncret u k h)))
    (hinh : (r.task t).inh = [])
    (hns : nsBC (r.task t).body (r.task t).conts)
    (hsync : ∀ f k h, (r.task t).body = .syncret f k h → r.computed t = false →
      f ∈ (r.task t).own ∧ ((r.fut f).kind = .task → g' f ≠ none))
    (hdeps : ∀ d, d ∈ (r.task t).deps → (r.fut d).kind = .task → g' d ≠ none)
    (hprev : ∀ d, d ∈ (r.task t).prevY.leaves → (r.fut d).kind = .task → g' d ≠ none) :
    Upd cfg s r g g' t ip mid := by
  have hnc := C.nc hst
  refine
    { lm := L, gt := hip, kt := C.kt, nct := C.nct, started' := hstd, gmono := gmono, gnew := gnew, ownPre := ?_,
      ownNew := ?_, ownND := ?_, newF := ?_, split := hsplit, rd := hrd, midCalls := hmc, envOK := Or.inr hnc, waits := ?_,
      inh_t := hinh, ns_t := hns, sync_t := hsync, deps_t := hdeps, prev_t := hprev }
  · rw [hown]; exact List.prefix_refl _
  · intro i u ho hi
    rw [hown, List.getElem?_eq_none hi] at ho; cases ho
  · intro i j u hi hj
    rw [hown] at hi hj
    exact (C.sim.ownInj t t i j u C.kt C.kt hi hj).2
  · intro f hf hk
    have := lt_of_task r f hk
    omega
  · intro i u ho hg hc
    rw [hown] at ho
    cases hgu : g u with
    | none => exact hwn i u ho hgu hg
    | some iu =>
      exfalso
      have hne : g u ≠ none := by rw [hgu]; intro h; cases h
      have hcs := hnc u (List.mem_of_getElem? ho) hne
      have hut : u ≠ t := by intro e; rw [e, C.nct] at hcs; cases hcs
      have hku := C.sim.dom u iu hgu
      have : r.computed u = s.computed u := computed_of_out (L.task u hut hku).1
      rw [this, hcs] at hc; cases hc

end AsynqModel.Core.P22
