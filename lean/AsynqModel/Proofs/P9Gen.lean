import AsynqModel.Proofs.P9Sched
/-
  P9 (property C20), part 6: one instruction of a task body (`genStep`) under `P`.
-/
namespace AsynqModel.Core.P9
open AsynqModel.Core

theorem cong_of_strong (h : State → State) (C : ∀ s, P (h s) = h (P s)) {s s' : State} (e : P s = P s') :
    P (h s) = P (h s') := by rw [C, C, e]

theorem cong_of_weak (h : State → State) (W : ∀ s, P (h s) = P (h (P s))) {s s' : State} (e : P s = P s') :
    P (h s) = P (h s') := by rw [W s, W s', e]

theorem batch_eq (x y : Batch) (h1 : x.kind = y.kind) (h2 : x.seq = y.seq) (h3 : x.items = y.items)
    (h4 : x.flushed = y.flushed) : x = y := by
  cases x; cases y; simp_all

theorem projB_fl (x : Batch) (h : x.flushed = true) : projB x = { x with items := [] } := by
  simp [projB, h]

theorem norm_idem (e : Event) : norm (norm e) = norm e := by
  cases e <;> simp [norm]

theorem P_updBatch_weak (s : State) (k q : Nat) (g : Batch → Batch)
    (hk : ∀ b, (g b).kind = b.kind ∧ (g b).seq = b.seq ∧ (g b).flushed = b.flushed) :
    P (s.updBatch k q g) = P ((P s).updBatch k q g) := by
  simp only [State.updBatch, P, List.map_map]
  congr 1
  · exact (pfs_idem _ _ _ _ (fun _ h => h)).symm
  · apply List.map_congr_left
    intro b _
    simp only [Function.comp, projB_kind, projB_seq]
    split
    · cases hf : b.flushed
      · rw [projB_unflushed b hf]
      · obtain ⟨h1, h2, h3⟩ := hk b
        obtain ⟨h1', h2', h3'⟩ := hk (projB b)
        have e1 : projB (g b) = { g b with items := [] } := projB_fl _ (by rw [h3, hf])
        have e2 : projB (g (projB b)) = { g (projB b) with items := [] } :=
          projB_fl _ (by rw [h3', projB_flushed, hf])
        rw [e1, e2]
        apply batch_eq
        · simp [h1, h1']
        · simp [h2, h2']
        · rfl
        · simp [h3, h3']
    · simp
  · apply List.map_congr_left
    intro e _
    exact (norm_idem e).symm

/-- the task is in the innermost generator frame -/
theorem inFrame_head {s : State} {t : Nat} {o rest} (h : s.ctl = .gen t o :: rest) : inFrame s.ctl t = true := by
  simp [h]

/-- what the task yields if its next instruction is a yield -/
def yielded (s : State) (t : Nat) : Option RY :=
  match (s.task t).body with
  | .yld y _ _ => some (y.mapLeaves (s.task t).resolve)
  | .reyld _ _ => some (s.task t).prevY
  | _ => none

/-- with KEEP_DEPENDENCIES, a yield without futures after an earlier yield returns to the scheduler, which re-enters
    the generator at once; without it the generator keeps running -/
def Stutter (s : State) (t : Nat) : Prop :=
  s.cfg.keepDeps = true ∧ (s.task t).pending = false ∧
    ∃ ry, yielded s t = some ry ∧ extractFutures ry = [] ∧ (s.task t).deps ≠ []

/-! ### the branches of `genStep`, one definition each -/

def gStart (s : State) (t : Nat) : State :=
  (s.updTask t fun ts => { ts with pending := false, started := true, lastY := .none, deps := [] }).emit
    (.run t 0 true .start)

def rOk (kd : Bool) (i : Nat) (v : Val) (k : Body) (ts : TaskSt) : TaskSt :=
  { ts with pending := false, lastY := .none, deps := if kd then ts.deps else [], resumes := i, env := ts.env ++ [v], body := k }

def rErr (kd : Bool) (i : Nat) (e : Err) (h : Body) (ts : TaskSt) : TaskSt :=
  { ts with pending := false, lastY := .none, deps := if kd then ts.deps else [], resumes := i, caught := some e, body := h }

def gResume (s : State) (t : Nat) (kd : Bool) (i : Nat) (dc : Bool) (r : Except Err Val) (k h : Body) : State :=
  match r with
  | .ok v => (s.updTask t (rOk kd i v k)).emit (.run t i dc (.out (.ok v)))
  | .error e => (s.updTask t (rErr kd i e h)).emit (.run t i dc (.out (.err e)))

def gSpawn (s : State) (t : Nat) (child : Body) (inh : List Nat) (k : Body) : State :=
  (s.newTask child inh).1.updTask t fun ts => { ts with own := ts.own ++ [(s.newTask child inh).2], body := k }

def gAlloc (s : State) (t : Nat) (x : Fut) (nk : NewKind) (k : Body) : State :=
  (s.alloc x nk).1.updTask t fun ts => { ts with own := ts.own ++ [(s.alloc x nk).2], body := k }

def ensureBatch (s : State) (kind : Nat) : State :=
  match s.curBatch? kind with
  | some _ => s
  | none => { s with batches := s.batches ++ [({ kind := kind, seq := 0 } : Batch)] }

def gItem (s : State) (t : Nat) (kind payload : Nat) (mode : ItemMode) (k : Body) : State :=
  let s := ensureBatch s kind
  match s.curBatch? kind with
  | none => s.fail "no batch"
  | some b =>
    let p := s.alloc { kind := .item kind b.seq payload mode, den := itemOutcome s.cfg kind payload mode }
      (.item kind b.seq b.items.length payload mode)
    let s := p.1.updBatch kind b.seq fun b => { b with items := b.items ++ [p.2] }
    s.updTask t fun ts => { ts with own := ts.own ++ [p.2], body := k }

def gYield (s : State) (t : Nat) (old : Option Nat) (i : Nat) (deps : List Nat) (ry : RY) (g : TaskSt → TaskSt) : State :=
  let s := (s.emit (.yield t i ry)).updTask t g
  if deps.isEmpty then s else s.leaveGen t old

def gSync (s : State) (t : Nat) (child : Body) (inh : List Nat) (k h : Body) : State :=
  let p := s.newTask child inh
  let s := (p.1.updTask t fun ts => { ts with own := ts.own ++ [p.2], body := .syncret p.2 k h }).emit (.syncE t p.2)
  { s with ctl := .waitEnter p.2 :: s.ctl }

def gSyncfut (s : State) (t : Nat) (f : Nat) (k h : Body) : State :=
  let s := (s.updTask t fun ts => { ts with body := .syncret f k h }).emit (.syncE t f)
  if s.computed f then s else
  match (s.fut f).kind with
  | .task => { s with ctl := .waitEnter f :: s.ctl }
  | .item kind seq _ _ =>
    match s.batch? kind seq with
    | some b => if b.flushed then s else s.flushBatch kind seq
    | none => s
  | .lazy o => s.complete f (lazyOutcome o)
  | _ => s

def gSyncret (s : State) (t : Nat) (f : Nat) (k h : Body) (o : Option Outcome) : State :=
  match o with
  | none => s.fail "value() returned without an outcome"
  | some (.ok v) =>
    ({ s with raising := none }.updTask t fun ts => { ts with env := ts.env ++ [v], body := k }).emit (.syncX t f (.ok v))
  | some (.err e) =>
    ({ s with raising := none }.updTask t fun ts => { ts with caught := some e, body := h }).emit (.syncX t f (.err e))

def gWith (s : State) (t : Nat) (c : CtxKind) (b k : Body) : State :=
  let cid := s.ctxs.length
  let s := P3.wc5 (P3.wc4 (P3.wc3 (P3.wc1 s c) cid t c) cid) c cid
  s.updTask t fun ts => { ts with conts := (cid, k) :: ts.conts, body := b }

def gEndwith (s : State) (t : Nat) (old : Option Nat) (conts : List (Nat × Body)) : State :=
  match conts with
  | [] => s.finishTask t old (.ok .none)
  | (cid, k) :: rest => (s.ctxExit cid).updTask t fun ts => { ts with conts := rest, body := k }

def gRead (s : State) (t : Nat) (var : Nat) (k : Body) : State :=
  let s := s.svTouch var
  (s.emit (.read t var (.a (s.svGet var)))).updTask t fun ts => { ts with body := k }

def gActive (s : State) (t : Nat) (k : Body) : State :=
  (s.emit (.active t s.active)).updTask t fun ts => { ts with body := k }

/-! ### `genStep` is these branches -/

section eqs
variable (s : State) (t : Nat) (old : Option Nat)

theorem genStep_start (hp : (s.task t).pending = true) (hs : (s.task t).started = false) :
    s.genStep t old = gStart s t := by
  unfold State.genStep; simp only [hp, hs]; rfl

theorem genStep_resume_yld (y k h) (hp : (s.task t).pending = true) (hs : (s.task t).started = true)
    (hb : (s.task t).body = .yld y k h) :
    s.genStep t old = gResume s t s.cfg.keepDeps ((s.task t).resumes + 1) ((s.task t).lastY.leaves.all s.computed)
      (unwrap s.out (s.task t).lastY) k h := by
  unfold State.genStep gResume rOk rErr; simp only [hp, hs, hb]
  cases unwrap s.out (s.task t).lastY <;> rfl

theorem genStep_resume_reyld (k h) (hp : (s.task t).pending = true) (hs : (s.task t).started = true)
    (hb : (s.task t).body = .reyld k h) :
    s.genStep t old = gResume s t s.cfg.keepDeps ((s.task t).resumes + 1) ((s.task t).lastY.leaves.all s.computed)
      (unwrap s.out (s.task t).lastY) k h := by
  unfold State.genStep gResume rOk rErr; simp only [hp, hs, hb]
  cases unwrap s.out (s.task t).lastY <;> rfl

theorem genStep_resume_bad (hp : (s.task t).pending = true) (hs : (s.task t).started = true)
    (hb : ∀ y k h, (s.task t).body ≠ .yld y k h) (hb' : ∀ k h, (s.task t).body ≠ .reyld k h) :
    s.genStep t old = s.fail "suspended task is not at a yield" := by
  unfold State.genStep
  simp only [hp, hs, Bool.not_true, Bool.false_eq_true, ↓reduceIte]
  split
  · exact absurd ‹_› (hb _ _ _)
  · exact absurd ‹_› (hb _ _ _)
  · exact absurd ‹_› (hb' _ _)
  · exact absurd ‹_› (hb' _ _)
  · rfl

theorem genStep_ret (tag) (hp : (s.task t).pending = false) (hb : (s.task t).body = .ret tag) :
    s.genStep t old = s.finishTask t old (.ok (.node tag (s.task t).env)) := by
  unfold State.genStep; simp only [hp, hb]; rfl

theorem genStep_res (tag) (hp : (s.task t).pending = false) (hb : (s.task t).body = .res tag) :
    s.genStep t old = s.finishTask t old (.ok (.node tag (s.task t).env)) := by
  unfold State.genStep; simp only [hp, hb]; rfl

theorem genStep_raise (e) (hp : (s.task t).pending = false) (hb : (s.task t).body = .raise e) :
    s.genStep t old = s.finishTask t old (.err (.u e)) := by
  unfold State.genStep; simp only [hp, hb]; rfl

theorem genStep_reraise (hp : (s.task t).pending = false) (hb : (s.task t).body = .reraise) :
    s.genStep t old = s.finishTask t old (.err ((s.task t).caught.getD (.u 0))) := by
  unfold State.genStep; simp only [hp, hb]; rfl

theorem genStep_spawn (child pass k) (hp : (s.task t).pending = false) (hb : (s.task t).body = .spawn child pass k) :
    s.genStep t old = gSpawn s t child (pass.map (s.task t).resolve) k := by
  unfold State.genStep; simp only [hp, hb]; rfl

theorem genStep_item (kind payload mode k) (hp : (s.task t).pending = false)
    (hb : (s.task t).body = .item kind payload mode k) :
    s.genStep t old = gItem s t kind payload mode k := by
  unfold State.genStep; simp only [hp, hb]; rfl

theorem genStep_const (v k) (hp : (s.task t).pending = false) (hb : (s.task t).body = .const v k) :
    s.genStep t old = gAlloc s t { kind := .const, out := some (.ok (.a v)), den := .ok (.a v) } (.const v) k := by
  unfold State.genStep; simp only [hp, hb]; rfl

theorem genStep_errfut (e k) (hp : (s.task t).pending = false) (hb : (s.task t).body = .errfut e k) :
    s.genStep t old = gAlloc s t { kind := .errfut, out := some (.err (.u e)), den := .err (.u e) } (.errfut e) k := by
  unfold State.genStep; simp only [hp, hb]; rfl

theorem genStep_lazy (o k) (hp : (s.task t).pending = false) (hb : (s.task t).body = .lazy o k) :
    s.genStep t old = gAlloc s t { kind := .lazy o, den := lazyOutcome o } .lazy k := by
  unfold State.genStep; simp only [hp, hb]; rfl

theorem genStep_yld (y k h) (hp : (s.task t).pending = false) (hb : (s.task t).body = .yld y k h) :
    s.genStep t old = gYield s t old (s.task t).resumes
      ((if s.cfg.keepDeps then (s.task t).deps else []) ++ extractFutures (y.mapLeaves (s.task t).resolve))
      (y.mapLeaves (s.task t).resolve)
      (fun ts => { ts with pending := true, lastY := y.mapLeaves (s.task t).resolve,
                           prevY := y.mapLeaves (s.task t).resolve, prevYRef := y,
                           deps := (if s.cfg.keepDeps then (s.task t).deps else []) ++
                             extractFutures (y.mapLeaves (s.task t).resolve) }) := by
  unfold State.genStep; simp only [hp, hb]; rfl

theorem genStep_reyld (k h) (hp : (s.task t).pending = false) (hb : (s.task t).body = .reyld k h) :
    s.genStep t old = gYield s t old (s.task t).resumes
      ((if s.cfg.keepDeps then (s.task t).deps else []) ++ extractFutures (s.task t).prevY)
      (s.task t).prevY
      (fun ts => { ts with pending := true, lastY := (s.task t).prevY,
                           deps := (if s.cfg.keepDeps then (s.task t).deps else []) ++
                             extractFutures (s.task t).prevY }) := by
  unfold State.genStep; simp only [hp, hb]; rfl

theorem genStep_sync (child pass k h) (hp : (s.task t).pending = false)
    (hb : (s.task t).body = .sync child pass k h) :
    s.genStep t old = gSync s t child (pass.map (s.task t).resolve) k h := by
  unfold State.genStep; simp only [hp, hb]; rfl

theorem genStep_syncfut (r k h) (hp : (s.task t).pending = false) (hb : (s.task t).body = .syncfut r k h) :
    s.genStep t old = gSyncfut s t ((s.task t).resolve r) k h := by
  unfold State.genStep; simp only [hp, hb]; rfl

theorem genStep_syncret (f k h) (hp : (s.task t).pending = false) (hb : (s.task t).body = .syncret f k h) :
    s.genStep t old = gSyncret s t f k h (match s.raising with | some e => some (.err e) | none => s.out f) := by
  unfold State.genStep gSyncret; simp only [hp, hb]
  cases s.raising <;> rfl

theorem genStep_withCtx (c b k) (hp : (s.task t).pending = false) (hb : (s.task t).body = .withCtx c b k) :
    s.genStep t old = gWith s t c b k := by
  unfold State.genStep; simp only [hp, hb]; rfl

theorem genStep_endwith (hp : (s.task t).pending = false) (hb : (s.task t).body = .endwith) :
    s.genStep t old = gEndwith s t old (s.task t).conts := by
  unfold State.genStep gEndwith; simp only [hp, hb]
  cases (s.task t).conts <;> rfl

theorem genStep_read (var k) (hp : (s.task t).pending = false) (hb : (s.task t).body = .read var k) :
    s.genStep t old = gRead s t var k := by
  unfold State.genStep; simp only [hp, hb]; rfl

theorem genStep_active (k) (hp : (s.task t).pending = false) (hb : (s.task t).body = .active k) :
    s.genStep t old = gActive s t k := by
  unfold State.genStep; simp only [hp, hb]; rfl

end eqs


/-! ### the branches under `P` -/

theorem P_updTask1 (s : State) (t : Nat) (g : TaskSt → TaskSt) (hfr : inFrame s.ctl t = true)
    (hg : ∀ ts, projT true (g ts) = g (projT true ts)) : P (s.updTask t g) = (P s).updTask t g :=
  P_updTask2 s t g g true hfr hg

@[simp] theorem norm_run (t i dc r) : norm (.run t i dc r) = .run t i dc r := rfl
@[simp] theorem norm_yield (t i y) : norm (.yield t i y) = .yield t i y := rfl
@[simp] theorem norm_syncE (t f) : norm (.syncE t f) = .syncE t f := rfl
@[simp] theorem norm_syncX (t f o) : norm (.syncX t f o) = .syncX t f o := rfl
@[simp] theorem norm_read (t v x) : norm (.read t v x) = .read t v x := rfl
@[simp] theorem norm_active (t a) : norm (.active t a) = .active t a := rfl
@[simp] theorem norm_ctxN (c t k) : norm (.ctxN c t k) = .ctxN c t k := rfl

theorem P_updTask_emit (s : State) (t : Nat) (g : TaskSt → TaskSt) (e : Event) (hfr : inFrame s.ctl t = true)
    (hg : ∀ ts, projT true (g ts) = g (projT true ts)) :
    P ((s.updTask t g).emit e) = ((P s).updTask t g).emit (norm e) := by
  rw [P_emit, P_updTask1 s t g hfr hg]

section comm
variable (s : State) (t : Nat) (hfr : inFrame s.ctl t = true)
include hfr

theorem P_gStart : P (gStart s t) = gStart (P s) t := by
  unfold gStart
  exact P_updTask_emit _ _ _ _ hfr (by intro ts; simp [projT])

theorem P_gResume (kd : Bool) (i : Nat) (dc : Bool) (r : Except Err Val) (k h : Body) :
    P (gResume s t kd i dc r k h) = gResume (P s) t false i dc r k h := by
  unfold gResume
  cases r with
  | ok v =>
    simp only
    rw [P_emit, P_updTask2 s t (rOk kd i v k) (rOk false i v k) true hfr
      (by intro ts; cases kd <;> simp [projT, rOk])]
    rfl
  | error e =>
    simp only
    rw [P_emit, P_updTask2 s t (rErr kd i e h) (rErr false i e h) true hfr
      (by intro ts; cases kd <;> simp [projT, rErr])]
    rfl

theorem P_gSpawn (child : Body) (inh : List Nat) (k : Body) :
    P (gSpawn s t child inh k) = gSpawn (P s) t child inh k := by
  unfold gSpawn
  refine (P_updTask1 _ _ _ ?_ ?_).trans ?_
  · exact hfr
  · intro ts; rfl
  rw [P_newTask_fst, P_newTask_snd]

theorem P_gAlloc (x : Fut) (nk : NewKind) (k : Body)
    (h1 : x.ts.deps = extractFutures x.ts.lastY) (h2 : x.ts.depsSched = false) :
    P (gAlloc s t x nk k) = gAlloc (P s) t x nk k := by
  unfold gAlloc
  refine (P_updTask1 _ _ _ ?_ ?_).trans ?_
  · exact hfr
  · intro ts; rfl
  rw [P_alloc_fst _ _ _ h1 h2, P_alloc_snd]

theorem P_gYield (old o' : Option Nat) (rest : List Ctl) (hctl : s.ctl = .gen t o' :: rest)
    (i : Nat) (deps deps' : List Nat) (ry : RY) (g g' : TaskSt → TaskSt)
    (hde : deps.isEmpty = deps'.isEmpty) (hg : ∀ ts, projT true (g ts) = g' (projT true ts)) :
    P (gYield s t old i deps ry g) = gYield (P s) t old i deps' ry g' := by
  unfold gYield
  simp only [hde]
  have e1 : P ((s.emit (.yield t i ry)).updTask t g) = ((P s).emit (.yield t i ry)).updTask t g' := by
    rw [P_updTask2 (s.emit (.yield t i ry)) t g g' true hfr hg, P_emit]; rfl
  rw [apply_ite P, P_leaveGen ((s.emit (.yield t i ry)).updTask t g) t old o' rest hctl, e1]

theorem P_gSync (child : Body) (inh : List Nat) (k h : Body) :
    P (gSync s t child inh k h) = gSync (P s) t child inh k h := by
  unfold gSync
  simp only
  refine (P_setCtl _ _ (fun u => by simp)).trans ?_
  have e1 := P_updTask_emit (s.newTask child inh).1 t
    (fun ts => { ts with own := ts.own ++ [(s.newTask child inh).2], body := .syncret (s.newTask child inh).2 k h })
    (.syncE t (s.newTask child inh).2) hfr (fun _ => rfl)
  rw [e1, P_newTask_fst, P_newTask_snd]
  rfl

theorem P_gSyncret (f : Nat) (k h : Body) (o : Option Outcome) :
    P (gSyncret s t f k h o) = gSyncret (P s) t f k h o := by
  unfold gSyncret
  cases o with
  | none => rfl
  | some o =>
    cases o with
    | ok v => exact P_updTask_emit { s with raising := none } _ _ _ hfr (fun _ => rfl)
    | err e => exact P_updTask_emit { s with raising := none } _ _ _ hfr (fun _ => rfl)

theorem P_gRead (var : Nat) (k : Body) : P (gRead s t var k) = gRead (P s) t var k := by
  unfold gRead
  simp only
  have hc : (s.svTouch var).ctl = s.ctl := (P3.q_svTouch (P := P3.N) s var).ctl
  refine (P_updTask1 _ _ _ ?_ ?_).trans ?_
  · show inFrame (s.svTouch var).ctl t = true
    rw [hc]; exact hfr
  · intro ts; rfl
  have e2 : ((P s).svTouch var).svGet var = (s.svTouch var).svGet var := by rw [← P_svTouch]; rfl
  rw [P_emit, P_svTouch, e2]
  rfl

theorem P_gActive (k : Body) : P (gActive s t k) = gActive (P s) t k := by
  unfold gActive
  refine (P_updTask1 _ _ _ ?_ ?_).trans ?_
  · exact hfr
  · intro ts; rfl
  rw [P_emit]
  rfl

end comm


/-! ### `syncfut`, `withCtx`, `endwith`, `item` -/

/-- the part of `gSyncfut` after the bookkeeping, with its reads made parameters -/
def sfCore (s : State) (f : Nat) (comp : Bool) (k : FKind) (fl : Nat → Nat → Option Bool) : State :=
  if comp then s else
  match k with
  | .task => { s with ctl := .waitEnter f :: s.ctl }
  | .item kind seq _ _ =>
    match fl kind seq with
    | some b => if b then s else s.flushBatch kind seq
    | none => s
  | .lazy o => s.complete f (lazyOutcome o)
  | _ => s

theorem gSyncfut_eq (s : State) (t f : Nat) (k h : Body) :
    gSyncfut s t f k h =
      let s1 := (s.updTask t fun ts => { ts with body := .syncret f k h }).emit (.syncE t f)
      sfCore s1 f (s1.computed f) (s1.fut f).kind (fun kind seq => (s1.batch? kind seq).map (·.flushed)) := by
  unfold gSyncfut sfCore
  simp only
  split
  · rfl
  · cases hk : (((s.updTask t fun ts => { ts with body := .syncret f k h }).emit (.syncE t f)).fut f).kind with
    | task => rfl
    | item kind seq pl md =>
      simp only
      cases ((s.updTask t fun ts => { ts with body := .syncret f k h }).emit (.syncE t f)).batch? kind seq <;> rfl
    | «lazy» o => rfl
    | const => rfl
    | errfut => rfl

theorem P_sfCore (s : State) (f : Nat) (comp : Bool) (k : FKind) (fl : Nat → Nat → Option Bool)
    (hfl : ∀ kind seq, fl kind seq = (s.batch? kind seq).map (·.flushed)) :
    P (sfCore s f comp k fl) = sfCore (P s) f comp k fl := by
  unfold sfCore
  cases comp with
  | true => rfl
  | false =>
    simp only [Bool.false_eq_true, if_false]
    cases k with
    | task => exact P_setCtl _ _ (fun u => by simp)
    | item kind seq pl md =>
      simp only
      cases hb : fl kind seq with
      | none => rfl
      | some b =>
        cases b with
        | true => rfl
        | false =>
          simp only [Bool.false_eq_true, if_false]
          apply P_flushBatch
          intro b' hb'
          have := hfl kind seq
          rw [hb, hb'] at this
          simpa using this.symm
    | «lazy» o => exact P_complete _ _ _
    | const => rfl
    | errfut => rfl

theorem P_gSyncfut (s : State) (t : Nat) (hfr : inFrame s.ctl t = true) (f : Nat) (k h : Body) :
    P (gSyncfut s t f k h) = gSyncfut (P s) t f k h := by
  rw [gSyncfut_eq, gSyncfut_eq]
  simp only
  have e1 : P ((s.updTask t fun ts => { ts with body := .syncret f k h }).emit (.syncE t f)) =
      ((P s).updTask t fun ts => { ts with body := .syncret f k h }).emit (.syncE t f) :=
    P_updTask_emit s t _ _ hfr (fun _ => rfl)
  rw [← e1]
  generalize ((s.updTask t fun ts => { ts with body := .syncret f k h }).emit (.syncE t f)) = s1
  simp only [P_computed, P_fut, projF_kind, P_batch?, Option.map_map]
  have : ((fun x : Batch => x.flushed) ∘ projB) = fun x => x.flushed := by funext b; simp
  rw [this]
  exact P_sfCore s1 f _ _ _ (fun _ _ => rfl)

theorem P_wc1 (s : State) (c : CtxKind) : P (P3.wc1 s c) = P3.wc1 (P s) c := by
  unfold P3.wc1
  cases c <;> first | rfl | exact P_svTouch _ _

theorem P_wc3 (s : State) (cid t : Nat) (c : CtxKind) : P (P3.wc3 s cid t c) = P3.wc3 (P s) cid t c := rfl

theorem P_wc4 (s : State) (cid : Nat) : P (P3.wc4 s cid) = P3.wc4 (P s) cid := by
  unfold P3.wc4
  simp only [P_active]
  cases s.active with
  | none => rfl
  | some a => exact P_updTask _ _ _ (fun _ _ => rfl)

theorem P_wc5 (s : State) (c : CtxKind) (cid : Nat) : P (P3.wc5 s c cid) = P3.wc5 (P s) c cid := by
  unfold P3.wc5
  rw [apply_ite P, P_ctxResumeOne]

theorem wc_ctl (s : State) (c : CtxKind) (cid t : Nat) :
    (P3.wc5 (P3.wc4 (P3.wc3 (P3.wc1 s c) cid t c) cid) c cid).ctl = s.ctl :=
  ((((P3.q_wc1 (P := P3.N) s c).trans (P3.q_wc3 _ _ _ _)).trans (P3.q_wc4 _ _)).trans (P3.q_wc5 _ _ _)).ctl

theorem P_gWith (s : State) (t : Nat) (hfr : inFrame s.ctl t = true) (c : CtxKind) (b k : Body) :
    P (gWith s t c b k) = gWith (P s) t c b k := by
  unfold gWith
  simp only
  refine (P_updTask1 _ _ _ ?_ ?_).trans ?_
  · rw [wc_ctl]; exact hfr
  · intro ts; rfl
  rw [P_wc5, P_wc4, P_wc3, P_wc1]
  rfl

theorem P_gEndwith (s : State) (t : Nat) (hfr : inFrame s.ctl t = true) (old o' : Option Nat) (rest : List Ctl)
    (hctl : s.ctl = .gen t o' :: rest) (conts : List (Nat × Body)) :
    P (gEndwith s t old conts) = gEndwith (P s) t old conts := by
  unfold gEndwith
  cases conts with
  | nil => exact P_finishTask s t old o' rest hctl _
  | cons p rest' =>
    obtain ⟨cid, k⟩ := p
    simp only
    refine (P_updTask1 _ _ _ ?_ ?_).trans ?_
    · rw [(P3.q_ctxExit s cid).ctl]; exact hfr
    · intro ts; rfl
    rw [P_ctxExit]

theorem P_ensureBatch (s : State) (kind : Nat) : P (ensureBatch s kind) = ensureBatch (P s) kind := by
  unfold ensureBatch
  rw [P_curBatch?]
  cases s.curBatch? kind with
  | none => exact P_addBatch _ _ _
  | some b => rfl

theorem curBatch_ensure (s : State) (kind : Nat) (h : CurOK s) :
    ∀ b, (ensureBatch s kind).curBatch? kind = some b → b.flushed = false := by
  unfold ensureBatch
  cases hb : s.curBatch? kind with
  | some b0 =>
    intro b hb'
    simp only at hb'
    rw [hb] at hb'
    cases hb'
    exact h kind b0 hb
  | none =>
    intro b hb'
    simp only [State.curBatch?, List.filter_append] at hb'
    simp at hb'
    rw [← hb']

theorem P_gItem (s : State) (t : Nat) (hfr : inFrame s.ctl t = true) (hcur : CurOK s) (kind payload : Nat)
    (mode : ItemMode) (k : Body) :
    P (gItem s t kind payload mode k) = P (gItem (P s) t kind payload mode k) := by
  unfold gItem
  simp only
  rw [← P_ensureBatch]
  have hc : (ensureBatch s kind).ctl = s.ctl := by
    unfold ensureBatch; split <;> rfl
  have hfr1 : inFrame (ensureBatch s kind).ctl t = true := by rw [hc]; exact hfr
  have hu := curBatch_ensure s kind hcur
  generalize ensureBatch s kind = s1 at hfr1 hu
  rw [P_curBatch?]
  cases hb : s1.curBatch? kind with
  | none => simp only [Option.map_none, P_fail, P_idem]
  | some b =>
    have hf := hu b hb
    simp only [Option.map_some]
    rw [projB_unflushed b hf, itemOutcome_cfg (P s1).cfg s1.cfg rfl]
    generalize hx : ({ kind := .item kind b.seq payload mode, den := itemOutcome s1.cfg kind payload mode } : Fut) = x
    have hx1 : x.ts.deps = extractFutures x.ts.lastY := by rw [← hx]; rfl
    have hx2 : x.ts.depsSched = false := by rw [← hx]
    generalize (NewKind.item kind b.seq b.items.length payload mode) = nk
    rw [P_alloc_snd]
    have ea : P (s1.alloc x nk).1 = ((P s1).alloc x nk).1 := P_alloc_fst _ _ _ hx1 hx2
    refine (P_updTask1 _ _ _ ?_ ?_).trans ?_
    · exact hfr1
    · intro ts; rfl
    refine Eq.trans ?_ (P_updTask1 _ _ _ ?_ ?_).symm
    · have hw := fun (s' : State) => P_updBatch_weak s' kind b.seq
        (fun b => { b with items := b.items ++ [(s1.alloc x nk).2] }) (fun _ => ⟨rfl, rfl, rfl⟩)
      rw [hw (s1.alloc x nk).1, ea]
    · exact hfr1
    · intro ts; rfl


/-! ### all branches together -/

theorem isEmpty_append_of (a b : List Nat) (h : a = [] ∨ b ≠ []) : (a ++ b).isEmpty = b.isEmpty := by
  rcases h with h | h
  · simp [h]
  · cases b with
    | nil => exact absurd rfl h
    | cons x xs => cases a <;> simp

theorem P_genStep (s : State) (t : Nat) (old o' : Option Nat) (rest : List Ctl) (hctl : s.ctl = .gen t o' :: rest)
    (hns : ¬ Stutter s t) (hcur : CurOK s) :
    P (s.genStep t old) = P ((P s).genStep t old) := by
  have hfr : inFrame s.ctl t = true := inFrame_head hctl
  have hts : (P s).task t = projT true (s.task t) := by rw [P_task, hfr]
  have hbP : ((P s).task t).body = (s.task t).body := by rw [hts]; rfl
  have hr : (projT true (s.task t)).resolve = (s.task t).resolve := by funext r; simp
  have strong : ∀ {a b : State}, a = s.genStep t old → b = (P s).genStep t old → P a = b → 
      P (s.genStep t old) = P ((P s).genStep t old) := by
    intro a b ha hb h
    rw [← ha, ← hb, ← h, P_idem]
  cases hp : (s.task t).pending with
  | true =>
    have hp' : ((P s).task t).pending = true := by rw [hts]; exact hp
    cases hs : (s.task t).started with
    | false =>
      have hs' : ((P s).task t).started = false := by rw [hts]; exact hs
      exact strong (genStep_start s t old hp hs).symm (genStep_start (P s) t old hp' hs').symm (P_gStart s t hfr)
    | true =>
      have hs' : ((P s).task t).started = true := by rw [hts]; exact hs
      have hres : ∀ k h,
          P (gResume s t s.cfg.keepDeps ((s.task t).resumes + 1) ((s.task t).lastY.leaves.all s.computed)
            (unwrap s.out (s.task t).lastY) k h) =
          gResume (P s) t (P s).cfg.keepDeps (((P s).task t).resumes + 1)
            (((P s).task t).lastY.leaves.all (P s).computed) (unwrap (P s).out ((P s).task t).lastY) k h := by
        intro k h
        rw [P_gResume s t hfr, hts]
        simp only [P_keepDeps, projT_resumes, projT_lastY, P_computed_fun, P_out_fun]
      cases hb : (s.task t).body with
      | yld y k h =>
        have hb' : ((P s).task t).body = .yld y k h := by rw [hts]; exact hb
        exact strong (genStep_resume_yld s t old y k h hp hs hb).symm
          (genStep_resume_yld (P s) t old y k h hp' hs' hb').symm (hres k h)
      | reyld k h =>
        have hb' : ((P s).task t).body = .reyld k h := by rw [hts]; exact hb
        exact strong (genStep_resume_reyld s t old k h hp hs hb).symm
          (genStep_resume_reyld (P s) t old k h hp' hs' hb').symm (hres k h)
      | _ =>
        exact strong (genStep_resume_bad s t old hp hs (by rw [hb]; intros; simp) (by rw [hb]; intros; simp)).symm
          (genStep_resume_bad (P s) t old hp' hs' (by rw [hbP, hb]; intros; simp)
            (by rw [hbP, hb]; intros; simp)).symm
          (P_fail _ _)
  | false =>
    have hp' : ((P s).task t).pending = false := by rw [hts]; exact hp
    cases hb : (s.task t).body with
    | ret tag =>
      have hb' : ((P s).task t).body = .ret tag := by rw [hts]; exact hb
      refine strong (genStep_ret s t old tag hp hb).symm (genStep_ret (P s) t old tag hp' hb').symm ?_
      rw [P_finishTask s t old o' rest hctl, hts]; rfl
    | res tag =>
      have hb' : ((P s).task t).body = .res tag := by rw [hts]; exact hb
      refine strong (genStep_res s t old tag hp hb).symm (genStep_res (P s) t old tag hp' hb').symm ?_
      rw [P_finishTask s t old o' rest hctl, hts]; rfl
    | raise e =>
      have hb' : ((P s).task t).body = .raise e := by rw [hts]; exact hb
      refine strong (genStep_raise s t old e hp hb).symm (genStep_raise (P s) t old e hp' hb').symm ?_
      rw [P_finishTask s t old o' rest hctl]
    | reraise =>
      have hb' : ((P s).task t).body = .reraise := by rw [hts]; exact hb
      refine strong (genStep_reraise s t old hp hb).symm (genStep_reraise (P s) t old hp' hb').symm ?_
      rw [P_finishTask s t old o' rest hctl, hts]; rfl
    | spawn child pass k =>
      have hb' : ((P s).task t).body = .spawn child pass k := by rw [hts]; exact hb
      refine strong (genStep_spawn s t old child pass k hp hb).symm
        (genStep_spawn (P s) t old child pass k hp' hb').symm ?_
      rw [P_gSpawn s t hfr, hts, hr]
    | item kind payload mode k =>
      have hb' : ((P s).task t).body = .item kind payload mode k := by rw [hts]; exact hb
      rw [genStep_item s t old kind payload mode k hp hb, genStep_item (P s) t old kind payload mode k hp' hb']
      exact P_gItem s t hfr hcur _ _ _ _
    | const v k =>
      have hb' : ((P s).task t).body = .const v k := by rw [hts]; exact hb
      exact strong (genStep_const s t old v k hp hb).symm (genStep_const (P s) t old v k hp' hb').symm
        (P_gAlloc s t hfr _ _ _ rfl rfl)
    | errfut e k =>
      have hb' : ((P s).task t).body = .errfut e k := by rw [hts]; exact hb
      exact strong (genStep_errfut s t old e k hp hb).symm (genStep_errfut (P s) t old e k hp' hb').symm
        (P_gAlloc s t hfr _ _ _ rfl rfl)
    | «lazy» o k =>
      have hb' : ((P s).task t).body = .lazy o k := by rw [hts]; exact hb
      exact strong (genStep_lazy s t old o k hp hb).symm (genStep_lazy (P s) t old o k hp' hb').symm
        (P_gAlloc s t hfr _ _ _ rfl rfl)
    | yld y k h =>
      have hb' : ((P s).task t).body = .yld y k h := by rw [hts]; exact hb
      refine strong (genStep_yld s t old y k h hp hb).symm (genStep_yld (P s) t old y k h hp' hb').symm ?_
      rw [hts, hr]
      simp only [P_keepDeps, projT_resumes, projT_deps, Bool.false_eq_true, if_false, List.nil_append]
      refine P_gYield s t hfr old o' rest hctl _ _ _ _ _ _ ?_ ?_
      · apply isEmpty_append_of
        cases hk : s.cfg.keepDeps with
        | false => left; rfl
        | true =>
          simp only [if_true]
          by_cases hd : (s.task t).deps = []
          · left; exact hd
          · right
            intro he
            exact hns ⟨hk, hp, _, by simp [yielded, hb], he, hd⟩
      · intro ts; simp [projT]
    | reyld k h =>
      have hb' : ((P s).task t).body = .reyld k h := by rw [hts]; exact hb
      refine strong (genStep_reyld s t old k h hp hb).symm (genStep_reyld (P s) t old k h hp' hb').symm ?_
      rw [hts]
      simp only [P_keepDeps, projT_resumes, projT_prevY, projT_deps, Bool.false_eq_true, if_false, List.nil_append]
      refine P_gYield s t hfr old o' rest hctl _ _ _ _ _ _ ?_ ?_
      · apply isEmpty_append_of
        cases hk : s.cfg.keepDeps with
        | false => left; rfl
        | true =>
          simp only [if_true]
          by_cases hd : (s.task t).deps = []
          · left; exact hd
          · right
            intro he
            exact hns ⟨hk, hp, _, by simp [yielded, hb], he, hd⟩
      · intro ts; simp [projT]
    | sync child pass k h =>
      have hb' : ((P s).task t).body = .sync child pass k h := by rw [hts]; exact hb
      refine strong (genStep_sync s t old child pass k h hp hb).symm
        (genStep_sync (P s) t old child pass k h hp' hb').symm ?_
      rw [P_gSync s t hfr, hts, hr]
    | syncfut r k h =>
      have hb' : ((P s).task t).body = .syncfut r k h := by rw [hts]; exact hb
      refine strong (genStep_syncfut s t old r k h hp hb).symm
        (genStep_syncfut (P s) t old r k h hp' hb').symm ?_
      rw [P_gSyncfut s t hfr, hts, projT_resolve]
    | syncret f k h =>
      have hb' : ((P s).task t).body = .syncret f k h := by rw [hts]; exact hb
      refine strong (genStep_syncret s t old f k h hp hb).symm
        (genStep_syncret (P s) t old f k h hp' hb').symm ?_
      rw [P_gSyncret s t hfr]
      simp only [P_raising, P_out]
    | withCtx c b k =>
      have hb' : ((P s).task t).body = .withCtx c b k := by rw [hts]; exact hb
      exact strong (genStep_withCtx s t old c b k hp hb).symm (genStep_withCtx (P s) t old c b k hp' hb').symm
        (P_gWith s t hfr c b k)
    | endwith =>
      have hb' : ((P s).task t).body = .endwith := by rw [hts]; exact hb
      refine strong (genStep_endwith s t old hp hb).symm (genStep_endwith (P s) t old hp' hb').symm ?_
      rw [P_gEndwith s t hfr old o' rest hctl, hts]; rfl
    | read var k =>
      have hb' : ((P s).task t).body = .read var k := by rw [hts]; exact hb
      exact strong (genStep_read s t old var k hp hb).symm (genStep_read (P s) t old var k hp' hb').symm
        (P_gRead s t hfr var k)
    | active k =>
      have hb' : ((P s).task t).body = .active k := by rw [hts]; exact hb
      exact strong (genStep_active s t old k hp hb).symm (genStep_active (P s) t old k hp' hb').symm
        (P_gActive s t hfr k)

end AsynqModel.Core.P9
