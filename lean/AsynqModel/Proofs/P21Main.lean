import AsynqModel.Proofs.P21Inv
import AsynqModel.Proofs.P20Term
import AsynqModel.Theorems.Acyclic
/-
  P21, part 6: `SInv` is preserved by every step; a step out of a non-stuck state is not stuck (given the oracle
  condition); the number of top-level computations that are finished, running or still to run is constant; the
  run-level statements.
-/
namespace AsynqModel.Core.P21
open AsynqModel.Core

theorem mem_gens_mid (pre : List Ctl) (w : Ctl) (t : Nat) (old : Option Nat) (rest : List Ctl) :
    t ∈ P2.gens (pre ++ w :: .gen t old :: rest) := by
  induction pre with
  | nil => cases w <;> simp [P2.gens]
  | cons a pre ih => cases a <;> simp [P2.gens, ih]

/-- the observer context used to call `P13.inv13_of_reach` -/
def ctxOf (s : State) : Spec.Ctx :=
  { cfg := s.cfg, tops := [], hasSync := false, treeShaped := false, singleKind := false, hasNonAsync := false }

theorem buried_reach {s : State} (h : Reach s) : P13.Buried s s.ctl :=
  (P13.inv13_of_reach h (ctxOf s) rfl).sr.bur

theorem gen_lt {s : State} (h : Reach s) {t : Nat} (ht : t ∈ P2.gens s.ctl) : t < s.futs.length :=
  P2.lt_of_kind s t (by rw [(P2.pinv_reach h).genKind t ht]; intro e; cases e)

/-- the running generator is stopped at `syncret` and an exception is arriving: the step delivers it -/
theorem step_raising_none {s : State} (hs : s.stuck = none) {t : Nat} {old : Option Nat} {rest : List Ctl}
    (hctl : s.ctl = .gen t old :: rest) (hp : (s.task t).pending = false) {f : Nat} {k h : Body}
    (hb : (s.task t).body = .syncret f k h) (hr : s.raising.isSome = true) : (step s).raising = none := by
  rw [P9.step_gen s t old rest hs hctl]
  have : P9.genBad s t = false := by
    unfold P9.genBad; rw [hb, hp]; simp
  rw [this]
  unfold P9.genCore
  simp only [Bool.false_eq_true, if_false]
  rw [P9.genStep_syncret s t old f k h hp hb]
  cases hr' : s.raising with
  | none => rw [hr'] at hr; cases hr
  | some e => rfl

theorem hgen_of {s : State} (h : P10.WSReach s) (hS : SInv s) :
    ∀ t old rest, s.ctl = .gen t old :: rest → t < s.futs.length ∧ P10.wsTS (s.task t) = true ∧
      (∀ f k h, (s.task t).body = .syncret f k h → (s.task t).pending = false) ∧
      (∀ y, P10.Named s t y → y < s.futs.length) := by
  intro t old rest hctl
  have hi := (P10.ws_hinv h).1
  exact ⟨gen_lt h.reach (by rw [hctl]; simp [P2.gens]), hi.ws t, fun f k hh hb => (hS.sr t f k hh hb).1,
    fun y hy => hi.named_bound hy⟩

theorem not_oracleOK {s : State} (hfp : flushPoint s = true) {c : Nat × Nat} {cs : List (Nat × Nat)}
    (hch : s.choices = c :: cs) (ha : s.admissible c = false) : oracleOK s = false := by
  unfold oracleOK
  rw [hfp, hch]
  simp [ha]

theorem sinv_step {s : State} (h : P10.WSReach s) (hS : SInv s) (hok : oracleOK s = true) : SInv (step s) := by
  cases hs : s.stuck with
  | some m => rw [P1.step_stuck s m hs]; exact hS
  | none =>
  have hi := (P10.ws_hinv h).1
  have pin := P2.pinv_reach h.reach
  have bur := buried_reach h.reach
  have hnone : ∀ t, (none : Option Nat) = some t → ∀ f k hh, ((step s).task t).body = .syncret f k hh →
      ((step s).task t).pending = false ∧ Ret (step s) t f := by intro _ e; cases e
  have d := step_d s (hgen_of h hS) hS.b (P10.ws_winv h).cdone
  generalize hrr : step s = r at d hnone
  cases d with
  | idle e => rw [e]; exact hS
  | bad m hm e => rw [e]; exact sinv_congr hS rfl rfl rfl rfl
  | finishTop hctl f hcur e =>
    rw [e]
    refine ⟨fun t f' k hh hb => ?_, (fun hr => by rw [P3.finishTop_raising] at hr; cases hr), invB_congr hS.b rfl rfl⟩
    have hb' : (s.task t).body = .syncret f' k hh := hb
    obtain ⟨hp, hret⟩ := hS.sr t f' k hh hb'
    refine ⟨hp, ?_⟩
    rcases hret with h1 | ⟨_, old, rest, h2⟩ | ⟨pre, w, old, rest, h3, _⟩
    · exact .inl h1
    · rw [hctl] at h2; cases h2
    · rw [hctl] at h3; cases pre <;> cases h3
  | topStart hctl hcur conv body rest ht e =>
    have hwb : isSR body = false := isSR_of_wsB ((P10.ws_hinv h).2 (conv, body) (by rw [ht]; exact List.mem_cons_self))
    let s' : State := { s with tops := rest, topIdx := s.topIdx + 1, curTop := some s.futs.length }
    have hS' : SInv s' := sinv_congr hS rfl rfl rfl rfl
    have g1 : G none s' ((s'.emit (.top s.topIdx conv)).newTask body []).1 :=
      ((fz_emit s' (.top s.topIdx conv) rfl).g none).trans (by intro _ e; cases e) (g_newTask none _ body [] hwb)
    have g2 : G none s' r := by
      rw [e]
      exact g1.congr rfl rfl rfl rfl rfl rfl rfl rfl
    refine sinv_of_g g2 hS' ?_ hnone ?_
    · intro t f _ _ hret
      rcases hret with h1 | ⟨_, old, rest', h2⟩ | ⟨pre, w, old, rest', h3, _⟩
      · exact .inl (g2.comp f h1)
      · have : s.ctl = .gen t old :: rest' := h2
        rw [hctl] at this; cases this
      · have : s.ctl = pre ++ w :: .gen t old :: rest' := h3
        rw [hctl] at this; cases pre <;> cases this
    · intro _ t old rest' hc
      rw [e] at hc
      cases hc
  | pop w root rest hctl hw g c hcase =>
    refine sinv_of_g g hS ?_ hnone ?_
    · intro t f _ _ hret
      refine ret_pop g.comp hctl c hw ?_ hret
      rcases hcase with ⟨_, hc, _⟩ | hc
      · exact .inl (g.comp root hc)
      · exact .inr hc
    · intro hr t old rest' hc
      rcases hcase with ⟨_, _, hn⟩ | _
      · rw [hn] at hr; cases hr
      · rw [hctl] at bur
        have hu := ((P13.buried_wait hw rest).1 bur).1
        rw [c] at hc
        rw [hc] at hu
        obtain ⟨k, hh, hb, _⟩ := hu
        have ht : t < s.futs.length := gen_lt h.reach (by rw [hctl, hc]; cases w <;> simp [P2.gens])
        exact ⟨root, k, hh, ((g.other t (by simp) ht).1).trans hb⟩
  | swap w w' root rest hctl hw hw' hr g c rz =>
    refine sinv_of_g g hS (fun t f _ _ hret => ret_swap g.comp hctl c hw hw' hret) hnone ?_
    intro hr'; rw [rz] at hr'; cases hr'
  | iter root base rest hctl hr g c rz =>
    refine sinv_of_g g hS (fun t f _ _ hret => ret_same g.comp c (by rw [hr]; intro e; cases e) hret) hnone ?_
    intro hr'; rw [rz] at hr'; cases hr'
  | enterGen root base rest hctl hr t a g c rz =>
    refine sinv_of_g g hS (fun t' f _ _ hret => ret_push g.comp c (by rw [hr]; rintro ⟨e, _⟩; cases e) hret) hnone ?_
    intro hr'; rw [rz] at hr'; cases hr'
  | choiceFail hfp c cs hch ha => rw [not_oracleOK hfp hch ha] at hok; cases hok
  | genFail t old rest hctl hr hb e => rw [e]; exact sinv_congr hS rfl rfl rfl rfl
  | gen t old rest hctl o =>
    have hne : ∀ t', some t ≠ some t' → ∀ old' rest', s.ctl ≠ .gen t' old' :: rest' := by
      intro t' hne old' rest' e
      rw [hctl] at e
      injection e with e _
      injection e with e
      exact hne (by rw [e])
    -- an arriving exception is delivered by this very step
    have hdel : s.raising.isSome = true → r.raising = none := by
      intro hr
      obtain ⟨f, k, hh, hb⟩ := hS.rz hr t old rest hctl
      rw [← hrr]
      exact step_raising_none hs hctl (hS.sr t f k hh hb).1 hb hr
    have hrzSame : r.raising = s.raising → r.raising.isSome = true → ∀ t' old' rest', r.ctl = .gen t' old' :: rest' →
        ∃ f k hh, (r.task t').body = .syncret f k hh := by
      intro e hr
      have := hdel (e ▸ hr)
      rw [this] at hr; cases hr
    cases o with
    | stay g c rz nb =>
      refine sinv_of_g g hS (fun t' f hx _ hret => ret_same' g.comp c (hne t' hx) hret) ?_ (hrzSame rz)
      intro t' e f k hh hb
      injection e with e; subst e
      rw [hb] at nb; cases nb
    | leave g c rz nb =>
      refine sinv_of_g g hS (fun t' f hx _ hret => ret_leave g.comp hctl (by rw [c, hctl]; rfl)
        (fun e => hx (by rw [e])) hret) ?_ (hrzSame rz)
      intro t' e f k hh hb
      injection e with e; subst e
      rw [hb] at nb; cases nb
    | call f k hh g c rz hb hp =>
      refine sinv_of_g g hS (fun t' f' hx _ hret => ret_push g.comp c ?_ hret) ?_ ?_
      · rintro ⟨_, old', rest', e⟩
        exact hne t' hx old' rest' e
      · intro t' e f' k' hh' hb'
        injection e with e; subst e
        rw [hb] at hb'
        injection hb' with e1 _ _
        subst e1
        exact ⟨hp, .inr (.inr ⟨[], .waitEnter f, old, rest, by rw [c, hctl]; rfl, rfl⟩)⟩
      · intro _ t' old' rest' e
        rw [c] at e; cases e
    | callNow f k hh g c rz hb hp hc =>
      refine sinv_of_g g hS (fun t' f hx _ hret => ret_same' g.comp c (hne t' hx) hret) ?_ (hrzSame rz)
      intro t' e f' k' hh' hb'
      injection e with e; subst e
      rw [hb] at hb'
      injection hb' with e1 _ _
      subst e1
      exact ⟨hp, .inl hc⟩
    | ret f k hh hb hp g c rz nb =>
      refine sinv_of_g g hS (fun t' f hx _ hret => ret_same' g.comp c (hne t' hx) hret) ?_ ?_
      · intro t' e f k hh hb
        injection e with e; subst e
        rw [hb] at nb; cases nb
      · intro hr; rw [rz] at hr; cases hr
    | retFail f k hh hb hp hr ho e => rw [e]; exact sinv_congr hS rfl rfl rfl rfl
    | bad m hm e => rw [e]; exact sinv_congr hS rfl rfl rfl rfl

theorem nine_eq : nineMsgs = ["re-entrant task", "flush of unknown batch", "no admissible batch", "unknown batch",
    "empty stack", "task completed twice", "no batch", "suspended task is not at a yield",
    "uncomputed constant future"] := rfl

/-- a step out of a non-stuck reachable state of a well-scoped program is not stuck, provided the oracle's choice (if
    the step is a scheduler flush that consumes one) is admissible -/
theorem step_not_stuck {s : State} (h : P10.WSReach s) (hS : SInv s) (hs : s.stuck = none)
    (hok : oracleOK s = true) : (step s).stuck = none := by
  have pin := P2.pinv_reach h.reach
  have hbad : ∀ m, m ∈ nineMsgs → step s ≠ s.fail m := by
    intro m hm e
    have := not_stuck_with (step s) (P10.WSReach.step h) m (by rw [← nine_eq]; exact hm)
    rw [e] at this
    exact this rfl
  have d := step_d s (hgen_of h hS) hS.b (P10.ws_winv h).cdone
  generalize hrr : step s = r at d hbad
  cases d with
  | idle e => rw [e]; exact hs
  | bad m hm e => exact absurd e (hbad m hm)
  | finishTop hctl f hcur e => rw [e]; exact hs
  | topStart hctl hcur conv body rest ht e => rw [e]; exact hs
  | pop w root rest hctl hw g c hcase => rw [g.stuck]; exact hs
  | swap w w' root rest hctl hw hw' hr g c rz => rw [g.stuck]; exact hs
  | iter root base rest hctl hr g c rz => rw [g.stuck]; exact hs
  | enterGen root base rest hctl hr t a g c rz => rw [g.stuck]; exact hs
  | choiceFail hfp c cs hch ha => rw [not_oracleOK hfp hch ha] at hok; cases hok
  | genFail t old rest hctl hr hb e =>
    exfalso
    obtain ⟨f, k, hh, hbd⟩ := hS.rz hr t old rest hctl
    exact hb ⟨(hS.sr t f k hh hbd).1, f, k, hh, hbd⟩
  | gen t old rest hctl o =>
    cases o with
    | stay g c rz nb => rw [g.stuck]; exact hs
    | leave g c rz nb => rw [g.stuck]; exact hs
    | call f k hh g c rz hb hp => rw [g.stuck]; exact hs
    | callNow f k hh g c rz hb hp hc => rw [g.stuck]; exact hs
    | ret f k hh hb hp g c rz nb => rw [g.stuck]; exact hs
    | bad m hm e => exact absurd e (hbad m hm)
    | retFail f k hh hb hp hr ho e =>
      exfalso
      rcases (hS.sr t f k hh hb).2 with h1 | ⟨h1, _⟩ | ⟨pre, w, old', rest', h3, hw⟩
      · unfold State.computed at h1; rw [ho] at h1; cases h1
      · rw [hr] at h1; cases h1
      · cases pre with
        | nil =>
          rw [hctl] at h3
          simp only [List.nil_append] at h3
          injection h3 with e1 _
          subst e1; cases hw
        | cons a pre =>
          have hd := pin.distinct
          rw [h3] at hd
          rw [hctl] at h3
          simp only [List.cons_append] at h3
          injection h3 with e1 e2
          subst e1
          simp only [List.cons_append, P2.gens, List.nodup_cons] at hd
          exact hd.1 (mem_gens_mid pre w t old' rest')

/-! ### bookkeeping of the top-level computations -/

/-- finished + running + still to run -/
def pend (s : State) : Nat := rets s.trace + (if s.curTop.isSome then 1 else 0) + s.tops.length

theorem pend_of_g {x : Option Nat} {s r : State} (g : G x s r) : pend r = pend s := by
  unfold pend
  rw [g.aux.rets, g.aux.curTop, g.tops]

theorem step_pend {s : State} (h : P10.WSReach s) (hS : SInv s) (hok : oracleOK s = true) :
    pend (step s) = pend s := by
  have d := step_d s (hgen_of h hS) hS.b (P10.ws_winv h).cdone
  generalize step s = r at d
  cases d with
  | idle e => rw [e]
  | bad m hm e => rw [e]; rfl
  | finishTop hctl f hcur e =>
    rw [e]
    unfold pend
    have h1 : (s.finishTop f).tops = s.tops := rfl
    have h2 : (s.finishTop f).curTop = none := rfl
    have h3 : ∃ o a b, (s.finishTop f).trace = a :: b :: Event.ret o :: s.trace ∧ isRet a = false ∧ isRet b = false :=
      ⟨_, _, _, rfl, rfl, rfl⟩
    obtain ⟨o, a, b, h3, ha, hb⟩ := h3
    rw [h1, h2, h3, hcur, rets_cons, rets_cons, rets_cons, ha, hb]
    simp [isRet]
    omega
  | topStart hctl hcur conv body rest ht e =>
    rw [e]
    unfold pend
    have h1 : (P9.topStart s conv body rest).tops = rest := rfl
    have h2 : (P9.topStart s conv body rest).curTop = some s.futs.length := rfl
    have h3 : ∃ a b, (P9.topStart s conv body rest).trace = a :: b :: s.trace ∧ isRet a = false ∧ isRet b = false :=
      ⟨_, _, rfl, rfl, rfl⟩
    obtain ⟨a, b, h3, ha, hb⟩ := h3
    rw [h1, h2, h3, hcur, ht, rets_cons, rets_cons, ha, hb]
    simp
    omega
  | pop w root rest hctl hw g c hcase => exact pend_of_g g
  | swap w w' root rest hctl hw hw' hr g c rz => exact pend_of_g g
  | iter root base rest hctl hr g c rz => exact pend_of_g g
  | enterGen root base rest hctl hr t a g c rz => exact pend_of_g g
  | choiceFail hfp c cs hch ha => rw [not_oracleOK hfp hch ha] at hok; cases hok
  | genFail t old rest hctl hr hb e => rw [e]; rfl
  | gen t old rest hctl o =>
    cases o with
    | stay g c rz nb => exact pend_of_g g
    | leave g c rz nb => exact pend_of_g g
    | call f k hh g c rz hb hp => exact pend_of_g g
    | callNow f k hh g c rz hb hp hc => exact pend_of_g g
    | ret f k hh hb hp g c rz nb => exact pend_of_g g
    | bad m hm e => rw [e]; rfl
    | retFail f k hh hb hp hr ho e => rw [e]; rfl

/-- the silent oracle stays silent -/
theorem step_choices_nil {s : State} (h : P10.WSReach s) (hS : SInv s) (hc : s.choices = []) :
    (step s).choices = [] := by
  have hg : ∀ {x : Option Nat} {r : State}, G x s r → r.choices = [] := by
    intro x r g
    obtain ⟨n, e⟩ := g.aux.choices
    rw [e, hc]; simp
  have d := step_d s (hgen_of h hS) hS.b (P10.ws_winv h).cdone
  generalize step s = r at d
  cases d with
  | idle e => rw [e]; exact hc
  | bad m hm e => rw [e]; exact hc
  | finishTop hctl f hcur e => rw [e]; exact hc
  | topStart hctl hcur conv body rest ht e => rw [e]; exact hc
  | pop w root rest hctl hw g c hcase => exact hg g
  | swap w w' root rest hctl hw hw' hr g c rz => exact hg g
  | iter root base rest hctl hr g c rz => exact hg g
  | enterGen root base rest hctl hr t a g c rz => exact hg g
  | choiceFail hfp c cs hch ha => rw [hc] at hch; cases hch
  | genFail t old rest hctl hr hb e => rw [e]; exact hc
  | gen t old rest hctl o =>
    cases o with
    | stay g c rz nb => exact hg g
    | leave g c rz nb => exact hg g
    | call f k hh g c rz hb hp => exact hg g
    | callNow f k hh g c rz hb hp hc' => exact hg g
    | ret f k hh hb hp g c rz nb => exact hg g
    | bad m hm e => rw [e]; exact hc
    | retFail f k hh hb hp hr ho e => rw [e]; exact hc

theorem oracleOK_of_nil {s : State} (hc : s.choices = []) : oracleOK s = true := by
  unfold oracleOK; rw [hc]; simp

/-! ### along a run -/

theorem runFuel_succ (n : Nat) (s : State) :
    runFuel (n + 1) s = if (runFuel n s).isDone then runFuel n s else step (runFuel n s) := by
  rw [P20.runFuel_add n 1 s]
  rfl

/-- the run invariant -/
structure RunInv (n0 : Nat) (s : State) : Prop where
  ws : P10.WSReach s
  si : SInv s
  stuck : s.stuck = none
  pend : pend s = n0

theorem runInv_init (cfg : Cfg) (tops : List (Conv × Body)) (choices : List (Nat × Nat))
    (h : ∀ p, p ∈ tops → P10.WellScoped p.2 0 0 = true) : RunInv tops.length (initState cfg tops choices) :=
  ⟨P10.WSReach.init cfg tops choices h, sinv_init cfg tops choices, rfl, by simp [pend, initState, rets]⟩

theorem runInv_step {n0 : Nat} {s : State} (h : RunInv n0 s) (hok : oracleOK s = true) : RunInv n0 (step s) :=
  ⟨P10.WSReach.step h.ws, sinv_step h.ws h.si hok, step_not_stuck h.ws h.si h.stuck hok,
   (step_pend h.ws h.si hok).trans h.pend⟩

theorem runInv_runFuel {n0 : Nat} {s : State} (h : RunInv n0 s) (n : Nat)
    (hor : ∀ i, i < n → oracleOK (runFuel i s) = true) : RunInv n0 (runFuel n s) := by
  induction n with
  | zero => exact h
  | succ n ih =>
    have ih' := ih (fun i hi => hor i (by omega))
    rw [runFuel_succ]
    split
    · exact ih'
    · exact runInv_step ih' (hor n (by omega))

theorem choices_nil_runFuel {n0 : Nat} {s : State} (h : RunInv n0 s) (hc : s.choices = []) (n : Nat) :
    RunInv n0 (runFuel n s) ∧ (runFuel n s).choices = [] := by
  induction n with
  | zero => exact ⟨h, hc⟩
  | succ n ih =>
    rw [runFuel_succ]
    split
    · exact ih
    · exact ⟨runInv_step ih.1 (oracleOK_of_nil ih.2), step_choices_nil ih.1.ws ih.1.si ih.2⟩

end AsynqModel.Core.P21
