import AsynqModel.Proofs.P27Batch
/-
  P6 (property C04), part 7: the basic invariant `InvA` of yield-only runs:
  the control stack never nests, suspended/running bookkeeping of tasks, the running task awaits nothing uncomputed.
-/
namespace AsynqModel.Core.P27
open AsynqModel.Core.P6
open AsynqModel.Core

/-- the control stack of a yield-only program -/
def CtlShape (c : List Ctl) : Prop :=
  c = [] ∨ (∃ r, c = [.waitEnter r]) ∨ (∃ r b, c = [.waitLoop r b]) ∨ ∃ t old r b, c = [.gen t old, .waitLoop r b]

theorem CtlShape.tail {c : List Ctl} (h : CtlShape c) : CtlShape c.tail := by
  rcases h with rfl | ⟨r, rfl⟩ | ⟨r, b, rfl⟩ | ⟨t, old, r, b, rfl⟩
  · exact Or.inl rfl
  · exact Or.inl rfl
  · exact Or.inl rfl
  · exact Or.inr (Or.inr (Or.inl ⟨r, b, rfl⟩))

structure InvA (s : State) : Prop where
  noNA : NoNA s
  tops : ∀ p ∈ s.tops, bodyOK p.2
  ok : ∀ f, okV (view s f)
  shape : CtlShape s.ctl
  /-- a task with dependencies has started -/
  sOfD : ∀ f, (view s f).deps ≠ [] → (view s f).started = true
  /-- a task that is not suspended has started -/
  sOfR : ∀ f, (view s f).pending = false → (view s f).started = true
  /-- an uncompleted task whose generator is not running is suspended (or has not started) -/
  pOfI : ∀ f, (view s f).kind = .task → (view s f).out = none → (∀ old rest, s.ctl ≠ .gen f old :: rest) →
    (view s f).pending = true
  /-- the running task is an uncompleted task that awaits nothing uncomputed -/
  gen : ∀ t old rest, s.ctl = .gen t old :: rest →
    (view s t).kind = .task ∧ (view s t).out = none ∧ ∀ d ∈ (view s t).deps, s.computed d = true

theorem bodyOK_ret0 : bodyOK (.ret 0) := rfl

theorem okV_dview : okV dview := ⟨bodyOK_ret0, by intro p hp; cases hp⟩

theorem invA_init (cfg : Cfg) (tops : List (Conv × Body)) (choices : List (Nat × Nat))
    (h : ∀ p ∈ tops, bodyOK p.2) : InvA (initState cfg tops choices) := by
  have hv : ∀ f, view (initState cfg tops choices) f = dview := fun f => view_ge _ _ (Nat.zero_le _)
  refine ⟨trivial, h, (fun f => by rw [hv]; exact okV_dview), Or.inl rfl, ?_, ?_, ?_, ?_⟩
  · intro f hd; rw [hv] at hd; exact absurd rfl hd
  · intro f hp; rw [hv] at hp; cases hp
  · intro f hk; rw [hv] at hk; cases hk
  · intro t old rest hc; cases hc

theorem computed_lt {s : State} {f : Nat} (h : s.computed f = true) : f < s.futs.length := by
  refine Nat.lt_of_not_le fun hle => ?_
  rw [computed_eq_view, view_ge s f hle] at h
  cases h

theorem out_none_of_uncomputed {s : State} {f : Nat} (h : s.computed f = false) : (view s f).out = none := by
  have : (view s f).out.isSome = false := h
  cases ho : (view s f).out
  · rfl
  · rw [ho] at this; cases this

theorem uncomputed_of_out_none {s : State} {f : Nat} (h : (view s f).out = none) : s.computed f = false := by
  rw [computed_eq_view, h]; rfl

theorem Upd1S.computed_mono {s r : State} {t : Nat} {v' : FV} (U : Upd1S s r t v')
    (hv : (view s t).out.isSome = true → v'.out.isSome = true) {f : Nat} (h : s.computed f = true) :
    r.computed f = true := by
  rcases U.view_cases f with ⟨rfl, e⟩ | ⟨_, e⟩
  · rw [computed_eq_view, e]; exact hv h
  · rw [computed_of_view e]; exact h

theorem Upd2.computed_mono {s r : State} {t : Nat} {v' nv : FV} (U : Upd2 s r t v' nv)
    (hv : (view s t).out.isSome = true → v'.out.isSome = true) {f : Nat} (h : s.computed f = true) :
    r.computed f = true := by
  rcases U.view_cases f with ⟨rfl, e⟩ | ⟨rfl, _⟩ | ⟨_, _, e⟩
  · rw [computed_eq_view, e]; exact hv h
  · exact absurd (computed_lt h) (Nat.lt_irrefl _)
  · rw [computed_of_view e]; exact h

theorem GenDesc.computed_mono {s r : State} {t : Nat} (d : GenDesc s r t) {f : Nat} (h : s.computed f = true) :
    r.computed f = true := by
  cases d with
  | loc v' hu _ _ hout _ _ _ _ _ _ _ _ _ => exact hu.toS.computed_mono (by rw [hout]; exact id) h
  | spawn child k pass _ _ hu _ _ _ _ => exact hu.computed_mono id h
  | item kind payload mode k seq _ _ hu _ _ _ => exact hu.computed_mono id h
  | other k kd out _ _ hu _ _ _ _ => exact hu.computed_mono id h
  | yield ry npy nd leave _ _ _ _ hu _ => exact hu.toS.computed_mono id h
  | finish o _ hu _ => exact hu.toS.computed_mono (fun _ => rfl) h

theorem FlushDesc.computed_mono {s r : State} (F : FlushDesc s r) {f : Nat} (h : s.computed f = true) :
    r.computed f = true := by
  rcases F.view f with e | ⟨_, o, e⟩
  · rw [computed_of_view e]; exact h
  · rw [computed_eq_view, e]; rfl

/-- a computed future stays computed -/
theorem Desc.computed_mono {s r : State} (d : Desc s r) {f : Nat} (h : s.computed f = true) :
    r.computed f = true := by
  cases d with
  | quiet e _ _ => rw [e.computed]; exact h
  | top conv body rest _ _ U _ _ =>
    have hne : f ≠ s.futs.length := Nat.ne_of_lt (computed_lt h)
    rw [computed_of_view (U.viewO f hne)]; exact h
  | ret _ _ _ e _ _ => rw [e.computed]; exact h
  | enterLoop _ _ _ _ e _ _ => rw [e.computed]; exact h
  | pop _ _ _ _ _ e _ _ => rw [e.computed]; exact h
  | popLazy _ top st _ lo _ _ U _ _ => exact U.computed_mono (fun _ => rfl) h
  | second _ top st _ _ _ _ _ _ U _ _ => exact U.computed_mono id h
  | naFail _ top st _ _ _ _ _ _ U _ _ => exact U.computed_mono (fun _ => rfl) h
  | first _ top st _ _ _ _ _ U _ _ => exact U.computed_mono id h
  | enterGen _ _ _ _ _ _ _ e _ _ _ => rw [e.computed]; exact h
  | gen t old rest _ d => exact d.computed_mono h
  | flush _ _ _ _ _ _ F _ => exact F.computed_mono h

/-- the clauses of `InvA` that speak about a single future -/
def PerFut (r : State) (f : Nat) : Prop :=
  okV (view r f) ∧ ((view r f).deps ≠ [] → (view r f).started = true) ∧
  ((view r f).pending = false → (view r f).started = true) ∧
  ((view r f).kind = .task → (view r f).out = none → (∀ old rest, r.ctl ≠ .gen f old :: rest) →
    (view r f).pending = true)

theorem InvA.perFut {s : State} (h : InvA s) (f : Nat) : PerFut s f := ⟨h.ok f, h.sOfD f, h.sOfR f, h.pOfI f⟩

theorem InvA.of_perFut {r : State} (h1 : NoNA r) (h2 : ∀ p ∈ r.tops, bodyOK p.2) (h3 : CtlShape r.ctl)
    (h4 : ∀ f, PerFut r f)
    (h5 : ∀ t old rest, r.ctl = .gen t old :: rest →
      (view r t).kind = .task ∧ (view r t).out = none ∧ ∀ d ∈ (view r t).deps, r.computed d = true) : InvA r :=
  ⟨h1, h2, fun f => (h4 f).1, h3, fun f => (h4 f).2.1, fun f => (h4 f).2.2.1, fun f => (h4 f).2.2.2, h5⟩

/-- a future whose relevant fields did not change (or that became computed) -/
theorem perFut_of {s r : State} (h : InvA s) (f : Nat) (hok : okV (view r f))
    (hd : (view r f).deps = [] ∨ (view r f).deps = (view s f).deps)
    (hs : (view r f).started = (view s f).started) (hp : (view r f).pending = (view s f).pending)
    (hko : (view r f).out ≠ none ∨ ((view r f).kind = (view s f).kind ∧ (view r f).out = (view s f).out ∧
      ∀ old rest, s.ctl = .gen f old :: rest → ∃ old' rest', r.ctl = .gen f old' :: rest')) : PerFut r f := by
  refine ⟨hok, ?_, ?_, ?_⟩
  · intro hne
    rcases hd with hd | hd
    · exact absurd hd hne
    · rw [hs]; exact h.sOfD f (by rw [← hd]; exact hne)
  · intro hpf
    rw [hs]; exact h.sOfR f (by rw [← hp]; exact hpf)
  · intro hk ho hng
    rcases hko with hko | ⟨hk', ho', hc⟩
    · exact absurd ho hko
    · rw [hp]
      refine h.pOfI f (by rw [← hk']; exact hk) (by rw [← ho']; exact ho) ?_
      intro old rest hcs
      obtain ⟨old', rest', hcr⟩ := hc old rest hcs
      exact hng old' rest' hcr

theorem perFut_same {s r : State} (h : InvA s) (f : Nat) (e : view r f = view s f)
    (hc : ∀ old rest, s.ctl = .gen f old :: rest → ∃ old' rest', r.ctl = .gen f old' :: rest') : PerFut r f :=
  perFut_of h f (by rw [e]; exact h.ok f) (Or.inr (by rw [e])) (by rw [e]) (by rw [e]) (Or.inr ⟨by rw [e], by rw [e], hc⟩)

/-- a future that has just been created -/
theorem perFut_new {r : State} (f : Nat) (hok : okV (view r f)) (hd : (view r f).deps = [])
    (hp : (view r f).pending = true) : PerFut r f :=
  ⟨hok, fun hne => absurd hd hne, (fun hpf => by rw [hp] at hpf; cases hpf), fun _ _ _ => hp⟩

theorem okV_plainView (kd : FKind) (out : Option Outcome) : okV (plainView kd out) := okV_dview

theorem invA_step {s r : State} (h : InvA s) (d : Desc s r) : InvA r := by
  have hgenS : ∀ {r' : State}, Same s r' → r'.ctl = s.ctl → ∀ t old rest, r'.ctl = .gen t old :: rest →
      (view r' t).kind = .task ∧ (view r' t).out = none ∧ ∀ d ∈ (view r' t).deps, r'.computed d = true := by
    intro r' e hc t old rest hctl
    rw [hc] at hctl
    obtain ⟨h1, h2, h3⟩ := h.gen t old rest hctl
    rw [e.view t]
    exact ⟨h1, h2, fun d hd => by rw [e.computed]; exact h3 d hd⟩
  cases d with
  | quiet e hst hctl =>
    refine InvA.of_perFut (e.noNA h.noNA) (by rw [e.tops]; exact h.tops) (by rw [hctl]; exact h.shape) ?_
      (hgenS e hctl)
    intro f
    exact perFut_same h f (e.view f) (fun old rest hc => ⟨old, rest, by rw [hctl]; exact hc⟩)
  | top conv body rest htops hctl0 U htops' hctl =>
    refine InvA.of_perFut (U.noNA h.noNA) ?_ (by rw [hctl]; exact Or.inr (Or.inl ⟨_, rfl⟩)) ?_ ?_
    · intro p hp
      rw [htops'] at hp
      exact h.tops p (by rw [htops]; exact List.mem_cons_of_mem _ hp)
    · intro f
      by_cases hf : f = s.futs.length
      · subst hf
        refine perFut_new _ ?_ (by rw [U.viewN]; rfl) (by rw [U.viewN]; rfl)
        rw [U.viewN]
        exact ⟨h.tops (conv, body) (by rw [htops]; exact List.mem_cons_self), by intro p hp; cases hp⟩
      · exact perFut_same h f (U.viewO f hf) (fun old rest hc => by rw [hctl0] at hc; cases hc)
    · intro t old rest hc; rw [hctl] at hc; cases hc
  | ret root hw hroot e hst hctl =>
    refine InvA.of_perFut (e.noNA h.noNA) (by rw [e.tops]; exact h.tops) (by rw [hctl]; exact h.shape.tail) ?_ ?_
    · intro f
      exact perFut_same h f (e.view f) (fun old rest hc => absurd hc (hw f old rest))
    · intro t old rest hc
      rw [hctl] at hc
      rcases h.shape with h0 | ⟨r0, h0⟩ | ⟨r0, b0, h0⟩ | ⟨t0, old0, r0, b0, h0⟩
      · rw [h0] at hc; cases hc
      · rw [h0] at hc; cases hc
      · rw [h0] at hc; cases hc
      · exact absurd h0 (hw t0 old0 _)
  | enterLoop root rest hctl0 hroot e hst hctl =>
    have hrest : rest = [] := by
      rcases h.shape with h0 | ⟨r0, h0⟩ | ⟨r0, b0, h0⟩ | ⟨t0, old0, r0, b0, h0⟩ <;> rw [h0] at hctl0 <;> cases hctl0
      rfl
    refine InvA.of_perFut (e.noNA h.noNA) (by rw [e.tops]; exact h.tops)
      (by rw [hctl, hrest]; exact Or.inr (Or.inr (Or.inl ⟨_, _, rfl⟩))) ?_ ?_
    · intro f
      exact perFut_same h f (e.view f) (fun old rest' hc => by rw [hctl0] at hc; cases hc)
    · intro t old rest' hc; rw [hctl] at hc; cases hc
  | pop hw top st hstk hcase e hst hctl =>
    refine InvA.of_perFut (e.noNA h.noNA) (by rw [e.tops]; exact h.tops) (by rw [hctl]; exact h.shape) ?_
      (hgenS e hctl)
    intro f
    exact perFut_same h f (e.view f) (fun old rest hc => ⟨old, rest, by rw [hctl]; exact hc⟩)
  | popLazy hw top st hstk lo hk hc U hst hctl =>
    obtain ⟨root, base, rest, hw⟩ := hw
    refine InvA.of_perFut (U.noNA h.noNA) (by rw [U.tops]; exact h.tops) (by rw [hctl]; exact h.shape) ?_ ?_
    · intro f
      rcases U.view_cases f with ⟨rfl, e⟩ | ⟨_, e⟩
      · exact perFut_of h f (by rw [e]; exact h.ok f) (Or.inl (by rw [e]; rfl)) (by rw [e]; rfl) (by rw [e]; rfl)
          (Or.inl (by rw [e]; simp [doneView]))
      · exact perFut_same h f e (fun old rest' hc' => by rw [hw] at hc'; cases hc')
    · intro t old rest' hc'; rw [hctl, hw] at hc'; cases hc'
  | second hw top st hstk hk hc hbl hfl hnaf U hst hctl =>
    obtain ⟨root, base, rest, hw⟩ := hw
    refine InvA.of_perFut (U.noNA h.noNA) (by rw [U.tops]; exact h.tops) (by rw [hctl]; exact h.shape) ?_ ?_
    · intro f
      rcases U.view_cases f with ⟨rfl, e⟩ | ⟨_, e⟩
      · exact perFut_of h f (by rw [e]; exact h.ok f) (Or.inr (by rw [e]; rfl)) (by rw [e]; rfl) (by rw [e]; rfl)
          (Or.inr ⟨by rw [e]; rfl, by rw [e]; rfl, fun old rest' hc' => by rw [hw] at hc'; cases hc'⟩)
      · exact perFut_same h f e (fun old rest' hc' => by rw [hw] at hc'; cases hc')
    · intro t old rest' hc'; rw [hctl, hw] at hc'; cases hc'
  | naFail hw top st hstk hk hc hbl hfl hna U hst hctl =>
    obtain ⟨root, base, rest, hw⟩ := hw
    refine InvA.of_perFut (U.noNA h.noNA) (by rw [U.tops]; exact h.tops) (by rw [hctl]; exact h.shape) ?_ ?_
    · intro f
      rcases U.view_cases f with ⟨rfl, e⟩ | ⟨_, e⟩
      · have hst' : (view s f).started = true := by
          obtain ⟨d, hd, _⟩ := hbl
          exact h.sOfD f (fun e0 => by rw [e0] at hd; cases hd)
        rw [PerFut, e]
        exact ⟨⟨(h.ok f).1, by intro p hp'; cases hp'⟩, fun hne => absurd rfl hne, fun _ => hst',
          fun _ ho _ => by simp [finishView] at ho⟩
      · exact perFut_same h f e (fun old rest' hc' => by rw [hw] at hc'; cases hc')
    · intro t old rest' hc'; rw [hctl, hw] at hc'; cases hc'
  | first hw top st hstk hk hc hbl hfl U hst hctl =>
    obtain ⟨root, base, rest, hw⟩ := hw
    refine InvA.of_perFut (U.noNA h.noNA) (by rw [U.tops]; exact h.tops) (by rw [hctl]; exact h.shape) ?_ ?_
    · intro f
      rcases U.view_cases f with ⟨rfl, e⟩ | ⟨_, e⟩
      · exact perFut_of h f (by rw [e]; exact h.ok f) (Or.inr (by rw [e]; rfl)) (by rw [e]; rfl) (by rw [e]; rfl)
          (Or.inr ⟨by rw [e]; rfl, by rw [e]; rfl, fun old rest' hc' => by rw [hw] at hc'; cases hc'⟩)
      · exact perFut_same h f e (fun old rest' hc' => by rw [hw] at hc'; cases hc')
    · intro t old rest' hc'; rw [hctl, hw] at hc'; cases hc'
  | enterGen hw top st hstk hk hc hnb e hst a hctl =>
    obtain ⟨root, base, rest, hw⟩ := hw
    have hrest : rest = [] := by
      rcases h.shape with h0 | ⟨r0, h0⟩ | ⟨r0, b0, h0⟩ | ⟨t0, old0, r0, b0, h0⟩ <;> rw [h0] at hw <;> cases hw
      rfl
    refine InvA.of_perFut (e.noNA h.noNA) (by rw [e.tops]; exact h.tops)
      (by rw [hctl, hw, hrest]; exact Or.inr (Or.inr (Or.inr ⟨_, _, _, _, rfl⟩))) ?_ ?_
    · intro f
      exact perFut_same h f (e.view f) (fun old rest' hc' => by rw [hw] at hc'; cases hc')
    · intro t old rest' hc'
      rw [hctl] at hc'
      injection hc' with h1 _
      injection h1 with h1 _
      subst h1
      rw [e.view]
      exact ⟨hk, out_none_of_uncomputed hc, fun d hd => by rw [e.computed]; exact hnb d hd⟩
  | gen t old rest hctl0 d =>
    obtain ⟨hgk, hgo, hgd⟩ := h.gen t old rest hctl0
    obtain ⟨r0, b0, hrest⟩ : ∃ r0 b0, rest = [.waitLoop r0 b0] := by
      rcases h.shape with h0 | ⟨r0, h0⟩ | ⟨r0, b0, h0⟩ | ⟨t0, old0, r0, b0, h0⟩ <;> rw [h0] at hctl0 <;> cases hctl0
      exact ⟨r0, b0, rfl⟩
    have hne : ∀ f, f ≠ t → ∀ old' rest', s.ctl = .gen f old' :: rest' → ∃ old'' rest'', r.ctl = .gen f old'' :: rest'' := by
      intro f hf old' rest' hc
      rw [hctl0] at hc
      injection hc with h1 _
      injection h1 with h1 _
      exact absurd h1.symm hf
    have htail : s.ctl.tail = [.waitLoop r0 b0] := by rw [hctl0, hrest]; rfl
    have hshapeT : CtlShape s.ctl.tail := h.shape.tail
    cases d with
    | loc v' hu hctl hkind hout hflag hown hinh hprev hpend hstart hdeps hok _ =>
      have hs' : v'.started = true := by
        rcases hstart with h1 | ⟨h1, h2⟩
        · exact h1
        · rw [h2]; exact h.sOfR t h1
      refine InvA.of_perFut (hu.noNA h.noNA) (by rw [hu.tops]; exact h.tops) (by rw [hctl]; exact h.shape) ?_ ?_
      · intro f
        rcases hu.toS.view_cases f with ⟨rfl, e⟩ | ⟨hf, e⟩
        · rw [PerFut, e]
          exact ⟨hok, fun _ => hs', fun _ => hs', fun _ _ hng => absurd (hctl.trans hctl0) (hng old rest)⟩
        · exact perFut_same h f e (hne f hf)
      · intro t' old' rest' hc
        rw [hctl, hctl0] at hc
        injection hc with h1 _
        injection h1 with h1 _
        subst h1
        rw [hu.viewT]
        refine ⟨hkind.trans hgk, hout.trans hgo, ?_⟩
        intro d hd
        rcases hdeps with h1 | h1
        · rw [h1] at hd; cases hd
        · rw [h1] at hd
          exact hu.toS.computed_mono (by rw [hout]; exact id) (hgd d hd)
    | spawn child k pass hb hp hu hctl hbat hokc hokk =>
      refine InvA.of_perFut (hu.noNA h.noNA) (by rw [hu.tops]; exact h.tops) (by rw [hctl]; exact h.shape) ?_ ?_
      · intro f
        rcases hu.view_cases f with ⟨rfl, e⟩ | ⟨rfl, e⟩ | ⟨hf, _, e⟩
        · exact perFut_of h f (by rw [e]; exact ⟨hokk, (h.ok f).2⟩) (Or.inr (by rw [e]; rfl)) (by rw [e]; rfl)
            (by rw [e]; rfl) (Or.inr ⟨by rw [e]; rfl, by rw [e]; rfl, fun o r' hc => ⟨o, r', by rw [hctl]; exact hc⟩⟩)
        · exact perFut_new _ (by rw [e]; exact ⟨hokc, by intro p hp'; cases hp'⟩) (by rw [e]; rfl) (by rw [e]; rfl)
        · exact perFut_same h f e (hne f hf)
      · intro t' old' rest' hc
        rw [hctl, hctl0] at hc
        injection hc with h1 _
        injection h1 with h1 _
        subst h1
        rw [hu.viewT]
        exact ⟨hgk, hgo, fun d hd => hu.computed_mono id (hgd d hd)⟩
    | item kind payload mode k seq _ hp hu hctl hbat hokk =>
      refine InvA.of_perFut (hu.noNA h.noNA) (by rw [hu.tops]; exact h.tops) (by rw [hctl]; exact h.shape) ?_ ?_
      · intro f
        rcases hu.view_cases f with ⟨rfl, e⟩ | ⟨rfl, e⟩ | ⟨hf, _, e⟩
        · exact perFut_of h f (by rw [e]; exact ⟨hokk, (h.ok f).2⟩) (Or.inr (by rw [e]; rfl)) (by rw [e]; rfl)
            (by rw [e]; rfl) (Or.inr ⟨by rw [e]; rfl, by rw [e]; rfl, fun o r' hc => ⟨o, r', by rw [hctl]; exact hc⟩⟩)
        · exact perFut_new _ (by rw [e]; exact okV_plainView _ _) (by rw [e]; rfl) (by rw [e]; rfl)
        · exact perFut_same h f e (hne f hf)
      · intro t' old' rest' hc
        rw [hctl, hctl0] at hc
        injection hc with h1 _
        injection h1 with h1 _
        subst h1
        rw [hu.viewT]
        exact ⟨hgk, hgo, fun d hd => hu.computed_mono id (hgd d hd)⟩
    | other k kd out _ hp hu hctl hbat hokk hkd =>
      refine InvA.of_perFut (hu.noNA h.noNA) (by rw [hu.tops]; exact h.tops) (by rw [hctl]; exact h.shape) ?_ ?_
      · intro f
        rcases hu.view_cases f with ⟨rfl, e⟩ | ⟨rfl, e⟩ | ⟨hf, _, e⟩
        · exact perFut_of h f (by rw [e]; exact ⟨hokk, (h.ok f).2⟩) (Or.inr (by rw [e]; rfl)) (by rw [e]; rfl)
            (by rw [e]; rfl) (Or.inr ⟨by rw [e]; rfl, by rw [e]; rfl, fun o r' hc => ⟨o, r', by rw [hctl]; exact hc⟩⟩)
        · exact perFut_new _ (by rw [e]; exact okV_plainView _ _) (by rw [e]; rfl) (by rw [e]; rfl)
        · exact perFut_same h f e (hne f hf)
      · intro t' old' rest' hc
        rw [hctl, hctl0] at hc
        injection hc with h1 _
        injection h1 with h1 _
        subst h1
        rw [hu.viewT]
        exact ⟨hgk, hgo, fun d hd => hu.computed_mono id (hgd d hd)⟩
    | yield ry npy nd leave hp hsrc hdeps hleave hu hctl =>
      refine InvA.of_perFut (hu.noNA h.noNA) (by rw [hu.tops]; exact h.tops) ?_ ?_ ?_
      · rw [hctl]; cases leave
        · exact h.shape
        · exact hshapeT
      · intro f
        rcases hu.toS.view_cases f with ⟨rfl, e⟩ | ⟨hf, e⟩
        · rw [PerFut, e]
          exact ⟨h.ok f, fun _ => h.sOfR f hp, (fun hpf => by cases hpf), fun _ _ _ => rfl⟩
        · exact perFut_same h f e (hne f hf)
      · intro t' old' rest' hc
        rw [hctl] at hc
        cases leave
        · simp only [Bool.false_eq_true, if_false] at hc
          rw [hctl0] at hc
          injection hc with h1 _
          injection h1 with h1 _
          subst h1
          rw [hu.viewT]
          refine ⟨hgk, hgo, ?_⟩
          intro d hd
          have hnd : nd = [] := by
            have : nd.isEmpty = true := by simpa using hleave.symm
            simpa using this
          have hd' : d ∈ nd := hd
          rw [hnd] at hd'; cases hd'
        · simp only [if_true] at hc
          rw [htail] at hc; cases hc
    | finish o hp hu hctl =>
      refine InvA.of_perFut (hu.noNA h.noNA) (by rw [hu.tops]; exact h.tops) (by rw [hctl]; exact hshapeT) ?_ ?_
      · intro f
        rcases hu.toS.view_cases f with ⟨rfl, e⟩ | ⟨hf, e⟩
        · exact perFut_of h f (by rw [e]; exact ⟨(h.ok f).1, by intro p hp'; cases hp'⟩) (Or.inl (by rw [e]; rfl))
            (by rw [e]; rfl) (by rw [e, hp]; rfl) (Or.inl (by rw [e]; simp [finishView]))
        · exact perFut_same h f e (hne f hf)
      · intro t' old' rest' hc
        rw [hctl, htail] at hc; cases hc
  | flush root base rest hctl0 hlen hroot F hctl =>
    have hrest : rest = [] := by
      rcases h.shape with h0 | ⟨r0, h0⟩ | ⟨r0, b0, h0⟩ | ⟨t0, old0, r0, b0, h0⟩ <;> rw [h0] at hctl0 <;> cases hctl0
      rfl
    refine InvA.of_perFut (F.noNA h.noNA) (by rw [F.tops]; exact h.tops)
      (by rw [hctl, hrest]; exact Or.inr (Or.inl ⟨_, rfl⟩)) ?_ ?_
    · intro f
      have hc : ∀ old rest', s.ctl = .gen f old :: rest' → ∃ old' rest'', r.ctl = .gen f old' :: rest'' := by
        intro old rest' hc'; rw [hctl0] at hc'; cases hc'
      rcases F.view f with e | ⟨_, o, e⟩
      · exact perFut_same h f e hc
      · exact perFut_of h f (by rw [e]; exact h.ok f) (Or.inl (by rw [e]; rfl)) (by rw [e]; rfl) (by rw [e]; rfl)
          (Or.inl (by rw [e]; simp [doneView]))
    · intro t old rest' hc; rw [hctl] at hc; cases hc

end AsynqModel.Core.P27
