import AsynqModel.Proofs.P27Upd
/-
  P6 (property C04), part 4: what one instruction of a task body (`genStep`) does to the views, for a task whose
  remaining program is yield-only and uses no NonAsyncContext.
-/
namespace AsynqModel.Core.P27
open AsynqModel.Core.P6
open AsynqModel.Core

/-- the program fragment is yield-only (P27: it MAY create NonAsyncContexts) -/
def bodyOK (b : Body) : Prop := Spec.bodyHasSync b = false

theorem bodyOK_spawn {c k : Body} {p : List Ref} (h : bodyOK (.spawn c p k)) : bodyOK c ∧ bodyOK k := by
  simpa [bodyOK, Spec.bodyHasSync] using h
theorem bodyOK_item {a b : Nat} {m : ItemMode} {k : Body} (h : bodyOK (.item a b m k)) : bodyOK k := by
  simpa [bodyOK, Spec.bodyHasSync] using h
theorem bodyOK_const {a : Nat} {k : Body} (h : bodyOK (.const a k)) : bodyOK k := by
  simpa [bodyOK, Spec.bodyHasSync] using h
theorem bodyOK_errfut {a : Nat} {k : Body} (h : bodyOK (.errfut a k)) : bodyOK k := by
  simpa [bodyOK, Spec.bodyHasSync] using h
theorem bodyOK_lazy {a : LazyOut} {k : Body} (h : bodyOK (.lazy a k)) : bodyOK k := by
  simpa [bodyOK, Spec.bodyHasSync] using h
theorem bodyOK_read {a : Nat} {k : Body} (h : bodyOK (.read a k)) : bodyOK k := by
  simpa [bodyOK, Spec.bodyHasSync] using h
theorem bodyOK_active {k : Body} (h : bodyOK (.active k)) : bodyOK k := by
  simpa [bodyOK, Spec.bodyHasSync] using h
theorem bodyOK_yld {y : Y} {k h : Body} (hb : bodyOK (.yld y k h)) : bodyOK k ∧ bodyOK h := by
  simpa [bodyOK, Spec.bodyHasSync] using hb
theorem bodyOK_reyld {k h : Body} (hb : bodyOK (.reyld k h)) : bodyOK k ∧ bodyOK h := by
  simpa [bodyOK, Spec.bodyHasSync] using hb
theorem bodyOK_withCtx {c : CtxKind} {b k : Body} (h : bodyOK (.withCtx c b k)) : bodyOK b ∧ bodyOK k := by
  simpa [bodyOK, Spec.bodyHasSync] using h
theorem not_bodyOK_sync {c k h : Body} {p : List Ref} : ¬ bodyOK (.sync c p k h) := by
  simp [bodyOK, Spec.bodyHasSync]
theorem not_bodyOK_syncfut {r : Ref} {k h : Body} : ¬ bodyOK (.syncfut r k h) := by
  simp [bodyOK, Spec.bodyHasSync]
theorem not_bodyOK_syncret {f : Nat} {k h : Body} : ¬ bodyOK (.syncret f k h) := by
  simp [bodyOK, Spec.bodyHasSync]

/-- the body and the continuations of the open with-blocks are fine -/
def okV (v : FV) : Prop := bodyOK v.body ∧ ∀ p ∈ v.conts, bodyOK p.2

def taskView (child : Body) (inh : List Nat) : FV :=
  { kind := .task, out := none, body := child, conts := [], started := false, pending := true, flag := false,
    deps := [], own := [], inh := inh, prevY := .none }

def plainView (kd : FKind) (out : Option Outcome) : FV := { dview with kind := kd, out := out }

def curBatchL (l : List Batch) (kind : Nat) : Option Batch := (l.filter (fun b => b.kind == kind)).getLast?

theorem curBatch?_eq (s : State) (kind : Nat) : s.curBatch? kind = curBatchL s.batches kind := rfl

/-- the batches after the `item` instruction: a first batch of the kind is created if there is none, the new item
    `f` joins the current batch `(kind, seq)` -/
def ItemBatches (old new : List Batch) (kind seq f : Nat) : Prop :=
  ∃ l1 b, (l1 = old ∨ (curBatchL old kind = none ∧ l1 = old ++ [({ kind := kind, seq := 0 } : Batch)])) ∧
    curBatchL l1 kind = some b ∧ seq = b.seq ∧
    new = l1.map (fun b' => if b'.kind == kind && b'.seq == seq then { b' with items := b'.items ++ [f] } else b')

def ownView (v : FV) (f : Nat) (k : Body) : FV := { v with own := v.own ++ [f], body := k }

def yieldView (v : FV) (nd : List Nat) (npy : RY) (leave : Bool) : FV :=
  { v with pending := true, deps := nd, prevY := npy, flag := (if leave then false else v.flag) }

def finishView (v : FV) (o : Outcome) : FV :=
  { v with out := some o, pending := false, deps := [], flag := false, conts := [] }

def resumeView (keep : Bool) (b : Body) (v : FV) : FV :=
  { v with pending := false, deps := (if keep then v.deps else []), body := b }

/-- how an instruction that stays inside the task changes the remaining program -/
inductive BodyStep (v v' : FV) : Prop
  | same (hb : v'.body = v.body) (hc : v'.conts = v.conts)
  | yld (y : Y) (k h : Body) (hb : v.body = .yld y k h) (hb' : v'.body = k ∨ v'.body = h) (hc : v'.conts = v.conts)
  | reyld (k h : Body) (hb : v.body = .reyld k h) (hb' : v'.body = k ∨ v'.body = h) (hc : v'.conts = v.conts)
  | withCtx (c : CtxKind) (b k : Body) (cid : Nat) (hb : v.body = .withCtx c b k) (hb' : v'.body = b)
      (hc : v'.conts = (cid, k) :: v.conts)
  | endwith (cid : Nat) (k : Body) (rest : List (Nat × Body)) (hb : v.body = .endwith)
      (hc0 : v.conts = (cid, k) :: rest) (hb' : v'.body = k) (hc : v'.conts = rest)
  | read (var : Nat) (k : Body) (hb : v.body = .read var k) (hb' : v'.body = k) (hc : v'.conts = v.conts)
  | active (k : Body) (hb : v.body = .active k) (hb' : v'.body = k) (hc : v'.conts = v.conts)

/-- what `genStep t` does -/
inductive GenDesc (s r : State) (t : Nat) : Prop
  /-- an instruction that only changes the running task's private state -/
  | loc (v' : FV) (hu : Upd1 s r t v') (hctl : r.ctl = s.ctl)
      (hkind : v'.kind = (view s t).kind) (hout : v'.out = (view s t).out) (hflag : v'.flag = (view s t).flag)
      (hown : v'.own = (view s t).own) (hinh : v'.inh = (view s t).inh) (hprev : v'.prevY = (view s t).prevY)
      (hpend : v'.pending = false)
      (hstart : v'.started = true ∨ ((view s t).pending = false ∧ v'.started = (view s t).started))
      (hdeps : v'.deps = [] ∨ v'.deps = (view s t).deps)
      (hok : okV v') (hbs : BodyStep (view s t) v')
  /-- `child.asynq(...)` -/
  | spawn (child k : Body) (pass : List Ref) (hb : (view s t).body = .spawn child pass k)
      (hp : (view s t).pending = false)
      (hu : Upd2 s r t (ownView (view s t) s.futs.length k)
              (taskView child (pass.map (s.task t).resolve)))
      (hctl : r.ctl = s.ctl) (hbat : r.batches = s.batches) (hokc : bodyOK child) (hokk : bodyOK k)
  /-- a batch item is created -/
  | item (kind payload : Nat) (mode : ItemMode) (k : Body) (seq : Nat)
      (hb : (view s t).body = .item kind payload mode k) (hp : (view s t).pending = false)
      (hu : Upd2 s r t (ownView (view s t) s.futs.length k)
              (plainView (.item kind seq payload mode) none))
      (hctl : r.ctl = s.ctl) (hbat : ItemBatches s.batches r.batches kind seq s.futs.length) (hokk : bodyOK k)
  /-- a constant, error or lazy future is created -/
  | other (k : Body) (kd : FKind) (out : Option Outcome)
      (hb : (∃ a, (view s t).body = .const a k) ∨ (∃ a, (view s t).body = .errfut a k) ∨
        (∃ a, (view s t).body = .lazy a k))
      (hp : (view s t).pending = false)
      (hu : Upd2 s r t (ownView (view s t) s.futs.length k) (plainView kd out))
      (hctl : r.ctl = s.ctl) (hbat : r.batches = s.batches) (hokk : bodyOK k)
      (hkd : (kd = .const ∧ out.isSome = true) ∨ (kd = .errfut ∧ out.isSome = true) ∨ ((∃ o, kd = .lazy o) ∧ out = none))
  /-- `yield`: the task is suspended; it leaves its generator frame unless it awaits nothing -/
  | yield (ry npy : RY) (nd : List Nat) (leave : Bool)
      (hp : (view s t).pending = false)
      (hsrc : (∃ y k h, (view s t).body = .yld y k h ∧ ry = y.mapLeaves (s.task t).resolve ∧ npy = ry) ∨
              (∃ k h, (view s t).body = .reyld k h ∧ ry = (view s t).prevY ∧ npy = (view s t).prevY))
      (hdeps : nd = (if s.cfg.keepDeps then (view s t).deps else []) ++ extractFutures ry)
      (hleave : leave = !nd.isEmpty)
      (hu : Upd1 s r t (yieldView (view s t) nd npy leave))
      (hctl : r.ctl = if leave then s.ctl.tail else s.ctl)
  /-- the task finishes -/
  | finish (o : Outcome) (hp : (view s t).pending = false)
      (hu : Upd1 s r t (finishView (view s t) o))
      (hctl : r.ctl = s.ctl.tail)

theorem okV_of_body {v : FV} {b : Body} (h : okV v) (hb : bodyOK b) : okV { v with body := b } := ⟨hb, h.2⟩

theorem eqvK_wc3 (s : State) (cid t : Nat) (c : CtxKind) : EqvK s (P3.wc3 s cid t c) :=
  ⟨rfl, fun _ => rfl, rfl, rfl, rfl, rfl, rfl, fun _ => trivial⟩

theorem eqvK_withCtx (s : State) (t : Nat) (c : CtxKind) :
    EqvK s (P3.wc5 (P3.wc4 (P3.wc3 (P3.wc1 s c) s.ctxs.length t c) s.ctxs.length) c s.ctxs.length) := by
  have h1 : EqvK s (P3.wc1 s c) := by
    unfold P3.wc1; split
    · exact (eqv_svTouch _ _).k27
    · exact (Eqv.refl _).k27
  have h3 := eqvK_wc3 (P3.wc1 s c) s.ctxs.length t c
  have h4 : ∀ s' : State, EqvK s' (P3.wc4 s' s.ctxs.length) := by
    intro s'; unfold P3.wc4; split
    · exact (eqv_updTask _ _ _ (fun _ => rfl)).k27
    · exact (Eqv.refl _).k27
  have h5 : ∀ s' : State, EqvK s' (P3.wc5 s' c s.ctxs.length) := by
    intro s'; unfold P3.wc5; split
    · exact (Eqv.refl _).k27
    · exact (eqv_ctxResumeOne _ _).k27
  exact ((h1.trans h3).trans (h4 _)).trans (h5 _)

theorem eqv_exitFold (s : State) (l : List (Nat × Body)) : Eqv s (l.foldl (fun s p => s.ctxExit p.1) s) :=
  eqv_foldl _ (fun s p => eqv_ctxExit s p.1) l s

theorem finishTask_desc (s : State) (t : Nat) (old : Option Nat) (o : Outcome) (ht : t < s.futs.length)
    (hst : (s.finishTask t old o).stuck = none) :
    Upd1 s (s.finishTask t old o) t (finishView (view s t) o) ∧ (s.finishTask t old o).ctl = s.ctl.tail := by
  revert hst
  unfold State.finishTask
  split
  · intro h; simp at h
  · intro _
    have e1 := eqv_exitFold s (s.task t).conts
    have U1 := Upd1.of_eqv e1 t
    have U2 := U1.updTask ht (fun ts => { ts with conts := [] }) (fun v => { v with conts := [] }) (fun _ => rfl)
    have U3 := U2.updTask ht (fun ts => { ts with pending := false }) (fun v => { v with pending := false })
      (fun _ => rfl)
    have U4 := (U3.complete ht o).leaveGen ht old
    refine ⟨U4, ?_⟩
    show (List.foldl (fun s p => s.ctxExit p.1) s (s.task t).conts).ctl.tail = s.ctl.tail
    rw [e1.ctl]

def yieldG (nd : List Nat) (npy : RY) (v : FV) : FV := { v with pending := true, deps := nd, prevY := npy }
def contView (cs : List (Nat × Body)) (b : Body) (v : FV) : FV := { v with conts := cs, body := b }
def bodyView (b : Body) (v : FV) : FV := { v with body := b }
def itemFut (cfg : Cfg) (kind seq payload : Nat) (mode : ItemMode) : Fut :=
  { kind := .item kind seq payload mode, den := itemOutcome cfg kind payload mode }
def addItemB (f : Nat) (b : Batch) : Batch := { b with items := b.items ++ [f] }
def ownTs (f : Nat) (k : Body) (ts : TaskSt) : TaskSt := { ts with own := ts.own ++ [f], body := k }
def pushView (p : Nat × Body) (b : Body) (v : FV) : FV := { v with conts := p :: v.conts, body := b }
def yieldG' (nd : List Nat) (v : FV) : FV := { v with pending := true, deps := nd }

theorem genStep_desc (s : State) (t : Nat) (old : Option Nat) (hk : (view s t).kind = .task)
    (hok : okV (view s t)) (hst : (s.genStep t old).stuck = none) :
    GenDesc s (s.genStep t old) t := by
  have ht : t < s.futs.length := lt_of_view_task s t hk
  have U0 : Upd1 s s t (view s t) := Upd1.of_eqv (Eqv.refl s) t
  have hbody : (view s t).body = (s.task t).body := rfl
  have hpend : (view s t).pending = (s.task t).pending := rfl
  revert hst
  unfold State.genStep
  dsimp only
  split
  · rename_i hp
    split
    · -- start
      intro _
      exact .loc _ ((U0.updTask ht _ (fun v => { v with pending := false, started := true, deps := [] })
        (fun _ => rfl)).emit _) rfl rfl rfl rfl rfl rfl rfl rfl (Or.inl rfl) (Or.inl rfl) hok (.same rfl rfl)
    · rename_i hs
      have hs : (view s t).started = true := by
        show (s.task t).started = true
        simpa using hs
      split
      · rename_i y k h v hb _
        intro _
        have hb' : (view s t).body = .yld y k h := hb
        refine .loc _ ((U0.updTask ht _ (resumeView s.cfg.keepDeps k) (fun _ => rfl)).emit _)
          rfl rfl rfl rfl rfl rfl rfl rfl (Or.inl hs) ?_ ⟨(bodyOK_yld (hb' ▸ hok.1)).1, hok.2⟩
          (.yld y k h hb' (Or.inl rfl) rfl)
        unfold resumeView; cases s.cfg.keepDeps <;> simp
      · rename_i y k h e hb _
        intro _
        have hb' : (view s t).body = .yld y k h := hb
        refine .loc _ ((U0.updTask ht _ (resumeView s.cfg.keepDeps h) (fun _ => rfl)).emit _)
          rfl rfl rfl rfl rfl rfl rfl rfl (Or.inl hs) ?_ ⟨(bodyOK_yld (hb' ▸ hok.1)).2, hok.2⟩
          (.yld y k h hb' (Or.inr rfl) rfl)
        unfold resumeView; cases s.cfg.keepDeps <;> simp
      · rename_i k h v hb _
        intro _
        have hb' : (view s t).body = .reyld k h := hb
        refine .loc _ ((U0.updTask ht _ (resumeView s.cfg.keepDeps k) (fun _ => rfl)).emit _)
          rfl rfl rfl rfl rfl rfl rfl rfl (Or.inl hs) ?_ ⟨(bodyOK_reyld (hb' ▸ hok.1)).1, hok.2⟩
          (.reyld k h hb' (Or.inl rfl) rfl)
        unfold resumeView; cases s.cfg.keepDeps <;> simp
      · rename_i k h e hb _
        intro _
        have hb' : (view s t).body = .reyld k h := hb
        refine .loc _ ((U0.updTask ht _ (resumeView s.cfg.keepDeps h) (fun _ => rfl)).emit _)
          rfl rfl rfl rfl rfl rfl rfl rfl (Or.inl hs) ?_ ⟨(bodyOK_reyld (hb' ▸ hok.1)).2, hok.2⟩
          (.reyld k h hb' (Or.inr rfl) rfl)
        unfold resumeView; cases s.cfg.keepDeps <;> simp
      · intro h; simp at h
  · rename_i hp
    have hp : (view s t).pending = false := by
      show (s.task t).pending = false
      simpa using hp
    have fin : ∀ o, (s.finishTask t old o).stuck = none → GenDesc s (s.finishTask t old o) t := fun o h =>
      .finish o hp (finishTask_desc s t old o ht h).1 (finishTask_desc s t old o ht h).2
    split
    · exact fin _
    · exact fin _
    · exact fin _
    · exact fin _
    · -- spawn
      rename_i child pass k hb
      intro _
      have hb' : (view s t).body = .spawn child pass k := hb
      have hsub := bodyOK_spawn (hb' ▸ hok.1)
      refine .spawn child k pass hb' hp ?_ rfl rfl hsub.1 hsub.2
      unfold State.newTask
      exact (Upd2.alloc (EqvNB.refl s) t ht _ _).updTask ht _ (fun v => ownView v s.futs.length k) (fun _ => rfl)
    · -- item
      rename_i kind payload mode k hb
      have hb' : (view s t).body = .item kind payload mode k := hb
      have hsub := bodyOK_item (hb' ▸ hok.1)
      split
      · intro h; simp at h
      · rename_i b hcur
        intro _
        have key : ∀ s1 : State, EqvNB s s1 → s1.futs.length = s.futs.length → s1.ctl = s.ctl →
            (s1.batches = s.batches ∨ (curBatchL s.batches kind = none ∧
              s1.batches = s.batches ++ [({ kind := kind, seq := 0 } : Batch)])) →
            s1.curBatch? kind = some b →
            GenDesc s (((s1.alloc (itemFut s1.cfg kind b.seq payload mode)
                (.item kind b.seq b.items.length payload mode)).1.updBatch kind b.seq
                  (addItemB s1.futs.length)).updTask t (ownTs s1.futs.length k)) t := by
          intro s1 e hl hc hbat hcur'
          refine .item kind payload mode k b.seq hb' hp ?_ hc ⟨s1.batches, b, ?_, hcur', rfl, ?_⟩ hsub
          · have U := (Upd2.alloc e t ht (itemFut s1.cfg kind b.seq payload mode)
                (.item kind b.seq b.items.length payload mode)).eqvNB
              (r' := ((s1.alloc (itemFut s1.cfg kind b.seq payload mode)
                (.item kind b.seq b.items.length payload mode)).1.updBatch kind b.seq (addItemB s1.futs.length)))
              ⟨rfl, fun _ => rfl, rfl, rfl, id⟩
            have U' := U.updTask ht (ownTs s1.futs.length k) (fun v => ownView v s1.futs.length k) (fun _ => rfl)
            rw [← hl]
            exact U'
          · rcases hbat with h | ⟨h1, h2⟩
            · exact Or.inl h
            · exact Or.inr ⟨h1, h2⟩
          · rw [← hl]; rfl
        cases hcb : s.curBatch? kind with
        | some b0 =>
          simp only [hcb] at hcur ⊢
          exact key s (EqvNB.refl s) rfl rfl (Or.inl rfl) (hcb.trans hcur)
        | none =>
          simp only [hcb] at hcur ⊢
          exact key _ ⟨rfl, fun _ => rfl, rfl, rfl, id⟩ rfl rfl (Or.inr ⟨hcb, rfl⟩) hcur
    · -- const
      rename_i v k hb
      intro _
      have hb' : (view s t).body = .const v k := hb
      refine .other k .const (some (.ok (.a v))) (Or.inl ⟨v, hb'⟩) hp ?_ rfl rfl (bodyOK_const (hb' ▸ hok.1)) (Or.inl ⟨rfl, rfl⟩)
      exact (Upd2.alloc (EqvNB.refl s) t ht _ _).updTask ht _ (fun v => ownView v s.futs.length k) (fun _ => rfl)
    · -- errfut
      rename_i e k hb
      intro _
      have hb' : (view s t).body = .errfut e k := hb
      refine .other k .errfut (some (.err (.u e))) (Or.inr (Or.inl ⟨e, hb'⟩)) hp ?_ rfl rfl (bodyOK_errfut (hb' ▸ hok.1))
        (Or.inr (Or.inl ⟨rfl, rfl⟩))
      exact (Upd2.alloc (EqvNB.refl s) t ht _ _).updTask ht _ (fun v => ownView v s.futs.length k) (fun _ => rfl)
    · -- lazy
      rename_i lo k hb
      intro _
      have hb' : (view s t).body = .lazy lo k := hb
      refine .other k (.lazy lo) none (Or.inr (Or.inr ⟨lo, hb'⟩)) hp ?_ rfl rfl (bodyOK_lazy (hb' ▸ hok.1)) (Or.inr (Or.inr ⟨⟨lo, rfl⟩, rfl⟩))
      exact (Upd2.alloc (EqvNB.refl s) t ht _ _).updTask ht _ (fun v => ownView v s.futs.length k) (fun _ => rfl)
    · -- yld
      rename_i y k h hb
      have hb' : (view s t).body = .yld y k h := hb
      generalize hnd : (if s.cfg.keepDeps = true then (s.task t).deps else []) ++
        extractFutures (YS.mapLeaves (s.task t).resolve y) = nd
      have U := (U0.emit (.yield t (s.task t).resumes (y.mapLeaves (s.task t).resolve))).updTask ht
        (fun ts => { ts with pending := true, lastY := y.mapLeaves (s.task t).resolve,
                             prevY := y.mapLeaves (s.task t).resolve, prevYRef := y, deps := nd })
        (yieldG nd (y.mapLeaves (s.task t).resolve)) (fun _ => rfl)
      split
      · rename_i hemp
        intro _
        refine .yield (y.mapLeaves (s.task t).resolve) _ nd false hp (Or.inl ⟨y, k, h, hb', rfl, rfl⟩) hnd.symm
          (by simp [hemp]) ?_ rfl
        exact U
      · rename_i hemp
        intro _
        refine .yield (y.mapLeaves (s.task t).resolve) _ nd true hp (Or.inl ⟨y, k, h, hb', rfl, rfl⟩) hnd.symm
          (by simp [hemp]) ?_ rfl
        exact U.leaveGen ht old
    · -- reyld
      rename_i k h hb
      have hb' : (view s t).body = .reyld k h := hb
      generalize hnd : (if s.cfg.keepDeps = true then (s.task t).deps else []) ++
        extractFutures (s.task t).prevY = nd
      have U := (U0.emit (.yield t (s.task t).resumes (s.task t).prevY)).updTask ht
        (fun ts => { ts with pending := true, lastY := (s.task t).prevY, deps := nd })
        (yieldG' nd) (fun _ => rfl)
      split
      · rename_i hemp
        intro _
        refine .yield (s.task t).prevY _ nd false hp (Or.inr ⟨k, h, hb', rfl, rfl⟩) hnd.symm
          (by simp [hemp]) ?_ rfl
        exact U
      · rename_i hemp
        intro _
        refine .yield (s.task t).prevY _ nd true hp (Or.inr ⟨k, h, hb', rfl, rfl⟩) hnd.symm
          (by simp [hemp]) ?_ rfl
        exact U.leaveGen ht old
    · -- sync
      rename_i c p k h hb
      have hb' : (view s t).body = .sync c p k h := hb
      exact absurd (hb' ▸ hok.1) not_bodyOK_sync
    · rename_i r k h hb
      have hb' : (view s t).body = .syncfut r k h := hb
      exact absurd (hb' ▸ hok.1) not_bodyOK_syncfut
    · rename_i f k h hb
      have hb' : (view s t).body = .syncret f k h := hb
      exact absurd (hb' ▸ hok.1) not_bodyOK_syncret
    · -- withCtx
      rename_i c b k hb
      intro _
      have hb' : (view s t).body = .withCtx c b k := hb
      have hsub := bodyOK_withCtx (hb' ▸ hok.1)
      have e := eqvK_withCtx s t c
      refine .loc _ ((Upd1.of_eqvK e t).updTask ht _ (pushView (s.ctxs.length, k) b)
        (fun _ => rfl)) e.ctl rfl rfl rfl rfl rfl rfl hp (Or.inr ⟨hp, rfl⟩) (Or.inr rfl) ⟨hsub.1, ?_⟩
        (.withCtx c b k s.ctxs.length hb' rfl rfl)
      intro p hp'
      rcases List.mem_cons.1 hp' with h | h
      · rw [h]; exact hsub.2
      · exact hok.2 p h
    · -- endwith
      rename_i hbw
      have hbw' : (view s t).body = .endwith := hbw
      split
      · exact fin _
      · rename_i cid k rest hc
        intro _
        have hc' : (view s t).conts = (cid, k) :: rest := hc
        have e := eqv_ctxExit s cid
        refine .loc _ ((Upd1.of_eqv e t).updTask ht _ (contView rest k) (fun _ => rfl)) e.ctl
          rfl rfl rfl rfl rfl rfl hp (Or.inr ⟨hp, rfl⟩) (Or.inr rfl) ⟨?_, ?_⟩ (.endwith cid k rest hbw' hc' rfl rfl)
        · exact hok.2 (cid, k) (by rw [hc']; exact List.mem_cons_self)
        · intro p hp'
          exact hok.2 p (by rw [hc']; exact List.mem_cons_of_mem _ hp')
    · -- read
      rename_i var k hb
      intro _
      have hb' : (view s t).body = .read var k := hb
      have e := (eqv_svTouch s var).trans (eqv_emit _ (.read t var (.a ((s.svTouch var).svGet var))))
      exact .loc _ ((Upd1.of_eqv e t).updTask ht _ (bodyView k) (fun _ => rfl)) e.ctl
        rfl rfl rfl rfl rfl rfl hp (Or.inr ⟨hp, rfl⟩) (Or.inr rfl) ⟨bodyOK_read (hb' ▸ hok.1), hok.2⟩
        (.read var k hb' rfl rfl)
    · -- active
      rename_i k hb
      intro _
      have hb' : (view s t).body = .active k := hb
      exact .loc _ ((U0.emit (.active t s.active)).updTask ht _ (bodyView k) (fun _ => rfl)) rfl
        rfl rfl rfl rfl rfl rfl hp (Or.inr ⟨hp, rfl⟩) (Or.inr rfl) ⟨bodyOK_active (hb' ▸ hok.1), hok.2⟩
        (.active k hb' rfl rfl)

end AsynqModel.Core.P27
