import AsynqModel.Proofs.P14Inv
import AsynqModel.Proofs.P2Helpers
/-!
  P14, part 3: the simulation relation `K` is preserved by every helper of the machine and by `step`.

  The only side conditions are about the two events the observer checks:
  * the resume of a suspended task (`genStep` on a task that is `pending` and `started`) needs the task to be
    uncomputed and everything it yielded to be computed (both are invariants of reachable states, `P2.PInv`);
  * the `.ret` event of `finishTop` needs the `.ret` clause of the check to hold (`P4.TI`).
-/
namespace AsynqModel.Core.P14
open AsynqModel.Core AsynqModel.Core.Spec AsynqModel.Core.P2

variable {b : Bool} {c : Ctx}

/-- any change of the fields other than `futs` and `trace` -/
theorem K_mk (s : State) (cfg batches stack sbatches active ctl ctxs sv tops topIdx curTop raising choices stuck guardFired)
    (h : K b c s) :
    K b c { cfg := cfg, futs := s.futs, batches := batches, stack := stack, sbatches := sbatches, active := active,
            ctl := ctl, ctxs := ctxs, sv := sv, trace := s.trace, tops := tops, topIdx := topIdx, curTop := curTop,
            raising := raising, choices := choices, stuck := stuck, guardFired := guardFired } :=
  K_of_eq (s := s) rfl rfl h

theorem K_ite {s1 s2 : State} {p : Prop} [Decidable p] (h1 : K b c s1) (h2 : K b c s2) : K b c (if p then s1 else s2) := by
  split <;> assumption

/-! ### contexts -/

theorem K_svTouch {s : State} (var : Nat) (h : K b c s) : K b c (s.svTouch var) :=
  K_of_eq (sameC_svTouch s var).futs (sameC_svTouch s var).trace h

theorem K_ctxResumeOne {s : State} (cid : Nat) (h : K b c s) : K b c (s.ctxResumeOne cid) :=
  K_of_eq (sameC_ctxResumeOne s cid).futs (sameC_ctxResumeOne s cid).trace (K_emit _ rfl h)

theorem K_ctxPauseOne {s : State} (cid : Nat) (h : K b c s) : K b c (s.ctxPauseOne cid) :=
  K_of_eq (sameC_ctxPauseOne s cid).futs (sameC_ctxPauseOne s cid).trace (K_emit _ rfl h)

theorem K_ctxExit {s : State} (cid : Nat) (h : K b c s) : K b c (s.ctxExit cid) := by
  rcases ctxExit_cases s cid with e | ⟨o, e⟩
  · rw [e]
    exact K_emit _ rfl (K_ite h (K_ctxPauseOne _ h))
  · rw [e]
    have h1 : K b c (s.updTask o fun ts => { ts with ctxs := ts.ctxs.erase cid }) :=
      K_updTask _ _ (fun _ => rfl) (fun _ => rfl) (fun _ => rfl) (fun _ => rfl) h
    exact K_emit _ rfl (K_ite h1 (K_ctxPauseOne _ h1))

theorem K_foldl {α : Type} (g : State → α → State) (hg : ∀ s a, K b c s → K b c (g s a)) (l : List α) {s : State}
    (h : K b c s) : K b c (l.foldl g s) := by
  induction l generalizing s with
  | nil => exact h
  | cons a l ih => exact ih (hg s a h)

theorem K_exitAll {s : State} (t : Nat) (h : K b c s) : K b c (s.exitAll t) := by
  unfold State.exitAll
  refine K_updTask _ _ (fun _ => rfl) (fun _ => rfl) (fun _ => rfl) (fun _ => rfl) ?_
  exact K_foldl (fun (s : State) (p : Nat × Body) => s.ctxExit p.1) (fun s p hs => K_ctxExit p.1 hs) _ h

theorem K_failSuspended {s : State} (t : Nat) (e : Err) (h : K b c s) : K b c (s.failSuspended t e) := by
  unfold State.failSuspended
  split
  · exact h
  · exact K_complete _ _ (K_updTask_np _ _ (fun _ => rfl) (K_exitAll t h))

theorem K_resumeContexts {s : State} (t : Nat) (h : K b c s) : K b c (s.resumeContexts t) := by
  unfold State.resumeContexts
  simp only []
  split
  · exact h
  · have h1 : K b c ((s.task t).ctxs.foldl (fun s c => if s.ctxIsNonAsync c then s else s.ctxResumeOne c)
        (s.updTask t fun ts => { ts with ctxActive := true })) :=
      K_foldl _ (fun s a hs => K_ite hs (K_ctxResumeOne a hs)) _
        (K_updTask _ _ (fun _ => rfl) (fun _ => rfl) (fun _ => rfl) (fun _ => rfl) h)
    split
    · exact K_failSuspended _ _ h1
    · exact h1

theorem K_pauseContexts {s : State} (t : Nat) (h : K b c s) : K b c (s.pauseContexts t) := by
  unfold State.pauseContexts
  simp only []
  split
  · exact h
  · have h1 : K b c ((s.task t).ctxs.reverse.foldl (fun s c => if s.ctxIsNonAsync c then s else s.ctxPauseOne c)
        (s.updTask t fun ts => { ts with ctxActive := false })) :=
      K_foldl _ (fun s a hs => K_ite hs (K_ctxPauseOne a hs)) _
        (K_updTask _ _ (fun _ => rfl) (fun _ => rfl) (fun _ => rfl) (fun _ => rfl) h)
    split
    · exact K_failSuspended _ _ h1
    · exact h1

/-! ### batches -/

theorem K_switchActive {s : State} (kind seq : Nat) (h : K b c s) : K b c (s.switchActive kind seq) := by
  unfold State.switchActive
  split
  · split
    · exact K_of_eq (s := s) rfl rfl h
    · exact h
  · exact h

theorem K_updBatch {s : State} (kind seq : Nat) (g : Batch → Batch) (h : K b c s) : K b c (s.updBatch kind seq g) :=
  K_of_eq (s := s) rfl rfl h

theorem K_flushItems (kind : Nat) (l : List Nat) {s : State} (h : K b c s) : K b c (s.flushItems kind l) := by
  induction l generalizing s with
  | nil => exact h
  | cons i l ih =>
    unfold State.flushItems
    simp only []
    apply ih
    split
    · exact h
    · split
      · exact K_complete _ _ h
      · exact K_complete _ _ h
      · exact h

theorem K_finishItems (e : Err) (l : List Nat) {s : State} (h : K b c s) : K b c (s.finishItems e l) := by
  induction l generalizing s with
  | nil => exact h
  | cons i l ih =>
    unfold State.finishItems
    apply ih
    split
    · exact h
    · exact K_complete _ _ h

theorem K_flushBatch {s : State} (kind seq : Nat) (h : K b c s) : K b c (s.flushBatch kind seq) := by
  unfold State.flushBatch
  split
  · exact K_fail _ h
  · simp only []
    refine K_updBatch _ _ _ ?_
    refine K_emit _ rfl ?_
    refine K_finishItems _ _ ?_
    refine K_flushItems _ _ ?_
    refine K_emit _ rfl ?_
    exact K_switchActive _ _ h

theorem K_schedulerFlush {s : State} (root : Nat) (h : K b c s) : K b c (s.schedulerFlush root) := by
  unfold State.schedulerFlush
  simp only []
  have h0 : K b c { s with sbatches := s.flushable, ctl := .waitEnter root :: s.ctl.tail } := K_of_eq (s := s) rfl rfl h
  split
  · exact h0
  · split
    · exact K_fail _ h0
    · split
      · exact K_fail _ h0
      · split
        · exact K_fail _ h0
        · refine K_emit _ rfl ?_
          refine K_flushBatch _ _ ?_
          refine K_emit _ rfl ?_
          exact K_of_eq (s := s) rfl rfl h

/-! ### the scheduler loop -/

theorem K_popStack {s : State} (h : K b c s) : K b c s.popStack := K_of_eq (s := s) rfl rfl h

theorem K_handleTask {s : State} (t : Nat) (h : K b c s) : K b c (s.handleTask t) := by
  unfold State.handleTask
  simp only []
  split
  · split
    · refine K_popStack ?_
      refine K_pauseContexts _ ?_
      exact K_updTask _ _ (fun _ => rfl) (fun _ => rfl) (fun _ => rfl) (fun _ => rfl) h
    · apply K_mk
      refine K_resumeContexts _ ?_
      exact K_updTask _ _ (fun _ => rfl) (fun _ => rfl) (fun _ => rfl) (fun _ => rfl) h
  · split
    · exact K_fail _ h
    · apply K_mk
      exact K_resumeContexts _ h

theorem K_executeIter {s : State} (h : K b c s) : K b c s.executeIter := by
  unfold State.executeIter
  split
  · exact K_fail _ h
  · split
    · exact K_of_eq (s := s) rfl rfl h
    · split
      · exact K_popStack h
      · split
        · exact K_handleTask _ h
        · refine K_popStack ?_
          split
          · split
            · exact h
            · exact K_of_eq (s := s) rfl rfl h
          · exact h
        · exact K_popStack (K_complete _ _ h)
        · exact K_fail _ h

/-! ### one instruction of a task body -/

theorem K_leaveGen {s : State} (t : Nat) (old : Option Nat) (h : K b c s) : K b c (s.leaveGen t old) := by
  unfold State.leaveGen
  apply K_mk
  exact K_updTask _ _ (fun _ => rfl) (fun _ => rfl) (fun _ => rfl) (fun _ => rfl) h

theorem K_finishTask {s : State} (t : Nat) (old : Option Nat) (o : Outcome) (h : K b c s) :
    K b c (s.finishTask t old o) := by
  unfold State.finishTask
  split
  · exact K_fail _ h
  · exact K_leaveGen _ _ (K_complete _ _ (K_updTask_np _ _ (fun _ => rfl) (K_exitAll t h)))

theorem K_newTask {s : State} (child : Body) (inh : List Nat) (h : K b c s) : K b c (s.newTask child inh).1 := by
  unfold State.newTask
  exact K_alloc _ _ rfl (fun _ ho => by cases ho) h

theorem K_regCtx {s1 : State} (cid : Nat) (h : K b c s1) :
    K b c (match s1.active with
      | some a => s1.updTask a fun ts => { ts with ctxs := ts.ctxs ++ [cid] }
      | none => s1) := by
  split
  · exact K_updTask _ _ (fun _ => rfl) (fun _ => rfl) (fun _ => rfl) (fun _ => rfl) h
  · exact h

theorem K_svTouchMatch {s : State} (cx : CtxKind) (h : K b c s) :
    K b c (match cx with | .override var _ => s.svTouch var | _ => s) := by
  split
  · exact K_svTouch _ h
  · exact h

/-- `with c:` - the context object is created, registered with the active task and (unless it is a NonAsyncContext)
    resumed -/
theorem K_withCtxTail {s0 : State} (cid t : Nat) (cx : CtxKind) (h : K b c s0) :
    K b c (
      let s := s0.emit (.ctxN cid t cx)
      let s := { s with ctxs := s.ctxs ++ [({ kind := cx, owner := s.active } : CtxSt)] }
      let s := match s.active with
        | some a => s.updTask a fun ts => { ts with ctxs := ts.ctxs ++ [cid] }
        | none => s
      if cx == .nonasync then s else s.ctxResumeOne cid) := by
  have h1 : K b c (s0.emit (.ctxN cid t cx)) := K_emit _ rfl h
  have h2 : K b c { (s0.emit (.ctxN cid t cx)) with
      ctxs := (s0.emit (.ctxN cid t cx)).ctxs ++ [({ kind := cx, owner := (s0.emit (.ctxN cid t cx)).active } : CtxSt)] } :=
    K_of_eq (s := s0.emit (.ctxN cid t cx)) rfl rfl h1
  have h3 := K_regCtx cid h2
  exact K_ite h3 (K_ctxResumeOne _ h3)

theorem K_genStep {s : State} (t : Nat) (old : Option Nat) (h : K b c s)
    (hrun : (s.task t).pending = true → (s.task t).started = true →
      s.out t = none ∧ ∀ f ∈ (s.task t).lastY.leaves, s.computed f = true) :
    K b c (s.genStep t old) := by
  unfold State.genStep
  simp only []
  split
  · rename_i hp
    split
    · exact K_run _ _ _ _ _ (fun _ => rfl) (chkD_start ..) h
    · rename_i hs
      have hs' : (s.task t).started = true := by simpa using hs
      obtain ⟨ho, hl⟩ := hrun hp hs'
      have hk := chk_run_ok t h hp hs' ho hl
      split
      · rename_i hu
        rw [hu] at hk
        exact K_run _ _ _ _ _ (fun _ => rfl) hk h
      · rename_i hu
        rw [hu] at hk
        exact K_run _ _ _ _ _ (fun _ => rfl) hk h
      · rename_i hu
        rw [hu] at hk
        exact K_run _ _ _ _ _ (fun _ => rfl) hk h
      · rename_i hu
        rw [hu] at hk
        exact K_run _ _ _ _ _ (fun _ => rfl) hk h
      · exact K_fail _ h
  · split
    · exact K_finishTask _ _ _ h
    · exact K_finishTask _ _ _ h
    · exact K_finishTask _ _ _ h
    · exact K_finishTask _ _ _ h
    · -- spawn
      exact K_updTask _ _ (fun _ => rfl) (fun _ => rfl) (fun _ => rfl) (fun _ => rfl) (K_newTask _ _ h)
    · -- item
      rename_i kind payload mode k heq
      have h0 : K b c (match s.curBatch? kind with
          | some _ => s
          | none => { s with batches := s.batches ++ [({ kind := kind, seq := 0 } : Batch)] }) := by
        split
        · exact h
        · exact K_of_eq (s := s) rfl rfl h
      split
      · exact K_fail _ h0
      · refine K_updTask _ _ (fun _ => rfl) (fun _ => rfl) (fun _ => rfl) (fun _ => rfl) ?_
        refine K_updBatch _ _ _ ?_
        exact K_alloc _ _ rfl (fun _ ho => by cases ho) h0
    · -- const
      refine K_updTask _ _ (fun _ => rfl) (fun _ => rfl) (fun _ => rfl) (fun _ => rfl) ?_
      exact K_alloc _ _ rfl (fun _ ho => ho) h
    · -- errfut
      refine K_updTask _ _ (fun _ => rfl) (fun _ => rfl) (fun _ => rfl) (fun _ => rfl) ?_
      exact K_alloc _ _ rfl (fun _ ho => ho) h
    · -- lazy
      refine K_updTask _ _ (fun _ => rfl) (fun _ => rfl) (fun _ => rfl) (fun _ => rfl) ?_
      exact K_alloc _ _ rfl (fun _ ho => by cases ho) h
    · -- yld
      refine K_ite ?_ (K_leaveGen _ _ ?_)
      · exact K_yield t _ _ (by intro; rfl) (by intro; rfl) h
      · exact K_yield t _ _ (by intro; rfl) (by intro; rfl) h
    · -- reyld
      refine K_ite ?_ (K_leaveGen _ _ ?_)
      · exact K_yield t _ _ (by intro; rfl) (by intro; rfl) h
      · exact K_yield t _ _ (by intro; rfl) (by intro; rfl) h
    · -- sync
      apply K_mk
      refine K_emit _ rfl ?_
      exact K_updTask _ _ (fun _ => rfl) (fun _ => rfl) (fun _ => rfl) (fun _ => rfl) (K_newTask _ _ h)
    · -- syncfut
      rename_i r k hh heq
      have h1 : K b c ((s.updTask t fun ts => { ts with body := .syncret ((s.task t).resolve r) k hh }).emit
          (.syncE t ((s.task t).resolve r))) :=
        K_emit _ rfl (K_updTask _ _ (fun _ => rfl) (fun _ => rfl) (fun _ => rfl) (fun _ => rfl) h)
      split
      · exact h1
      · split
        · apply K_mk; exact h1
        · split
          · split
            · exact h1
            · exact K_flushBatch _ _ h1
          · exact h1
        · exact K_complete _ _ h1
        · exact h1
    · -- syncret
      split
      · exact K_fail _ h
      · refine K_emit _ rfl ?_
        refine K_updTask _ _ (fun _ => rfl) (fun _ => rfl) (fun _ => rfl) (fun _ => rfl) ?_
        exact K_of_eq (s := s) rfl rfl h
      · refine K_emit _ rfl ?_
        refine K_updTask _ _ (fun _ => rfl) (fun _ => rfl) (fun _ => rfl) (fun _ => rfl) ?_
        exact K_of_eq (s := s) rfl rfl h
    · -- withCtx
      rename_i cx bd k heq
      refine K_updTask _ _ (fun _ => rfl) (fun _ => rfl) (fun _ => rfl) (fun _ => rfl) ?_
      exact K_withCtxTail _ _ _ (K_svTouchMatch cx h)
    · -- endwith
      split
      · exact K_finishTask _ _ _ h
      · exact K_updTask _ _ (fun _ => rfl) (fun _ => rfl) (fun _ => rfl) (fun _ => rfl) (K_ctxExit _ h)
    · -- read
      refine K_updTask _ _ (fun _ => rfl) (fun _ => rfl) (fun _ => rfl) (fun _ => rfl) ?_
      exact K_emit _ rfl (K_svTouch _ h)
    · -- active
      exact K_updTask _ _ (fun _ => rfl) (fun _ => rfl) (fun _ => rfl) (fun _ => rfl) (K_emit _ rfl h)

/-! ### the transition function -/

/-- what the caller of a top-level computation observes (the `o` of the `.ret o` event of `finishTop`) -/
def topOutcome (s : State) (f : Nat) : Outcome :=
  match s.raising with
  | some e => .err e
  | none => (s.out f).getD (.err .other)

theorem K_ret {s : State} (o : Outcome) (hchk : chkD b c (wOf s.trace) (.ret o) = none) (h : K b c s) :
    K b c (s.emit (.ret o)) :=
  ⟨⟨h.ok, hchk⟩, fun f o' ho => h.ora f o' ho, fun t h1 h2 h3 => h.ly t h1 h2 h3⟩

theorem K_finishTop {s : State} (f : Nat) (h : K b c s)
    (hchk : chkD b c (wOf s.trace) (.ret (topOutcome s f)) = none) : K b c (s.finishTop f) := by
  unfold State.finishTop
  simp only []
  refine K_emit _ rfl ?_
  refine K_emit _ rfl ?_
  refine K_ret _ hchk ?_
  exact K_of_eq (s := s) rfl rfl h

theorem K_step {s : State} (h : K b c s)
    (hrun : ∀ t old rest, s.ctl = .gen t old :: rest → (s.task t).pending = true → (s.task t).started = true →
      s.out t = none ∧ ∀ f ∈ (s.task t).lastY.leaves, s.computed f = true)
    (hret : ∀ f, s.stuck = none → s.ctl = [] → s.curTop = some f →
      chkD b c (wOf s.trace) (.ret (topOutcome s f)) = none) : K b c (step s) := by
  unfold step
  split
  · exact h
  · rename_i hst
    split
    · rename_i hctl
      split
      · rename_i f hcur
        exact K_finishTop f h (hret f (by simpa using hst) hctl hcur)
      · split
        · exact h
        · simp only []
          apply K_mk
          refine K_newTask _ _ ?_
          refine K_emit _ rfl ?_
          exact K_of_eq (s := s) rfl rfl h
    · split
      · exact K_of_eq (s := s) rfl rfl h
      · split
        · exact K_of_eq (s := s) rfl rfl h
        · exact K_of_eq (s := s) rfl rfl h
    · split
      · exact K_of_eq (s := s) rfl rfl h
      · split
        · exact K_executeIter h
        · split
          · exact K_of_eq (s := s) rfl rfl h
          · exact K_schedulerFlush _ h
    · rename_i t old rest hctl
      exact K_ite (K_fail _ h) (K_genStep t old h (hrun t old rest hctl))

end AsynqModel.Core.P14
