import AsynqModel.Proofs.P15Main
import AsynqModel.Proofs.P15Ret2
import AsynqModel.Proofs.P13Main
/-!
  P15, part 7: the simulation relation with the `.ret` clause (`R false true`) for the states of a well-scoped run in
  which the stack guard has not fired and no NonAsyncContext was created.
-/
namespace AsynqModel.Core.P15
open AsynqModel.Core AsynqModel.Core.Spec AsynqModel.Core.P2 AsynqModel.Core.P14

theorem genOK_of_false {o : Bool} {s : State} {t : Nat} (g : GenOK false s t)
    (hord : o = true → (s.task t).pending = true → (s.task t).started = false →
      elsewhere (wOf s.trace) t ∨ orderBad (wOf s.trace) t = false) : GenOK o s t :=
  ⟨g.kind, g.live, g.act, g.res0, g.rdy, g.aw, hord⟩

theorem R_reachW {s : State} (h : P10.WSReach s) (hg : s.guardFired = false) (hn : Inv.noNonAsync s = true) :
    R false true s := by
  induction h with
  | init cfg tops choices _ => exact R_init cfg tops choices
  | @step s hs ih =>
    have hg0 := P3.guard_mono s hg
    have hn0 := P4.step_noNonAsync s hn
    exact R_step (ih hg0 hn0) (pinv_reach hs.reach).items (fun t old rest _ hctl => genOK_reach hs.reach hctl)
      (fun f _ hctl _ _ t hst => started_computed_at_top hs hg0 hn0 hctl t hst)

/-- the runs of a program whose top-level computations are all well-scoped -/
theorem wsreach_of_reachFrom {cfg : Cfg} {tops : List (Conv × Body)} {choices : List (Nat × Nat)} {s : State}
    (h : P13.ReachFrom (initState cfg tops choices) s) (hw : ∀ p, p ∈ tops → P10.WellScoped p.2 0 0 = true) :
    P10.WSReach s := by
  induction h with
  | init => exact .init cfg tops choices hw
  | step _ ih => exact .step ih

end AsynqModel.Core.P15
