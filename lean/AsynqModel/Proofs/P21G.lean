import AsynqModel.Proofs.P21Frame
/-
  P21, part 2: the step relation `G x s r` and its primitive operations.
-/
namespace AsynqModel.Core.P21
open AsynqModel.Core

def isSR : Body → Bool
  | .syncret _ _ _ => true
  | _ => false

theorem isSR_false_of_ne {b : Body} (h : ∀ f k hh, b ≠ .syncret f k hh) : isSR b = false := by
  cases b <;> first | rfl | exact absurd rfl (h _ _ _)

theorem isSR_of_wsB {b : Body} {n ninh : Nat} {Q : Nat → Bool} (h : P10.wsB b n ninh Q = true) : isSR b = false :=
  isSR_false_of_ne (P20.not_syncret_of_wsB h)

theorem ne_of_isSR {b : Body} (h : isSR b = false) (f : Nat) (k hh : Body) : b ≠ .syncret f k hh := by
  intro e; subst e; cases h

structure G0 (x : Option Nat) (s r : State) : Prop where
  len : s.futs.length ≤ r.futs.length
  kind : ∀ f, f < s.futs.length → (r.fut f).kind = (s.fut f).kind
  comp : ∀ f, s.computed f = true → r.computed f = true
  other : ∀ f, x ≠ some f → f < s.futs.length →
    (r.task f).body = (s.task f).body ∧ ((r.task f).pending = true → (s.task f).pending = true)
  fresh : ∀ f, s.futs.length ≤ f → isSR (r.task f).body = false
  stuck : r.stuck = s.stuck
  tops : r.tops = s.tops
  aux : Aux s r

structure G (x : Option Nat) (s r : State) : Prop extends G0 x s r where
  ib : P6.InvB s → P6.InvB r

theorem task_ge (s : State) (f : Nat) (h : s.futs.length ≤ f) : s.task f = {} := P10.task_default s f h

theorem G0.refl (x : Option Nat) (s : State) : G0 x s s :=
  ⟨Nat.le_refl _, fun _ _ => rfl, fun _ h => h, fun _ _ _ => ⟨rfl, id⟩, fun f hf => by rw [task_ge s f hf]; rfl,
   rfl, rfl, Aux.refl s⟩

theorem G.refl (x : Option Nat) (s : State) : G x s s := ⟨G0.refl x s, id⟩

theorem G0.trans {x : Option Nat} {a b c : State} (hx : ∀ t, x = some t → t < a.futs.length) (h1 : G0 x a b)
    (h2 : G0 x b c) : G0 x a c where
  len := Nat.le_trans h1.len h2.len
  kind := fun f hf => (h2.kind f (Nat.lt_of_lt_of_le hf h1.len)).trans (h1.kind f hf)
  comp := fun f h => h2.comp f (h1.comp f h)
  other := fun f hne hf => by
    obtain ⟨b1, p1⟩ := h1.other f hne hf
    obtain ⟨b2, p2⟩ := h2.other f hne (Nat.lt_of_lt_of_le hf h1.len)
    exact ⟨b2.trans b1, fun h => p1 (p2 h)⟩
  fresh := fun f hf => by
    by_cases hb : f < b.futs.length
    · have hne : x ≠ some f := fun e => by have := hx f e; omega
      rw [(h2.other f hne hb).1]
      exact h1.fresh f hf
    · exact h2.fresh f (by omega)
  stuck := h2.stuck.trans h1.stuck
  tops := h2.tops.trans h1.tops
  aux := h1.aux.trans h2.aux

theorem G.trans {x : Option Nat} {a b c : State} (hx : ∀ t, x = some t → t < a.futs.length) (h1 : G x a b)
    (h2 : G x b c) : G x a c := ⟨h1.toG0.trans hx h2.toG0, fun h => h2.ib (h1.ib h)⟩

theorem G.weaken {s r : State} (x : Option Nat) (h : G none s r) : G x s r :=
  { h with other := fun f _ hf => h.other f (by simp) hf }

/-- only fields the relation does not look at differ -/
theorem G0.congr {x : Option Nat} {s a r : State} (h : G0 x s a) (hf : r.futs = a.futs) (hst : r.stuck = a.stuck)
    (ht : r.tops = a.tops) (hc : r.choices = a.choices) (hcur : r.curTop = a.curTop) (hcfg : r.cfg = a.cfg)
    (htr : r.trace = a.trace) : G0 x s r := by
  have hfut : ∀ f, r.fut f = a.fut f := fun f => by unfold State.fut; rw [hf]
  have htask : ∀ f, r.task f = a.task f := fun f => by unfold State.task; rw [hfut]
  have hcomp : ∀ f, r.computed f = a.computed f := fun f => by unfold State.computed State.out; rw [hfut]
  exact ⟨by rw [hf]; exact h.len, fun f hf' => by rw [hfut]; exact h.kind f hf', fun f hc' => by rw [hcomp]; exact h.comp f hc',
    fun f hne hf' => by rw [htask]; exact h.other f hne hf', fun f hf' => by rw [htask]; exact h.fresh f hf',
    hst.trans h.stuck, ht.trans h.tops, h.aux.trans (aux_of_eq hc hcur hcfg htr)⟩

theorem invB_congr {a r : State} (hi : P6.InvB a) (hf : r.futs = a.futs) (hb : r.batches = a.batches) : P6.InvB r := by
  have hfut : ∀ f, r.fut f = a.fut f := fun f => by unfold State.fut; rw [hf]
  refine hi.of_same_batches hb ?_
  intro f k q p m hk ho
  have e : P6.view r f = P6.view a f := by unfold P6.view; rw [hfut]
  rw [e] at hk ho
  exact ⟨hk, ho⟩

theorem G.congr {x : Option Nat} {s a r : State} (h : G x s a) (hf : r.futs = a.futs) (hst : r.stuck = a.stuck)
    (ht : r.tops = a.tops) (hc : r.choices = a.choices) (hcur : r.curTop = a.curTop) (hcfg : r.cfg = a.cfg)
    (htr : r.trace = a.trace) (hb : r.batches = a.batches) : G x s r :=
  ⟨h.toG0.congr hf hst ht hc hcur hcfg htr, fun hi => invB_congr (h.ib hi) hf hb⟩

/-- a heap-side helper -/
theorem g0_of_nz {s r : State} (x : Option Nat) (nz : P10.NZ s r) (aux : Aux s r) : G0 x s r := by
  refine ⟨Nat.le_of_eq nz.len.symm, fun f _ => nz.kind f, nz.comp, fun f _ _ => ⟨(nz.ts f).body, (nz.ts f).pending⟩,
    fun f hf => ?_, nz.stuck, nz.tops, aux⟩
  rw [task_ge r f (by rw [nz.len]; exact hf)]; rfl

/-- a heap-side helper that keeps the batch table -/
theorem g_of_nz {s r : State} (x : Option Nat) (nz : P10.NZ s r) (aux : Aux s r) (hb : r.batches = s.batches) :
    G x s r := by
  refine ⟨g0_of_nz x nz aux, fun hi => ?_⟩
  refine hi.of_same_batches hb ?_
  intro f k q p m hk ho
  refine ⟨(nz.kind f).symm.trans hk, ?_⟩
  cases hs : s.out f with
  | none => exact hs
  | some o =>
    have : r.computed f = true := nz.comp f (by unfold State.computed; rw [hs]; rfl)
    have ho' : r.out f = none := ho
    unfold State.computed at this
    rw [ho'] at this
    cases this

structure FZ (s r : State) : Prop where
  nz : P10.NZ s r
  aux : Aux s r
  bat : r.batches = s.batches

theorem FZ.refl (s : State) : FZ s s := ⟨P10.NZ.refl s, Aux.refl s, rfl⟩
theorem FZ.trans {a b c : State} (h1 : FZ a b) (h2 : FZ b c) : FZ a c :=
  ⟨h1.nz.trans h2.nz, h1.aux.trans h2.aux, h2.bat.trans h1.bat⟩
theorem FZ.g {s r : State} (h : FZ s r) (x : Option Nat) : G x s r := g_of_nz x h.nz h.aux h.bat

theorem fz_emit (s : State) (e : Event) (he : isRet e = false) : FZ s (s.emit e) := ⟨P10.nz_emit s e, aux_emit s e he, rfl⟩
theorem fz_updTask (s : State) (t : Nat) (g : TaskSt → TaskSt) (hg : ∀ ts, P10.TsKeep ts (g ts)) : FZ s (s.updTask t g) :=
  ⟨P10.nz_updTask s t g hg, aux_updTask s t g, rfl⟩
theorem fz_complete (s : State) (f : Nat) (o : Outcome) : FZ s (s.complete f o) :=
  ⟨P10.nz_complete s f o, aux_complete s f o, rfl⟩
theorem fz_svTouch (s : State) (var : Nat) : FZ s (s.svTouch var) :=
  ⟨P10.nz_svTouch s var, aux_svTouch s var, ((P1.Quiet.refl s).svTouch var).batches⟩
theorem fz_ctxResumeOne (s : State) (c : Nat) : FZ s (s.ctxResumeOne c) :=
  ⟨P10.nz_ctxResumeOne s c, aux_ctxResumeOne s c, ((P1.Quiet.refl s).ctxResumeOne c).batches⟩
theorem fz_ctxExit (s : State) (c : Nat) : FZ s (s.ctxExit c) :=
  ⟨P10.nz_ctxExit s c, aux_ctxExit s c, ((P1.Quiet.refl s).ctxExit c).batches⟩
theorem fz_exitAll (s : State) (t : Nat) : FZ s (s.exitAll t) :=
  ⟨P10.nz_exitAll s t, aux_exitAll s t, ((P1.Quiet.refl s).exitAll t).batches⟩
theorem fz_resumeContexts (s : State) (t : Nat) : FZ s (s.resumeContexts t) :=
  ⟨P10.nz_resumeContexts s t, aux_resumeContexts s t, ((P1.Quiet.refl s).resumeContexts t).batches⟩
theorem fz_pauseContexts (s : State) (t : Nat) : FZ s (s.pauseContexts t) :=
  ⟨P10.nz_pauseContexts s t, aux_pauseContexts s t, ((P1.Quiet.refl s).pauseContexts t).batches⟩
theorem fz_of_eq {s r : State} (hf : r.futs = s.futs) (hc : r.ctl = s.ctl) (hs : r.stack = s.stack)
    (hg : r.guardFired = s.guardFired) (hr : r.raising = s.raising) (ht : r.tops = s.tops) (hst : r.stuck = s.stuck)
    (h1 : r.choices = s.choices) (h2 : r.curTop = s.curTop) (h3 : r.cfg = s.cfg) (h4 : r.trace = s.trace)
    (hb : r.batches = s.batches) : FZ s r :=
  ⟨P10.nz_of_futs hf hc hs hg hr ht hst, aux_of_eq h1 h2 h3 h4, hb⟩

/-! ### operations that are not `NZ` -/

/-- any update of the exempt task -/
theorem g_updSelf (s : State) (t : Nat) (g : TaskSt → TaskSt) : G (some t) s (s.updTask t g) := by
  refine ⟨⟨by simp, fun f _ => by simp, fun f h => by simpa using h, fun f hne hf => ?_, fun f hf => ?_, rfl, rfl,
    aux_updTask s t g⟩, fun hi => ?_⟩
  · have : f ≠ t := fun e => hne (by rw [e])
    rw [P10.task_updTask_ne _ _ _ _ this]
    exact ⟨rfl, id⟩
  · rw [P10.task_updTask]
    split
    · rename_i h; omega
    · rw [task_ge s f hf]; rfl
  · refine hi.of_same_batches rfl ?_
    intro f k q p m hk ho
    have hk' : ((s.updTask t g).fut f).kind = .item k q p m := hk
    have ho' : (s.updTask t g).out f = none := ho
    simp at hk' ho'
    exact ⟨hk', ho'⟩

/-- a new future that is not a batch item -/
theorem g0_alloc (x : Option Nat) (s : State) (fx : Fut) (nk : NewKind) (hb : isSR fx.ts.body = false) :
    G0 x s (s.alloc fx nk).1 := by
  refine ⟨by simp, fun f hf => by rw [P1.fut_alloc_lt s fx nk f hf], fun f h => ?_, fun f _ hf => ?_, fun f hf => ?_, rfl, rfl,
    aux_alloc s fx nk⟩
  · have hf : f < s.futs.length := by
      apply Classical.byContradiction; intro hn
      rw [P10.computed_default s f (by omega)] at h; cases h
    rw [P10.computed_alloc s fx nk f (by omega)]; exact h
  · rw [P10.task_alloc]
    have : f ≠ s.futs.length := by omega
    simp [this]
  · rw [P10.task_alloc]
    split
    · exact hb
    · rw [task_ge s f hf]; rfl

theorem g_alloc (x : Option Nat) (s : State) (fx : Fut) (nk : NewKind) (hb : isSR fx.ts.body = false)
    (hk : ∀ k q p m, fx.kind ≠ .item k q p m) : G x s (s.alloc fx nk).1 := by
  refine ⟨g0_alloc x s fx nk hb, fun hi => ?_⟩
  · refine hi.of_same_batches rfl ?_
    intro f k q p m hkf hof
    have hkf' : ((s.alloc fx nk).1.fut f).kind = .item k q p m := hkf
    have hof' : ((s.alloc fx nk).1.fut f).out = none := hof
    rw [P2.fut_alloc] at hkf' hof'
    split at hkf'
    · exact absurd hkf' (hk k q p m)
    · rename_i hne
      simp only [hne, if_false] at hof'
      exact ⟨hkf', hof'⟩

theorem g_newTask (x : Option Nat) (s : State) (child : Body) (inh : List Nat) (hb : isSR child = false) :
    G x s (s.newTask child inh).1 := by
  unfold State.newTask
  exact g_alloc x s _ _ hb (by intro _ _ _ _ h; cases h)

/-- an update of a task that keeps its body and its `pending` bit -/
theorem g_updKeep (x : Option Nat) (s : State) (t : Nat) (g : TaskSt → TaskSt) (hb : ∀ ts, (g ts).body = ts.body)
    (hp : ∀ ts, (g ts).pending = ts.pending) : G x s (s.updTask t g) := by
  refine ⟨⟨by simp, fun f _ => by simp, fun f h => by simpa using h, fun f _ _ => ?_, fun f hf => ?_, rfl, rfl,
    aux_updTask s t g⟩, fun hi => ?_⟩
  · rw [P10.task_updTask]
    split
    · rename_i h; rw [h.1, hb, hp]; exact ⟨rfl, id⟩
    · exact ⟨rfl, id⟩
  · rw [P10.task_updTask]
    split
    · rename_i h; omega
    · rw [task_ge s f hf]; rfl
  · refine hi.of_same_batches rfl ?_
    intro f k q p m hk ho
    have hk' : ((s.updTask t g).fut f).kind = .item k q p m := hk
    have ho' : (s.updTask t g).out f = none := ho
    simp at hk' ho'
    exact ⟨hk', ho'⟩

/-- only fields the relation does not look at differ -/
theorem g_same {s r : State} (x : Option Nat) (hf : r.futs = s.futs) (hst : r.stuck = s.stuck)
    (ht : r.tops = s.tops) (hc : r.choices = s.choices) (hcur : r.curTop = s.curTop) (hcfg : r.cfg = s.cfg)
    (htr : r.trace = s.trace) (hb : r.batches = s.batches) : G x s r :=
  (G.refl x s).congr hf hst ht hc hcur hcfg htr hb

end AsynqModel.Core.P21
