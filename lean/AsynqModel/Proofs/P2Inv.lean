import AsynqModel.Proofs.P2Step
/-!
  P2: the invariant behind C02/C03 and its preservation by the five kinds of transition (`StepKind`, P2Step.lean).

  `PInv = FInv ∧ CInv`, `pinv_init`, `pinv_step : PInv s → PInv (step s)` (no `stuck` hypothesis: a stuck state is a
  frozen copy of a reachable one), `pinv_reach : Reach s → PInv s`.
  * `FInv` (tasks and trace): `res0`, `leaves` (leaves of `lastY` ⊆ `deps`), `startedTask`, `items`, and on the trace
    `dc`, `idx`, `recv`, `doneC` (write once), `lastYield` (a suspended started task's newest run/yield event is
    `yield t resumes lastY`), `ybr` (yield before run, received = unwrap), `nrad` (no run after done).
  * `CInv` (running generators and contexts): `genKind`, `live` (running ⇒ uncomputed), `distinct`
    (`Inv.gensDistinct`), `buried` (`Inv.buriedNotPending`), `gnb` (running ⇒ no uncomputed dependency; strengthens
    `Inv.ready`), `actIn`/`olds` (`Inv.active`, weakened so that it survives the stack guard), `rca`
    (`Inv.runningCtxActive`), `z` (uncomputed ∧ contexts paused ⇒ no NonAsyncContext registered), `hrange`.
-/
namespace AsynqModel.Core.P2
open AsynqModel.Core

/-! ### functions and predicates on traces (newest event first) -/

def runIdxOf (t : Nat) : Event → Option Nat
  | .run t' i _ _ => if t' = t then some i else none
  | _ => none

/-- the indices of the `run` events of task `t`, newest first -/
def runIdx (t : Nat) (l : List Event) : List Nat := l.filterMap (runIdxOf t)

/-- a `run` or `yield` event of task `t` -/
def isRY (t : Nat) : Event → Bool
  | .run t' _ _ _ => t' == t
  | .yield t' _ _ => t' == t
  | _ => false

/-- `P e l` holds for every event `e` of the trace, `l` being the events before it -/
def AllSuff (P : Event → List Event → Prop) : List Event → Prop
  | [] => True
  | e :: l => P e l ∧ AllSuff P l

theorem allSuff_iff (P : Event → List Event → Prop) (l : List Event) :
    AllSuff P l ↔ ∀ l1 e l2, l = l1 ++ e :: l2 → P e l2 := by
  induction l with
  | nil => simp [AllSuff]
  | cons a l ih =>
    simp only [AllSuff, ih]
    constructor
    · rintro ⟨h1, h2⟩ l1 e l2 heq
      cases l1 with
      | nil => simp only [List.nil_append] at heq; injection heq with ha hl; subst ha; subst hl; exact h1
      | cons b l1 => simp only [List.cons_append] at heq; injection heq with ha hl; exact h2 l1 e l2 hl
    · intro h
      exact ⟨h [] a l rfl, fun l1 e l2 heq => h (a :: l1) e l2 (by rw [heq]; rfl)⟩

theorem allSuff_mono {P Q : Event → List Event → Prop} (h : ∀ e l, P e l → Q e l) :
    ∀ l, AllSuff P l → AllSuff Q l
  | [], _ => trivial
  | _ :: l, ⟨h1, h2⟩ => ⟨h _ _ h1, allSuff_mono h l h2⟩

theorem allSuff_append {P : Event → List Event → Prop} (new old : List Event) (hn : ∀ e ∈ new, ∀ l, P e l)
    (ho : AllSuff P old) : AllSuff P (new ++ old) := by
  induction new with
  | nil => exact ho
  | cons a new ih =>
    exact ⟨hn a (by simp) _, ih (fun e he => hn e (by simp [he]))⟩

theorem runIdxOf_quiet {t : Nat} {e : Event} (h : isRunYield e = false) : runIdxOf t e = none := by
  cases e <;> simp_all [isRunYield, runIdxOf]

theorem isRY_quiet {t : Nat} {e : Event} (h : isRunYield e = false) : isRY t e = false := by
  cases e <;> simp_all [isRunYield, isRY]

theorem runIdx_append_quiet (t : Nat) (new l : List Event) (h : ∀ e ∈ new, isRunYield e = false) :
    runIdx t (new ++ l) = runIdx t l := by
  unfold runIdx
  rw [List.filterMap_append]
  have : new.filterMap (runIdxOf t) = [] := by
    rw [List.filterMap_eq_nil_iff]; intro e he; exact runIdxOf_quiet (h e he)
  rw [this]; rfl

theorem find_append_quiet (t : Nat) (new l : List Event) (h : ∀ e ∈ new, isRunYield e = false) :
    (new ++ l).find? (isRY t) = l.find? (isRY t) := by
  rw [List.find?_append]
  have : new.find? (isRY t) = none := by
    rw [List.find?_eq_none]; intro e he; simp [isRY_quiet (h e he)]
  rw [this]; rfl

theorem range_succ_reverse (n : Nat) : (List.range (n + 1)).reverse = n :: (List.range n).reverse := by
  rw [List.range_succ, List.reverse_append]; rfl

/-- every resume `run t (i+1)` is preceded by `yield t i y` with no other run/yield of `t` in between; everything
    yielded is computed and what is received is the `unwrap` of what was yielded (w.r.t. the outcomes of state `s`) -/
def YBR (s : State) (e : Event) (l : List Event) : Prop :=
  ∀ t i dc r, e = .run t (i + 1) dc r →
    ∃ y, l.find? (isRY t) = some (.yield t i y) ∧ (∀ f ∈ y.leaves, s.computed f = true) ∧
      r = .out (outcomeOf (unwrap s.out y))

/-- a task that has completed is not resumed again -/
def NRAD (e : Event) (l : List Event) : Prop :=
  ∀ t i dc r, e = .run t i dc r → ∀ o, Event.done t o ∉ l

/-! ### the invariant -/

/-- the part that does not mention the control stack -/
structure FInv (s : State) : Prop where
  res0 : ∀ t, (s.task t).started = false → (s.task t).resumes = 0
  leaves : ∀ t, (s.task t).pending = true → (s.task t).started = true →
    ∀ f ∈ (s.task t).lastY.leaves, f ∈ (s.task t).deps
  startedTask : ∀ t, (s.task t).started = true → (s.fut t).kind = .task
  items : ItemsOk s
  dc : ∀ t i dc r, Event.run t i dc r ∈ s.trace → dc = true
  idx : ∀ t, runIdx t s.trace =
    (List.range (if (s.task t).started = true then (s.task t).resumes + 1 else 0)).reverse
  recv : ∀ t i dc r, Event.run t i dc r ∈ s.trace → (r = .start ↔ i = 0)
  doneC : ∀ t o, Event.done t o ∈ s.trace → s.out t = some o
  lastYield : ∀ t, (s.task t).pending = true → (s.task t).started = true →
    s.trace.find? (isRY t) = some (.yield t (s.task t).resumes (s.task t).lastY)
  ybr : AllSuff (YBR s) s.trace
  nrad : AllSuff NRAD s.trace

/-- the saved active task of every generator frame is one of the generators further out -/
def OldsOk : List Ctl → Prop
  | [] => True
  | .gen _ old :: rest => (∀ a, old = some a → a ∈ gens rest) ∧ OldsOk rest
  | _ :: rest => OldsOk rest

/-- the part about the running generators and the contexts -/
structure CInv (s : State) : Prop where
  genKind : ∀ t ∈ gens s.ctl, (s.fut t).kind = .task
  /-- a running generator belongs to an uncomputed task -/
  live : ∀ t ∈ gens s.ctl, s.out t = none
  distinct : (gens s.ctl).Nodup
  buried : ∀ t ∈ gens s.ctl.tail, (s.task t).pending = false
  gnb : ∀ t ∈ gens s.ctl, ∀ d ∈ (s.task t).deps, s.computed d = true
  /-- the active task is a running generator (or none) -/
  actIn : ∀ a, s.active = some a → a ∈ gens s.ctl
  olds : OldsOk s.ctl
  /-- the contexts of a running generator are active -/
  rca : ∀ t ∈ gens s.ctl, (s.task t).ctxActive = true
  /-- an uncomputed task whose contexts are paused has no NonAsyncContext -/
  z : ∀ t, s.out t = none → (s.task t).ctxActive = false → NAfree s t
  hrange : ∀ t, ∀ c ∈ (s.task t).ctxs, c < s.ctxs.length

structure PInv (s : State) : Prop extends FInv s, CInv s

/-! ### initial state -/

theorem fut_init (cfg : Cfg) (tops : List (Conv × Body)) (choices : List (Nat × Nat)) (f : Nat) :
    (initState cfg tops choices).fut f = {} := by
  simp [initState, State.fut]

theorem pinv_init (cfg : Cfg) (tops : List (Conv × Body)) (choices : List (Nat × Nat)) :
    PInv (initState cfg tops choices) := by
  have hf := fut_init cfg tops choices
  have ht : (initState cfg tops choices).trace = [] := rfl
  have hc : (initState cfg tops choices).ctl = [] := rfl
  refine ⟨⟨?_, ?_, ?_, ?_, ?_, ?_, ?_, ?_, ?_, ?_, ?_⟩, ⟨?_, ?_, ?_, ?_, ?_, ?_, ?_, ?_, ?_, ?_⟩⟩
  · intro t _; simp [State.task, hf]
  · intro t _ h; simp [State.task, hf] at h
  · intro t h; simp [State.task, hf] at h
  · intro b hb; simp [initState] at hb
  · intro t i dc r h; rw [ht] at h; cases h
  · intro t; simp [ht, runIdx, State.task, hf]
  · intro t i dc r h; rw [ht] at h; cases h
  · intro t o h; rw [ht] at h; cases h
  · intro t _ h; simp [State.task, hf] at h
  · rw [ht]; trivial
  · rw [ht]; trivial
  · intro t h; rw [hc] at h; simp [gens] at h
  · intro t h; rw [hc] at h; simp [gens] at h
  · rw [hc]; simp [gens]
  · intro t h; rw [hc] at h; simp [gens] at h
  · intro t h; rw [hc] at h; simp [gens] at h
  · intro a h; simp [initState] at h
  · rw [hc]; trivial
  · intro t h; rw [hc] at h; simp [gens] at h
  · intro t _ _ c h; simp [State.task, hf] at h
  · intro t c h; simp [State.task, hf] at h

/-! ### quiet steps -/

section quiet
variable {s s' : State}

theorem QuietF.started (q : QuietF s s') (t : Nat) : (s'.task t).started = (s.task t).started := (q.fut t).started
theorem QuietF.resumes (q : QuietF s s') (t : Nat) : (s'.task t).resumes = (s.task t).resumes := (q.fut t).resumes
theorem QuietF.pending (q : QuietF s s') (t : Nat) (h : (s'.task t).pending = true) : (s.task t).pending = true :=
  (q.fut t).pending h
theorem QuietF.pending_false (q : QuietF s s') (t : Nat) (h : (s.task t).pending = false) :
    (s'.task t).pending = false := (q.fut t).pending_false h
theorem QuietF.ly (q : QuietF s s') (t : Nat) :
    ((s'.task t).lastY = (s.task t).lastY ∧ (s'.task t).deps = (s.task t).deps) ∨
    ((s'.task t).lastY = .none ∧ (s'.task t).deps = [] ∧ ((s'.task t).pending = false ∨ (s.fut t).kind ≠ .task)) :=
  (q.fut t).ly

/-- outcomes are written once -/
def OutMono (s s' : State) : Prop := ∀ f o, s.out f = some o → s'.out f = some o

theorem QuietF.outMono (q : QuietF s s') : OutMono s s' := fun _ _ h => q.out h

theorem OutMono.computed (h : OutMono s s') {f : Nat} (hc : s.computed f = true) : s'.computed f = true := by
  unfold State.computed at *
  cases ho : s.out f with
  | none => simp [ho] at hc
  | some o => simp [h f o ho]

theorem ybr_mono (h : OutMono s s') (e : Event) (l : List Event) (hy : YBR s e l) : YBR s' e l := by
  intro t i dc r he
  obtain ⟨y, h1, h2, h3⟩ := hy t i dc r he
  refine ⟨y, h1, fun f hf => h.computed (h2 f hf), ?_⟩
  rw [h3]
  congr 2
  apply unwrap_congr
  intro f hf
  have := h2 f hf
  unfold State.computed at this
  cases ho : s.out f with
  | none => simp [ho] at this
  | some o => rw [h f o ho]

theorem finv_quiet (h : FInv s) (q : QuietF s s') : FInv s' := by
  obtain ⟨new, htr, hnew⟩ := q.trace
  have hq : ∀ e ∈ new, isRunYield e = false := fun e he => (hnew e he).1
  have hrun : ∀ t i dc r, Event.run t i dc r ∈ s'.trace → Event.run t i dc r ∈ s.trace := by
    intro t i dc r hm
    rw [htr] at hm
    rcases List.mem_append.1 hm with hm | hm
    · have := hq _ hm; simp [isRunYield] at this
    · exact hm
  refine ⟨?_, ?_, ?_, q.itemsOk h.items, ?_, ?_, ?_, ?_, ?_, ?_, ?_⟩
  · intro t hs
    rw [q.resumes]; exact h.res0 t (by rw [← q.started]; exact hs)
  · intro t hp hs f hf
    have hp0 := q.pending t hp
    have hs0 : (s.task t).started = true := by rw [← q.started]; exact hs
    rcases q.ly t with ⟨e1, e2⟩ | ⟨e1, _, _⟩
    · rw [e2]; rw [e1] at hf; exact h.leaves t hp0 hs0 f hf
    · rw [e1] at hf; simp [YS.leaves] at hf
  · intro t hs
    exact q.kind_task (h.startedTask t (by rw [← q.started]; exact hs))
  · intro t i dc r hm; exact h.dc t i dc r (hrun t i dc r hm)
  · intro t
    rw [htr, runIdx_append_quiet t new _ hq, h.idx t, q.started, q.resumes]
  · intro t i dc r hm; exact h.recv t i dc r (hrun t i dc r hm)
  · intro t o hm
    rw [htr] at hm
    rcases List.mem_append.1 hm with hm | hm
    · exact (hnew _ hm).2 t o rfl
    · exact q.out (h.doneC t o hm)
  · intro t hp hs
    have hp0 := q.pending t hp
    have hs0 : (s.task t).started = true := by rw [← q.started]; exact hs
    rw [htr, find_append_quiet t new _ hq, h.lastYield t hp0 hs0, q.resumes]
    rcases q.ly t with ⟨e1, _⟩ | ⟨_, _, e3⟩
    · rw [e1]
    · rcases e3 with e3 | e3
      · rw [hp] at e3; cases e3
      · exact absurd (h.startedTask t hs0) e3
  · rw [htr]
    refine allSuff_append new _ ?_ (allSuff_mono (ybr_mono q.outMono) _ h.ybr)
    intro e he l t i dc r heq
    have := hq e he; rw [heq] at this; simp [isRunYield] at this
  · rw [htr]
    refine allSuff_append new _ ?_ h.nrad
    intro e he l t i dc r heq
    have := hq e he; rw [heq] at this; simp [isRunYield] at this

theorem gens_cons_notGen {c : Ctl} {rest : List Ctl} (h : notGen c = true) : gens (c :: rest) = gens rest := by
  cases c <;> simp_all [notGen, gens]

theorem oldsOk_cons_notGen {c : Ctl} {rest : List Ctl} (h : notGen c = true) : OldsOk (c :: rest) ↔ OldsOk rest := by
  cases c <;> simp_all [notGen, OldsOk]

theorem gens_tail_subset (ctl : List Ctl) : ∀ t ∈ gens ctl.tail, t ∈ gens ctl := by
  intro t ht
  cases ctl with
  | nil => exact ht
  | cons c rest =>
    cases c <;> simp_all [gens]

/-- what a harmless change of the control stack does to the running generators -/
theorem ctlAct_gens (c : CtlAct s s') :
    (gens s'.ctl = gens s.ctl ∧ (OldsOk s.ctl → OldsOk s'.ctl) ∧ (s'.active = s.active ∨ s'.active = none)) ∨
    (∃ t old rest, s.ctl = .gen t old :: rest ∧ s'.ctl = rest ∧ s'.active = old) := by
  rcases c with ⟨h1, h2⟩ | ⟨c, rest, h1, h2, h3, h4⟩ | h | ⟨c, c', rest, h1, h2, h3, h4, h5⟩ | ⟨f, h1, h2, _⟩
  · left; rw [h1]; exact ⟨rfl, fun h => h, Or.inl h2⟩
  · left; rw [h3, h1, gens_cons_notGen h2, oldsOk_cons_notGen h2]; exact ⟨rfl, fun h => h, h4⟩
  · exact Or.inr h
  · left
    rw [h2, h1, gens_cons_notGen h3, gens_cons_notGen h4, oldsOk_cons_notGen h3, oldsOk_cons_notGen h4]
    exact ⟨rfl, fun h => h, Or.inl h5⟩
  · left; rw [h1]; exact ⟨rfl, fun h => h, Or.inl h2⟩

theorem not_blocked_of_gnb (h : CInv s) {t : Nat} (ht : t ∈ gens s.ctl) : ¬ Blocked s t := by
  rintro ⟨d, hd, hc⟩
  rw [h.gnb t ht d hd] at hc; cases hc

/-- the invariants about contexts, for any transition that is quiet at top level -/
theorem ctx_quiet (h : CInv s) (q : QuietT s s') :
    (∀ t, s'.out t = none → (s'.task t).ctxActive = false → NAfree s' t) ∧
    (∀ t, ∀ c ∈ (s'.task t).ctxs, c < s'.ctxs.length) := by
  constructor
  · intro t hout hca c hc
    have hout0 : s.out t = none := by
      cases h0 : s.out t with
      | none => rfl
      | some o => rw [q.out h0] at hout; cases hout
    cases hca0 : (s.task t).ctxActive with
    | true =>
      rcases (q.caz t hca0 hca).2 with h1 | h1
      · exact absurd hout h1
      · exact h1 c hc
    | false =>
      rcases q.cxs t c hc with h1 | ⟨h1, _, _⟩
      · rw [q.na c (h.hrange t c h1)]; exact h.z t hout0 hca0 c h1
      · have := h.rca t (h.actIn t h1)
        rw [hca0] at this; cases this
  · intro t c hc
    rcases q.cxs t c hc with h1 | ⟨_, h2, h3⟩
    · exact Nat.lt_of_lt_of_le (h.hrange t c h1) q.clen
    · rw [h2]; exact h3

theorem cinv_quiet (h : CInv s) (q : QuietT s s') (c : CtlAct s s') : CInv s' := by
  have hctx := ctx_quiet h q
  have hsubset : ∀ t ∈ gens s'.ctl, t ∈ gens s.ctl := by
    intro t ht
    rcases ctlAct_gens c with ⟨h1, _, _⟩ | ⟨u, old, rest, h1, h2, _⟩
    · rw [← h1]; exact ht
    · rw [h1]; rw [h2] at ht; simp [gens, ht]
  have hlive : ∀ t ∈ gens s'.ctl, s'.out t = none := by
    intro t ht
    have ht0 := hsubset t ht
    cases ho : s'.out t with
    | none => rfl
    | some o =>
      exfalso
      rcases q.tf t o (h.genKind t ht0) (h.live t ht0) ho with h1 | ⟨old, rest, h1, h2⟩
      · exact not_blocked_of_gnb h ht0 h1
      · have hd := h.distinct
        rw [h1] at hd; simp only [gens, List.nodup_cons] at hd
        rw [h2] at ht; exact hd.1 ht
  refine ⟨?_, hlive, ?_, ?_, ?_, ?_, ?_, ?_, hctx.1, hctx.2⟩
  · intro t ht; exact q.kind_task (h.genKind t (hsubset t ht))
  · rcases ctlAct_gens c with ⟨h1, _, _⟩ | ⟨u, old, rest, h1, h2, _⟩
    · rw [h1]; exact h.distinct
    · have hd := h.distinct
      rw [h1] at hd; simp only [gens, List.nodup_cons] at hd
      rw [h2]; exact hd.2
  · intro t ht
    have hpf : ∀ u, (s.task u).pending = false → (s'.task u).pending = false := fun u hu =>
      (q.fut u).pending_false hu
    rcases c with ⟨h1, _⟩ | ⟨c0, rest, h1, _, h3, _⟩ | ⟨u, old, rest, h1, h2, _⟩ |
      ⟨c0, c', rest, h1, h2, _, _, _⟩ | ⟨f, h1, _, h2⟩
    · rw [h1] at ht; exact hpf t (h.buried t ht)
    · rw [h3] at ht; exact hpf t (h.buried t (by rw [h1]; exact gens_tail_subset _ t ht))
    · rw [h2] at ht; exact hpf t (h.buried t (by rw [h1]; exact gens_tail_subset _ t ht))
    · rw [h2] at ht; simp only [List.tail_cons] at ht
      exact hpf t (h.buried t (by rw [h1]; exact ht))
    · rw [h1] at ht; simp only [List.tail_cons] at ht
      cases hctl : s.ctl with
      | nil => rw [hctl] at ht; simp [gens] at ht
      | cons c0 rest =>
        rw [hctl] at ht
        cases c0 with
        | gen u old =>
          simp only [gens, List.mem_cons] at ht
          rcases ht with ht | ht
          · subst ht; exact h2 t old rest hctl
          · exact hpf t (h.buried t (by rw [hctl]; exact ht))
        | waitEnter r => simp only [gens] at ht; exact hpf t (h.buried t (by rw [hctl]; exact ht))
        | waitLoop r b => simp only [gens] at ht; exact hpf t (h.buried t (by rw [hctl]; exact ht))
  · intro t ht d hd
    have ht0 := hsubset t ht
    rcases (q.fut t).ly with ⟨_, e2⟩ | ⟨_, e2, _⟩
    · have e2' : (s'.task t).deps = (s.task t).deps := e2
      rw [e2'] at hd; exact q.computed (h.gnb t ht0 d hd)
    · have e2' : (s'.task t).deps = [] := e2
      rw [e2'] at hd; cases hd
  · intro a ha
    rcases ctlAct_gens c with ⟨h1, _, h3⟩ | ⟨u, old, rest, h1, h2, h3⟩
    · rcases h3 with h3 | h3
      · rw [h1]; exact h.actIn a (by rw [← h3]; exact ha)
      · rw [h3] at ha; cases ha
    · have ho := h.olds
      rw [h1] at ho
      rw [h2]; exact ho.1 a (by rw [← h3]; exact ha)
  · rcases ctlAct_gens c with ⟨_, h2, _⟩ | ⟨u, old, rest, h1, h2, _⟩
    · exact h2 h.olds
    · have ho := h.olds
      rw [h1] at ho
      rw [h2]; exact ho.2
  · intro t ht
    have ht0 := hsubset t ht
    cases hca : (s'.task t).ctxActive with
    | true => rfl
    | false => exact absurd (q.caz t (h.rca t ht0) hca).1 (not_blocked_of_gnb h ht0)

theorem pinv_quiet (h : PInv s) (q : QuietT s s') (c : CtlAct s s') : PInv s' :=
  ⟨finv_quiet h.toFInv q.toQuietF, cinv_quiet h.toCInv q c⟩

/-! ### `_continue_with_task` starts -/

theorem pinv_push (h : PInv s) (q : QuietT s s') (t : Nat) (r b : Nat)
    (rest : List Ctl) (h1 : s.ctl = .waitLoop r b :: rest) (h2 : s'.ctl = .gen t s.active :: s.ctl)
    (ha : s'.active = some t) (hca : (s'.task t).ctxActive = true)
    (hk : (s.fut t).kind = .task) (hn : t ∉ gens s.ctl) (ho : s.out t = none)
    (hd : ∀ d ∈ (s.task t).deps, s.computed d = true) : PInv s' := by
  have hctx := ctx_quiet h.toCInv q
  have hnb : ∀ u ∈ gens s'.ctl, ¬ Blocked s u := by
    intro u hu
    rw [h2] at hu; simp only [gens, List.mem_cons] at hu
    rcases hu with hu | hu
    · subst hu; rintro ⟨d, hd1, hd2⟩; rw [hd d hd1] at hd2; cases hd2
    · exact not_blocked_of_gnb h.toCInv hu
  have hku : ∀ u ∈ gens s'.ctl, (s.fut u).kind = .task ∧ s.out u = none := by
    intro u hu
    rw [h2] at hu; simp only [gens, List.mem_cons] at hu
    rcases hu with hu | hu
    · subst hu; exact ⟨hk, ho⟩
    · exact ⟨h.genKind u hu, h.live u hu⟩
  refine ⟨finv_quiet h.toFInv q.toQuietF, ?_, ?_, ?_, ?_, ?_, ?_, ?_, ?_, hctx.1, hctx.2⟩
  · intro u hu; exact q.kind_task (hku u hu).1
  · intro u hu
    cases hou : s'.out u with
    | none => rfl
    | some o =>
      exfalso
      rcases q.tf u o (hku u hu).1 (hku u hu).2 hou with h3 | ⟨old, rest', h3, _⟩
      · exact hnb u hu h3
      · rw [h1] at h3; cases h3
  · rw [h2]; simp only [gens, List.nodup_cons]; exact ⟨hn, h.distinct⟩
  · intro u hu
    rw [h2] at hu; simp only [List.tail_cons] at hu
    rw [h1] at hu; simp only [gens] at hu
    exact (q.fut u).pending_false (h.buried u (by rw [h1]; exact hu))
  · intro u hu d hdu
    have hu' := hu
    rw [h2] at hu; simp only [gens, List.mem_cons] at hu
    have hdeps : ∀ d ∈ (s.task u).deps, s.computed d = true := by
      rcases hu with hu | hu
      · subst hu; exact hd
      · exact h.gnb u hu
    rcases (q.fut u).ly with ⟨_, e2⟩ | ⟨_, e2, _⟩
    · have e2' : (s'.task u).deps = (s.task u).deps := e2
      rw [e2'] at hdu; exact q.computed (hdeps d hdu)
    · have e2' : (s'.task u).deps = [] := e2
      rw [e2'] at hdu; cases hdu
  · intro a haa
    rw [ha] at haa; injection haa with haa; subst haa
    rw [h2]; simp [gens]
  · rw [h2]; exact ⟨fun a haa => h.actIn a haa, h.olds⟩
  · intro u hu
    have hu' := hu
    rw [h2] at hu; simp only [gens, List.mem_cons] at hu
    rcases hu with hu | hu
    · subst hu; exact hca
    · cases hcu : (s'.task u).ctxActive with
      | true => rfl
      | false => exact absurd (q.caz u (h.rca u hu) hcu).1 (hnb u hu')

end quiet

/-! ### resume and yield of the running task -/

section core
variable {s s' : State} {t : Nat} {g : TaskSt → TaskSt} {e : Event}

theorem CoreStep.fut_self (c : CoreStep s s' t g e) (hl : t < s.futs.length) :
    s'.fut t = { s.fut t with ts := g (s.fut t).ts } := by
  unfold State.fut; rw [c.futs]; exact fut_updTask_self s t g hl

theorem CoreStep.fut_ne (c : CoreStep s s' t g e) {f : Nat} (hf : f ≠ t) : s'.fut f = s.fut f := by
  unfold State.fut; rw [c.futs]; exact fut_updTask_ne s t f g hf

theorem CoreStep.task_self (c : CoreStep s s' t g e) (hl : t < s.futs.length) : s'.task t = g (s.task t) := by
  unfold State.task; rw [c.fut_self hl]

theorem CoreStep.task_ne (c : CoreStep s s' t g e) {f : Nat} (hf : f ≠ t) : s'.task f = s.task f := by
  unfold State.task; rw [c.fut_ne hf]

theorem CoreStep.out_eq (c : CoreStep s s' t g e) (f : Nat) : s'.out f = s.out f := by
  have : s'.out f = (s.updTask t g).out f := by unfold State.out State.fut; rw [c.futs]
  rw [this, out_updTask]

theorem CoreStep.computed_eq (c : CoreStep s s' t g e) (f : Nat) : s'.computed f = s.computed f := by
  unfold State.computed; rw [c.out_eq]

theorem CoreStep.kind_eq (c : CoreStep s s' t g e) (f : Nat) : (s'.fut f).kind = (s.fut f).kind := by
  have : (s'.fut f).kind = ((s.updTask t g).fut f).kind := by unfold State.fut; rw [c.futs]
  rw [this, kind_updTask]

theorem CoreStep.outMono (c : CoreStep s s' t g e) : OutMono s s' := fun f o h => by rw [c.out_eq]; exact h

theorem CoreStep.itemsOk (c : CoreStep s s' t g e) (h : ItemsOk s) : ItemsOk s' := by
  intro b hb i hi
  rw [c.batches] at hb
  rw [c.kind_eq]; exact h b hb i hi

theorem lt_of_task {s : State} {t : Nat} (hk : (s.fut t).kind = .task) : t < s.futs.length :=
  lt_of_kind s t (by rw [hk]; intro h; cases h)

theorem runIdx_cons_run (u t i : Nat) (dc : Bool) (r : Recv) (l : List Event) :
    runIdx u (.run t i dc r :: l) = if t = u then i :: runIdx u l else runIdx u l := by
  unfold runIdx
  simp only [List.filterMap_cons, runIdxOf]
  split <;> simp_all

theorem runIdx_cons_other (u : Nat) (e : Event) (l : List Event) (h : runIdxOf u e = none) :
    runIdx u (e :: l) = runIdx u l := by
  unfold runIdx
  simp only [List.filterMap_cons, h]

/-- the event of a core step belongs to task `t`: the run/yield history of every other task is unchanged -/
theorem find_cons_ne {u : Nat} {e : Event} (l : List Event) (h : isRY u e = false) :
    (e :: l).find? (isRY u) = l.find? (isRY u) := by
  simp [h]

/-- what the first part of the invariant needs from a core step, for the tasks other than `t` -/
theorem finv_core_others (h : FInv s) (c : CoreStep s s' t g e) (hrun : ∀ u, u ≠ t → runIdxOf u e = none)
    (hry : ∀ u, u ≠ t → isRY u e = false) (u : Nat) (hu : u ≠ t) :
    ((s'.task u).started = false → (s'.task u).resumes = 0) ∧
    ((s'.task u).pending = true → (s'.task u).started = true →
      ∀ f ∈ (s'.task u).lastY.leaves, f ∈ (s'.task u).deps) ∧
    ((s'.task u).started = true → (s'.fut u).kind = .task) ∧
    (runIdx u s'.trace = (List.range (if (s'.task u).started = true then (s'.task u).resumes + 1 else 0)).reverse) ∧
    ((s'.task u).pending = true → (s'.task u).started = true →
      s'.trace.find? (isRY u) = some (.yield u (s'.task u).resumes (s'.task u).lastY)) := by
  rw [c.task_ne hu, c.kind_eq u, c.trace, runIdx_cons_other u e _ (hrun u hu), find_cons_ne _ (hry u hu)]
  exact ⟨h.res0 u, h.leaves u, h.startedTask u, h.idx u, h.lastYield u⟩

theorem CoreStep.ctx_self (c : CoreStep s s' t g e) (f : Nat) :
    (s'.task f).ctxActive = (s.task f).ctxActive ∧ (s'.task f).ctxs = (s.task f).ctxs := by
  have : s'.task f = (s.updTask t g).task f := by unfold State.task State.fut; rw [c.futs]
  rw [this]; unfold State.task; rw [fut_updTask]; split
  · rename_i h; rw [h.1]; exact c.ctxg _
  · exact ⟨rfl, rfl⟩

/-- the context invariants are untouched by a resume or a yield -/
theorem ctx_core (h : CInv s) (c : CoreStep s s' t g e) :
    (∀ u, s'.out u = none → (s'.task u).ctxActive = false → NAfree s' u) ∧
    (∀ u, ∀ x ∈ (s'.task u).ctxs, x < s'.ctxs.length) := by
  constructor
  · intro u ho hca x hx
    rw [c.out_eq] at ho; rw [(c.ctx_self u).1] at hca; rw [(c.ctx_self u).2] at hx
    rw [nonasync_congr c.ctxs]; exact h.z u ho hca x hx
  · intro u x hx
    rw [(c.ctx_self u).2] at hx; rw [c.ctxs]; exact h.hrange u x hx

theorem cinv_core_same (h : CInv s) (c : CoreStep s s' t g e) (hc : s'.ctl = s.ctl) (ha : s'.active = s.active)
    (hl : t < s.futs.length)
    (hp : (g (s.task t)).pending = false ∨ (s.task t).pending = false ∧ t ∉ gens s.ctl.tail)
    (hd : ∀ d ∈ (g (s.task t)).deps, s.computed d = true) : CInv s' := by
  have hctx := ctx_core h c
  refine ⟨?_, ?_, by rw [hc]; exact h.distinct, ?_, ?_, ?_, by rw [hc]; exact h.olds, ?_, hctx.1, hctx.2⟩
  · intro u hu; rw [hc] at hu; rw [c.kind_eq]; exact h.genKind u hu
  · intro u hu; rw [hc] at hu; rw [c.out_eq]; exact h.live u hu
  · intro u hu; rw [hc] at hu
    by_cases hut : u = t
    · subst hut
      rcases hp with hp | ⟨_, hp⟩
      · rw [c.task_self hl]; exact hp
      · exact absurd hu hp
    · rw [c.task_ne hut]; exact h.buried u hu
  · intro u hu d hdu; rw [hc] at hu; rw [c.computed_eq]
    by_cases hut : u = t
    · subst hut; rw [c.task_self hl] at hdu; exact hd d hdu
    · rw [c.task_ne hut] at hdu; exact h.gnb u hu d hdu
  · intro a haa; rw [ha] at haa; rw [hc]; exact h.actIn a haa
  · intro u hu; rw [hc] at hu; rw [(c.ctx_self u).1]; exact h.rca u hu

theorem mem_done_cons_run {t u i : Nat} {dc : Bool} {r : Recv} {o : Outcome} {l : List Event}
    (h : Event.done u o ∈ Event.run t i dc r :: l) : Event.done u o ∈ l := by
  simp only [List.mem_cons] at h
  rcases h with h | h
  · cases h
  · exact h

theorem mem_run_cons {t u i j : Nat} {dc dc' : Bool} {r r' : Recv} {l : List Event}
    (h : Event.run u j dc' r' ∈ Event.run t i dc r :: l) :
    (u = t ∧ j = i ∧ dc' = dc ∧ r' = r) ∨ Event.run u j dc' r' ∈ l := by
  simp only [List.mem_cons] at h
  rcases h with h | h
  · injection h with h1 h2 h3 h4; exact Or.inl ⟨h1, h2, h3, h4⟩
  · exact Or.inr h

/-- the first resume: `run t 0 true start` -/
theorem pinv_run0 (h : PInv s) (old : Option Nat) (rest : List Ctl)
    (h1 : s.ctl = .gen t old :: rest) (hp : (s.task t).pending = true) (hs : (s.task t).started = false)
    (hg : ∀ ts, (g ts).pending = false ∧ (g ts).started = true ∧ (g ts).resumes = ts.resumes ∧ (g ts).lastY = .none ∧
        ∀ d ∈ (g ts).deps, d ∈ ts.deps)
    (c : CoreStep s s' t g (.run t 0 true .start)) (hc : s'.ctl = s.ctl) (ha : s'.active = s.active) :
    PInv s' := by
  have htg : t ∈ gens s.ctl := by rw [h1]; simp [gens]
  have hk := h.genKind t htg
  have hl := lt_of_task hk
  have hts := c.task_self hl
  obtain ⟨g1, g2, g3, g4, g5⟩ := hg (s.task t)
  have hoth := finv_core_others h.toFInv c
    (fun u hu => by simp only [runIdxOf]; rw [if_neg (fun h => hu h.symm)])
    (fun u hu => by simp only [isRY]; simpa using fun h => hu h.symm)
  have hnd : ∀ o, Event.done t o ∉ s.trace := fun o hm => by
    have := h.doneC t o hm
    rw [h.live t htg] at this; cases this
  refine ⟨⟨?_, ?_, ?_, c.itemsOk h.items, ?_, ?_, ?_, ?_, ?_, ?_, ?_⟩, ?_⟩
  · intro u; by_cases hu : u = t
    · subst hu; intro hst; rw [hts, g2] at hst; cases hst
    · exact (hoth u hu).1
  · intro u; by_cases hu : u = t
    · subst hu; intro hpe; rw [hts, g1] at hpe; cases hpe
    · exact (hoth u hu).2.1
  · intro u; by_cases hu : u = t
    · subst hu; intro _; rw [c.kind_eq]; exact hk
    · exact (hoth u hu).2.2.1
  · intro u i dc r hm; rw [c.trace] at hm
    rcases mem_run_cons hm with ⟨_, _, h3, _⟩ | hm
    · exact h3
    · exact h.dc u i dc r hm
  · intro u; by_cases hu : u = t
    · subst hu
      rw [c.trace, runIdx_cons_run, if_pos rfl, h.idx u, hs, hts, g2, g3, h.res0 u hs]
      rfl
    · exact (hoth u hu).2.2.2.1
  · intro u i dc r hm; rw [c.trace] at hm
    rcases mem_run_cons hm with ⟨_, h2, _, h4⟩ | hm
    · rw [h2, h4]; simp
    · exact h.recv u i dc r hm
  · intro u o hm; rw [c.trace] at hm; rw [c.out_eq]; exact h.doneC u o (mem_done_cons_run hm)
  · intro u; by_cases hu : u = t
    · subst hu; intro hpe; rw [hts, g1] at hpe; cases hpe
    · exact (hoth u hu).2.2.2.2
  · rw [c.trace]
    refine ⟨?_, allSuff_mono (ybr_mono c.outMono) _ h.ybr⟩
    intro u i dc r heq; cases heq
  · rw [c.trace]
    refine ⟨?_, h.nrad⟩
    intro u i dc r heq o
    injection heq with e1; subst e1
    exact hnd o
  · refine cinv_core_same h.toCInv c hc ha hl (Or.inl g1) ?_
    intro d hd
    exact h.gnb t htg d (g5 d hd)

theorem all_of_forall {l : List Nat} {p : Nat → Bool} (h : ∀ x ∈ l, p x = true) : l.all p = true := by
  simpa [List.all_eq_true] using h

/-- a later resume: `run t (resumes+1) dc (out o)` -/
theorem pinv_run (h : PInv s) (old : Option Nat) (rest : List Ctl) (o : Outcome)
    (h1 : s.ctl = .gen t old :: rest) (hp : (s.task t).pending = true) (hs : (s.task t).started = true)
    (ho : o = outcomeOf (unwrap s.out (s.task t).lastY))
    (hg : ∀ ts, (g ts).pending = false ∧ (g ts).started = ts.started ∧ (g ts).resumes = (s.task t).resumes + 1 ∧
        (g ts).lastY = .none ∧ ∀ d ∈ (g ts).deps, d ∈ ts.deps)
    (c : CoreStep s s' t g (.run t ((s.task t).resumes + 1) ((s.task t).lastY.leaves.all s.computed) (.out o)))
    (hc : s'.ctl = s.ctl) (ha : s'.active = s.active) : PInv s' := by
  have htg : t ∈ gens s.ctl := by rw [h1]; simp [gens]
  have hk := h.genKind t htg
  have hl := lt_of_task hk
  have hts := c.task_self hl
  obtain ⟨g1, g2, g3, g4, g5⟩ := hg (s.task t)
  have hoth := finv_core_others h.toFInv c
    (fun u hu => by simp only [runIdxOf]; rw [if_neg (fun h => hu h.symm)])
    (fun u hu => by simp only [isRY]; simpa using fun h => hu h.symm)
  have hnd : ∀ o, Event.done t o ∉ s.trace := fun o hm => by
    have := h.doneC t o hm
    rw [h.live t htg] at this; cases this
  have hlv : ∀ f ∈ (s.task t).lastY.leaves, s.computed f = true := fun f hf =>
    h.gnb t htg f (h.leaves t hp hs f hf)
  refine ⟨⟨?_, ?_, ?_, c.itemsOk h.items, ?_, ?_, ?_, ?_, ?_, ?_, ?_⟩, ?_⟩
  · intro u; by_cases hu : u = t
    · subst hu; intro hst; rw [hts, g2, hs] at hst; cases hst
    · exact (hoth u hu).1
  · intro u; by_cases hu : u = t
    · subst hu; intro hpe; rw [hts, g1] at hpe; cases hpe
    · exact (hoth u hu).2.1
  · intro u; by_cases hu : u = t
    · subst hu; intro _; rw [c.kind_eq]; exact hk
    · exact (hoth u hu).2.2.1
  · intro u i dc r hm; rw [c.trace] at hm
    rcases mem_run_cons hm with ⟨_, _, h3, _⟩ | hm
    · rw [h3]; exact all_of_forall hlv
    · exact h.dc u i dc r hm
  · intro u; by_cases hu : u = t
    · subst hu
      rw [c.trace, runIdx_cons_run, if_pos rfl, h.idx u, hts, g2, g3, hs]
      simp only [if_true]
      rw [range_succ_reverse ((s.task u).resumes + 1)]
    · exact (hoth u hu).2.2.2.1
  · intro u i dc r hm; rw [c.trace] at hm
    rcases mem_run_cons hm with ⟨_, h2, _, h4⟩ | hm
    · rw [h2, h4]; simp
    · exact h.recv u i dc r hm
  · intro u o hm; rw [c.trace] at hm; rw [c.out_eq]; exact h.doneC u o (mem_done_cons_run hm)
  · intro u; by_cases hu : u = t
    · subst hu; intro hpe; rw [hts, g1] at hpe; cases hpe
    · exact (hoth u hu).2.2.2.2
  · rw [c.trace]
    refine ⟨?_, allSuff_mono (ybr_mono c.outMono) _ h.ybr⟩
    intro u i dc r heq
    injection heq with e1 e2 e3 e4
    subst e1
    have e2' : i = (s.task t).resumes := by omega
    subst e2'
    refine ⟨(s.task t).lastY, h.lastYield t hp hs, fun f hf => by rw [c.computed_eq]; exact hlv f hf, ?_⟩
    rw [← e4, ho]
    congr 2
    exact unwrap_congr _ _ _ (fun r _ => (c.out_eq r).symm)
  · rw [c.trace]
    refine ⟨?_, h.nrad⟩
    intro u i dc r heq o
    injection heq with e1; subst e1
    exact hnd o
  · refine cinv_core_same h.toCInv c hc ha hl (Or.inl g1) ?_
    intro d hd
    exact h.gnb t htg d (g5 d hd)

theorem mem_run_cons_yield {t u i j : Nat} {dc : Bool} {r : Recv} {y : RY} {l : List Event}
    (h : Event.run u j dc r ∈ Event.yield t i y :: l) : Event.run u j dc r ∈ l := by
  simp only [List.mem_cons] at h
  rcases h with h | h
  · cases h
  · exact h

theorem mem_done_cons_yield {t u i : Nat} {o : Outcome} {y : RY} {l : List Event}
    (h : Event.done u o ∈ Event.yield t i y :: l) : Event.done u o ∈ l := by
  simp only [List.mem_cons] at h
  rcases h with h | h
  · cases h
  · exact h

/-- a yield of the running task -/
theorem pinv_yield (h : PInv s) (old : Option Nat) (rest : List Ctl) (ry : RY) (deps : List Nat)
    (h1 : s.ctl = .gen t old :: rest) (hp : (s.task t).pending = false)
    (hg : ∀ ts, (g ts).pending = true ∧ (g ts).started = ts.started ∧ (g ts).resumes = ts.resumes ∧
        (g ts).lastY = ry ∧ (g ts).deps = deps)
    (hsub : ∀ f ∈ ry.leaves, f ∈ deps)
    (c : CoreStep s s' t g (.yield t (s.task t).resumes ry))
    (hc : (s'.ctl = s.ctl ∧ s'.active = s.active ∧ deps = []) ∨ (s'.ctl = rest ∧ s'.active = old)) : PInv s' := by
  have htg : t ∈ gens s.ctl := by rw [h1]; simp [gens]
  have hk := h.genKind t htg
  have hl := lt_of_task hk
  have hts := c.task_self hl
  obtain ⟨g1, g2, g3, g4, g5⟩ := hg (s.task t)
  have hoth := finv_core_others h.toFInv c
    (fun u _ => by simp only [runIdxOf])
    (fun u hu => by simp only [isRY]; simpa using fun h => hu h.symm)
  have hnotin : t ∉ gens rest := by
    have hd := h.distinct; rw [h1] at hd; simp only [gens, List.nodup_cons] at hd; exact hd.1
  refine ⟨⟨?_, ?_, ?_, c.itemsOk h.items, ?_, ?_, ?_, ?_, ?_, ?_, ?_⟩, ?_⟩
  · intro u; by_cases hu : u = t
    · subst hu; rw [hts, g2, g3]; exact h.res0 u
    · exact (hoth u hu).1
  · intro u; by_cases hu : u = t
    · subst hu; intro _ _ f hf; rw [hts, g4] at hf; rw [hts, g5]; exact hsub f hf
    · exact (hoth u hu).2.1
  · intro u; by_cases hu : u = t
    · subst hu; intro _; rw [c.kind_eq]; exact hk
    · exact (hoth u hu).2.2.1
  · intro u i dc r hm; rw [c.trace] at hm
    exact h.dc u i dc r (mem_run_cons_yield hm)
  · intro u; by_cases hu : u = t
    · subst hu
      rw [c.trace, runIdx_cons_other _ _ _ (by simp only [runIdxOf]), h.idx u, hts, g2, g3]
    · exact (hoth u hu).2.2.2.1
  · intro u i dc r hm; rw [c.trace] at hm
    exact h.recv u i dc r (mem_run_cons_yield hm)
  · intro u o hm; rw [c.trace] at hm; rw [c.out_eq]; exact h.doneC u o (mem_done_cons_yield hm)
  · intro u; by_cases hu : u = t
    · subst hu; intro _ _
      rw [c.trace, hts, g3, g4]
      simp [isRY]
    · exact (hoth u hu).2.2.2.2
  · rw [c.trace]
    refine ⟨?_, allSuff_mono (ybr_mono c.outMono) _ h.ybr⟩
    intro u i dc r heq; cases heq
  · rw [c.trace]
    refine ⟨?_, h.nrad⟩
    intro u i dc r heq; cases heq
  · rcases hc with ⟨hc, ha, hde⟩ | ⟨hc, ha⟩
    · refine cinv_core_same h.toCInv c hc ha hl (Or.inr ⟨hp, ?_⟩) ?_
      · rw [h1]; exact hnotin
      · intro d hd; rw [g5, hde] at hd; cases hd
    · have hsubl : ∀ u ∈ gens s'.ctl, u ∈ gens s.ctl ∧ u ≠ t := by
        intro u hu; rw [hc] at hu
        refine ⟨by rw [h1]; simp [gens, hu], fun e => hnotin (e ▸ hu)⟩
      have hctx := ctx_core h.toCInv c
      have holds := h.olds
      rw [h1] at holds
      refine ⟨?_, ?_, ?_, ?_, ?_, ?_, ?_, ?_, hctx.1, hctx.2⟩
      · intro u hu; rw [c.kind_eq]; exact h.genKind u (hsubl u hu).1
      · intro u hu; rw [c.out_eq]; exact h.live u (hsubl u hu).1
      · rw [hc]; have hd := h.distinct; rw [h1] at hd; simp only [gens, List.nodup_cons] at hd; exact hd.2
      · intro u hu
        have hu' : u ∈ gens rest := by rw [hc] at hu; exact gens_tail_subset _ u hu
        rw [c.task_ne (fun e => hnotin (e ▸ hu'))]
        exact h.buried u (by rw [h1]; exact hu')
      · intro u hu d hd
        rw [c.task_ne (hsubl u hu).2] at hd; rw [c.computed_eq]
        exact h.gnb u (hsubl u hu).1 d hd
      · intro a haa; rw [ha] at haa; rw [hc]; exact holds.1 a haa
      · rw [hc]; exact holds.2
      · intro u hu; rw [(c.ctx_self u).1]; exact h.rca u (hsubl u hu).1

end core

/-! ### the invariant holds in every reachable state -/

theorem pinv_step {s : State} (h : PInv s) : PInv (step s) := by
  have k := step_kind s h.items h.genKind h.z
  cases k with
  | quiet q c => exact pinv_quiet h q c
  | push q t r b rest h1 h2 ha hca hk hn ho hd => exact pinv_push h q t r b rest h1 h2 ha hca hk hn ho hd
  | run0 t old rest g h1 hp hs hg c hc ha => exact pinv_run0 h old rest h1 hp hs hg c hc ha
  | run t old rest g o h1 hp hs ho hg c hc ha => exact pinv_run h old rest o h1 hp hs ho hg c hc ha
  | yield t old rest g ry deps h1 hp hg hsub c hc => exact pinv_yield h old rest ry deps h1 hp hg hsub c hc

theorem pinv_reach {s : State} (h : Reach s) : PInv s := by
  induction h with
  | init cfg tops choices => exact pinv_init cfg tops choices
  | step _ ih => exact pinv_step ih

end AsynqModel.Core.P2
