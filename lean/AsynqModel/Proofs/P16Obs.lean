import AsynqModel.Proofs.P13Obs
/-!
  P16 (the executable observer `Spec.checkC06` accepts every trace of the machine), part 1: the observer side.

  * `chkA` / `chkB`: the clauses of `checkC06` about `.ctx` / `.ctxX` events, and all the others; `acc_split`.
  * how `watchEvent` changes the table of contexts `Watch.ctxs`, and association-list lemmas.
  Nothing here mentions the machine.
-/
namespace AsynqModel.Core.P16
open AsynqModel.Core AsynqModel.Core.Spec AsynqModel.Core.P13

/-- the clauses of `checkC06` for resume / pause / exit events -/
def chkA (c : Ctx) (w : Watch) : Event → Option String
  | .ctx r x => checkC06 c w (.ctx r x)
  | .ctxX x => checkC06 c w (.ctxX x)
  | _ => none

/-- all the other clauses of `checkC06` -/
def chkB (c : Ctx) (w : Watch) : Event → Option String
  | .ctx _ _ => none
  | .ctxX _ => none
  | e => checkC06 c w e

theorem checkC06_split (c : Ctx) (w : Watch) (e : Event) :
    checkC06 c w e = none ↔ chkA c w e = none ∧ chkB c w e = none := by
  cases e <;> simp [chkA, chkB]

theorem acc_split (c : Ctx) : ∀ tr : List Event, P13.Acc checkC06 c tr ↔ P13.Acc chkA c tr ∧ P13.Acc chkB c tr
  | [] => by simp [P13.Acc]
  | e :: tr => by
    simp only [P13.Acc, acc_split c tr, checkC06_split]
    constructor
    · rintro ⟨⟨h1, h2⟩, h3, h4⟩; exact ⟨⟨h1, h3⟩, h2, h4⟩
    · rintro ⟨⟨h1, h3⟩, h2, h4⟩; exact ⟨⟨h1, h2⟩, h3, h4⟩

/-- `Acc` over a block of events that the check never objects to -/
theorem acc_append {chk : Ctx → Watch → Event → Option String} {c : Ctx} (evs tr : List Event)
    (h : P13.Acc chk c tr) (hev : ∀ e ∈ evs, ∀ w, chk c w e = none) : P13.Acc chk c (evs ++ tr) := by
  induction evs with
  | nil => exact h
  | cons e evs ih =>
    exact ⟨ih fun e' he' => hev e' (List.mem_cons_of_mem _ he'), hev e List.mem_cons_self _⟩

/-- events that are not about a context object -/
def ctxInert : Event → Bool
  | .ctx _ _ => false
  | .ctxN _ _ _ => false
  | .ctxX _ => false
  | _ => true

theorem chkA_inert (c : Ctx) (w : Watch) (e : Event) (h : ctxInert e = true) : chkA c w e = none := by
  cases e <;> simp_all [ctxInert, chkA]

theorem chkA_ctxN (c : Ctx) (w : Watch) (x t : Nat) (k : CtxKind) : chkA c w (.ctxN x t k) = none := rfl

theorem ctxs_inert (w : Watch) (e : Event) (h : ctxInert e = true) : (watchEvent w e).ctxs = w.ctxs := by
  cases e with
  | new f k => cases k <;> simp [watchEvent] <;> split <;> rfl
  | ctx r c => simp [ctxInert] at h
  | ctxN c t k => simp [ctxInert] at h
  | ctxX c => simp [ctxInert] at h
  | _ => rfl

theorem obs_ctxs_inert (evs tr : List Event) (h : ∀ e ∈ evs, ctxInert e = true) :
    (obs (evs ++ tr)).ctxs = (obs tr).ctxs := by
  induction evs with
  | nil => rfl
  | cons e evs ih =>
    rw [List.cons_append, obs_cons, ctxs_inert _ _ (h e List.mem_cons_self)]
    exact ih fun e' he' => h e' (List.mem_cons_of_mem _ he')

/-! ### association lists keyed by context ids -/

/-- apply `f` to the entries with key `c` -/
def updKey {β : Type} (c : Nat) (f : β → β) (l : List (Nat × β)) : List (Nat × β) :=
  l.map fun p => if p.1 == c then (p.1, f p.2) else p

theorem updKey_keys {β : Type} (c : Nat) (f : β → β) (l : List (Nat × β)) :
    (updKey c f l).map (·.1) = l.map (·.1) := by
  induction l with
  | nil => rfl
  | cons p l ih =>
    simp only [updKey, List.map_cons, List.cons.injEq] at ih ⊢
    refine ⟨?_, ih⟩
    split <;> rfl

theorem lookup_updKey {β : Type} (c : Nat) (f : β → β) (l : List (Nat × β)) (c' : Nat) :
    (updKey c f l).lookup c' = if c' = c then (l.lookup c).map f else l.lookup c' := by
  induction l with
  | nil => simp [updKey]
  | cons p l ih =>
    obtain ⟨a, v⟩ := p
    simp only [updKey, List.map_cons] at ih ⊢
    by_cases ha : a = c
    · subst ha
      simp only [beq_self_eq_true, if_true, List.lookup_cons]
      by_cases hc : c' = a
      · subst hc; simp
      · have : (c' == a) = false := by simp [hc]
        simp only [this, hc, if_false]
        rw [ih]; simp [hc]
    · have hb : (a == c) = false := by simp [ha]
      simp only [hb, Bool.false_eq_true, if_false, List.lookup_cons]
      by_cases hc : c' = a
      · subst hc; simp [ha]
      · have : (c' == a) = false := by simp [hc]
        simp only [this]
        rw [ih]
        by_cases hcc : c' = c
        · subst hcc
          simp only [if_true]
          have : (c' == a) = false := by simp [hc]
          simp [this]
        · simp [hcc]

theorem lookup_of_mem_nodup {β : Type} : ∀ (l : List (Nat × β)) (c : Nat) (x : β), (l.map (·.1)).Nodup → (c, x) ∈ l →
    l.lookup c = some x
  | [], _, _, _, h => by cases h
  | (a, v) :: l, c, x, hn, h => by
    simp only [List.map_cons, List.nodup_cons] at hn
    rcases List.mem_cons.1 h with h1 | h1
    · cases h1; simp
    · have hne : c ≠ a := by
        intro e; subst e
        exact hn.1 (List.mem_map.2 ⟨(c, x), h1, rfl⟩)
      have : (c == a) = false := by simp [hne]
      simp only [List.lookup_cons, this]
      exact lookup_of_mem_nodup l c x hn.2 h1

theorem mem_of_lookup {β : Type} : ∀ (l : List (Nat × β)) (c : Nat) (x : β), l.lookup c = some x → (c, x) ∈ l
  | [], _, _, h => by cases h
  | (a, v) :: l, c, x, h => by
    simp only [List.lookup_cons] at h
    by_cases hc : c = a
    · subst hc; simp at h; subst h; simp
    · have : (c == a) = false := by simp [hc]
      simp only [this] at h
      exact List.mem_cons_of_mem _ (mem_of_lookup l c x h)

theorem lookup_isSome_of_key {β : Type} : ∀ (l : List (Nat × β)) (c : Nat), c ∈ l.map (·.1) → ∃ x, l.lookup c = some x
  | [], _, h => by cases h
  | (a, v) :: l, c, h => by
    simp only [List.map_cons, List.mem_cons] at h
    by_cases hc : c = a
    · subst hc; exact ⟨v, by simp⟩
    · have : (c == a) = false := by simp [hc]
      simp only [List.lookup_cons, this]
      rcases h with h | h
      · exact absurd h hc
      · exact lookup_isSome_of_key l c h

theorem key_of_lookup {β : Type} (l : List (Nat × β)) (c : Nat) (x : β) (h : l.lookup c = some x) : c ∈ l.map (·.1) :=
  List.mem_map.2 ⟨(c, x), mem_of_lookup l c x h, rfl⟩

/-! ### the table of contexts under the three context events -/

theorem ctxs_ctx (w : Watch) (r : Bool) (c : Nat) :
    (watchEvent w (.ctx r c)).ctxs = updKey c (fun x => { x with resumed := r }) w.ctxs := by
  cases r <;> rfl

theorem ctxs_ctxN (w : Watch) (c t : Nat) (k : CtxKind) :
    (watchEvent w (.ctxN c t k)).ctxs = (c, ({ owner := t, kind := k } : CtxW)) :: w.ctxs := rfl

theorem ctxs_ctxX (w : Watch) (c : Nat) :
    (watchEvent w (.ctxX c)).ctxs =
      w.ctxs.map fun (p : Nat × CtxW) =>
        if p.1 == c then (p.1, { p.2 with isOpen := false, closedSusp := (w.lastYield.lookup p.2.owner).isSome })
        else p := rfl

theorem ctxX_keys (w : Watch) (c : Nat) : (watchEvent w (.ctxX c)).ctxs.map (·.1) = w.ctxs.map (·.1) := by
  rw [ctxs_ctxX]
  induction w.ctxs with
  | nil => rfl
  | cons p l ih =>
    simp only [List.map_cons, List.cons.injEq] at ih ⊢
    refine ⟨?_, ih⟩
    split <;> rfl

/-- the entry of `c'` after `.ctxX c` -/
theorem lookup_ctxX (w : Watch) (c c' : Nat) :
    (watchEvent w (.ctxX c)).ctx? c' =
      if c' = c then (w.ctx? c).map fun x => { x with isOpen := false, closedSusp := (w.lastYield.lookup x.owner).isSome }
      else w.ctx? c' := by
  unfold Watch.ctx?
  rw [ctxs_ctxX]
  induction w.ctxs with
  | nil => simp
  | cons p l ih =>
    obtain ⟨a, v⟩ := p
    simp only [List.map_cons] at ih ⊢
    by_cases ha : a = c
    · subst ha
      simp only [beq_self_eq_true, if_true, List.lookup_cons]
      by_cases hc : c' = a
      · subst hc; simp
      · have : (c' == a) = false := by simp [hc]
        simp only [this, hc, if_false]
        rw [ih]; simp [hc]
    · have hb : (a == c) = false := by simp [ha]
      simp only [hb, Bool.false_eq_true, if_false, List.lookup_cons]
      by_cases hc : c' = a
      · subst hc; simp [ha]
      · have : (c' == a) = false := by simp [hc]
        simp only [this]
        rw [ih]
        by_cases hcc : c' = c
        · subst hcc
          simp only [if_true]
          have : (c' == a) = false := by simp [hc]
          simp [this]
        · simp [hcc]

theorem lookup_ctx (w : Watch) (r : Bool) (c c' : Nat) :
    (watchEvent w (.ctx r c)).ctx? c' =
      if c' = c then (w.ctx? c).map fun x => { x with resumed := r } else w.ctx? c' := by
  unfold Watch.ctx?
  rw [ctxs_ctx, lookup_updKey]

theorem lookup_ctxN (w : Watch) (c t : Nat) (k : CtxKind) (c' : Nat) :
    (watchEvent w (.ctxN c t k)).ctx? c' =
      if c' = c then some ({ owner := t, kind := k } : CtxW) else w.ctx? c' := by
  unfold Watch.ctx?
  rw [ctxs_ctxN, List.lookup_cons]
  by_cases h : c' = c
  · subst h; simp
  · have : (c' == c) = false := by simp [h]
    simp [this, h]

/-- fields of the observer that the context events leave alone -/
theorem lastYield_ctxEv (w : Watch) (e : Event) (h : ctxInert e = false) :
    (watchEvent w e).lastYield = w.lastYield ∧ (watchEvent w e).outs = w.outs ∧
    (watchEvent w e).syncStack = w.syncStack ∧ (watchEvent w e).kinds = w.kinds := by
  cases e <;> simp [ctxInert] at h
  case ctx r c => cases r <;> exact ⟨rfl, rfl, rfl, rfl⟩
  case ctxN => exact ⟨rfl, rfl, rfl, rfl⟩
  case ctxX => exact ⟨rfl, rfl, rfl, rfl⟩

end AsynqModel.Core.P16
