import AsynqModel.Proofs.P15OrdQ2
import AsynqModel.Proofs.P14Exact
import AsynqModel.Proofs.P7Ops
import AsynqModel.Proofs.P10Gen
/-!
  P15, part 11 (start-order clause): the helpers of the machine are `FQ` frames (no NonAsyncContext exists, so that
  `_resume_contexts` / `_pause_contexts` fail nobody), and `Q` is preserved by `genStep` and `step`.
-/
namespace AsynqModel.Core.P15
open AsynqModel.Core AsynqModel.Core.Spec AsynqModel.Core.P2 AsynqModel.Core.P14

theorem FQ_ite {s s1 s2 : State} {p : Prop} [Decidable p] (h1 : FQ s s1) (h2 : FQ s s2) : FQ s (if p then s1 else s2) := by
  split <;> assumption

/-- any change of the fields other than `futs` and `trace` -/
theorem FQ_mk (s : State) (cfg batches stack sbatches active ctl ctxs sv tops topIdx curTop raising choices stuck guardFired) :
    FQ s { cfg := cfg, futs := s.futs, batches := batches, stack := stack, sbatches := sbatches, active := active,
           ctl := ctl, ctxs := ctxs, sv := sv, trace := s.trace, tops := tops, topIdx := topIdx, curTop := curTop,
           raising := raising, choices := choices, stuck := stuck, guardFired := guardFired } :=
  FQ_of_eq rfl rfl

theorem FQ_fail (s : State) (m : String) : FQ s (s.fail m) := FQ_of_eq rfl rfl

macro "fq_keep" : tactic =>
  `(tactic| exact FQ_updTask _ _ _ (fun _ => rfl) (fun _ => rfl) (fun _ => rfl) (fun _ => rfl) (fun _ => rfl))

/-! ### contexts -/

theorem FQ_svTouch (s : State) (var : Nat) : FQ s (s.svTouch var) :=
  FQ_of_eq (sameC_svTouch s var).futs (sameC_svTouch s var).trace

theorem FQ_ctxResumeOne (s : State) (cid : Nat) : FQ s (s.ctxResumeOne cid) :=
  (FQ_emit s (.ctx true cid) rfl).trans (FQ_of_eq (sameC_ctxResumeOne s cid).futs (sameC_ctxResumeOne s cid).trace)

theorem FQ_ctxPauseOne (s : State) (cid : Nat) : FQ s (s.ctxPauseOne cid) :=
  (FQ_emit s (.ctx false cid) rfl).trans (FQ_of_eq (sameC_ctxPauseOne s cid).futs (sameC_ctxPauseOne s cid).trace)

theorem FQ_ctxExit (s : State) (cid : Nat) : FQ s (s.ctxExit cid) := by
  rcases ctxExit_cases s cid with e | ⟨ow, e⟩
  · rw [e]
    exact (FQ_ite (FQ.refl s) (FQ_ctxPauseOne s cid)).trans (FQ_emit _ _ rfl)
  · rw [e]
    have h1 : FQ s (s.updTask ow fun ts => { ts with ctxs := ts.ctxs.erase cid }) := by fq_keep
    exact (FQ_ite h1 (h1.trans (FQ_ctxPauseOne _ cid))).trans (FQ_emit _ _ rfl)

theorem FQ_foldl {α : Type} (g : State → α → State) (hg : ∀ s a, FQ s (g s a)) (l : List α) (s : State) :
    FQ s (l.foldl g s) := by
  induction l generalizing s with
  | nil => exact FQ.refl s
  | cons a l ih => exact (hg s a).trans (ih _)

theorem FQ_exitAll (s : State) (t : Nat) : FQ s (s.exitAll t) := by
  unfold State.exitAll
  have h1 := FQ_foldl (fun (s : State) (p : Nat × Body) => s.ctxExit p.1) (fun s p => FQ_ctxExit s p.1)
    (s.task t).conts s
  refine h1.trans ?_
  fq_keep

theorem FQ_flipOne (b : Bool) (s : State) (c : Nat) : FQ s (P5.flipOne b s c) := by
  unfold P5.flipOne
  split
  · exact FQ.refl s
  · split
    · exact FQ_ctxResumeOne s c
    · exact FQ_ctxPauseOne s c

theorem FQ_resumeContexts (s : State) (t : Nat) (hna : P7.NA s) : FQ s (s.resumeContexts t) := by
  by_cases hact : (s.task t).ctxActive = true
  · rw [P7.nf_resume_active s t hact]; exact FQ.refl s
  · rw [P7.nf_resume s t hna (by simpa using hact)]
    refine FQ.trans ?_ (FQ_foldl _ (FQ_flipOne true) _ _)
    fq_keep

theorem FQ_pauseContexts (s : State) (t : Nat) (hna : P7.NA s) : FQ s (s.pauseContexts t) := by
  by_cases hact : (s.task t).ctxActive = true
  · rw [P7.nf_pause s t hna hact]
    refine FQ.trans ?_ (FQ_foldl _ (FQ_flipOne false) _ _)
    fq_keep
  · rw [P5.pauseContexts_eq]
    have : (s.task t).ctxActive = false := by simpa using hact
    simp only [this, Bool.not_false, if_true]
    exact FQ.refl s

/-! ### batches -/

theorem FQ_switchActive (s : State) (kind seq : Nat) : FQ s (s.switchActive kind seq) := by
  unfold State.switchActive
  split
  · split
    · exact FQ_of_eq rfl rfl
    · exact FQ.refl s
  · exact FQ.refl s

theorem FQ_updBatch (s : State) (kind seq : Nat) (g : Batch → Batch) : FQ s (s.updBatch kind seq g) := FQ_of_eq rfl rfl

theorem FQ_flushItems (kind : Nat) (l : List Nat) (s : State) : FQ s (s.flushItems kind l) := by
  induction l generalizing s with
  | nil => exact FQ.refl s
  | cons i l ih =>
    unfold State.flushItems
    simp only []
    refine FQ.trans ?_ (ih _)
    split
    · exact FQ.refl s
    · rename_i hc
      split
      · rename_i hk
        exact FQ_complete s i _ (by rw [hk]; intro h; cases h) (computed_false hc)
      · rename_i hk
        exact FQ_complete s i _ (by rw [hk]; intro h; cases h) (computed_false hc)
      · exact FQ.refl s

theorem FQ_finishItems (e : Err) (l : List Nat) (s : State) (hl : ∀ i ∈ l, isItemKind (s.fut i).kind = true) :
    FQ s (s.finishItems e l) := by
  induction l generalizing s with
  | nil => exact FQ.refl s
  | cons i l ih =>
    unfold State.finishItems
    have hi := kind_of_isItem (hl i (by simp))
    have q : FQ s (if s.computed i then s else s.complete i (.err e)) := by
      split
      · exact FQ.refl s
      · rename_i hc
        exact FQ_complete s i _ hi.2 (computed_false hc)
    refine q.trans (ih _ ?_)
    intro j hj
    rw [q.kind]; exact hl j (by simp [hj])

theorem FQ_flushBatch (s : State) (kind seq : Nat) (hi : ItemsOk s) : FQ s (s.flushBatch kind seq) := by
  unfold State.flushBatch
  split
  · exact FQ_fail s _
  · rename_i bt hb
    have hb' : bt ∈ s.batches := List.mem_of_find?_eq_some hb
    simp only []
    have q1 : FQ s (((s.switchActive kind seq).emit (.flushI kind seq bt.items)).flushItems kind bt.items) :=
      ((FQ_switchActive s kind seq).trans (FQ_emit _ _ rfl)).trans (FQ_flushItems _ _ _)
    refine ((q1.trans (FQ_finishItems _ _ _ ?_)).trans (FQ_emit _ _ rfl)).trans (FQ_updBatch _ _ _ _)
    intro i hib
    rw [q1.kind]; exact hi bt hb' i hib

theorem FQ_schedulerFlush (s : State) (root : Nat) (hi : ItemsOk s) : FQ s (s.schedulerFlush root) := by
  unfold State.schedulerFlush
  simp only []
  have h0 : FQ s { s with sbatches := s.flushable, ctl := .waitEnter root :: s.ctl.tail } := FQ_of_eq rfl rfl
  split
  · exact h0
  · split
    · exact h0.trans (FQ_fail _ _)
    · split
      · exact h0.trans (FQ_fail _ _)
      · split
        · exact h0.trans (FQ_fail _ _)
        · refine FQ.trans ?_ (FQ_emit _ _ rfl)
          refine FQ.trans ?_ (FQ_flushBatch _ _ _ (fun bt hb i hib => hi bt hb i hib))
          refine FQ.trans ?_ (FQ_emit _ _ rfl)
          exact FQ_of_eq rfl rfl

/-! ### the scheduler loop -/

theorem FQ_popStack (s : State) : FQ s s.popStack := FQ_of_eq rfl rfl

theorem na_updTask {s : State} (hna : P7.NA s) (t : Nat) (g : TaskSt → TaskSt) : P7.NA (s.updTask t g) :=
  P7.na_of_ctxs rfl hna

theorem FQ_handleTask (s : State) (t : Nat) (hna : P7.NA s) : FQ s (s.handleTask t) := by
  unfold State.handleTask
  simp only []
  split
  · split
    · refine FQ.trans ?_ (FQ_popStack _)
      refine FQ.trans ?_ (FQ_pauseContexts _ t (na_updTask hna _ _))
      fq_keep
    · refine FQ.trans ?_ (FQ_mk _ ..)
      refine FQ.trans ?_ (FQ_resumeContexts _ t (na_updTask hna _ _))
      fq_keep
  · split
    · exact FQ_fail s _
    · exact (FQ_resumeContexts s t hna).trans (FQ_mk _ ..)

theorem FQ_executeIter (s : State) (hna : P7.NA s) : FQ s s.executeIter := by
  unfold State.executeIter
  split
  · exact FQ_fail s _
  · split
    · exact FQ_of_eq rfl rfl
    · split
      · exact FQ_popStack s
      · rename_i hc
        split
        · exact FQ_handleTask s _ hna
        · refine FQ.trans ?_ (FQ_popStack _)
          split
          · split
            · exact FQ.refl s
            · exact FQ_of_eq rfl rfl
          · exact FQ.refl s
        · rename_i lo hk
          exact (FQ_complete s _ _ (by rw [hk]; intro h; cases h) (computed_false hc)).trans (FQ_popStack _)
        · exact FQ_fail s _

theorem FQ_leaveGen (s : State) (t : Nat) (old : Option Nat) : FQ s (s.leaveGen t old) := by
  unfold State.leaveGen
  refine FQ.trans ?_ (FQ_mk _ ..)
  fq_keep

/-! ### one instruction of a task body -/

theorem FQ_svTouchMatch (s : State) (cx : CtxKind) :
    FQ s (match cx with | .override var _ => s.svTouch var | _ => s) := by
  split
  · exact FQ_svTouch s _
  · exact FQ.refl s

theorem FQ_withCtxTail (s0 : State) (cid t : Nat) (cx : CtxKind) :
    FQ s0 (
      let s := s0.emit (.ctxN cid t cx)
      let s := { s with ctxs := s.ctxs ++ [({ kind := cx, owner := s.active } : CtxSt)] }
      let s := match s.active with
        | some a => s.updTask a fun ts => { ts with ctxs := ts.ctxs ++ [cid] }
        | none => s
      if cx == .nonasync then s else s.ctxResumeOne cid) := by
  have h1 : FQ s0 (s0.emit (.ctxN cid t cx)) := FQ_emit _ _ rfl
  have h2 : FQ s0 { (s0.emit (.ctxN cid t cx)) with
      ctxs := (s0.emit (.ctxN cid t cx)).ctxs ++ [({ kind := cx, owner := (s0.emit (.ctxN cid t cx)).active } : CtxSt)] } :=
    h1.trans (FQ_of_eq rfl rfl)
  have h3 : ∀ s1 : State, FQ s1 (match s1.active with
      | some a => s1.updTask a fun ts => { ts with ctxs := ts.ctxs ++ [cid] }
      | none => s1) := by
    intro s1
    split
    · fq_keep
    · exact FQ.refl s1
  have h4 := h2.trans (h3 _)
  exact FQ_ite h4 (h4.trans (FQ_ctxResumeOne _ _))

theorem wsB_notSync {b : Body} {n m : Nat} {Qc : Nat → Bool} (h : P10.wsB b n m Qc = true) : isSyncret b = false := by
  cases b <;> first | rfl | (simp [P10.wsB] at h)

/-- `FQ` frame, then an instruction that moves task `t` on -/
theorem Q_fq_adv {s s2 : State} (F : FQ s s2) (t : Nat) (g : TaskSt → TaskSt) (hlt : t < s.futs.length)
    (hb0 : isSyncret (s.task t).body = false)
    (h1 : ∀ ts, (g ts).pending = ts.pending) (h2 : ∀ ts, (g ts).started = ts.started)
    (h4 : ∀ ts, (g ts).lastY = ts.lastY) (h5 : ∀ ts, (g ts).deps = ts.deps)
    (hb1 : ∀ ts, isSyncret (g ts).body = false) (h : Q s) : Q (s2.updTask t g) :=
  Q_adv t g (by rw [F.len]; exact hlt) (h1 _) (h2 _) (h4 _) (h5 _) (by rw [(F.ts t).2.2.1]; exact hb0) (hb1 _)
    (Q_of_FQ F h)

theorem Q_finishTask {s : State} (t : Nat) (old : Option Nat) (x : Outcome) (hlt : t < s.futs.length)
    (hst : (s.task t).started = true) (hp : (s.task t).pending = false) (hb : isSyncret (s.task t).body = false)
    (h : Q s) : Q (s.finishTask t old x) := by
  unfold State.finishTask
  split
  · exact Q_of_FQ (FQ_fail s _) h
  · have F := FQ_exitAll s t
    obtain ⟨a1, a2, a3, _⟩ := F.ts t
    refine Q_of_FQ (FQ_leaveGen _ t old) ?_
    exact Q_finish t _ x (by rw [F.len]; exact hlt) (by rw [a2]; exact hst) (by rw [a1]; exact hp)
      (by rw [a3]; exact hb) (by show ((s.exitAll t).task t).started = true; rw [a2]; exact hst) rfl (Q_of_FQ F h)

theorem Q_ite {s1 s2 : State} {p : Prop} [Decidable p] (h1 : Q s1) (h2 : Q s2) : Q (if p then s1 else s2) := by
  split <;> assumption

/-- what `genStep` needs to know about the running task `t` -/
structure GenQ (s : State) (t : Nat) : Prop where
  kind : (s.fut t).kind = .task
  live : s.out t = none
  gnb : (s.task t).pending = true → (s.task t).started = true → ∀ d ∈ (s.task t).deps, s.out d ≠ none
  ns : (s.task t).started = false → (s.task t).pending = true
  np : (s.task t).pending = false → (s.task t).started = true
  ws : P10.wsTS (s.task t) = true
  nb : ∀ d, (d ∈ (s.task t).own ∨ d ∈ (s.task t).inh) → d < s.futs.length
  pb : ∀ d ∈ (s.task t).prevY.leaves, d < s.futs.length
  rz : s.raising = none

theorem wsTS_syncret {ts : TaskSt} (h : P10.wsTS ts = true) {f : Nat} {k hh : Body} (hb : ts.body = .syncret f k hh) :
    isSyncret k = false ∧ isSyncret hh = false := by
  unfold P10.wsTS at h
  rw [hb] at h
  simp only [Bool.and_eq_true] at h
  exact ⟨wsB_notSync h.1, wsB_notSync h.2⟩

theorem task_alloc_old (s : State) (x : Fut) (nk : NewKind) (t : Nat) (ht : t < s.futs.length) :
    (s.alloc x nk).1.task t = s.task t ∧ (s.alloc x nk).1.out t = s.out t ∧
    ((s.alloc x nk).1.fut t).kind = (s.fut t).kind := by
  have : (s.alloc x nk).1.fut t = s.fut t := by rw [fut_alloc, if_neg (by omega)]
  exact ⟨by unfold State.task; rw [this], by unfold State.out; rw [this], by rw [this]⟩

/-- a future is created by task `t`, which moves on -/
theorem Q_alloc_adv {s : State} (x : Fut) (nk : NewKind) (F : State → State) (hF : ∀ s1, FQ s1 (F s1))
    (t : Nat) (g : TaskSt → TaskSt) (hlt : t < s.futs.length)
    (hx1 : x.ts.started = false) (hx2 : x.ts.deps = [])
    (hx3 : isSyncret x.ts.body = false) (hx4 : ∀ c, nk = .task c → x.kind = .task)
    (hx5 : x.kind = .task → x.out = none)
    (hb0 : isSyncret (s.task t).body = false)
    (h1 : ∀ ts, (g ts).pending = ts.pending) (h2 : ∀ ts, (g ts).started = ts.started)
    (h4 : ∀ ts, (g ts).lastY = ts.lastY) (h5 : ∀ ts, (g ts).deps = ts.deps)
    (hb1 : ∀ ts, isSyncret (g ts).body = false) (h : Q s) : Q ((F (s.alloc x nk).1).updTask t g) := by
  have hq := Q_alloc x nk hx1 hx2 hx3 hx4 hx5 h
  obtain ⟨e1, _, _⟩ := task_alloc_old s x nk t hlt
  exact Q_fq_adv (hF _) t g (by rw [alloc_len]; omega) (by rw [e1]; exact hb0) h1 h2 h4 h5 hb1 hq

theorem Q_genStep {s : State} (t : Nat) (old : Option Nat) (hi : ItemsOk s) (g : GenQ s t) (h : Q s) :
    Q (s.genStep t old) := by
  have hk := g.kind
  have hlt : t < s.futs.length := lt_of_task' hk
  unfold State.genStep
  simp only []
  split
  · rename_i hp
    split
    · rename_i hs
      have hs' : (s.task t).started = false := by simpa using hs
      exact Q_start t _ _ rfl hlt hs' hp rfl rfl rfl rfl h
    · rename_i hs
      have hs' : (s.task t).started = true := by simpa using hs
      have hd := g.gnb hp hs'
      have hsub : ∀ d, d ∈ (if s.cfg.keepDeps = true then (s.task t).deps else []) → d ∈ (s.task t).deps := by
        intro d hd'
        split at hd'
        · exact hd'
        · cases hd'
      split
      · rename_i hb _
        have hw := P10.ws_body _ g.ws hb (by intro _ _ _ hh; cases hh)
        simp only [P10.wsB, Bool.and_eq_true] at hw
        exact Q_resume t _ _ rfl hlt hp hd hs' rfl hsub (wsB_notSync hw.1.2) h
      · rename_i hb _
        have hw := P10.ws_body _ g.ws hb (by intro _ _ _ hh; cases hh)
        simp only [P10.wsB, Bool.and_eq_true] at hw
        exact Q_resume t _ _ rfl hlt hp hd hs' rfl hsub (wsB_notSync hw.2) h
      · rename_i hb _
        have hw := P10.ws_body _ g.ws hb (by intro _ _ _ hh; cases hh)
        simp only [P10.wsB, Bool.and_eq_true] at hw
        exact Q_resume t _ _ rfl hlt hp hd hs' rfl hsub (wsB_notSync hw.1) h
      · rename_i hb _
        have hw := P10.ws_body _ g.ws hb (by intro _ _ _ hh; cases hh)
        simp only [P10.wsB, Bool.and_eq_true] at hw
        exact Q_resume t _ _ rfl hlt hp hd hs' rfl hsub (wsB_notSync hw.2) h
      · exact Q_of_FQ (FQ_fail s _) h
  · rename_i hp
    have hp' : (s.task t).pending = false := by simpa using hp
    have hst : (s.task t).started = true := g.np hp'
    split
    · rename_i hb; exact Q_finishTask _ _ _ hlt hst hp' (by rw [hb]; rfl) h
    · rename_i hb; exact Q_finishTask _ _ _ hlt hst hp' (by rw [hb]; rfl) h
    · rename_i hb; exact Q_finishTask _ _ _ hlt hst hp' (by rw [hb]; rfl) h
    · rename_i hb; exact Q_finishTask _ _ _ hlt hst hp' (by rw [hb]; rfl) h
    · -- spawn
      rename_i child pass k hb
      have hw := P10.ws_body _ g.ws hb (by intro _ _ _ hh; cases hh)
      simp only [P10.wsB, Bool.and_eq_true] at hw
      unfold State.newTask
      refine Q_fq_adv (FQ.refl _) t _ (by rw [alloc_len]; omega) ?_ (fun _ => rfl) (fun _ => rfl) (fun _ => rfl)
        (fun _ => rfl) (fun _ => wsB_notSync hw.2) (Q_alloc _ _ rfl rfl (wsB_notSync hw.1.2) (fun _ _ => rfl)
        (fun _ => rfl) h)
      rw [(task_alloc_old s _ _ t hlt).1, hb]; rfl
    · -- item
      rename_i kind payload mode k hb
      have hw := P10.ws_body _ g.ws hb (by intro _ _ _ hh; cases hh)
      simp only [P10.wsB] at hw
      have key : ∀ S : State, FQ s S → ∀ b : Batch,
          Q (((S.alloc { kind := .item kind b.seq payload mode, den := itemOutcome S.cfg kind payload mode }
            (.item kind b.seq b.items.length payload mode)).1.updBatch kind b.seq
              fun b' => { b' with items := b'.items ++ [S.futs.length] }).updTask t
              fun ts => { ts with own := ts.own ++ [S.futs.length], body := k }) := by
        intro S F0 b
        have hltS : t < S.futs.length := by rw [F0.len]; exact hlt
        refine Q_fq_adv (FQ_updBatch _ _ _ _) t _ (by rw [alloc_len]; omega) ?_ (fun _ => rfl) (fun _ => rfl)
          (fun _ => rfl) (fun _ => rfl) (fun _ => wsB_notSync hw)
          (Q_alloc _ _ rfl rfl rfl (fun c hc => by cases hc) (fun hc => by cases hc) (Q_of_FQ F0 h))
        rw [(task_alloc_old S _ _ t hltS).1, (F0.ts t).2.2.1, hb]; rfl
      cases hcb : s.curBatch? kind with
      | none =>
        simp only []
        split
        · exact Q_of_FQ (FQ_fail _ _)
            (Q_of_FQ (FQ_of_eq (s := s) (s' := { s with batches := s.batches ++ [({ kind := kind, seq := 0 } : Batch)] })
              rfl rfl) h)
        · exact key { s with batches := s.batches ++ [({ kind := kind, seq := 0 } : Batch)] } (FQ_of_eq rfl rfl) _
      | some b0 =>
        simp only []
        split
        · exact Q_of_FQ (FQ_fail _ _) h
        · exact key _ (FQ.refl s) _
    · -- const
      rename_i v k hb
      have hw := P10.ws_body _ g.ws hb (by intro _ _ _ hh; cases hh)
      simp only [P10.wsB] at hw
      refine Q_fq_adv (FQ.refl _) t _ (by rw [alloc_len]; omega) ?_ (fun _ => rfl) (fun _ => rfl) (fun _ => rfl)
        (fun _ => rfl) (fun _ => wsB_notSync hw) (Q_alloc _ _ rfl rfl rfl ?_ ?_ h)
      · rw [(task_alloc_old s _ _ t hlt).1, hb]; rfl
      · intro c hc; cases hc
      · intro hc; cases hc
    · -- errfut
      rename_i v k hb
      have hw := P10.ws_body _ g.ws hb (by intro _ _ _ hh; cases hh)
      simp only [P10.wsB] at hw
      refine Q_fq_adv (FQ.refl _) t _ (by rw [alloc_len]; omega) ?_ (fun _ => rfl) (fun _ => rfl) (fun _ => rfl)
        (fun _ => rfl) (fun _ => wsB_notSync hw) (Q_alloc _ _ rfl rfl rfl ?_ ?_ h)
      · rw [(task_alloc_old s _ _ t hlt).1, hb]; rfl
      · intro c hc; cases hc
      · intro hc; cases hc
    · -- lazy
      rename_i v k hb
      have hw := P10.ws_body _ g.ws hb (by intro _ _ _ hh; cases hh)
      simp only [P10.wsB] at hw
      refine Q_fq_adv (FQ.refl _) t _ (by rw [alloc_len]; omega) ?_ (fun _ => rfl) (fun _ => rfl) (fun _ => rfl)
        (fun _ => rfl) (fun _ => wsB_notSync hw) (Q_alloc _ _ rfl rfl rfl ?_ ?_ h)
      · rw [(task_alloc_old s _ _ t hlt).1, hb]; rfl
      · intro c hc; cases hc
      · intro hc; cases hc
    · -- yld
      rename_i y k hh hb
      have hw := P10.ws_body _ g.ws hb (by intro _ _ _ hx; cases hx)
      simp only [P10.wsB, Bool.and_eq_true] at hw
      have hlv : ∀ f ∈ (y.mapLeaves (s.task t).resolve).leaves, f < s.futs.length := by
        intro f hf
        rw [P10.leaves_mapLeaves] at hf
        exact g.nb f (P10.mem_map_resolve _ _ hw.1.1 f hf)
      have hsub : ∀ d, d ∈ (if s.cfg.keepDeps = true then (s.task t).deps else []) → d ∈ (s.task t).deps := by
        intro d hd'
        split at hd'
        · exact hd'
        · cases hd'
      refine Q_ite ?_ (Q_of_FQ (FQ_leaveGen _ t old) ?_)
      · exact Q_yield t _ _ _ hlt hk hst hp' g.live (by rw [hb]; rfl) rfl hst rfl ⟨_, rfl, hsub⟩ rfl hlv h
      · exact Q_yield t _ _ _ hlt hk hst hp' g.live (by rw [hb]; rfl) rfl hst rfl ⟨_, rfl, hsub⟩ rfl hlv h
    · -- reyld
      rename_i k hh hb
      have hsub : ∀ d, d ∈ (if s.cfg.keepDeps = true then (s.task t).deps else []) → d ∈ (s.task t).deps := by
        intro d hd'
        split at hd'
        · exact hd'
        · cases hd'
      refine Q_ite ?_ (Q_of_FQ (FQ_leaveGen _ t old) ?_)
      · exact Q_yield t _ _ _ hlt hk hst hp' g.live (by rw [hb]; rfl) rfl hst rfl ⟨_, rfl, hsub⟩ rfl g.pb h
      · exact Q_yield t _ _ _ hlt hk hst hp' g.live (by rw [hb]; rfl) rfl hst rfl ⟨_, rfl, hsub⟩ rfl g.pb h
    · -- sync
      rename_i child pass k hh hb
      have hw := P10.ws_body _ g.ws hb (by intro _ _ _ hx; cases hx)
      simp only [P10.wsB, Bool.and_eq_true] at hw
      unfold State.newTask
      simp only []
      refine Q_of_FQ (FQ_mk _ ..) ?_
      refine Q_syncE t _ k hh _ (by rw [alloc_len]; omega) ?_ ?_ ?_ ?_ (by rw [alloc_len]; simp) ?_ rfl rfl rfl
        rfl (Q_alloc _ _ rfl rfl (wsB_notSync hw.1.1.2) (fun _ _ => rfl) (fun _ => rfl) h)
      · rw [(task_alloc_old s _ _ t hlt).2.2]; exact hk
      · rw [(task_alloc_old s _ _ t hlt).1]; exact hp'
      · rw [(task_alloc_old s _ _ t hlt).2.1]; exact g.live
      · rw [(task_alloc_old s _ _ t hlt).1, hb]; rfl
      · show ((State.alloc _ _ _).1.task t).pending = false
        rw [(task_alloc_old s _ _ t hlt).1]; exact hp'
    · -- syncfut
      rename_i rf k hh hb
      have hw := P10.ws_body _ g.ws hb (by intro _ _ _ hx; cases hx)
      simp only [P10.wsB, Bool.and_eq_true] at hw
      have hf : (s.task t).resolve rf < s.futs.length := g.nb _ (P10.resolve_mem _ _ hw.1.1)
      have h1 : Q ((s.updTask t fun ts => { ts with body := .syncret ((s.task t).resolve rf) k hh }).emit
          (.syncE t ((s.task t).resolve rf))) :=
        Q_syncE t _ k hh _ hlt hk hp' g.live (by rw [hb]; rfl) hf hp' rfl rfl rfl rfl h
      have hi1 : ItemsOk ((s.updTask t fun ts => { ts with body := .syncret ((s.task t).resolve rf) k hh }).emit
          (.syncE t ((s.task t).resolve rf))) := by
        intro bt hb' i hib
        rw [emit_fut, kind_updTask]; exact hi bt hb' i hib
      split
      · exact h1
      · rename_i hc
        split
        · exact Q_of_FQ (FQ_mk _ ..) h1
        · split
          · split
            · exact h1
            · exact Q_of_FQ (FQ_flushBatch _ _ _ hi1) h1
          · exact h1
        · rename_i lo hko
          exact Q_of_FQ (FQ_complete _ _ _ (by rw [hko]; intro hx; cases hx) (computed_false hc)) h1
        · exact h1
    · -- syncret
      rename_i f k hh hb
      obtain ⟨n1, n2⟩ := wsTS_syncret g.ws hb
      have h0 : Q { s with raising := none } :=
        Q_of_FQ (FQ_of_eq (s := s) (s' := { s with raising := none }) rfl rfl) h
      have hof : ∀ x, (match s.raising with | some e => some (Outcome.err e) | none => s.out f) = some x →
          (s.fut f).kind = .task → (s.task f).started = true := by
        intro x hx hkf
        rw [g.rz] at hx
        have hx' : s.out f = some x := hx
        exact h.q2 f hkf (by rw [hx']; intro hc; cases hc)
      split
      · exact Q_of_FQ (FQ_fail s _) h
      · rename_i v ho
        exact Q_unsync (s := { s with raising := none }) t f k hh _ _ rfl hlt hb hp' (hof _ ho) hp' rfl rfl rfl n1 h0
      · rename_i e ho
        exact Q_unsync (s := { s with raising := none }) t f k hh _ _ rfl hlt hb hp' (hof _ ho) hp' rfl rfl rfl n2 h0
    · -- withCtx
      rename_i cx bd k hb
      have hw := P10.ws_body _ g.ws hb (by intro _ _ _ hx; cases hx)
      simp only [P10.wsB] at hw
      exact Q_fq_adv ((FQ_svTouchMatch s cx).trans (FQ_withCtxTail _ _ _ _)) t _ hlt (by rw [hb]; rfl) (fun _ => rfl)
        (fun _ => rfl) (fun _ => rfl) (fun _ => rfl) (fun _ => wsB_notSync hw) h
    · -- endwith
      rename_i hb
      split
      · exact Q_finishTask _ _ _ hlt hst hp' (by rw [hb]; rfl) h
      · rename_i cid k rest hc
        have hw := P10.ws_body _ g.ws hb (by intro _ _ _ hx; cases hx)
        simp only [P10.wsB, hc, P10.contQ] at hw
        exact Q_fq_adv (FQ_ctxExit s cid) t _ hlt (by rw [hb]; rfl) (fun _ => rfl) (fun _ => rfl) (fun _ => rfl)
          (fun _ => rfl) (fun _ => wsB_notSync hw) h
    · -- read
      rename_i var k hb
      have hw := P10.ws_body _ g.ws hb (by intro _ _ _ hx; cases hx)
      simp only [P10.wsB] at hw
      exact Q_fq_adv ((FQ_svTouch s var).trans (FQ_emit _ _ rfl)) t _ hlt (by rw [hb]; rfl) (fun _ => rfl)
        (fun _ => rfl) (fun _ => rfl) (fun _ => rfl) (fun _ => wsB_notSync hw) h
    · -- active
      rename_i k hb
      have hw := P10.ws_body _ g.ws hb (by intro _ _ _ hx; cases hx)
      simp only [P10.wsB] at hw
      exact Q_fq_adv (FQ_emit s _ rfl) t _ hlt (by rw [hb]; rfl) (fun _ => rfl)
        (fun _ => rfl) (fun _ => rfl) (fun _ => rfl) (fun _ => wsB_notSync hw) h

/-! ### the transition function -/

theorem Q_of_eq {s s' : State} (hf : s'.futs = s.futs) (ht : s'.trace = s.trace) (h : Q s) : Q s' :=
  Q_of_FQ (FQ_of_eq hf ht) h

theorem FQ_finishTop (s : State) (f : Nat) : FQ s (s.finishTop f) := by
  unfold State.finishTop
  simp only []
  refine FQ.trans ?_ (FQ_emit _ _ rfl)
  refine FQ.trans ?_ (FQ_emit _ _ rfl)
  refine FQ.trans ?_ (FQ_emit _ _ rfl)
  exact FQ_of_eq rfl rfl

theorem Q_step {s : State} (h : Q s) (hi : ItemsOk s) (hna : P7.NA s)
    (htops : ∀ p ∈ s.tops, isSyncret p.2 = false)
    (hgen : ∀ t old rest, s.stuck = none → s.ctl = .gen t old :: rest → GenQ s t) : Q (step s) := by
  unfold step
  split
  · exact h
  · rename_i hst
    have hst' : s.stuck = none := by simpa using hst
    split
    · split
      · exact Q_of_FQ (FQ_finishTop s _) h
      · split
        · exact h
        · rename_i conv body rest' htp
          simp only []
          refine Q_of_FQ (FQ_mk _ ..) ?_
          unfold State.newTask
          refine Q_alloc _ _ rfl rfl ?_ (fun _ _ => rfl) (fun _ => rfl) ?_
          · exact htops (conv, body) (by rw [htp]; exact List.mem_cons_self)
          · refine Q_of_FQ (FQ_emit _ _ rfl) ?_
            exact Q_of_FQ (FQ_of_eq (s := s) rfl rfl) h
    · split
      · exact Q_of_eq (s := s) rfl rfl h
      · split
        · exact Q_of_eq (s := s) rfl rfl h
        · exact Q_of_eq (s := s) rfl rfl h
    · split
      · exact Q_of_eq (s := s) rfl rfl h
      · split
        · exact Q_of_FQ (FQ_executeIter s hna) h
        · split
          · exact Q_of_eq (s := s) rfl rfl h
          · exact Q_of_FQ (FQ_schedulerFlush s _ hi) h
    · rename_i t old rest hctl
      exact Q_ite (Q_of_FQ (FQ_fail s _) h) (Q_genStep t old hi (hgen t old rest hst' hctl) h)

end AsynqModel.Core.P15
