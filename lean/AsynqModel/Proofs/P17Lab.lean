import AsynqModel.Proofs.P12Final
import AsynqModel.Proofs.P13Main
/-!
  P17, part 6: the labelled task stack of P12 (`P12.Lab`: every entry of the task stack is labelled with the task on
  whose behalf it was pushed) with two more facts:
  * `LinkA`: the contexts of every such parent are ACTIVE (it is between the two visits of `_handle_async_task`, or
    its generator is in the middle of a synchronous call);
  * `BotOK`: the entry at the bottom of the stack is the root of the outermost `wait_for` frame.
  The invariant `LabIA` is proved like `P12.J` (`Proofs/P12Inv.lean`), from the same classification of the steps.
-/
namespace AsynqModel.Core.P17
open AsynqModel.Core P5 P7 P12

/-- `p` is the parent of stack entry `a`, and its contexts are active -/
def LinkA (s : State) (p a : Nat) : Prop := Link s p a ∧ (s.task p).ctxActive = true

def LabA (s : State) : List (Nat × Nat) → Prop
  | [] => True
  | [(r, p)] => p = r
  | (a, pa) :: (b, pb) :: rest => LinkA s pa a ∧ (pa = b ∨ pa = pb) ∧ LabA s ((b, pb) :: rest)

theorem LabA.toLab {s : State} : ∀ (L : List (Nat × Nat)), LabA s L → Lab s L
  | [], _ => trivial
  | [(_, _)], h => h
  | (a, pa) :: (b, pb) :: rest, h => ⟨h.1.1, h.2.1, LabA.toLab ((b, pb) :: rest) h.2.2⟩

theorem LabA.tail {s : State} {x : Nat × Nat} {L : List (Nat × Nat)} (h : LabA s (x :: L)) : LabA s L := by
  cases L with
  | nil => trivial
  | cons y L => obtain ⟨a, pa⟩ := x; obtain ⟨b, pb⟩ := y; exact h.2.2

theorem LinkA.transfer {X : Nat → Prop} {s r : State} (hp : Hp X s r) {p a : Nat} (hx : ¬ X p)
    (he : edgeIn s.ctl p a → edgeIn r.ctl p a) (h : LinkA s p a) : LinkA r p a := by
  refine ⟨h.1.transfer hp hx he, ?_⟩
  obtain ⟨e, _⟩ := hp.task p hx h.1.1
  rw [e.act]; exact h.2

theorem LabA.transfer {s r : State} : ∀ (L : List (Nat × Nat)), LabA s L →
    (∀ q ∈ L.map Prod.snd, ∀ a, LinkA s q a → LinkA r q a) → LabA r L
  | [], _, _ => trivial
  | [(_, _)], h, _ => h
  | (a, pa) :: (b, pb) :: rest, h, ht => by
    refine ⟨ht pa (by simp) a h.1, h.2.1, LabA.transfer ((b, pb) :: rest) h.2.2 ?_⟩
    intro q hq
    exact ht q (by simp only [List.map_cons, List.mem_cons] at hq ⊢; exact .inr hq)

/-- transfer when only the task on top of the stack may change -/
theorem LabA.transfer_top {X : Nat → Prop} {s r : State} (hi : P10.HInv s) (hch : s.ctl.Pairwise (P10.nest s))
    (hp : Hp X s r) {L : List (Nat × Nat)} (h : LabA s L) (hst : L.map Prod.fst = s.stack)
    (hX : ∀ p, X p → s.stack.head? = some p)
    (he : ∀ p u, s.stack.head? ≠ some p → edgeIn s.ctl p u → edgeIn r.ctl p u) : LabA r L := by
  have hlt : ∀ p a, Link s p a → P10.lt s a p := fun p a hl => hl.lt hi hch
  match L, h, hst with
  | [], _, _ => trivial
  | [(_, _)], h, _ => exact h
  | (a, pa) :: y :: rest, h, hst =>
    refine LabA.transfer _ h ?_
    intro q hq a' hl
    have hqa : P10.lt s a q := Lab.top_lt hlt (LabA.toLab _ h) hq
    have hne : s.stack.head? ≠ some q := by
      rw [← hst]
      simp only [List.map_cons, List.head?_cons, ne_eq, Option.some.injEq]
      intro e; subst e; exact hi.irrefl _ hqa
    exact hl.transfer hp (fun hx => hne (hX q hx)) (he q a' hne)

/-! ### the bottom of the stack -/

/-- the root of the outermost `wait_for` frame -/
def bottomRoot (ctl : List Ctl) : Option Nat := ctl.getLast?.bind P13.rootOf

theorem bottomRoot_cons (x : Ctl) {rest : List Ctl} (h : rest ≠ []) : bottomRoot (x :: rest) = bottomRoot rest := by
  unfold bottomRoot; rw [List.getLast?_cons_of_ne_nil h]

def BotOK (s : State) (L : List (Nat × Nat)) : Prop := ∀ x, L.getLast? = some x → bottomRoot s.ctl = some x.1

def LabIA (s : State) : Prop := ∃ L : List (Nat × Nat), L.map Prod.fst = s.stack ∧ LabA s L ∧ Heads s L ∧ BotOK s L

/-- below the frames that are not executing above their base the stack is not empty only if frames remain -/
theorem rest_ne_of_disc_enter {root : Nat} {rest : List Ctl} {st : List Nat}
    (h : P10.disc (.waitEnter root :: rest) st) (hst : st ≠ []) : rest ≠ [] := by
  intro e; subst e
  exact hst h.2

theorem rest_ne_of_disc_loop {root base : Nat} {rest : List Ctl} {st : List Nat}
    (h : P10.disc (.waitLoop root base :: rest) st) (hlen : st.length ≤ base) (hst : st ≠ []) : rest ≠ [] := by
  intro e; subst e
  obtain ⟨h1, _, h3⟩ := h
  have : st.length - base = 0 := by omega
  rw [this, List.drop_zero] at h3
  exact hst h3

theorem rest_ne_of_disc_gen {t : Nat} {old : Option Nat} {rest : List Ctl} {st : List Nat}
    (h : P10.disc (.gen t old :: rest) st) : rest ≠ [] := by
  obtain ⟨_, ⟨r, b, rest', e⟩, _⟩ := h
  rw [e]; exact List.cons_ne_nil _ _

/-! ### transfer lemmas (cf. `P12.lab_keep`, `lab_pop`, `lab_push`) -/

theorem laba_keep {X : Nat → Prop} {s r : State} (lb : Lib s) (hp : Hp X s r)
    (hX : ∀ p, X p → s.stack.head? = some p) (st : r.stack = s.stack)
    (he : ∀ p u, s.stack.head? ≠ some p → edgeIn s.ctl p u → edgeIn r.ctl p u)
    (hb : s.stack ≠ [] → bottomRoot r.ctl = bottomRoot s.ctl) (h : LabIA s) : LabIA r := by
  obtain ⟨L, hL, hlab, hh, hbo⟩ := h
  refine ⟨L, by rw [st]; exact hL, LabA.transfer_top lb.hinv lb.chain hp hlab hL hX he, ?_, ?_⟩
  · intro o hk ha hc
    rw [st]
    by_cases hx : X o
    · exact .inl (hX o hx)
    · obtain ⟨h1, h2, h3⟩ := heads_back hp hk ha hc hx
      exact hh o h1 h2 h3
  · intro x hx
    have hne : s.stack ≠ [] := by
      rw [← hL]; intro e
      rw [List.map_eq_nil_iff] at e; rw [e] at hx; cases hx
    rw [hb hne]; exact hbo x hx

theorem laba_pop {X : Nat → Prop} {s r : State} (lb : Lib s) (hp : Hp X s r) {top : Nat} {stk : List Nat}
    (hst : s.stack = top :: stk) (hX : ∀ p, X p → p = top) (st : r.stack = stk)
    (he : ∀ p u, s.stack.head? ≠ some p → edgeIn s.ctl p u → edgeIn r.ctl p u)
    (hexcl : ¬ ((r.fut top).kind = .task ∧ (r.task top).ctxActive = true ∧ r.computed top = false))
    (hc : r.ctl = s.ctl) (h : LabIA s) : LabIA r := by
  obtain ⟨L, hL, hlab, hh, hbo⟩ := h
  have hX' : ∀ p, X p → s.stack.head? = some p := fun p hx => by rw [hX p hx, hst]; rfl
  have hlabr : LabA r L := LabA.transfer_top lb.hinv lb.chain hp hlab hL hX' he
  cases L with
  | nil => rw [hst] at hL; cases hL
  | cons x L' =>
    obtain ⟨a, pa⟩ := x
    rw [hst] at hL
    simp only [List.map_cons, List.cons.injEq] at hL
    obtain ⟨rfl, hL'⟩ := hL
    refine ⟨L', by rw [st]; exact hL', hlabr.tail, ?_, ?_⟩
    · intro o hk ha hc'
      by_cases ho : o = a
      · subst ho; exact absurd ⟨hk, ha, hc'⟩ hexcl
      · have hx : ¬ X o := fun hx => ho (hX o hx)
        obtain ⟨h1, h2, h3⟩ := heads_back hp hk ha hc' hx
        rcases hh o h1 h2 h3 with h4 | h4
        · rw [hst] at h4; simp at h4; exact absurd h4.symm ho
        · simp only [List.map_cons, List.mem_cons] at h4
          rcases h4 with h4 | h4
          · cases L' with
            | nil =>
              have : pa = a := hlab
              exact absurd (h4.trans this) ho
            | cons y L'' =>
              obtain ⟨b, pb⟩ := y
              rcases hlab.2.1 with e | e
              · left
                rw [st, ← hL']; simp [h4, e]
              · right
                simp [h4, e]
          · exact .inr h4
    · intro x hx
      rw [hc]
      refine hbo x ?_
      cases L' with
      | nil => cases hx
      | cons y L'' => rw [List.getLast?_cons_cons]; exact hx

theorem LabA.push {r : State} {top : Nat} : ∀ (ds : List Nat) (L : List (Nat × Nat)) (p0 : Nat),
    LabA r ((top, p0) :: L) → (∀ d ∈ ds, LinkA r top d) → LabA r (ds.map (fun d => (d, top)) ++ (top, p0) :: L)
  | [], _, _, h, _ => h
  | [d], L, p0, h, hl => ⟨hl d (by simp), .inl rfl, h⟩
  | d :: d' :: ds, L, p0, h, hl => by
    have ih := LabA.push (d' :: ds) L p0 h (fun x hx => hl x (List.mem_cons_of_mem _ hx))
    exact ⟨hl d (by simp), .inr rfl, ih⟩

theorem getLast?_append_cons {α : Type} (l1 : List α) (a : α) (l2 : List α) :
    (l1 ++ a :: l2).getLast? = (a :: l2).getLast? := by
  rw [List.getLast?_append]
  cases h : (a :: l2).getLast? with
  | none => simp at h
  | some x => rfl

theorem laba_push {s r : State} (lb : Lib s) {top : Nat} {stk : List Nat} (hp : Hp (O top) s r)
    (hst : s.stack = top :: stk) (ds : List Nat) (hne : ds ≠ []) (hl : ∀ d ∈ ds, LinkA r top d)
    (st : r.stack = ds ++ s.stack)
    (he : ∀ p u, s.stack.head? ≠ some p → edgeIn s.ctl p u → edgeIn r.ctl p u) (hc : r.ctl = s.ctl)
    (h : LabIA s) : LabIA r := by
  obtain ⟨L, hL, hlab, hh, hbo⟩ := h
  have hX' : ∀ p, O top p → s.stack.head? = some p := fun p hx => by rw [hx, hst]; rfl
  have hlabr : LabA r L := LabA.transfer_top lb.hinv lb.chain hp hlab hL hX' he
  cases L with
  | nil => rw [hst] at hL; cases hL
  | cons x L' =>
    obtain ⟨a, pa⟩ := x
    have hL0 := hL
    rw [hst] at hL
    simp only [List.map_cons, List.cons.injEq] at hL
    obtain ⟨rfl, hL'⟩ := hL
    refine ⟨ds.map (fun d => (d, a)) ++ (a, pa) :: L', ?_, LabA.push ds L' pa hlabr hl, ?_, ?_⟩
    · rw [st, ← hL0, List.map_append, map_fst_pair]
    · intro o hk ha hc'
      right
      by_cases ho : o = a
      · subst ho
        cases ds with
        | nil => exact absurd rfl hne
        | cons d ds => simp
      · obtain ⟨h1, h2, h3⟩ := heads_back hp hk ha hc' ho
        rcases hh o h1 h2 h3 with h4 | h4
        · rw [hst] at h4; simp at h4; exact absurd h4.symm ho
        · simp only [List.map_append, List.mem_append]
          exact .inr h4
    · intro x hx
      rw [getLast?_append_cons] at hx
      rw [hc]; exact hbo x hx


/-! ### the first visit of a blocked task resumes its contexts -/

theorem visit_active (s : State) (lb : Lib s) (hg : (step s).guardFired = false) {root base : Nat} {rest : List Ctl}
    {top : Nat} {stk : List Nat} (hctl : s.ctl = .waitLoop root base :: rest) (hst : s.stack = top :: stk)
    (hk : (s.fut top).kind = .task) (hgrow : s.stack.length < (step s).stack.length) :
    ((step s).task top).ctxActive = true := by
  have ht : top < s.futs.length := lt_of_kind_task s top hk
  cases P7.step_cases s lb.items lb.raising with
  | neutral q hst' _ => rw [hst'] at hgrow; omega
  | top f hc e => rw [hc] at hctl; cases hctl
  | enterLoop root' rest' hc _ _ _ _ => rw [hc] at hctl; cases hctl
  | pop _ _ _ top' stk' _ hst1 _ _ _ hst' _ =>
    rw [hst', hst1] at hgrow; simp at hgrow; omega
  | suspend _ _ _ t stk' _ hst1 _ _ _ _ e =>
    rw [e] at hgrow
    have : (State.popStack ((s.updTask t fun ts => { ts with depsSched := false }).pauseContexts t)).stack =
        s.stack.tail := by
      show (State.pauseContexts _ t).stack.tail = _
      rw [(same_pauseContexts _ t).stack]; rfl
    rw [this, hst1] at hgrow; simp at hgrow; omega
  | visit _ _ _ t stk' _ hst1 _ _ _ _ ds _ e =>
    have htt : t = top := by rw [hst1] at hst; simp at hst; exact hst.1
    subst htt
    rw [e]
    have fl := flip_resume' (s.updTask t fun ts => { ts with depsSched := true }) t (na_of_ctxs rfl lb.na)
      (by simpa using ht)
    exact fl.act
  | enterGen _ _ _ t stk' _ hst1 _ _ _ e =>
    rw [e] at hgrow
    have : (s.resumeContexts t).stack = s.stack := (same_resumeContexts s t).stack
    simp only [this] at hgrow
    omega
  | gen t old rest' hc _ _ _ => rw [hc] at hctl; cases hctl
  | guard h => rw [h] at hg; cases hg


/-! ### one step (cf. `P12.J_step`) -/

theorem bottomRoot_single (w : Ctl) : bottomRoot [w] = P13.rootOf w := rfl

theorem bottomRoot_rehead (w w' : Ctl) (rest : List Ctl) (h : P13.rootOf w' = P13.rootOf w) :
    bottomRoot (w' :: rest) = bottomRoot (w :: rest) := by
  cases rest with
  | nil => rw [bottomRoot_single, bottomRoot_single, h]
  | cons x rest => rw [bottomRoot_cons _ (List.cons_ne_nil _ _), bottomRoot_cons _ (List.cons_ne_nil _ _)]

theorem mem_gensOf_head (t : Nat) (old : Option Nat) (rest : List Ctl) : (t, old) ∈ Inv.gensOf (.gen t old :: rest) := by
  simp [Inv.gensOf]

theorem mem_gensOf_cons (x : Ctl) {t : Nat} {old : Option Nat} {rest : List Ctl} (h : (t, old) ∈ Inv.gensOf rest) :
    (t, old) ∈ Inv.gensOf (x :: rest) := by
  cases x <;> simp [Inv.gensOf] at h ⊢ <;> first | exact h | exact .inr h

theorem LabIA_step (s : State) (lb : Lib s) (j : J s) (h : LabIA s)
    (hga : ∀ t old, (t, old) ∈ Inv.gensOf s.ctl → (s.task t).ctxActive = true)
    (hg : (step s).guardFired = false) : LabIA (step s) := by
  have hgk : ∀ t old rest, s.ctl = .gen t old :: rest → t < s.futs.length := fun t old rest hc =>
    lt_of_kind_task s t (lb.genKind t (by rw [hc]; simp [P2.gens]))
  have hid : ∀ p u, s.stack.head? ≠ some p → edgeIn s.ctl p u → edgeIn s.ctl p u := fun _ _ _ h => h
  cases step_sc s lb.na lb.items lb.raising hgk with
  | same hp c st =>
    exact laba_keep lb hp (fun _ h => h.elim) st (by rw [c]; exact hid) (fun _ => by rw [c]) h
  | top f hc hp c st =>
    refine laba_keep lb hp (fun _ h => h.elim) st ?_ ?_ h
    · intro p u _ h'; rw [hc] at h'; exact absurd h' edgeIn_nil
    · intro hne
      have hd := lb.disc
      rw [hc] at hd
      exact absurd hd hne
  | popEnter root rest hc hp c st =>
    refine laba_keep lb hp (fun _ h => h.elim) st ?_ ?_ h
    · rw [c]; exact edge_pop hc lb.disc (.inl ⟨root, rfl⟩)
    · intro hne
      have hd := lb.disc
      rw [hc] at hd
      rw [c, hc, bottomRoot_cons _ (rest_ne_of_disc_enter hd hne)]
  | popLoop root base rest hc hlen hp c st =>
    refine laba_keep lb hp (fun _ h => h.elim) st ?_ ?_ h
    · rw [c]; exact edge_pop hc lb.disc (.inr ⟨root, base, rfl, hlen⟩)
    · intro hne
      have hd := lb.disc
      rw [hc] at hd
      rw [c, hc, bottomRoot_cons _ (rest_ne_of_disc_loop hd hlen hne)]
  | enterLoop root rest hc hp c st =>
    have he : ∀ p u, edgeIn s.ctl p u → edgeIn (step s).ctl p u := by
      intro p u h'
      rw [hc] at h'; rw [c]
      exact edgeIn_rehead h' (isWait_enter_loop root _)
    obtain ⟨L, hL, hlab, hh, hbo⟩ := h
    have hlabr : LabA (step s) L :=
      LabA.transfer_top lb.hinv lb.chain hp hlab hL (fun _ h => h.elim) (fun p u _ h => he p u h)
    have hd := lb.disc
    rw [hc] at hd
    rcases hd.1 with hnil | ⟨t, old, rest', hrest⟩
    · -- the outermost `wait_for`
      rw [hnil] at hd
      have hstk : s.stack = [] := hd.2
      refine ⟨[(root, root)], by rw [st, hstk]; rfl, rfl, ?_, ?_⟩
      · intro o hk ha hc'
        obtain ⟨h1, h2, h3⟩ := heads_back hp hk ha hc' (fun h => h)
        rcases hh o h1 h2 h3 with h4 | h4
        · rw [hstk] at h4; cases h4
        · have : L = [] := by
            cases L with
            | nil => rfl
            | cons x L => rw [hstk] at hL; cases hL
          rw [this] at h4; cases h4
      · intro x hx
        simp only [List.getLast?_singleton, Option.some.injEq] at hx
        subst hx
        rw [c, hnil]; rfl
    · -- a nested `wait_for`, called from the generator of `t`, the top of the stack
      rw [hrest] at hd
      have hhead : s.stack.head? = some t := disc_gen_head hd.2
      cases L with
      | nil => rw [← hL] at hhead; cases hhead
      | cons x L' =>
        obtain ⟨a, pa⟩ := x
        have hat : a = t := by rw [← hL] at hhead; simpa using hhead
        subst hat
        have hedge : edgeIn s.ctl a root := by rw [hc, hrest]; exact edgeIn_head old rest' (isWait_enter root)
        have hl : Link s a root := ⟨(j.sync a root hedge).1, .inr (j.sync a root hedge).2⟩
        have hact : (s.task a).ctxActive = true :=
          hga a old (by rw [hc, hrest]; exact mem_gensOf_cons _ (mem_gensOf_head a old rest'))
        have hlr : LinkA (step s) a root := LinkA.transfer hp (fun h => h) (he a root) ⟨hl, hact⟩
        refine ⟨(root, a) :: (a, pa) :: L', by rw [st, ← hL]; rfl, ⟨hlr, .inl rfl, hlabr⟩, ?_, ?_⟩
        · intro o hk ha hc'
          obtain ⟨h1, h2, h3⟩ := heads_back hp hk ha hc' (fun h => h)
          right
          rcases hh o h1 h2 h3 with h4 | h4
          · rw [hhead] at h4
            simp only [Option.some.injEq] at h4
            simp [h4]
          · simp only [List.map_cons, List.mem_cons] at h4 ⊢
            exact .inr h4
        · intro x hx
          rw [List.getLast?_cons_cons] at hx
          have := hbo x hx
          rw [c, bottomRoot_cons _ (by rw [hrest]; exact List.cons_ne_nil _ _)]
          rw [hc, bottomRoot_cons _ (by rw [hrest]; exact List.cons_ne_nil _ _)] at this
          exact this
  | flush root base rest hc hlen hp c st =>
    refine laba_keep lb hp (fun _ h => h.elim) st ?_ ?_ h
    · intro p u _ h'
      rw [hc] at h'; rw [c]
      exact edgeIn_rehead h' (isWait_loop_enter root base)
    · intro _
      rw [c, hc]
      exact bottomRoot_rehead _ _ _ rfl
  | pop root base rest top stk hc hst hlen hno hp c st =>
    refine laba_pop lb hp hst (fun _ h => h.elim) st (by rw [c]; exact hid) ?_ c h
    rintro ⟨h1, h2, h3⟩
    rcases hno with h' | h'
    · rw [hp.comp top h'] at h3; cases h3
    · rcases Nat.lt_or_ge top s.futs.length with hl | hl
      · rw [hp.kind top hl] at h1; exact h' h1
      · have := (hp.fresh top hl h1).2
        rw [h2] at this; cases this
  | suspend root base rest top stk hc hst hlen hk hp hact hpend c st =>
    refine laba_pop lb hp hst (fun _ h => h) st (by rw [c]; exact hid) ?_ c h
    rintro ⟨_, h2, _⟩
    rw [hact] at h2; cases h2
  | visit root base rest top stk hc hst hlen hk hnc ds hne hds hp hpend hdeps hcomp c st =>
    have hnin := lb.notIn root base rest top stk hc hlen hst
    have hpt : (s.task top).pending = true := j.pend top hk hnc hnin
    have hgrow : s.stack.length < (step s).stack.length := by
      rw [st, List.length_append]
      have : 0 < ds.length := List.length_pos_iff.2 hne
      omega
    have hactr := visit_active s lb hg hc hst hk hgrow
    refine laba_push lb hp hst ds hne ?_ st (by rw [c]; exact hid) c h
    intro d hd
    refine ⟨⟨by rw [hp.kind top (lt_of_kind_task s top hk)]; exact hk, .inl ⟨hcomp, by rw [hpend]; exact hpt, ?_⟩⟩, hactr⟩
    rw [hdeps]; exact hds d hd
  | enterGen root base rest top stk old hc hst hlen hk hnc hp c st =>
    refine laba_keep lb hp (fun p hx => by rw [hx, hst]; rfl) st ?_ ?_ h
    · intro p u _ h'; rw [c]; exact edgeIn_cons _ h'
    · intro _
      rw [c, bottomRoot_cons _ (by rw [hc]; exact List.cons_ne_nil _ _)]
  | gen t old rest hc g =>
    have hd := lb.disc
    rw [hc] at hd
    have hhead : s.stack.head? = some t := disc_gen_head hd
    have hX : ∀ p, O t p → s.stack.head? = some p := fun p hx => by rw [hx]; exact hhead
    cases g with
    | stay hp c st =>
      exact laba_keep lb hp hX st (by rw [c]; exact hid) (fun _ => by rw [c]) h
    | leave hp c st h' =>
      have hc' : (step s).ctl = rest := by rw [c, hc]; rfl
      refine laba_keep lb hp hX st ?_ ?_ h
      · intro p u _ h''
        rw [hc'] ; rw [hc] at h''
        rcases edgeIn_cons_inv h'' with h'' | ⟨hw, _⟩
        · exact h''
        · exact absurd hw isWait_not_gen
      · intro _
        rw [hc', hc, bottomRoot_cons _ (rest_ne_of_disc_gen hd)]
    | call f hp c st hb hpnd =>
      refine laba_keep lb hp hX st (by intro p u _ h'; rw [c]; exact edgeIn_cons _ h') ?_ h
      intro _
      rw [c, bottomRoot_cons _ (by rw [hc]; exact List.cons_ne_nil _ _)]
  | guard h' => rw [h'] at hg; cases hg

theorem LabIA_init (cfg : Cfg) (tops : List (Conv × Body)) (choices : List (Nat × Nat)) :
    LabIA (initState cfg tops choices) := by
  refine ⟨[], rfl, trivial, ?_, ?_⟩
  · intro o hk
    rw [fut_default _ o (Nat.zero_le _)] at hk; cases hk
  · intro x hx; cases hx

theorem LabIA_reach {s : State} (h : P10.WSReach s) (hg : s.guardFired = false) (hna : NA s) : LabIA s := by
  induction h with
  | init cfg tops choices _ => exact LabIA_init cfg tops choices
  | @step s hs ih =>
    have hg0 := P3.guard_mono s hg
    have hna0 := na_back s hs.reach hna
    refine LabIA_step s (lib_of_ws hs hg0 hna0) (J_reach hs hg0 hna0) (ih hg0 hna0) ?_ hg
    intro t old hm
    exact ((I_reach hs.reach).g.gens t old hm).2.1

end AsynqModel.Core.P17
