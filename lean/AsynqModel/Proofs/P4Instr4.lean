import AsynqModel.Proofs.P4Instr3
/-! P4: synchronous calls (`sync`, `syncfut`) and the end of a task (`finishTask`) -/
namespace AsynqModel.Core.P4
open AsynqModel.Core

/-- the running (not suspended) task starts waiting synchronously for `r` -/
theorem good_pushWait {s : State} (G : Good s) {t : Nat} {old : Option Nat} {rest : List Ctl}
    (hctl : s.ctl = .gen t old :: rest) (hnp : (s.fut t).ts.pending = false) (r : Nat) :
    Good { s with ctl := .waitEnter r :: s.ctl } := by
  refine ⟨G.fi.comp (Comp.ofEq rfl rfl rfl), ?_, G.tops⟩
  exact G.ci.selfRun (s' := { s with ctl := .waitEnter r :: s.ctl }) hctl (.inr ⟨r, rfl⟩) G.ci.raising
    (taskPres_of_futs rfl) hnp

/-- `child.asynq(..).value()` inside a step: the new task is created, the caller waits for it -/
theorem good_sync {s : State} (G : Good s) {t : Nat} {old : Option Nat} {rest : List Ctl}
    (hctl : s.ctl = .gen t old :: rest) (hnp : (s.fut t).ts.pending = false) (child : Body) (pass : List Ref) (k h : Body)
    (hb : (s.fut t).ts.body = .sync child pass k h) (e : Event) :
    Good { ((s.newTask child (pass.map (s.fut t).ts.resolve)).1.updTask t fun ts =>
        { ts with own := ts.own ++ [s.futs.length], body := .syncret s.futs.length k h }).emit e with
      ctl := .waitEnter s.futs.length :: s.ctl } := by
  obtain ⟨hk, ho, hlt⟩ := G.top hctl
  have hns : ∀ g k' b', (s.fut t).ts.body ≠ .syncret g k' b' := by rw [hb]; intro _ _ _; nofun
  have hw := G.fi.wsc t ho
  rw [wsTask_plain _ hns, hb] at hw
  simp only [ws, Bool.and_eq_true] at hw
  obtain ⟨⟨⟨hpass, hchild⟩, hwk⟩, hwh⟩ := hw
  have hinh : ∀ i ∈ pass.map (s.fut t).ts.resolve, i < s.futs.length := by
    intro i hi
    obtain ⟨r, hr, rfl⟩ := List.mem_map.1 hi
    exact resolve_lt G.fi t r (List.all_eq_true.1 hpass r hr)
  have F1 := G.fi.allocTask child (pass.map (s.fut t).ts.resolve) hinh (by rw [List.length_map]; exact hchild)
  generalize hs1 : (s.newTask child (pass.map (s.fut t).ts.resolve)).1 = s1 at F1
  have hfut : ∀ f, f < s.futs.length → s1.fut f = s.fut f := by
    intro f hf; rw [← hs1, newTask_eq]; exact fut_alloc_lt _ _ _ _ hf
  have hden1 : (s1.fut s.futs.length).den =
      (evalBody s.cfg child [] [] (Inv.dens s (pass.map (s.fut t).ts.resolve)) none .none).outcome := by
    rw [← hs1]; exact newTask_den _ _ _
  have hlen : s1.futs.length = s.futs.length + 1 := by rw [← hs1, newTask_eq]; simp
  have hcfg : s1.cfg = s.cfg := by rw [← hs1]; rfl
  have hctl1 : s1.ctl = s.ctl := by rw [← hs1]; rfl
  have hr1 : s1.raising = s.raising := by rw [← hs1]; rfl
  have htops1 : s1.tops = s.tops := by rw [← hs1]; rfl
  have tp : TaskPres s s1 := by rw [← hs1, newTask_eq]; exact taskPres_alloc _ _ _
  have hdens : ∀ l, (∀ i ∈ l, i < s.futs.length) → Inv.dens s1 l = Inv.dens s l := by
    intro l hl
    simp only [Inv.dens]
    exact List.map_congr_left fun i hi => by rw [hfut i (hl i hi)]
  have hlt1 : t < s1.futs.length := by omega
  have hft := hfut t hlt
  have F2 : FI (s1.updTask t fun ts => { ts with own := ts.own ++ [s.futs.length], body := .syncret s.futs.length k h }) := by
    apply F1.updSelf t _ hlt1
    · intro i hi
      rw [hft] at hi
      simp only [List.mem_append, List.mem_singleton] at hi
      rcases hi with hi | rfl
      · have := G.fi.ownLt t i hi; omega
      · omega
    · intro i hi; rw [hft] at hi; have := G.fi.inhLt t i hi; omega
    · intro f k' b' _ hb'; simp only [Body.syncret.injEq] at hb'; omega
    · intro _
      rw [hft]
      simp only [wsTask, List.length_append, List.length_singleton, Bool.and_eq_true]
      exact ⟨hwk, hwh⟩
    · intro _ _
      rw [hft, hcfg, ← G.fi.taskOK t hk ho, taskDen_eq, tden_plain _ _ _ _ _ hns, hb]
      unfold tden
      simp only [hden1, Inv.dens, List.map_append, List.map_cons, List.map_nil]
      have hd := hdens
      simp only [Inv.dens] at hd
      rw [hd _ (G.fi.ownLt t), hd _ (G.fi.inhLt t)]
      have hp := pass_dens s (s.fut t).ts pass hpass
      simp only [Inv.dens] at hp
      rw [hp]
      simp only [evalBody]
      split <;> simp_all
    · intro r hr
      rw [hft] at hr ⊢
      exact refOK_mono (by simp) r (G.fi.prevScoped t r hr)
    · rw [hft]
      simp only
      rw [G.fi.prevEq t]
      apply mapLeaves_congr
      intro r hr
      exact (resolve_append _ [s.futs.length] r (G.fi.prevScoped t r hr)).symm
    · intro _ hp; rw [hft] at hp; simp only [hnp] at hp; cases hp
    · intro _ _ _ _ hp; rw [hft] at hp; simp only [hnp] at hp; cases hp
    · intro hp; rw [hft] at hp; simp only [hnp] at hp; cases hp
  subst hs1
  have GX : Good (((s.newTask child (pass.map (s.fut t).ts.resolve)).1.updTask t fun ts =>
      { ts with own := ts.own ++ [s.futs.length], body := .syncret s.futs.length k h }).emit e) := by
    apply good_emit
    refine ⟨F2, ?_, G.tops⟩
    refine G.ci.selfRun hctl (.inl rfl) G.ci.raising (tp.trans (taskPres_updTask _ _ _ (fun h => h))) ?_
    rw [fut_updTask_self _ _ _ hlt1, hft]; exact hnp
  refine good_pushWait GX (t := t) (old := old) (rest := rest) hctl ?_ s.futs.length
  rw [fut_emit, fut_updTask_self _ _ _ hlt1, hft]; exact hnp

/-- `r.value()` inside a step, first half: the task remembers which future it is waiting for -/
theorem good_syncfut {s : State} (G : Good s) {t : Nat} {old : Option Nat} {rest : List Ctl}
    (hctl : s.ctl = .gen t old :: rest) (hnp : (s.fut t).ts.pending = false) (r : Ref) (k h : Body)
    (hb : (s.fut t).ts.body = .syncfut r k h) (e : Event) :
    Good ((s.updTask t fun ts => { ts with body := .syncret ((s.fut t).ts.resolve r) k h }).emit e) := by
  obtain ⟨hk, ho, hlt⟩ := G.top hctl
  have hns : ∀ g k' b', (s.fut t).ts.body ≠ .syncret g k' b' := by rw [hb]; intro _ _ _; nofun
  have hw : wsTask (s.fut t).ts = true →
      (refOK (s.fut t).ts.own.length (s.fut t).ts.inh.length r = true ∧
      ws k (s.fut t).ts.own.length (s.fut t).ts.inh.length (contsK (s.fut t).ts.inh.length (s.fut t).ts.conts) = true) ∧
      ws h (s.fut t).ts.own.length (s.fut t).ts.inh.length (contsK (s.fut t).ts.inh.length (s.fut t).ts.conts) = true := by
    intro hw; rw [wsTask_plain _ hns, hb] at hw; simpa [ws] using hw
  apply good_emit
  apply good_selfUpd G hctl
  · exact ⟨rfl, rfl, hnp, rfl, rfl⟩
  · intro hw' f k' b' hb'
    simp only [Body.syncret.injEq] at hb'
    rw [← hb'.1]
    exact resolve_lt G.fi t r (hw hw').1.1
  · intro hw'
    simp only [wsTask, Bool.and_eq_true]
    exact ⟨(hw hw').1.2, (hw hw').2⟩
  · intro hw'
    rw [tden_plain _ _ _ _ _ hns, hb]
    unfold tden
    have := resolveO_dens s (s.fut t).ts r (hw hw').1.1
    simp only [evalBody, this, Option.getD_some]
    split <;> simp_all

/-- `r.value()` inside a step, second half: what `value()` does with a future that is not computed yet -/
theorem good_syncWait {s : State} (G : Good s) {t : Nat} {old : Option Nat} {rest : List Ctl}
    (hctl : s.ctl = .gen t old :: rest) (hnp : (s.fut t).ts.pending = false) (f : Nat) :
    Good (if s.computed f then s else
      match (s.fut f).kind with
      | .task => { s with ctl := .waitEnter f :: s.ctl }
      | .item kind seq _ _ =>
        match s.batch? kind seq with
        | some b => if b.flushed then s else s.flushBatch kind seq
        | none => s
      | .lazy o => s.complete f (lazyOutcome o)
      | _ => s) := by
  split
  · exact G
  · rename_i hc
    have hn : (s.fut f).out = none := by simpa [State.computed, State.out] using hc
    split
    · exact good_pushWait G hctl hnp f
    · rename_i kind seq p m hk
      split
      · rename_i b hb
        split
        · exact G
        · exact good_quiet G (quiet_flushBatch s G.fi kind seq b hb)
      · exact G
    · rename_i o hk
      have hlt : f < s.futs.length := lt_of_kind s f (by rw [hk]; nofun)
      exact good_quiet G (quiet_complete s f _ hn hlt (G.fi.lazyDen f o hk).symm (by rw [hk]; nofun))
    · exact G

/-- the task finishes with its denotation: a completion move followed by leaving the generator frame -/
theorem good_finishTask {s : State} (G : Good s) {t : Nat} {old : Option Nat} {rest : List Ctl}
    (hctl : s.ctl = .gen t old :: rest) (o : Outcome) (hden : o = (s.fut t).den) :
    Good ((((s.exitAll t).updTask t fun ts => { ts with pending := false }).complete t o).leaveGen t old) := by
  obtain ⟨hk, ho, hlt⟩ := G.top hctl
  unfold State.exitAll
  simp only
  have q1 := still_exitFold s (s.task t).conts
  generalize (s.task t).conts.foldl (fun s p => s.ctxExit p.1) s = s1 at q1
  have G1 := good_still G q1
  have hlt1 : t < s1.futs.length := by rw [q1.1.comp.len]; exact hlt
  have ho1 : (s1.fut t).out = none := by rw [q1.2 t]; exact ho
  have hden1 : o = (s1.fut t).den := by rw [(q1.1.comp.fut t).den]; exact hden
  have hctl1 : s1.ctl = .gen t old :: rest := q1.1.ctl.trans hctl
  have hF : ∀ f, CompF (s1.fut f)
      (((((s1.updTask t fun ts => { ts with conts := [] }).updTask t fun ts => { ts with pending := false }).complete t
        o).leaveGen t old).fut f) := by
    intro f
    by_cases hf : f = t
    · subst hf
      rw [fut_leaveGen]
      simp only [fut_updTask, fut_complete, futs_len_updTask, futs_len_complete, hlt1, and_self, if_true, cfg_updTask]
      cases hkd : s1.cfg.keepDeps <;> simp only [↓reduceIte, Bool.false_eq_true] <;>
        exact ⟨rfl, rfl, rfl, rfl, rfl, rfl, rfl, rfl, rfl, .inr ⟨ho1, by rw [hden1], rfl, rfl, .inl rfl⟩⟩
    · rw [fut_leaveGen_ne _ _ _ _ hf, fut_complete]
      simp only [hf, false_and, if_false, fut_updTask_ne _ _ _ _ hf]
      exact CompF.refl _
  have hC : Comp s1 ((((s1.updTask t fun ts => { ts with conts := [] }).updTask t
      fun ts => { ts with pending := false }).complete t o).leaveGen t old) := by
    refine ⟨rfl, ?_, hF, fun b hb i hi => ⟨b, hb, rfl, hi⟩⟩
    simp
  refine ⟨G1.fi.comp hC, ?_, ?_⟩
  · have hd := G1.ci.distinct
    rw [hctl1] at hd
    simp only [Inv.gensOf, List.filterMap_cons, List.map_cons, List.nodup_cons] at hd
    apply G1.ci.pop
    · show (State.complete _ t o).ctl.tail = s1.ctl.tail
      rfl
    · show (State.complete _ t o).raising = none
      exact G1.ci.raising
    · intro c rest' hcr p hp
      rw [hctl1] at hcr; cases hcr
      have hne : p.1 ≠ t := by
        intro heq; apply hd.1; rw [← heq]; exact List.mem_map_of_mem (f := (·.1)) hp
      have hm : p ∈ Inv.gensOf s1.ctl := by rw [hctl1]; exact gensOf_tail_sub _ _ p hp
      have := hF p.1
      rw [fut_leaveGen_ne _ _ _ _ hne, fut_complete] at this ⊢
      simp only [hne, false_and, if_false, fut_updTask_ne _ _ _ _ hne] at this ⊢
      exact ⟨G1.ci.genTask p hm, G1.ci.genOut p hm, G1.ci.bnp _ _ hctl1 p hp⟩
  · exact G1.tops

end AsynqModel.Core.P4
