import AsynqModel.Proofs.P19GenB
/-
  P19, part 13: the prediction invariant and the steps of a task body, part C: the `loc` shape of `P6.GenDesc`
  (first step, resume, context instructions, `read`, `active`).
-/
namespace AsynqModel.Core.P19
open AsynqModel.Core AsynqModel.Core.P6

theorem E_loc {k0 : Nat} {s r : State} {t root R : Nat} {old : Option Nat} (C : GenCtx k0 s r t root)
    (hr : r = s.genStep t old) (hFI : P4.FI s)
    (hdepsC : ∀ d ∈ (view s t).deps, s.computed d = true)
    (v' : FV) (hu : Upd1 s r t v')
    (hkind : v'.kind = (view s t).kind) (hout : v'.out = (view s t).out)
    (hown : v'.own = (view s t).own) (hinh : v'.inh = (view s t).inh) (hprev : v'.prevY = (view s t).prevY)
    (hpend : v'.pending = false)
    (hstart : v'.started = true ∨ ((view s t).pending = false ∧ v'.started = (view s t).started))
    (hbs : BodyStep (view s t) v') (hE : E s root R) : E r root R := by
  have hvT : view r t = v' := hu.viewT
  have hvo : ∀ x, x ≠ t → view r x = view s x := hu.viewO
  have rk : (view r t).kind = .task := by rw [hvT, hkind]; exact C.kind
  have ro : (view r t).out = none := by rw [hvT, hout]; exact C.out
  have rown : (view r t).own = (view s t).own := by rw [hvT]; exact hown
  have rinh : (view r t).inh = (view s t).inh := by rw [hvT]; exact hinh
  have rprev : (view r t).prevY = (view s t).prevY := by rw [hvT]; exact hprev
  have rp : (view r t).pending = false := by rw [hvT]; exact hpend
  have rs : (view r t).started = true := by
    rw [hvT]
    rcases hstart with h | ⟨h1, h2⟩
    · exact h
    · rw [h2]; exact C.hA.sOfR t h1
  have V : LocStep s r t := ⟨rk, ro, rs, rp, rown, rinh, rprev⟩
  cases hp : (view s t).pending with
  | true =>
    have hp' : (s.task t).pending = true := hp
    cases hst : (view s t).started with
    | false =>
      -- the first step
      have hst' : (s.task t).started = false := hst
      obtain ⟨b1, b2⟩ := genStep_start s t old C.lt hp' hst'
      rw [← hr] at b1 b2
      rcases hE with ⟨hc, hn⟩ | ⟨hc, fin, hfr, hloc⟩
      · left
        refine ⟨?_, C.hx.fcount.trans hn⟩
        by_cases hrt : root = t
        · rw [hrt] at hc
          have := uncomputed_of_out_none C.out
          rw [hc] at this; cases this
        · rw [computed_of_view (hvo root hrt)]; exact hc
      · exact E_start C hp hst hvo hu.len rk ro rs rp rown rprev b1 b2 hc fin hfr hloc
    | true =>
      have hst' : (s.task t).started = true := hst
      have hl : Live s t := ⟨C.kind, C.out, hst⟩
      have hcomp : ∀ d ∈ (view s t).prevY.leaves, s.computed d = true :=
        fun d hd => hdepsC d (C.hV.lv t hl hp d hd)
      have hshape := C.hV.pendShape t hl hp
      have hconts : (view r t).conts = (view s t).conts := by
        have := genStep_resume_conts s t old C.lt hp' hst' hshape
        rw [← hr] at this; exact this
      refine E_local C hl hvo hu.len V hdepsC ?_ hE
      intro n tbl outs pv hyld hall houts hpv
      rcases hshape with ⟨y, k, h, hb⟩ | ⟨k, h, hb⟩
      · have hbody : (view r t).body = branch s t k h := by
          have := genStep_resume_yld s t old C.lt hp' hst' y k h hb
          rw [← hr] at this; exact this
        have hpvy : pv = y := hyld y k h hp hb
        subst hpvy
        rw [hbody, hconts, hb, branch_eq hFI hpv hl hp hcomp k h, ← houts]
        rw [pr_resume s.cfg pv k h (view s t).conts n tbl outs pv (fun i hi x hx => hall i hi hp x hx)]
        cases unwrap (resolveO outs []) pv <;> rfl
      · have hbody : (view r t).body = branch s t k h := by
          have := genStep_resume_reyld s t old C.lt hp' hst' k h hb
          rw [← hr] at this; exact this
        rw [hbody, hconts, hb, branch_eq hFI hpv hl hp hcomp k h, ← houts, pr_reyld]
        cases unwrap (resolveO outs []) pv <;> rfl
  | false =>
    have hp' : (s.task t).pending = false := hp
    have hst : (view s t).started = true := C.hA.sOfR t hp
    have hl : Live s t := ⟨C.kind, C.out, hst⟩
    have notY : ¬ ((∃ y k h, (s.task t).body = .yld y k h) ∨ ∃ k h, (s.task t).body = .reyld k h) := by
      intro hb
      have := genStep_yield_pending s t old C.lt hp' hb
      rw [← hr] at this
      have h2 : (view r t).pending = true := this
      rw [rp] at h2; cases h2
    refine E_local C hl hvo hu.len V hdepsC ?_ hE
    intro n tbl outs pv _ _ _ _
    rw [hvT]
    cases hbs with
    | same hb hc => rw [hb, hc]
    | yld y k h hb _ _ => exact absurd (Or.inl ⟨y, k, h, hb⟩) notY
    | reyld k h hb _ _ => exact absurd (Or.inr ⟨k, h, hb⟩) notY
    | withCtx c b k cid hb hb' hc => rw [hb, hb', hc]; exact (pr_withCtx _ c b k cid _ n tbl outs pv).symm
    | endwith cid k rest hb hc0 hb' hc => rw [hb, hc0, hb', hc]; exact (pr_endwith _ cid k rest n tbl outs pv).symm
    | read var k hb hb' hc => rw [hb, hb', hc]; exact (pr_read _ var k _ n tbl outs pv).symm
    | active k hb hb' hc => rw [hb, hb', hc]; exact (pr_active _ k _ n tbl outs pv).symm

end AsynqModel.Core.P19
