import AsynqModel.Proofs.P9Gen
/-
  P9 (property C20), part 7: one `step` under `P`: lock-step except at a `Stutter`, where the run with
  KEEP_DEPENDENCIES takes two steps (leave the generator, re-enter it) for one.
-/
namespace AsynqModel.Core.P9
open AsynqModel.Core

/-! ### `step`, case by case -/

def topStart (s : State) (conv : Conv) (body : Body) (rest : List (Conv × Body)) : State :=
  let s1 := ({ s with tops := rest, topIdx := s.topIdx + 1 } : State).emit (.top s.topIdx conv)
  { (s1.newTask body []).1 with curTop := some (s1.newTask body []).2, ctl := [.waitEnter (s1.newTask body []).2] }

def weCore (s : State) (root : Nat) (r : Option Err) (comp : Bool) : State :=
  if r.isSome then s.raiseOutOfWait (r.getD .other)
  else if comp then s.returnFromWait
  else { s with ctl := .waitLoop root s.stack.length :: s.ctl.tail, stack := root :: s.stack }

def wlCore (s : State) (root : Nat) (r : Option Err) (above comp : Bool) : State :=
  if r.isSome then s.raiseOutOfWait (r.getD .other)
  else if above then s.executeIter
  else if comp then s.returnFromWait
  else s.schedulerFlush root

def genCore (s : State) (t : Nat) (old : Option Nat) (bad : Bool) : State :=
  if bad then s.fail "exception reached a generator that is not in a synchronous call" else s.genStep t old

def genBad (s : State) (t : Nat) : Bool :=
  s.raising.isSome && !(match (s.task t).body with | .syncret _ _ _ => !(s.task t).pending | _ => false)

theorem step_stuck (s : State) (h : s.stuck.isSome = true) : step s = s := by
  unfold step; rw [if_pos h]

theorem step_nil_top (s : State) (f : Nat) (hs : s.stuck = none) (hctl : s.ctl = []) (hc : s.curTop = some f) :
    step s = s.finishTop f := by
  unfold step; simp [hs, hctl, hc]

theorem step_nil_done (s : State) (hs : s.stuck = none) (hctl : s.ctl = []) (hc : s.curTop = none)
    (ht : s.tops = []) : step s = s := by
  unfold step; simp [hs, hctl, hc, ht]

theorem step_nil_start (s : State) (conv body rest) (hs : s.stuck = none) (hctl : s.ctl = []) (hc : s.curTop = none)
    (ht : s.tops = (conv, body) :: rest) : step s = topStart s conv body rest := by
  unfold step topStart; simp [hs, hctl, hc, ht]

theorem step_waitEnter (s : State) (root rest) (hs : s.stuck = none) (hctl : s.ctl = .waitEnter root :: rest) :
    step s = weCore s root s.raising (s.computed root) := by
  unfold step weCore; simp [hs, hctl]

theorem step_waitLoop (s : State) (root base rest) (hs : s.stuck = none) (hctl : s.ctl = .waitLoop root base :: rest) :
    step s = wlCore s root s.raising (decide (s.stack.length > base)) (s.computed root) := by
  unfold step wlCore; simp [hs, hctl]

theorem step_gen (s : State) (t old rest) (hs : s.stuck = none) (hctl : s.ctl = .gen t old :: rest) :
    step s = genCore s t old (genBad s t) := by
  unfold step genCore genBad
  simp only [hs, hctl, Option.isSome_none, Bool.false_eq_true, if_false]
  cases (s.task t).body <;> rfl


/-! ### the cases under `P` -/

/-- `finishTop` after the reads -/
def ftCore (x : State) (o : Outcome) : State :=
  ((x.emit (.ret o)).emit (.sched true x.stack.length x.sbatches.length x.flushable.length x.active)).emit
    (.svals ((x.sv.mergeSort fun a b => a.1 ≤ b.1).map fun p => (p.1, Val.a p.2)))

theorem finishTop_eq (s : State) (f : Nat) :
    s.finishTop f = ftCore { s with raising := none, curTop := none }
      (match s.raising with | some e => .err e | none => (s.out f).getD (.err .other)) := rfl

theorem P_ftCore (x : State) (o : Outcome) : P (ftCore x o) = P (ftCore (P x) o) := by
  have h1 : ∀ y : State, P (ftCore y o) =
      (((P y).emit (.ret o)).emit (.sched true y.stack.length 0 y.flushable.length y.active)).emit
        (.svals ((y.sv.mergeSort fun a b => a.1 ≤ b.1).map fun p => (p.1, Val.a p.2))) := fun _ => rfl
  rw [h1 x, h1 (P x), P_idem, P_flushable]
  rfl

theorem P_finishTop (s : State) (f : Nat) : P (s.finishTop f) = P ((P s).finishTop f) := by
  rw [finishTop_eq, finishTop_eq, P_ftCore]
  simp only [P_raising, P_out]
  rfl

theorem P_topStart (s : State) (conv : Conv) (body : Body) (rest : List (Conv × Body)) (hctl : s.ctl = []) :
    P (topStart s conv body rest) = topStart (P s) conv body rest := by
  unfold topStart
  simp only
  have e1 : P (({ s with tops := rest, topIdx := s.topIdx + 1 } : State).emit (.top s.topIdx conv)) =
      ({ P s with tops := rest, topIdx := (P s).topIdx + 1 } : State).emit (.top (P s).topIdx conv) := rfl
  rw [← e1]
  have hc : (({ s with tops := rest, topIdx := s.topIdx + 1 } : State).emit (.top s.topIdx conv)).ctl = [] := hctl
  generalize (({ s with tops := rest, topIdx := s.topIdx + 1 } : State).emit (.top s.topIdx conv)) = s1 at hc
  rw [← P_newTask_fst, P_newTask_snd]
  exact P_setCtl { (s1.newTask body []).1 with curTop := some (s1.newTask body []).2 } _
    (fun u => by
      show inFrame _ u = inFrame (s1.newTask body []).1.ctl u
      rw [newTask_ctl, hc]; rfl)

theorem P_raiseOut (s : State) (e : Err) (hh : ∀ t o, s.ctl.head? ≠ some (.gen t o)) :
    P (s.raiseOutOfWait e) = (P s).raiseOutOfWait e :=
  P_setCtl { s with raising := some e } _ (inFrame_tail_wait s.ctl hh)

theorem P_returnFromWait (s : State) (hh : ∀ t o, s.ctl.head? ≠ some (.gen t o)) :
    P s.returnFromWait = (P s).returnFromWait :=
  P_setCtl s _ (inFrame_tail_wait s.ctl hh)

theorem P_weCore (s : State) (root : Nat) (r : Option Err) (comp : Bool) (rest : List Ctl)
    (hctl : s.ctl = .waitEnter root :: rest) :
    P (weCore s root r comp) = weCore (P s) root r comp := by
  have hh : ∀ t o, s.ctl.head? ≠ some (.gen t o) := by rw [hctl]; intro t o h; cases h
  unfold weCore
  cases r with
  | some e =>
    simp only [Option.isSome_some, if_true]
    exact P_setCtl { s with raising := some _ } _ (inFrame_tail_wait s.ctl hh)
  | none =>
    simp only [Option.isSome_none, Bool.false_eq_true, if_false]
    cases comp with
    | true => exact P_setCtl s _ (inFrame_tail_wait s.ctl hh)
    | false =>
      simp only [Bool.false_eq_true, if_false]
      exact P_setCtl { s with stack := root :: s.stack } _ (fun u => by simp [inFrame_tail_wait s.ctl hh u])

theorem P_wlCore (s : State) (root base : Nat) (r : Option Err) (above comp : Bool) (rest : List Ctl)
    (hctl : s.ctl = .waitLoop root base :: rest) (h : ∀ top, s.stack.head? = some top → HT s top) :
    P (wlCore s root r above comp) = P (wlCore (P s) root r above comp) := by
  have hh : ∀ t o, s.ctl.head? ≠ some (.gen t o) := by rw [hctl]; intro t o h; cases h
  unfold wlCore
  cases r with
  | some e =>
    simp only [Option.isSome_some, if_true]
    rw [P_raiseOut s _ hh, P_raiseOut (P s) _ hh, P_idem]
  | none =>
    simp only [Option.isSome_none, Bool.false_eq_true, if_false]
    cases above with
    | true => exact P_executeIter s hh h
    | false =>
      simp only [Bool.false_eq_true, if_false]
      cases comp with
      | true =>
        simp only [if_true]
        rw [P_returnFromWait s hh, P_returnFromWait (P s) hh, P_idem]
      | false => exact P_schedulerFlush s root hh


/-! ### one step, lock-step case -/

structure StepOK (s : State) : Prop where
  ns : ∀ t old rest, s.ctl = .gen t old :: rest → ¬ Stutter s t
  cur : CurOK s
  ht : ∀ top, HT s top

theorem P_genBad (s : State) (t : Nat) : genBad (P s) t = genBad s t := by
  unfold genBad
  simp only [P_raising, P_task, projT_body, projT_pending]

theorem P_step (s : State) (h : StepOK s) : P (step s) = P (step (P s)) := by
  cases hst : s.stuck with
  | some m =>
    rw [step_stuck s (by simp [hst]), step_stuck (P s) (by simp [hst]), P_idem]
  | none =>
    have hst' : (P s).stuck = none := hst
    cases hctl : s.ctl with
    | nil =>
      have hctl' : (P s).ctl = [] := hctl
      cases hc : s.curTop with
      | some f =>
        rw [step_nil_top s f hst hctl hc, step_nil_top (P s) f hst' hctl' hc]
        exact P_finishTop s f
      | none =>
        cases ht : s.tops with
        | nil =>
          rw [step_nil_done s hst hctl hc ht, step_nil_done (P s) hst' hctl' hc ht, P_idem]
        | cons p rest =>
          obtain ⟨conv, body⟩ := p
          rw [step_nil_start s conv body rest hst hctl hc ht, step_nil_start (P s) conv body rest hst' hctl' hc ht,
            P_topStart s conv body rest hctl, P_topStart (P s) conv body rest hctl', P_idem]
    | cons c rest =>
      have hctl' : (P s).ctl = c :: rest := hctl
      cases c with
      | waitEnter root =>
        rw [step_waitEnter s root rest hst hctl, step_waitEnter (P s) root rest hst' hctl']
        simp only [P_raising, P_computed]
        rw [P_weCore s root _ _ rest hctl, P_weCore (P s) root _ _ rest hctl', P_idem]
      | waitLoop root base =>
        rw [step_waitLoop s root base rest hst hctl, step_waitLoop (P s) root base rest hst' hctl']
        simp only [P_raising, P_computed, P_stack]
        exact P_wlCore s root base _ _ _ rest hctl (fun top _ => h.ht top)
      | gen t old =>
        rw [step_gen s t old rest hst hctl, step_gen (P s) t old rest hst' hctl', P_genBad]
        unfold genCore
        cases genBad s t with
        | true => simp only [if_true, P_fail, P_idem]
        | false =>
          simp only [Bool.false_eq_true, if_false]
          exact P_genStep s t old old rest hctl (h.ns t old rest hctl) h.cur

end AsynqModel.Core.P9
