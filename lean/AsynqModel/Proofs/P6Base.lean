import AsynqModel.Proofs.P3Main
import AsynqModel.Core.Spec
/-
  P6 (property C04), part 1: the part of a future the C04 proof looks at (`FV`, `State.view`), how the elementary
  state updates (`setFut`, `updTask`, `emit`, `alloc`, `complete`) act on it, and the relation `Eqv s s'`:
  `s'` differs from `s` only in fields the proof never reads (trace, scoped values, context flags, the context
  lists of tasks).  Every context helper of the machine is an `Eqv` step when no NonAsyncContext exists.
-/
namespace AsynqModel.Core.P6
open AsynqModel.Core

/-- the fields of a future the proof of C04 reads -/
structure FV where
  kind : FKind
  out : Option Outcome
  body : Body
  conts : List (Nat × Body)
  started : Bool
  pending : Bool
  flag : Bool
  deps : List Nat
  own : List Nat
  inh : List Nat
  prevY : RY

def fview (x : Fut) : FV :=
  { kind := x.kind, out := x.out, body := x.ts.body, conts := x.ts.conts, started := x.ts.started,
    pending := x.ts.pending, flag := x.ts.depsSched, deps := x.ts.deps, own := x.ts.own, inh := x.ts.inh,
    prevY := x.ts.prevY }

def view (s : State) (f : Nat) : FV := fview (s.fut f)

/-- the view of a future that does not exist -/
def dview : FV := fview {}

/-! ### `fut` after the elementary updates -/

theorem fut_ge (s : State) (f : Nat) (h : s.futs.length ≤ f) : s.fut f = {} := by
  unfold State.fut
  simp [List.getD_eq_getElem?_getD, List.getElem?_eq_none h]

theorem fut_lt_of_ne (s : State) (f : Nat) (h : s.fut f ≠ {}) : f < s.futs.length := by
  refine Nat.lt_of_not_le fun hle => h (fut_ge s f hle)

theorem lt_of_task (s : State) (f : Nat) (h : (s.fut f).kind = .task) : f < s.futs.length := by
  refine Nat.lt_of_not_le fun hle => ?_
  rw [fut_ge s f hle] at h
  cases h

@[simp] theorem fut_emit (s : State) (e : Event) (f : Nat) : (s.emit e).fut f = s.fut f := rfl
@[simp] theorem futs_emit (s : State) (e : Event) : (s.emit e).futs = s.futs := rfl

theorem fut_setFut (s : State) (t : Nat) (x : Fut) (f : Nat) :
    (s.setFut t x).fut f = if f = t ∧ t < s.futs.length then x else s.fut f := by
  unfold State.setFut State.fut
  simp only [List.getD_eq_getElem?_getD, List.getElem?_set]
  by_cases h : t = f
  · subst h
    by_cases h2 : t < s.futs.length
    · simp [h2]
    · simp [h2]
  · have : ¬ f = t := fun e => h e.symm
    simp [h, this]

@[simp] theorem length_setFut (s : State) (t : Nat) (x : Fut) : (s.setFut t x).futs.length = s.futs.length := by
  simp [State.setFut]

@[simp] theorem length_updTask (s : State) (t : Nat) (g : TaskSt → TaskSt) :
    (s.updTask t g).futs.length = s.futs.length := by
  simp [State.updTask]

theorem fut_updTask (s : State) (t : Nat) (g : TaskSt → TaskSt) (f : Nat) :
    (s.updTask t g).fut f =
      if f = t ∧ t < s.futs.length then { s.fut t with ts := g (s.fut t).ts } else s.fut f := by
  unfold State.updTask
  exact fut_setFut _ _ _ _

theorem fut_alloc (s : State) (x : Fut) (nk : NewKind) (f : Nat) :
    (s.alloc x nk).1.fut f = if f = s.futs.length then x else s.fut f := by
  unfold State.alloc State.emit State.fut
  simp only [List.getD_eq_getElem?_getD]
  by_cases h : f = s.futs.length
  · subst h; simp
  · rcases Nat.lt_or_gt_of_ne h with h1 | h1
    · simp [h, List.getElem?_append_left h1]
    · have h2 : s.futs.length ≤ f := Nat.le_of_lt h1
      simp [h, List.getElem?_eq_none h2, List.getElem?_append_right h2]
      have : f - s.futs.length ≠ 0 := by omega
      cases hh : f - s.futs.length with
      | zero => exact absurd hh this
      | succ n => simp

@[simp] theorem length_alloc (s : State) (x : Fut) (nk : NewKind) :
    (s.alloc x nk).1.futs.length = s.futs.length + 1 := by
  simp [State.alloc, State.emit]

@[simp] theorem alloc_snd (s : State) (x : Fut) (nk : NewKind) : (s.alloc x nk).2 = s.futs.length := rfl

theorem fut_complete (s : State) (c : Nat) (o : Outcome) (f : Nat) :
    (s.complete c o).fut f =
      if f = c ∧ c < s.futs.length then
        { s.fut c with out := some o,
                       ts := { (if s.cfg.keepDeps then (s.fut c).ts else { (s.fut c).ts with deps := [] }) with
                               lastY := .none, deps := [] } }
      else s.fut f := by
  unfold State.complete
  simp only [fut_emit]
  exact fut_setFut _ _ _ _

@[simp] theorem length_complete (s : State) (c : Nat) (o : Outcome) :
    (s.complete c o).futs.length = s.futs.length := by
  simp [State.complete]

/-! ### `Eqv` -/

/-- `s'` agrees with `s` on everything the proof reads -/
structure Eqv (s s' : State) : Prop where
  len : s'.futs.length = s.futs.length
  view : ∀ f, view s' f = view s f
  batches : s'.batches = s.batches
  stack : s'.stack = s.stack
  ctl : s'.ctl = s.ctl
  sbatches : s'.sbatches = s.sbatches
  stuck : s'.stuck = s.stuck
  raising : s'.raising = s.raising
  tops : s'.tops = s.tops
  curTop : s'.curTop = s.curTop
  cfg : s'.cfg = s.cfg
  choices : s'.choices = s.choices
  guard : s'.guardFired = s.guardFired
  ckinds : s'.ctxs.map (·.kind) = s.ctxs.map (·.kind)

theorem Eqv.refl (s : State) : Eqv s s :=
  ⟨rfl, fun _ => rfl, rfl, rfl, rfl, rfl, rfl, rfl, rfl, rfl, rfl, rfl, rfl, rfl⟩

theorem Eqv.trans {s s1 s2 : State} (h1 : Eqv s s1) (h2 : Eqv s1 s2) : Eqv s s2 :=
  ⟨h2.len.trans h1.len, fun f => (h2.view f).trans (h1.view f), h2.batches.trans h1.batches,
   h2.stack.trans h1.stack, h2.ctl.trans h1.ctl, h2.sbatches.trans h1.sbatches, h2.stuck.trans h1.stuck,
   h2.raising.trans h1.raising, h2.tops.trans h1.tops, h2.curTop.trans h1.curTop, h2.cfg.trans h1.cfg,
   h2.choices.trans h1.choices, h2.guard.trans h1.guard, h2.ckinds.trans h1.ckinds⟩

theorem eqv_emit (s : State) (e : Event) : Eqv s (s.emit e) :=
  ⟨rfl, fun _ => rfl, rfl, rfl, rfl, rfl, rfl, rfl, rfl, rfl, rfl, rfl, rfl, rfl⟩

/-- an update of a task that touches none of the fields in the view -/
theorem eqv_updTask (s : State) (t : Nat) (g : TaskSt → TaskSt)
    (hg : ∀ x : Fut, fview { x with ts := g x.ts } = fview x) : Eqv s (s.updTask t g) := by
  refine ⟨length_updTask _ _ _, fun f => ?_, rfl, rfl, rfl, rfl, rfl, rfl, rfl, rfl, rfl, rfl, rfl, rfl⟩
  unfold view
  rw [fut_updTask]
  split
  · rename_i h; rw [h.1]; exact hg _
  · rfl

theorem eqv_svSet (s : State) (var val : Nat) : Eqv s (s.svSet var val) := by
  unfold State.svSet
  split <;> exact ⟨rfl, fun _ => rfl, rfl, rfl, rfl, rfl, rfl, rfl, rfl, rfl, rfl, rfl, rfl, rfl⟩

theorem eqv_svTouch (s : State) (var : Nat) : Eqv s (s.svTouch var) := by
  unfold State.svTouch
  split
  · exact Eqv.refl _
  · exact ⟨rfl, fun _ => rfl, rfl, rfl, rfl, rfl, rfl, rfl, rfl, rfl, rfl, rfl, rfl, rfl⟩

theorem map_kind_set (l : List CtxSt) (c : Nat) (x y : CtxSt) (h : l[c]? = some x) (hk : y.kind = x.kind) :
    (l.set c y).map (·.kind) = l.map (·.kind) := by
  rw [List.map_set]
  apply List.ext_getElem?
  intro i
  rw [List.getElem?_set]
  split
  · rename_i hi
    subst hi
    split
    · simp [h, hk]
    · rename_i hlt
      simp at hlt
      simp [List.getElem?_eq_none hlt]
  · rfl

theorem eqv_ctxSetResumed (s : State) (c : Nat) (r : Bool) : Eqv s (s.ctxSetResumed c r) := by
  unfold State.ctxSetResumed
  split
  · rename_i x hx
    exact ⟨rfl, fun _ => rfl, rfl, rfl, rfl, rfl, rfl, rfl, rfl, rfl, rfl, rfl, rfl, map_kind_set _ _ _ _ hx rfl⟩
  · exact Eqv.refl _

theorem eqv_ctxResumeOne (s : State) (c : Nat) : Eqv s (s.ctxResumeOne c) := by
  unfold State.ctxResumeOne
  have h0 : Eqv s ((s.emit (.ctx true c)).ctxSetResumed c true) := (eqv_emit s _).trans (eqv_ctxSetResumed _ _ _)
  refine h0.trans ?_
  generalize (s.emit (.ctx true c)).ctxSetResumed c true = s1
  dsimp only
  split
  · rename_i x hx
    split
    · rename_i var val _
      refine (eqv_svSet s1 var val).trans ?_
      have hc : (s1.svSet var val).ctxs = s1.ctxs := by
        unfold State.svSet; split <;> rfl
      exact ⟨rfl, fun _ => rfl, rfl, rfl, rfl, rfl, rfl, rfl, rfl, rfl, rfl, rfl, rfl,
        by simpa [hc] using map_kind_set _ _ _ _ hx rfl⟩
    · exact Eqv.refl _
  · exact Eqv.refl _

theorem eqv_ctxPauseOne (s : State) (c : Nat) : Eqv s (s.ctxPauseOne c) := by
  unfold State.ctxPauseOne
  have h0 : Eqv s ((s.emit (.ctx false c)).ctxSetResumed c false) := (eqv_emit s _).trans (eqv_ctxSetResumed _ _ _)
  refine h0.trans ?_
  generalize (s.emit (.ctx false c)).ctxSetResumed c false = s1
  dsimp only
  split
  · split
    · exact eqv_svSet s1 _ _
    · exact Eqv.refl _
  · exact Eqv.refl _

theorem eqv_ctxExitAux (s : State) (c : Nat) (owner : Option Nat) : Eqv s (P3.ctxExitAux s c owner) := by
  unfold P3.ctxExitAux
  cases owner with
  | none =>
    dsimp only
    refine Eqv.trans ?_ (eqv_emit _ _)
    split
    · exact Eqv.refl _
    · exact eqv_ctxPauseOne _ _
  | some o =>
    dsimp only
    refine Eqv.trans ?_ (eqv_emit _ _)
    have h1 := eqv_updTask s o (fun ts => { ts with ctxs := ts.ctxs.erase c }) (fun _ => rfl)
    split
    · exact h1
    · exact h1.trans (eqv_ctxPauseOne _ _)

theorem eqv_ctxExit (s : State) (c : Nat) : Eqv s (s.ctxExit c) := by
  rw [P3.ctxExit_eq]
  exact eqv_ctxExitAux _ _ _

theorem eqv_foldl {α : Type} (g : State → α → State) (hg : ∀ s a, Eqv s (g s a)) (l : List α) (s : State) :
    Eqv s (l.foldl g s) := by
  induction l generalizing s with
  | nil => exact Eqv.refl _
  | cons a l ih => exact (hg s a).trans (ih _)

/-- no NonAsyncContext has been created -/
def NoNA (s : State) : Prop := ∀ x ∈ s.ctxs, x.kind ≠ .nonasync

theorem NoNA.of_eqv {s s' : State} (h : Eqv s s') (hn : NoNA s) : NoNA s' := by
  intro x hx
  have : x.kind ∈ s'.ctxs.map (·.kind) := List.mem_map_of_mem hx
  rw [h.ckinds] at this
  obtain ⟨y, hy, e⟩ := List.mem_map.1 this
  rw [← e]; exact hn y hy

theorem NoNA.isNonAsync {s : State} (hn : NoNA s) (c : Nat) : s.ctxIsNonAsync c = false := by
  unfold State.ctxIsNonAsync
  split
  · rename_i x hx
    have := hn x (List.mem_of_getElem? hx)
    cases hk : x.kind <;> simp_all
  · rfl

theorem eqv_resumeContexts (s : State) (t : Nat) (hn : NoNA s) : Eqv s (s.resumeContexts t) := by
  unfold State.resumeContexts
  dsimp only
  split
  · exact Eqv.refl _
  · have h : Eqv s ((s.task t).ctxs.foldl (fun s c => if s.ctxIsNonAsync c then s else s.ctxResumeOne c)
        (s.updTask t fun ts => { ts with ctxActive := true })) :=
      (eqv_updTask s t _ (fun _ => rfl)).trans (eqv_foldl _ (fun s c => by
        split
        · exact Eqv.refl _
        · exact eqv_ctxResumeOne _ _) _ _)
    have hn' := NoNA.of_eqv h hn
    rw [if_neg]
    · exact h
    · intro hany
      obtain ⟨c, _, hc⟩ := List.any_eq_true.1 hany
      rw [hn'.isNonAsync c] at hc; cases hc

theorem eqv_pauseContexts (s : State) (t : Nat) (hn : NoNA s) : Eqv s (s.pauseContexts t) := by
  unfold State.pauseContexts
  dsimp only
  split
  · exact Eqv.refl _
  · have h : Eqv s ((s.task t).ctxs.reverse.foldl (fun s c => if s.ctxIsNonAsync c then s else s.ctxPauseOne c)
        (s.updTask t fun ts => { ts with ctxActive := false })) :=
      (eqv_updTask s t _ (fun _ => rfl)).trans (eqv_foldl _ (fun s c => by
        split
        · exact Eqv.refl _
        · exact eqv_ctxPauseOne _ _) _ _)
    have hn' := NoNA.of_eqv h hn
    rw [if_neg]
    · exact h
    · intro hany
      obtain ⟨c, _, hc⟩ := List.any_eq_true.1 hany
      rw [hn'.isNonAsync c] at hc; cases hc

/-! ### reading the view -/

theorem Eqv.computed {s s' : State} (h : Eqv s s') (f : Nat) : s'.computed f = s.computed f := by
  have := congrArg FV.out (h.view f)
  unfold State.computed State.out
  exact congrArg Option.isSome this

theorem Eqv.kind {s s' : State} (h : Eqv s s') (f : Nat) : (s'.fut f).kind = (s.fut f).kind :=
  congrArg FV.kind (h.view f)

end AsynqModel.Core.P6
