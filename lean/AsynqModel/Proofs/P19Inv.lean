import AsynqModel.Proofs.P19Static
import AsynqModel.Proofs.P19Trace
/-
  P19, part 6: the view-level bookkeeping invariant `VInv` of tree-shaped yield-only runs:
  * a suspended task's dependencies are leaves of what it yielded last, or complete (`dD`; with KEEP_DEPENDENCIES the
    list also holds older, complete entries);
  * a running task, and a task suspended at a repeated yield, has everything it yielded last complete (`dD2`);
  * a task awaits its own futures only, every future is owned by at most one task, at most once;
  * a suspended task is at a `yield`; a task that has not started has its initial state.
-/
namespace AsynqModel.Core.P19
open AsynqModel.Core AsynqModel.Core.P6

/-- an uncompleted task that has started -/
def Live (s : State) (t : Nat) : Prop := (view s t).kind = .task ∧ (view s t).out = none ∧ (view s t).started = true

/-- what a step may do to a future it does not run: nothing, reset / set the scheduling flag, complete it -/
def MildAt (s r : State) (f : Nat) : Prop :=
  view r f = view s f ∨ (∃ b, view r f = flagView b (view s f)) ∨
    ((view s f).out = none ∧ ∃ o, view r f = doneView o (view s f))

theorem MildAt.computed {s r : State} {f : Nat} (h : MildAt s r f) (hc : s.computed f = true) : r.computed f = true := by
  rcases h with e | ⟨b, e⟩ | ⟨_, o, e⟩
  · rw [computed_of_view e]; exact hc
  · rw [computed_eq_view, e]; exact hc
  · rw [computed_eq_view, e]; rfl

theorem MildAt.live {s r : State} {f : Nat} (h : MildAt s r f) (hl : Live r f) :
    Live s f ∧ (view r f).pending = (view s f).pending ∧ (view r f).deps = (view s f).deps ∧
      (view r f).prevY = (view s f).prevY ∧ (view r f).body = (view s f).body ∧ (view r f).own = (view s f).own ∧
      (view r f).conts = (view s f).conts := by
  rcases h with e | ⟨b, e⟩ | ⟨_, o, e⟩
  · rw [Live, e] at hl; rw [e]; exact ⟨hl, rfl, rfl, rfl, rfl, rfl, rfl⟩
  · rw [Live, e] at hl; rw [e]; exact ⟨hl, rfl, rfl, rfl, rfl, rfl, rfl⟩
  · rw [Live, e] at hl; cases hl.2.1

theorem MildAt.own {s r : State} {f : Nat} (h : MildAt s r f) : (view r f).own = (view s f).own := by
  rcases h with e | ⟨b, e⟩ | ⟨_, o, e⟩ <;> rw [e] <;> rfl

theorem MildAt.started {s r : State} {f : Nat} (h : MildAt s r f) : (view r f).started = (view s f).started := by
  rcases h with e | ⟨b, e⟩ | ⟨_, o, e⟩ <;> rw [e] <;> rfl

theorem MildAt.conts {s r : State} {f : Nat} (h : MildAt s r f) : (view r f).conts = (view s f).conts := by
  rcases h with e | ⟨b, e⟩ | ⟨_, o, e⟩ <;> rw [e] <;> rfl

theorem MildAt.prevY {s r : State} {f : Nat} (h : MildAt s r f) : (view r f).prevY = (view s f).prevY := by
  rcases h with e | ⟨b, e⟩ | ⟨_, o, e⟩ <;> rw [e] <;> rfl

theorem MildAt.kind {s r : State} {f : Nat} (h : MildAt s r f) : (view r f).kind = (view s f).kind := by
  rcases h with e | ⟨b, e⟩ | ⟨_, o, e⟩ <;> rw [e] <;> rfl

theorem MildAt.deps_sub {s r : State} {f : Nat} (h : MildAt s r f) : ∀ d ∈ (view r f).deps, d ∈ (view s f).deps := by
  rcases h with e | ⟨b, e⟩ | ⟨_, o, e⟩ <;> rw [e]
  · exact fun _ h => h
  · exact fun _ h => h
  · intro d hd; cases hd

structure VInv (s : State) : Prop where
  dD : ∀ t, Live s t → (view s t).pending = true →
    ∀ d ∈ (view s t).deps, d ∈ (view s t).prevY.leaves ∨ s.computed d = true
  dD2 : ∀ t, Live s t → ((view s t).pending = false ∨ ∃ k h, (view s t).body = .reyld k h) →
    ∀ d ∈ (view s t).prevY.leaves, s.computed d = true
  depsOwn : ∀ t, ∀ d ∈ (view s t).deps, d ∈ (view s t).own
  ownU : ∀ t t' d, d ∈ (view s t).own → d ∈ (view s t').own → t = t'
  ownND : ∀ t, (view s t).own.Nodup
  ownLt : ∀ t, ∀ d ∈ (view s t).own, d < s.futs.length
  pendShape : ∀ t, Live s t → (view s t).pending = true →
    (∃ y k h, (view s t).body = .yld y k h) ∨ ∃ k h, (view s t).body = .reyld k h
  fresh : ∀ t, (view s t).started = false →
    (view s t).own = [] ∧ (view s t).conts = [] ∧ (view s t).prevY = .none ∧ (view s t).deps = []
  lv : ∀ t, Live s t → (view s t).pending = true → ∀ d ∈ (view s t).prevY.leaves, d ∈ (view s t).deps
  pl : ∀ t, ∀ d ∈ (view s t).prevY.leaves, d ∈ (view s t).own

theorem vinv_init (cfg : Cfg) (tops : List (Conv × Body)) (choices : List (Nat × Nat)) :
    VInv (initState cfg tops choices) := by
  have hv : ∀ f, view (initState cfg tops choices) f = dview := fun f => view_ge _ _ (Nat.zero_le _)
  refine ⟨?_, ?_, ?_, ?_, ?_, ?_, ?_, ?_, ?_, ?_⟩
  · intro t hl; rw [Live, hv] at hl; cases hl.1
  · intro t hl; rw [Live, hv] at hl; cases hl.1
  · intro t d hd; rw [hv] at hd; cases hd
  · intro t t' d hd; rw [hv] at hd; cases hd
  · intro t; rw [hv]; exact List.nodup_nil
  · intro t d hd; rw [hv] at hd; cases hd
  · intro t hl; rw [Live, hv] at hl; cases hl.1
  · intro t _; rw [hv]; exact ⟨rfl, rfl, rfl, rfl⟩
  · intro t hl; rw [Live, hv] at hl; cases hl.1
  · intro t d hd; rw [hv] at hd; simp [dview, fview, YS.leaves] at hd

/-- what `VInv` needs to know about a future the step does not run -/
structure VRel (s r : State) (f : Nat) : Prop where
  own : (view r f).own = (view s f).own
  deps : ∀ d ∈ (view r f).deps, d ∈ (view s f).deps
  live : Live r f → Live s f ∧ (view r f).pending = (view s f).pending ∧ (view r f).deps = (view s f).deps ∧
    (view r f).body = (view s f).body
  started : (view r f).started = (view s f).started
  conts : (view r f).conts = (view s f).conts
  prevY : (view r f).prevY = (view s f).prevY

theorem MildAt.vrel {s r : State} {f : Nat} (h : MildAt s r f) : VRel s r f :=
  ⟨h.own, h.deps_sub, fun hl => ⟨(h.live hl).1, (h.live hl).2.1, (h.live hl).2.2.1, (h.live hl).2.2.2.2.1⟩,
   h.started, h.conts, h.prevY⟩

/-- a new future, compared with the default view of its id -/
theorem vrel_new {s r : State} {f : Nat} (hf : s.futs.length ≤ f)
    (hN : (view r f).own = [] ∧ (view r f).deps = [] ∧ (view r f).conts = [] ∧ (view r f).prevY = .none ∧
      (view r f).started = false) : VRel s r f := by
  have e : view s f = dview := view_ge s f hf
  refine ⟨(by rw [hN.1, e]; rfl), (by rw [hN.2.1]; intro d hd; cases hd), ?_, (by rw [hN.2.2.2.2, e]; rfl),
    (by rw [hN.2.2.1, e]; rfl), (by rw [hN.2.2.2.1, e]; rfl)⟩
  intro hl
  rw [Live, hN.2.2.2.2] at hl; cases hl.2.2

/-- the general step: every future except `t` is related by `VRel`; `t` may have created the future `fn` -/
theorem VInv.step_of {s r : State} (h : VInv s) (t fn : Nat) (hfn : fn = s.futs.length)
    (hlen : s.futs.length ≤ r.futs.length)
    (hO : ∀ f, f ≠ t → VRel s r f)
    (t1 : (view r t).own = (view s t).own ∨ ((view r t).own = (view s t).own ++ [fn] ∧ fn < r.futs.length))
    (t2 : ∀ d ∈ (view r t).deps, d ∈ (view r t).own)
    (t3 : Live r t → (view r t).pending = true → ∀ d ∈ (view r t).deps, d ∈ (view r t).prevY.leaves ∨ r.computed d = true)
    (t4 : Live r t → ((view r t).pending = false ∨ ∃ k h, (view r t).body = .reyld k h) →
      ∀ d ∈ (view r t).prevY.leaves, r.computed d = true)
    (t5 : Live r t → (view r t).pending = true →
      (∃ y k h, (view r t).body = .yld y k h) ∨ ∃ k h, (view r t).body = .reyld k h)
    (t6 : (view r t).started = false →
      (view r t).own = [] ∧ (view r t).conts = [] ∧ (view r t).prevY = .none ∧ (view r t).deps = [])
    (t7 : Live r t → (view r t).pending = true → ∀ d ∈ (view r t).prevY.leaves, d ∈ (view r t).deps)
    (t8 : ∀ d ∈ (view r t).prevY.leaves, d ∈ (view r t).own)
    (hcm : ∀ d, s.computed d = true → r.computed d = true) : VInv r := by
  have ownSub : ∀ f d, d ∈ (view r f).own → (f ≠ t → d ∈ (view s f).own) ∧ (f = t → d ∈ (view s t).own ∨ d = fn) := by
    intro f d hd
    refine ⟨fun hft => ?_, fun hft => ?_⟩
    · rw [(hO f hft).own] at hd; exact hd
    · subst hft
      rcases t1 with e | ⟨e, _⟩
      · rw [e] at hd; exact Or.inl hd
      · rw [e] at hd
        rcases List.mem_append.1 hd with h1 | h1
        · exact Or.inl h1
        · simp at h1; exact Or.inr h1
  refine ⟨?_, ?_, ?_, ?_, ?_, ?_, ?_, ?_, ?_, ?_⟩
  · intro f hl hp d hd
    by_cases hft : f = t
    · subst hft; exact t3 hl hp d hd
    · obtain ⟨hl', e1, e2, _⟩ := (hO f hft).live hl
      rw [e2] at hd
      rw [(hO f hft).prevY]
      rcases h.dD f hl' (e1 ▸ hp) d hd with h1 | h1
      · exact Or.inl h1
      · exact Or.inr (hcm d h1)
  · intro f hl hp d hd
    by_cases hft : f = t
    · subst hft; exact t4 hl hp d hd
    · obtain ⟨hl', e1, _, e4⟩ := (hO f hft).live hl
      rw [(hO f hft).prevY] at hd
      exact hcm d (h.dD2 f hl' (by rw [← e1, ← e4]; exact hp) d hd)
  · intro f d hd
    by_cases hft : f = t
    · subst hft; exact t2 d hd
    · rw [(hO f hft).own]
      exact h.depsOwn f d ((hO f hft).deps d hd)
  · intro f f' d hd hd'
    have a := ownSub f d hd
    have b := ownSub f' d hd'
    by_cases hft : f = t
    · by_cases hft' : f' = t
      · rw [hft, hft']
      · have h2 := b.1 hft'
        rcases a.2 hft with h1 | h1
        · rw [hft]; exact h.ownU t f' d h1 h2
        · have := h.ownLt f' d h2
          rw [h1, hfn] at this; exact absurd this (Nat.lt_irrefl _)
    · have h1 := a.1 hft
      by_cases hft' : f' = t
      · rcases b.2 hft' with h2 | h2
        · rw [hft']; exact h.ownU f t d h1 h2
        · have := h.ownLt f d h1
          rw [h2, hfn] at this; exact absurd this (Nat.lt_irrefl _)
      · exact h.ownU f f' d h1 (b.1 hft')
  · intro f
    by_cases hft : f = t
    · subst hft
      rcases t1 with e | ⟨e, _⟩
      · rw [e]; exact h.ownND f
      · rw [e]
        refine List.nodup_append.2 ⟨h.ownND f, (by simp), ?_⟩
        intro a ha b hb
        simp at hb
        subst hb
        intro hab
        subst hab
        have := h.ownLt f a ha
        rw [hfn] at this; exact Nat.lt_irrefl _ this
    · rw [(hO f hft).own]; exact h.ownND f
  · intro f d hd
    have a := ownSub f d hd
    by_cases hft : f = t
    · rcases a.2 hft with h1 | h1
      · exact Nat.lt_of_lt_of_le (h.ownLt t d h1) hlen
      · rcases t1 with e | ⟨_, e⟩
        · subst hft
          rw [e] at hd
          have := h.ownLt f d hd
          exact Nat.lt_of_lt_of_le this hlen
        · rw [h1]; exact e
    · exact Nat.lt_of_lt_of_le (h.ownLt f d (a.1 hft)) hlen
  · intro f hl hp
    by_cases hft : f = t
    · subst hft; exact t5 hl hp
    · obtain ⟨hl', e1, _, e4⟩ := (hO f hft).live hl
      rw [e4]; exact h.pendShape f hl' (e1 ▸ hp)
  · intro f hs
    by_cases hft : f = t
    · subst hft; exact t6 hs
    · have m := hO f hft
      obtain ⟨a1, a2, a3, a4⟩ := h.fresh f (m.started ▸ hs)
      refine ⟨by rw [m.own]; exact a1, by rw [m.conts]; exact a2, by rw [m.prevY]; exact a3, ?_⟩
      cases hd : (view r f).deps with
      | nil => rfl
      | cons x l =>
        have := m.deps x (by rw [hd]; exact List.mem_cons_self)
        rw [a4] at this; cases this
  · intro f hl hp d hd
    by_cases hft : f = t
    · subst hft; exact t7 hl hp d hd
    · obtain ⟨hl', e1, e2, _⟩ := (hO f hft).live hl
      rw [(hO f hft).prevY] at hd
      rw [e2]
      exact h.lv f hl' (e1 ▸ hp) d hd
  · intro f d hd
    by_cases hft : f = t
    · subst hft; exact t8 d hd
    · rw [(hO f hft).prevY] at hd
      rw [(hO f hft).own]
      exact h.pl f d hd

/-- a step that runs no task -/
theorem VInv.rel {s r : State} (h : VInv s) (hlen : s.futs.length ≤ r.futs.length) (hm : ∀ f, VRel s r f)
    (hcm : ∀ d, s.computed d = true → r.computed d = true) : VInv r := by
  refine ⟨?_, ?_, ?_, ?_, ?_, ?_, ?_, ?_, ?_, ?_⟩
  · intro f hl hp d hd
    obtain ⟨hl', e1, e2, _⟩ := (hm f).live hl
    rw [e2] at hd
    rw [(hm f).prevY]
    rcases h.dD f hl' (e1 ▸ hp) d hd with h1 | h1
    · exact Or.inl h1
    · exact Or.inr (hcm d h1)
  · intro f hl hp d hd
    obtain ⟨hl', e1, _, e4⟩ := (hm f).live hl
    rw [(hm f).prevY] at hd
    exact hcm d (h.dD2 f hl' (by rw [← e1, ← e4]; exact hp) d hd)
  · intro f d hd
    rw [(hm f).own]
    exact h.depsOwn f d ((hm f).deps d hd)
  · intro f f' d hd hd'
    rw [(hm f).own] at hd
    rw [(hm f').own] at hd'
    exact h.ownU f f' d hd hd'
  · intro f; rw [(hm f).own]; exact h.ownND f
  · intro f d hd
    rw [(hm f).own] at hd
    exact Nat.lt_of_lt_of_le (h.ownLt f d hd) hlen
  · intro f hl hp
    obtain ⟨hl', e1, _, e4⟩ := (hm f).live hl
    rw [e4]; exact h.pendShape f hl' (e1 ▸ hp)
  · intro f hs
    have m := hm f
    obtain ⟨a1, a2, a3, a4⟩ := h.fresh f (m.started ▸ hs)
    refine ⟨by rw [m.own]; exact a1, by rw [m.conts]; exact a2, by rw [m.prevY]; exact a3, ?_⟩
    cases hd : (view r f).deps with
    | nil => rfl
    | cons x l =>
      have := m.deps x (by rw [hd]; exact List.mem_cons_self)
      rw [a4] at this; cases this
  · intro f hl hp d hd
    obtain ⟨hl', e1, e2, _⟩ := (hm f).live hl
    rw [(hm f).prevY] at hd
    rw [e2]
    exact h.lv f hl' (e1 ▸ hp) d hd
  · intro f d hd
    rw [(hm f).prevY] at hd
    rw [(hm f).own]
    exact h.pl f d hd

theorem VInv.mild {s r : State} (h : VInv s) (hlen : r.futs.length = s.futs.length) (hm : ∀ f, MildAt s r f) :
    VInv r := h.rel (Nat.le_of_eq hlen.symm) (fun f => (hm f).vrel) (fun d hd => (hm d).computed hd)

end AsynqModel.Core.P19
