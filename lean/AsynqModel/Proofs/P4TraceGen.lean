import AsynqModel.Proofs.P4TraceInv
/-! P4: one instruction of a running task preserves the trace invariant -/
namespace AsynqModel.Core.P4
open AsynqModel.Core

variable {cfg0 : Cfg} {tops0 : List (Conv × Body)}

theorem Tr.irrEff {s s' : State} (T : Tr cfg0 tops0 s) (a : Irr s s') (e : CtlEff s s') : Tr cfg0 tops0 s' :=
  ⟨T.ti.irr a, T.bi.eff a.curTop a.outMono e⟩

theorem Tr.irrSame {s s' : State} (T : Tr cfg0 tops0 s) (a : Irr s s') (hctl : s'.ctl = s.ctl) : Tr cfg0 tops0 s' :=
  T.irrEff a (.same hctl)

theorem Tr.quiet {s s' : State} (T : Tr cfg0 tops0 s) (q : Quiet s s') : Tr cfg0 tops0 s' :=
  T.irrSame q.irr q.ctl

theorem Tr.emit {s : State} (T : Tr cfg0 tops0 s) (e : Event) (he : irrEv s e) : Tr cfg0 tops0 (s.emit e) :=
  T.irrSame (irr_emit s e he) rfl

theorem Tr.updTask {s : State} (T : Tr cfg0 tops0 s) (t : Nat) (g : TaskSt → TaskSt)
    (hy : (s.fut t).kind = .task → (s.fut t).out = none → (g (s.fut t).ts).pending = true →
      (g (s.fut t).ts).started = true → .yield t (g (s.fut t).ts).resumes (g (s.fut t).ts).lastY ∈ s.trace) :
    Tr cfg0 tops0 (s.updTask t g) :=
  ⟨T.ti.updTask t g hy, T.bi.eff rfl (fun f o h => by rw [out_updTask]; exact h) (.same rfl)⟩

/-- an update that leaves the task not suspended -/
theorem Tr.updRun {s : State} (T : Tr cfg0 tops0 s) (t : Nat) (g : TaskSt → TaskSt)
    (hg : (g (s.fut t).ts).pending = false) : Tr cfg0 tops0 (s.updTask t g) :=
  T.updTask t g (fun _ _ hp => by rw [hg] at hp; cases hp)

theorem irr_complete (s : State) (f : Nat) (o : Outcome) (hlt : f < s.futs.length) (ho : (s.fut f).den = o)
    (hn : (s.fut f).out = none) : Irr s (s.complete f o) := by
  have hne : ∀ g, g ≠ f → (s.complete f o).fut g = s.fut g := by
    intro g hg; rw [fut_complete]; simp [hg]
  have hself : ((s.complete f o).fut f).den = (s.fut f).den ∧ ((s.complete f o).fut f).kind = (s.fut f).kind ∧
      ((s.complete f o).fut f).out = some o := by
    rw [fut_complete]; simp [hlt]
  refine ⟨rfl, by simp, ?_, ?_, ?_, ?_, ⟨[.done f o], rfl, ?_⟩, rfl, rfl, rfl⟩
  · intro g _
    by_cases hg : g = f
    · subst hg; exact hself.1
    · rw [hne g hg]
  · intro g _
    by_cases hg : g = f
    · subst hg; exact hself.2.1
    · rw [hne g hg]
  · intro g o' h
    by_cases hg : g = f
    · subst hg; rw [hn] at h; cases h
    · rw [hne g hg]; exact h
  · intro t hk hout hp hs
    by_cases hg : t = f
    · subst hg; rw [hself.2.2] at hout; cases hout
    · rw [hne t hg] at hk hout hp hs ⊢; exact ⟨hk, hout, hp, hs, rfl, rfl⟩
  · intro e he
    simp only [List.mem_singleton] at he; subst he
    simp only [irrEv, futs_len_complete]
    exact ⟨hlt, by rw [hself.1]; exact ho⟩

theorem Tr.leaveGen {s : State} (T : Tr cfg0 tops0 s) {t : Nat} {old : Option Nat} {rest : List Ctl}
    (hctl : s.ctl = .gen t old :: rest) : Tr cfg0 tops0 (s.leaveGen t old) := by
  have a : Irr s (s.leaveGen t old) := by
    unfold State.leaveGen
    exact (irr_updTask s t (fun ts => { ts with depsSched := false })
      (fun hp hs => ⟨hp, hs, rfl, rfl⟩)).trans (irr_of_eq rfl rfl rfl rfl rfl rfl)
  exact T.irrEff a (.popGen t old (by rw [ctl_leaveGen, hctl]; rfl))

theorem Tr.pushWait {s : State} (T : Tr cfg0 tops0 s) (hne : s.ctl ≠ []) (r : Nat) :
    Tr cfg0 tops0 { s with ctl := .waitEnter r :: s.ctl } :=
  T.irrEff (irr_of_eq rfl rfl rfl rfl rfl rfl) (.push (.waitEnter r) hne rfl)

theorem Tr.same {s s' : State} (T : Tr cfg0 tops0 s) (hc : s'.cfg = s.cfg) (hf : s'.futs = s.futs)
    (ht : s'.trace = s.trace) (htops : s'.tops = s.tops) (hti : s'.topIdx = s.topIdx) (hcur : s'.curTop = s.curTop)
    (hctl : s'.ctl = s.ctl) : Tr cfg0 tops0 s' :=
  T.irrSame (irr_of_eq hc hf ht htops hti hcur) hctl

theorem Tr.finishTask {s : State} (G : Good s) (T : Tr cfg0 tops0 s) {t : Nat} {old : Option Nat} {rest : List Ctl}
    (hctl : s.ctl = .gen t old :: rest) (hp : (s.fut t).ts.pending = false) (o : Outcome) (hden : o = (s.fut t).den) :
    Tr cfg0 tops0 ((((s.exitAll t).updTask t fun ts => { ts with pending := false }).complete t o).leaveGen t old) := by
  obtain ⟨hk, ho, hlt⟩ := G.top hctl
  unfold State.exitAll
  simp only
  have q1 := still_exitFold s (s.task t).conts
  generalize (s.task t).conts.foldl (fun s p => s.ctxExit p.1) s = s1 at q1
  have T1 := T.quiet q1.1
  have hctl1 : s1.ctl = .gen t old :: rest := q1.1.ctl.trans hctl
  have hlt1 : t < s1.futs.length := by rw [q1.1.comp.len]; exact hlt
  have T2 : Tr cfg0 tops0 ((s1.updTask t fun ts => { ts with conts := [] }).updTask t
      fun ts => { ts with pending := false }) := by
    apply Tr.updRun
    · apply Tr.updRun T1
      rw [(q1.fut_core t).1]; exact hp
    · rfl
  refine Tr.leaveGen (rest := rest) (T2.irrSame (irr_complete _ t o ?_ ?_ ?_) rfl) ?_
  · simpa using hlt1
  · simp only [den_updTask]; rw [(q1.1.comp.fut t).den]; exact hden.symm
  · simp only [out_updTask]; rw [q1.2 t]; exact ho
  · exact hctl1

/-- at a resume, looking up the computed outcomes is looking up the denotations; the leaves are on the heap -/
theorem resume_denLook {s : State} (G : Good s) {t : Nat} {old : Option Nat} {rest : List Ctl}
    (hctl : s.ctl = .gen t old :: rest) (hp : (s.fut t).ts.pending = true) (hs : (s.fut t).ts.started = true) :
    unwrap (denLook s) (s.fut t).ts.lastY = unwrap s.out (s.fut t).ts.lastY ∧
    ∀ g ∈ (s.fut t).ts.lastY.leaves, g < s.futs.length := by
  obtain ⟨_, ho, _⟩ := G.top hctl
  have key : ∀ g ∈ (s.fut t).ts.lastY.leaves, ∃ o, (s.fut g).out = some o := by
    intro g hg
    have hd := G.fi.depsOK t hp hs g hg
    have hc := G.ci.ready t old rest hctl hp hs g hd
    cases hout : (s.fut g).out with
    | none => exact absurd hout hc
    | some o => exact ⟨o, rfl⟩
  refine ⟨?_, ?_⟩
  · apply unwrap_congr
    intro g hg
    obtain ⟨o, ho'⟩ := key g hg
    simp only [denLook, State.out, ho', G.fi.agree g o ho']
  · intro g hg
    obtain ⟨o, ho'⟩ := key g hg
    rcases Nat.lt_or_ge g s.futs.length with h | h
    · exact h
    · rw [fut_default s g h] at ho'; cases ho'

theorem tr_genStep_pending {s : State} (G : Good s) (T : Tr cfg0 tops0 s) {t : Nat} {old : Option Nat}
    {rest : List Ctl} (hctl : s.ctl = .gen t old :: rest) (hp : (s.fut t).ts.pending = true)
    (hst : (s.genStep t old).stuck = none) : Tr cfg0 tops0 (s.genStep t old) := by
  obtain ⟨hk, ho, hlt⟩ := G.top hctl
  unfold State.genStep at hst ⊢
  simp only [State.task, hp, if_true] at hst ⊢
  by_cases hs : (s.fut t).ts.started = true
  case neg =>
    rw [Bool.not_eq_true] at hs
    simp only [hs, Bool.not_false, if_true] at hst ⊢
    exact (T.updRun t _ rfl).emit _ trivial
  case pos =>
    simp only [hs, Bool.not_true, Bool.false_eq_true, if_false] at hst ⊢
    obtain ⟨hdl, hleaves⟩ := resume_denLook G hctl hp hs
    have hy := T.ti.yieldEv t hk ho hp hs
    -- the resume event is justified by the yield event of the suspended task
    have key : ∀ (g : TaskSt → TaskSt) (o : Outcome), (g (s.fut t).ts).pending = false →
        unwrap s.out (s.fut t).ts.lastY = o.toExcept →
        Tr cfg0 tops0 ((s.updTask t g).emit
          (.run t ((s.fut t).ts.resumes + 1) ((s.fut t).ts.lastY.leaves.all s.computed) (.out o))) := by
      intro g o hg hu
      have T1 := T.updRun t g hg
      refine ⟨T1.ti.emit _ (by intro _; nofun) (by intro _ _; nofun) (by intro _ _; nofun) ?_,
        T1.bi.eff rfl (fun _ _ h => h) (.same rfl)⟩
      intro t' i dc o' he
      cases he
      refine ⟨(s.fut t).ts.lastY, hy, by simpa using hleaves, ?_⟩
      have : denLook (s.updTask t g) = denLook s := by funext f; simp [denLook, den_updTask]
      rw [this, hdl, hu]
    cases hb : (s.fut t).ts.body <;> simp only [hb] at hst ⊢ <;> try (simp at hst; done)
    case yld y k h =>
      cases hr : unwrap s.out (s.fut t).ts.lastY with
      | ok v => exact key _ (.ok v) rfl hr
      | error x => exact key _ (.err x) rfl hr
    case reyld k h =>
      cases hr : unwrap s.out (s.fut t).ts.lastY with
      | ok v => exact key _ (.ok v) rfl hr
      | error x => exact key _ (.err x) rfl hr

theorem irr_ensureBatch (s : State) (kind : Nat) :
    Irr s (ensureBatch s kind) ∧ (ensureBatch s kind).ctl = s.ctl := by
  rcases ensureBatch_cases s kind with h | h <;> rw [h]
  · exact ⟨Irr.refl _, rfl⟩
  · exact ⟨irr_of_eq rfl rfl rfl rfl rfl rfl, rfl⟩

theorem irr_withCtxPrep (s : State) (t : Nat) (c : CtxKind) :
    Irr s (withCtxPrep s t c) ∧ (withCtxPrep s t c).ctl = s.ctl := by
  unfold withCtxPrep
  have p1 : Irr s (wc1 s c) ∧ (wc1 s c).ctl = s.ctl := by
    unfold wc1; split
    · exact ⟨(still_svTouch _ _).1.irr, (still_svTouch _ _).1.ctl⟩
    · exact ⟨Irr.refl _, rfl⟩
  have p2 : Irr (wc1 s c) ((wc1 s c).emit (.ctxN s.ctxs.length t c)) := irr_emit _ _ trivial
  have c2 : ((wc1 s c).emit (.ctxN s.ctxs.length t c)).ctl = (wc1 s c).ctl := rfl
  generalize (wc1 s c).emit (.ctxN s.ctxs.length t c) = s2 at p2 c2
  have p3 : Irr s2 (wc3 s2 c) := irr_of_eq rfl rfl rfl rfl rfl rfl
  have c3 : (wc3 s2 c).ctl = s2.ctl := rfl
  generalize wc3 s2 c = s3 at p3 c3
  have p4 : Irr s3 (wc4 s3 s.ctxs.length) ∧ (wc4 s3 s.ctxs.length).ctl = s3.ctl := by
    unfold wc4; split
    · rename_i a _
      have q := still_updTask s3 a (fun ts => { ts with ctxs := ts.ctxs ++ [s.ctxs.length] }) (fun ts => coreA_ctxs ts _)
      exact ⟨q.1.irr, q.1.ctl⟩
    · exact ⟨Irr.refl _, rfl⟩
  generalize wc4 s3 s.ctxs.length = s4 at p4
  have p5 : Irr s4 (wc5 s4 c s.ctxs.length) ∧ (wc5 s4 c s.ctxs.length).ctl = s4.ctl := by
    unfold wc5; split
    · exact ⟨Irr.refl _, rfl⟩
    · exact ⟨(still_ctxResumeOne _ _).1.irr, (still_ctxResumeOne _ _).1.ctl⟩
  exact ⟨p1.1.trans (p2.trans (p3.trans (p4.1.trans p5.1))),
    p5.2.trans (p4.2.trans (c3.trans (c2.trans p1.2)))⟩

theorem tr_syncWait {s : State} (G : Good s) (T : Tr cfg0 tops0 s) (hne : s.ctl ≠ []) (f : Nat) :
    Tr cfg0 tops0 (if s.computed f then s else
      match (s.fut f).kind with
      | .task => { s with ctl := .waitEnter f :: s.ctl }
      | .item kind seq _ _ =>
        match s.batch? kind seq with
        | some b => if b.flushed then s else s.flushBatch kind seq
        | none => s
      | .lazy o => s.complete f (lazyOutcome o)
      | _ => s) := by
  split
  · exact T
  · rename_i hc
    have hn : (s.fut f).out = none := by simpa [State.computed, State.out] using hc
    split
    · exact T.pushWait hne f
    · rename_i kind seq p m hk
      split
      · rename_i b hb
        split
        · exact T
        · exact T.quiet (quiet_flushBatch s G.fi kind seq b hb)
      · exact T
    · rename_i o hk
      have hlt : f < s.futs.length := lt_of_kind s f (by rw [hk]; nofun)
      exact T.quiet (quiet_complete s f _ hn hlt (G.fi.lazyDen f o hk).symm (by rw [hk]; nofun))
    · exact T

theorem tr_yield {s : State} (T : Tr cfg0 tops0 s) {t : Nat} {old : Option Nat} {rest : List Ctl}
    (hctl : s.ctl = .gen t old :: rest) (r : Nat) (ry : RY) (g : TaskSt → TaskSt) (deps : List Nat)
    (hg : (g (s.fut t).ts).resumes = r ∧ (g (s.fut t).ts).lastY = ry) :
    Tr cfg0 tops0 (if deps.isEmpty then (s.emit (.yield t r ry)).updTask t g
      else ((s.emit (.yield t r ry)).updTask t g).leaveGen t old) := by
  have T1 : Tr cfg0 tops0 ((s.emit (.yield t r ry)).updTask t g) := by
    refine Tr.updTask ⟨T.ti.emit _ (by intro _; nofun) (by intro _ _; nofun) (by intro _ _; nofun)
      (by intro _ _ _ _; nofun), T.bi.eff rfl (fun _ _ h => h) (.same rfl)⟩ t _ ?_
    intro _ _ _ _
    rw [fut_emit, hg.1, hg.2]
    exact List.mem_cons_self ..
  split
  · exact T1
  · exact T1.leaveGen (rest := rest) hctl

theorem tr_genStep_run {s : State} (G : Good s) (T : Tr cfg0 tops0 s) {t : Nat} {old : Option Nat}
    {rest : List Ctl} (hctl : s.ctl = .gen t old :: rest) (hp : (s.fut t).ts.pending = false)
    (hst : (s.genStep t old).stuck = none) : Tr cfg0 tops0 (s.genStep t old) := by
  obtain ⟨hk, ho, hlt⟩ := G.top hctl
  have hnc : s.computed t = false := by simp [State.computed, State.out, ho]
  have hne : s.ctl ≠ [] := by rw [hctl]; nofun
  have hden := G.fi.taskOK t hk ho
  rw [taskDen_eq] at hden
  cases hb : (s.fut t).ts.body
  case withCtx c b k =>
    rw [genStep_withCtx s t old c b k hp hb]
    obtain ⟨a, hc⟩ := irr_withCtxPrep s t c
    obtain ⟨_, _, pp, _, _⟩ := prep_withCtx s t c
    exact (T.irrSame a hc).updRun t _ (pp.trans hp)
  case endwith =>
    rw [genStep_endwith s t old hp hb] at hst ⊢
    cases hcs : (s.fut t).ts.conts with
    | nil =>
      simp only [State.task, hcs] at hst ⊢
      unfold State.finishTask at hst ⊢
      simp only [hnc, Bool.false_eq_true, if_false] at hst ⊢
      apply Tr.finishTask G T hctl hp
      rw [← hden, tden_plain _ _ _ _ _ (by rw [hb]; intro _ _ _; nofun), hb, hcs]
      simp [evalBody, Inv.evalConts, SRes.outcome]
    | cons p rest' =>
      obtain ⟨cid, k⟩ := p
      simp only [State.task, hcs] at hst ⊢
      have q := still_ctxExit s cid
      exact (T.quiet q.1).updRun t _ ((q.fut_core t).1.trans hp)
  all_goals
    unfold State.genStep at hst ⊢
    simp only [State.task, hp, hb, Bool.false_eq_true, if_false] at hst ⊢
  case ret tag =>
    unfold State.finishTask at hst ⊢
    simp only [hnc, Bool.false_eq_true, if_false] at hst ⊢
    apply Tr.finishTask G T hctl hp
    rw [← hden, tden_plain _ _ _ _ _ (by rw [hb]; intro _ _ _; nofun), hb]
    simp [evalBody, evalConts_done]
  case res tag =>
    unfold State.finishTask at hst ⊢
    simp only [hnc, Bool.false_eq_true, if_false] at hst ⊢
    apply Tr.finishTask G T hctl hp
    rw [← hden, tden_plain _ _ _ _ _ (by rw [hb]; intro _ _ _; nofun), hb]
    simp [evalBody, evalConts_done]
  case raise e =>
    unfold State.finishTask at hst ⊢
    simp only [hnc, Bool.false_eq_true, if_false] at hst ⊢
    apply Tr.finishTask G T hctl hp
    rw [← hden, tden_plain _ _ _ _ _ (by rw [hb]; intro _ _ _; nofun), hb]
    simp [evalBody, evalConts_done]
  case reraise =>
    unfold State.finishTask at hst ⊢
    simp only [hnc, Bool.false_eq_true, if_false] at hst ⊢
    apply Tr.finishTask G T hctl hp
    rw [← hden, tden_plain _ _ _ _ _ (by rw [hb]; intro _ _ _; nofun), hb]
    simp [evalBody, evalConts_done]
  case spawn child pass k =>
    refine (T.irrSame (s' := (s.newTask child (pass.map (s.fut t).ts.resolve)).1) ?_ rfl).updRun t _ ?_
    · rw [newTask_eq]; exact irr_alloc _ _ _ rfl
    · rw [newTask_eq, fut_alloc_lt _ _ _ _ hlt]; exact hp
  case item kind payload mode k =>
    obtain ⟨a0, c0⟩ := irr_ensureBatch s kind
    have T0 := T.irrSame a0 c0
    have hp0 : ((ensureBatch s kind).fut t).ts.pending = false := by rw [ensureBatch_fut]; exact hp
    have hlt0 : t < (ensureBatch s kind).futs.length := lt_of_kind _ t (by rw [ensureBatch_fut, hk]; nofun)
    change Tr cfg0 tops0 (match (ensureBatch s kind).curBatch? kind with
      | none => (ensureBatch s kind).fail "no batch"
      | some b => itemStep (ensureBatch s kind) t kind payload mode k b)
    change (match (ensureBatch s kind).curBatch? kind with
      | none => (ensureBatch s kind).fail "no batch"
      | some b => itemStep (ensureBatch s kind) t kind payload mode k b).stuck = none at hst
    generalize ensureBatch s kind = s0 at T0 hp0 hlt0 hst ⊢
    split
    · rename_i hcb; rw [hcb] at hst; simp at hst
    · rename_i b _
      unfold itemStep
      have Ta := Tr.irrSame T0 (irr_alloc s0
        { kind := .item kind b.seq payload mode, den := itemOutcome s0.cfg kind payload mode }
        (.item kind b.seq b.items.length payload mode) rfl) rfl
      have Tb : Tr cfg0 tops0 ((s0.alloc
          { kind := .item kind b.seq payload mode, den := itemOutcome s0.cfg kind payload mode }
          (.item kind b.seq b.items.length payload mode)).1.updBatch kind b.seq
            fun b => { b with items := b.items ++ [s0.futs.length] }) := Ta.same rfl rfl rfl rfl rfl rfl rfl
      refine Tb.updRun t _ ?_
      have : ∀ (x : Fut) (nk : NewKind) (g : Batch → Batch),
          (((s0.alloc x nk).1.updBatch kind b.seq g).fut t) = s0.fut t := by
        intro x nk g
        show ((s0.alloc x nk).1).fut t = _
        exact fut_alloc_lt _ _ _ _ hlt0
      rw [this]; exact hp0
  case const v k =>
    refine (T.irrSame (irr_alloc _ _ _ rfl) rfl).updRun t _ ?_
    rw [fut_alloc_lt _ _ _ _ hlt]; exact hp
  case errfut e k =>
    refine (T.irrSame (irr_alloc _ _ _ rfl) rfl).updRun t _ ?_
    rw [fut_alloc_lt _ _ _ _ hlt]; exact hp
  case «lazy» o k =>
    refine (T.irrSame (irr_alloc _ _ _ rfl) rfl).updRun t _ ?_
    rw [fut_alloc_lt _ _ _ _ hlt]; exact hp
  case yld y k h => exact tr_yield T hctl _ _ _ _ ⟨rfl, rfl⟩
  case reyld k h => exact tr_yield T hctl _ _ _ _ ⟨rfl, rfl⟩
  case sync child pass k h =>
    have T1 : Tr cfg0 tops0 (((s.newTask child (pass.map (s.fut t).ts.resolve)).1.updTask t fun ts =>
        { ts with own := ts.own ++ [s.futs.length], body := .syncret s.futs.length k h }).emit (.syncE t s.futs.length)) := by
      refine Tr.emit (Tr.updRun (T.irrSame (s' := (s.newTask child (pass.map (s.fut t).ts.resolve)).1) ?_ rfl) t _ ?_) _ trivial
      · rw [newTask_eq]; exact irr_alloc _ _ _ rfl
      · rw [newTask_eq, fut_alloc_lt _ _ _ _ hlt]; exact hp
    exact T1.pushWait hne s.futs.length
  case syncfut r k h =>
    have G1 := good_syncfut G hctl hp r k h hb (.syncE t ((s.fut t).ts.resolve r))
    have T1 : Tr cfg0 tops0 ((s.updTask t fun ts => { ts with body := .syncret ((s.fut t).ts.resolve r) k h }).emit
        (.syncE t ((s.fut t).ts.resolve r))) := (T.updRun t _ hp).emit _ trivial
    exact tr_syncWait G1 T1 hne _
  case syncret f k h =>
    have hr := G.ci.raising
    simp only [hr] at hst ⊢
    have T0 : Tr cfg0 tops0 { s with raising := none } := T.same rfl rfl rfl rfl rfl rfl rfl
    cases hof : s.out f with
    | none => rw [hof] at hst; simp at hst
    | some o =>
      cases o with
      | ok v => exact (T0.updRun t _ hp).emit _ (by trivial)
      | err x => exact (T0.updRun t _ hp).emit _ (by trivial)
  case read var k =>
    have q := still_svTouch s var
    exact ((T.quiet q.1).emit _ (by trivial)).updRun t _ ((q.fut_core t).1.trans hp)
  case active k =>
    exact (T.emit _ (by trivial)).updRun t _ hp

theorem tr_genStep {s : State} (G : Good s) (T : Tr cfg0 tops0 s) {t : Nat} {old : Option Nat}
    {rest : List Ctl} (hctl : s.ctl = .gen t old :: rest)
    (hst : (s.genStep t old).stuck = none) : Tr cfg0 tops0 (s.genStep t old) := by
  cases hp : (s.fut t).ts.pending
  · exact tr_genStep_run G T hctl hp hst
  · exact tr_genStep_pending G T hctl hp hst

end AsynqModel.Core.P4
