import AsynqModel.Lib.Mock
import AsynqModel.Proofs.Mock
import AsynqModel.Proofs.MockSim
/-! helper lemmas for C19, part 4: names that are re-bound between the uses of a patcher -/
set_option linter.unusedSimpArgs false
namespace AsynqModel.Mock

/-- a string patcher is re-targeted to what its name refers to; a `patch.object` patcher is left alone -/
theorem resolveP_string (b : Nat → Nat) (pt : Patcher) (h : pt.spec.viaObject = false) :
    resolveP b pt = { pt with spec := retarget b pt.spec } := by
  unfold resolveP; simp [h]

theorem resolveP_object (b : Nat → Nat) (pt : Patcher) (h : pt.spec.viaObject = true) : resolveP b pt = pt := by
  unfold resolveP; simp [h]

theorem resolveP_target_string (b : Nat → Nat) (pt : Patcher) (h : pt.spec.viaObject = false) :
    (resolveP b pt).spec.target = b pt.spec.slot := by
  rw [resolveP_string b pt h]; rfl

theorem resolveP_create (b : Nat → Nat) (pt : Patcher) : (resolveP b pt).spec.create = pt.spec.create := by
  unfold resolveP; split <;> rfl

/-- a successful `_patch.__enter__` -/
theorem enter_ok (env : Env) (st : State) (pt : Patcher) (p : Nat)
    (h : (!pt.spec.create && (getOriginal env st pt.spec.target).1.isNone) = false) :
    enter env pt p st =
      ({ st with store := upd st.store pt.spec.target (some (installedObj pt p (st.entries p))),
                 saved := upd st.saved p (some (getOriginal env st pt.spec.target)),
                 entries := upd st.entries p (match pt.new with | some _ => st.entries p | none => st.entries p + 1),
                 stack := { p := p, t := pt.spec.target, o := installedObj pt p (st.entries p) } :: st.stack },
       .entered (installedObj pt p (st.entries p)).tok) := by
  unfold enter
  simp only [h, Bool.false_eq_true, if_false]
  rfl

/-- `with patcher:` when the owner the patcher's name refers to NOW has the attribute (or create=True): the
    re-targeted patcher replaces the stored one, its replacement is installed on that owner and returned -/
theorem step_enter_ok (env : Env) (st : State) (p : Nat) (pt0 : Patcher) (hsk : st.skip = none)
    (hpt : st.patchers p = some pt0)
    (h : (!(resolveP st.bind pt0).spec.create &&
          (getOriginal env st (resolveP st.bind pt0).spec.target).1.isNone) = false) :
    (step env st (.enter p)).2 = .entered (installedObj (resolveP st.bind pt0) p (st.entries p)).tok ∧
    (step env st (.enter p)).1.store =
      upd st.store (resolveP st.bind pt0).spec.target (some (installedObj (resolveP st.bind pt0) p (st.entries p))) ∧
    (step env st (.enter p)).1.patchers p = some (resolveP st.bind pt0) ∧
    (step env st (.enter p)).1.skip = none ∧ (step env st (.enter p)).1.bind = st.bind := by
  have h' : (!(resolveP st.bind pt0).spec.create &&
      (getOriginal env (setPatcher st p (resolveP st.bind pt0)) (resolveP st.bind pt0).spec.target).1.isNone) = false := h
  rw [step_enter_eq env st p pt0 hsk hpt]
  unfold enterThen
  rw [enter_ok env _ _ p h']
  exact ⟨rfl, rfl, setPatcher_patchers st p _, hsk, rfl⟩

theorem step_start_ok (env : Env) (st : State) (p : Nat) (pt0 : Patcher) (hsk : st.skip = none)
    (hpt : st.patchers p = some pt0)
    (h : (!(resolveP st.bind pt0).spec.create &&
          (getOriginal env st (resolveP st.bind pt0).spec.target).1.isNone) = false) :
    (step env st (.start p)).2 = .entered (installedObj (resolveP st.bind pt0) p (st.entries p)).tok ∧
    (step env st (.start p)).1.store =
      upd st.store (resolveP st.bind pt0).spec.target (some (installedObj (resolveP st.bind pt0) p (st.entries p))) ∧
    (step env st (.start p)).1.patchers p = some (resolveP st.bind pt0) ∧
    (step env st (.start p)).1.skip = none ∧ (step env st (.start p)).1.bind = st.bind := by
  have h' : (!(resolveP st.bind pt0).spec.create &&
      (getOriginal env (setPatcher st p (resolveP st.bind pt0)) (resolveP st.bind pt0).spec.target).1.isNone) = false := h
  rw [step_start_eq env st p pt0 hsk hpt]
  unfold start
  rw [enter_ok env _ _ p h']
  exact ⟨rfl, rfl, setPatcher_patchers st p _, hsk, rfl⟩

/-- a call through a name whose owner holds `o` in its `__dict__` -/
theorem step_call_store (env : Env) (st : State) (t : Nat) (o : Obj) (args : List Nat) (kw : List (Nat × Nat))
    (hsk : st.skip = none) (hst : st.store (st.bind t) = some o) :
    (step env st (.call t args kw)).2 = .called (Conv.all.map fun c => conv o (env.tspec (st.bind t)).via c args kw) := by
  unfold step
  simp only [hsk, callAll, hst]

end AsynqModel.Mock
