import AsynqModel.Proofs.P9Heap
import AsynqModel.Proofs.P3Sched
/-
  P9 (property C20), part 3: batches and the scheduler flush under the projection `P`.
  A flush reads the `items` of a batch that is not flushed yet (`Unfl`); the only place where the items of a flushed
  batch are visible is the pending snapshot of the `flushB` event, which `norm` filters.
-/
namespace AsynqModel.Core.P9
open AsynqModel.Core

theorem P_idem (s : State) : P (P s) = P s := by
  have hn : ∀ e, norm (norm e) = norm e := by
    intro e; cases e <;> simp [norm]
  simp only [P, List.map_map]
  congr 1
  · exact pfs_idem _ _ _ _ (fun _ h => h)
  · simp
  · apply List.map_congr_left
    intro e _
    exact hn e

/-! ### updating batches -/

theorem P_updBatch (s : State) (k q : Nat) (g g' : Batch → Batch) (h : ∀ b, projB (g b) = g' (projB b)) :
    P (s.updBatch k q g) = (P s).updBatch k q g' := by
  simp only [State.updBatch, P, List.map_map]
  congr 1
  apply List.map_congr_left
  intro b _
  simp only [Function.comp, projB_kind, projB_seq]
  split
  · exact h b
  · rfl

theorem P_addBatch (s : State) (k q : Nat) :
    P { s with batches := s.batches ++ [({ kind := k, seq := q } : Batch)] } =
      { P s with batches := (P s).batches ++ [({ kind := k, seq := q } : Batch)] } := by
  simp [P]

theorem P_switchActive (s : State) (k q : Nat) : P (s.switchActive k q) = (P s).switchActive k q := by
  unfold State.switchActive
  rw [P_curBatch?]
  cases s.curBatch? k with
  | none => rfl
  | some b =>
    simp only [Option.map_some, projB_seq]
    rw [apply_ite P, P_addBatch]

/-! ### the flush body -/

theorem P_flushItems (s : State) (kind : Nat) (l : List Nat) : P (s.flushItems kind l) = (P s).flushItems kind l := by
  induction l generalizing s with
  | nil => rfl
  | cons i is ih =>
    unfold State.flushItems
    rw [ih]
    congr 1
    simp only [P_computed, P_fut, projF_kind]
    rw [apply_ite P]
    congr 1
    split <;> first | exact P_complete _ _ _ | rfl

theorem P_finishItems (s : State) (e : Err) (l : List Nat) : P (s.finishItems e l) = (P s).finishItems e l := by
  induction l generalizing s with
  | nil => rfl
  | cons i is ih =>
    unfold State.finishItems
    rw [ih]
    congr 1
    simp only [P_computed]
    rw [apply_ite P, P_complete]

/-- the batch `(k, q)` names is not flushed yet -/
def Unfl (s : State) (k q : Nat) : Prop := ∀ b, s.batch? k q = some b → b.flushed = false

/-- `flushBatch` after the lookup, the two configuration reads made explicit -/
def flushBody (s : State) (kind seq : Nat) (b : Batch) (raises kd : Bool) : State :=
  let s := s.switchActive kind seq
  let s := s.emit (.flushI kind seq b.items)
  let s := s.flushItems kind b.items
  let s := s.finishItems (if raises then .flushraise kind else .notset) b.items
  let s := s.emit (.bdone kind seq (!raises))
  s.updBatch kind seq fun b => { b with flushed := true, items := if kd then b.items else [] }

theorem flushBatch_eq (s : State) (kind seq : Nat) :
    s.flushBatch kind seq = match s.batch? kind seq with
      | none => s.fail "flush of unknown batch"
      | some b => flushBody s kind seq b (s.cfg.kind kind).raises s.cfg.keepDeps := by
  unfold State.flushBatch flushBody
  cases s.batch? kind seq with
  | none => rfl
  | some b =>
    dsimp only
    have h1 : ((s.switchActive kind seq).emit (.flushI kind seq b.items)).cfg = s.cfg :=
      ((P3.q_switchActive (P := P3.N) s kind seq).trans (P3.q_emitN _ _ rfl)).cfg
    have h2 : (((s.switchActive kind seq).emit (.flushI kind seq b.items)).flushItems kind b.items).cfg = s.cfg :=
      (P3.q_flushItems _ _ _).cfg.trans h1
    have h3 : ∀ e, (((((s.switchActive kind seq).emit (.flushI kind seq b.items)).flushItems kind b.items).finishItems e
        b.items).emit (.bdone kind seq (!(s.cfg.kind kind).raises))).cfg = s.cfg :=
      fun e => ((P3.q_finishItems _ _ _).trans (P3.q_emitN _ _ rfl)).cfg.trans h2
    rw [h2, h3]

theorem P_flushBody (s : State) (kind seq : Nat) (b : Batch) (raises kd : Bool) :
    P (flushBody s kind seq b raises kd) = flushBody (P s) kind seq b raises false := by
  unfold flushBody
  dsimp only
  rw [P_updBatch _ _ _ _ (fun b => { b with flushed := true, items := if false then b.items else [] })]
  · rw [P_emit, P_finishItems, P_flushItems, P_emit, P_switchActive]
    rfl
  · intro b
    cases b with
    | mk k q i f => cases f <;> cases kd <;> rfl

theorem P_flushBatch (s : State) (kind seq : Nat) (h : Unfl s kind seq) :
    P (s.flushBatch kind seq) = (P s).flushBatch kind seq := by
  rw [flushBatch_eq, flushBatch_eq, P_batch?]
  cases hb : s.batch? kind seq with
  | none => rfl
  | some b =>
    simp only [Option.map_some]
    rw [projB_unflushed b (h b hb)]
    exact P_flushBody _ _ _ _ _ _

/-! ### selecting the batch to flush -/

theorem all_congr_mem {α : Type} (l : List α) (f g : α → Bool) (h : ∀ x ∈ l, f x = g x) : l.all f = l.all g := by
  induction l with
  | nil => rfl
  | cons a l ih =>
    simp only [List.all_cons]
    rw [h a (by simp), ih (fun x hx => h x (by simp [hx]))]

theorem P_flushable (s : State) : (P s).flushable = s.flushable := by
  unfold State.flushable
  simp only [P_sbatches]
  congr 1
  funext ⟨k, q⟩
  simp only [P_batch?]
  cases s.batch? k q with
  | none => rfl
  | some b =>
    simp only [Option.map_some, projB_flushed]
    cases hf : b.flushed
    · rw [projB_unflushed b hf]
    · simp

theorem flushable_unfl (s : State) (c : Nat × Nat) (h : c ∈ s.flushable) :
    ∃ b, s.batch? c.1 c.2 = some b ∧ b.flushed = false := by
  unfold State.flushable at h
  have := (List.mem_filter.1 h).2
  cases hb : s.batch? c.1 c.2 with
  | none => simp [hb] at this
  | some b =>
    simp only [hb, Bool.and_eq_true, Bool.not_eq_true'] at this
    exact ⟨b, rfl, this.2⟩

theorem P_batchPrio (s : State) (b : Batch) (h : b.flushed = false) : (P s).batchPrio (projB b) = s.batchPrio b := by
  rw [projB_unflushed b h]; rfl

theorem P_admissible (s : State) (c : Nat × Nat) : (P s).admissible c = s.admissible c := by
  unfold State.admissible
  simp only [P_flushable, P_batch?]
  by_cases hc : s.flushable.contains c = true
  · have hm : c ∈ s.flushable := by simpa using hc
    obtain ⟨b, hb, hf⟩ := flushable_unfl s c hm
    simp only [hb, Option.map_some]
    congr 1
    apply all_congr_mem
    rintro ⟨k, q⟩ hx
    obtain ⟨b', hb', hf'⟩ := flushable_unfl s (k, q) hx
    simp only at hb'
    simp only [hb', Option.map_some, P_batchPrio _ _ hf, P_batchPrio _ _ hf']
  · have hm : c ∉ s.flushable := by simpa using hc
    simp [hm]

theorem P_admissible_fun (s : State) : (P s).admissible = s.admissible := funext (P_admissible s)

theorem P_defaultChoice (s : State) : (P s).defaultChoice = s.defaultChoice := by
  unfold State.defaultChoice
  rw [P_flushable, P_admissible_fun]

/-! ### the pending snapshot -/

def nf (x : PendingB) : Bool := !x.flushed

/-- forget what is residue in a pending entry -/
def canon (x : PendingB) : PendingB := if x.flushed then { x with n := 0, prio := (0, 0) } else x

def pendLe (a b : PendingB) : Bool := a.kind < b.kind || (a.kind == b.kind && a.seq ≤ b.seq)

def entry (s : State) (c : Nat × Nat) : Option PendingB :=
  (s.batch? c.1 c.2).map fun b =>
    { kind := c.1, seq := c.2, n := b.items.length, flushed := b.flushed, prio := s.batchPrio b }

def rawPending (s : State) (ids : List (Nat × Nat)) : List PendingB := ids.filterMap (entry s)

theorem pendingOf_eq (s : State) (ids : List (Nat × Nat)) : s.pendingOf ids = (rawPending s ids).mergeSort pendLe := rfl

@[simp] theorem canon_kind (x) : (canon x).kind = x.kind := by unfold canon; split <;> rfl
@[simp] theorem canon_seq (x) : (canon x).seq = x.seq := by unfold canon; split <;> rfl
@[simp] theorem canon_flushed (x) : (canon x).flushed = x.flushed := by unfold canon; split <;> rfl

theorem canon_nf (x : PendingB) (h : nf x = true) : canon x = x := by
  unfold nf at h
  simp only [Bool.not_eq_true'] at h
  simp [canon, h]

theorem filter_nf_sort (l : List PendingB) :
    (l.mergeSort pendLe).filter nf = ((l.map canon).mergeSort pendLe).filter nf := by
  have h1 : (l.map canon).mergeSort pendLe = (l.mergeSort pendLe).map canon := by
    rw [List.map_mergeSort]
    intro a _ b _
    simp [pendLe]
  rw [h1, List.filter_map]
  have h2 : (nf ∘ canon) = nf := by
    funext x; simp [nf]
  rw [h2]
  symm
  calc List.map canon (List.filter nf (l.mergeSort pendLe))
      = List.map id (List.filter nf (l.mergeSort pendLe)) := by
        apply List.map_congr_left
        intro x hx
        exact canon_nf x (List.mem_filter.1 hx).2
    _ = _ := by simp

theorem entry_P (s : State) (c : Nat × Nat) : (entry (P s) c).map canon = (entry s c).map canon := by
  unfold entry
  rw [P_batch?]
  cases s.batch? c.1 c.2 with
  | none => rfl
  | some b =>
    simp only [Option.map_some, projB_flushed]
    cases hf : b.flushed
    · rw [P_batchPrio _ _ hf, projB_unflushed b hf]
    · simp [canon]

theorem rawPending_P (s : State) (ids : List (Nat × Nat)) :
    (rawPending (P s) ids).map canon = (rawPending s ids).map canon := by
  unfold rawPending
  rw [List.map_filterMap, List.map_filterMap]
  congr 1
  funext c
  exact entry_P s c

theorem P_pendingOf (s : State) (ids : List (Nat × Nat)) :
    ((P s).pendingOf ids).filter nf = (s.pendingOf ids).filter nf := by
  rw [pendingOf_eq, pendingOf_eq, filter_nf_sort, rawPending_P, ← filter_nf_sort]

/-! ### `schedulerFlush` -/

def pick (s : State) : Option (Nat × Nat) × List (Nat × Nat) :=
  match s.choices with
  | c :: cs => (some c, cs)
  | [] => (s.defaultChoice, [])

def flushWith (s : State) (fl : List (Nat × Nat)) (c? : Option (Nat × Nat)) (rest : List (Nat × Nat)) : State :=
  match c? with
  | none => s.fail "no admissible batch"
  | some c =>
    if !s.admissible c then s.fail s!"choice-not-allowed ({c.1} {c.2})" else
    match s.batch? c.1 c.2 with
    | none => s.fail "unknown batch"
    | some b =>
      let s := { s with choices := rest, sbatches := fl.erase c }
      let s := s.emit (.flushB c.1 c.2 b.items (s.batchPrio b) (s.pendingOf s.sbatches))
      let s := s.flushBatch c.1 c.2
      s.emit (.flushE c.1 c.2)

theorem flushRest_eq (s : State) (fl : List (Nat × Nat)) :
    P3.flushRest s fl = if fl.isEmpty then s else flushWith s fl (pick s).1 (pick s).2 := rfl

theorem P_pick (s : State) : pick (P s) = pick s := by
  unfold pick
  rw [P_choices, P_defaultChoice]

theorem P_flushEv (s1 : State) (c : Nat × Nat) (e e' : Event) (he : norm e = norm e') (hu : Unfl s1 c.1 c.2) :
    P (((s1.emit e).flushBatch c.1 c.2).emit (.flushE c.1 c.2)) =
    P ((((P s1).emit e').flushBatch c.1 c.2).emit (.flushE c.1 c.2)) := by
  have hu1 : Unfl (s1.emit e) c.1 c.2 := hu
  have hu2 : Unfl ((P s1).emit e') c.1 c.2 := by
    intro b hb
    have : ((P s1).emit e').batch? c.1 c.2 = (s1.batch? c.1 c.2).map projB := P_batch? s1 c.1 c.2
    rw [this] at hb
    cases hb1 : s1.batch? c.1 c.2 with
    | none => simp [hb1] at hb
    | some b1 =>
      simp only [hb1, Option.map_some, Option.some.injEq] at hb
      rw [← hb, projB_flushed]
      exact hu b1 hb1
  rw [P_emit, P_emit, P_flushBatch _ _ _ hu1, P_flushBatch _ _ _ hu2, P_emit, P_emit, P_idem, he]

theorem P_flushWith (s : State) (fl : List (Nat × Nat)) (c? : Option (Nat × Nat)) (rest : List (Nat × Nat)) :
    P (flushWith s fl c? rest) = P (flushWith (P s) fl c? rest) := by
  unfold flushWith
  cases c? with
  | none => simp only [P_fail, P_idem]
  | some c =>
    simp only [P_admissible, P_batch?]
    by_cases ha : s.admissible c = true
    · simp only [ha, Bool.not_true, Bool.false_eq_true, if_false]
      have hm : c ∈ s.flushable := by
        unfold State.admissible at ha
        simp only [Bool.and_eq_true] at ha
        simpa using ha.1
      obtain ⟨b, hb, hf⟩ := flushable_unfl s c hm
      simp only [hb, Option.map_some]
      rw [projB_unflushed b hf]
      have hu : Unfl { s with choices := rest, sbatches := fl.erase c } c.1 c.2 := by
        intro b' hb'
        have : s.batch? c.1 c.2 = some b' := hb'
        rw [hb] at this
        cases this
        exact hf
      exact P_flushEv { s with choices := rest, sbatches := fl.erase c } c
        (.flushB c.1 c.2 b.items (s.batchPrio b) (s.pendingOf (fl.erase c)))
        (.flushB c.1 c.2 b.items ((P s).batchPrio b) ((P s).pendingOf (fl.erase c)))
        (by
          simp only [norm]
          have hp := P_pendingOf s (fl.erase c)
          unfold nf at hp
          have hq := P_batchPrio s b hf
          rw [projB_unflushed b hf] at hq
          rw [hp, hq]) hu
    · have : s.admissible c = false := by simpa using ha
      simp only [this, Bool.not_false, if_true, P_fail, P_idem]

theorem P_flushRest (s : State) (fl : List (Nat × Nat)) :
    P (P3.flushRest s fl) = P (P3.flushRest (P s) fl) := by
  rw [flushRest_eq, flushRest_eq, P_pick]
  by_cases h0 : fl.isEmpty = true
  · simp only [h0, if_true, P_idem]
  · simp only [h0]
    exact P_flushWith _ _ _ _

/-- replacing the control stack by one with the same generator frames -/
theorem P_setCtl (s : State) (c' : List Ctl) (h : ∀ t, inFrame c' t = inFrame s.ctl t) :
    P { s with ctl := c' } = { P s with ctl := c' } := by
  simp only [P, pfs_congr c' s.ctl _ _ h]

theorem inFrame_tail_wait (ctl : List Ctl) (h : ∀ t o, ctl.head? ≠ some (.gen t o)) (t : Nat) :
    inFrame ctl.tail t = inFrame ctl t := by
  cases ctl with
  | nil => rfl
  | cons c rest =>
    cases c with
    | waitEnter r => simp
    | waitLoop r b => simp
    | gen u o => exact absurd rfl (h u o)

theorem P_schedulerFlush (s : State) (root : Nat) (h : ∀ t o, s.ctl.head? ≠ some (.gen t o)) :
    P (s.schedulerFlush root) = P ((P s).schedulerFlush root) := by
  rw [P3.schedulerFlush_eq, P3.schedulerFlush_eq, P_flushable, P_flushRest]
  congr 2
  exact P_setCtl { s with sbatches := s.flushable } (.waitEnter root :: s.ctl.tail)
    (fun t => by simp [inFrame_tail_wait s.ctl h t])

end AsynqModel.Core.P9
