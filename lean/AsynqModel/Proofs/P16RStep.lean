import AsynqModel.Proofs.P16Ops
import AsynqModel.Proofs.P7Cases
import AsynqModel.Proofs.P5Reach
/-!
  P16, part 4: the relation `R` is an invariant of the machine as long as the MAX_TASK_STACK_SIZE guard has not fired:
  `R_reach`.  Consequence: the clauses of `checkC06` about `.ctx` / `.ctxX` events (resume-twice, resume-after-exit,
  pause-twice, unknown-context, exit-without-pause) are never violated by the machine.
-/
namespace AsynqModel.Core.P16
open AsynqModel.Core AsynqModel.Core.Spec AsynqModel.Core.P13 AsynqModel.Core.P5

variable {cx : Ctx}

theorem inert_of_calm (e : Event) (h : P7.calm e = true) : ctxInert e = true := by
  cases e <;> simp_all [P7.calm, ctxInert]

theorem R.ofQ {s r : State} (h : R cx s none) (q : P7.Q P7.calm s r) : R cx r none := by
  obtain ⟨evs, htr, hev⟩ := q.trace
  exact h.frame q.ctxs q.tctxs evs htr fun e he => inert_of_calm e (hev e he)

theorem R.finishTop {s : State} (h : R cx s none) (f : Nat) : R cx (s.finishTop f) none := by
  unfold State.finishTop
  simp only
  refine R.emit ?_ _ (by rfl)
  refine R.emit ?_ _ (by rfl)
  refine R.emit ?_ _ (by rfl)
  exact R.of_eq h rfl rfl rfl

theorem J_updTask {s : State} (j : J s [] []) (t : Nat) (g : TaskSt → TaskSt) (h1 : ∀ x, (g x).ctxs = x.ctxs)
    (h2 : ∀ x, (g x).ctxActive = x.ctxActive) (h3 : ∀ x, (g x).conts = x.conts) : J (s.updTask t g) [] [] := by
  obtain ⟨a1, a2, a3, a4, a5, a6, a7, a8, a9, a10, a11, a12⟩ := j
  have e1 : ∀ u, ((s.updTask t g).task u).ctxs = (s.task u).ctxs := fun u => task_updTask_field s t u g (·.ctxs) h1
  have e2 : ∀ u, ((s.updTask t g).task u).ctxActive = (s.task u).ctxActive :=
    fun u => task_updTask_field s t u g (·.ctxActive) h2
  have e3 : ∀ u, ((s.updTask t g).task u).conts = (s.task u).conts := fun u => task_updTask_field s t u g (·.conts) h3
  have hr : ∀ c, resumedD (s.updTask t g) c = resumedD s c := fun c => rfl
  refine ⟨?_, ?_, ?_, ?_, ?_, ?_, ?_, ?_, ?_, ?_, ?_, ?_⟩ <;>
    simp only [e1, e2, e3, updTask_ctxs, updTask_trace, hr] <;> assumption

theorem R_step {s : State} (i : I s) (pi : P2.PInv s) (co : P3.Core s) (h : R cx s none)
    (hg : (step s).guardFired = false) : R cx (step s) none := by
  have j := i.j
  cases P7.step_cases s pi.items co.raising with
  | neutral q _ _ => exact h.ofQ q
  | top f _ e => rw [e]; exact h.finishTop f
  | enterLoop _ _ _ _ q _ _ => exact h.ofQ q
  | pop _ _ _ _ _ _ _ _ _ q _ _ => exact h.ofQ q
  | suspend root base rest t stk hctl hst hlen hk hnc hsched e =>
    rw [e]
    have ht : t < s.futs.length := lt_of_kind_task s t hk
    have j1 := J_updTask j t (fun ts => { ts with depsSched := false }) (fun _ => rfl) (fun _ => rfl) (fun _ => rfl)
    have r1 : R cx (s.updTask t fun ts => { ts with depsSched := false }) none := R.updTask h t _ (fun _ => rfl)
    exact R.of_eq (R_pauseContexts t j1 (by simpa using ht) r1) rfl rfl rfl
  | visit root base rest t stk hctl hst hlen hk hnc hsched ds hds e =>
    rw [e]
    have ht : t < s.futs.length := lt_of_kind_task s t hk
    have j1 := J_updTask j t (fun ts => { ts with depsSched := true }) (fun _ => rfl) (fun _ => rfl) (fun _ => rfl)
    have r1 : R cx (s.updTask t fun ts => { ts with depsSched := true }) none := R.updTask h t _ (fun _ => rfl)
    exact R.of_eq (R_resumeContexts t j1 (by simpa using ht) r1) rfl rfl rfl
  | enterGen root base rest t stk hctl hst hlen hk hnc e =>
    rw [e]
    have ht : t < s.futs.length := lt_of_kind_task s t hk
    exact R.of_eq (R_resumeContexts t j ht h) rfl rfl rfl
  | gen t old rest hctl _ _ g =>
    have hm : t ∈ P2.gens s.ctl := by rw [hctl]; simp [P2.gens]
    have ht : t < s.futs.length := lt_of_kind_task s t (pi.genKind t hm)
    have hact : s.active = some t := by
      have ha := co.active
      rw [hctl, gensOf_cons_gen] at ha
      exact (P3.activeChain_cons.1 ha).1
    cases g with
    | neutral q => exact h.ofQ q
    | withCtx c b k s0 h0 e =>
      rw [e]
      have hs0 : s0.futs = s.futs ∧ s0.ctxs = s.ctxs ∧ s0.trace = s.trace ∧ s0.active = s.active := by
        rcases h0 with rfl | ⟨var, rfl⟩
        · exact ⟨rfl, rfl, rfl, rfl⟩
        · exact ⟨by simp, by simp, by simp, by simp⟩
      have r0 : R cx s0 none := R.of_eq h hs0.1 hs0.2.1 hs0.2.2.1
      have hlen : s.ctxs.length = s0.ctxs.length := by rw [hs0.2.1]
      rw [hlen]
      have r1 := r0.mkCtx t c (by rw [hs0.2.2.2]; exact hact) (by rw [hs0.1]; exact ht)
      refine R.updTask ?_ t _ (fun _ => rfl)
      split
      · exact r1
      · have f := flagOp_resume (newCtx s0 s0.ctxs.length t c) s0.ctxs.length
        have hx : (W (newCtx s0 s0.ctxs.length t c)).ctx? s0.ctxs.length =
            some ({ owner := t, kind := c } : CtxW) := by
          have e' : (newCtx s0 s0.ctxs.length t c).trace = .ctxN s0.ctxs.length t c :: s0.trace := by
            unfold newCtx
            simp only
            split <;> rfl
          show (obs (newCtx s0 s0.ctxs.length t c).trace).ctx? _ = _
          rw [e']
          show (watchEvent (W s0) (.ctxN s0.ctxs.length t c)).ctx? _ = _
          rw [lookup_ctxN, if_pos rfl]
        exact r1.flag f hx rfl (fun _ => rfl)
    | endwith cid k cs hconts e =>
      rw [e]
      refine R.updTask ?_ t _ (fun _ => rfl)
      exact R_ctxExit t cid j (by rw [hconts]; simp) (by simp) h
    | finish o hnc e =>
      rw [e]
      unfold State.leaveGen
      exact R.of_eq (R.updTask (R.complete (R.updTask (R_exitAll t j h) t (fun ts => { ts with pending := false })
        (fun _ => rfl)) t o) t (fun ts => { ts with depsSched := false }) (fun _ => rfl)) rfl rfl rfl
  | guard hgf => rw [hgf] at hg; cases hg

theorem R_reach {s : State} (h : Reach s) (hg : s.guardFired = false) : R cx s none := by
  induction h with
  | init cfg tops choices => exact R.init cfg tops choices
  | @step s hs ih =>
    have hg0 := P3.guard_mono s hg
    exact R_step (I_reach hs) (P2.pinv_reach hs) (P3.reach_core s hs hg0).1 (ih hg0) hg

end AsynqModel.Core.P16
