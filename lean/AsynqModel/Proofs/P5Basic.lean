import AsynqModel.Core.Reach
/-!
  P5 (C06 / C07): basic projection lemmas for the helpers of the machine, as far as contexts are concerned.
-/
namespace AsynqModel.Core.P5
open AsynqModel.Core

theorem lt_of_getElem?_some {α : Type} {l : List α} {i : Nat} {x : α} (h : l[i]? = some x) : i < l.length := by
  rcases Nat.lt_or_ge i l.length with h' | h'
  · exact h'
  · rw [List.getElem?_eq_none h'] at h; cases h

/-! ### futures and tasks -/

theorem fut_setFut (s : State) (f g : Nat) (x : Fut) :
    (s.setFut f x).fut g = if g = f ∧ f < s.futs.length then x else s.fut g := by
  unfold State.setFut State.fut
  simp only [List.getD_eq_getElem?_getD, List.getElem?_set]
  by_cases h1 : f = g
  · subst h1
    by_cases h2 : f < s.futs.length <;> simp [h2]
  · have : ¬ g = f := fun h => h1 h.symm
    simp [h1, this]

@[simp] theorem setFut_ctxs (s : State) (f : Nat) (x : Fut) : (s.setFut f x).ctxs = s.ctxs := rfl
@[simp] theorem setFut_sv (s : State) (f : Nat) (x : Fut) : (s.setFut f x).sv = s.sv := rfl
@[simp] theorem setFut_trace (s : State) (f : Nat) (x : Fut) : (s.setFut f x).trace = s.trace := rfl
@[simp] theorem setFut_ctl (s : State) (f : Nat) (x : Fut) : (s.setFut f x).ctl = s.ctl := rfl
@[simp] theorem setFut_active (s : State) (f : Nat) (x : Fut) : (s.setFut f x).active = s.active := rfl
@[simp] theorem setFut_stack (s : State) (f : Nat) (x : Fut) : (s.setFut f x).stack = s.stack := rfl
@[simp] theorem setFut_stuck (s : State) (f : Nat) (x : Fut) : (s.setFut f x).stuck = s.stuck := rfl
@[simp] theorem setFut_raising (s : State) (f : Nat) (x : Fut) : (s.setFut f x).raising = s.raising := rfl
@[simp] theorem setFut_guardFired (s : State) (f : Nat) (x : Fut) : (s.setFut f x).guardFired = s.guardFired := rfl
@[simp] theorem setFut_cfg (s : State) (f : Nat) (x : Fut) : (s.setFut f x).cfg = s.cfg := rfl
@[simp] theorem setFut_len (s : State) (f : Nat) (x : Fut) : (s.setFut f x).futs.length = s.futs.length := by
  simp [State.setFut]

@[simp] theorem updTask_ctxs (s : State) (t : Nat) (g : TaskSt → TaskSt) : (s.updTask t g).ctxs = s.ctxs := rfl
@[simp] theorem updTask_sv (s : State) (t : Nat) (g : TaskSt → TaskSt) : (s.updTask t g).sv = s.sv := rfl
@[simp] theorem updTask_trace (s : State) (t : Nat) (g : TaskSt → TaskSt) : (s.updTask t g).trace = s.trace := rfl
@[simp] theorem updTask_ctl (s : State) (t : Nat) (g : TaskSt → TaskSt) : (s.updTask t g).ctl = s.ctl := rfl
@[simp] theorem updTask_active (s : State) (t : Nat) (g : TaskSt → TaskSt) : (s.updTask t g).active = s.active := rfl
@[simp] theorem updTask_stack (s : State) (t : Nat) (g : TaskSt → TaskSt) : (s.updTask t g).stack = s.stack := rfl
@[simp] theorem updTask_stuck (s : State) (t : Nat) (g : TaskSt → TaskSt) : (s.updTask t g).stuck = s.stuck := rfl
@[simp] theorem updTask_raising (s : State) (t : Nat) (g : TaskSt → TaskSt) : (s.updTask t g).raising = s.raising := rfl
@[simp] theorem updTask_guardFired (s : State) (t : Nat) (g : TaskSt → TaskSt) :
    (s.updTask t g).guardFired = s.guardFired := rfl
@[simp] theorem updTask_cfg (s : State) (t : Nat) (g : TaskSt → TaskSt) : (s.updTask t g).cfg = s.cfg := rfl
@[simp] theorem updTask_len (s : State) (t : Nat) (g : TaskSt → TaskSt) :
    (s.updTask t g).futs.length = s.futs.length := by
  simp [State.updTask]

theorem fut_updTask (s : State) (t u : Nat) (g : TaskSt → TaskSt) :
    (s.updTask t g).fut u = if u = t ∧ t < s.futs.length then { s.fut t with ts := g (s.fut t).ts } else s.fut u := by
  simp [State.updTask, fut_setFut]

theorem task_updTask (s : State) (t u : Nat) (g : TaskSt → TaskSt) :
    (s.updTask t g).task u = if u = t ∧ t < s.futs.length then g (s.task t) else s.task u := by
  simp only [State.task, fut_updTask]
  split <;> rfl

theorem task_updTask_ne (s : State) (t u : Nat) (g : TaskSt → TaskSt) (h : u ≠ t) :
    (s.updTask t g).task u = s.task u := by
  simp [task_updTask, h]

theorem task_updTask_self (s : State) (t : Nat) (g : TaskSt → TaskSt) (h : t < s.futs.length) :
    (s.updTask t g).task t = g (s.task t) := by
  simp [task_updTask, h]

theorem out_updTask (s : State) (t f : Nat) (g : TaskSt → TaskSt) : (s.updTask t g).out f = s.out f := by
  simp only [State.out, fut_updTask]
  split
  · next h => rw [h.1]
  · rfl

theorem computed_updTask (s : State) (t f : Nat) (g : TaskSt → TaskSt) :
    (s.updTask t g).computed f = s.computed f := by
  simp [State.computed, out_updTask]

theorem kind_updTask (s : State) (t f : Nat) (g : TaskSt → TaskSt) : ((s.updTask t g).fut f).kind = (s.fut f).kind := by
  simp only [fut_updTask]
  split
  · next h => rw [h.1]
  · rfl

/-- a task out of range is the default task -/
theorem task_default (s : State) (t : Nat) (h : s.futs.length ≤ t) : s.task t = {} := by
  simp [State.task, State.fut, List.getD_eq_getElem?_getD, List.getElem?_eq_none h]

theorem fut_default (s : State) (t : Nat) (h : s.futs.length ≤ t) : s.fut t = {} := by
  simp [State.fut, List.getD_eq_getElem?_getD, List.getElem?_eq_none h]

/-- a field-preserving update of a task keeps that field of every task -/
theorem task_updTask_field {α : Type} (s : State) (t u : Nat) (g : TaskSt → TaskSt) (p : TaskSt → α)
    (h : ∀ x, p (g x) = p x) : p ((s.updTask t g).task u) = p (s.task u) := by
  rw [task_updTask]
  split
  · next h' => rw [h, h'.1]
  · rfl

/-! ### emit -/

@[simp] theorem emit_futs (s : State) (e : Event) : (s.emit e).futs = s.futs := rfl
@[simp] theorem emit_ctxs (s : State) (e : Event) : (s.emit e).ctxs = s.ctxs := rfl
@[simp] theorem emit_sv (s : State) (e : Event) : (s.emit e).sv = s.sv := rfl
@[simp] theorem emit_trace (s : State) (e : Event) : (s.emit e).trace = e :: s.trace := rfl
@[simp] theorem emit_ctl (s : State) (e : Event) : (s.emit e).ctl = s.ctl := rfl
@[simp] theorem emit_active (s : State) (e : Event) : (s.emit e).active = s.active := rfl
@[simp] theorem emit_stack (s : State) (e : Event) : (s.emit e).stack = s.stack := rfl
@[simp] theorem emit_stuck (s : State) (e : Event) : (s.emit e).stuck = s.stuck := rfl
@[simp] theorem emit_raising (s : State) (e : Event) : (s.emit e).raising = s.raising := rfl
@[simp] theorem emit_guardFired (s : State) (e : Event) : (s.emit e).guardFired = s.guardFired := rfl
@[simp] theorem emit_cfg (s : State) (e : Event) : (s.emit e).cfg = s.cfg := rfl
@[simp] theorem emit_fut (s : State) (e : Event) (f : Nat) : (s.emit e).fut f = s.fut f := rfl
@[simp] theorem emit_task (s : State) (e : Event) (f : Nat) : (s.emit e).task f = s.task f := rfl
@[simp] theorem emit_out (s : State) (e : Event) (f : Nat) : (s.emit e).out f = s.out f := rfl
@[simp] theorem emit_computed (s : State) (e : Event) (f : Nat) : (s.emit e).computed f = s.computed f := rfl

end AsynqModel.Core.P5
