import AsynqModel.Lib.Dedup
import AsynqModel.Proofs.Dedup
/-! C12: invariants of the table alone (no observer, NO hypothesis on the signatures), for every history:
    * `TableWf`: an entry `k ↦ t` always points to an existing, registered, not yet completed task that was
      created under exactly the key `k` (thread and function included);
    * an operation only ever changes the entry of its own key (`opKey`), so an entry survives ANY NUMBER of
      operations on other keys - the table has no capacity. -/
namespace AsynqModel.Dedup
set_option linter.unusedSimpArgs false

/-- every entry of the table points to a live task created under that very key -/
def TableWf (s : St) : Prop :=
  ∀ (k : Key) (t : Nat), mget s.table k = some t →
    ∃ task, s.tasks[t]? = some task ∧ task.key = k ∧ task.reg = true ∧ task.out = none

theorem wf_init : TableWf St.init := by
  intro k t h; simp [St.init, mget] at h

/-- replacing task `t` by one with the same key / registration / outcome keeps the invariant -/
theorem wf_setTask (s : St) (h : TableWf s) (t : Nat) (task task' : Task) (ht : s.tasks[t]? = some task)
    (hk : task'.key = task.key) (hreg : task'.reg = task.reg) (ho : task'.out = task.out) :
    TableWf (setTask s t task') := by
  have hlt : t < s.tasks.length := (List.getElem?_eq_some_iff.mp ht).1
  intro k t0 hm
  obtain ⟨a, ha, hka, hra, hoa⟩ := h k t0 hm
  simp only [setTask, List.getElem?_set]
  by_cases hi : t = t0
  · subst hi
    rw [ht] at ha
    injection ha with ha
    subst ha
    exact ⟨task', by simp [hlt], by rw [hk, hka], by rw [hreg, hra], by rw [ho, hoa]⟩
  · exact ⟨a, by simp [hi, ha], hka, hra, hoa⟩

/-- appending a task keeps every old entry valid -/
theorem wf_append_old (s : St) (h : TableWf s) (task' : Task) (k : Key) (t : Nat) (hm : mget s.table k = some t) :
    ∃ task, (s.tasks ++ [task'])[t]? = some task ∧ task.key = k ∧ task.reg = true ∧ task.out = none := by
  obtain ⟨a, ha, hka, hra, hoa⟩ := h k t hm
  have hlt : t < s.tasks.length := (List.getElem?_eq_some_iff.mp ha).1
  exact ⟨a, by rw [List.getElem?_append_left hlt]; exact ha, hka, hra, hoa⟩

theorem wf_create (s : St) (h : TableWf s) (d : FnDecl) (args : List Nat) (kw : List (Nat × Nat)) (key : Key)
    (reg : Bool) : TableWf (create s d args kw key reg).1 := by
  simp only [create]
  split
  · exact h
  · cases reg with
    | false =>
      intro k t hm
      exact wf_append_old s h _ k t hm
    | true =>
      intro k t hm
      simp only [↓reduceIte, mget_mset] at hm
      split at hm
      · rename_i e
        injection hm with hm
        subst hm
        exact ⟨_, List.getElem?_concat_length, e.symm, rfl, rfl⟩
      · exact wf_append_old s h _ k t hm

theorem wf_step (fns : List FnDecl) (s : St) (op : Op) (h : TableWf s) : TableWf (step fns s op).1 := by
  cases op with
  | call c =>
    simp only [step]
    split
    · exact h
    · split
      · exact h
      · split
        · exact wf_create s h _ _ _ _ _
        · split
          · exact h
          · split
            · exact wf_create s h _ _ _ _ _
            · exact h
  | dirty c =>
    simp only [step]
    split
    · exact h
    · split
      · exact h
      · intro k t hm
        simp only [mget_merase] at hm
        split at hm
        · contradiction
        · exact h k t hm
  | start t =>
    simp only [step]
    split
    · exact h
    · rename_i task ht
      split
      · exact h
      · exact wf_setTask s h t task _ ht rfl rfl rfl
  | resume t thrown =>
    simp only [step]
    split
    · exact h
    · rename_i task ht
      split
      · exact h
      · split
        · exact h
        · exact wf_setTask s h t task _ ht rfl rfl rfl
  | suspend t =>
    simp only [step]
    split
    · exact h
    · rename_i task ht
      split
      · exact h
      · exact wf_setTask s h t task _ ht rfl rfl rfl
  | complete t o =>
    simp only [step]
    split
    · exact h
    · rename_i task ht
      split
      · exact h
      · -- an entry that points to t can only be the one under t's own key, and then t is registered
        have honly : ∀ k, mget s.table k = some t → k = task.key ∧ task.reg = true := by
          intro k hk
          obtain ⟨a, ha, hka, hra, _⟩ := h k t hk
          rw [ht] at ha; injection ha with ha; subst ha
          exact ⟨hka.symm, hra⟩
        have hother : ∀ k t0, t0 ≠ t → mget s.table k = some t0 →
            ∃ a, (setTask s t { task with running := false, out := some o }).tasks[t0]? = some a ∧
              a.key = k ∧ a.reg = true ∧ a.out = none := by
          intro k t0 hne hm0
          obtain ⟨a, ha, hka, hra, hoa⟩ := h k t0 hm0
          have : ¬ t = t0 := fun e => hne e.symm
          exact ⟨a, by simp [setTask, List.getElem?_set, this, ha], hka, hra, hoa⟩
        split
        · rename_i hc
          intro k t0 hm0
          simp only [setTask, mget_merase] at hm0
          split at hm0
          · contradiction
          · rename_i hne
            by_cases e : t0 = t
            · subst e; exact absurd (honly k hm0).1 hne
            · exact hother k t0 e hm0
        · rename_i hc
          intro k t0 hm0
          simp only [setTask] at hm0
          by_cases e : t0 = t
          · subst e
            obtain ⟨hk, hreg⟩ := honly k hm0
            subst hk
            exact absurd (by simp [setTask, hreg, hm0]) hc
          · exact hother k t0 e hm0
  | threadEnd th => exact h
  | outside n => exact h
  | await t => simp only [step]; split <;> exact h
  | aioCall c => exact h

theorem wf_final (fns : List FnDecl) (ops : List Op) : ∀ s, TableWf s → TableWf (finalState fns s ops) := by
  induction ops with
  | nil => intro s h; exact h
  | cons op ops ih => intro s h; exact ih _ (wf_step fns s op h)

/-- `create` only writes the entry of the key it is given -/
theorem create_keeps_other (s : St) (d : FnDecl) (args : List Nat) (kw : List (Nat × Nat)) (key k : Key) (reg : Bool)
    (hne : ¬ k = key) : mget (create s d args kw key reg).1.table k = mget s.table k := by
  simp only [create]
  split
  · rfl
  · cases reg <;> simp [mget_mset, hne]

/-- an operation changes at most the entry of its own key -/
theorem step_keeps_other (fns : List FnDecl) (s : St) (op : Op) (k : Key) (hne : opKey fns s op ≠ some k) :
    mget (step fns s op).1.table k = mget s.table k := by
  cases op with
  | call c =>
    simp only [opKey] at hne
    simp only [step]
    split
    · rfl
    · rename_i d hd
      simp only [hd] at hne
      split
      · rfl
      · rename_i tup hk
        simp only [hk] at hne
        have hkne : ¬ k = { tup := tup, th := c.th, fn := c.fn } := fun e => hne (by rw [e])
        split
        · exact create_keeps_other s _ _ _ _ k _ hkne
        · split
          · rfl
          · split
            · exact create_keeps_other s _ _ _ _ k _ hkne
            · rfl
  | dirty c =>
    simp only [opKey] at hne
    simp only [step]
    split
    · rfl
    · rename_i d hd
      simp only [hd] at hne
      split
      · rfl
      · rename_i tup hk
        simp only [hk] at hne
        have hkne : ¬ k = { tup := tup, th := c.th, fn := c.fn } := fun e => hne (by rw [e])
        simp [mget_merase, hkne]
  | start t =>
    simp only [step]
    split
    · rfl
    · split <;> rfl
  | resume t thrown =>
    simp only [step]
    split
    · rfl
    · split
      · rfl
      · split <;> rfl
  | suspend t =>
    simp only [step]
    split
    · rfl
    · split <;> rfl
  | complete t o =>
    simp only [opKey] at hne
    simp only [step]
    split
    · rfl
    · rename_i task ht
      simp only [ht, Option.map_some] at hne
      have hkne : ¬ k = task.key := fun e => hne (by rw [e])
      split
      · rfl
      · split
        · simp [setTask, mget_merase, hkne]
        · rfl
  | threadEnd th => rfl
  | outside n => rfl
  | await t => simp only [step]; split <;> rfl
  | aioCall c => rfl

theorem avoids_keeps (fns : List FnDecl) (k : Key) (ops : List Op) :
    ∀ s, avoids fns k s ops = true → mget (finalState fns s ops).table k = mget s.table k := by
  induction ops with
  | nil => intro s _; rfl
  | cons op ops ih =>
    intro s h
    simp only [avoids, Bool.and_eq_true, bne_iff_ne, ne_eq] at h
    simp only [finalState]
    rw [ih _ h.2]
    exact step_keeps_other fns s op k h.1

/-! ### the in-flight period of a task (weaker than `avoids`: calls of the key itself are allowed) -/

theorem opKey_call (fns : List FnDecl) (s : St) (c : Spell) : opKey fns s (.call c) = callKey fns c := by
  simp only [opKey, callKey]

theorem opKey_dirty (fns : List FnDecl) (s : St) (c : Spell) : opKey fns s (.dirty c) = callKey fns c := by
  simp only [opKey, callKey]

theorem create_unreg_table (s : St) (d : FnDecl) (args : List Nat) (kw : List (Nat × Nat)) (key : Key) :
    (create s d args kw key false).1.table = s.table := by
  simp only [create]
  split <;> rfl

/-- a call whose key already has an entry never changes the table -/
theorem call_keeps_entry (fns : List FnDecl) (s : St) (c : Spell) (k : Key) (t0 : Nat)
    (hk : callKey fns c = some k) (hm : mget s.table k = some t0) :
    (step fns s (.call c)).1.table = s.table := by
  simp only [callKey] at hk
  simp only [step]
  split
  · rfl
  · rename_i d hd
    simp only [hd] at hk
    split
    · rfl
    · rename_i tup htup
      simp only [htup, Option.some.injEq] at hk
      subst hk
      simp only [hm]
      split
      · rfl
      · split
        · exact create_unreg_table _ _ _ _ _
        · rfl

/-- one operation that does not end the in-flight period of `t0` under `k` leaves the entry in place -/
theorem calm_step (fns : List FnDecl) (s : St) (k : Key) (t0 : Nat) (op : Op)
    (hm : mget s.table k = some t0) (hc : calmOp fns k t0 op = true) :
    mget (step fns s op).1.table k = some t0 := by
  cases op with
  | call c =>
    by_cases hk : callKey fns c = some k
    · rw [call_keeps_entry fns s c k t0 hk hm]; exact hm
    · rw [step_keeps_other fns s _ k (by rw [opKey_call]; exact hk)]; exact hm
  | dirty c =>
    simp only [calmOp, bne_iff_ne, ne_eq] at hc
    rw [step_keeps_other fns s _ k (by rw [opKey_dirty]; exact hc)]; exact hm
  | complete t o =>
    simp only [calmOp, bne_iff_ne, ne_eq] at hc
    simp only [step]
    split
    · exact hm
    · rename_i task ht
      split
      · exact hm
      · split
        · rename_i hcnd
          simp only [setTask, Bool.and_eq_true, beq_iff_eq] at hcnd
          have hne : ¬ k = task.key := by
            intro e
            rw [← e, hm] at hcnd
            exact hc (by injection hcnd.2 with h; exact h.symm)
          simp [setTask, mget_merase, hne, hm]
        · exact hm
  | start t => rw [step_keeps_other fns s _ k (by simp [opKey])]; exact hm
  | resume t b => rw [step_keeps_other fns s _ k (by simp [opKey])]; exact hm
  | suspend t => rw [step_keeps_other fns s _ k (by simp [opKey])]; exact hm
  | threadEnd th => exact hm
  | outside n => exact hm
  | await t => rw [step_keeps_other fns s _ k (by simp [opKey])]; exact hm
  | aioCall c => exact hm

theorem calm_keeps (fns : List FnDecl) (k : Key) (t0 : Nat) (ops : List Op) :
    ∀ s, mget s.table k = some t0 → calm fns k t0 ops = true → mget (finalState fns s ops).table k = some t0 := by
  induction ops with
  | nil => intro s hm _; exact hm
  | cons op ops ih =>
    intro s hm hc
    simp only [calm, List.all_cons, Bool.and_eq_true] at hc
    simp only [finalState]
    exact ih _ (calm_step fns s k t0 op hm hc.1) (by simpa [calm] using hc.2)

theorem calm_prefix (fns : List FnDecl) (k : Key) (t0 : Nat) (pre post : List Op)
    (h : calm fns k t0 (pre ++ post) = true) : calm fns k t0 pre = true := by
  simp only [calm, List.all_append, Bool.and_eq_true] at h
  exact h.1

theorem avoids_calm (fns : List FnDecl) (k : Key) (t0 : Nat) (ops : List Op) :
    ∀ s, TableWf s → mget s.table k = some t0 → avoids fns k s ops = true → calm fns k t0 ops = true := by
  induction ops with
  | nil => intro _ _ _ _; rfl
  | cons op ops ih =>
    intro s hwf hm h
    simp only [avoids, Bool.and_eq_true, bne_iff_ne, ne_eq] at h
    have hm' : mget (step fns s op).1.table k = some t0 := by
      rw [step_keeps_other fns s op k h.1]; exact hm
    have hrest := ih _ (wf_step fns s op hwf) hm' h.2
    simp only [calm, List.all_cons, Bool.and_eq_true]
    refine ⟨?_, by simpa [calm] using hrest⟩
    cases op with
    | dirty c => simp only [calmOp, bne_iff_ne, ne_eq]; rw [← opKey_dirty fns s c]; exact h.1
    | complete t o =>
      simp only [calmOp, bne_iff_ne, ne_eq]
      intro e
      subst e
      obtain ⟨task, ht, hkey, _, _⟩ := hwf k t hm
      exact h.1 (by simp [opKey, ht, hkey])
    | _ => rfl

/-! ### the size of the table -/

theorem merase_absent {κ : Type} [DecidableEq κ] (m : List (κ × Nat)) (x : κ) (h : mget m x = none) : merase m x = m := by
  induction m with
  | nil => rfl
  | cons p m ih =>
    obtain ⟨k, v⟩ := p
    simp only [mget] at h
    split at h
    · contradiction
    · rename_i hk
      simp only [merase, List.filter_cons, hk, decide_false, Bool.not_false, ↓reduceIte, List.cons.injEq, true_and]
      exact ih h

theorem merase_length_le {κ : Type} [DecidableEq κ] (m : List (κ × Nat)) (x : κ) : (merase m x).length ≤ m.length :=
  List.length_filter_le _ _

theorem create_size (s : St) (d : FnDecl) (args : List Nat) (kw : List (Nat × Nat)) (key : Key) (reg : Bool)
    (h : reg = true → mget s.table key = none) :
    ((create s d args kw key reg).2 = .typeError ∧ (create s d args kw key reg).1 = s) ∨
    ((create s d args kw key reg).2 = .ret s.tasks.length true ∧
      (create s d args kw key reg).1.table.length = s.table.length + (if reg then 1 else 0)) := by
  simp only [create]
  split
  · exact Or.inl ⟨rfl, rfl⟩
  · refine Or.inr ⟨rfl, ?_⟩
    cases reg with
    | false => simp
    | true => simp [mset, merase_absent _ _ (h rfl)]

/-! ### the keys of the table are pairwise distinct (`mset` erases first), so erasing a key removes at most one entry -/

def keysNodup {κ : Type} (m : List (κ × Nat)) : Prop := (m.map (·.1)).Nodup

theorem mget_none_of_not_mem {κ : Type} [DecidableEq κ] (m : List (κ × Nat)) (x : κ) (h : x ∉ m.map (·.1)) :
    mget m x = none := by
  induction m with
  | nil => rfl
  | cons p m ih =>
    obtain ⟨k, v⟩ := p
    simp only [List.map_cons, List.mem_cons, not_or] at h
    simp only [mget]
    split
    · rename_i e; exact absurd e.symm h.1
    · exact ih h.2

theorem merase_nodup {κ : Type} [DecidableEq κ] (m : List (κ × Nat)) (x : κ) (h : keysNodup m) : keysNodup (merase m x) := by
  unfold keysNodup merase
  exact List.Nodup.sublist (List.Sublist.map _ (List.filter_sublist)) h

theorem not_mem_merase {κ : Type} [DecidableEq κ] (m : List (κ × Nat)) (x : κ) : x ∉ (merase m x).map (·.1) := by
  intro h
  simp only [merase, List.mem_map, List.mem_filter] at h
  obtain ⟨p, ⟨_, hp⟩, e⟩ := h
  simp [e] at hp

theorem mset_nodup {κ : Type} [DecidableEq κ] (m : List (κ × Nat)) (x : κ) (t : Nat) (h : keysNodup m) :
    keysNodup (mset m x t) := by
  unfold keysNodup mset
  simp only [List.map_cons, List.nodup_cons]
  exact ⟨not_mem_merase m x, merase_nodup m x h⟩

theorem merase_length_ge {κ : Type} [DecidableEq κ] (m : List (κ × Nat)) (x : κ) (h : keysNodup m) :
    m.length ≤ (merase m x).length + 1 := by
  induction m with
  | nil => simp
  | cons p m ih =>
    obtain ⟨k, v⟩ := p
    unfold keysNodup at h
    simp only [List.map_cons, List.nodup_cons] at h
    by_cases e : k = x
    · subst e
      have : merase ((k, v) :: m) k = merase m k := by simp [merase]
      rw [this, merase_absent m k (mget_none_of_not_mem m k h.1)]
      simp
    · have : merase ((k, v) :: m) x = (k, v) :: merase m x := by simp [merase, e]
      rw [this]
      have := ih h.2
      simp only [List.length_cons]
      omega

theorem merase_length_present {κ : Type} [DecidableEq κ] (m : List (κ × Nat)) (x : κ) (t : Nat) (h : keysNodup m)
    (hm : mget m x = some t) : (merase m x).length + 1 = m.length := by
  induction m with
  | nil => simp [mget] at hm
  | cons p m ih =>
    obtain ⟨k, v⟩ := p
    unfold keysNodup at h
    simp only [List.map_cons, List.nodup_cons] at h
    by_cases e : k = x
    · subst e
      have : merase ((k, v) :: m) k = merase m k := by simp [merase]
      rw [this, merase_absent m k (mget_none_of_not_mem m k h.1)]
      simp
    · have : merase ((k, v) :: m) x = (k, v) :: merase m x := by simp [merase, e]
      rw [this]
      simp only [mget, e, ↓reduceIte] at hm
      have := ih h.2 hm
      simp only [List.length_cons]
      omega

def TableNodup (s : St) : Prop := keysNodup s.table

theorem nodup_init : TableNodup St.init := by simp [TableNodup, keysNodup, St.init]

theorem nodup_create (s : St) (h : TableNodup s) (d : FnDecl) (args : List Nat) (kw : List (Nat × Nat)) (key : Key)
    (reg : Bool) : TableNodup (create s d args kw key reg).1 := by
  simp only [create]
  split
  · exact h
  · cases reg with
    | false => exact h
    | true => exact mset_nodup _ _ _ h

theorem nodup_step (fns : List FnDecl) (s : St) (op : Op) (h : TableNodup s) : TableNodup (step fns s op).1 := by
  cases op with
  | call c =>
    simp only [step]
    split
    · exact h
    · split
      · exact h
      · split
        · exact nodup_create s h _ _ _ _ _
        · split
          · exact h
          · split
            · exact nodup_create s h _ _ _ _ _
            · exact h
  | dirty c =>
    simp only [step]
    split
    · exact h
    · split
      · exact h
      · exact merase_nodup _ _ h
  | start t =>
    simp only [step]
    split
    · exact h
    · split <;> exact h
  | resume t thrown =>
    simp only [step]
    split
    · exact h
    · split
      · exact h
      · split <;> exact h
  | suspend t =>
    simp only [step]
    split
    · exact h
    · split <;> exact h
  | complete t o =>
    simp only [step]
    split
    · exact h
    · split
      · exact h
      · split
        · exact merase_nodup _ _ h
        · exact h
  | threadEnd th => exact h
  | outside n => exact h
  | await t => simp only [step]; split <;> exact h
  | aioCall c => exact h


/-- what the model does to the size of the table is what `sizeBound` allows -/
theorem step_size (fns : List FnDecl) (s : St) (op : Op) (hn : TableNodup s) :
    sizeBound s.table.length (observe fns s op).2 = true := by
  cases op with
  | call c =>
    simp only [observe, step]
    split
    · simp [sizeBound]
    · rename_i d hd
      split
      · simp [sizeBound]
      · rename_i tup hk
        split
        · rename_i hm
          rcases create_size s d (effArgs d c) c.kw { tup := tup, th := c.th, fn := c.fn } true (fun _ => hm) with ⟨h1, h2⟩ | ⟨h1, h2⟩
          · simp only [sizeBound, h1, h2]; simp
          · simp only [sizeBound, h1, h2, ↓reduceIte]; simp
        · split
          · simp [sizeBound]
          · split
            · rcases create_size s d (effArgs d c) c.kw { tup := tup, th := c.th, fn := c.fn } false (fun h => by contradiction) with ⟨h1, h2⟩ | ⟨h1, h2⟩
              · simp only [sizeBound, h1, h2]; simp
              · simp only [sizeBound, h1, h2]; simp
            · simp [sizeBound]
  | dirty c =>
    simp only [observe, step]
    split
    · simp [sizeBound]
    · split
      · simp [sizeBound]
      · simp only [sizeBound, Bool.and_eq_true, decide_eq_true_eq]
        exact ⟨merase_length_le s.table _, merase_length_ge s.table _ hn⟩
  | start t =>
    simp only [observe, step]
    split
    · simp [sizeBound]
    · split <;> simp [sizeBound, setTask]
  | resume t b =>
    simp only [observe, step]
    split
    · simp [sizeBound]
    · split
      · simp [sizeBound]
      · split <;> simp [sizeBound, setTask]
  | suspend t =>
    simp only [observe, step]
    split
    · simp [sizeBound]
    · split <;> simp [sizeBound, setTask]
  | complete t o =>
    simp only [observe, step]
    split
    · simp [sizeBound]
    · split
      · simp [sizeBound]
      · split
        · simp only [sizeBound, setTask, Bool.and_eq_true]
          exact ⟨decide_eq_true (merase_length_le s.table _), decide_eq_true (merase_length_ge s.table _ hn)⟩
        · simp [sizeBound, setTask]
  | threadEnd th => simp [observe, step, sizeBound]
  | outside n => simp [observe, step, sizeBound]
  | await t => simp only [observe, step]; split <;> simp [sizeBound]
  | aioCall c => simp [observe, step, sizeBound]

/-! ### a body starts at most once -/

def startedAt (s : St) (t : Nat) : Prop := ∃ task, s.tasks[t]? = some task ∧ task.started = true

theorem started_append (s : St) (t : Nat) (x : Task) (tb : List (Key × Nat)) (h : startedAt s t) :
    startedAt { tasks := s.tasks ++ [x], table := tb } t := by
  obtain ⟨task, ht, hs⟩ := h
  have hlt : t < s.tasks.length := (List.getElem?_eq_some_iff.mp ht).1
  exact ⟨task, by simp [List.getElem?_append_left hlt, ht], hs⟩

theorem started_set (s : St) (t t' : Nat) (x : Task) (h : startedAt s t)
    (hx : ∀ task, s.tasks[t']? = some task → task.started = true → x.started = true) :
    startedAt (setTask s t' x) t := by
  obtain ⟨task, ht, hs⟩ := h
  have hlt : t < s.tasks.length := (List.getElem?_eq_some_iff.mp ht).1
  by_cases e : t' = t
  · subst e
    exact ⟨x, by simp [setTask, hlt], hx task ht hs⟩
  · exact ⟨task, by simp [setTask, List.getElem?_set, e, ht], hs⟩

theorem started_create (s : St) (d : FnDecl) (args : List Nat) (kw : List (Nat × Nat)) (key : Key) (reg : Bool)
    (t : Nat) (h : startedAt s t) : startedAt (create s d args kw key reg).1 t := by
  simp only [create]
  split
  · exact h
  · exact started_append s t _ _ h

/-- once started, always started -/
theorem started_step (fns : List FnDecl) (s : St) (op : Op) (t : Nat) (h : startedAt s t) :
    startedAt (step fns s op).1 t := by
  cases op with
  | call c =>
    simp only [step]
    split
    · exact h
    · split
      · exact h
      · split
        · exact started_create _ _ _ _ _ _ _ h
        · split
          · exact h
          · split
            · exact started_create _ _ _ _ _ _ _ h
            · exact h
  | dirty c =>
    simp only [step]
    split
    · exact h
    · split
      · exact h
      · obtain ⟨task, ht, hs⟩ := h
        exact ⟨task, ht, hs⟩
  | start t' =>
    simp only [step]
    split
    · exact h
    · split
      · exact h
      · exact started_set s t t' _ h (fun _ _ _ => rfl)
  | resume t' b =>
    simp only [step]
    split
    · exact h
    · rename_i task ht
      split
      · exact h
      · split
        · exact h
        · exact started_set s t t' _ h (fun x hx hs => by rw [ht] at hx; injection hx with hx; subst hx; exact hs)
  | suspend t' =>
    simp only [step]
    split
    · exact h
    · rename_i task ht
      split
      · exact h
      · exact started_set s t t' _ h (fun x hx hs => by rw [ht] at hx; injection hx with hx; subst hx; exact hs)
  | complete t' o =>
    simp only [step]
    split
    · exact h
    · rename_i task ht
      split
      · exact h
      · have := started_set s t t' { task with running := false, out := some o } h
          (fun x hx hs => by rw [ht] at hx; injection hx with hx; subst hx; exact hs)
        split
        · obtain ⟨a, ha, hs⟩ := this
          exact ⟨a, ha, hs⟩
        · exact this
  | threadEnd th => exact h
  | outside n => exact h
  | await t => simp only [step]; split <;> exact h
  | aioCall c => exact h

theorem bodyStarts_cons (t : Nat) (ob : Obs) (obs : List Obs) :
    bodyStarts t (ob :: obs) = (if isStartOf t ob then 1 else 0) + bodyStarts t obs := by
  simp only [bodyStarts, List.filter_cons]
  split <;> simp <;> omega

/-- a `start` answered with a binding: the task was not started before and is started afterwards -/
theorem start_binding (fns : List FnDecl) (s : St) (t : Nat) (b : Binding)
    (h : (step fns s (.start t)).2 = .binding b) :
    ¬ startedAt s t ∧ startedAt (step fns s (.start t)).1 t := by
  simp only [step] at h ⊢
  cases ht : s.tasks[t]? with
  | none => simp [ht] at h
  | some task =>
    simp only [ht] at h ⊢
    by_cases hc : (task.out.isSome || task.started) = true
    · simp [hc] at h
    · have hlt : t < s.tasks.length := (List.getElem?_eq_some_iff.mp ht).1
      simp only [hc, Bool.false_eq_true, ↓reduceIte]
      constructor
      · intro ⟨a, ha, hs⟩
        rw [ht] at ha; injection ha with ha; subst ha
        simp [hs] at hc
      · exact ⟨{ task with started := true, running := true }, by simp [setTask, hlt], rfl⟩

theorem isStartOf_observe (fns : List FnDecl) (s : St) (op : Op) (t : Nat)
    (h : isStartOf t (observe fns s op).2 = true) :
    op = .start t ∧ ∃ b, (step fns s (.start t)).2 = .binding b := by
  simp only [isStartOf] at h
  split at h
  · rename_i t' b h1 h2
    have h1' : op = .start t' := h1
    subst h1'
    have e : t' = t := by simpa using h
    subst e
    exact ⟨rfl, b, h2⟩
  · contradiction

/-- a started task is not started again -/
theorem no_start_after (fns : List FnDecl) (t : Nat) (ops : List Op) :
    ∀ s, startedAt s t → bodyStarts t (run fns s ops) = 0 := by
  induction ops with
  | nil => intro _ _; rfl
  | cons op ops ih =>
    intro s h
    show bodyStarts t ((observe fns s op).2 :: run fns (step fns s op).1 ops) = 0
    rw [bodyStarts_cons, ih _ (started_step fns s op t h)]
    by_cases hc : isStartOf t (observe fns s op).2 = true
    · obtain ⟨e, b, hb⟩ := isStartOf_observe fns s op t hc
      exact absurd h (start_binding fns s t b hb).1
    · simp [hc]

theorem starts_once (fns : List FnDecl) (t : Nat) (ops : List Op) :
    ∀ s, bodyStarts t (run fns s ops) ≤ 1 := by
  induction ops with
  | nil => intro _; simp [run, bodyStarts]
  | cons op ops ih =>
    intro s
    show bodyStarts t ((observe fns s op).2 :: run fns (step fns s op).1 ops) ≤ 1
    rw [bodyStarts_cons]
    by_cases hc : isStartOf t (observe fns s op).2 = true
    · obtain ⟨e, b, hb⟩ := isStartOf_observe fns s op t hc
      subst e
      rw [no_start_after fns t ops _ (start_binding fns s t b hb).2]
      simp [hc]
    · simp only [hc, Bool.false_eq_true, ↓reduceIte, Nat.zero_add]
      exact ih _

/-! ### the outcome of a task is written once and every reader receives it -/

def outAt (s : St) (t : Nat) (o : Outc) : Prop := ∃ task, s.tasks[t]? = some task ∧ task.out = some o

theorem out_append (s : St) (t : Nat) (o : Outc) (x : Task) (tb : List (Key × Nat)) (h : outAt s t o) :
    outAt { tasks := s.tasks ++ [x], table := tb } t o := by
  obtain ⟨task, ht, hs⟩ := h
  have hlt : t < s.tasks.length := (List.getElem?_eq_some_iff.mp ht).1
  exact ⟨task, by simp [List.getElem?_append_left hlt, ht], hs⟩

theorem out_set (s : St) (t t' : Nat) (o : Outc) (x : Task) (h : outAt s t o)
    (hx : ∀ task, s.tasks[t']? = some task → task.out = some o → x.out = some o) :
    outAt (setTask s t' x) t o := by
  obtain ⟨task, ht, hs⟩ := h
  have hlt : t < s.tasks.length := (List.getElem?_eq_some_iff.mp ht).1
  by_cases e : t' = t
  · subst e
    exact ⟨x, by simp [setTask, hlt], hx task ht hs⟩
  · exact ⟨task, by simp [setTask, List.getElem?_set, e, ht], hs⟩

theorem out_create (s : St) (d : FnDecl) (args : List Nat) (kw : List (Nat × Nat)) (key : Key) (reg : Bool)
    (t : Nat) (o : Outc) (h : outAt s t o) : outAt (create s d args kw key reg).1 t o := by
  simp only [create]
  split
  · exact h
  · exact out_append s t o _ _ h

/-- once a task has an outcome, no operation changes it (a completed task is never completed again) -/
theorem out_step (fns : List FnDecl) (s : St) (op : Op) (t : Nat) (o : Outc) (h : outAt s t o) :
    outAt (step fns s op).1 t o := by
  cases op with
  | call c =>
    simp only [step]
    split
    · exact h
    · split
      · exact h
      · split
        · exact out_create _ _ _ _ _ _ _ _ h
        · split
          · exact h
          · split
            · exact out_create _ _ _ _ _ _ _ _ h
            · exact h
  | dirty c =>
    simp only [step]
    split
    · exact h
    · split
      · exact h
      · obtain ⟨task, ht, hs⟩ := h
        exact ⟨task, ht, hs⟩
  | start t' =>
    simp only [step]
    split
    · exact h
    · rename_i task ht
      split
      · exact h
      · exact out_set s t t' o _ h (fun x hx hs => by rw [ht] at hx; injection hx with hx; subst hx; exact hs)
  | resume t' b =>
    simp only [step]
    split
    · exact h
    · rename_i task ht
      split
      · exact h
      · split
        · exact h
        · exact out_set s t t' o _ h (fun x hx hs => by rw [ht] at hx; injection hx with hx; subst hx; exact hs)
  | suspend t' =>
    simp only [step]
    split
    · exact h
    · rename_i task ht
      split
      · exact h
      · exact out_set s t t' o _ h (fun x hx hs => by rw [ht] at hx; injection hx with hx; subst hx; exact hs)
  | complete t' o' =>
    simp only [step]
    split
    · exact h
    · rename_i task ht
      split
      · exact h
      · rename_i hg
        have := out_set s t t' o { task with running := false, out := some o' } h
          (fun x hx hs => by rw [ht] at hx; injection hx with hx; subst hx; simp [hs] at hg)
        split
        · obtain ⟨a, ha, hs⟩ := this
          exact ⟨a, ha, hs⟩
        · exact this
  | threadEnd th => exact h
  | outside n => exact h
  | await t' => simp only [step]; split <;> exact h
  | aioCall c => exact h

/-- a reader that receives an outcome: the task holds that outcome, and reading changes nothing -/
theorem await_reads (fns : List FnDecl) (s : St) (t : Nat) (o : Outc)
    (h : (step fns s (.await t)).2 = .got (some o)) : outAt s t o ∧ (step fns s (.await t)).1 = s := by
  simp only [step] at h ⊢
  cases ht : s.tasks[t]? with
  | none => simp [ht] at h
  | some task =>
    simp only [ht, Res.got.injEq] at h ⊢
    exact ⟨⟨task, ht, h⟩, trivial⟩

/-- after a task has its outcome, every later reader receives exactly that outcome -/
theorem awaits_after (fns : List FnDecl) (t : Nat) (o : Outc) (ops : List Op) :
    ∀ s, outAt s t o → ∀ ob ∈ run fns s ops, ob.op = .await t → ob.res = .got (some o) := by
  induction ops with
  | nil => intro _ _ ob hob; simp [run] at hob
  | cons op ops ih =>
    intro s h ob hob ha
    have hrun : run fns s (op :: ops) = (observe fns s op).2 :: run fns (step fns s op).1 ops := rfl
    rw [hrun, List.mem_cons] at hob
    rcases hob with e | hob
    · subst e
      have e' : op = .await t := ha
      subst e'
      obtain ⟨task, ht, hs⟩ := h
      simp [observe, step, ht, hs]
    · exact ih _ (out_step fns s op t o h) ob hob ha

end AsynqModel.Dedup
