import AsynqModel.Lib.Dedup
import AsynqModel.Proofs.Dedup
/-! C12: invariants of the table alone (no observer, NO hypothesis on the signatures), for every history:
    * `TableWf`: an entry `k ↦ t` always points to an existing, registered, not yet completed task that was
      created under exactly the key `k` (thread and function included);
    * an operation only ever changes the entry of its own key (`opKey`), so an entry survives ANY NUMBER of
      operations on other keys - the table has no capacity. -/
namespace AsynqModel.Dedup
set_option linter.unusedSimpArgs false

/-- every entry of the table points to a live task created under that very key -/
def TableWf (s : St) : Prop :=
  ∀ (k : Key) (t : Nat), mget s.table k = some t →
    ∃ task, s.tasks[t]? = some task ∧ task.key = k ∧ task.reg = true ∧ task.out = none

theorem wf_init : TableWf St.init := by
  intro k t h; simp [St.init, mget] at h

/-- replacing task `t` by one with the same key / registration / outcome keeps the invariant -/
theorem wf_setTask (s : St) (h : TableWf s) (t : Nat) (task task' : Task) (ht : s.tasks[t]? = some task)
    (hk : task'.key = task.key) (hreg : task'.reg = task.reg) (ho : task'.out = task.out) :
    TableWf (setTask s t task') := by
  have hlt : t < s.tasks.length := (List.getElem?_eq_some_iff.mp ht).1
  intro k t0 hm
  obtain ⟨a, ha, hka, hra, hoa⟩ := h k t0 hm
  simp only [setTask, List.getElem?_set]
  by_cases hi : t = t0
  · subst hi
    rw [ht] at ha
    injection ha with ha
    subst ha
    exact ⟨task', by simp [hlt], by rw [hk, hka], by rw [hreg, hra], by rw [ho, hoa]⟩
  · exact ⟨a, by simp [hi, ha], hka, hra, hoa⟩

/-- appending a task keeps every old entry valid -/
theorem wf_append_old (s : St) (h : TableWf s) (task' : Task) (k : Key) (t : Nat) (hm : mget s.table k = some t) :
    ∃ task, (s.tasks ++ [task'])[t]? = some task ∧ task.key = k ∧ task.reg = true ∧ task.out = none := by
  obtain ⟨a, ha, hka, hra, hoa⟩ := h k t hm
  have hlt : t < s.tasks.length := (List.getElem?_eq_some_iff.mp ha).1
  exact ⟨a, by rw [List.getElem?_append_left hlt]; exact ha, hka, hra, hoa⟩

theorem wf_create (s : St) (h : TableWf s) (d : FnDecl) (args : List Nat) (kw : List (Nat × Nat)) (key : Key)
    (reg : Bool) : TableWf (create s d args kw key reg).1 := by
  simp only [create]
  split
  · exact h
  · cases reg with
    | false =>
      intro k t hm
      exact wf_append_old s h _ k t hm
    | true =>
      intro k t hm
      simp only [↓reduceIte, mget_mset] at hm
      split at hm
      · rename_i e
        injection hm with hm
        subst hm
        exact ⟨_, List.getElem?_concat_length, e.symm, rfl, rfl⟩
      · exact wf_append_old s h _ k t hm

theorem wf_step (fns : List FnDecl) (s : St) (op : Op) (h : TableWf s) : TableWf (step fns s op).1 := by
  cases op with
  | call c =>
    simp only [step]
    split
    · exact h
    · split
      · exact h
      · split
        · exact wf_create s h _ _ _ _ _
        · split
          · exact h
          · split
            · exact wf_create s h _ _ _ _ _
            · exact h
  | dirty c =>
    simp only [step]
    split
    · exact h
    · split
      · exact h
      · intro k t hm
        simp only [mget_merase] at hm
        split at hm
        · contradiction
        · exact h k t hm
  | start t =>
    simp only [step]
    split
    · exact h
    · rename_i task ht
      split
      · exact h
      · exact wf_setTask s h t task _ ht rfl rfl rfl
  | resume t thrown =>
    simp only [step]
    split
    · exact h
    · rename_i task ht
      split
      · exact h
      · split
        · exact h
        · exact wf_setTask s h t task _ ht rfl rfl rfl
  | suspend t =>
    simp only [step]
    split
    · exact h
    · rename_i task ht
      split
      · exact h
      · exact wf_setTask s h t task _ ht rfl rfl rfl
  | complete t o =>
    simp only [step]
    split
    · exact h
    · rename_i task ht
      split
      · exact h
      · -- an entry that points to t can only be the one under t's own key, and then t is registered
        have honly : ∀ k, mget s.table k = some t → k = task.key ∧ task.reg = true := by
          intro k hk
          obtain ⟨a, ha, hka, hra, _⟩ := h k t hk
          rw [ht] at ha; injection ha with ha; subst ha
          exact ⟨hka.symm, hra⟩
        have hother : ∀ k t0, t0 ≠ t → mget s.table k = some t0 →
            ∃ a, (setTask s t { task with running := false, out := some o }).tasks[t0]? = some a ∧
              a.key = k ∧ a.reg = true ∧ a.out = none := by
          intro k t0 hne hm0
          obtain ⟨a, ha, hka, hra, hoa⟩ := h k t0 hm0
          have : ¬ t = t0 := fun e => hne e.symm
          exact ⟨a, by simp [setTask, List.getElem?_set, this, ha], hka, hra, hoa⟩
        split
        · rename_i hc
          intro k t0 hm0
          simp only [setTask, mget_merase] at hm0
          split at hm0
          · contradiction
          · rename_i hne
            by_cases e : t0 = t
            · subst e; exact absurd (honly k hm0).1 hne
            · exact hother k t0 e hm0
        · rename_i hc
          intro k t0 hm0
          simp only [setTask] at hm0
          by_cases e : t0 = t
          · subst e
            obtain ⟨hk, hreg⟩ := honly k hm0
            subst hk
            exact absurd (by simp [setTask, hreg, hm0]) hc
          · exact hother k t0 e hm0
  | threadEnd th => exact h

theorem wf_final (fns : List FnDecl) (ops : List Op) : ∀ s, TableWf s → TableWf (finalState fns s ops) := by
  induction ops with
  | nil => intro s h; exact h
  | cons op ops ih => intro s h; exact ih _ (wf_step fns s op h)

/-- `create` only writes the entry of the key it is given -/
theorem create_keeps_other (s : St) (d : FnDecl) (args : List Nat) (kw : List (Nat × Nat)) (key k : Key) (reg : Bool)
    (hne : ¬ k = key) : mget (create s d args kw key reg).1.table k = mget s.table k := by
  simp only [create]
  split
  · rfl
  · cases reg <;> simp [mget_mset, hne]

/-- an operation changes at most the entry of its own key -/
theorem step_keeps_other (fns : List FnDecl) (s : St) (op : Op) (k : Key) (hne : opKey fns s op ≠ some k) :
    mget (step fns s op).1.table k = mget s.table k := by
  cases op with
  | call c =>
    simp only [opKey] at hne
    simp only [step]
    split
    · rfl
    · rename_i d hd
      simp only [hd] at hne
      split
      · rfl
      · rename_i tup hk
        simp only [hk] at hne
        have hkne : ¬ k = { tup := tup, th := c.th, fn := c.fn } := fun e => hne (by rw [e])
        split
        · exact create_keeps_other s _ _ _ _ k _ hkne
        · split
          · rfl
          · split
            · exact create_keeps_other s _ _ _ _ k _ hkne
            · rfl
  | dirty c =>
    simp only [opKey] at hne
    simp only [step]
    split
    · rfl
    · rename_i d hd
      simp only [hd] at hne
      split
      · rfl
      · rename_i tup hk
        simp only [hk] at hne
        have hkne : ¬ k = { tup := tup, th := c.th, fn := c.fn } := fun e => hne (by rw [e])
        simp [mget_merase, hkne]
  | start t =>
    simp only [step]
    split
    · rfl
    · split <;> rfl
  | resume t thrown =>
    simp only [step]
    split
    · rfl
    · split
      · rfl
      · split <;> rfl
  | suspend t =>
    simp only [step]
    split
    · rfl
    · split <;> rfl
  | complete t o =>
    simp only [opKey] at hne
    simp only [step]
    split
    · rfl
    · rename_i task ht
      simp only [ht, Option.map_some] at hne
      have hkne : ¬ k = task.key := fun e => hne (by rw [e])
      split
      · rfl
      · split
        · simp [setTask, mget_merase, hkne]
        · rfl
  | threadEnd th => rfl

theorem avoids_keeps (fns : List FnDecl) (k : Key) (ops : List Op) :
    ∀ s, avoids fns k s ops = true → mget (finalState fns s ops).table k = mget s.table k := by
  induction ops with
  | nil => intro s _; rfl
  | cons op ops ih =>
    intro s h
    simp only [avoids, Bool.and_eq_true, bne_iff_ne, ne_eq] at h
    simp only [finalState]
    rw [ih _ h.2]
    exact step_keeps_other fns s op k h.1

end AsynqModel.Dedup
