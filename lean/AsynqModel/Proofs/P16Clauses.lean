import AsynqModel.Proofs.P16Path
import AsynqModel.Proofs.P16RStep
import AsynqModel.Proofs.P16BStep
/-!
  P16, part 13: the clauses of `checkC06` for `.run`, `.flushB`, `.ret` and `.done _ (.err .nonasync)` events hold at
  the beginning of the step that emits the event - the side conditions of `U_step` - in every reachable state of a
  well-scoped program in which the stack guard has not fired (`Bd`, the collection of invariants of such a state).
-/
namespace AsynqModel.Core.P16
open AsynqModel.Core AsynqModel.Core.Spec AsynqModel.Core.P13 AsynqModel.Core.P5 AsynqModel.Core.P12

/-- everything we know about a state at the beginning of a step -/
structure Bd (cx : Ctx) (s : State) : Prop where
  r : R cx s none
  b : B s
  i : P5.I s
  j : P12.J s
  lib : Lib' s
  pf : PathFacts cx s
  ss : ∃ extra, (W s).syncStack = extra ++ calls s.ctl ∧
    (extra = [] ∨ ∃ t old rest f k h, s.ctl = .gen t old :: rest ∧ (s.task t).body = .syncret f k h ∧
      (s.task t).pending = false ∧ extra = [(t, f)])

variable {cx : Ctx} {s : State}

/-- an open context that is not a NonAsyncContext is registered with its owner and resumed iff the owner's contexts
    are active -/
theorem Bd.open_flag (bd : Bd cx s) {c : Nat} {x : CtxW} (hx : (W s).ctx? c = some x) (ho : x.isOpen = true) :
    c ∈ (s.task x.owner).ctxs ∧ (s.ctxIsNonAsync c = (x.kind == .nonasync)) ∧
      (x.kind ≠ .nonasync → x.resumed = (s.task x.owner).ctxActive) := by
  obtain ⟨y, h1, h2, h3, h4, h5⟩ := bd.r.rel c x hx
  have hm : c ∈ (s.task x.owner).ctxs := (h5 (by simp)).1 ho
  refine ⟨hm, by unfold State.ctxIsNonAsync; rw [h1, h2], ?_⟩
  intro hk
  obtain ⟨y', e1, _, e3⟩ := bd.i.j.reg x.owner c hm
  rw [h1] at e1; cases e1
  rcases e3 with e3 | e3
  · exact absurd (h2.trans e3) hk
  · rw [h4, e3]; simp

/-- a task with a registered context is an uncomputed task -/
theorem Bd.live (bd : Bd cx s) {c o : Nat} (hm : c ∈ (s.task o).ctxs) : (s.fut o).kind = .task ∧ s.computed o = false :=
  bd.b.live (fun h0 => by rw [h0] at hm; cases hm)

/-- the owner of an open, resumed context waits for the entry on top of the task stack -/
theorem Bd.resumed_awaits (bd : Bd cx s) {c : Nat} {x : CtxW} (hx : (W s).ctx? c = some x) (ho : x.isOpen = true)
    (hk : x.kind ≠ .nonasync) (hr : x.resumed = true) :
    ∃ top stk, s.stack = top :: stk ∧ awaitsStar s x.owner top := by
  obtain ⟨hm, _, hf⟩ := bd.open_flag hx ho
  obtain ⟨hkt, hc⟩ := bd.live hm
  have ha : (s.task x.owner).ctxActive = true := by rw [← hf hk]; exact hr
  cases hst : s.stack with
  | nil => exact absurd hst (active_stack_ne bd.j hkt ha hc)
  | cons top stk => exact ⟨top, stk, rfl, active_awaits_top bd.j hst hkt ha hc⟩

/-- ... also the owner of an open NonAsyncContext, as long as it is not computed -/
theorem Bd.nonasync_stack (bd : Bd cx s) {c : Nat} {x : CtxW} (hx : (W s).ctx? c = some x) (ho : x.isOpen = true)
    (hk : x.kind = .nonasync) : s.stack ≠ [] := by
  obtain ⟨hm, hna, _⟩ := bd.open_flag hx ho
  obtain ⟨hkt, hc⟩ := bd.live hm
  have ha : (s.task x.owner).ctxActive = true := by
    cases ha : (s.task x.owner).ctxActive with
    | true => rfl
    | false =>
      have := bd.lib.z x.owner hc ha c hm
      rw [hna, hk] at this
      simp at this
  exact active_stack_ne bd.j hkt ha hc

theorem entry_lookup (bd : Bd cx s) {p : Nat × CtxW} (hp : p ∈ (W s).ctxs) : (W s).ctx? p.1 = some p.2 :=
  lookup_of_mem_nodup _ p.1 p.2 bd.r.keys_nodup hp

/-! ### `.ret` -/

theorem Bd.ret_ok (bd : Bd cx s) (hctl : s.ctl = []) (o : Outcome) : chkB cx (W s) (.ret o) = none := by
  have hst : s.stack = [] := by
    have := bd.lib.disc
    rw [hctl] at this; exact this
  show (if (W s).ctxs.any (fun (_, x) => x.resumed) then some "context-left-active" else none) = none
  rw [if_neg]
  intro hany
  rw [List.any_eq_true] at hany
  obtain ⟨p, hp, hr⟩ := hany
  have hx := entry_lookup bd hp
  have hr : p.2.resumed = true := hr
  have ho : p.2.isOpen = true := by
    cases ho : p.2.isOpen with
    | true => rfl
    | false => rw [bd.r.closed p.1 p.2 hx ho] at hr; cases hr
  have hk : p.2.kind ≠ .nonasync := by
    intro hk
    obtain ⟨y, h1, h2, _, h4, _⟩ := bd.r.rel p.1 p.2 hx
    have := bd.i.j.na p.1 y h1 (h2.symm.trans hk)
    rw [h4, this] at hr; cases hr
  obtain ⟨top, stk, h1, _⟩ := bd.resumed_awaits hx ho hk hr
  rw [hst] at h1; cases h1

/-! ### `.run` -/

theorem Bd.run_ok (bd : Bd cx s) {u : Nat} {old : Option Nat} {rest : List Ctl} (hctl : s.ctl = .gen u old :: rest)
    (i : Nat) (dc : Bool) (r : Recv) : chkB cx (W s) (.run u i dc r) = none := by
  have hd := bd.lib.disc
  rw [hctl] at hd
  have hhead : s.stack.head? = some u := disc_gen_head hd
  have hug : u ∈ P2.gens s.ctl := by rw [hctl]; simp [P2.gens]
  have huc : s.computed u = false := by simp [State.computed, bd.pf.pi.live u hug]
  have hua : (s.task u).ctxActive = true := bd.pf.pi.rca u hug
  show ((W s).ctxs.findSome? _) = none
  rw [List.findSome?_eq_none_iff]
  intro p hp
  have hx := entry_lookup bd hp
  obtain ⟨c, x⟩ := p
  simp only
  have f1 : x.isOpen = true → (x.kind == CtxKind.nonasync) = false → (x.owner == u) = true → x.resumed = true := by
    intro ho hk hou
    have hk : x.kind ≠ .nonasync := by simpa using hk
    have hou : x.owner = u := by simpa using hou
    obtain ⟨_, _, hf⟩ := bd.open_flag hx ho
    rw [hf hk, hou]; exact hua
  have f2 : x.isOpen = true → (x.kind == CtxKind.nonasync) = false → (x.owner == u) = false → x.resumed = true →
      (W s).awaitsStar (W s).fuel x.owner u = true := by
    intro ho hk hou hr
    have hk : x.kind ≠ .nonasync := by simpa using hk
    have hou : x.owner ≠ u := by simpa using hou
    obtain ⟨top, stk, h1, h2⟩ := bd.resumed_awaits hx ho hk hr
    have : top = u := by rw [h1] at hhead; simpa using hhead
    subst this
    exact bd.pf.obs_awaits h2 hou huc
  generalize (W s).awaitsStar (W s).fuel x.owner u = b1 at f2 ⊢
  generalize (x.owner == u) = b0 at f1 f2 ⊢
  generalize (x.kind == CtxKind.nonasync) = bk at f1 f2 ⊢
  cases hO : x.isOpen <;> cases bk <;> cases b0 <;> cases b1 <;> cases hR : x.resumed <;> simp_all

/-! ### `.flushB` -/

theorem Bd.flush_ok (bd : Bd cx s) {root base : Nat} {rest : List Ctl} (hctl : s.ctl = .waitLoop root base :: rest)
    (hlen : s.stack.length ≤ base) (k q : Nat) (its : List Nat) (pr : Nat × Nat) (pd : List PendingB) :
    chkB cx (W s) (.flushB k q its pr pd) = none := by
  have hd := bd.lib.disc
  rw [hctl] at hd
  obtain ⟨hon, hdr⟩ := disc_under_wait hd (.inr ⟨root, base, rfl, hlen⟩)
  have hss : (W s).syncStack = calls s.ctl := by
    obtain ⟨extra, h1, h2⟩ := bd.ss
    rcases h2 with rfl | ⟨t, old, rest', _, _, _, hc, _⟩
    · simpa using h1
    · rw [hctl] at hc; cases hc
  rcases hon with hnil | ⟨t, old, rest', hrest⟩
  · -- the outermost `wait_for`: nothing is resumed, no task is suspended inside a NonAsyncContext
    subst hnil
    have hst : s.stack = [] := hdr
    have hcallers : (W s).syncStack = [] := by rw [hss, hctl]; rfl
    show (if (((W s).syncStack.map (·.1)).isEmpty && (W s).ctxs.any _) = true then _ else (W s).ctxs.findSome? _) = none
    rw [hcallers]
    have hna : ((W s).ctxs.any fun (p : Nat × CtxW) =>
        p.2.isOpen && p.2.kind == .nonasync && !(W s).isDone p.2.owner && ((W s).lastYield.lookup p.2.owner).isSome) = false := by
      rw [List.any_eq_false]
      intro p hp hcond
      have hx := entry_lookup bd hp
      simp only [Bool.and_eq_true, beq_iff_eq] at hcond
      exact bd.nonasync_stack hx hcond.1.1.1 hcond.1.1.2 hst
    have hna' : ((W s).ctxs.any fun (x : Nat × CtxW) =>
        match x with
        | (_, x) => x.isOpen && x.kind == .nonasync && !(W s).isDone x.owner && ((W s).lastYield.lookup x.owner).isSome) = false := hna
    simp only [List.map_nil, List.isEmpty_nil, Bool.true_and, hna', Bool.false_eq_true, if_false]
    rw [List.findSome?_eq_none_iff]
    intro p hp
    have hx := entry_lookup bd hp
    obtain ⟨c, x⟩ := p
    simp only
    have f1 : x.isOpen = true → (x.kind == CtxKind.nonasync) = false → x.resumed = false := by
      intro ho hk
      have hk : x.kind ≠ .nonasync := by simpa using hk
      cases hr : x.resumed with
      | false => rfl
      | true =>
        obtain ⟨top, stk, h1, _⟩ := bd.resumed_awaits hx ho hk hr
        rw [hst] at h1; cases h1
    generalize (x.kind == CtxKind.nonasync) = bk at f1 ⊢
    cases hO : x.isOpen <;> cases bk <;> cases hR : x.resumed <;> simp_all
  · -- a nested `wait_for`, called from the generator of `t`
    subst hrest
    have hhead : s.stack.head? = some t := disc_gen_head hdr
    have htg : t ∈ P2.gens s.ctl := by rw [hctl]; simp [P2.gens]
    have htc : s.computed t = false := by simp [State.computed, bd.pf.pi.live t htg]
    have hcall : (W s).syncStack = (t, root) :: calls rest' := by rw [hss, hctl]; rfl
    have hmem : ∀ a, a ∈ (W s).syncStack.map (·.1) → a ∈ P2.gens s.ctl := by
      intro a ha
      obtain ⟨q, hq, rfl⟩ := List.mem_map.1 ha
      rw [hss] at hq
      exact calls_mem_gens s.ctl q.1 q.2 hq
    show (if (((W s).syncStack.map (·.1)).isEmpty && (W s).ctxs.any _) = true then _ else (W s).ctxs.findSome? _) = none
    have hne : ((W s).syncStack.map (·.1)).isEmpty = false := by rw [hcall]; rfl
    simp only [hne, Bool.false_and, Bool.false_eq_true, if_false]
    rw [List.findSome?_eq_none_iff]
    intro p hp
    have hx := entry_lookup bd hp
    obtain ⟨c, x⟩ := p
    simp only
    have f1 : x.isOpen = true → (x.kind == CtxKind.nonasync) = false →
        ((W s).syncStack.map (·.1)).contains x.owner = true → x.resumed = true := by
      intro ho hk hcal
      have hk : x.kind ≠ .nonasync := by simpa using hk
      obtain ⟨_, _, hf⟩ := bd.open_flag hx ho
      have hg : x.owner ∈ P2.gens s.ctl := hmem _ (by simpa using hcal)
      rw [hf hk]; exact bd.pf.pi.rca _ hg
    have f2 : x.isOpen = true → (x.kind == CtxKind.nonasync) = false →
        ((W s).syncStack.map (·.1)).contains x.owner = false → x.resumed = true →
        (((W s).syncStack.map (·.1)).any fun cl => (W s).awaitsStar (W s).fuel x.owner cl) = true := by
      intro ho hk hcal hr
      have hk : x.kind ≠ .nonasync := by simpa using hk
      obtain ⟨top, stk, h1, h2⟩ := bd.resumed_awaits hx ho hk hr
      have : top = t := by rw [h1] at hhead; simpa using hhead
      subst this
      have hot : x.owner ≠ top := by
        intro e
        rw [hcall, e] at hcal
        simp at hcal
      have h3 := bd.pf.obs_awaits h2 hot htc
      rw [List.any_eq_true]
      exact ⟨top, by rw [hcall]; simp, h3⟩
    generalize (((W s).syncStack.map (·.1)).any fun cl => (W s).awaitsStar (W s).fuel x.owner cl) = b2 at f2 ⊢
    generalize ((W s).syncStack.map (·.1)).contains x.owner = b1 at f1 f2 ⊢
    generalize (x.kind == CtxKind.nonasync) = bk at f1 f2 ⊢
    cases hO : x.isOpen <;> cases bk <;> cases b1 <;> cases b2 <;> cases hR : x.resumed <;> simp_all

/-! ### the failure of a blocked task inside a NonAsyncContext -/

theorem Bd.susp_ok (bd : Bd cx s) (t : Nat) (hb : (s.task t).deps.any (fun d => !s.computed d) = true)
    (hn : (s.task t).ctxs.any s.ctxIsNonAsync = true) (hnc : s.computed t = false) : DoneOK cx (W s) t := by
  rw [doneOK_iff]
  rw [List.any_eq_true] at hb hn
  obtain ⟨d, hd, hdc⟩ := hb
  obtain ⟨c, hc, hcn⟩ := hn
  have hdc : s.computed d = false := by simpa using hdc
  cases hl : (W s).lastYield.lookup t with
  | none => rfl
  | some p =>
    simp only [Option.isNone_some, Bool.false_or, Bool.and_eq_true]
    have hpend := (bd.pf.u.lyc t p (by simp) hl).1
    have hst : (s.task t).started = true := by
      cases hs : (s.task t).started with
      | true => rfl
      | false => rw [(bd.pf.u.ns t hs).2] at hd; cases hd
    have ho : s.out t = none := by
      cases ho : s.out t with
      | none => rfl
      | some o => simp [State.computed, ho] at hnc
    have hl2 := bd.pf.ly t hpend hst ho
    rw [hl] at hl2
    constructor
    · -- a NonAsyncContext of `t` is open
      obtain ⟨y, hy, hyo, _⟩ := bd.i.j.reg t c hc
      obtain ⟨x, hx⟩ := bd.r.entry (lt_of_getElem?_some hy)
      obtain ⟨y', h1, h2, h3, _, h5⟩ := bd.r.rel c x hx
      rw [hy] at h1; cases h1
      have hown : x.owner = t := by rw [hyo] at h3; exact (Option.some.inj h3).symm
      have hopen : x.isOpen = true := (h5 (by simp)).2 (by rw [hown]; exact hc)
      have hkind : x.kind = .nonasync := by
        unfold State.ctxIsNonAsync at hcn
        rw [hy] at hcn
        rw [h2]; simpa using hcn
      unfold insideNA
      rw [List.any_eq_true]
      exact ⟨(c, x), mem_of_lookup _ _ _ hx, by simp [hopen, hown, hkind]⟩
    · -- something it yielded is not computed
      unfold blockedW
      rw [hl]
      obtain ⟨i, y⟩ := p
      simp only [Option.some.injEq, Prod.mk.injEq] at hl2
      simp only
      rw [List.any_eq_true]
      refine ⟨d, ?_, by rw [bd.pf.done d, hdc]; rfl⟩
      rw [hl2.2]
      rcases bd.pf.u.old t d hd with h1 | h1
      · exact h1
      · rw [hdc] at h1; cases h1

theorem Bd.z_ok (bd : Bd cx s) (t : Nat) (hc : s.computed t = false) (ha : (s.task t).ctxActive = false) :
    (s.task t).ctxs.any s.ctxIsNonAsync = false := by
  rw [List.any_eq_false]
  intro c hm
  rw [bd.lib.z t hc ha c hm]; simp

end AsynqModel.Core.P16
