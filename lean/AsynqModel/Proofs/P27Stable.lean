import AsynqModel.Proofs.P27InvA
import AsynqModel.Proofs.P6Acyc
/-
  P6 (property C04), part 9: between two scheduler flushes `Settled` is stable (S1), and no batch item changes.
-/
namespace AsynqModel.Core.P27
open AsynqModel.Core.P6
open AsynqModel.Core

/-- the step out of `s` is a scheduler flush -/
def IsFlush (s : State) : Prop :=
  ∃ root base rest, s.ctl = .waitLoop root base :: rest ∧ s.stack.length ≤ base ∧ s.computed root = false

theorem batch_same {s r : State} (hb : r.batches = s.batches) :
    ∀ k q b, s.batch? k q = some b → b.flushed = false → ∃ b', r.batch? k q = some b' ∧ b'.flushed = false := by
  intro k q b h1 h2
  exact ⟨b, by rw [batch?_eq, hb]; exact h1, h2⟩

theorem ItemBatches.unflushed_mono {s r : State} {kind seq f : Nat} (h : ItemBatches s.batches r.batches kind seq f) :
    ∀ k q b, s.batch? k q = some b → b.flushed = false → ∃ b', r.batch? k q = some b' ∧ b'.flushed = false := by
  obtain ⟨l1, cur, hl1, _, _, hnew⟩ := h
  intro k q b hb hfl
  have hfind : l1.find? (keyP k q) = some b := by
    rcases hl1 with rfl | ⟨_, rfl⟩
    · exact hb
    · exact find?_append_some hb _
  have hnew' : r.batches = l1.map (addItemIf kind seq f) := hnew
  refine ⟨addItemIf kind seq f b, ?_, ?_⟩
  · rw [batch?_eq, hnew', find?_map_key l1 _ _ (fun b0 => by
      unfold keyP; rw [(addItemIf_spec kind seq f b0).1, (addItemIf_spec kind seq f b0).2.1]), hfind]
    rfl
  · rw [(addItemIf_spec kind seq f b).2.2.1]; exact hfl

/-- a task all of whose dependencies are computed is not settled unless it is computed -/
theorem computed_of_settled_unblocked {s : State} {t : Nat} (hk : (view s t).kind = .task)
    (hd : ∀ d ∈ (view s t).deps, s.computed d = true) (h : Settled s t) : s.computed t = true := by
  cases h with
  | computed h => exact h
  | item hk' _ _ =>
    have hk'' : (view s t).kind = _ := hk'
    rw [hk] at hk''; cases hk''
  | task _ _ _ _ _ hbl =>
    obtain ⟨d, hd1, hd2⟩ := hbl
    rw [hd d hd1] at hd2; cases hd2

theorem Upd1S.settled {s r : State} {t : Nat} {v' : FV} (U : Upd1S s r t v')
    (hc : ∀ f, s.computed f = true → r.computed f = true)
    (hn : NAF s r)
    (ht : SEq (view s t) v' ∨ (Settled s t → s.computed t = true)) {f : Nat}
    (h : Settled s f) : Settled r f := by
  rcases ht with ht | ht
  · refine Settled.mono (fun _ => False) hc (batch_same U.batches) (fun _ hf => hf.elim) ?_ hn h
    intro g _
    rcases U.view_cases g with ⟨rfl, e⟩ | ⟨_, e⟩
    · rw [e]; exact ht
    · exact SEq.of_eq e
  · refine Settled.mono (fun g => g = t) hc (batch_same U.batches) (fun g hg => by subst hg; exact ht) ?_ hn h
    intro g hg
    exact SEq.of_eq (U.viewO g hg)

theorem Upd2.settled {s r : State} {t : Nat} {v' nv : FV} (U : Upd2 s r t v' nv)
    (hc : ∀ f, s.computed f = true → r.computed f = true)
    (hb : ∀ k q b, s.batch? k q = some b → b.flushed = false → ∃ b', r.batch? k q = some b' ∧ b'.flushed = false)
    (hn : NAF s r)
    (ht : Settled s t → s.computed t = true) {f : Nat} (h : Settled s f) : Settled r f := by
  refine Settled.mono (fun g => g = t ∨ g = s.futs.length) hc hb ?_ ?_ hn h
  · intro g hg hs
    rcases hg with rfl | rfl
    · exact ht hs
    · exact absurd hs (not_settled_of_ge (Nat.le_refl _))
  · intro g hg
    exact SEq.of_eq (U.viewO g (fun e => hg (Or.inl e)) (fun e => hg (Or.inr e)))

/-- (S1) a settled future stays settled until the next flush -/
theorem settled_step {s r : State} (hA : InvA s) (d : Desc s r) (hN : NAF s r) (hnf : ¬ IsFlush s) {f : Nat}
    (h : Settled s f) : Settled r f := by
  have hc : ∀ f, s.computed f = true → r.computed f = true := fun f hf => d.computed_mono hf
  have same : ∀ {r' : State}, Same s r' → NAF s r' → Settled r' f := fun e hn =>
    Settled.of_view (fun g => SEq.of_eq (e.view g)) e.batches hn h
  cases d with
  | quiet e _ _ => exact same e hN
  | top conv body rest _ _ U _ _ =>
    refine Settled.mono (fun g => g = s.futs.length) hc (batch_same U.batches) ?_ ?_ hN h
    · intro g hg hs; subst hg; exact absurd hs (not_settled_of_ge (Nat.le_refl _))
    · intro g hg; exact SEq.of_eq (U.viewO g hg)
  | ret _ _ _ e _ _ => exact same e hN
  | enterLoop _ _ _ _ e _ _ => exact same e hN
  | pop _ _ _ _ _ e _ _ => exact same e hN
  | popLazy _ top st _ lo hk hcu U _ _ =>
    refine U.settled hc hN (Or.inr ?_) h
    intro hs
    rcases hs.kind_of_uncomputed hcu with ⟨k, q, p, m, hk'⟩ | hk'
    · have : (view s top).kind = _ := hk'
      rw [hk] at this; cases this
    · have : (view s top).kind = _ := hk'
      rw [hk] at this; cases this
  | second _ top st _ _ _ _ _ _ U _ _ => exact U.settled hc hN (Or.inl ⟨rfl, rfl, rfl, rfl, rfl⟩) h
  | naFail _ top st _ hkt _ _ _ hna U _ _ =>
    -- the failing task has a registered NonAsyncContext: it is not settled
    refine U.settled hc hN (Or.inr ?_) h
    intro hs
    cases hs with
    | computed h' => exact h'
    | item hk' _ _ =>
      have : (view s top).kind = _ := hk'
      rw [hkt] at this; cases this
    | task _ _ _ _ _ _ hn' => exact absurd hn' hna
  | first _ top st _ _ _ _ _ U _ _ => exact U.settled hc hN (Or.inl ⟨rfl, rfl, rfl, rfl, rfl⟩) h
  | enterGen _ _ _ _ _ _ _ e _ _ _ => exact same e hN
  | gen t old rest hctl0 d =>
    obtain ⟨hgk, hgo, hgd⟩ := hA.gen t old rest hctl0
    have ht : Settled s t → s.computed t = true := computed_of_settled_unblocked hgk hgd
    cases d with
    | loc v' hu _ _ _ _ _ _ _ _ _ _ _ _ => exact hu.toS.settled hc hN (Or.inr ht) h
    | spawn child k pass _ _ hu _ hbat _ _ => exact hu.settled hc (batch_same hbat) hN ht h
    | item kind payload mode k seq _ _ hu _ hbat _ => exact hu.settled hc hbat.unflushed_mono hN ht h
    | other k kd out _ _ hu _ hbat _ _ => exact hu.settled hc (batch_same hbat) hN ht h
    | yield ry npy nd leave _ _ _ _ hu _ => exact hu.toS.settled hc hN (Or.inr ht) h
    | finish o _ hu _ => exact hu.toS.settled hc hN (Or.inr ht) h
  | flush root base rest hctl0 hlen hroot F hctl => exact absurd ⟨root, base, rest, hctl0, hlen, hroot⟩ hnf

/-- between two flushes no batch item changes: the first half of (S1) -/
theorem item_unchanged {s r : State} (hA : InvA s) (d : Desc s r) (hnf : ¬ IsFlush s) {f k q p : Nat} {m : ItemMode}
    (hk : (view s f).kind = .item k q p m) : view r f = view s f := by
  have hlt : f < s.futs.length := lt_of_kind_ne_const s f (by rw [hk]; simp)
  have upd1 : ∀ {t : Nat} {v' : FV}, Upd1S s r t v' → (view s t).kind ≠ .item k q p m → view r f = view s f := by
    intro t v' U hne
    exact U.viewO f (fun e => by subst e; exact hne hk)
  have upd2 : ∀ {t : Nat} {v' nv : FV}, Upd2 s r t v' nv → (view s t).kind ≠ .item k q p m → view r f = view s f := by
    intro t v' nv U hne
    exact U.viewO f (fun e => by subst e; exact hne hk) (Nat.ne_of_lt hlt)
  cases d with
  | quiet e _ _ => exact e.view f
  | top conv body rest _ _ U _ _ => exact U.viewO f (Nat.ne_of_lt hlt)
  | ret _ _ _ e _ _ => exact e.view f
  | enterLoop _ _ _ _ e _ _ => exact e.view f
  | pop _ _ _ _ _ e _ _ => exact e.view f
  | popLazy _ top st _ lo hk' _ U _ _ => exact upd1 U (by rw [hk']; simp)
  | second _ top st _ hk' _ _ _ _ U _ _ => exact upd1 U (by rw [hk']; simp)
  | naFail _ top st _ hk' _ _ _ _ U _ _ => exact upd1 U (by rw [hk']; simp)
  | first _ top st _ hk' _ _ _ U _ _ => exact upd1 U (by rw [hk']; simp)
  | enterGen _ _ _ _ _ _ _ e _ _ _ => exact e.view f
  | gen t old rest hctl0 d =>
    have hgk := (hA.gen t old rest hctl0).1
    have hne : (view s t).kind ≠ .item k q p m := by rw [hgk]; simp
    cases d with
    | loc v' hu _ _ _ _ _ _ _ _ _ _ _ _ => exact upd1 hu.toS hne
    | spawn child k pass _ _ hu _ _ _ _ => exact upd2 hu hne
    | item kind payload mode k seq _ _ hu _ _ _ => exact upd2 hu hne
    | other k kd out _ _ hu _ _ _ _ => exact upd2 hu hne
    | yield ry npy nd leave _ _ _ _ hu _ => exact upd1 hu.toS hne
    | finish o _ hu _ => exact upd1 hu.toS hne
  | flush root base rest hctl0 hlen hroot F hctl => exact absurd ⟨root, base, rest, hctl0, hlen, hroot⟩ hnf

end AsynqModel.Core.P27
