import AsynqModel.Proofs.P22SeqL
/-!
# P22, part 1d: a task body calls each of its own futures at most once, so the relation `CalledAt` is the function
# `taskAt` (`calledAt_taskAt`): the creation path determines the task the sequential evaluation calls
-/
namespace AsynqModel.Core.P22.SeqSV
open AsynqModel.Core

abbrev Kids := List (Option (Body × List Outcome))

/-- the indices of the calls among a list of actions, in order -/
def callIdx : List Act → List Nat
  | [] => []
  | .read _ _ :: l => callIdx l
  | .call i _ _ _ :: l => i :: callIdx l

theorem callIdx_append (a b : List Act) : callIdx (a ++ b) = callIdx a ++ callIdx b := by
  induction a with
  | nil => rfl
  | cons x a ih => cases x <;> simp [callIdx, ih]

theorem mem_callIdx {A : List Act} {i : Nat} : i ∈ callIdx A ↔ ∃ c ci E, Act.call i c ci E ∈ A := by
  induction A with
  | nil => simp [callIdx]
  | cons x A ih =>
    cases x with
    | read v w =>
      simp only [callIdx, ih, List.mem_cons]
      constructor
      · rintro ⟨c, ci, E, h⟩; exact ⟨c, ci, E, .inr h⟩
      · rintro ⟨c, ci, E, h | h⟩
        · cases h
        · exact ⟨c, ci, E, h⟩
    | call j c' ci' E' =>
      simp only [callIdx, List.mem_cons, ih]
      constructor
      · rintro (rfl | ⟨c, ci, E, h⟩)
        · exact ⟨c', ci', E', .inl rfl⟩
        · exact ⟨c, ci, E, .inr h⟩
      · rintro ⟨c, ci, E, h | h⟩
        · injection h with h1; exact .inl h1
        · exact .inr ⟨c, ci, E, h⟩

/-- entry `i` has nothing left to run -/
def NoneAt (kids : Kids) (i : Nat) : Prop := kids[i]? = some none
/-- entry `i` is a task that has not run -/
def Live (kids : Kids) (i : Nat) : Prop := ∃ p, kids[i]? = some (some p)

theorem NoneAt.lt {kids : Kids} {i : Nat} (h : NoneAt kids i) : i < kids.length := by
  rcases Nat.lt_or_ge i kids.length with h' | h'
  · exact h'
  · unfold NoneAt at h; rw [List.getElem?_eq_none h'] at h; cases h

theorem not_live_of_none {kids : Kids} {i : Nat} (h : NoneAt kids i) : ¬ Live kids i := by
  rintro ⟨p, hp⟩; unfold NoneAt at h; rw [h] at hp; cases hp

/-- the actions `A`, performed from the table `kids`: no index is called twice, and an old index is only called when
    its task has not run -/
structure StepOK (kids : Kids) (A : List Act) : Prop where
  nodup : (callIdx A).Nodup
  live : ∀ i ∈ callIdx A, i < kids.length → Live kids i

/-- ... and lead to the table `kids'`: what was called has nothing left to run, what had nothing left to run stays so -/
structure FallOK (kids : Kids) (A : List Act) (kids' : Kids) : Prop where
  len : kids.length ≤ kids'.length
  done : ∀ i ∈ callIdx A, NoneAt kids' i
  keep : ∀ i, NoneAt kids i → NoneAt kids' i

theorem StepOK.nil (kids : Kids) : StepOK kids [] := ⟨List.nodup_nil, fun _ h => by cases h⟩
theorem FallOK.refl (kids : Kids) : FallOK kids [] kids :=
  ⟨Nat.le_refl _, fun _ h => (by cases h), fun _ h => h⟩

theorem FallOK.append (kids : Kids) (x : Option (Body × List Outcome)) : FallOK kids [] (kids ++ [x]) := by
  refine ⟨by simp, fun _ h => (by cases h), ?_⟩
  intro i h
  have hl := h.lt
  unfold NoneAt at h ⊢
  rw [List.getElem?_append_left hl]; exact h

/-- sequencing -/
theorem seq_ok {kids kids1 : Kids} {A1 A2 : List Act} (s1 : StepOK kids A1) (f1 : FallOK kids A1 kids1)
    (s2 : StepOK kids1 A2) : StepOK kids (A1 ++ A2) := by
  refine ⟨?_, ?_⟩
  · rw [callIdx_append, List.nodup_append]
    refine ⟨s1.nodup, s2.nodup, ?_⟩
    intro i hi j hj e
    subst e
    have hn := f1.done i hi
    exact not_live_of_none hn (s2.live i hj hn.lt)
  · intro i hi hlt
    rw [callIdx_append, List.mem_append] at hi
    rcases hi with hi | hi
    · exact s1.live i hi hlt
    · have hl := s2.live i hi (Nat.lt_of_lt_of_le hlt f1.len)
      cases hk : kids[i]? with
      | none => rw [List.getElem?_eq_none_iff] at hk; omega
      | some x =>
        cases x with
        | none => exact absurd hl (not_live_of_none (f1.keep i hk))
        | some p => exact ⟨p, hk⟩

theorem seq_fall {kids kids1 kids2 : Kids} {A1 A2 : List Act} (f1 : FallOK kids A1 kids1) (f2 : FallOK kids1 A2 kids2) :
    FallOK kids (A1 ++ A2) kids2 := by
  refine ⟨Nat.le_trans f1.len f2.len, ?_, fun i h => f2.keep i (f1.keep i h)⟩
  intro i hi
  rw [callIdx_append, List.mem_append] at hi
  rcases hi with hi | hi
  · exact f2.keep i (f1.done i hi)
  · exact f2.done i hi

/-! ### `await` -/

theorem await_step (E : SvEnv) : ∀ (is : List Nat) (kids : Kids), StepOK kids (await E kids is).1
  | [], kids => StepOK.nil kids
  | i :: is, kids => by
    rw [await_cons]
    split
    · next b inh hk =>
      have ih := await_step E is (kids.set i none)
      simp only
      refine ⟨?_, ?_⟩
      · simp only [callIdx, List.nodup_cons]
        refine ⟨?_, ih.nodup⟩
        intro hm
        obtain ⟨c, ci, E', hc⟩ := mem_callIdx.1 hm
        obtain ⟨j, b', inh', he, _, hk'⟩ := await_call E is _ _ hc
        injection he with e1
        subst e1
        have hlt : i < kids.length := by
          rcases Nat.lt_or_ge i kids.length with h | h
          · exact h
          · rw [List.getElem?_eq_none h] at hk; cases hk
        rw [List.getElem?_set_self hlt] at hk'; cases hk'
      · intro j hj _
        simp only [callIdx, List.mem_cons] at hj
        rcases hj with rfl | hj
        · exact ⟨_, hk⟩
        · obtain ⟨c, ci, E', hc⟩ := mem_callIdx.1 hj
          obtain ⟨j', b', inh', he, _, hk'⟩ := await_call E is _ _ hc
          injection he with e1
          subst e1
          by_cases hji : i = j
          · subst hji
            have hlt : i < kids.length := by
              rcases Nat.lt_or_ge i kids.length with h | h
              · exact h
              · rw [List.getElem?_eq_none h] at hk; cases hk
            rw [List.getElem?_set_self hlt] at hk'; cases hk'
          · rw [List.getElem?_set_ne hji] at hk'
            exact ⟨_, hk'⟩
    · exact await_step E is kids

theorem await_fall (E : SvEnv) (is : List Nat) (kids : Kids) : FallOK kids (await E kids is).1 (await E kids is).2 := by
  refine ⟨Nat.le_of_eq (await_length E is kids).symm, ?_, ?_⟩
  · intro i hi
    obtain ⟨c, ci, E', hc⟩ := mem_callIdx.1 hi
    obtain ⟨j, b', inh', he, hj, hk⟩ := await_call E is kids _ hc
    injection he with e1
    subst e1
    unfold NoneAt
    rw [await_get, if_pos hj, hk]; rfl
  · intro i h
    unfold NoneAt at h ⊢
    rw [await_get, h]
    split <;> rfl

/-! ### `runBody` -/

def WF (l : Loc) : Prop := l.kids.length = l.own.length

theorem runBody_ok (cfg : Cfg) : ∀ (b : Body) (E : SvEnv) (inh : List Outcome) (l : Loc), WF l →
    StepOK l.kids (runBody cfg b E inh l).1 ∧
    ∀ l', (runBody cfg b E inh l).2 = .fall l' → WF l' ∧ FallOK l.kids (runBody cfg b E inh l).1 l'.kids
  | .ret _, _, _, l, _ => ⟨StepOK.nil _, fun _ h => by cases h⟩
  | .res _, _, _, l, _ => ⟨StepOK.nil _, fun _ h => by cases h⟩
  | .raise _, _, _, l, _ => ⟨StepOK.nil _, fun _ h => by cases h⟩
  | .reraise, _, _, l, _ => ⟨StepOK.nil _, fun _ h => by cases h⟩
  | .syncret _ _ _, _, _, l, _ => ⟨StepOK.nil _, fun _ h => by cases h⟩
  | .endwith, _, _, l, hw => ⟨StepOK.nil _, fun l' h => by
      simp only [runBody, Res.fall.injEq] at h; subst h; exact ⟨hw, FallOK.refl _⟩⟩
  | .spawn c p k, E, inh, l, hw => by
    simp only [runBody]
    have ih := runBody_ok cfg k E inh
      { l with own := l.own ++ [(evalBody cfg c [] [] (p.map fun r => (resolveO l.own inh r).getD (.err .other)) none .none).outcome],
               kids := l.kids ++ [some (c, p.map fun r => (resolveO l.own inh r).getD (.err .other))] }
      (by simp [WF] at hw ⊢; exact hw)
    have f0 := FallOK.append l.kids (some (c, p.map fun r => (resolveO l.own inh r).getD (.err .other)))
    refine ⟨by simpa using seq_ok (StepOK.nil l.kids) f0 ih.1, fun l' h => ?_⟩
    obtain ⟨h1, h2⟩ := ih.2 l' h
    exact ⟨h1, by simpa using seq_fall f0 h2⟩
  | .item kd pl m k, E, inh, l, hw => by
    simp only [runBody]
    have ih := runBody_ok cfg k E inh
      { l with own := l.own ++ [itemOutcome cfg kd pl m], kids := l.kids ++ [none] } (by simp [WF] at hw ⊢; exact hw)
    have f0 := FallOK.append l.kids none
    refine ⟨by simpa using seq_ok (StepOK.nil l.kids) f0 ih.1, fun l' h => ?_⟩
    obtain ⟨h1, h2⟩ := ih.2 l' h
    exact ⟨h1, by simpa using seq_fall f0 h2⟩
  | .const v k, E, inh, l, hw => by
    simp only [runBody]
    have ih := runBody_ok cfg k E inh
      { l with own := l.own ++ [.ok (.a v)], kids := l.kids ++ [none] } (by simp [WF] at hw ⊢; exact hw)
    have f0 := FallOK.append l.kids none
    refine ⟨by simpa using seq_ok (StepOK.nil l.kids) f0 ih.1, fun l' h => ?_⟩
    obtain ⟨h1, h2⟩ := ih.2 l' h
    exact ⟨h1, by simpa using seq_fall f0 h2⟩
  | .errfut e k, E, inh, l, hw => by
    simp only [runBody]
    have ih := runBody_ok cfg k E inh
      { l with own := l.own ++ [.err (.u e)], kids := l.kids ++ [none] } (by simp [WF] at hw ⊢; exact hw)
    have f0 := FallOK.append l.kids none
    refine ⟨by simpa using seq_ok (StepOK.nil l.kids) f0 ih.1, fun l' h => ?_⟩
    obtain ⟨h1, h2⟩ := ih.2 l' h
    exact ⟨h1, by simpa using seq_fall f0 h2⟩
  | .lazy o k, E, inh, l, hw => by
    simp only [runBody]
    have ih := runBody_ok cfg k E inh
      { l with own := l.own ++ [lazyOutcome o], kids := l.kids ++ [none] } (by simp [WF] at hw ⊢; exact hw)
    have f0 := FallOK.append l.kids none
    refine ⟨by simpa using seq_ok (StepOK.nil l.kids) f0 ih.1, fun l' h => ?_⟩
    obtain ⟨h1, h2⟩ := ih.2 l' h
    exact ⟨h1, by simpa using seq_fall f0 h2⟩
  | .read v k, E, inh, l, hw => by
    simp only [runBody]
    have ih := runBody_ok cfg k E inh l hw
    refine ⟨⟨by simpa [callIdx] using ih.1.nodup, by simpa [callIdx] using ih.1.live⟩, fun l' h => ?_⟩
    obtain ⟨h1, h2⟩ := ih.2 l' h
    exact ⟨h1, ⟨h2.len, by simpa [callIdx] using h2.done, h2.keep⟩⟩
  | .active k, E, inh, l, hw => by
    simp only [runBody]
    exact runBody_ok cfg k E inh l hw
  | .yld y k h, E, inh, l, hw => by
    simp only [runBody]
    have s0 := await_step E (ownIdx y) l.kids
    have f0 := await_fall E (ownIdx y) l.kids
    have hl := await_length E (ownIdx y) l.kids
    cases unwrap (resolveO l.own inh) y with
    | ok v =>
      simp only
      have ih := runBody_ok cfg k E inh
        { l with env := l.env ++ [v], kids := (await E l.kids (ownIdx y)).2, prev := y } (by simp [WF] at hw ⊢; rw [hl]; exact hw)
      refine ⟨seq_ok s0 f0 ih.1, fun l' h' => ?_⟩
      obtain ⟨h1, h2⟩ := ih.2 l' h'
      exact ⟨h1, seq_fall f0 h2⟩
    | error e =>
      simp only
      have ih := runBody_ok cfg h E inh
        { l with caught := some e, kids := (await E l.kids (ownIdx y)).2, prev := y } (by simp [WF] at hw ⊢; rw [hl]; exact hw)
      refine ⟨seq_ok s0 f0 ih.1, fun l' h' => ?_⟩
      obtain ⟨h1, h2⟩ := ih.2 l' h'
      exact ⟨h1, seq_fall f0 h2⟩
  | .reyld k h, E, inh, l, hw => by
    simp only [runBody]
    cases unwrap (resolveO l.own inh) l.prev with
    | ok v => simp only; exact runBody_ok cfg k E inh { l with env := l.env ++ [v] } hw
    | error e => simp only; exact runBody_ok cfg h E inh { l with caught := some e } hw
  | .syncfut r k h, E, inh, l, hw => by
    simp only [runBody]
    have s0 := await_step E (refIdx r) l.kids
    have f0 := await_fall E (refIdx r) l.kids
    have hl := await_length E (refIdx r) l.kids
    cases (resolveO l.own inh r).getD (.err .other) with
    | ok v =>
      simp only
      have ih := runBody_ok cfg k E inh
        { l with env := l.env ++ [v], kids := (await E l.kids (refIdx r)).2 } (by simp [WF] at hw ⊢; rw [hl]; exact hw)
      refine ⟨seq_ok s0 f0 ih.1, fun l' h' => ?_⟩
      obtain ⟨h1, h2⟩ := ih.2 l' h'
      exact ⟨h1, seq_fall f0 h2⟩
    | err e =>
      simp only
      have ih := runBody_ok cfg h E inh
        { l with caught := some e, kids := (await E l.kids (refIdx r)).2 } (by simp [WF] at hw ⊢; rw [hl]; exact hw)
      refine ⟨seq_ok s0 f0 ih.1, fun l' h' => ?_⟩
      obtain ⟨h1, h2⟩ := ih.2 l' h'
      exact ⟨h1, seq_fall f0 h2⟩
  | .sync c p k h, E, inh, l, hw => by
    simp only [runBody]
    -- the call of the new future, then the continuation from the extended table
    have s0 : StepOK l.kids [Act.call l.own.length c (p.map fun r => (resolveO l.own inh r).getD (.err .other)) E] := by
      refine ⟨by simp [callIdx], ?_⟩
      intro i hi hlt
      simp only [callIdx, List.mem_singleton] at hi
      unfold WF at hw
      omega
    have f0 : FallOK l.kids [Act.call l.own.length c (p.map fun r => (resolveO l.own inh r).getD (.err .other)) E]
        (l.kids ++ [none]) := by
      refine ⟨by simp, ?_, (FallOK.append l.kids none).keep⟩
      intro i hi
      simp only [callIdx, List.mem_singleton] at hi
      subst hi
      unfold NoneAt WF at *
      rw [← hw]; simp
    cases (evalBody cfg c [] [] (p.map fun r => (resolveO l.own inh r).getD (.err .other)) none .none).outcome with
    | ok v =>
      simp only
      have ih := runBody_ok cfg k E inh
        { l with env := l.env ++ [v], own := l.own ++ [.ok v], kids := l.kids ++ [none] } (by simp [WF] at hw ⊢; exact hw)
      refine ⟨seq_ok s0 f0 ih.1, fun l' h' => ?_⟩
      obtain ⟨h1, h2⟩ := ih.2 l' h'
      exact ⟨h1, seq_fall f0 h2⟩
    | err e =>
      simp only
      have ih := runBody_ok cfg h E inh
        { l with caught := some e, own := l.own ++ [.err e], kids := l.kids ++ [none] } (by simp [WF] at hw ⊢; exact hw)
      refine ⟨seq_ok s0 f0 ih.1, fun l' h' => ?_⟩
      obtain ⟨h1, h2⟩ := ih.2 l' h'
      exact ⟨h1, seq_fall f0 h2⟩
  | .withCtx c b k, E, inh, l, hw => by
    have ih1 := runBody_ok cfg b (push E c) inh l hw
    simp only [runBody]
    cases hr : (runBody cfg b (push E c) inh l).2 with
    | done o => exact ⟨ih1.1, fun l' h => by cases h⟩
    | fall l1 =>
      simp only
      obtain ⟨hw1, f1⟩ := ih1.2 l1 hr
      have ih2 := runBody_ok cfg k E inh l1 hw1
      refine ⟨seq_ok ih1.1 f1 ih2.1, fun l' h' => ?_⟩
      obtain ⟨h1, h2⟩ := ih2.2 l' h'
      exact ⟨h1, seq_fall f1 h2⟩

/-- **a task body calls each of its own futures at most once** -/
theorem acts_nodup (cfg : Cfg) (b : Body) (inh : List Outcome) (E : SvEnv) : (callIdx (acts cfg b inh E)).Nodup :=
  (runBody_ok cfg b E inh {} rfl).1.nodup

/-! ### `CalledAt` is `taskAt` -/

theorem findCall_of_mem : ∀ (A : List Act), (callIdx A).Nodup → ∀ i c ci E, Act.call i c ci E ∈ A →
    findCall i A = some (c, ci, E)
  | [], _, _, _, _, _, h => by cases h
  | .read _ _ :: A, hn, i, c, ci, E, h => by
    simp only [List.mem_cons] at h
    rcases h with h | h
    · cases h
    · exact findCall_of_mem A hn i c ci E h
  | .call j c' ci' E' :: A, hn, i, c, ci, E, h => by
    simp only [callIdx, List.nodup_cons] at hn
    simp only [List.mem_cons] at h
    simp only [findCall]
    rcases h with h | h
    · injection h with h1 h2 h3 h4
      subst h1 h2 h3 h4
      simp
    · have hne : j ≠ i := by
        intro e; subst e
        exact hn.1 (mem_callIdx.2 ⟨c, ci, E, h⟩)
      rw [if_neg hne]
      exact findCall_of_mem A hn.2 i c ci E h

theorem mem_of_findCall : ∀ (A : List Act) i c ci E, findCall i A = some (c, ci, E) → Act.call i c ci E ∈ A
  | [], _, _, _, _, h => by cases h
  | .read _ _ :: A, i, c, ci, E, h => List.mem_cons_of_mem _ (mem_of_findCall A i c ci E h)
  | .call j c' ci' E' :: A, i, c, ci, E, h => by
    simp only [findCall] at h
    split at h
    · next e =>
      subst e
      simp only [Option.some.injEq, Prod.mk.injEq] at h
      obtain ⟨rfl, rfl, rfl⟩ := h
      exact List.mem_cons_self
    · exact List.mem_cons_of_mem _ (mem_of_findCall A i c ci E h)

theorem taskAt_append (cfg : Cfg) : ∀ (π ρ : Path) (b : Body) (inh : List Outcome) (E : SvEnv),
    taskAt cfg b inh E (π ++ ρ) = (taskAt cfg b inh E π).bind fun x => taskAt cfg x.1 x.2.1 x.2.2 ρ
  | [], ρ, b, inh, E => rfl
  | i :: π, ρ, b, inh, E => by
    simp only [List.cons_append, taskAt]
    cases findCall i (acts cfg b inh E) with
    | none => rfl
    | some x => obtain ⟨c, ci, E'⟩ := x; exact taskAt_append cfg π ρ c ci E'

/-- a call of the root, then a path below the callee -/
theorem calledAt_cons {cfg : Cfg} {b : Body} {inh : List Outcome} {E : SvEnv} {i : Nat} {c : Body} {ci : List Outcome}
    {E1 : SvEnv} (hc : Act.call i c ci E1 ∈ acts cfg b inh E) {π : Path} {b' : Body} {inh' : List Outcome} {E' : SvEnv}
    (h : CalledAt cfg c ci E1 π b' inh' E') : CalledAt cfg b inh E (i :: π) b' inh' E' := by
  induction h with
  | here => exact CalledAt.step (π := []) (CalledAt.here b inh E) hc
  | @step π b1 inh1 E1' j b2 inh2 E2 _ hc2 ih =>
    have := CalledAt.step ih hc2
    simpa using this

theorem calledAt_of_taskAt (cfg : Cfg) : ∀ (π : Path) (b : Body) (inh : List Outcome) (E : SvEnv) (b' : Body)
    (inh' : List Outcome) (E' : SvEnv), taskAt cfg b inh E π = some (b', inh', E') → CalledAt cfg b inh E π b' inh' E'
  | [], b, inh, E, b', inh', E', h => by
    simp only [taskAt, Option.some.injEq, Prod.mk.injEq] at h
    obtain ⟨rfl, rfl, rfl⟩ := h
    exact CalledAt.here b inh E
  | i :: π, b, inh, E, b', inh', E', h => by
    simp only [taskAt] at h
    cases h2 : findCall i (acts cfg b inh E) with
    | none => rw [h2] at h; cases h
    | some y =>
      obtain ⟨c, ci, E2⟩ := y
      rw [h2] at h
      exact calledAt_cons (mem_of_findCall _ i _ _ _ h2) (calledAt_of_taskAt cfg π c ci E2 b' inh' E' h)

/-- **the creation path determines the task the sequential evaluation calls** -/
theorem calledAt_iff_taskAt (cfg : Cfg) (b : Body) (inh : List Outcome) (E : SvEnv) (π : Path) (b' : Body)
    (inh' : List Outcome) (E' : SvEnv) :
    CalledAt cfg b inh E π b' inh' E' ↔ taskAt cfg b inh E π = some (b', inh', E') := by
  constructor
  · intro h
    induction h with
    | here => rfl
    | @step π b1 inh1 E1 i b2 inh2 E2 _ hc ih =>
      rw [taskAt_append, ih]
      simp only [Option.bind_some, taskAt]
      rw [findCall_of_mem _ (acts_nodup cfg b1 inh1 E1) i b2 inh2 E2 hc]
  · intro h
    exact calledAt_of_taskAt cfg π b inh E b' inh' E' h

end AsynqModel.Core.P22.SeqSV
