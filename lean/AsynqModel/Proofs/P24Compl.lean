import AsynqModel.Proofs.P24Nt
import AsynqModel.Proofs.P16UStep
/-!
  P24, part 4: `Compl s (step s)` - how a future becomes computed in one step of the machine.  A future that is
  uncomputed in `s` and computed in `step s` is
  * not a task (a batch item answered by a flush, a lazy future, a new constant) and its outcome is not the
    NonAsyncContext assertion error, or
  * the task `f` whose generator is running (innermost frame `gen f old`) and that ends at its current statement:
    `ret` / `res` / `raise` / `reraise` / the end of its body, with the outcome that statement gives (`FinOut`), or
  * a task on top of the scheduler stack, BLOCKED on an uncomputed dependency, with a registered NonAsyncContext, that is
    failed with the assertion error of `NonAsyncContext.pause()/resume()` (`SuspNA`).
-/
namespace AsynqModel.Core.P24
open AsynqModel.Core AsynqModel.Core.P5

/-- the outcome with which a task in local state `ts` ends at its current statement -/
def FinOut (ts : TaskSt) (o : Outcome) : Prop :=
  match ts.body with
  | .ret tag => o = .ok (.node tag ts.env)
  | .res tag => o = .ok (.node tag ts.env)
  | .raise e => o = .err (.u e)
  | .reraise => o = .err (ts.caught.getD (.u 0))
  | .endwith => ts.conts = [] ∧ o = .ok .none
  | _ => False

/-- task `t` is on top of the scheduler's task stack inside `_execute`, blocked on an uncomputed dependency, and a
    NonAsyncContext is registered with it -/
def SuspNA (s : State) (t : Nat) : Prop :=
  (∃ root base rest stk, s.ctl = .waitLoop root base :: rest ∧ s.stack = t :: stk) ∧
  (s.fut t).kind = .task ∧ (∃ d ∈ (s.task t).deps, s.computed d = false) ∧
  (∃ c ∈ (s.task t).ctxs, s.ctxIsNonAsync c = true)

def Compl (s r : State) : Prop := ∀ f o, s.out f = none → r.out f = some o →
  ((r.fut f).kind ≠ .task ∧ o ≠ .err .nonasync) ∨
  (∃ old rest, s.ctl = .gen f old :: rest ∧ (s.task f).pending = false ∧ FinOut (s.task f) o ∧
    (r.task f).body = (s.task f).body ∧ (r.task f).caught = (s.task f).caught) ∨
  (o = .err .nonasync ∧ SuspNA s f)

theorem Nt.compl {s r : State} (h : Nt s r) : Compl s r := fun f o h1 h2 => .inl (h.new f o h1 h2)

/-! ### small steps for the macro -/

theorem nt_emit (s : State) (e : Event) : Nt s (s.emit e) := Nt.of_futs rfl
theorem nt_fail (s : State) (m : String) : Nt s (s.fail m) := Nt.of_futs rfl
theorem nt_popStack (s : State) : Nt s s.popStack := Nt.of_futs rfl
theorem nt_updBatch (s : State) (k q : Nat) (g : Batch → Batch) : Nt s (s.updBatch k q g) := Nt.of_futs rfl
theorem nt_withCtl (s : State) (c : List Ctl) : Nt s { s with ctl := c } := Nt.of_futs rfl
theorem nt_withRaising (s : State) (r : Option Err) : Nt s { s with raising := r } := Nt.of_futs rfl
theorem nt_withBatches (s : State) (b : List Batch) : Nt s { s with batches := b } := Nt.of_futs rfl
theorem nt_withCtxs (s : State) (c : List CtxSt) : Nt s { s with ctxs := c } := Nt.of_futs rfl
theorem nt_ctxResumeOne (s : State) (c : Nat) : Nt s (s.ctxResumeOne c) := Nt.of_futs (flagOp_resume s c).futs
theorem nt_ctxPauseOne (s : State) (c : Nat) : Nt s (s.ctxPauseOne c) := Nt.of_futs (flagOp_pause s c).futs

theorem nt_appendFut_none (s : State) (x : Fut) (hx : x.out = none) : Nt s { s with futs := s.futs ++ [x] } :=
  (nt_alloc_none s x .lazy hx).cg rfl
theorem nt_appendFut_val (s : State) (x : Fut) (hk : x.kind ≠ .task)
    (ho : ∀ o, x.out = some o → o ≠ .err .nonasync) : Nt s { s with futs := s.futs ++ [x] } :=
  (nt_alloc_val s x .lazy hk ho).cg rfl

theorem nt_newCtx (s : State) (cid t : Nat) (c : CtxKind) : Nt s (newCtx s cid t c) := by
  unfold newCtx
  simp only []
  split
  · refine Nt.updTask ?_ _ _
    exact Nt.of_futs rfl
  · exact Nt.of_futs rfl

/-- `AsyncScopedValue.override` touches its variable before the context object is created -/
def touch0 (s : State) (c : CtxKind) : State :=
  match c with
  | .override var _ => s.svTouch var
  | _ => s

theorem nt_touch0 (s : State) (c : CtxKind) : Nt s (touch0 s c) := by
  cases c
  · exact Nt.refl _
  · exact nt_svTouch ..
  · exact Nt.refl _

macro "p24_nt_step" : tactic => `(tactic| first
  | exact Nt.refl _
  | refine Nt.trans ?_ (nt_popStack _)
  | refine Nt.trans ?_ (nt_newTask _ _ _)
  | refine Nt.trans ?_ (nt_alloc_none _ _ _ rfl)
  | refine Nt.trans ?_ (nt_alloc_val _ _ _ (by intro h; cases h) (by intro o h; injection h with h; subst h; intro h'; cases h'))
  | refine Nt.trans ?_ (nt_appendFut_none _ _ rfl)
  | refine Nt.trans ?_ (nt_appendFut_val _ _ (by intro h; cases h) (by intro o h; injection h with h; subst h; intro h'; cases h'))
  | refine Nt.trans ?_ (nt_emit _ _)
  | refine Nt.trans ?_ (nt_updTask _ _ _)
  | refine Nt.trans ?_ (nt_updBatch ..)
  | refine Nt.trans ?_ (nt_fail ..)
  | refine Nt.trans ?_ (nt_leaveGen ..)
  | refine Nt.trans ?_ (nt_svTouch ..)
  | refine Nt.trans ?_ (nt_ctxResumeOne ..)
  | refine Nt.trans ?_ (nt_ctxExit ..)
  | refine Nt.trans ?_ (nt_withCtl _ _)
  | refine Nt.trans ?_ (nt_withRaising _ _)
  | refine Nt.trans ?_ (nt_withBatches _ _)
  | refine Nt.trans ?_ (nt_withCtxs _ _)
  | exact Nt.of_futs rfl)

macro "p24_nt" : tactic => `(tactic| (repeat p24_nt_step))

/-! ### one instruction of a task body -/

/-- the result of `genStep`: nothing is completed, or the running task finishes -/
inductive GenC (s : State) (t : Nat) (old : Option Nat) (r : State) : Prop
  | nt (h : Nt s r)
  | finish (o : Outcome) (hp : (s.task t).pending = false) (hf : FinOut (s.task t) o) (hnc : s.computed t = false)
      (e : r = (((s.exitAll t).updTask t fun ts => { ts with pending := false }).complete t o).leaveGen t old)

theorem genc_finish (s : State) (t : Nat) (old : Option Nat) (o : Outcome) (hp : (s.task t).pending = false)
    (hf : FinOut (s.task t) o) : GenC s t old (s.finishTask t old o) := by
  unfold State.finishTask
  split
  · exact .nt (nt_fail ..)
  · next h => exact .finish o hp hf (by simpa using h) rfl

theorem genc_yield (s : State) (t : Nat) (old : Option Nat) (e : Event) (g : TaskSt → TaskSt) (deps : List Nat) :
    GenC s t old (if deps.isEmpty then (s.emit e).updTask t g else ((s.emit e).updTask t g).leaveGen t old) := by
  have q1 : Nt s ((s.emit e).updTask t g) := (nt_emit s e).trans (nt_updTask _ _ _)
  split
  · exact .nt q1
  · exact .nt (q1.trans (nt_leaveGen ..))

theorem gen_compl (s : State) (t : Nat) (old : Option Nat) (hi : P2.ItemsOk s) : GenC s t old (s.genStep t old) := by
  unfold State.genStep
  simp only []
  split
  · refine .nt ?_
    split
    · p24_nt
    · split <;> p24_nt
  · next hpend =>
    have hp : (s.task t).pending = false := by simpa using hpend
    split
    · next tag hb => exact genc_finish s t old _ hp (by unfold FinOut; rw [hb])
    · next tag hb => exact genc_finish s t old _ hp (by unfold FinOut; rw [hb])
    · next e hb => exact genc_finish s t old _ hp (by unfold FinOut; rw [hb])
    · next hb => exact genc_finish s t old _ hp (by unfold FinOut; rw [hb])
    · refine .nt ?_; p24_nt
    · -- item
      refine .nt ?_
      rename_i kind payload mode k heq
      cases hcb : s.curBatch? kind with
      | none =>
        simp only []
        split
        · p24_nt
        · p24_nt
      | some b0 =>
        simp only []
        split
        · p24_nt
        · p24_nt
    · refine .nt ?_; p24_nt
    · refine .nt ?_; p24_nt
    · refine .nt ?_; p24_nt
    · exact genc_yield s t old _ _ _
    · exact genc_yield s t old _ _ _
    · refine .nt ?_; p24_nt
    · -- syncfut
      refine .nt ?_
      rename_i r k h heq
      have q1 : Nt s ((s.updTask t fun ts => { ts with body := .syncret ((s.task t).resolve r) k h }).emit
          (.syncE t ((s.task t).resolve r))) := by p24_nt
      have hi1 : P2.ItemsOk ((s.updTask t fun ts => { ts with body := .syncret ((s.task t).resolve r) k h }).emit
          (.syncE t ((s.task t).resolve r))) :=
        P7.itemsOk_of_eq (s := s) (fun f => by rw [emit_fut, kind_updTask]) rfl hi
      split
      · exact q1
      · next hc =>
        split
        · exact q1.trans (nt_withCtl _ _)
        · split
          · split
            · exact q1
            · exact q1.trans (nt_flushBatch _ _ _ hi1)
          · exact q1
        · next hk =>
          exact q1.trans (nt_complete _ _ _ (computed_false_of_not hc) (by rw [hk]; intro h; cases h)
            (P16.lazyOutcome_ne _))
        · exact q1
    · -- syncret
      refine .nt ?_
      repeat' split
      all_goals p24_nt
    · -- withCtx
      refine .nt ?_
      rename_i c b k heq
      have h1 := (nt_touch0 s c).trans (nt_newCtx _ s.ctxs.length t c)
      have h2 : Nt s (if c == .nonasync then newCtx (touch0 s c) s.ctxs.length t c
          else (newCtx (touch0 s c) s.ctxs.length t c).ctxResumeOne s.ctxs.length) := by
        split
        · exact h1
        · exact h1.trans (nt_ctxResumeOne ..)
      exact h2.trans (nt_updTask _ t fun ts => { ts with conts := (s.ctxs.length, k) :: ts.conts, body := b })
    · -- endwith
      rename_i hbody
      split
      · next hc => exact genc_finish s t old _ hp (by unfold FinOut; rw [hbody]; exact ⟨hc, rfl⟩)
      · refine .nt ?_
        exact (nt_ctxExit ..).trans (nt_updTask ..)
    · refine .nt ?_
      exact ((nt_svTouch ..).trans (nt_emit ..)).trans (nt_updTask ..)
    · refine .nt ?_
      exact (nt_emit ..).trans (nt_updTask ..)

end AsynqModel.Core.P24
