import AsynqModel.Lib.Generator
import AsynqModel.Proofs.Generator
import AsynqModel.Proofs.GeneratorRel
/-! C17: the observer is deterministic - for a given reference state and operation it accepts AT MOST ONE observation -
    so (with `rel_step`: it accepts the model's) it accepts exactly the model's observations -/
namespace AsynqModel.Generator

/-- finishing tactic of the determinism proofs: both acceptance conditions are in context -/
macro "det_finish" p1:ident p2:ident : tactic => `(tactic| (
  all_goals (simp only [Bool.and_eq_true, beq_iff_eq, bne_iff_ne, ne_eq, Bool.not_eq_true', Bool.or_eq_true,
    Bool.not_eq_true, decide_eq_true_eq, decide_eq_false_iff_not] at *)
  all_goals (first | (have hpp : $p1 = $p2 := by omega) | skip)
  all_goals simp_all
  all_goals omega))

theorem watchBasic_det (total : Nat) (w : Watch) (o1 o2 : Obs) (w1 w2 : Watch)
    (h1 : watchBasic total w o1 = .ok w1) (h2 : watchBasic total w o2 = .ok w2)
    (hop : o1.op = o2.op) : { o1 with sib := o2.sib } = o2 ∧ w1 = w2 := by
  obtain ⟨op, r1, s1, p1, f1, b1⟩ := o1
  obtain ⟨op2, r2, s2, p2, f2, b2⟩ := o2
  simp only at hop
  subst hop
  unfold watchBasic at h1 h2
  simp only at h1 h2
  cases op with
  | par k a => simp only at h1; repeat' split at h1
               all_goals simp at h1
  | send => simp only at h1; repeat' split at h1
            all_goals simp at h1
  | next =>
    simp only at h1 h2
    repeat' split at h1
    all_goals (try (simp at h1; done))
    all_goals (repeat' split at h2)
    all_goals (try (simp at h2; done))
    det_finish p1 p2
  | compute k =>
    simp only at h1 h2
    repeat' split at h1
    all_goals (try (simp at h1; done))
    all_goals (repeat' split at h2)
    all_goals (try (simp at h2; done))
    det_finish p1 p2
  | take n =>
    simp only at h1 h2
    repeat' split at h1
    all_goals (try (simp at h1; done))
    all_goals (repeat' split at h2)
    all_goals (try (simp at h2; done))
    det_finish p1 p2
  | list =>
    simp only at h1 h2
    repeat' split at h1
    all_goals (try (simp at h1; done))
    all_goals (repeat' split at h2)
    all_goals (try (simp at h2; done))
    det_finish p1 p2

theorem isSome_false_eq {α : Type} (o : Option α) (h : ¬ o.isSome = true) : o = none := by
  cases o <;> simp_all

/-- an operation other than `par` / `send`: `watchStep` is `watchBasic` on an observation without sibling -/
theorem watchStep_basic_det (total : Nat) (w : Watch) (o1 o2 : Obs) (w1 w2 : Watch)
    (e1 : watchStep total w o1 = if o1.sib.isSome then .error "sibling-unexpected" else watchBasic total w o1)
    (e2 : watchStep total w o2 = if o2.sib.isSome then .error "sibling-unexpected" else watchBasic total w o2)
    (h1 : watchStep total w o1 = .ok w1) (h2 : watchStep total w o2 = .ok w2)
    (hop : o1.op = o2.op) : o1 = o2 ∧ w1 = w2 := by
  rw [e1] at h1
  rw [e2] at h2
  split at h1
  · simp at h1
  · split at h2
    · simp at h2
    · rename_i hs1 hs2
      have hs1 := isSome_false_eq _ hs1
      have hs2 := isSome_false_eq _ hs2
      obtain ⟨ha, hb⟩ := watchBasic_det total w o1 o2 w1 w2 h1 h2 hop
      refine ⟨?_, hb⟩
      rw [← ha]
      obtain ⟨op, r1, s1, p1, f1, b1⟩ := o1
      simp only at hs1
      simp [hs1, hs2]

theorem watchStep_det (total : Nat) (w : Watch) (o1 o2 : Obs) (w1 w2 : Watch)
    (h1 : watchStep total w o1 = .ok w1) (h2 : watchStep total w o2 = .ok w2)
    (hop : o1.op = o2.op) : o1 = o2 ∧ w1 = w2 := by
  cases hop1 : o1.op with
  | next =>
    have hop2 : o2.op = .next := by rw [← hop, hop1]
    exact watchStep_basic_det total w o1 o2 w1 w2 (by simp [watchStep, hop1]) (by simp [watchStep, hop2]) h1 h2 hop
  | compute k =>
    have hop2 : o2.op = .compute k := by rw [← hop, hop1]
    exact watchStep_basic_det total w o1 o2 w1 w2 (by simp [watchStep, hop1]) (by simp [watchStep, hop2]) h1 h2 hop
  | take n =>
    have hop2 : o2.op = .take n := by rw [← hop, hop1]
    exact watchStep_basic_det total w o1 o2 w1 w2 (by simp [watchStep, hop1]) (by simp [watchStep, hop2]) h1 h2 hop
  | list =>
    have hop2 : o2.op = .list := by rw [← hop, hop1]
    exact watchStep_basic_det total w o1 o2 w1 w2 (by simp [watchStep, hop1]) (by simp [watchStep, hop2]) h1 h2 hop
  | send =>
    have hop2 : o2.op = .send := by rw [← hop, hop1]
    obtain ⟨op, r1, s1, p1, f1, b1⟩ := o1
    obtain ⟨op2, r2, s2, p2, f2, b2⟩ := o2
    simp only at hop1 hop2
    subst hop1 hop2
    simp only [watchStep] at h1 h2
    split at h1
    · simp at h1
    · split at h2
      · simp at h2
      · rename_i hs1 hs2
        have hs1 := isSome_false_eq _ hs1
        have hs2 := isSome_false_eq _ hs2
        subst hs1 hs2
        cases hf : w.fresh total with
        | true =>
          simp only [hf, if_true] at h1 h2
          repeat' split at h1
          all_goals (try (simp at h1; done))
          all_goals (repeat' split at h2)
          all_goals (try (simp at h2; done))
          det_finish p1 p2
        | false =>
          simp only [hf] at h1 h2
          obtain ⟨ha, hb⟩ := watchBasic_det total w _ _ w1 w2 h1 h2 rfl
          simp only [Obs.mk.injEq, true_and] at ha
          simp [ha, hb]
  | par k a =>
    have hop2 : o2.op = .par k a := by rw [← hop, hop1]
    obtain ⟨op, r1, s1, p1, f1, b1⟩ := o1
    obtain ⟨op2, r2, s2, p2, f2, b2⟩ := o2
    simp only at hop1 hop2
    subst hop1 hop2
    simp only [watchStep] at h1 h2
    split at h1
    · simp at h1
    · split at h2
      · simp at h2
      · rename_i hb1 hb2
        have hb1 : b1 = 0 := by simpa using hb1
        have hb2 : b2 = 0 := by simpa using hb2
        subst hb1 hb2
        cases hk : w.known[k]? with
        | none =>
          cases s1 with
          | some x => obtain ⟨d, r⟩ := x; simp [hk] at h1
          | none =>
            cases s2 with
            | some x => obtain ⟨d, r⟩ := x; simp [hk] at h2
            | none =>
              simp only [hk] at h1 h2
              repeat' split at h1
              all_goals (try (simp at h1; done))
              all_goals (repeat' split at h2)
              all_goals (try (simp at h2; done))
              det_finish p1 p2
        | some kn =>
          cases s1 with
          | none => simp [hk] at h1
          | some x1 =>
            cases s2 with
            | none => simp [hk] at h2
            | some x2 =>
              obtain ⟨d1, q1⟩ := x1
              obtain ⟨d2, q2⟩ := x2
              cases kn with
              | val x =>
                simp only [hk] at h1 h2
                split at h1
                · simp at h1
                · split at h2
                  · simp at h2
                  · rename_i c1 c2
                    obtain ⟨ha, hb⟩ := watchBasic_det total w _ _ w1 w2 h1 h2 rfl
                    simp only [sibObs, Obs.mk.injEq, true_and] at ha
                    simp only [bne_iff_ne, ne_eq, Bool.not_eq_true', Bool.or_eq_true, not_or, Decidable.not_not,
                      Bool.not_eq_false] at c1 c2
                    simp [ha, hb, c1, c2]
              | pending pb =>
                simp only [hk] at h1 h2
                cases hd : drainWatch w k with
                | mk wd x =>
                  simp only [hd] at h1 h2
                  split at h1
                  · simp at h1
                  · split at h1
                    · simp at h1
                    · split at h2
                      · simp at h2
                      · split at h2
                        · simp at h2
                        · rename_i c1 e1 c2 e2
                          have hr1 : r1 = .item x := by simpa using c1
                          have hr2 : r2 = .item x := by simpa using c2
                          have hd12 : d1 = d2 := by
                            cases d1 <;> cases d2 <;> cases hpk : (pb || leadBlock w.rest) <;> simp_all
                          subst hr1 hr2 hd12
                          cases d1 with
                          | true =>
                            simp only [if_true] at h1 h2
                            obtain ⟨ha, hb⟩ := watchBasic_det total wd _ _ w1 w2 h1 h2 rfl
                            simp only [sibObs, Obs.mk.injEq, true_and] at ha
                            simp [ha, hb]
                          | false =>
                            simp only [Bool.false_eq_true, if_false] at h1 h2
                            repeat' split at h1
                            all_goals (try (simp at h1; done))
                            all_goals (repeat' split at h2)
                            all_goals (try (simp at h2; done))
                            det_finish p1 p2

theorem observe_op (s : St) (op : Op) : (observe s op).2.op = op := by
  cases op <;> simp [observe, observeBasic]

/-- a history the observer accepts IS the model's run of its operations -/
theorem watchRun_exact (total : Nat) : ∀ (obs : List Obs) (w : Watch) (s : St), Rel total w s →
    (∃ w', watchRun total w obs = .ok w') → obs = run s (obs.map (·.op)) := by
  intro obs
  induction obs with
  | nil => intro w s _ _; rfl
  | cons ob rest ih =>
    intro w s h ⟨w', hw⟩
    obtain ⟨w1, hm, hr⟩ := rel_step total w s ob.op h
    simp only [watchRun] at hw
    cases hs : watchStep total w ob with
    | error e => simp [hs] at hw
    | ok w2 =>
      simp only [hs] at hw
      obtain ⟨he, hww⟩ := watchStep_det total w ob (observe s ob.op).2 w2 w1 hs hm (observe_op s ob.op).symm
      subst hww
      have := ih w2 (observe s ob.op).1 hr ⟨w', hw⟩
      simp only [List.map_cons, run]
      rw [← this, ← he]

end AsynqModel.Generator
