import AsynqModel.Proofs.P15OrdQS
import AsynqModel.Proofs.P15Main
import AsynqModel.Proofs.P12Inv
import AsynqModel.Proofs.P4Mono
/-!
  P15, part 12 (start-order clause): the invariant `Q` holds in every state of a well-scoped run in which the stack
  guard has not fired and no NonAsyncContext was created.
-/
namespace AsynqModel.Core.P15
open AsynqModel.Core AsynqModel.Core.Spec AsynqModel.Core.P2 AsynqModel.Core.P14

theorem genQ_reach {s : State} (h : P10.WSReach s) (hg : s.guardFired = false) (hna : P7.NA s) {t : Nat}
    {old : Option Nat} {rest : List Ctl} (hctl : s.ctl = .gen t old :: rest) : GenQ s t := by
  have hr := h.reach
  have pin := pinv_reach hr
  have hi := (P10.ws_hinv h).1
  have r := R_reach hr
  have htg : t ∈ gens s.ctl := by rw [hctl]; simp [gens]
  refine ⟨pin.genKind t htg, pin.live t htg, fun _ _ d hd => ?_, fun hs => (r.ns t hs).1, fun hp => r.np hp, hi.ws t,
    fun d hd => hi.named_bound hd, fun d hd => hi.named_bound (hi.prevY t d hd),
    (P12.lib_of_ws h hg hna).raising⟩
  have := pin.gnb t htg d hd
  intro ho
  unfold State.computed at this
  rw [ho] at this; cases this

theorem Q_reach {s : State} (h : P10.WSReach s) (hg : s.guardFired = false) (hn : Inv.noNonAsync s = true) : Q s := by
  induction h with
  | init cfg tops choices _ => exact Q_init cfg tops choices
  | @step s hs ih =>
    have hg0 := P3.guard_mono s hg
    have hn0 := P4.step_noNonAsync s hn
    have hna := P7.na_of_noNonAsync hn0
    refine Q_step (ih hg0 hn0) (pinv_reach hs.reach).items hna ?_
      (fun t old rest _ hctl => genQ_reach hs hg0 hna hctl)
    intro p hp
    have := (P10.ws_hinv hs).2 p hp
    exact wsB_notSync this

end AsynqModel.Core.P15
