import AsynqModel.Proofs.P4TraceGen
/-! P4: the scheduler's own transitions and `step` preserve the trace invariant -/
namespace AsynqModel.Core.P4
open AsynqModel.Core

variable {cfg0 : Cfg} {tops0 : List (Conv × Body)}

theorem tr_handleTask {s : State} (T : Tr cfg0 tops0 s) {root base : Nat} {rest : List Ctl}
    (hctl : s.ctl = .waitLoop root base :: rest) (t : Nat)
    (hn : Inv.noNonAsync s = true) (hst : (s.handleTask t).stuck = none) : Tr cfg0 tops0 (s.handleTask t) := by
  unfold State.handleTask at hst ⊢
  simp only at hst ⊢
  split
  · split
    · have q1 : Still s (s.updTask t fun ts => { ts with depsSched := false }) :=
        still_updTask _ _ _ (fun ts => coreA_depsSched ts _)
      have q2 := q1.trans (still_pauseContexts _ t (q1.1.nna hn))
      exact (T.quiet q2.1).same rfl rfl rfl rfl rfl rfl rfl
    · have q1 : Still s (s.updTask t fun ts => { ts with depsSched := true }) :=
        still_updTask _ _ _ (fun ts => coreA_depsSched ts _)
      have q2 := q1.trans (still_resumeContexts _ t (q1.1.nna hn))
      exact (T.quiet q2.1).same rfl rfl rfl rfl rfl rfl rfl
  · rename_i hblk
    split
    · rename_i hre
      rw [if_neg hblk, if_pos hre] at hst
      simp at hst
    · have q := still_resumeContexts s t hn
      have T1 := T.quiet q.1
      refine T1.irrEff (irr_of_eq rfl rfl rfl rfl rfl rfl) (.push (.gen t (s.resumeContexts t).active) ?_ rfl)
      rw [q.1.ctl, hctl]; nofun

theorem tr_executeIter {s : State} (G : Good s) (T : Tr cfg0 tops0 s) {root base : Nat} {rest : List Ctl}
    (hctl : s.ctl = .waitLoop root base :: rest) (hn : Inv.noNonAsync s = true)
    (hst : s.executeIter.stuck = none) (hg : s.executeIter.guardFired = false) : Tr cfg0 tops0 s.executeIter := by
  unfold State.executeIter at hst hg ⊢
  cases hstack : s.stack with
  | nil => simp [hstack] at hst
  | cons top tl =>
    simp only [hstack] at hst hg ⊢
    split
    · rename_i hlen; rw [if_pos hlen] at hg; simp [State.raiseOutOfWait] at hg
    · rename_i hlen
      rw [if_neg hlen] at hst
      split
      · exact T.same rfl rfl rfl rfl rfl rfl rfl
      · rename_i hcomp
        rw [if_neg hcomp] at hst
        have ho : (s.fut top).out = none := by simpa [State.computed, State.out] using hcomp
        cases hk : (s.fut top).kind <;> simp only [hk] at hst ⊢
        case task => exact tr_handleTask T hctl top hn hst
        case item kind seq payload mode =>
          exact T.same (s := s) (by split <;> (try split) <;> rfl) (by split <;> (try split) <;> rfl)
            (by split <;> (try split) <;> rfl) (by split <;> (try split) <;> rfl)
            (by split <;> (try split) <;> rfl) (by split <;> (try split) <;> rfl)
            (by split <;> (try split) <;> rfl)
        case «lazy» o =>
          have hlt : top < s.futs.length := lt_of_kind s top (by rw [hk]; nofun)
          exact (T.quiet (quiet_complete s top _ ho hlt (G.fi.lazyDen top o hk).symm
            (by rw [hk]; nofun))).same rfl rfl rfl rfl rfl rfl rfl
        all_goals simp at hst

theorem tr_flushChosen {s : State} (G : Good s) (T : Tr cfg0 tops0 s) (c : Nat × Nat) (cs : List (Nat × Nat))
    (hst : (flushChosen s c cs).stuck = none) : Tr cfg0 tops0 (flushChosen s c cs) := by
  unfold flushChosen at hst ⊢
  split
  · rename_i hadm; rw [if_pos hadm] at hst; simp at hst
  · rename_i hadm
    rw [if_neg hadm] at hst
    split
    · rename_i hb; rw [hb] at hst; simp at hst
    · rename_i b hb
      have G1 : Good ({ s with choices := cs, sbatches := s.sbatches.erase c } : State) :=
        good_same G rfl rfl rfl rfl rfl rfl
      have T1 : Tr cfg0 tops0 ({ s with choices := cs, sbatches := s.sbatches.erase c } : State) :=
        T.same rfl rfl rfl rfl rfl rfl rfl
      exact ((T1.emit _ (by trivial)).quiet (quiet_flushBatch _ (good_emit G1 _).fi c.1 c.2 b hb)).emit _ (by trivial)

theorem tr_schedulerFlush {s : State} (G : Good s) (T : Tr cfg0 tops0 s) {root base : Nat} {rest : List Ctl}
    (hctl : s.ctl = .waitLoop root base :: rest) (hst : (s.schedulerFlush root).stuck = none) :
    Tr cfg0 tops0 (s.schedulerFlush root) := by
  have G0 : Good (flushPrep s root) := by
    refine ⟨G.fi.comp (Comp.ofEq rfl rfl rfl), ?_, G.tops⟩
    exact G.ci.replaceTop hctl rfl (c' := .waitEnter root) rfl (by simp [flushPrep, hctl]) rfl G.ci.raising
  have T0 : Tr cfg0 tops0 (flushPrep s root) :=
    T.irrEff (irr_of_eq rfl rfl rfl rfl rfl rfl)
      (.replace root (.waitLoop root base) (.waitEnter root) rest hctl (by simp [flushPrep, hctl])
        (.inr ⟨base, rfl⟩) (.inl rfl))
  rw [schedulerFlush_eq] at hst ⊢
  split
  · exact T0
  · rename_i hne
    rw [if_neg hne] at hst
    generalize flushChoice s root = cr at hst ⊢
    obtain ⟨c?, cs⟩ := cr
    cases c? with
    | none => simp at hst
    | some c => exact tr_flushChosen G0 T0 c cs hst

theorem drop_cons_facts {α : Type} (l : List α) (i : Nat) (a : α) (r : List α) (h : l.drop i = a :: r) :
    l[i]? = some a ∧ l.drop (i + 1) = r := by
  constructor
  · rw [← List.head?_drop, h]; rfl
  · rw [← List.tail_drop, h]; rfl

theorem tr_finishTop {s : State} (G : Good s) (T : Tr cfg0 tops0 s) (hctl : s.ctl = []) (f : Nat)
    (hcur : s.curTop = some f) : Tr cfg0 tops0 (s.finishTop f) := by
  have hr := G.ci.raising
  have hb := T.bi
  unfold BI at hb
  rw [hcur] at hb
  simp only at hb
  have hout : (s.fut f).out ≠ none := by
    rcases hb with ⟨_, h⟩ | ⟨c, hc, _⟩
    · exact h
    · rw [hctl] at hc; cases hc
  obtain ⟨conv, body, c1, c2, c3, c4⟩ := T.ti.cur f hcur
  cases ho : (s.fut f).out with
  | none => exact absurd ho hout
  | some o =>
    have hden : o = evalTop cfg0 body := by rw [← c4]; exact G.fi.agree f o ho
    unfold State.finishTop
    simp only [hr, State.out, ho, Option.getD_some]
    have T0 : TI cfg0 tops0 ({ s with raising := none, curTop := none } : State) :=
      ⟨T.ti.cfg, T.ti.doneEv, T.ti.yieldEv, T.ti.runEv, T.ti.topsEq, T.ti.results, nofun⟩
    have T1 : TI cfg0 tops0 (({ s with raising := none, curTop := none } : State).emit (.ret o)) := by
      constructor
      · exact T0.cfg
      · intro g o' hm
        simp only [trace_emit, List.mem_cons] at hm
        rcases hm with hm | hm
        · cases hm
        · exact T0.doneEv g o' hm
      · intro t hk hn hp hs
        exact List.mem_cons_of_mem _ (T0.yieldEv t hk hn hp hs)
      · intro t i dc o' hm
        simp only [trace_emit, List.mem_cons] at hm
        rcases hm with hm | hm
        · cases hm
        · obtain ⟨ry, a, b, c⟩ := T0.runEv t i dc o' hm
          exact ⟨ry, List.mem_cons_of_mem _ a, b, c⟩
      · exact T0.topsEq
      · intro x hx
        simp only [trace_emit, results] at hx
        have hlt : lastTop s.trace = some (s.topIdx - 1, conv) := c1
        rw [show (({ s with raising := none, curTop := none } : State).trace) = s.trace from rfl, hlt] at hx
        simp only [List.cons_append, List.nil_append, List.mem_cons] at hx
        rcases hx with rfl | hx
        · exact ⟨body, c2, hden⟩
        · exact T.ti.results x hx
      · nofun
    have T2 := (T1.emit (.sched true s.stack.length s.sbatches.length
        (State.flushable (({ s with raising := none, curTop := none } : State).emit (.ret o))).length s.active)
      (by intro _; nofun) (by intro _ _; nofun) (by intro _ _; nofun) (by intro _ _ _ _; nofun))
    refine ⟨(T2.emit _ (by intro _; nofun) (by intro _ _; nofun) (by intro _ _; nofun) (by intro _ _ _ _; nofun)), ?_⟩
    unfold BI
    exact hctl

theorem tr_newTop' {s1 : State} (T1 : TI cfg0 tops0 s1) (idx : Nat) (conv : Conv) (body : Body) (tr : List Event)
    (htr : s1.trace = .top idx conv :: tr) (hidx : s1.topIdx = idx + 1) (hget : tops0[idx]? = some (conv, body))
    (n : Nat) (hn : n = s1.futs.length) :
    Tr cfg0 tops0 { (s1.newTask body []).1 with curTop := some n, ctl := [.waitEnter n] } := by
  subst hn
  have T2 : TI cfg0 tops0 (s1.newTask body []).1 := by
    rw [newTask_eq]; exact T1.irr (irr_alloc _ _ _ rfl)
  refine ⟨⟨T2.cfg, T2.doneEv, T2.yieldEv, T2.runEv, T2.topsEq, T2.results, ?_⟩, ?_⟩
  · intro f hf
    simp only [Option.some.injEq] at hf
    subst hf
    refine ⟨conv, body, ?_, ?_, ?_, ?_⟩
    · show lastTop (s1.newTask body []).1.trace = some ((s1.newTask body []).1.topIdx - 1, conv)
      rw [newTask_eq, trace_alloc, topIdx_alloc, htr, hidx]
      simp [lastTop]
    · show tops0[(s1.newTask body []).1.topIdx - 1]? = _
      rw [newTask_eq, topIdx_alloc, hidx]; simpa using hget
    · show ((s1.newTask body []).1.fut s1.futs.length).kind = .task
      rw [newTask_eq, fut_alloc_self]
    · show ((s1.newTask body []).1.fut s1.futs.length).den = _
      rw [newTask_den, T1.cfg]; rfl
  · unfold BI
    simp only
    exact .inr ⟨.waitEnter s1.futs.length, rfl, .inl rfl⟩

theorem tr_newTop {s : State} (T : Tr cfg0 tops0 s) (hcur : s.curTop = none) (conv : Conv) (body : Body)
    (rest : List (Conv × Body)) (htops : s.tops = (conv, body) :: rest) :
    Tr cfg0 tops0 { (({ s with tops := rest, topIdx := s.topIdx + 1 } : State).emit
        (.top s.topIdx conv)).newTask body [] |>.1 with
      curTop := some s.futs.length, ctl := [.waitEnter s.futs.length] } := by
  have hte := T.ti.topsEq
  rw [htops] at hte
  obtain ⟨hget, hdrop⟩ := drop_cons_facts tops0 s.topIdx (conv, body) rest hte.symm
  have T1 : TI cfg0 tops0 (({ s with tops := rest, topIdx := s.topIdx + 1 } : State).emit (.top s.topIdx conv)) := by
    constructor
    · exact T.ti.cfg
    · intro g o' hm
      simp only [trace_emit, List.mem_cons] at hm
      rcases hm with hm | hm
      · cases hm
      · exact T.ti.doneEv g o' hm
    · intro t hk hn hp hs
      exact List.mem_cons_of_mem _ (T.ti.yieldEv t hk hn hp hs)
    · intro t i dc o' hm
      simp only [trace_emit, List.mem_cons] at hm
      rcases hm with hm | hm
      · cases hm
      · obtain ⟨ry, a, b, c⟩ := T.ti.runEv t i dc o' hm
        exact ⟨ry, List.mem_cons_of_mem _ a, b, c⟩
    · exact hdrop.symm
    · intro x hx
      simp only [trace_emit, results] at hx
      exact T.ti.results x hx
    · intro f hf
      have : s.curTop = some f := hf
      rw [hcur] at this; cases this
  exact tr_newTop' T1 s.topIdx conv body s.trace rfl rfl hget s.futs.length rfl

theorem tr_returnFromWait {s : State} (T : Tr cfg0 tops0 s) {c : Ctl} {rest : List Ctl} (hctl : s.ctl = c :: rest)
    (r : Nat) (hw : c = .waitEnter r ∨ ∃ b, c = .waitLoop r b) (hc : s.computed r = true) :
    Tr cfg0 tops0 s.returnFromWait := by
  unfold State.returnFromWait
  refine T.irrEff (irr_of_eq rfl rfl rfl rfl rfl rfl) (.popWait r c (by simp [hctl]) hw ?_)
  show (s.fut r).out ≠ none
  intro h
  simp [State.computed, State.out, h] at hc

theorem tr_step {s : State} (G : Good s) (T : Tr cfg0 tops0 s) (hn : Inv.noNonAsync s = true)
    (hst : (step s).stuck = none) (hg : (step s).guardFired = false) : Tr cfg0 tops0 (step s) := by
  have hr := G.ci.raising
  unfold step at hst hg ⊢
  split
  · exact T
  · rename_i hns
    rw [if_neg hns] at hst hg
    split
    · rename_i hctl
      rw [hctl] at hst hg
      simp only at hst hg
      split
      · rename_i f hcur
        exact tr_finishTop G T hctl f hcur
      · rename_i hcur
        split
        · exact T
        · rename_i conv body rest htops
          exact tr_newTop T hcur conv body rest htops
    · rename_i root rest hctl
      simp only [hr, Option.isSome_none, Bool.false_eq_true, if_false]
      split
      · rename_i hc
        exact tr_returnFromWait T hctl root (.inl rfl) hc
      · exact T.irrEff (irr_of_eq rfl rfl rfl rfl rfl rfl)
          (.replace root (.waitEnter root) (.waitLoop root s.stack.length) rest hctl (by simp [hctl]) (.inl rfl)
            (.inr ⟨_, rfl⟩))
    · rename_i root base rest hctl
      rw [hctl] at hst hg
      simp only [hr, Option.isSome_none, Bool.false_eq_true, if_false] at hst hg ⊢
      split
      · rename_i hlen
        rw [if_pos hlen] at hst hg
        exact tr_executeIter G T hctl hn hst hg
      · rename_i hlen
        rw [if_neg hlen] at hst hg
        split
        · rename_i hc
          exact tr_returnFromWait T hctl root (.inr ⟨base, rfl⟩) hc
        · rename_i hc
          rw [if_neg hc] at hst
          exact tr_schedulerFlush G T hctl hst
    · rename_i t old rest hctl
      rw [hctl] at hst
      simp only [hr, Option.isSome_none, Bool.false_and, Bool.false_eq_true, if_false] at hst ⊢
      exact tr_genStep G T hctl hst

theorem tr_init (cfg : Cfg) (tops : List (Conv × Body)) (choices : List (Nat × Nat)) :
    Tr cfg tops (initState cfg tops choices) := by
  refine ⟨⟨rfl, nofun, ?_, nofun, rfl, nofun, nofun⟩, rfl⟩
  intro t hk
  rw [fut_default _ t (Nat.zero_le _)] at hk; cases hk

theorem good_tr_reach {cfg : Cfg} {tops : List (Conv × Body)} {choices : List (Nat × Nat)} {s : State}
    (h : ReachW cfg tops choices s) (hs : s.stuck = none) (hg : s.guardFired = false)
    (hn : Inv.noNonAsync s = true) : Good s ∧ Tr cfg tops s := by
  induction h with
  | init hw => exact ⟨good_init cfg tops choices hw, tr_init cfg tops choices⟩
  | step _ ih =>
    have hn' := step_noNonAsync _ hn
    obtain ⟨G, T⟩ := ih (step_stuck _ hs) (step_guard _ hg) hn'
    exact ⟨good_step G hn' hs hg, tr_step G T hn' hs hg⟩

end AsynqModel.Core.P4
