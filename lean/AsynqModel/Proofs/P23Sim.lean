import AsynqModel.Proofs.P23Sb
/-
  P23 (property C08), part 6: dead entries of the set of scheduled batches are invisible.
  `Rel s s'`: the two states agree on everything but `sbatches` and the `nbatches` counts recorded in the trace, and
  their `sbatches` agree on the batches that are not flushed.  `step` preserves `Rel` (`rel_step`), so two runs started
  in related states stay related: same futures, same control, same trace up to `nbatches`.
-/
namespace AsynqModel.Core.P23
open AsynqModel.Core AsynqModel.Core.P9

/-- batch `c` is not (known to be) flushed -/
def Ulive (s : State) (c : Nat × Nat) : Bool :=
  match s.batch? c.1 c.2 with
  | some b => !b.flushed
  | none => true

structure Rel (s s' : State) : Prop where
  q : Q [] s = Q [] s'
  e : s'.sbatches.filter (Ulive s) = s.sbatches.filter (Ulive s)

theorem Rel.refl (s : State) : Rel s s := ⟨rfl, rfl⟩

/-! ### what `Q [] s = Q [] s'` gives -/

section
variable {s s' : State} (q : Q [] s = Q [] s')
include q

theorem q_ctl : s'.ctl = s.ctl := (congrArg State.ctl q).symm
theorem q_stuck : s'.stuck = s.stuck := (congrArg State.stuck q).symm
theorem q_curTop : s'.curTop = s.curTop := (congrArg State.curTop q).symm
theorem q_tops : s'.tops = s.tops := (congrArg State.tops q).symm
theorem q_raising : s'.raising = s.raising := (congrArg State.raising q).symm
theorem q_stack : s'.stack = s.stack := (congrArg State.stack q).symm
theorem q_futs : s'.futs = s.futs := (congrArg State.futs q).symm
theorem q_batches : s'.batches = s.batches := (congrArg State.batches q).symm
theorem q_cfg : s'.cfg = s.cfg := (congrArg State.cfg q).symm
theorem q_trace : s'.trace.map nb0 = s.trace.map nb0 := (congrArg State.trace q).symm

theorem q_computed (f : Nat) : s'.computed f = s.computed f := by
  unfold State.computed State.out State.fut; rw [q_futs q]
theorem q_fut (f : Nat) : s'.fut f = s.fut f := by
  unfold State.fut; rw [q_futs q]
theorem q_task (f : Nat) : s'.task f = s.task f := by
  unfold State.task; rw [q_fut q]
theorem q_batch? (k qq : Nat) : s'.batch? k qq = s.batch? k qq := by
  unfold State.batch?; rw [q_batches q]
theorem q_ulive : Ulive s' = Ulive s := by
  funext c; unfold Ulive; rw [q_batch? q]

/-- the other state is this one with another `sbatches` and another trace -/
theorem q_eq : s' = { s with sbatches := s'.sbatches, trace := s'.trace } := by
  cases s; cases s'
  simp only [Q, State.mk.injEq] at q
  obtain ⟨h1, h2, h3, h4, _, h6, h7, h8, h9, _, h11, h12, h13, h14, h15, h16, h17⟩ := q
  subst h1 h2 h3 h4 h6 h7 h8 h9 h11 h12 h13 h14 h15 h16 h17
  rfl

end

theorem flushable_eq_filter (s : State) :
    s.flushable = (s.sbatches.filter (Ulive s)).filter fun (k, q) =>
      match s.batch? k q with
      | some b => !b.items.isEmpty && !b.flushed
      | none => false := by
  unfold State.flushable
  rw [List.filter_filter]
  apply List.filter_congr
  intro c _
  obtain ⟨k, q⟩ := c
  unfold Ulive
  simp only
  cases s.batch? k q with
  | none => rfl
  | some b => cases b.flushed <;> simp

theorem Rel.flushable {s s' : State} (h : Rel s s') : s'.flushable = s.flushable := by
  rw [flushable_eq_filter s', flushable_eq_filter s, q_ulive h.q, h.e]
  congr 1
  funext c
  obtain ⟨k, q⟩ := c
  simp only
  rw [q_batch? h.q]

theorem Rel.contains {s s' : State} (h : Rel s s') (c : Nat × Nat) (hu : Ulive s c = true) :
    s'.sbatches.contains c = s.sbatches.contains c := by
  have h1 : ∀ l : List (Nat × Nat), l.contains c = (l.filter (Ulive s)).contains c := by
    intro l
    rw [Bool.eq_iff_iff]
    simp only [List.contains_iff_mem, List.mem_filter]
    exact ⟨fun hm => ⟨hm, hu⟩, fun hm => hm.1⟩
  rw [h1 s'.sbatches, h1 s.sbatches, h.e]

/-! ### pieces that commute with `Q` and leave `sbatches` alone -/

theorem filter_shrink {α : Type} (U U' : α → Bool) (hi : ∀ a, U' a = true → U a = true) (l l' : List α)
    (h : l'.filter U = l.filter U) : l'.filter U' = l.filter U' := by
  have e : ∀ m : List α, m.filter U' = (m.filter U).filter U' := by
    intro m
    rw [List.filter_filter]
    apply List.filter_congr
    intro a _
    cases hu' : U' a with
    | false => simp
    | true => simp [hi a hu']
  rw [e l', e l, h]

theorem ulive_mono {s r : State} (hfl : ∀ k q, P1.fl s k q ≤ P1.fl r k q) (c : Nat × Nat)
    (h : Ulive r c = true) : Ulive s c = true := by
  unfold Ulive at h ⊢
  cases hb : s.batch? c.1 c.2 with
  | none => rfl
  | some b =>
    cases hf : b.flushed with
    | false => simp [hf]
    | true =>
      exfalso
      have h1 : P1.fl s c.1 c.2 = 1 := by unfold P1.fl; rw [hb]; simp [hf]
      have h2 := hfl c.1 c.2
      rw [h1] at h2
      obtain ⟨b', hb', hf'⟩ := P1.fl_pos (Nat.lt_of_lt_of_le Nat.zero_lt_one h2)
      rw [hb'] at h
      simp [hf'] at h

/-- a piece of `step` that commutes with `Q`, keeps `sbatches` and unflushes nothing preserves `Rel` -/
theorem rel_of_comm (h : State → State) (hc : ∀ s, Q [] (h s) = h (Q [] s))
    (hsb : ∀ s, (h s).sbatches = s.sbatches) {s s' : State} (hfl : ∀ k q, P1.fl s k q ≤ P1.fl (h s) k q)
    (r : Rel s s') : Rel (h s) (h s') := by
  refine ⟨by rw [hc, hc, r.q], ?_⟩
  rw [hsb, hsb]
  exact filter_shrink _ _ (ulive_mono hfl) _ _ r.e

theorem fl_same {s r : State} (hb : r.batches = s.batches) (k q : Nat) : P1.fl s k q ≤ P1.fl r k q :=
  Nat.le_of_eq (P1.fl_of_batches hb k q).symm

theorem fl_of_mild {be : Bool} {s r : State} (h : P1.Mild be s r) (k q : Nat) : P1.fl s k q ≤ P1.fl r k q := by
  obtain ⟨es, _, _, hc⟩ := h.tr
  have := hc k q
  omega

/-! ### the pieces of `step` -/

theorem Q_topStart (sb : List (Nat × Nat)) (s : State) (conv : Conv) (body : Body) (rest : List (Conv × Body)) :
    Q sb (topStart s conv body rest) = topStart (Q sb s) conv body rest := by
  unfold topStart
  simp only
  have e1 : Q sb (({ s with tops := rest, topIdx := s.topIdx + 1 } : State).emit (.top s.topIdx conv)) =
      ({ Q sb s with tops := rest, topIdx := (Q sb s).topIdx + 1 } : State).emit (.top (Q sb s).topIdx conv) := rfl
  rw [← e1]
  generalize (({ s with tops := rest, topIdx := s.topIdx + 1 } : State).emit (.top s.topIdx conv)) = s1
  rw [Q_newTask_snd, ← Q_newTask_fst]
  rfl

theorem Q_weCore (sb : List (Nat × Nat)) (s : State) (root : Nat) (r : Option Err) (comp : Bool) :
    Q sb (weCore s root r comp) = weCore (Q sb s) root r comp := by
  unfold weCore
  cases r with
  | some e => rfl
  | none =>
    simp only [Option.isSome_none, Bool.false_eq_true, if_false]
    cases comp <;> rfl

/-- the snapshot after an outermost call: the same up to `nbatches` when the pending batches agree -/
theorem rel_finishTop {s s' : State} (r : Rel s s') (f : Nat) : Rel (s.finishTop f) (s'.finishTop f) := by
  have h1 : ∀ y : State, Q [] (y.finishTop f) =
      ((({ Q [] y with raising := none, curTop := none } : State).emit
        (.ret (match (Q [] y).raising with | some e => .err e | none => ((Q [] y).out f).getD (.err .other)))).emit
        (.sched true (Q [] y).stack.length 0 y.flushable.length (Q [] y).active)).emit
        (.svals (((Q [] y).sv.mergeSort fun a b => a.1 ≤ b.1).map fun p => (p.1, Val.a p.2))) := fun _ => rfl
  refine ⟨by rw [h1 s, h1 s', r.q, r.flushable], ?_⟩
  have h2 : ∀ y : State, (y.finishTop f).sbatches = y.sbatches := fun _ => rfl
  have h3 : ∀ y : State, Ulive (y.finishTop f) = Ulive y := fun _ => rfl
  rw [h2, h2, h3]
  exact r.e

theorem rel_guardReset {s s' : State} (r : Rel s s') : Rel (P3.guardReset s) (P3.guardReset s') := by
  have h1 : ∀ y : State, Q [] (P3.guardReset y) =
      { Q [] y with stack := [], active := none, guardFired := true, ctl := (Q [] y).ctl.tail,
                    raising := some .stackguard } := fun _ => rfl
  exact ⟨by rw [h1 s, h1 s', r.q], rfl⟩

theorem rel_schedItem {s s' : State} (r : Rel s s') (kind seq : Nat) :
    Rel (schedItem s kind seq ((s.batch? kind seq).map (·.flushed))).popStack
      (schedItem s' kind seq ((s'.batch? kind seq).map (·.flushed))).popStack := by
  rw [q_batch? r.q]
  have hpop : ∀ y : State, Rel y.popStack s'.popStack → Rel y.popStack s'.popStack := fun _ h => h
  have base : Rel s.popStack s'.popStack :=
    rel_of_comm (fun y => y.popStack) (fun y => Q_popStack [] y) (fun _ => rfl) (fun _ _ => fl_same rfl _ _) r
  cases hb : s.batch? kind seq with
  | none => exact base
  | some b =>
    cases hf : b.flushed with
    | true =>
      simp only [Option.map_some, hf, schedItem, Bool.true_or, if_true]
      exact base
    | false =>
      have hu : Ulive s (kind, seq) = true := by unfold Ulive; rw [hb]; simp [hf]
      have hcon := r.contains (kind, seq) hu
      simp only [Option.map_some, hf, schedItem, Bool.false_or]
      rw [hcon]
      cases hc : s.sbatches.contains (kind, seq) with
      | true => simp only [if_true]; exact base
      | false =>
        simp only [Bool.false_eq_true, if_false]
        refine ⟨?_, ?_⟩
        · have h1 : ∀ y : State, Q [] ({ y with sbatches := y.sbatches ++ [(kind, seq)] } : State).popStack =
              (Q [] y).popStack := fun _ => rfl
          rw [h1 s, h1 s', r.q]
        · show (s'.sbatches ++ [(kind, seq)]).filter (Ulive s) = (s.sbatches ++ [(kind, seq)]).filter (Ulive s)
          rw [List.filter_append, List.filter_append, r.e]

theorem Q_of_trace (y : State) (tr : List Event) (htr : tr.map nb0 = y.trace.map nb0) :
    Q [] ({ y with trace := tr } : State) = Q [] y := by
  unfold Q
  simp only [htr]

/-- the rest of a scheduler flush does not read the trace -/
theorem flushRest_trace (y : State) (tr : List Event) (fl : List (Nat × Nat)) (htr : tr.map nb0 = y.trace.map nb0) :
    Q [] (P3.flushRest { y with trace := tr } fl) = Q [] (P3.flushRest y fl) ∧
    (P3.flushRest { y with trace := tr } fl).sbatches = (P3.flushRest y fl).sbatches := by
  rw [flushRest_eq, flushRest_eq]
  have hq := Q_of_trace y tr htr
  have hp : pick ({ y with trace := tr } : State) = pick y := rfl
  rw [hp]
  cases hfl : fl.isEmpty with
  | true => simp only [if_true]; exact ⟨hq, trivial⟩
  | false =>
    simp only [Bool.false_eq_true, if_false]
    unfold flushWith
    cases (pick y).1 with
    | none => exact ⟨by rw [Q_fail, Q_fail, hq], rfl⟩
    | some c =>
      simp only
      have ha : ({ y with trace := tr } : State).admissible c = y.admissible c := rfl
      rw [ha]
      cases y.admissible c with
      | false => simp only [Bool.not_false, if_true]; exact ⟨by rw [Q_fail, Q_fail, hq], rfl⟩
      | true =>
        simp only [Bool.not_true, Bool.false_eq_true, if_false]
        have hb : ({ y with trace := tr } : State).batch? c.1 c.2 = y.batch? c.1 c.2 := rfl
        rw [hb]
        cases y.batch? c.1 c.2 with
        | none => exact ⟨by rw [Q_fail, Q_fail, hq], rfl⟩
        | some b =>
          simp only
          have key : ∀ (z z' : State) (e1 e2 : Event), nb0 e1 = e1 → nb0 e2 = e2 → Q [] z = Q [] z' →
              Q [] (((z.emit e1).flushBatch c.1 c.2).emit e2) = Q [] (((z'.emit e1).flushBatch c.1 c.2).emit e2) := by
            intro z z' e1 e2 he1 he2 hz
            rw [Q_emit _ _ _ he2, Q_flushBatch, Q_emit _ _ _ he1, Q_emit _ _ _ he2, Q_flushBatch, Q_emit _ _ _ he1, hz]
          refine ⟨?_, ?_⟩
          · refine key _ _ _ _ rfl rfl ?_
            unfold Q
            simp only [htr]
          · simp only [P6T.sb_emit, P6T.sb_flushBatch]

/-- a scheduler flush: both runs prune their sets to the same list of pending batches and choose the same batch -/
theorem rel_schedulerFlush {s s' : State} (r : Rel s s') (root : Nat) :
    Rel (s.schedulerFlush root) (s'.schedulerFlush root) := by
  rw [P3.schedulerFlush_eq, P3.schedulerFlush_eq, r.flushable, q_ctl r.q]
  -- the two pruned states differ in the trace only
  have hy : ({ s' with sbatches := s.flushable, ctl := .waitEnter root :: s.ctl.tail } : State) =
      { ({ s with sbatches := s.flushable, ctl := .waitEnter root :: s.ctl.tail } : State) with trace := s'.trace } := by
    conv => lhs; rw [q_eq r.q]
  rw [hy]
  have htr : s'.trace.map nb0 = s.trace.map nb0 := q_trace r.q
  obtain ⟨h1, h2⟩ := flushRest_trace
    ({ s with sbatches := s.flushable, ctl := .waitEnter root :: s.ctl.tail } : State) s'.trace s.flushable htr
  exact ⟨h1.symm, by rw [h2]⟩

/-! ### one step -/

theorem fl_step' (s : State) (k q : Nat) : P1.fl s k q ≤ P1.fl (step s) k q := fl_of_mild (P1.mild_step s) k q

theorem rel_step {s s' : State} (r : Rel s s') : Rel (step s) (step s') := by
  have hfl := fl_step' s
  cases hst : s.stuck with
  | some m =>
    have hst' : s'.stuck = some m := by rw [q_stuck r.q]; exact hst
    rw [P9.step_stuck s (by simp [hst]), P9.step_stuck s' (by simp [hst'])]
    exact r
  | none =>
    have hst' : s'.stuck = none := by rw [q_stuck r.q]; exact hst
    cases hctl : s.ctl with
    | nil =>
      have hctl' : s'.ctl = [] := by rw [q_ctl r.q]; exact hctl
      cases hc : s.curTop with
      | some f =>
        have hc' : s'.curTop = some f := by rw [q_curTop r.q]; exact hc
        rw [step_nil_top s f hst hctl hc, step_nil_top s' f hst' hctl' hc']
        exact rel_finishTop r f
      | none =>
        have hc' : s'.curTop = none := by rw [q_curTop r.q]; exact hc
        cases ht : s.tops with
        | nil =>
          have ht' : s'.tops = [] := by rw [q_tops r.q]; exact ht
          rw [step_nil_done s hst hctl hc ht, step_nil_done s' hst' hctl' hc' ht']
          exact r
        | cons p rest =>
          obtain ⟨conv, body⟩ := p
          have ht' : s'.tops = (conv, body) :: rest := by rw [q_tops r.q]; exact ht
          have e := step_nil_start s conv body rest hst hctl hc ht
          rw [e] at hfl
          rw [e, step_nil_start s' conv body rest hst' hctl' hc' ht']
          exact rel_of_comm (fun y => topStart y conv body rest) (fun y => Q_topStart [] y conv body rest)
            (fun _ => rfl) hfl r
    | cons c rest =>
      have hctl' : s'.ctl = c :: rest := by rw [q_ctl r.q]; exact hctl
      cases c with
      | waitEnter root =>
        have e := step_waitEnter s root rest hst hctl
        rw [e] at hfl
        rw [e, step_waitEnter s' root rest hst' hctl', q_raising r.q, q_computed r.q]
        refine rel_of_comm (fun y => weCore y root s.raising (s.computed root))
          (fun y => Q_weCore [] y root _ _) (fun y => ?_) hfl r
        unfold weCore
        repeat' split
        all_goals rfl
      | waitLoop root base =>
        have e := step_waitLoop s root base rest hst hctl
        rw [e] at hfl
        rw [e, step_waitLoop s' root base rest hst' hctl', q_raising r.q, q_computed r.q, q_stack r.q]
        unfold wlCore at hfl ⊢
        cases hr : s.raising with
        | some err =>
          rw [hr] at hfl
          simp only [Option.isSome_some, if_true] at hfl ⊢
          exact rel_of_comm (fun y => y.raiseOutOfWait _) (fun y => Q_raiseOut [] y _) (fun _ => rfl) hfl r
        | none =>
          rw [hr] at hfl
          simp only [Option.isSome_none, Bool.false_eq_true, if_false] at hfl ⊢
          cases ha : decide (s.stack.length > base) with
          | true =>
            rw [ha] at hfl
            simp only [if_true] at hfl ⊢
            cases hstk : s.stack with
            | nil =>
              have hstk' : s'.stack = [] := by rw [q_stack r.q]; exact hstk
              rw [executeIter_nil s hstk] at hfl ⊢
              rw [executeIter_nil s' hstk']
              exact rel_of_comm (fun y => y.fail _) (fun y => Q_fail [] y _) (fun _ => rfl) hfl r
            | cons top st =>
              have hstk' : s'.stack = top :: st := by rw [q_stack r.q]; exact hstk
              rw [executeIter_cons s top st hstk] at hfl ⊢
              rw [executeIter_cons s' top st hstk', q_stack r.q, q_cfg r.q, q_computed r.q, q_fut r.q]
              unfold iterCore at hfl ⊢
              cases ho : decide (s.stack.length > s.cfg.maxStack) with
              | true =>
                simp only [if_true]
                exact rel_guardReset r
              | false =>
                rw [ho] at hfl
                simp only [Bool.false_eq_true, if_false] at hfl ⊢
                cases hcp : s.computed top with
                | true =>
                  simp only [if_true]
                  exact rel_of_comm (fun y => y.popStack) (fun y => Q_popStack [] y) (fun _ => rfl)
                    (fun _ _ => fl_same rfl _ _) r
                | false =>
                  rw [hcp] at hfl
                  simp only [Bool.false_eq_true, if_false] at hfl ⊢
                  cases hk : (s.fut top).kind with
                  | task =>
                    rw [hk] at hfl
                    exact rel_of_comm (fun y => y.handleTask top) (fun y => Q_handleTask [] y top)
                      (fun y => P6T.sb_handleTask y top) hfl r
                  | item kind seq pl md => exact rel_schedItem r kind seq
                  | «lazy» o =>
                    exact rel_of_comm (fun y => (y.complete top (lazyOutcome o)).popStack) (fun _ => rfl)
                      (fun _ => rfl) (fun _ _ => fl_same rfl _ _) r
                  | const =>
                    exact rel_of_comm (fun y => y.fail _) (fun y => Q_fail [] y _) (fun _ => rfl)
                      (fun _ _ => fl_same rfl _ _) r
                  | errfut =>
                    exact rel_of_comm (fun y => y.fail _) (fun y => Q_fail [] y _) (fun _ => rfl)
                      (fun _ _ => fl_same rfl _ _) r
          | false =>
            simp only [Bool.false_eq_true, if_false]
            cases hcp : s.computed root with
            | true =>
              simp only [if_true]
              exact rel_of_comm (fun y => y.returnFromWait) (fun y => Q_returnFromWait [] y) (fun _ => rfl)
                (fun _ _ => fl_same rfl _ _) r
            | false =>
              simp only [Bool.false_eq_true, if_false]
              exact rel_schedulerFlush r root
      | gen t old =>
        have e := P9.step_gen s t old rest hst hctl
        rw [e] at hfl
        have hgb : genBad s' t = genBad s t := by
          unfold genBad; rw [q_raising r.q, q_task r.q]
        rw [e, P9.step_gen s' t old rest hst' hctl', hgb]
        unfold genCore at hfl ⊢
        cases genBad s t with
        | true =>
          simp only [if_true]
          exact rel_of_comm (fun y => y.fail _) (fun y => Q_fail [] y _) (fun _ => rfl)
            (fun _ _ => fl_same rfl _ _) r
        | false =>
          simp only [Bool.false_eq_true, if_false]
          exact rel_of_comm (fun y => y.genStep t old) (fun y => Q_genStep [] y t old)
            (fun y => P6T.sb_genStep y t old) (fun k q => fl_of_mild (P1.mild_genStep s t old) k q) r

theorem rel_runFuel {s s' : State} (r : Rel s s') (n : Nat) : Rel (runFuel n s) (runFuel n s') := by
  induction n generalizing s s' with
  | zero => exact r
  | succ n ih =>
    have hd : s'.isDone = s.isDone := by
      unfold State.isDone
      rw [q_stuck r.q, q_ctl r.q, q_curTop r.q, q_tops r.q]
    unfold runFuel
    rw [hd]
    split
    · exact r
    · exact ih (rel_step r)

end AsynqModel.Core.P23
