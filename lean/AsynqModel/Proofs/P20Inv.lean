import AsynqModel.Proofs.P20Gen
import AsynqModel.Proofs.P6Batch
import AsynqModel.Proofs.P6TInv
import AsynqModel.Proofs.P10Step
/-
  P20 (termination with synchronous re-entry), part 2: the invariant `InvO` of runs without NonAsyncContext
  (nested `wait_for` frames allowed): no NonAsyncContext object exists, no remaining program creates one, a task that
  is not suspended has started, and every uncomputed batch item is a member of its (unflushed) batch (`P6.InvB`).
  It is preserved by every scheduler-side step (`P6.Desc`) and by every instruction (`GD`).
-/
namespace AsynqModel.Core.P20
open AsynqModel.Core AsynqModel.Core.P6

structure InvO (s : State) : Prop where
  noNA : NoNA s
  tops : ∀ p ∈ s.tops, bNF p.2
  nf : ∀ f, nfV (view s f)
  sOfR : ∀ f, (view s f).pending = false → (view s f).started = true
  sOfD : ∀ f, (view s f).deps ≠ [] → (view s f).started = true
  b : InvB s

theorem nfV_dview : nfV dview := ⟨rfl, by intro p hp; cases hp⟩

theorem invO_init (cfg : Cfg) (tops : List (Conv × Body)) (choices : List (Nat × Nat))
    (h : ∀ p ∈ tops, bNF p.2) : InvO (initState cfg tops choices) := by
  have hv : ∀ f, view (initState cfg tops choices) f = dview := fun f => view_ge _ _ (Nat.zero_le _)
  refine ⟨?_, h, ?_, ?_, ?_, invB_init cfg tops choices⟩
  · intro x hx; simp [initState] at hx
  · intro f; rw [hv]; exact nfV_dview
  · intro f hp; rw [hv] at hp; cases hp
  · intro f hp; rw [hv] at hp; exact absurd rfl hp

/-- the per-future part of `InvO` -/
structure PF (v : FV) : Prop where
  nf : nfV v
  r : v.pending = false → v.started = true
  d : v.deps ≠ [] → v.started = true

theorem InvO.pf {s : State} (h : InvO s) (f : Nat) : PF (view s f) := ⟨h.nf f, h.sOfR f, h.sOfD f⟩

/-- the per-future part of `InvO` only reads body, conts, pending, started, deps -/
theorem perFut_eq {s : State} (h : InvO s) {v : FV} (f : Nat) (hb : v.body = (view s f).body)
    (hc : v.conts = (view s f).conts ∨ v.conts = []) (hp : v.pending = (view s f).pending)
    (hs : v.started = (view s f).started) (hd : v.deps = (view s f).deps ∨ v.deps = []) : PF v := by
  refine ⟨⟨by rw [hb]; exact (h.nf f).1, ?_⟩, ?_, ?_⟩
  · intro p hp'
    rcases hc with e | e
    · rw [e] at hp'; exact (h.nf f).2 p hp'
    · rw [e] at hp'; cases hp'
  · intro hpf
    rw [hs]; exact h.sOfR f (hp ▸ hpf)
  · intro hdf
    rcases hd with e | e
    · rw [hs]; exact h.sOfD f (e ▸ hdf)
    · exact absurd e hdf

theorem invO_of {r : State} (hn : NoNA r) (ht : ∀ p ∈ r.tops, bNF p.2)
    (hf : ∀ f, PF (view r f)) (hb : InvB r) : InvO r :=
  ⟨hn, ht, fun f => (hf f).nf, fun f => (hf f).r, fun f => (hf f).d, hb⟩

/-- every scheduler-side step preserves `InvO` -/
theorem invO_desc {s r : State} (h : InvO s) (htw : P10.TopsWS s) (d : Desc s r)
    (hng : ∀ t old rest, s.ctl ≠ .gen t old :: rest) : InvO r := by
  have hB := invB_step h.b d
  have same : ∀ f, view r f = view s f → PF (view r f) :=
    fun f e => by rw [e]; exact h.pf f
  cases d with
  | quiet e _ _ => exact invO_of (e.noNA h.noNA) (by rw [e.tops]; exact h.tops) (fun f => same f (e.view f)) hB
  | top conv body rest htops hctl0 U htops' hctl =>
    refine invO_of (U.noNA h.noNA) ?_ ?_ hB
    · intro p hp
      rw [htops'] at hp
      exact h.tops p (by rw [htops]; exact List.mem_cons_of_mem _ hp)
    · intro f
      by_cases hf : f = s.futs.length
      · subst hf
        rw [U.viewN]
        have hmem : (conv, body) ∈ s.tops := by rw [htops]; exact List.mem_cons_self
        have hwb : P10.wsB body 0 0 (fun _ => true) = true := htw (conv, body) hmem
        exact ⟨⟨bNFr_of_wsB (h.tops (conv, body) hmem) hwb, by intro p hp; cases hp⟩,
          (by intro hp; cases hp), (by intro hp; exact absurd rfl hp)⟩
      · exact same f (U.viewO f hf)
  | ret _ _ _ e _ _ => exact invO_of (e.noNA h.noNA) (by rw [e.tops]; exact h.tops) (fun f => same f (e.view f)) hB
  | enterLoop _ _ _ _ e _ _ =>
    exact invO_of (e.noNA h.noNA) (by rw [e.tops]; exact h.tops) (fun f => same f (e.view f)) hB
  | pop _ _ _ _ _ e _ _ =>
    exact invO_of (e.noNA h.noNA) (by rw [e.tops]; exact h.tops) (fun f => same f (e.view f)) hB
  | popLazy _ top st _ lo _ _ U _ _ =>
    refine invO_of (U.noNA h.noNA) (by rw [U.tops]; exact h.tops) ?_ hB
    intro f
    rcases U.view_cases f with ⟨rfl, e⟩ | ⟨_, e⟩
    · rw [e]; exact perFut_eq h f rfl (Or.inl rfl) rfl rfl (by first | exact Or.inl rfl | exact Or.inr rfl)
    · exact same f e
  | second _ top st _ _ _ _ _ U _ _ =>
    refine invO_of (U.noNA h.noNA) (by rw [U.tops]; exact h.tops) ?_ hB
    intro f
    rcases U.view_cases f with ⟨rfl, e⟩ | ⟨_, e⟩
    · rw [e]; exact perFut_eq h f rfl (Or.inl rfl) rfl rfl (by first | exact Or.inl rfl | exact Or.inr rfl)
    · exact same f e
  | first _ top st _ _ _ _ _ U _ _ =>
    refine invO_of (U.noNA h.noNA) (by rw [U.tops]; exact h.tops) ?_ hB
    intro f
    rcases U.view_cases f with ⟨rfl, e⟩ | ⟨_, e⟩
    · rw [e]; exact perFut_eq h f rfl (Or.inl rfl) rfl rfl (by first | exact Or.inl rfl | exact Or.inr rfl)
    · exact same f e
  | enterGen _ _ _ _ _ _ _ e _ _ _ =>
    exact invO_of (e.noNA h.noNA) (by rw [e.tops]; exact h.tops) (fun f => same f (e.view f)) hB
  | gen t old rest hctl0 _ => exact absurd hctl0 (hng t old rest)
  | flush _ _ _ _ _ _ F _ =>
    refine invO_of (F.noNA h.noNA) (by rw [F.tops]; exact h.tops) ?_ hB
    intro f
    rcases F.view f with e | ⟨_, o, e⟩
    · exact same f e
    · rw [e]; exact perFut_eq h f rfl (Or.inl rfl) rfl rfl (by first | exact Or.inl rfl | exact Or.inr rfl)

theorem invO_flushDesc {s r : State} (h : InvO s) (F : FlushDesc s r) : InvO r := by
  refine invO_of (F.noNA h.noNA) (by rw [F.tops]; exact h.tops) ?_ (h.b.of_flush F)
  intro f
  rcases F.view f with e | ⟨_, o, e⟩
  · rw [e]; exact h.pf f
  · rw [e]; exact perFut_eq h f rfl (Or.inl rfl) rfl rfl (by first | exact Or.inl rfl | exact Or.inr rfl)

/-- every instruction of a task body preserves `InvO` -/
theorem invO_gd {s r : State} {t : Nat} (h : InvO s) (d : GD s r t) : InvO r := by
  have same : ∀ {r' : State} f, view r' f = view s f → PF (view r' f) :=
    fun f e => by rw [e]; exact h.pf f
  have upd1 : ∀ {r' : State} {v' : FV}, Upd1 s r' t v' → PF v' → InvB r' → InvO r' := by
    intro r' v' U hv hB
    refine invO_of (U.noNA h.noNA) (by rw [U.tops]; exact h.tops) ?_ hB
    intro f
    rcases U.toS.view_cases f with ⟨rfl, e⟩ | ⟨_, e⟩
    · rw [e]; exact hv
    · exact same f e
  have upd2 : ∀ {r' : State} {v' nv : FV}, Upd2 s r' t v' nv → PF v' → PF nv → InvB r' → InvO r' := by
    intro r' v' nv U hv hnv hB
    refine invO_of (U.noNA h.noNA) (by rw [U.tops]; exact h.tops) ?_ hB
    intro f
    rcases U.view_cases f with ⟨rfl, e⟩ | ⟨rfl, e⟩ | ⟨_, _, e⟩
    · rw [e]; exact hv
    · rw [e]; exact hnv
    · exact same f e
  have plain : ∀ kd out, PF (plainView kd out) :=
    fun kd out => ⟨nfV_dview, (by intro hp; cases hp), (by intro hp; exact absurd rfl hp)⟩
  have newT : ∀ child inh, bNFr child → PF (taskView child inh) :=
    fun child inh hc => ⟨⟨hc, by intro p hp'; cases hp'⟩, (by intro hp'; cases hp'), (by intro hp; exact absurd rfl hp)⟩
  have ownV : ∀ n k, bNFr k → PF (ownView (view s t) n k) :=
    fun n k hk => ⟨⟨hk, (h.nf t).2⟩, fun hp' => h.sOfR t hp', fun hd => h.sOfD t hd⟩
  cases d with
  | start hp hs hu =>
    exact upd1 hu ⟨h.nf t, fun _ => rfl, fun _ => rfl⟩ (h.b.of_upd1 hu.toS rfl (Or.inl rfl))
  | loc v' hu hkind hout hpend hstart hnf hbs hsame hdeps =>
    have hst : v'.started = true := by
      rcases hstart with h1 | ⟨h1, h2⟩
      · exact h1
      · rw [h2]; exact h.sOfR t h1
    exact upd1 hu ⟨hnf, fun _ => hst, fun _ => hst⟩ (h.b.of_upd1 hu.toS hkind (Or.inl hout))
  | spawn child k pass hb hp hu hbat hnc hnk =>
    exact upd2 hu (ownV _ k hnk) (newT _ _ hnc) (h.b.of_upd2 hu hbat rfl rfl (by intro _ _ _ _ hh; cases hh))
  | item kind payload mode k seq hb hp hu hbat hnk =>
    exact upd2 hu (ownV _ k hnk) (plain _ _) (h.b.of_item hu hbat rfl rfl)
  | other k kd out hb hp hu hbat hnk hkd =>
    refine upd2 hu (ownV _ k hnk) (plain _ _) (h.b.of_upd2 hu hbat rfl rfl ?_)
    intro a b c e hh
    have hh' : kd = .item a b c e := hh
    rcases hkd with ⟨h1, _⟩ | ⟨h1, _⟩ | ⟨⟨o, h1⟩, _⟩ <;> rw [h1] at hh' <;> cases hh'
  | yield npy nd leave hp hu =>
    exact upd1 hu ⟨h.nf t, (by intro hp'; cases hp'), fun _ => h.sOfR t hp⟩ (h.b.of_upd1 hu.toS rfl (Or.inl rfl))
  | finish o hp hu =>
    exact upd1 hu ⟨⟨(h.nf t).1, by intro p hp'; cases hp'⟩, fun _ => h.sOfR t hp, fun _ => h.sOfR t hp⟩
      (h.b.of_upd1 hu.toS rfl (Or.inr (by simp [finishView])))
  | sync child k hh pass hb hp hu hbat hnc hnk hnh =>
    exact upd2 hu (ownV _ (.syncret s.futs.length k hh) ⟨hnk, hnh⟩) (newT _ _ hnc)
      (h.b.of_upd2 hu hbat rfl rfl (by intro _ _ _ _ hh; cases hh))
  | syncfut rf k hh s1 hb hp hu F hnk hnh hT =>
    have h1 : InvO s1 := upd1 hu ⟨⟨(⟨hnk, hnh⟩ : bNFr (.syncret ((s.task t).resolve rf) k hh)), (h.nf t).2⟩,
        fun hp' => h.sOfR t hp', fun hd => h.sOfD t hd⟩
      (h.b.of_upd1 hu.toS rfl (Or.inl rfl))
    exact invO_flushDesc h1 F

end AsynqModel.Core.P20
