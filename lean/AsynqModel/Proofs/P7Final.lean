import AsynqModel.Proofs.P7L
/-!
  P7: from the state invariants to statements about the trace: what the trace looks like below a `.ret` event
  (the result of a top-level computation) and which values a `.svals` event reports.
-/
namespace AsynqModel.Core.P7
open AsynqModel.Core P5

/-! ### list facts -/

theorem split_cons {α : Type} {e x : α} {tr post pre : List α} (h : e :: tr = post ++ x :: pre) :
    (post = [] ∧ e = x ∧ tr = pre) ∨ ∃ post', post = e :: post' ∧ tr = post' ++ x :: pre := by
  cases post with
  | nil => simp at h; exact .inl ⟨rfl, h.1, h.2⟩
  | cons a post' => simp at h; exact .inr ⟨post', by rw [h.1], h.2⟩

/-- a marked position that is not among the new events lies in the old trace -/
theorem split_old {α : Type} {x : α} (evs : List α) {tr post pre : List α} (h : evs ++ tr = post ++ x :: pre)
    (hx : x ∉ evs) : ∃ post', post = evs ++ post' ∧ tr = post' ++ x :: pre := by
  induction evs generalizing post with
  | nil => exact ⟨post, rfl, h⟩
  | cons a evs ih =>
    rw [List.cons_append] at h
    rcases split_cons h with ⟨_, h2, _⟩ | ⟨post', h1, h2⟩
    · exact absurd (by rw [h2]; simp) hx
    · obtain ⟨p2, hp2, htr⟩ := ih h2 (fun hm => hx (by simp [hm]))
      exact ⟨p2, by rw [h1, hp2]; rfl, htr⟩

theorem lookup_of_mem {l : List (Nat × Nat)} {a b : Nat} (hn : (l.map (·.1)).Nodup) (hm : (a, b) ∈ l) :
    l.lookup a = some b := by
  induction l with
  | nil => cases hm
  | cons p l ih =>
    obtain ⟨a', b'⟩ := p
    rw [List.map_cons, List.nodup_cons] at hn
    rw [lookup_cons']
    rcases List.mem_cons.1 hm with h | h
    · cases h; simp
    · have hne : a ≠ a' := by
        intro h'
        subst h'
        exact hn.1 (List.mem_map.2 ⟨(a, b), h, rfl⟩)
      simp only [hne, if_false]
      exact ih hn.2 h

/-- the events of `finishTop` -/
theorem finishTop_trace (s : State) (f : Nat) :
    ∃ o n1 n2 n3 a, (s.finishTop f).trace =
      .svals ((s.sv.mergeSort fun a b => a.1 ≤ b.1).map fun p => (p.1, Val.a p.2)) :: .sched true n1 n2 n3 a ::
        .ret o :: s.trace :=
  ⟨_, _, _, _, _, rfl⟩

/-! ### below a `.ret` event every context is paused -/

theorem ret_paused {s : State} (h : Reach s) (hg : s.guardFired = false) (hna : NA s) :
    ∀ post o pre, s.trace = post ++ .ret o :: pre → ∀ c, (word pre c).head? ≠ some true := by
  induction h with
  | init cfg tops choices => intro post o pre h; simp [initState] at h
  | @step s h ih =>
    have hg0 := P3.guard_mono s hg
    have hna0 := na_back s h hna
    have ih := ih hg0 hna0
    intro post o pre htr c
    rcases step_nosv s (good_of_reach h hg0 hna0) (K_reach h hg0 hna0) hg hna with ⟨f, hctl, e⟩ | ⟨evs, he, hs⟩
    · obtain ⟨o', n1, n2, n3, a, hft⟩ := finishTop_trace s f
      rw [e, hft] at htr
      rcases split_cons htr with ⟨_, h2, _⟩ | ⟨p1, _, htr1⟩
      · cases h2
      · rcases split_cons htr1 with ⟨_, h2, _⟩ | ⟨p2, _, htr2⟩
        · cases h2
        · rcases split_cons htr2 with ⟨_, _, h3⟩ | ⟨p3, _, htr3⟩
          · -- the `.ret` of this very step: the trace below is the trace of `s`, all contexts of `s` are paused
            rw [← h3]
            have hh := (I_reach h).j.head c
            have hp := (all_paused h hg0 hna0 hctl).2 c
            have hr : resumedD s c = false := by
              unfold resumedD
              cases hx : s.ctxs[c]? with
              | none => rfl
              | some x => simp [hp x hx]
            rw [hr] at hh
            intro h'
            rw [h'] at hh
            simp at hh
          · exact ih p3 o pre htr3 c
    · rw [he] at htr
      obtain ⟨p', _, htr'⟩ := split_old evs htr (fun hm => by have := hs _ hm; simp [nosv] at this)
      exact ih p' o pre htr' c

/-! ### the scoped values reported at the end of a top-level computation -/

theorem restored {s : State} (h : ReachNR s) (hg : s.guardFired = false) (hna : NA s) (hctl : s.ctl = []) :
    (∀ v, s.svGet v = 0) ∧ ∀ p ∈ s.sv, p.2 = 0 := by
  have m := M_reach h hg hna
  have hst := (all_paused h.reach hg hna hctl).1
  have hr : rstack s = [] := by simp [rstack, hotTasks, hst, fo]
  rw [hr] at m
  have h0 : ∀ v, s.svGet v = 0 := fun v => by rw [m.top v]; rfl
  refine ⟨h0, ?_⟩
  intro p hp
  have := h0 p.1
  unfold State.svGet at this
  rw [lookup_of_mem m.svn (show (p.1, p.2) ∈ s.sv from hp)] at this
  simpa using this

theorem svals_zero {s : State} (h : ReachNR s) (hg : s.guardFired = false) (hna : NA s) :
    ∀ l, Event.svals l ∈ s.trace → ∀ p ∈ l, p.2 = Val.a 0 := by
  induction h with
  | init cfg tops choices => intro l h; simp [initState] at h
  | @step s h hn ih =>
    have hg0 := P3.guard_mono s hg
    have hna0 := na_back s h.reach hna
    have ih := ih hg0 hna0
    intro l hl p hp
    rcases step_nosv s (good_of_reach h.reach hg0 hna0) (K_reach h.reach hg0 hna0) hg hna with
      ⟨f, hctl, e⟩ | ⟨evs, he, hs⟩
    · obtain ⟨o', n1, n2, n3, a, hft⟩ := finishTop_trace s f
      rw [e, hft] at hl
      rcases List.mem_cons.1 hl with h1 | h1
      · cases h1
        obtain ⟨q, hq, rfl⟩ := List.mem_map.1 hp
        have hq' : q ∈ s.sv := List.mem_mergeSort.1 hq
        simp [(restored h hg0 hna0 hctl).2 q hq']
      · rcases List.mem_cons.1 h1 with h2 | h2
        · cases h2
        · rcases List.mem_cons.1 h2 with h3 | h3
          · cases h3
          · exact ih l h3 p hp
    · rw [he] at hl
      rcases List.mem_append.1 hl with h1 | h1
      · have := hs _ h1; simp [nosv] at this
      · exact ih l h1 p hp

end AsynqModel.Core.P7
