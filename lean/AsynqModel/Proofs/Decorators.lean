import AsynqModel.Lib.Decorators
/-! helper lemmas for C09: the model of every supported cell equals the reference table, for arbitrary arguments -/
namespace AsynqModel.Decorators

theorem modelCv_eq_ref_sync (k : Kind) (ft : FnType) (acc : Access) (bk : BodyKind) (a : Args)
    (keyOf : Args → Args) (hf : Nat → Nat) (rs : Bool) (rel : Rel) (h : supported k ft acc = true) :
    modelCvF (Env.quiet keyOf hf rs) ⟨k, ft, acc, bk⟩ .sync a rel = refCv ⟨k, ft, acc, bk⟩ .sync a rel := by
  cases k <;> cases ft <;> cases acc <;> cases bk <;> first | rfl | (simp [supported] at h)

theorem modelCv_eq_ref_asynqValue (k : Kind) (ft : FnType) (acc : Access) (bk : BodyKind) (a : Args)
    (keyOf : Args → Args) (hf : Nat → Nat) (rs : Bool) (rel : Rel) (h : supported k ft acc = true) :
    modelCvF (Env.quiet keyOf hf rs) ⟨k, ft, acc, bk⟩ .asynqValue a rel = refCv ⟨k, ft, acc, bk⟩ .asynqValue a rel := by
  cases k <;> cases ft <;> cases acc <;> cases bk <;> first | rfl | (simp [supported] at h)

theorem modelCv_eq_ref_yieldAsynq (k : Kind) (ft : FnType) (acc : Access) (bk : BodyKind) (a : Args)
    (keyOf : Args → Args) (hf : Nat → Nat) (rs : Bool) (rel : Rel) (h : supported k ft acc = true) :
    modelCvF (Env.quiet keyOf hf rs) ⟨k, ft, acc, bk⟩ .yieldAsynq a rel = refCv ⟨k, ft, acc, bk⟩ .yieldAsynq a rel := by
  cases k <;> cases ft <;> cases acc <;> cases bk <;> first | rfl | (simp [supported] at h)

theorem modelCv_eq_ref_nestedSync (k : Kind) (ft : FnType) (acc : Access) (bk : BodyKind) (a : Args)
    (keyOf : Args → Args) (hf : Nat → Nat) (rs : Bool) (rel : Rel) (h : supported k ft acc = true) :
    modelCvF (Env.quiet keyOf hf rs) ⟨k, ft, acc, bk⟩ .nestedSync a rel = refCv ⟨k, ft, acc, bk⟩ .nestedSync a rel := by
  cases k <;> cases ft <;> cases acc <;> cases bk <;> first | rfl | (simp [supported] at h)

theorem modelCv_eq_ref_asyncCall (k : Kind) (ft : FnType) (acc : Access) (bk : BodyKind) (a : Args)
    (keyOf : Args → Args) (hf : Nat → Nat) (rs : Bool) (rel : Rel) (h : supported k ft acc = true) :
    modelCvF (Env.quiet keyOf hf rs) ⟨k, ft, acc, bk⟩ .asyncCall a rel = refCv ⟨k, ft, acc, bk⟩ .asyncCall a rel := by
  cases k <;> cases ft <;> cases acc <;> cases bk <;> first | rfl | (simp [supported] at h)

theorem modelCv_eq_ref_asyncCallSync (k : Kind) (ft : FnType) (acc : Access) (bk : BodyKind) (a : Args)
    (keyOf : Args → Args) (hf : Nat → Nat) (rs : Bool) (rel : Rel) (h : supported k ft acc = true) :
    modelCvF (Env.quiet keyOf hf rs) ⟨k, ft, acc, bk⟩ .asyncCallSync a rel = refCv ⟨k, ft, acc, bk⟩ .asyncCallSync a rel := by
  cases k <;> cases ft <;> cases acc <;> cases bk <;> first | rfl | (simp [supported] at h)

theorem modelCv_eq_ref_getAsyncFn (k : Kind) (ft : FnType) (acc : Access) (bk : BodyKind) (a : Args)
    (keyOf : Args → Args) (hf : Nat → Nat) (rs : Bool) (rel : Rel) (h : supported k ft acc = true) :
    modelCvF (Env.quiet keyOf hf rs) ⟨k, ft, acc, bk⟩ .getAsyncFn a rel = refCv ⟨k, ft, acc, bk⟩ .getAsyncFn a rel := by
  cases k <;> cases ft <;> cases acc <;> cases bk <;> first | rfl | (simp [supported] at h)

theorem modelCv_eq_ref_getAsyncOrSync (k : Kind) (ft : FnType) (acc : Access) (bk : BodyKind) (a : Args)
    (keyOf : Args → Args) (hf : Nat → Nat) (rs : Bool) (rel : Rel) (h : supported k ft acc = true) :
    modelCvF (Env.quiet keyOf hf rs) ⟨k, ft, acc, bk⟩ .getAsyncOrSync a rel = refCv ⟨k, ft, acc, bk⟩ .getAsyncOrSync a rel := by
  cases k <;> cases ft <;> cases acc <;> cases bk <;> first | rfl | (simp [supported] at h)

theorem modelCv_eq_ref_getAsyncFnWrap (k : Kind) (ft : FnType) (acc : Access) (bk : BodyKind) (a : Args)
    (keyOf : Args → Args) (hf : Nat → Nat) (rs : Bool) (rel : Rel) (h : supported k ft acc = true) :
    modelCvF (Env.quiet keyOf hf rs) ⟨k, ft, acc, bk⟩ .getAsyncFnWrap a rel = refCv ⟨k, ft, acc, bk⟩ .getAsyncFnWrap a rel := by
  cases k <;> cases ft <;> cases acc <;> cases bk <;> first | rfl | (simp [supported] at h)

theorem modelCv_eq_ref_twin (k : Kind) (ft : FnType) (acc : Access) (bk : BodyKind) (a : Args)
    (keyOf : Args → Args) (hf : Nat → Nat) (rs : Bool) (rel : Rel) (h : supported k ft acc = true) :
    modelCvF (Env.quiet keyOf hf rs) ⟨k, ft, acc, bk⟩ .twin a rel = refCv ⟨k, ft, acc, bk⟩ .twin a rel := by
  cases k <;> cases ft <;> cases acc <;> cases bk <;> first | rfl | (simp [supported] at h)

/-- the conventions with ONE call: arbitrary key function, arbitrary hashes -/
theorem modelCv_eq_ref_quiet (k : Kind) (ft : FnType) (acc : Access) (bk : BodyKind) (cv : Cv) (a : Args)
    (keyOf : Args → Args) (hf : Nat → Nat) (rs : Bool) (rel : Rel)
    (h : supported k ft acc = true) (hcv : cv.isSib = false) :
    modelCvF (Env.quiet keyOf hf rs) ⟨k, ft, acc, bk⟩ cv a rel = refCv ⟨k, ft, acc, bk⟩ cv a rel := by
  cases cv
  · exact modelCv_eq_ref_sync k ft acc bk a keyOf hf rs rel h
  · exact modelCv_eq_ref_asynqValue k ft acc bk a keyOf hf rs rel h
  · exact modelCv_eq_ref_yieldAsynq k ft acc bk a keyOf hf rs rel h
  · exact modelCv_eq_ref_nestedSync k ft acc bk a keyOf hf rs rel h
  · exact modelCv_eq_ref_asyncCall k ft acc bk a keyOf hf rs rel h
  · exact modelCv_eq_ref_asyncCallSync k ft acc bk a keyOf hf rs rel h
  · exact modelCv_eq_ref_getAsyncFn k ft acc bk a keyOf hf rs rel h
  · exact modelCv_eq_ref_getAsyncOrSync k ft acc bk a keyOf hf rs rel h
  · exact modelCv_eq_ref_getAsyncFnWrap k ft acc bk a keyOf hf rs rel h
  · exact modelCv_eq_ref_twin k ft acc bk a keyOf hf rs rel h
  all_goals simp [Cv.isSib] at hcv

theorem modelCv_eq_ref (k : Kind) (ft : FnType) (acc : Access) (bk : BodyKind) (cv : Cv) (a : Args)
    (keyOf : Args → Args) (h : supported k ft acc = true) (hcv : cv.isSib = false) :
    modelCvF (Env.idle keyOf) ⟨k, ft, acc, bk⟩ cv a = refCv ⟨k, ft, acc, bk⟩ cv a :=
  modelCv_eq_ref_quiet k ft acc bk cv a keyOf id false .args h hcv

theorem modelCls_eq_ref (k : Kind) (ft : FnType) (acc : Access) (bk : BodyKind) (h : supported k ft acc = true) :
    modelCls ⟨k, ft, acc, bk⟩ = refCls ⟨k, ft, acc, bk⟩ := by
  cases k <;> cases ft <;> cases acc <;> cases bk <;> first | rfl | (simp [supported] at h)

theorem modelGot_eq_ref (k : Kind) (ft : FnType) (acc : Access) (bk : BodyKind) (h : supported k ft acc = true) :
    modelGot ⟨k, ft, acc, bk⟩ = refGot ⟨k, ft, acc, bk⟩ := by
  cases k <;> cases ft <;> cases acc <;> cases bk <;> first | rfl | (simp [supported] at h)

theorem modelRecv_eq_ref (k : Kind) (ft : FnType) (acc : Access) (bk : BodyKind) (h : supported k ft acc = true) :
    modelRecv ⟨k, ft, acc, bk⟩ = refRecv ⟨k, ft, acc, bk⟩ := by
  cases k <;> cases ft <;> cases acc <;> cases bk <;> first | rfl | (simp [supported] at h)

/-- the plain call of the callable: a future of the async body for a pure function, otherwise the value of the
    async body - or of sync_fn when one was supplied; the generator object for an undecorated generator function -/
theorem call_eq (k : Kind) (ft : FnType) (acc : Access) (bk : BodyKind) (a : Args) (keyOf : Args → Args)
    (h : supported k ft acc = true) :
    app (Env.idle keyOf) .call (Cell.callable ⟨k, ft, acc, bk⟩) (callerArgs ft acc 0 a) =
      (if k.pureLike then .fut ⟨1, refArgs ft acc 0 a, false⟩
       else Cell.refVal ⟨k, ft, acc, bk⟩ ⟨if k.hasSyncFn then 2 else 1, refArgs ft acc 0 a, k.userWrapped⟩) := by
  cases k <;> cases ft <;> cases acc <;> cases bk <;> first | rfl | (simp [supported] at h)

/-- the `.asynq` attribute of the callable -/
theorem asynq_eq (k : Kind) (ft : FnType) (acc : Access) (bk : BodyKind) (a : Args) (keyOf : Args → Args)
    (h : supported k ft acc = true) :
    app (Env.idle keyOf) .asynq (Cell.callable ⟨k, ft, acc, bk⟩) (callerArgs ft acc 0 a) =
      (if k.hasAsynq then .fut ⟨1, refArgs ft acc 0 a, k.userWrapped⟩ else .err .noAsynq) := by
  cases k <;> cases ft <;> cases acc <;> cases bk <;> first | rfl | (simp [supported] at h)

/-- deduplicate with an arbitrary in-flight table: the only thing consulted is the entry of this very function -/
theorem dedup_asynq_unfold (ft : FnType) (acc : Access) (bk : BodyKind) (a : Args) (env : Env)
    (h : supported .dedup ft acc = true) :
    app env .asynq (Cell.callable ⟨.dedup, ft, acc, bk⟩) (callerArgs ft acc 0 a) =
      (match env.lookup (1, env.keyOf (refArgs ft acc 0 a)) with
       | some r => .fut r
       | none => .fut ⟨1, refArgs ft acc 0 a, false⟩) := by
  cases ft <;> cases acc <;> cases bk <;> first | rfl | (simp [supported] at h)

/-- a dict lookup finds exactly the entry with the same key, whatever the hashes -/
theorem dictFind_eq (hf : Nat → Nat) (l : Table) (k : Nat × Args) :
    dictFind hf l k = (l.find? (fun e => decide (e.1 = k))).map (·.2) := by
  unfold dictFind
  congr 2
  funext e
  by_cases he : e.1 = k
  · simp [he]
  · simp [he]

theorem dictFind_none (hf : Nat → Nat) (l : Table) (k : Nat × Args) (h : ∀ e ∈ l, e.1 ≠ k) :
    dictFind hf l k = none := by
  rw [dictFind_eq]
  have : l.find? (fun e => decide (e.1 = k)) = none := by
    apply List.find?_eq_none.mpr
    intro e he
    simpa using h e he
  rw [this]; rfl

theorem lookup_foreign (env : Env) (k : Args) (h : ∀ e ∈ env.tasks, e.1.1 ≠ 1) : env.lookup (1, k) = none := by
  apply dictFind_none
  intro e he heq
  exact h e he (by rw [heq])

/-! the observer accepts a report compared with itself -/

theorem obsClause_self (o : Obs) : obsClause o o = none := by
  simp [obsClause]

theorem obsListClause_self (l : List Obs) : obsListClause l l = none := by
  induction l with
  | nil => rfl
  | cons o os ih => simp [obsListClause, obsClause_self, ih, Option.orElse]

theorem clsClause_self (c : Cls) : clsClause c c = none := by
  simp [clsClause]

theorem reportClause_self (r : Report) : reportClause r r = none := by
  simp [reportClause, obsListClause_self, clsClause_self, Option.orElse]

/-! the observer accepts NOTHING ELSE: `reportClause e o = none` iff the two reports are equal -/


theorem entries_ext : ∀ (l₁ l₂ : List Entry), l₁.map (·.body) = l₂.map (·.body) → l₁.map (·.seen) = l₂.map (·.seen) →
    l₁.map (·.got) = l₂.map (·.got) → l₁ = l₂
  | [], [], _, _, _ => rfl
  | [], _ :: _, h, _, _ => by simp at h
  | _ :: _, [], h, _, _ => by simp at h
  | ⟨b, s, g⟩ :: xs, ⟨b', s', g'⟩ :: ys, h1, h2, h3 => by
    simp only [List.map_cons, List.cons.injEq] at h1 h2 h3
    rw [entries_ext xs ys h1.2 h2.2 h3.2]
    obtain ⟨rfl, _⟩ := h1
    obtain ⟨rfl, _⟩ := h2
    obtain ⟨rfl, _⟩ := h3
    rfl

theorem obsClause_none_iff (e o : Obs) : obsClause e o = none ↔ e = o := by
  constructor
  · intro h
    unfold obsClause at h
    split at h; · simp at h
    split at h; · simp at h
    split at h; · simp at h
    split at h; · simp at h
    split at h; · simp at h
    split at h; · simp at h
    rename_i h1 h2 h3 h4 h5 h6
    obtain ⟨cv, log, out, flag⟩ := e
    obtain ⟨cv', log', out', flag'⟩ := o
    simp only [bne_iff_ne, ne_eq, Decidable.not_not] at h1 h2 h3 h4 h5 h6

    subst h1 h5 h6
    rw [entries_ext log log' h2 h3 h4]
  · rintro rfl; exact obsClause_self e

theorem obsListClause_none_iff : ∀ (es os : List Obs), obsListClause es os = none ↔ es = os
  | [], [] => by simp [obsListClause]
  | e :: es, [] => by simp [obsListClause]
  | [], o :: os => by simp [obsListClause]
  | e :: es, o :: os => by
    have ih := obsListClause_none_iff es os
    simp only [obsListClause, List.cons.injEq]
    cases h : obsClause e o with
    | none =>
      simp only [Option.orElse]
      rw [ih, (obsClause_none_iff e o).mp h]; simp
    | some x =>
      simp only [Option.orElse]
      constructor
      · intro hh; cases hh
      · rintro ⟨rfl, _⟩; rw [obsClause_self] at h; cases h

theorem clsClause_none_iff (e o : Cls) : clsClause e o = none ↔ e = o := by
  constructor
  · intro h
    unfold clsClause at h
    split at h; · simp at h
    split at h; · simp at h
    split at h; · simp at h
    split at h; · simp at h
    split at h; · simp at h
    rename_i h1 h2 h3 h4 h5
    obtain ⟨a1, a2, a3, a4, a5⟩ := e
    obtain ⟨b1, b2, b3, b4, b5⟩ := o
    simp only [bne_iff_ne, ne_eq, Decidable.not_not] at h1 h2 h3 h4 h5

    subst h1 h2 h3 h4 h5
    rfl
  · rintro rfl; exact clsClause_self e

theorem reportClause_none_iff (e o : Report) : reportClause e o = none ↔ e = o := by
  constructor
  · intro h
    obtain ⟨eo, ec, eg⟩ := e
    obtain ⟨oo, oc, og⟩ := o
    unfold reportClause at h
    simp only at h
    cases h1 : obsListClause eo oo with
    | some x => rw [h1] at h; simp [Option.orElse] at h
    | none =>
      rw [h1] at h
      simp only [Option.orElse] at h
      cases h2 : clsClause ec oc with
      | some x => rw [h2] at h; simp at h
      | none =>
        rw [h2] at h
        simp only at h
        split at h
        · simp at h
        · rename_i h3
          simp only [bne_iff_ne, ne_eq, Decidable.not_not] at h3
          rw [(obsListClause_none_iff _ _).mp h1, (clsClause_none_iff _ _).mp h2, h3]
  · rintro rfl; exact reportClause_self e


end AsynqModel.Decorators
