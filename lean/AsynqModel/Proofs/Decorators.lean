import AsynqModel.Lib.Decorators
/-! helper lemmas for C09: the model of every supported cell equals the reference table, for arbitrary arguments -/
namespace AsynqModel.Decorators

theorem modelCv_eq_ref (k : Kind) (ft : FnType) (acc : Access) (bk : BodyKind) (cv : Cv) (a : Args)
    (keyOf : Args → Args) (h : supported k ft acc = true) :
    modelCv (Env.idle keyOf) ⟨k, ft, acc, bk⟩ cv a = refCv ⟨k, ft, acc, bk⟩ cv a := by
  cases k <;> cases cv <;> cases ft <;> cases acc <;> cases bk <;> first | rfl | (simp [supported] at h)

theorem modelCls_eq_ref (k : Kind) (ft : FnType) (acc : Access) (bk : BodyKind) (h : supported k ft acc = true) :
    modelCls ⟨k, ft, acc, bk⟩ = refCls ⟨k, ft, acc, bk⟩ := by
  cases k <;> cases ft <;> cases acc <;> cases bk <;> first | rfl | (simp [supported] at h)

theorem modelGot_eq_ref (k : Kind) (ft : FnType) (acc : Access) (bk : BodyKind) (h : supported k ft acc = true) :
    modelGot ⟨k, ft, acc, bk⟩ = refGot ⟨k, ft, acc, bk⟩ := by
  cases k <;> cases ft <;> cases acc <;> cases bk <;> first | rfl | (simp [supported] at h)

/-- the plain call of the callable: a future of the async body for a pure function, otherwise the value of the
    async body - or of sync_fn when one was supplied -/
theorem modelRecv_eq_ref (k : Kind) (ft : FnType) (acc : Access) (bk : BodyKind) (h : supported k ft acc = true) :
    modelRecv ⟨k, ft, acc, bk⟩ = refRecv ⟨k, ft, acc, bk⟩ := by
  cases k <;> cases ft <;> cases acc <;> cases bk <;> first | rfl | (simp [supported] at h)

theorem call_eq (k : Kind) (ft : FnType) (acc : Access) (bk : BodyKind) (a : Args) (keyOf : Args → Args)
    (h : supported k ft acc = true) :
    app (Env.idle keyOf) .call (Cell.callable ⟨k, ft, acc, bk⟩) (callerArgs ft acc 0 a) =
      (if k.pureLike then .fut ⟨1, refArgs ft acc 0 a, false⟩
       else .val ⟨if k.hasSyncFn then 2 else 1, refArgs ft acc 0 a, k.userWrapped⟩) := by
  cases k <;> cases ft <;> cases acc <;> cases bk <;> first | rfl | (simp [supported] at h)

/-- the `.asynq` attribute of the callable -/
theorem asynq_eq (k : Kind) (ft : FnType) (acc : Access) (bk : BodyKind) (a : Args) (keyOf : Args → Args)
    (h : supported k ft acc = true) :
    app (Env.idle keyOf) .asynq (Cell.callable ⟨k, ft, acc, bk⟩) (callerArgs ft acc 0 a) =
      (if k.hasAsynq then .fut ⟨1, refArgs ft acc 0 a, k.userWrapped⟩ else .err .noAsynq) := by
  cases k <;> cases ft <;> cases acc <;> cases bk <;> first | rfl | (simp [supported] at h)

/-- deduplicate with an arbitrary in-flight table: the only thing consulted is the entry of this very function -/
theorem dedup_asynq_unfold (ft : FnType) (acc : Access) (bk : BodyKind) (a : Args) (env : Env)
    (h : supported .dedup ft acc = true) :
    app env .asynq (Cell.callable ⟨.dedup, ft, acc, bk⟩) (callerArgs ft acc 0 a) =
      (match env.lookup (1, env.keyOf (refArgs ft acc 0 a)) with
       | some r => .fut r
       | none => .fut ⟨1, refArgs ft acc 0 a, false⟩) := by
  cases ft <;> cases acc <;> cases bk <;> first | rfl | (simp [supported] at h)

theorem lookup_foreign (env : Env) (k : Args) (h : ∀ e ∈ env.tasks, e.1.1 ≠ 1) : env.lookup (1, k) = none := by
  unfold Env.lookup
  have : env.tasks.find? (fun e => decide (e.1 = (1, k))) = none := by
    apply List.find?_eq_none.mpr
    intro e he
    have := h e he
    simp only [decide_eq_true_eq]
    intro heq
    apply this
    rw [heq]
  rw [this]; rfl

/-! the observer accepts a report compared with itself -/

theorem obsClause_self (o : Obs) : obsClause o o = none := by
  simp [obsClause]

theorem obsListClause_self (l : List Obs) : obsListClause l l = none := by
  induction l with
  | nil => rfl
  | cons o os ih => simp [obsListClause, obsClause_self, ih, Option.orElse]

theorem clsClause_self (c : Cls) : clsClause c c = none := by
  simp [clsClause]

theorem reportClause_self (r : Report) : reportClause r r = none := by
  simp [reportClause, obsListClause_self, clsClause_self, Option.orElse]

theorem modelReport_eq_ref (c : Case) (h : supported c.cell.kind c.cell.ft c.cell.acc = true) :
    modelReport c = refReport c := by
  obtain ⟨⟨k, ft, acc, bk⟩, raises, sig, args⟩ := c
  simp only [modelReport, refReport, report, Report.mk.injEq]
  refine ⟨?_, modelCls_eq_ref k ft acc bk h, modelRecv_eq_ref k ft acc bk h⟩
  apply List.map_congr_left
  intro cv _
  have := modelCv_eq_ref k ft acc bk cv args id h
  simp only [Env.idle] at this
  simp only [Env.empty, this]

end AsynqModel.Decorators
