import AsynqModel.Proofs.P19VStep
import AsynqModel.Proofs.P4Reach
/-
  P19, part 8: the prediction invariant.  `fin f` describes a tracked future `f` as `Seq.roundsBody` does: complete
  once so many flushes have happened (`ready q`), or a task that has not started (`unstarted d`).  `Loc s n fin f`
  says the description of `f` is right when `n` flushes have happened: in particular the description of a started
  task is the prediction `pr` computed from its remaining program and the descriptions of the futures it created.
  `E s root R`: the top-level computation `root` performs `R` flushes altogether.
-/
namespace AsynqModel.Core.P19
open AsynqModel.Core AsynqModel.Core.P6

/-- `TaskSt.resolve` on views -/
def vres (v : FV) : Ref → Nat
  | .own i => v.own.getD i 0
  | .inh j => v.inh.getD j 0

theorem resolve_eq_vres (s : State) (t : Nat) : (s.task t).resolve = vres (view s t) := by
  funext r; cases r <;> rfl

/-- a future its creator is not waiting for: complete, or a batch item / lazy future, or a task that has not started
    and is not on the scheduler's stack -/
def Idle (s : State) (d : Nat) : Prop :=
  (view s d).out ≠ none ∨ (∃ k q p m, (view s d).kind = .item k q p m) ∨ (∃ lo, (view s d).kind = .lazy lo) ∨
  ((view s d).kind = .task ∧ (view s d).started = false ∧ d ∉ s.stack)

/-- `pv` is the structure yielded last as written in the program -/
structure PVok (v : FV) (pv : Y) : Prop where
  eq : v.prevY = pv.mapLeaves (vres v)
  sc : ∀ r ∈ pv.leaves, ∃ i, r = .own i ∧ i < v.own.length

structure LiveOK (s : State) (n : Nat) (fin : Nat → FutR) (t : Nat) (pv : Y) (q : Nat) : Prop where
  hfin : fin t = .ready q
  hpv : PVok (view s t) pv
  hpr : q = pr s.cfg (view s t).body (view s t).conts n ((view s t).own.map fin) (Inv.dens s (view s t).own) pv
  hidle : ∀ d ∈ (view s t).own, ((view s t).pending = false ∨ d ∉ (view s t).deps) → Idle s d
  hyld : ∀ y k h, (view s t).pending = true → (view s t).body = .yld y k h → pv = y

structure Loc (s : State) (n : Nat) (fin : Nat → FutR) (f : Nat) : Prop where
  lt : f < s.futs.length
  done : (view s f).out ≠ none → ∃ q, q ≤ n ∧ fin f = .ready q
  item : ∀ k q p m, (view s f).out = none → (view s f).kind = .item k q p m → fin f = .ready (n + 1)
  lazy : ∀ lo, (view s f).out = none → (view s f).kind = .lazy lo → ∃ q, q ≤ n ∧ fin f = .ready q
  noconst : (view s f).out = none → (view s f).kind ≠ .const ∧ (view s f).kind ≠ .errfut
  fresh : (view s f).out = none → (view s f).kind = .task → (view s f).started = false →
    fin f = .unstarted (roundsTop s.cfg (view s f).body)
  live : Live s f → ∃ pv q, LiveOK s n fin f pv q

/-- the futures reachable from `root` through the own-lists of uncompleted started tasks -/
inductive Trk (s : State) (root : Nat) : Nat → Prop
  | root : Trk s root root
  | own {t f : Nat} : Trk s root t → Live s t → f ∈ (view s t).own → Trk s root f

/-- the computation `root` performs `R` flushes: it is complete and `R` flushes have happened, or every tracked
    future is described correctly and the description of `root` is "complete after `R` flushes" -/
def E (s : State) (root R : Nat) : Prop :=
  (s.computed root = true ∧ fcount s.trace = R) ∨
  (s.computed root = false ∧ ∃ fin : Nat → FutR,
    (fin root = .ready R ∨
      ((view s root).started = false ∧ fcount s.trace = 0 ∧ roundsTop s.cfg (view s root).body = R)) ∧
    ∀ f, Trk s root f → Loc s (fcount s.trace) fin f)

/-! ### tracked futures -/

theorem Trk.transfer {s r : State} {root fn : Nat} (hfn : ¬ Live r fn)
    (h : ∀ t f, Live r t → f ∈ (view r t).own → f = fn ∨ (Live s t ∧ f ∈ (view s t).own)) :
    ∀ {f : Nat}, Trk r root f → f = fn ∨ Trk s root f := by
  intro f hf
  induction hf with
  | root => exact Or.inr .root
  | @own t f _ hl hm ih =>
    rcases ih with e | ih
    · rw [e] at hl; exact absurd hl hfn
    · rcases h t f hl hm with e | ⟨h1, h2⟩
      · exact Or.inl e
      · exact Or.inr (.own ih h1 h2)

theorem Trk.of_sub {s r : State} {root : Nat}
    (h : ∀ t f, Live r t → f ∈ (view r t).own → Live s t ∧ f ∈ (view s t).own) :
    ∀ {f : Nat}, Trk r root f → Trk s root f := by
  intro f hf
  induction hf with
  | root => exact .root
  | @own t f _ hl hm ih =>
    obtain ⟨h1, h2⟩ := h t f hl hm
    exact .own ih h1 h2

/-! ### transferring `Loc` -/

theorem dens_congr {s r : State} {l : List Nat} (h : ∀ d ∈ l, (r.fut d).den = (s.fut d).den) :
    Inv.dens r l = Inv.dens s l := by
  unfold Inv.dens
  exact List.map_congr_left h

/-- a future all of whose fields the invariant reads are unchanged -/
theorem Loc.congr {s r : State} {n : Nat} {fin fin' : Nat → FutR} {f : Nat} (h : Loc s n fin f)
    (hv : ∃ b, view r f = flagView b (view s f)) (hcfg : r.cfg = s.cfg) (hlen : s.futs.length ≤ r.futs.length)
    (hden : ∀ d ∈ (view s f).own, (r.fut d).den = (s.fut d).den)
    (hfin : fin' f = fin f) (hfo : Live s f → ∀ d ∈ (view s f).own, fin' d = fin d)
    (hidle : ∀ d ∈ (view s f).own, ((view s f).pending = false ∨ d ∉ (view s f).deps) → Idle s d → Idle r d) :
    Loc r n fin' f := by
  obtain ⟨b, hv⟩ := hv
  have e_kind : (view r f).kind = (view s f).kind := by rw [hv]; rfl
  have e_out : (view r f).out = (view s f).out := by rw [hv]; rfl
  have e_started : (view r f).started = (view s f).started := by rw [hv]; rfl
  have e_body : (view r f).body = (view s f).body := by rw [hv]; rfl
  have e_conts : (view r f).conts = (view s f).conts := by rw [hv]; rfl
  have e_own : (view r f).own = (view s f).own := by rw [hv]; rfl
  have e_pend : (view r f).pending = (view s f).pending := by rw [hv]; rfl
  have e_deps : (view r f).deps = (view s f).deps := by rw [hv]; rfl
  have e_prev : (view r f).prevY = (view s f).prevY := by rw [hv]; rfl
  have e_res : vres (view r f) = vres (view s f) := by rw [hv]; rfl
  refine ⟨Nat.lt_of_lt_of_le h.lt hlen, ?_, ?_, ?_, ?_, ?_, ?_⟩
  · intro ho; rw [hfin]; exact h.done (e_out ▸ ho)
  · intro k q p m ho hk; rw [hfin]; exact h.item k q p m (e_out ▸ ho) (e_kind ▸ hk)
  · intro lo ho hk; rw [hfin]; exact h.lazy lo (e_out ▸ ho) (e_kind ▸ hk)
  · intro ho; rw [e_kind]; exact h.noconst (e_out ▸ ho)
  · intro ho hk hs
    rw [hfin, hcfg, e_body]; exact h.fresh (e_out ▸ ho) (e_kind ▸ hk) (e_started ▸ hs)
  · intro hl
    have hl' : Live s f := by
      unfold Live at hl ⊢
      rw [e_kind, e_out, e_started] at hl; exact hl
    obtain ⟨pv, q, L⟩ := h.live hl'
    refine ⟨pv, q, hfin.trans L.hfin, ⟨by rw [e_prev, e_res]; exact L.hpv.eq, by rw [e_own]; exact L.hpv.sc⟩, ?_, ?_, ?_⟩
    · rw [hcfg, e_body, e_conts, e_own, dens_congr hden, List.map_congr_left (hfo hl')]
      exact L.hpr
    · intro d hd hc
      rw [e_own] at hd
      rw [e_pend, e_deps] at hc
      exact hidle d hd hc (L.hidle d hd hc)
    · intro y k hh hp hb
      exact L.hyld y k hh (e_pend ▸ hp) (e_body ▸ hb)

/-- a completed future -/
theorem Loc.of_done {r : State} {n : Nat} {fin : Nat → FutR} {f : Nat} (hlt : f < r.futs.length)
    (ho : (view r f).out ≠ none) (hq : ∃ q, q ≤ n ∧ fin f = .ready q) : Loc r n fin f := by
  refine ⟨hlt, fun _ => hq, ?_, ?_, ?_, ?_, ?_⟩
  · intro k q p m h; exact absurd h ho
  · intro lo h; exact absurd h ho
  · intro h; exact absurd h ho
  · intro h; exact absurd h ho
  · intro hl; exact absurd hl.2.1 ho

theorem flagView_self (v : FV) : flagView v.flag v = v := rfl

theorem Idle.of_view {s r : State} {d : Nat} (hv : ∃ b, view r d = flagView b (view s d))
    (hst : d ∉ s.stack → d ∉ r.stack) (h : Idle s d) : Idle r d := by
  obtain ⟨b, hv⟩ := hv
  rcases h with h | ⟨k, q, p, m, h⟩ | ⟨lo, h⟩ | ⟨h1, h2, h3⟩
  · exact Or.inl (by rw [hv]; exact h)
  · exact Or.inr (Or.inl ⟨k, q, p, m, by rw [hv]; exact h⟩)
  · exact Or.inr (Or.inr (Or.inl ⟨lo, by rw [hv]; exact h⟩))
  · exact Or.inr (Or.inr (Or.inr ⟨by rw [hv]; exact h1, by rw [hv]; exact h2, hst h3⟩))

theorem Idle.of_done {r : State} {d : Nat} (h : (view r d).out ≠ none) : Idle r d := Or.inl h

end AsynqModel.Core.P19
