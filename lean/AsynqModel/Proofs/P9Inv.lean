import AsynqModel.Proofs.P9Step
import AsynqModel.Proofs.P3Inv
/-
  P9 (property C20), part 8: the invariant `J` that makes the simulation go through, for runs in which the
  MAX_TASK_STACK_SIZE guard has not fired.

  * `P3.Core`  : no exception propagates, the active task is the innermost running task, the `_execute` bases nest
  * `StackOK`  : every generator frame sits directly on the `_execute` frame that entered it, with its task on top of
                 that frame's part of the stack, which was not higher than MAX_TASK_STACK_SIZE; no task runs twice
  * `FrOK`     : a running task is a task, everything in its `deps` is computed, its contexts are active, and if it
                 has been completed behind its back (NonAsyncContext) its `deps` are empty
  * `DepOK`    : `deps` = computed left-overs ++ the futures of the last yield
  * `CurOK`    : the current batch of a kind is not flushed
-/
namespace AsynqModel.Core.P9
open AsynqModel.Core

def StackOK (M : Nat) : List Ctl → List Nat → Prop
  | [], _ => True
  | .waitEnter _ :: rest, st => StackOK M rest st
  | .waitLoop _ base :: rest, st => base ≤ st.length ∧ StackOK M rest (st.drop (st.length - base))
  | .gen t _ :: rest, st => st.head? = some t ∧ st.length ≤ M ∧ inFrame rest t = false ∧
      (∃ r b rest', rest = .waitLoop r b :: rest' ∧ b < st.length) ∧ StackOK M rest st

def FrOK (s : State) (t : Nat) : Prop :=
  (s.fut t).kind = .task ∧ (∀ d ∈ (s.task t).deps, s.computed d = true) ∧ (s.task t).ctxActive = true ∧
    (s.computed t = true → (s.task t).deps = [])

def DepOK (s : State) (t : Nat) : Prop :=
  ∃ extra, (s.task t).deps = extra ++ extractFutures (s.task t).lastY ∧ ∀ d ∈ extra, s.computed d = true

structure J (s : State) : Prop where
  core : P3.Core s
  stk : StackOK s.cfg.maxStack s.ctl s.stack
  fr : ∀ t, inFrame s.ctl t = true → FrOK s t
  dep : ∀ t, DepOK s t
  cur : CurOK s

theorem J.ht {s : State} (hj : J s) (t : Nat) : HT s t :=
  ⟨hj.dep t, fun hf => (hj.fr t hf).2.1⟩

theorem J.stepOK {s : State} (hj : J s) (hns : ∀ t old rest, s.ctl = .gen t old :: rest → ¬ Stutter s t) : StepOK s :=
  ⟨hns, hj.cur, hj.ht⟩

/-! ### `Keep` carries `DepOK` and `FrOK` -/

theorem depOK_keep {A D} {s s' : State} (hk : Keep A D s s') (t : Nat) (hD : ¬ D t) (h : DepOK s t) : DepOK s' t := by
  obtain ⟨extra, e, hx⟩ := h
  rcases hk.chg t hD with ⟨_, a2, a3⟩ | ⟨_, b2, b3⟩
  · exact ⟨extra, by rw [a2, a3, e], fun d hd => hk.mon d (hx d hd)⟩
  · exact ⟨[], by rw [b2, b3]; simp, by simp⟩

theorem frOK_keep {A D} {s s' : State} (hk : Keep A D s s') (t : Nat) (hA : ¬ A t) (hD : ¬ D t) (h : FrOK s t) :
    FrOK s' t := by
  obtain ⟨h1, h2, h3, h4⟩ := h
  refine ⟨hk.kind t h1, ?_, (hk.act t hA).trans h3, ?_⟩
  · rcases hk.chg t hD with ⟨_, a2, _⟩ | ⟨_, b2, _⟩
    · rw [a2]; exact fun d hd => hk.mon d (h2 d hd)
    · rw [b2]; simp
  · rcases hk.chg t hD with ⟨a1, a2, _⟩ | ⟨_, b2, _⟩
    · intro hc
      rw [a2]
      apply h4
      unfold State.computed at hc ⊢
      rw [← a1]; exact hc
    · intro _; exact b2

theorem J_build {s s' : State} {A D} (hj : J s) (hk : Keep A D s s') (hcore : P3.Core s')
    (hcfg : s'.cfg.maxStack = s.cfg.maxStack) (hstk : StackOK s.cfg.maxStack s'.ctl s'.stack)
    (hfr : ∀ t, inFrame s'.ctl t = true → (inFrame s.ctl t = true ∧ ¬ A t ∧ ¬ D t) ∨ FrOK s' t)
    (hdep : ∀ t, D t → DepOK s' t) : J s' := by
  refine ⟨hcore, by rw [hcfg]; exact hstk, ?_, ?_, hk.cur hj.cur⟩
  · intro t ht
    rcases hfr t ht with ⟨h1, h2, h3⟩ | h
    · exact frOK_keep hk t h2 h3 (hj.fr t h1)
    · exact h
  · intro t
    by_cases hd : D t
    · exact hdep t hd
    · exact depOK_keep hk t hd (hj.dep t)

/-- a step that only touches fields the invariant does not read -/
theorem J_same {s s' : State} (hj : J s) (h1 : s'.futs = s.futs) (h2 : s'.batches = s.batches) (h3 : s'.ctl = s.ctl)
    (h4 : s'.stack = s.stack) (h5 : s'.cfg = s.cfg) (hcore : P3.Core s') : J s' :=
  J_build (A := none1) (D := none1) hj (Keep.of_futs h1 h2) hcore (by rw [h5]) (by rw [h3, h4]; exact hj.stk)
    (fun t ht => Or.inl ⟨by rw [← h3]; exact ht, fun h => h, fun h => h⟩) (fun _ h => h.elim)

/-! ### list facts for `StackOK` -/

theorem drop_len_sub (l st : List Nat) (b : Nat) (hb : b ≤ st.length) :
    (l ++ st).drop ((l ++ st).length - b) = st.drop (st.length - b) := by
  have : (l ++ st).length - b = l.length + (st.length - b) := by simp; omega
  rw [this, List.drop_append]
  simp

/-- inside `_execute`: the stack loses its top and gains `l` -/
theorem stackOK_wl {M r b rest} {st : List Nat} (h : StackOK M (.waitLoop r b :: rest) st) (hb : b < st.length)
    (l : List Nat) : StackOK M (.waitLoop r b :: rest) (l ++ st.tail) := by
  cases st with
  | nil => simp at hb
  | cons x st' =>
    simp only [StackOK, List.tail_cons, List.length_cons] at h ⊢ hb
    refine ⟨by simp; omega, ?_⟩
    rw [drop_len_sub l st' b (by omega)]
    have : st'.length + 1 - b = (st'.length - b) + 1 := by omega
    rw [this, List.drop_succ_cons] at h
    exact h.2

theorem stackOK_pop {M r b rest} {st : List Nat} (h : StackOK M (.waitLoop r b :: rest) st) (hb : st.length ≤ b) :
    StackOK M rest st := by
  simp only [StackOK] at h
  have : st.length - b = 0 := by omega
  rw [this, List.drop_zero] at h
  exact h.2

theorem stackOK_enter {M c} {st : List Nat} (h : StackOK M c st) (root : Nat) :
    StackOK M (.waitLoop root st.length :: c) (root :: st) := by
  simp only [StackOK, List.length_cons]
  refine ⟨by omega, ?_⟩
  have : st.length + 1 - st.length = 1 := by omega
  rw [this]
  exact h

/-- frames of a control stack whose head is not a generator frame -/
theorem inFrame_cons_wait (c : Ctl) (rest : List Ctl) (h : ∀ t o, c ≠ .gen t o) (u : Nat) :
    inFrame (c :: rest) u = inFrame rest u := by
  cases c with
  | waitEnter r => simp
  | waitLoop r b => simp
  | gen t o => exact absurd rfl (h t o)

end AsynqModel.Core.P9
