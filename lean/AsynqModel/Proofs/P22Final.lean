import AsynqModel.Proofs.P22Main
import AsynqModel.Proofs.P20Term
/-!
# P22, part 17: from the simulation invariant to the statement about reads; static hypotheses
-/
namespace AsynqModel.Core.P22
open AsynqModel.Core AsynqModel.Core.P22.SeqSV

/-- `t` is the future with creation path `π` below `r`: `r` has path `[]`; the `i`-th future created by the TASK with
    path `π` has path `π ++ [i]` -/
inductive IsPath (s : State) (r : Nat) : Path → Nat → Prop
  | root : IsPath s r [] r
  | step {π : Path} {p i t : Nat} : IsPath s r π p → (s.fut p).kind = .task → (s.task p).own[i]? = some t →
      IsPath s r (π ++ [i]) t

variable {cfg : Cfg} {tops : List (Conv × Body)} {s : State} {g : Ghost}

/-- a called task with creation path `π` below the root of the `k`-th computation: the sequential evaluation of that
    computation calls, at path `π`, exactly what the ghost recorded -/
theorem calledAt_of_path (hS : Sim cfg tops s g) {k r : Nat} (hr : (roots s.trace)[k]? = some r) {conv : Conv} {body : Body}
    (hb : tops[k]? = some (conv, body)) {π : Path} {t : Nat} (hp : IsPath s r π t) :
    ∀ it, g t = some it → it.k = k ∧ it.ρ = π ∧ CalledAt cfg body [] [] π it.b it.inh it.E := by
  induction hp with
  | root =>
    intro it hg
    obtain ⟨iu, hgu, h1, h2⟩ := hS.rootTr k r hr
    rw [hg] at hgu
    have e := Option.some.inj hgu
    subst e
    obtain ⟨hE, hi, conv', hb'⟩ := hS.root r it hg h2
    rw [h1, hb] at hb'
    have e2 : body = it.b := by
      have := Option.some.inj hb'
      exact (Prod.mk.inj this).2
    refine ⟨h1, h2, ?_⟩
    rw [hE, hi, ← e2]
    exact CalledAt.here body [] []
  | @step π p i t _ hk ho ih =>
    intro it hg
    obtain ⟨ip, hgp, h1, h2, h3⟩ := hS.path p i t it hk ho hg
    obtain ⟨e1, e2, hc⟩ := ih ip hgp
    exact ⟨h1.trans e1, by rw [h2, e2], CalledAt.step hc h3⟩

/-- **the reads of a task are a prefix of the reads the sequential evaluation gives to the task with the same creation
    path** (all of them once the task is finished) -/
theorem reads_prefix (hS : Sim cfg tops s g) {k r : Nat} (hr : (roots s.trace)[k]? = some r) {conv : Conv} {body : Body}
    (hb : tops[k]? = some (conv, body)) {π : Path} {t : Nat} (hp : IsPath s r π t) (hk : (s.fut t).kind = .task) :
    (mreads t s.trace = [] ∧ s.computed t = false ∧ (s.task t).started = false) ∨
    ∃ b inh E, CalledAt cfg body [] [] π b inh E ∧
      mreads t s.trace <+: (reads (acts cfg b inh E)).map rdVal ∧
      (s.computed t = true → mreads t s.trace = (reads (acts cfg b inh E)).map rdVal) := by
  cases hg : g t with
  | none =>
    have hst := hS.unst t hk hg
    obtain ⟨_, hc, hm⟩ := hS.fresh t hk hst
    exact .inl ⟨hm, hc, hst⟩
  | some it =>
    right
    obtain ⟨_, _, hc⟩ := calledAt_of_path hS hr hb hp it hg
    obtain ⟨pre, hpre, hrd, _⟩ := hS.split t it hg
    refine ⟨it.b, it.inh, it.E, hc, ?_, ?_⟩
    · rw [hpre, reads_append, List.map_append, ← hrd]
      exact List.prefix_append _ _
    · intro hcomp
      have : rest cfg s g t it.E = [] := by unfold rest; rw [hcomp]; rfl
      rw [hpre, this, List.append_nil, hrd]

/-- **every task the sequential evaluation calls is run by the machine**: once the root of the `k`-th computation is
    finished, the task the reference calls at creation path `π` exists in the machine, with that path, was called with
    the same body and environment, and is finished -/
theorem calls_complete (hS : Sim cfg tops s g) {k r : Nat} (hr : (roots s.trace)[k]? = some r) {conv : Conv} {body : Body}
    (hb : tops[k]? = some (conv, body)) (hcr : s.computed r = true) {π : Path} {b : Body} {inh : List Outcome}
    {E : SvEnv} (hc : CalledAt cfg body [] [] π b inh E) :
    ∃ t it, IsPath s r π t ∧ (s.fut t).kind = .task ∧ g t = some it ∧ it.b = b ∧ it.inh = inh ∧ it.E = E ∧
      s.computed t = true := by
  induction hc with
  | here =>
    obtain ⟨iu, hgu, h1, h2⟩ := hS.rootTr k r hr
    obtain ⟨hE, hi, conv', hb'⟩ := hS.root r iu hgu h2
    rw [h1, hb] at hb'
    have e2 : body = iu.b := (Prod.mk.inj (Option.some.inj hb')).2
    exact ⟨r, iu, IsPath.root, hS.dom r iu hgu, hgu, e2.symm, hi, hE, hcr⟩
  | @step π b1 inh1 E1 i b2 inh2 E2 _ hcall ih =>
    obtain ⟨tp, ip, hp, hk, hgp, e1, e2, e3, hcp⟩ := ih
    obtain ⟨pre, hpre, _, hcl⟩ := hS.split tp ip hgp
    have hrest : rest cfg s g tp ip.E = [] := by unfold rest; rw [hcp]; rfl
    rw [hrest, List.append_nil, e1, e2, e3] at hpre
    rw [hpre] at hcall
    obtain ⟨v, iv, ho, hgv, h1, h2, h3⟩ := hcl i b2 inh2 E2 hcall
    refine ⟨v, iv, IsPath.step hp hk ho, hS.dom v iv hgv, hgv, h1, h2, h3, ?_⟩
    cases hcv : s.computed v with
    | true => rfl
    | false =>
      have := (hS.waits tp i v hk ho (by rw [hgv]; intro h; cases h) hcv).1
      rw [hcp] at this; cases this

/-! ### static hypotheses -/

/-- `ns` is the negation of `Spec.bodyShares` -/
theorem ns_eq : ∀ b : Body, ns b = !Spec.bodyShares b
  | .ret _ => rfl
  | .res _ => rfl
  | .raise _ => rfl
  | .reraise => rfl
  | .endwith => rfl
  | .syncret _ _ _ => rfl
  | .spawn c p k => by simp [ns, Spec.bodyShares, ns_eq c, ns_eq k, Bool.not_or]
  | .item _ _ _ k => by simp [ns, Spec.bodyShares, ns_eq k]
  | .const _ k => by simp [ns, Spec.bodyShares, ns_eq k]
  | .errfut _ k => by simp [ns, Spec.bodyShares, ns_eq k]
  | .lazy _ k => by simp [ns, Spec.bodyShares, ns_eq k]
  | .yld _ k h => by simp [ns, Spec.bodyShares, ns_eq k, ns_eq h, Bool.not_or]
  | .reyld k h => by simp [ns, Spec.bodyShares, ns_eq k, ns_eq h, Bool.not_or]
  | .sync c p k h => by simp [ns, Spec.bodyShares, ns_eq c, ns_eq k, ns_eq h, Bool.not_or, Bool.and_assoc]
  | .syncfut _ k h => by simp [ns, Spec.bodyShares, ns_eq k, ns_eq h, Bool.not_or]
  | .withCtx _ b k => by simp [ns, Spec.bodyShares, ns_eq b, ns_eq k, Bool.not_or]
  | .read _ k => by simp [ns, Spec.bodyShares, ns_eq k]
  | .active k => by simp [ns, Spec.bodyShares, ns_eq k]

theorem ns_of_shares {b : Body} (h : Spec.bodyShares b = false) : ns b = true := by rw [ns_eq, h]; rfl

/-- a run of programs that create no NonAsyncContext has no NonAsyncContext object (from the invariant of P20) -/
theorem noNonAsync_of_static {cfg : Cfg} {tops : List (Conv × Body)} {choices : List (Nat × Nat)} {s : State}
    (h : P13.ReachFrom (initState cfg tops choices) s) (hws : ∀ p ∈ tops, P10.WellScoped p.2 0 0 = true)
    (hna : ∀ p ∈ tops, Spec.bodyHasNonAsync p.2 = false) (hs : s.stuck = none) (hg : s.guardFired = false) :
    Inv.noNonAsync s = true := by
  have key : P20.Good s := by
    induction h with
    | init => exact P20.good_init cfg tops choices hws hna
    | @step s' _ ih =>
      obtain ⟨m1, m2, _⟩ := C01_hyps_mono s'
      exact P20.good_step (ih (m1 hs) (m2 hg)) hs hg
  unfold Inv.noNonAsync
  rw [List.all_eq_true]
  intro x hx
  have := key.o.noNA x hx
  simpa using this

/-- the runs of well-scoped programs, as `P4.ReachW` -/
theorem reachW_of_reachFrom {cfg : Cfg} {tops : List (Conv × Body)} {choices : List (Nat × Nat)} {s : State}
    (h : P13.ReachFrom (initState cfg tops choices) s) (hws : ∀ p ∈ tops, P10.WellScoped p.2 0 0 = true) :
    P4.ReachW cfg tops choices s := by
  induction h with
  | init =>
    refine P4.ReachW.init ?_
    intro p hp
    have := hws p hp
    unfold P10.WellScoped at this
    unfold P4.wsTop
    rw [P17.ws_eq]; exact this
  | step _ ih => exact P4.ReachW.step ih

end AsynqModel.Core.P22
