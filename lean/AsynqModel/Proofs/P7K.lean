import AsynqModel.Proofs.P7Exit
import AsynqModel.Proofs.P7Cases
/-!
  P7: the invariant `K` behind "after the computation every context is paused" (no NoRevisit hypothesis):
  * `k1`   : the open with-blocks of a task are exactly its registered contexts, innermost first
  * `live` : only an uncomputed task has registered contexts
  * `reg`  : a resumed context is registered with its owner
  * `stk`  : a task with resumed contexts (`hot`) is on the task stack
  * `sf`   : the frame discipline `SF`
  It holds on every reachable state in which the stack guard has not fired and no NonAsyncContext exists.
-/
namespace AsynqModel.Core.P7
open AsynqModel.Core P5

/-! ### `NA` goes backwards along a step -/

theorem na_of_noNonAsync {s : State} (h : Inv.noNonAsync s = true) : NA s := by
  intro c x hx hk
  unfold Inv.noNonAsync at h
  rw [List.all_eq_true] at h
  have := h x (List.mem_of_getElem? hx)
  simp [hk] at this

theorem noNonAsync_of_na {s : State} (h : NA s) : Inv.noNonAsync s = true := by
  unfold Inv.noNonAsync
  rw [List.all_eq_true]
  intro x hx
  obtain ⟨c, hc, rfl⟩ := List.getElem_of_mem hx
  have := h c _ (List.getElem?_eq_getElem hc)
  simpa using this

theorem na_back (s : State) (h : Reach s) (hna : NA (step s)) : NA s := by
  have pi := P2.pinv_reach h
  have key : s.ctxs.length ≤ (step s).ctxs.length ∧
      ∀ c, c < s.ctxs.length → (step s).ctxIsNonAsync c = s.ctxIsNonAsync c := by
    cases P2.step_kind s pi.items pi.genKind pi.z with
    | quiet q _ => exact ⟨q.clen, q.na⟩
    | push q _ _ _ _ _ _ _ _ _ _ _ _ => exact ⟨q.clen, q.na⟩
    | run0 _ _ _ _ _ _ _ _ c _ _ =>
      exact ⟨by rw [c.ctxs]; exact Nat.le_refl _, fun c' _ => by unfold State.ctxIsNonAsync; rw [c.ctxs]⟩
    | run _ _ _ _ _ _ _ _ _ _ c _ _ =>
      exact ⟨by rw [c.ctxs]; exact Nat.le_refl _, fun c' _ => by unfold State.ctxIsNonAsync; rw [c.ctxs]⟩
    | yield _ _ _ _ _ _ _ _ _ _ c _ =>
      exact ⟨by rw [c.ctxs]; exact Nat.le_refl _, fun c' _ => by unfold State.ctxIsNonAsync; rw [c.ctxs]⟩
  intro c x hx hk
  have hlt := lt_of_getElem?_some hx
  have h1 := key.2 c hlt
  have h2 := na_isNonAsync hna c
  rw [h2] at h1
  unfold State.ctxIsNonAsync at h1
  rw [hx] at h1
  simp [hk] at h1

/-! ### the heap part of the invariant -/

structure KH (s : State) : Prop where
  k1 : ∀ t, (s.task t).conts.map (·.1) = (s.task t).ctxs.reverse
  live : ∀ t, (s.task t).ctxs ≠ [] → (s.fut t).kind = .task ∧ s.computed t = false
  reg : ∀ (c : Nat) (x : CtxSt), s.ctxs[c]? = some x → x.resumed = true →
    ∃ o, x.owner = some o ∧ c ∈ (s.task o).ctxs

structure K (s : State) : Prop extends KH s where
  stk : ∀ o, hot s o = true → o ∈ s.stack
  sf : SF s.stack s.ctl

theorem KH_q {P : Event → Bool} {s r : State} (q : Q P s r) (k : KH s) : KH r := by
  refine ⟨fun t => by rw [q.tconts, q.tctxs]; exact k.k1 t, ?_, ?_⟩
  · intro t ht
    rw [q.tctxs] at ht
    obtain ⟨h1, h2⟩ := k.live t ht
    exact ⟨q.kind_task t h1, by rw [q.tcomp t h1]; exact h2⟩
  · intro c x hx hr
    rw [q.ctxs] at hx
    obtain ⟨o, ho, hm⟩ := k.reg c x hx hr
    exact ⟨o, ho, by rw [q.tctxs]; exact hm⟩

theorem KH_congr {s r : State} (hf : r.futs = s.futs) (hc : r.ctxs = s.ctxs) (k : KH s) : KH r := by
  have ht : ∀ u, r.task u = s.task u := fun u => by simp [State.task, State.fut, hf]
  have hfu : ∀ u, r.fut u = s.fut u := fun u => by simp [State.fut, hf]
  have hco : ∀ u, r.computed u = s.computed u := fun u => by simp [State.computed, State.out, hfu]
  refine ⟨fun t => by rw [ht]; exact k.k1 t, fun t h => by rw [ht] at h; rw [hfu, hco]; exact k.live t h, ?_⟩
  intro c x hx hr
  rw [hc] at hx
  obtain ⟨o, ho, hm⟩ := k.reg c x hx hr
  exact ⟨o, ho, by rw [ht]; exact hm⟩

/-- an operation on the contexts of task `t` -/
theorem KH_op {s r : State} {t : Nat} {cs : List Nat} {b : Bool} (k : KH s) (op : Op s r t cs b)
    (h1 : (r.task t).conts.map (·.1) = (r.task t).ctxs.reverse)
    (hl : (r.task t).ctxs ≠ [] → (r.fut t).kind = .task ∧ r.computed t = false)
    (hkeep : ∀ c, c ∉ cs → c ∈ (s.task t).ctxs → c ∈ (r.task t).ctxs)
    (hreg : b = true → ∀ c ∈ cs, ∀ x' : CtxSt, r.ctxs[c]? = some x' → x'.owner = some t ∧ c ∈ (r.task t).ctxs) :
    KH r := by
  refine ⟨?_, ?_, ?_⟩
  · intro u
    by_cases hu : u = t
    · subst hu; exact h1
    · rw [op.tne u hu]; exact k.k1 u
  · intro u h
    by_cases hu : u = t
    · subst hu; exact hl h
    · rw [op.tne u hu] at h
      rw [op.kind, op.cne u hu]; exact k.live u h
  · intro c x' hx' hr
    by_cases hc : c ∈ cs
    · cases b with
      | false => rw [op.eb c hc x' hx'] at hr; cases hr
      | true =>
        obtain ⟨h1, h2⟩ := hreg rfl c hc x' hx'
        exact ⟨t, h1, h2⟩
    · have hlt : c < s.ctxs.length := by
        rcases Nat.lt_or_ge c s.ctxs.length with h | h
        · exact h
        · exact absurd (op.new c h (lt_of_getElem?_some hx')) hc
      rw [op.ene c hc hlt] at hx'
      obtain ⟨o, ho, hm⟩ := k.reg c x' hx' hr
      refine ⟨o, ho, ?_⟩
      by_cases hne : o = t
      · subst hne; exact hkeep c hc hm
      · rw [op.tne o hne]; exact hm

/-! ### the frame discipline under pushes and pops -/

theorem SF_pop {top : Nat} {stk : List Nat} {root base : Nat} {rest : List Ctl}
    (h : SF (top :: stk) (.waitLoop root base :: rest)) (hlen : (top :: stk).length > base) :
    SF stk (.waitLoop root base :: rest) := by
  rw [SF_waitLoop] at h ⊢
  simp only [List.length_cons] at h hlen
  refine ⟨by omega, ?_⟩
  have e : stk.length + 1 - base = (stk.length - base) + 1 := by omega
  rw [e, List.drop_succ_cons] at h
  exact h.2

theorem SF_push {st : List Nat} {root base : Nat} {rest : List Ctl} (ds : List Nat)
    (h : SF st (.waitLoop root base :: rest)) : SF (ds ++ st) (.waitLoop root base :: rest) := by
  rw [SF_waitLoop] at h ⊢
  refine ⟨by simp; omega, ?_⟩
  have e : (ds ++ st).length - base = ds.length + (st.length - base) := by simp; omega
  rw [e, ← List.drop_drop, List.drop_left]
  exact h.2

theorem q_finishTop (s : State) (f : Nat) : Q silent s (s.finishTop f) := by
  unfold State.finishTop
  simp only
  refine Q.trans ?_ (q_emit _ _ (by rfl) (by rfl))
  refine Q.trans ?_ (q_emit _ _ (by rfl) (by rfl))
  refine Q.trans ?_ (q_emit _ _ (by rfl) (by rfl))
  exact Q.of_eq rfl rfl rfl rfl rfl rfl

theorem hot_congr {s r : State} {o : Nat} (h1 : (r.task o).ctxActive = (s.task o).ctxActive)
    (h2 : (r.task o).ctxs = (s.task o).ctxs) : hot r o = hot s o := by
  simp [hot, h1, h2]

theorem hot_q {P : Event → Bool} {s r : State} (q : Q P s r) (o : Nat) : hot r o = hot s o :=
  hot_congr (q.tact o) (q.tctxs o)

theorem hot_ctxs {s : State} {o : Nat} (h : hot s o = true) : (s.task o).ctxActive = true ∧ (s.task o).ctxs ≠ [] := by
  simp only [hot, Bool.and_eq_true, Bool.not_eq_true', List.isEmpty_eq_false_iff] at h
  exact h

/-! ### the library facts about a reachable state -/

structure Good (s : State) : Prop where
  i : I s
  co : P3.Core s
  pi : P2.PInv s
  na : NA s

theorem good_of_reach {s : State} (h : Reach s) (hg : s.guardFired = false) (hna : NA s) : Good s :=
  ⟨I_reach h, (P3.reach_core s h hg).1, P2.pinv_reach h, hna⟩

/-- the facts about the running task -/
structure Running (s : State) (t : Nat) : Prop where
  lt : t < s.futs.length
  act : (s.task t).ctxActive = true
  active : s.active = some t
  kind : (s.fut t).kind = .task
  nc : s.computed t = false

theorem Good.running {s : State} (g : Good s) {t : Nat} {old : Option Nat} {rest : List Ctl}
    (hctl : s.ctl = .gen t old :: rest) : Running s t := by
  have hm : (t, old) ∈ Inv.gensOf s.ctl := by rw [hctl, gensOf_cons_gen]; simp
  obtain ⟨h1, h2, _⟩ := g.i.g.gens t old hm
  have ha := g.co.active
  rw [hctl, gensOf_cons_gen] at ha
  have hg : t ∈ P2.gens s.ctl := by rw [hctl]; simp [P2.gens]
  refine ⟨h1, h2, (P3.activeChain_cons.1 ha).1, g.pi.genKind t hg, ?_⟩
  have := g.pi.live t hg
  simp [State.computed, this]

/-! ### one step -/

theorem K_step (s : State) (g : Good s) (k : K s) (hg : (step s).guardFired = false) (hna : NA (step s)) :
    K (step s) := by
  have hreg := g.i.j.reg
  cases step_cases s g.pi.items g.co.raising with
  | neutral q hst hsf =>
    exact ⟨KH_q q k.toKH, fun o ho => by rw [hst]; exact k.stk o (by rw [← hot_q q o]; exact ho), hsf k.sf⟩
  | top f hctl e =>
    rw [e]
    have q := q_finishTop s f
    refine ⟨KH_q q k.toKH, fun o ho => ?_, ?_⟩
    · exact k.stk o (by rw [← hot_q q o]; exact ho)
    · exact k.sf
  | enterLoop root rest hctl hnc q hst hc =>
    refine ⟨KH_q q k.toKH, fun o ho => ?_, ?_⟩
    · rw [hst]; exact List.mem_cons_of_mem _ (k.stk o (by rw [← hot_q q o]; exact ho))
    · rw [hst, hc, SF_waitLoop]
      have := k.sf
      rw [hctl, SF_waitEnter] at this
      refine ⟨by simp, ?_⟩
      simpa using this
  | pop root base rest top stk hctl hst hlen hno q hst' hc =>
    refine ⟨KH_q q k.toKH, fun o ho => ?_, ?_⟩
    · have ho' : hot s o = true := by rw [← hot_q q o]; exact ho
      have hm := k.stk o ho'
      rw [hst] at hm
      rw [hst']
      rcases List.mem_cons.1 hm with h | h
      · exfalso
        subst h
        obtain ⟨h1, h2⟩ := k.live o (hot_ctxs ho').2
        rcases hno with h | h
        · rw [h2] at h; cases h
        · exact h h1
      · exact h
    · rw [hst', hc, hctl]
      have := k.sf
      rw [hctl, hst] at this
      exact SF_pop this (by rw [← hst]; exact hlen)
  | suspend root base rest t stk hctl hst hlen hk hnc hsched e =>
    have ht := lt_of_kind_task s t hk
    have hact := g.i.d t hsched
    obtain ⟨fl, _⟩ := flip_pause s t (fun ts => { ts with depsSched := false }) (fun _ => rfl) (fun _ => rfl)
      (fun _ => rfl) g.na ht hact
    rw [e]
    generalize (s.updTask t fun ts => { ts with depsSched := false }).pauseContexts t = s2 at fl
    have kh : KH s2 := KH_op k.toKH fl.op (by rw [fl.tconts, fl.tctxs]; exact k.k1 t)
      (fun h => by rw [fl.tctxs] at h; rw [fl.op.kind, fl.comp]; exact k.live t h)
      (fun c _ h => by rw [fl.tctxs]; exact h) (fun h => by cases h)
    refine ⟨KH_congr (s := s2) rfl rfl kh, fun o ho => ?_, ?_⟩
    · show o ∈ s2.stack.tail
      rw [fl.op.stack, hst, List.tail_cons]
      have ho2 : hot s2 o = true := ho
      by_cases hne : o = t
      · subst hne
        simp [hot, fl.tact] at ho2
      · have : hot s o = true := by rw [← ho2]; simp [hot, fl.op.tne o hne]
        have hm := k.stk o this
        rw [hst] at hm
        rcases List.mem_cons.1 hm with h | h
        · exact absurd h hne
        · exact h
    · show SF s2.stack.tail s2.ctl
      rw [fl.op.stack, fl.ctl, hst, hctl, List.tail_cons]
      have := k.sf
      rw [hctl, hst] at this
      exact SF_pop this (by rw [← hst]; exact hlen)
  | visit root base rest t stk hctl hst hlen hk hnc hsched ds hds e =>
    have ht := lt_of_kind_task s t hk
    rw [e]
    by_cases hact : (s.task t).ctxActive = true
    · -- the task has just yielded: its contexts are still active
      have hts : (s.updTask t fun ts => { ts with depsSched := true }).task t = { s.task t with depsSched := true } :=
        task_updTask_self _ _ _ ht
      rw [nf_resume_active _ t (by rw [hts]; exact hact)]
      have q : Q calm s (s.updTask t fun ts => { ts with depsSched := true }) :=
        q_updTask _ _ _ (fun _ => rfl) (fun _ => rfl) (fun _ => rfl)
      refine ⟨KH_congr (s := s.updTask t fun ts => { ts with depsSched := true }) rfl rfl (KH_q q k.toKH),
        fun o ho => ?_, ?_⟩
      · show o ∈ ds.reverse ++ s.stack
        exact List.mem_append_right _ (k.stk o (by rw [← hot_q q o]; exact ho))
      · show SF (ds.reverse ++ s.stack) s.ctl
        rw [hctl]
        have := k.sf
        rw [hctl] at this
        exact SF_push _ this
    · have hact' : (s.task t).ctxActive = false := by simpa using hact
      obtain ⟨fl, _⟩ := flip_resume s t (fun ts => { ts with depsSched := true }) (fun _ => rfl) (fun _ => rfl)
        (fun _ => rfl) g.na ht hact'
      generalize (s.updTask t fun ts => { ts with depsSched := true }).resumeContexts t = s2 at fl
      have kh : KH s2 := KH_op k.toKH fl.op (by rw [fl.tconts, fl.tctxs]; exact k.k1 t)
        (fun h => by rw [fl.tctxs] at h; rw [fl.op.kind, fl.comp]; exact k.live t h)
        (fun c _ h => by rw [fl.tctxs]; exact h) (by
          intro _ c hc x' hx'
          obtain ⟨x, hx, hxo, _⟩ := hreg t c hc
          obtain ⟨x'', hx'', _, ho''⟩ := fl.op.ko c x hx
          rw [hx''] at hx'; cases hx'
          exact ⟨ho''.trans hxo, by rw [fl.tctxs]; exact hc⟩)
      refine ⟨KH_congr (s := s2) rfl rfl kh, fun o ho => ?_, ?_⟩
      · show o ∈ ds.reverse ++ s2.stack
        rw [fl.op.stack]
        refine List.mem_append_right _ ?_
        by_cases hne : o = t
        · subst hne; rw [hst]; simp
        · have ho2 : hot s2 o = true := ho
          exact k.stk o (by rw [← ho2]; simp [hot, fl.op.tne o hne])
      · show SF (ds.reverse ++ s2.stack) s2.ctl
        rw [fl.op.stack, fl.ctl, hctl]
        have := k.sf
        rw [hctl] at this
        exact SF_push _ this
  | enterGen root base rest t stk hctl hst hlen hk hnc e =>
    have ht := lt_of_kind_task s t hk
    rw [e]
    have hsf' : ∀ (a : Option Nat), SF s.stack (.gen t a :: s.ctl) := by
      intro a
      rw [SF_gen]
      exact ⟨by rw [hst]; rfl, k.sf⟩
    by_cases hact : (s.task t).ctxActive = true
    · rw [nf_resume_active _ t hact]
      exact ⟨KH_congr (s := s) rfl rfl k.toKH, fun o ho => k.stk o ho, hsf' _⟩
    · have hact' : (s.task t).ctxActive = false := by simpa using hact
      obtain ⟨fl, _⟩ := flip_resume s t (fun ts => ts) (fun _ => rfl) (fun _ => rfl) (fun _ => rfl) g.na ht hact'
      rw [updTask_id] at fl
      generalize s.resumeContexts t = s2 at fl
      have kh : KH s2 := KH_op k.toKH fl.op (by rw [fl.tconts, fl.tctxs]; exact k.k1 t)
        (fun h => by rw [fl.tctxs] at h; rw [fl.op.kind, fl.comp]; exact k.live t h)
        (fun c _ h => by rw [fl.tctxs]; exact h) (by
          intro _ c hc x' hx'
          obtain ⟨x, hx, hxo, _⟩ := hreg t c hc
          obtain ⟨x'', hx'', _, ho''⟩ := fl.op.ko c x hx
          rw [hx''] at hx'; cases hx'
          exact ⟨ho''.trans hxo, by rw [fl.tctxs]; exact hc⟩)
      refine ⟨KH_congr (s := s2) rfl rfl kh, fun o ho => ?_, ?_⟩
      · show o ∈ s2.stack
        rw [fl.op.stack]
        by_cases hne : o = t
        · subst hne; rw [hst]; simp
        · have ho2 : hot s2 o = true := ho
          exact k.stk o (by rw [← ho2]; simp [hot, fl.op.tne o hne])
      · show SF s2.stack (.gen t s2.active :: s2.ctl)
        rw [fl.op.stack, fl.ctl]
        exact hsf' _
  | gen t old rest hctl hst hsf gc =>
    have ru := g.running hctl
    have htop : t ∈ s.stack := by
      have := k.sf
      rw [hctl, SF_gen] at this
      exact List.mem_of_mem_head? this.1
    have hsf' : SF (step s).stack (step s).ctl := by rw [hst]; exact hsf k.sf
    -- the common part: an operation on `t`
    have fin : ∀ {cs : List Nat} {b : Bool} {ctxs' : List Nat} {conts' : List (Nat × Body)},
        GenOp s (step s) t cs b ctxs' conts' → KH (step s) → K (step s) := by
      intro cs b ctxs' conts' go kh
      refine ⟨kh, fun o ho => ?_, hsf'⟩
      rw [hst]
      by_cases hne : o = t
      · subst hne; exact htop
      · exact k.stk o (by rw [← ho]; simp [hot, go.op.tne o hne])
    cases gc with
    | neutral q =>
      exact ⟨KH_q q k.toKH, fun o ho => by rw [hst]; exact k.stk o (by rw [← hot_q q o]; exact ho), hsf'⟩
    | withCtx c b kk s0 h0 e =>
      have hc : c ≠ .nonasync := by
        intro hc
        subst hc
        have hent : (step s).ctxs[s.ctxs.length]? = some { kind := .nonasync, owner := s0.active } := by
          rw [e]
          simp only [beq_self_eq_true, if_true, updTask_ctxs]
          exact newCtx_entry s0 _ t _ (by rcases h0 with rfl | ⟨v, rfl⟩ <;> simp)
        exact hna _ _ hent rfl
      obtain ⟨go, hown, hcomp, _⟩ := enter_spec s s0 t c b kk g.na hc ru.lt ru.active h0
      have e' : step s = enterSt s s0 t c b kk := e
      rw [← e'] at go hown hcomp
      refine fin go (KH_op k.toKH go.op ?_ ?_ ?_ ?_)
      · rw [go.tconts, go.tctxs, List.map_cons, k.k1 t]; simp
      · intro _; rw [go.op.kind, hcomp]; exact ⟨ru.kind, ru.nc⟩
      · intro c' _ h; rw [go.tctxs]; exact List.mem_append_left _ h
      · intro _ c' hc' x' hx'
        simp only [List.mem_singleton] at hc'
        subst hc'
        exact ⟨hown x' hx', by rw [go.tctxs]; simp⟩
    | endwith cid kk cs hconts e =>
      have hcid : cid ∈ (s.task t).ctxs := by
        have := k.k1 t
        rw [hconts] at this
        have h2 : cid ∈ (s.task t).ctxs.reverse := by rw [← this]; simp
        exact List.mem_reverse.1 h2
      obtain ⟨x, hx, hxo, _⟩ := hreg t cid hcid
      obtain ⟨go, hcomp, _⟩ := endwith_spec s t cid kk cs g.na ru.lt ru.act hconts (k.k1 t) (g.i.j.nodup t) x hx hxo
      rw [← e] at go hcomp
      have hctxs : (s.task t).ctxs = (cs.map (·.1)).reverse ++ [cid] := by
        have := congrArg List.reverse (k.k1 t)
        rw [List.reverse_reverse, hconts] at this
        rw [← this]; simp
      refine fin go (KH_op k.toKH go.op ?_ ?_ ?_ (fun h => by cases h))
      · rw [go.tconts, go.tctxs]; simp
      · intro _; rw [go.op.kind, hcomp]; exact ⟨ru.kind, ru.nc⟩
      · intro c' hc' h
        rw [go.tctxs]
        rw [hctxs] at h
        rcases List.mem_append.1 h with h | h
        · exact h
        · exact absurd h hc'
    | finish o hnc e =>
      obtain ⟨go, _⟩ := finish_spec s t old o g.na ru.lt ru.act (k.k1 t) (g.i.j.nodup t)
        (fun c hc => by obtain ⟨x, hx, hxo, _⟩ := hreg t c hc; exact ⟨x, hx, hxo⟩)
      rw [← e] at go
      refine fin go (KH_op k.toKH go.op ?_ ?_ ?_ (fun h => by cases h))
      · rw [go.tconts, go.tctxs]; rfl
      · intro h; rw [go.tctxs] at h; exact absurd rfl h
      · intro c' hc' h; exact absurd h hc'
  | guard h => rw [h] at hg; cases hg

theorem K_init (cfg : Cfg) (tops : List (Conv × Body)) (choices : List (Nat × Nat)) : K (initState cfg tops choices) := by
  have ht : ∀ t, (initState cfg tops choices).task t = {} := fun t => task_default _ t (Nat.zero_le _)
  refine ⟨⟨fun t => by rw [ht]; rfl, fun t h => by rw [ht] at h; exact absurd rfl h, ?_⟩, ?_, rfl⟩
  · intro c x hx; simp [initState] at hx
  · intro o ho; simp [hot, ht] at ho

theorem K_reach {s : State} (h : Reach s) (hg : s.guardFired = false) (hna : NA s) : K s := by
  induction h with
  | init cfg tops choices => exact K_init cfg tops choices
  | @step s h ih =>
    have hg0 := P3.guard_mono s hg
    have hna0 := na_back s h hna
    exact K_step s (good_of_reach h hg0 hna0) (ih hg0 hna0) hg hna

/-- at the end of every top-level computation the task stack is empty and every context is paused -/
theorem all_paused {s : State} (h : Reach s) (hg : s.guardFired = false) (hna : NA s) (hctl : s.ctl = []) :
    s.stack = [] ∧ ∀ (c : Nat) (x : CtxSt), s.ctxs[c]? = some x → x.resumed = false := by
  have k := K_reach h hg hna
  have hst : s.stack = [] := by
    have := k.sf
    rw [hctl] at this
    exact this
  refine ⟨hst, ?_⟩
  intro c x hx
  cases hr : x.resumed with
  | false => rfl
  | true =>
    exfalso
    obtain ⟨o, ho, hm⟩ := k.reg c x hx hr
    obtain ⟨y, hy, _, hyr⟩ := (I_reach h).j.reg o c hm
    rw [hx] at hy; cases hy
    rcases hyr with hk | hk
    · exact hna c x hx hk
    · have hact : (s.task o).ctxActive = true := by simpa [hr] using hk.symm
      have hhot : hot s o = true := by
        simp only [hot, hact, Bool.true_and, Bool.not_eq_true', List.isEmpty_eq_false_iff]
        intro h0; rw [h0] at hm; cases hm
      have := k.stk o hhot
      rw [hst] at this
      cases this

end AsynqModel.Core.P7
