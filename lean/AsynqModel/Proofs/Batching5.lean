import AsynqModel.Proofs.Batching4
/-! helper lemmas for C11, part 5: the observer accepts every step of the model from a good snapshot -/
namespace AsynqModel.Batching
set_option linter.unusedSimpArgs false

theorem good_of_fin {s0 b0 o n e0 r} (h : Fin s0 b0 o n e0 r) (hn : n ≤ 1) : Good r.1 := by
  obtain ⟨⟨a, m, hout, hall, _, _⟩, hru⟩ := h
  refine ⟨by rw [m.act]; exact m.alt, by rw [m.act]; exact m.apend, ?_, ?_⟩
  · intro i hi
    have ⟨x, y, z⟩ := m.itm i hi
    refine ⟨x, fun hh => y (Or.inl hh), fun hh => ?_⟩
    by_cases e : r.1.ibatch i = b0
    · exact hall i hi e
    · exact z e hh
  · intro b hb
    refine ⟨m.mem b hb, ?_⟩
    by_cases e : b = b0
    · subst e
      rw [hru]
      exact ⟨hn, fun hh => by rw [hout] at hh; cases hh⟩
    · exact m.runs b hb e

theorem ext_of_fin {s0 b0 o n e0 r} (h : Fin s0 b0 o n e0 r) : Ext s0 r.1 := by
  obtain ⟨⟨a, m, _⟩, _⟩ := h; exact m.ext

theorem evClause_of_evok {s0 b0 a post} (hg : Good s0) (m : Mid s0 b0 a post) (hout : (post.bout b0).isSome)
    (ev : Ev) (h : EvOK s0 b0 a post ev) : evClause true s0 post ev = none := by
  have hane := m.ane
  have hr0 : s0.runs b0 = 0 := (hg.2.2.2 b0 m.blt).2.2 m.pre0
  cases ev with
  | body b act =>
    obtain ⟨h1, h2⟩ := h
    subst h1; subst h2
    simp [evClause, hane, m.act, m.pre0, hr0]
  | bodyEnd _ _ _ => rfl
  | createFail _ => exact absurd h id
  | announce b pend act =>
    obtain ⟨h1, h2, h3, h4⟩ := h
    subst h1; subst h2; subst h3
    simp [evClause, hane, m.pre0, hout]
    intro e; rw [e] at hout; cases hout
  | created i b src =>
    obtain ⟨h1, h2, h3, h4, h5⟩ := h
    subst h1; subst h2
    have : ¬ (i < s0.items.length ∨ post.items.length ≤ i) := by omega
    have hne : ¬ b0 = b := fun e => hane e.symm
    simp [evClause, this, h5, m.apend, m.act, hne]
  | item i o bb =>
    obtain ⟨h1, h2, h3, h4, h5⟩ := h
    simp only [evClause, h1, h2, h4, ne_eq, not_true_eq_false, if_false, Option.isSome_none, Bool.false_eq_true]
    cases bb with
    | true => simp
    | false =>
      rcases h5 rfl with ⟨e, he, hx⟩ | ⟨ho, hku, v, hx⟩ | ⟨hkd, ho⟩
      · subst he
        cases hk : post.kind <;> simp [itemRule, hx, hk]
      · subst ho
        simp [itemRule, hx, hku]
      · subst ho
        simp [itemRule, hkd]

/-- the same when no flush body runs (`cancel()`): the library gives every leftover item the batch's error -/
theorem evClause_of_evok_cancel {s0 b0 a post} {x : Err} (hg : Good s0) (m : Mid s0 b0 a post)
    (hout : post.bout b0 = some (.err x)) (ev : Ev) (h : EvOK s0 b0 a post ev)
    (hlib : ∀ j o', ev = .item j o' false → o' = .err x) : evClause false s0 post ev = none := by
  have base := evClause_of_evok hg m (by simp [hout]) ev h
  cases ev with
  | item i o bb =>
    obtain ⟨h1, h2, h3, h4, h5⟩ := h
    cases bb with
    | true => simpa [evClause] using base
    | false =>
      have := hlib i o rfl
      subst this
      simp [evClause, h1, h2, h4, hout, itemRule]
  | body b act => exact base
  | bodyEnd _ _ _ => rfl
  | createFail _ => exact base
  | announce b pend act => exact base
  | created i b src => exact base

theorem out_of_fin {s0 b0 o n e0 r} (h : Fin s0 b0 o n e0 r) : r.1.bout b0 = some o := by
  obtain ⟨⟨a, _, hout, _⟩, _⟩ := h; exact hout

theorem evClause_of_fin {s0 b0 o n e0 r} (hg : Good s0) (h : Fin s0 b0 o n e0 r) :
    ∀ ev ∈ r.2, evClause true s0 r.1 ev = none := by
  obtain ⟨⟨a, m, hout, _, hev, _⟩, _⟩ := h
  intro ev he
  exact evClause_of_evok hg m (by simp [hout]) ev (hev ev he)

theorem evClause_of_fin_cancel {s0 b0 x n r} (hg : Good s0) (h : Fin s0 b0 (.err x) n [] r) :
    ∀ ev ∈ r.2, evClause false s0 r.1 ev = none := by
  obtain ⟨⟨a, m, hout, _, hev, ⟨L, hL, _, hlib⟩, _⟩, _⟩ := h
  intro ev he
  refine evClause_of_evok_cancel hg m hout ev (hev ev he) ?_
  intro j o' hj
  subst hj
  rw [hL] at he
  simp only [List.nil_append, List.mem_append, List.mem_singleton] at he
  rcases he with he | he
  · exact hlib j o' he
  · cases he

/-! ### the shape of the log -/

theorem filter_noann (l : List Ev) (h : ∀ ev ∈ l, ev.isAnnounce = false) : l.filter Ev.isAnnounce = [] := by
  rw [List.filter_eq_nil_iff]; intro ev hev; simp [h ev hev]

theorem plain_noann {l : List Ev} (h : ∀ ev ∈ l, ev.isPlain = true) : ∀ ev ∈ l, ev.isAnnounce = false :=
  fun ev hev => isPlain_not_announce (h ev hev)

theorem dropWhile_noann (l : List Ev) (ev : Ev) (h : ∀ x ∈ l, x.isAnnounce = false) (hev : ev.isAnnounce = true) :
    (l ++ [ev]).dropWhile (fun x => !x.isAnnounce) = [ev] := by
  induction l with
  | nil => simp [List.dropWhile, hev]
  | cons y ys ih =>
    have hy := h y (by simp)
    simp only [List.cons_append, List.dropWhile, hy, Bool.not_false]
    exact ih (fun x hx => h x (by simp [hx]))

/-- the log of an operation that finishes a batch: no announcement but the last event -/
structure LogShape (b0 a : Nat) (evs : List Ev) : Prop where
  ex : ∃ e, evs = e ++ [.announce b0 [] a] ∧ ∀ ev ∈ e, ev.isAnnounce = false

theorem logShape_of_fin {s0 b0 o n e0 r} (h : Fin s0 b0 o n e0 r) (he0 : ∀ ev ∈ e0, ev.isAnnounce = false) :
    ∃ a, Mid s0 b0 a r.1 ∧ LogShape b0 a r.2 := by
  obtain ⟨⟨a, m, _, _, _, ⟨L, hL, hp, _⟩, _⟩, _⟩ := h
  refine ⟨a, m, ⟨e0 ++ L, by rw [hL, List.append_assoc], ?_⟩⟩
  intro ev hev
  rcases List.mem_append.mp hev with hev | hev
  · exact he0 ev hev
  · exact isPlain_not_announce (hp ev hev)

theorem ann_of_shape {b0 a evs} (h : LogShape b0 a evs) : (evs.filter Ev.isAnnounce).length ≤ 1 := by
  obtain ⟨e, he, hn⟩ := h.ex
  rw [he, List.filter_append, filter_noann e hn]
  simp [List.filter, Ev.isAnnounce]

theorem after_of_shape {b0 a evs} (post : St) (h : LogShape b0 a evs) : afterAnnounceOk post evs = true := by
  obtain ⟨e, he, hn⟩ := h.ex
  unfold afterAnnounceOk
  rw [he, dropWhile_noann e _ hn rfl]
  simp

theorem announceCount_noann (e : List Ev) (h : ∀ ev ∈ e, ev.isAnnounce = false) (b : Nat) : announceCount e b = 0 := by
  induction e with
  | nil => rfl
  | cons ev e ih =>
    rw [announceCount_cons, ih (fun x hx => h x (by simp [hx]))]
    have := h ev (by simp)
    cases ev <;> simp_all [Ev.isAnnounce, announceCount]

/-- every change is logged once: from the law of the log, the shape of the log, and "no other batch finishes" -/
theorem counts_of_fin {s0 b0 a o post evs} (m : Mid s0 b0 a post) (hout : post.bout b0 = some o)
    (hl : Law s0 post evs) (hs : LogShape b0 a evs) : CountsOk s0 post evs := by
  refine ⟨fun i hi => ?_, fun b hb => ?_⟩
  · obtain ⟨x, y⟩ := hl i
    refine ⟨x, ?_⟩
    rw [y]
    by_cases c : s0.items.length ≤ i <;> simp [c, hi]
  · obtain ⟨e, he, hn⟩ := hs.ex
    rw [he, announceCount_append, announceCount_noann e hn]
    by_cases c : b = b0
    · subst c
      simp [announceCount, m.pre0, hout]
    · have c' : ¬ b0 = b := fun x => c x.symm
      have : ¬ (s0.bout b = none ∧ (post.bout b).isSome) := by
        intro ⟨h1, h2⟩
        rw [m.oth b c h1] at h2; cases h2
      simp [announceCount, c', this]

theorem slot_of_mid {s0 b0 a post} (m : Mid s0 b0 a post) : slotOk s0 post (some b0) = true := by
  have h1 := m.nb
  have h2 := m.aeq
  have h3 := m.act
  unfold slotOk
  by_cases hc : s0.active = b0
  · have : (some b0 = some s0.active) := by rw [hc]
    simp only [this, if_true]
    simp [switch, hc] at h1 h2
    simp [h1, h3, h2]
  · have : ¬ (some b0 = some s0.active) := by
      intro e; cases e; exact hc rfl
    simp only [this, if_false]
    simp [switch, hc] at h1 h2
    simp [h1, h3, h2]

/-! `self.items.clear()` of a finished batch -/

theorem ext_clearItems {s0 s : St} (b : Nat) (h : Ext s0 s) : Ext s0 (s.clearItems b) := by
  obtain ⟨k, bl, il, B, I⟩ := h
  refine ⟨k, by simpa using bl, il, ?_, ?_⟩
  · intro c hc; simpa using B c hc
  · intro i hi; simpa using I i hi

theorem good_clearItems {s : St} (b : Nat) (h : Good s) (hb : (s.bout b).isSome) : Good (s.clearItems b) := by
  obtain ⟨ga, gp, gi, gb⟩ := h
  refine ⟨by simpa using ga, by simpa using gp, ?_, ?_⟩
  · intro i hi
    have ⟨x, y, z⟩ := gi i hi
    simp only [clearItems_ibatch, clearItems_len, clearItems_bout, clearItems_bitems, clearItems_iout]
    refine ⟨x, fun hh => ?_, z⟩
    have : ¬ s.ibatch i = b := by intro e; rw [e] at hh; simp [hh] at hb
    simp [this]; exact y hh
  · intro c hc
    simp only [clearItems_len] at hc
    have ⟨x, y⟩ := gb c hc
    simp only [clearItems_bitems, clearItems_items, clearItems_ibatch, clearItems_runs, clearItems_bout]
    refine ⟨fun i hi => ?_, y⟩
    split at hi
    · cases hi
    · exact x i hi

theorem evClause_clearItems (br : Bool) (pre post : St) (b : Nat) (ev : Ev) :
    evClause br pre (post.clearItems b) ev = evClause br pre post ev := by
  cases ev <;> simp only [evClause, clearItems_bout, clearItems_iout, clearItems_ibatch, clearItems_payload,
    clearItems_kind, clearItems_active, clearItems_items] <;> (try rfl)

theorem ext_clearUnlessKept {s0 s : St} (kp : Bool) (b : Nat) (h : Ext s0 s) : Ext s0 (s.clearUnlessKept kp b) := by
  cases kp
  · exact ext_clearItems b h
  · exact h

theorem good_clearUnlessKept {s : St} (kp : Bool) (b : Nat) (h : Good s) (hb : (s.bout b).isSome) :
    Good (s.clearUnlessKept kp b) := by
  cases kp
  · exact good_clearItems b h hb
  · exact h

theorem evClause_clearUnlessKept (br : Bool) (pre post : St) (kp : Bool) (b : Nat) (ev : Ev) :
    evClause br pre (post.clearUnlessKept kp b) ev = evClause br pre post ev := by
  cases kp
  · exact evClause_clearItems br pre post b ev
  · rfl

theorem clearUnlessKept_ibatch' (s : St) (kp : Bool) (b i : Nat) : (s.clearUnlessKept kp b).ibatch i = s.ibatch i := by
  cases kp <;> rfl

theorem after_clearUnlessKept (post : St) (kp : Bool) (b : Nat) (evs : List Ev) :
    afterAnnounceOk (post.clearUnlessKept kp b) evs = afterAnnounceOk post evs := by
  unfold afterAnnounceOk
  simp only [clearUnlessKept_ibatch']

theorem counts_clearUnlessKept {pre post : St} (kp : Bool) (b : Nat) {evs : List Ev} (h : CountsOk pre post evs) :
    CountsOk pre (post.clearUnlessKept kp b) evs := by
  unfold CountsOk at *
  simpa using h

theorem slot_clearUnlessKept (pre post : St) (kp : Bool) (b : Nat) (fin : Option Nat) :
    slotOk pre (post.clearUnlessKept kp b) fin = slotOk pre post fin := by
  unfold slotOk; simp

theorem clearUnlessKept_bitems (s : St) (kp : Bool) (b : Nat) :
    (s.clearUnlessKept kp b).bitems b = if kp then s.bitems b else [] := by
  cases kp <;> simp [St.clearUnlessKept, clearItems_bitems]

/-! assembling `specStep` -/

theorem firstFail_none {l : List (Bool × String)} : firstFail l = none ↔ ∀ x ∈ l, x.1 = true := by
  induction l with
  | nil => simp [firstFail]
  | cons x xs ih =>
    obtain ⟨ok, name⟩ := x
    cases ok <;> simp [firstFail, ih]

/-- the frame clause of an operation that finishes batch `b` -/
theorem frameClause_of {pre : St} {ob : Obs} {b : Nat} (hf : (fate pre ob.op).batch? = some b)
    (hit : ∀ i o bb, Ev.item i o bb ∈ ob.evs → ob.post.ibatch i = b)
    (hbl : ∀ c, c ≠ b → ob.post.bitems c = pre.bitems c ++ createdOn ob.evs c) : frameClause pre ob = none := by
  unfold frameClause
  rw [firstFail_none]
  unfold frameChecks
  simp only [hf, List.mem_cons, List.not_mem_nil, or_false]
  intro x hx
  rcases hx with hx | hx
  · subst hx
    simp only [List.all_eq_true]
    intro ev hev
    cases ev with
    | item i o bb => simp [hit i o bb hev]
    | _ => rfl
  · subst hx
    simp only [List.all_eq_true]
    intro c _
    by_cases hc : c = b
    · subst hc; simp
    · simp [hbl c hc]

/-- the frame clause of an operation that finishes nothing -/
theorem frameClause_quiet {pre : St} {ob : Obs} (hf : fate pre ob.op = .quiet)
    (hno : ∀ i o bb, Ev.item i o bb ∉ ob.evs)
    (hbl : ∀ c, ob.post.bitems c = pre.bitems c ++ createdOn ob.evs c) : frameClause pre ob = none := by
  unfold frameClause
  rw [firstFail_none]
  unfold frameChecks
  simp only [hf, Fate.batch?, List.mem_cons, List.not_mem_nil, or_false]
  intro x hx
  rcases hx with hx | hx
  · subst hx
    simp only [List.all_eq_true]
    intro ev hev
    cases ev with
    | item i o bb => exact absurd hev (hno i o bb)
    | _ => rfl
  · subst hx
    simp only [List.all_eq_true]
    intro c _
    simp [hbl c]

theorem specStep_none {rx : Bool} {pre : St} {ob : Obs} (h1 : opClause pre ob = none)
    (hf : fateClause rx pre ob = none) (hfr : frameClause pre ob = none)
    (h2 : ∀ ev ∈ ob.evs, evClause (fate pre ob.op).bodyRuns pre ob.post ev = none)
    (h3 : (ob.evs.filter Ev.isAnnounce).length ≤ 1) (ha : afterAnnounceOk ob.post ob.evs = true)
    (hc : CountsOk pre ob.post ob.evs)
    (h4 : Ext pre ob.post) (h5 : Good ob.post) : specStep rx pre ob = none := by
  unfold specStep
  have : ob.evs.findSome? (evClause (fate pre ob.op).bodyRuns pre ob.post) = none := by
    rw [List.findSome?_eq_none_iff]; exact h2
  simp only [h1, hf, hfr, this]
  have : ¬ (List.filter Ev.isAnnounce ob.evs).length > 1 := by omega
  simp [this, ha, hc, h4, h5]

theorem counts_noop (pre : St) : CountsOk pre pre [] := by
  refine ⟨fun i hi => ⟨?_, ?_⟩, fun b _ => ?_⟩
  · cases pre.iout i <;> simp [itemCount]
  · have : ¬ pre.items.length ≤ i := by omega
    simp [createdCount, this]
  · cases pre.bout b <;> simp [announceCount]

theorem slot_noop (pre : St) : slotOk pre pre none = true := by simp [slotOk]

/-- an operation that changes nothing and logs nothing, when nothing is to be done -/
theorem specStep_noop {rx : Bool} {pre : St} {op : Op} {r : Res} (hg : Good pre) (hq : fate pre op = .quiet)
    (h1 : opClause pre { op := op, res := r, evs := [], post := pre } = none) :
    specStep rx pre { op := op, res := r, evs := [], post := pre } = none :=
  specStep_none h1 (by simp [fateClause, fateChecks, firstFail, hq, slot_noop])
    (frameClause_quiet hq (by simp) (by simp [createdOn])) (by simp) (by simp) (by simp [afterAnnounceOk])
    (counts_noop pre) (Ext.refl pre) hg

end AsynqModel.Batching
