import AsynqModel.Proofs.Batching4
/-! helper lemmas for C11, part 5: the observer accepts every step of the model from a good snapshot -/
namespace AsynqModel.Batching
set_option linter.unusedSimpArgs false

theorem good_of_fin {s0 b0 o n r} (h : Fin s0 b0 o n r) (hn : n ≤ 1) : Good r.1 := by
  obtain ⟨⟨a, m, hout, hall, _, _⟩, hru⟩ := h
  refine ⟨by rw [m.act]; exact m.alt, by rw [m.act]; exact m.apend, ?_, ?_⟩
  · intro i hi
    have ⟨x, y, z⟩ := m.itm i hi
    refine ⟨x, fun hh => y (Or.inl hh), fun hh => ?_⟩
    by_cases e : r.1.ibatch i = b0
    · exact hall i hi e
    · exact z e hh
  · intro b hb
    refine ⟨m.mem b hb, ?_⟩
    by_cases e : b = b0
    · subst e
      rw [hru]
      exact ⟨hn, fun hh => by rw [hout] at hh; cases hh⟩
    · exact m.runs b hb e

theorem ext_of_fin {s0 b0 o n r} (h : Fin s0 b0 o n r) : Ext s0 r.1 := by
  obtain ⟨⟨a, m, _⟩, _⟩ := h; exact m.ext

theorem evClause_of_evok {s0 b0 a post} (hg : Good s0) (m : Mid s0 b0 a post) (hout : (post.bout b0).isSome)
    (ev : Ev) (h : EvOK s0 b0 a post ev) : evClause s0 post ev = none := by
  have hane := m.ane
  have hr0 : s0.runs b0 = 0 := (hg.2.2.2 b0 m.blt).2.2 m.pre0
  cases ev with
  | body b act =>
    obtain ⟨h1, h2⟩ := h
    subst h1; subst h2
    simp [evClause, hane, m.act, m.pre0, hr0]
  | createFail _ => exact absurd h id
  | announce b pend act =>
    obtain ⟨h1, h2, h3, h4⟩ := h
    subst h1; subst h2; subst h3
    simp [evClause, hane, m.pre0, hout]
    intro e; rw [e] at hout; cases hout
  | created i b src =>
    obtain ⟨h1, h2, h3, h4, h5⟩ := h
    subst h1; subst h2
    have : ¬ (i < s0.items.length ∨ post.items.length ≤ i) := by omega
    have hne : ¬ b0 = b := fun e => hane e.symm
    simp [evClause, this, h5, m.apend, m.act, hne]
  | item i o bb =>
    obtain ⟨h1, h2, h3, h4, h5⟩ := h
    simp only [evClause, h1, h2, h4, ne_eq, not_true_eq_false, if_false, Option.isSome_none, Bool.false_eq_true]
    cases bb with
    | true => simp
    | false =>
      rcases h5 rfl with ⟨e, he, hx⟩ | ⟨ho, hku, v, hx⟩ | ⟨hkd, ho⟩
      · subst he
        cases hk : post.kind <;> simp [itemRule, hx, hk]
      · subst ho
        simp [itemRule, hx, hku]
      · subst ho
        simp [itemRule, hkd]

theorem evClause_of_fin {s0 b0 o n r} (hg : Good s0) (h : Fin s0 b0 o n r) :
    ∀ ev ∈ r.2, evClause s0 r.1 ev = none := by
  obtain ⟨⟨a, m, hout, _, hev, _⟩, _⟩ := h
  intro ev he
  exact evClause_of_evok hg m (by simp [hout]) ev (hev ev he)

theorem ann_of_fin {s0 b0 o n r} (h : Fin s0 b0 o n r) : (r.2.filter Ev.isAnnounce).length ≤ 1 := by
  obtain ⟨⟨a, _, _, _, _, hann⟩, _⟩ := h; exact hann

theorem out_of_fin {s0 b0 o n r} (h : Fin s0 b0 o n r) : r.1.bout b0 = some o := by
  obtain ⟨⟨a, _, hout, _⟩, _⟩ := h; exact hout

/-! `self.items.clear()` of a finished batch -/

theorem ext_clearItems {s0 s : St} (b : Nat) (h : Ext s0 s) : Ext s0 (s.clearItems b) := by
  obtain ⟨k, bl, il, B, I⟩ := h
  refine ⟨k, by simpa using bl, il, ?_, ?_⟩
  · intro c hc; simpa using B c hc
  · intro i hi; simpa using I i hi

theorem good_clearItems {s : St} (b : Nat) (h : Good s) (hb : (s.bout b).isSome) : Good (s.clearItems b) := by
  obtain ⟨ga, gp, gi, gb⟩ := h
  refine ⟨by simpa using ga, by simpa using gp, ?_, ?_⟩
  · intro i hi
    have ⟨x, y, z⟩ := gi i hi
    simp only [clearItems_ibatch, clearItems_len, clearItems_bout, clearItems_bitems, clearItems_iout]
    refine ⟨x, fun hh => ?_, z⟩
    have : ¬ s.ibatch i = b := by intro e; rw [e] at hh; simp [hh] at hb
    simp [this]; exact y hh
  · intro c hc
    simp only [clearItems_len] at hc
    have ⟨x, y⟩ := gb c hc
    simp only [clearItems_bitems, clearItems_items, clearItems_ibatch, clearItems_runs, clearItems_bout]
    refine ⟨fun i hi => ?_, y⟩
    split at hi
    · cases hi
    · exact x i hi

theorem evClause_clearItems (pre post : St) (b : Nat) (ev : Ev) :
    evClause pre (post.clearItems b) ev = evClause pre post ev := by
  cases ev <;> simp only [evClause, clearItems_bout, clearItems_iout, clearItems_ibatch, clearItems_payload,
    clearItems_kind, clearItems_active, clearItems_items] <;> (try rfl)

theorem ext_clearUnlessKept {s0 s : St} (kp : Bool) (b : Nat) (h : Ext s0 s) : Ext s0 (s.clearUnlessKept kp b) := by
  cases kp
  · exact ext_clearItems b h
  · exact h

theorem good_clearUnlessKept {s : St} (kp : Bool) (b : Nat) (h : Good s) (hb : (s.bout b).isSome) :
    Good (s.clearUnlessKept kp b) := by
  cases kp
  · exact good_clearItems b h hb
  · exact h

theorem evClause_clearUnlessKept (pre post : St) (kp : Bool) (b : Nat) (ev : Ev) :
    evClause pre (post.clearUnlessKept kp b) ev = evClause pre post ev := by
  cases kp
  · exact evClause_clearItems pre post b ev
  · rfl

/-! assembling `specStep` -/

theorem specStep_none {pre : St} {ob : Obs} (h1 : opClause pre ob = none)
    (h2 : ∀ ev ∈ ob.evs, evClause pre ob.post ev = none) (h3 : (ob.evs.filter Ev.isAnnounce).length ≤ 1)
    (h4 : Ext pre ob.post) (h5 : Good ob.post) : specStep pre ob = none := by
  unfold specStep
  have : ob.evs.findSome? (evClause pre ob.post) = none := by
    rw [List.findSome?_eq_none_iff]; exact h2
  simp only [h1, this]
  have : ¬ (List.filter Ev.isAnnounce ob.evs).length > 1 := by omega
  simp [this, h4, h5]

theorem specStep_noop {pre : St} {op : Op} {r : Res} (hg : Good pre)
    (h1 : opClause pre { op := op, res := r, evs := [], post := pre } = none) :
    specStep pre { op := op, res := r, evs := [], post := pre } = none :=
  specStep_none h1 (by simp) (by simp) (Ext.refl pre) hg

end AsynqModel.Batching
