import AsynqModel.Proofs.P7K
/-!
  P7: relative to `noRevisit`, the resumed contexts of the whole machine form ONE stack (`rstack s`, read off the task
  stack), the trace is well bracketed and ends with exactly these contexts resumed, and the scoped values / saved
  old values are those of that stack of overrides: `M s (rstack s)` on every state reachable by a `noRevisit` run in
  which the stack guard has not fired and no NonAsyncContext exists.
-/
namespace AsynqModel.Core.P7
open AsynqModel.Core P5

/-! ### the resumed stack and the task on top of the task stack -/

theorem rstack_top {s : State} {t : Nat} {stk : List Nat} (hst : s.stack = t :: stk)
    (hact : (s.task t).ctxActive = true) : rstack s = (s.task t).ctxs.reverse ++ below s t stk := by
  rw [rstack_head s t stk hst]
  cases hc : (s.task t).ctxs with
  | nil => simp [hot, hc]
  | cons a l => simp [hot, hact, hc]

theorem rstack_top_inactive {s : State} {t : Nat} {stk : List Nat} (hst : s.stack = t :: stk)
    (hact : (s.task t).ctxActive = false) : rstack s = below s t stk := by
  rw [rstack_head s t stk hst]
  simp [hot, hact]

theorem rstack_top_empty {s : State} {t : Nat} {stk : List Nat} (hst : s.stack = t :: stk)
    (hc : (s.task t).ctxs = []) : rstack s = below s t stk := by
  rw [rstack_head s t stk hst]
  simp [hot, hc]

/-- the stack below a task that is not hot -/
theorem rstack_eq_below {s : State} {t : Nat} (hh : hot s t = false) : rstack s = below s t s.stack := by
  unfold rstack hotTasks below
  rw [fo_filter_self _ hh]

theorem rstack_cons_cold {s : State} {t : Nat} {stk : List Nat} (hst : s.stack = t :: stk) (hh : hot s t = false) :
    rstack s = below s t stk := by
  rw [rstack_head s t stk hst]; simp [hh]

theorem pushed_eq (s : State) (ds : List Nat) (h : (step s).stack = ds ++ s.stack) : pushed s = ds := by
  unfold pushed
  rw [h]
  simp

theorem noRevisit_spec {s : State} (h : noRevisit s = true) (ds : List Nat) (hst : (step s).stack = ds ++ s.stack) :
    ∀ d ∈ ds, hot (step s) d = false := by
  unfold noRevisit at h
  rw [pushed_eq s ds hst, List.all_eq_true] at h
  intro d hd
  simpa using h d hd

theorem mem_below {s : State} {t : Nat} {stk : List Nat} {c : Nat} (h : c ∈ below s t stk) :
    ∃ o, o ≠ t ∧ c ∈ (s.task o).ctxs := by
  unfold below at h
  rw [List.mem_flatMap] at h
  obtain ⟨o, ho, hc⟩ := h
  refine ⟨o, ?_, List.mem_reverse.1 hc⟩
  have := (List.mem_filter.1 ho).2
  simpa using this

/-! ### one step -/

theorem L_step (s : State) (g : Good s) (k : K s) (m : M s (rstack s)) (hnr : noRevisit s = true)
    (hg : (step s).guardFired = false) (hna : NA (step s)) : M (step s) (rstack (step s)) := by
  have hreg := g.i.j.reg
  have hfresh : ∀ t stk, ∀ c ∈ (s.task t).ctxs, c ∉ below s t stk ∧ c < s.ctxs.length := by
    intro t stk c hc
    obtain ⟨x, hx, hxo, _⟩ := hreg t c hc
    refine ⟨?_, lt_of_getElem?_some hx⟩
    intro hb
    obtain ⟨o, hot, hco⟩ := mem_below hb
    obtain ⟨y, hy, hyo, _⟩ := hreg o c hco
    rw [hx] at hy; cases hy
    rw [hxo] at hyo; cases hyo
    exact hot rfl
  cases step_cases s g.pi.items g.co.raising with
  | neutral q hst hsf =>
    rw [rstack_congr hst (fun o => ⟨q.tact o, q.tctxs o⟩)]
    exact M_q (fun _ h => calm_silent h) q m
  | top f hctl e =>
    rw [e]
    have q := q_finishTop s f
    rw [rstack_congr (s := s) (r := s.finishTop f) rfl (fun o => ⟨q.tact o, q.tctxs o⟩)]
    exact M_q (fun _ h => h) q m
  | enterLoop root rest hctl hnc q hst hc =>
    have hd := noRevisit_spec hnr [root] (by rw [hst]; rfl)
    rw [rstack_push [root] (by rw [hst]; rfl) (fun o => ⟨q.tact o, q.tctxs o⟩) hd]
    exact M_q (fun _ h => calm_silent h) q m
  | pop root base rest top stk hctl hst hlen hno q hst' hc =>
    have hcold : hot s top = false := by
      cases hh : hot s top with
      | false => rfl
      | true =>
        exfalso
        obtain ⟨h1, h2⟩ := k.live top (hot_ctxs hh).2
        rcases hno with h | h
        · rw [h2] at h; cases h
        · exact h h1
    have hcold' : hot (step s) top = false := by rw [hot_q q]; exact hcold
    rw [rstack_eq_below hcold', hst', below_congr top stk (fun o _ => ⟨q.tact o, q.tctxs o⟩)]
    rw [rstack_cons_cold hst hcold] at m
    exact M_q (fun _ h => calm_silent h) q m
  | suspend root base rest t stk hctl hst hlen hk hnc hsched e =>
    have ht := lt_of_kind_task s t hk
    have hact := g.i.d t hsched
    obtain ⟨fl, hm⟩ := flip_pause s t (fun ts => { ts with depsSched := false }) (fun _ => rfl) (fun _ => rfl)
      (fun _ => rfl) g.na ht hact
    rw [e]
    generalize (s.updTask t fun ts => { ts with depsSched := false }).pauseContexts t = s2 at fl hm
    have hcold : hot s2.popStack t = false := by
      show hot s2 t = false
      simp [hot, fl.tact]
    have hstk : s2.popStack.stack = stk := by
      show s2.stack.tail = stk
      rw [fl.op.stack, hst]; rfl
    rw [rstack_eq_below hcold, hstk]
    have hb : below s2.popStack t stk = below s t stk :=
      below_congr t stk (fun o ho => by
        show (s2.task o).ctxActive = _ ∧ (s2.task o).ctxs = _
        rw [fl.op.tne o ho]; exact ⟨rfl, rfl⟩)
    rw [hb]
    rw [rstack_top hst hact] at m
    exact M_frame (hm _ m) (fun _ _ => rfl) (Nat.le_refl _) (fun _ => rfl) id rfl
  | visit root base rest t stk hctl hst hlen hk hnc hsched ds hds e =>
    have ht := lt_of_kind_task s t hk
    by_cases hact : (s.task t).ctxActive = true
    · have hts : (s.updTask t fun ts => { ts with depsSched := true }).task t = { s.task t with depsSched := true } :=
        task_updTask_self _ _ _ ht
      have e' := e
      rw [nf_resume_active _ t (by rw [hts]; exact hact)] at e'
      have q : Q calm s (step s) := by
        rw [e']
        exact Q.trans (s' := s.updTask t fun ts => { ts with depsSched := true })
          (q_updTask _ _ _ (fun _ => rfl) (fun _ => rfl) (fun _ => rfl)) (Q.of_eq rfl rfl rfl rfl rfl rfl)
      have hstk : (step s).stack = ds.reverse ++ s.stack := by rw [e']; rfl
      have hd := noRevisit_spec hnr ds.reverse hstk
      rw [rstack_push ds.reverse hstk (fun o => ⟨q.tact o, q.tctxs o⟩) hd]
      exact M_q (fun _ h => calm_silent h) q m
    · have hact' : (s.task t).ctxActive = false := by simpa using hact
      obtain ⟨fl, hm⟩ := flip_resume s t (fun ts => { ts with depsSched := true }) (fun _ => rfl) (fun _ => rfl)
        (fun _ => rfl) g.na ht hact'
      generalize (s.updTask t fun ts => { ts with depsSched := true }).resumeContexts t = s2 at fl hm e
      have hstk : (step s).stack = ds.reverse ++ (t :: stk) := by rw [e]; show ds.reverse ++ s2.stack = _; rw [fl.op.stack, hst]
      have hd := noRevisit_spec hnr ds.reverse (by rw [hstk, hst])
      have hfields : ∀ o, ((step s).task o).ctxActive = (s2.task o).ctxActive ∧ ((step s).task o).ctxs = (s2.task o).ctxs := by
        intro o; rw [e]; exact ⟨rfl, rfl⟩
      have hr1 : rstack (step s) = rstack { s2 with stack := t :: stk } := by
        unfold rstack hotTasks
        rw [hstk, fo_append_neg _ _ hd]
        have hh : hot (step s) = hot { s2 with stack := t :: stk } := by
          funext o; simp only [hot]; rw [(hfields o).1, (hfields o).2]; rfl
        rw [hh]
        apply flatMap_congr'
        intro o _
        rw [(hfields o).2]; rfl
      rw [hr1, rstack_top (s := { s2 with stack := t :: stk }) rfl fl.tact]
      show M (step s) ((s2.task t).ctxs.reverse ++ below { s2 with stack := t :: stk } t stk)
      have hb : below { s2 with stack := t :: stk } t stk = below s t stk :=
        below_congr t stk (fun o ho => by
          show (s2.task o).ctxActive = _ ∧ (s2.task o).ctxs = _
          rw [fl.op.tne o ho]; exact ⟨rfl, rfl⟩)
      rw [hb, fl.tctxs]
      rw [rstack_top_inactive hst hact'] at m
      have m2 := hm _ m (g.i.j.nodup t) (hfresh t stk)
      rw [e]
      exact M_frame m2 (fun _ _ => rfl) (Nat.le_refl _) (fun _ => rfl) id rfl
  | enterGen root base rest t stk hctl hst hlen hk hnc e =>
    have ht := lt_of_kind_task s t hk
    by_cases hact : (s.task t).ctxActive = true
    · have e' := e
      rw [nf_resume_active _ t hact] at e'
      have q : Q calm s (step s) := by rw [e']; exact Q.of_eq rfl rfl rfl rfl rfl rfl
      rw [rstack_congr (by rw [e']) (fun o => ⟨q.tact o, q.tctxs o⟩)]
      exact M_q (fun _ h => calm_silent h) q m
    · have hact' : (s.task t).ctxActive = false := by simpa using hact
      obtain ⟨fl, hm⟩ := flip_resume s t (fun ts => ts) (fun _ => rfl) (fun _ => rfl) (fun _ => rfl) g.na ht hact'
      rw [updTask_id] at fl hm
      generalize s.resumeContexts t = s2 at fl hm e
      have hstk : (step s).stack = t :: stk := by rw [e]; show s2.stack = _; rw [fl.op.stack, hst]
      have hact2 : ((step s).task t).ctxActive = true := by rw [e]; exact fl.tact
      rw [rstack_top hstk hact2]
      have hb : below (step s) t stk = below s t stk :=
        below_congr t stk (fun o ho => by
          rw [e]
          show (s2.task o).ctxActive = _ ∧ (s2.task o).ctxs = _
          rw [fl.op.tne o ho]; exact ⟨rfl, rfl⟩)
      have hc : ((step s).task t).ctxs = (s.task t).ctxs := by rw [e]; exact fl.tctxs
      rw [hb, hc]
      rw [rstack_top_inactive hst hact'] at m
      have m2 := hm _ m (g.i.j.nodup t) (hfresh t stk)
      rw [e]
      exact M_frame m2 (fun _ _ => rfl) (Nat.le_refl _) (fun _ => rfl) id rfl
  | gen t old rest hctl hst hsf gc =>
    have ru := g.running hctl
    obtain ⟨stk, hstk⟩ : ∃ stk, s.stack = t :: stk := by
      have := k.sf
      rw [hctl, SF_gen] at this
      cases hs : s.stack with
      | nil => rw [hs] at this; simp at this
      | cons a l => rw [hs] at this; simp at this; exact ⟨l, by rw [this.1]⟩
    have hstk' : (step s).stack = t :: stk := by rw [hst, hstk]
    have fin : ∀ {cs : List Nat} {b : Bool} {ctxs' : List Nat} {conts' : List (Nat × Body)},
        GenOp s (step s) t cs b ctxs' conts' → rstack (step s) = ctxs'.reverse ++ below s t stk := by
      intro cs b ctxs' conts' go
      rw [rstack_top hstk' (by rw [go.tact]; exact ru.act), go.tctxs,
        below_congr (r := step s) (s := s) t stk (fun o ho => by rw [go.op.tne o ho]; exact ⟨rfl, rfl⟩)]
    rw [rstack_top hstk ru.act] at m
    cases gc with
    | neutral q =>
      rw [rstack_congr hst (fun o => ⟨q.tact o, q.tctxs o⟩), rstack_top hstk ru.act]
      exact M_q (fun _ h => calm_silent h) q m
    | withCtx c b kk s0 h0 e =>
      have hc : c ≠ .nonasync := by
        intro hc
        subst hc
        have hent : (step s).ctxs[s.ctxs.length]? = some { kind := .nonasync, owner := s0.active } := by
          rw [e]
          simp only [beq_self_eq_true, if_true, updTask_ctxs]
          exact newCtx_entry s0 _ t _ (by rcases h0 with rfl | ⟨v, rfl⟩ <;> simp)
        exact hna _ _ hent rfl
      obtain ⟨go, _, _, hm⟩ := enter_spec s s0 t c b kk g.na hc ru.lt ru.active h0
      have e' : step s = enterSt s s0 t c b kk := e
      rw [← e'] at go hm
      rw [fin go]
      have := hm _ m
      simpa using this
    | endwith cid kk cs hconts e =>
      have hcid : cid ∈ (s.task t).ctxs := by
        have := k.k1 t
        rw [hconts] at this
        have h2 : cid ∈ (s.task t).ctxs.reverse := by rw [← this]; simp
        exact List.mem_reverse.1 h2
      obtain ⟨x, hx, hxo, _⟩ := hreg t cid hcid
      obtain ⟨go, _, hm⟩ := endwith_spec s t cid kk cs g.na ru.lt ru.act hconts (k.k1 t) (g.i.j.nodup t) x hx hxo
      rw [← e] at go hm
      rw [fin go]
      have hctxs : (s.task t).ctxs.reverse = cid :: cs.map (·.1) := by
        rw [← k.k1 t, hconts]; rfl
      rw [hctxs] at m
      have := hm _ (by simpa using m)
      simpa using this
    | finish o hnc e =>
      obtain ⟨go, hm⟩ := finish_spec s t old o g.na ru.lt ru.act (k.k1 t) (g.i.j.nodup t)
        (fun c hc => by obtain ⟨x, hx, hxo, _⟩ := hreg t c hc; exact ⟨x, hx, hxo⟩)
      rw [← e] at go hm
      rw [fin go]
      simpa using hm _ m
  | guard h => rw [h] at hg; cases hg

theorem M_init (cfg : Cfg) (tops : List (Conv × Body)) (choices : List (Nat × Nat)) :
    M (initState cfg tops choices) (rstack (initState cfg tops choices)) := by
  have hr : rstack (initState cfg tops choices) = [] := by simp [rstack, hotTasks, initState, fo]
  rw [hr]
  exact ⟨rfl, List.nodup_nil, fun c h => (by cases h), fun v => (by simp [State.svGet, initState, expect]), trivial,
    (by simp [initState])⟩

theorem M_reach {s : State} (h : ReachNR s) (hg : s.guardFired = false) (hna : NA s) : M s (rstack s) := by
  induction h with
  | init cfg tops choices => exact M_init cfg tops choices
  | @step s h hn ih =>
    have hg0 := P3.guard_mono s hg
    have hna0 := na_back s h.reach hna
    exact L_step s (good_of_reach h.reach hg0 hna0) (K_reach h.reach hg0 hna0) (ih hg0 hna0) hn hg hna

/-! ### which steps emit a `.svals` event -/

theorem step_nosv (s : State) (g : Good s) (k : K s) (hg : (step s).guardFired = false) (hna : NA (step s)) :
    (∃ f, s.ctl = [] ∧ step s = s.finishTop f) ∨
    ∃ evs, (step s).trace = evs ++ s.trace ∧ ∀ e ∈ evs, nosv e = true := by
  have hreg := g.i.j.reg
  have ofQ : Q calm s (step s) → ∃ evs, (step s).trace = evs ++ s.trace ∧ ∀ e ∈ evs, nosv e = true := by
    intro q
    obtain ⟨evs, he, hs⟩ := q.trace
    exact ⟨evs, he, fun e hm => calm_nosv (hs e hm)⟩
  cases step_cases s g.pi.items g.co.raising with
  | neutral q hst hsf => exact .inr (ofQ q)
  | top f hctl e => exact .inl ⟨f, hctl, e⟩
  | enterLoop root rest hctl hnc q hst hc => exact .inr (ofQ q)
  | pop root base rest top stk hctl hst hlen hno q hst' hc => exact .inr (ofQ q)
  | suspend root base rest t stk hctl hst hlen hk hnc hsched e =>
    right
    have ht := lt_of_kind_task s t hk
    obtain ⟨fl, _⟩ := flip_pause s t (fun ts => { ts with depsSched := false }) (fun _ => rfl) (fun _ => rfl)
      (fun _ => rfl) g.na ht (g.i.d t hsched)
    rw [e]; exact fl.op.tr
  | visit root base rest t stk hctl hst hlen hk hnc hsched ds hds e =>
    right
    have ht := lt_of_kind_task s t hk
    rw [e]
    by_cases hact : (s.task t).ctxActive = true
    · have hts : (s.updTask t fun ts => { ts with depsSched := true }).task t = { s.task t with depsSched := true } :=
        task_updTask_self _ _ _ ht
      rw [nf_resume_active _ t (by rw [hts]; exact hact)]
      exact ⟨[], rfl, by simp⟩
    · obtain ⟨fl, _⟩ := flip_resume s t (fun ts => { ts with depsSched := true }) (fun _ => rfl) (fun _ => rfl)
        (fun _ => rfl) g.na ht (by simpa using hact)
      exact fl.op.tr
  | enterGen root base rest t stk hctl hst hlen hk hnc e =>
    right
    have ht := lt_of_kind_task s t hk
    rw [e]
    by_cases hact : (s.task t).ctxActive = true
    · rw [nf_resume_active _ t hact]
      exact ⟨[], rfl, by simp⟩
    · obtain ⟨fl, _⟩ := flip_resume s t (fun ts => ts) (fun _ => rfl) (fun _ => rfl) (fun _ => rfl) g.na ht
        (by simpa using hact)
      rw [updTask_id] at fl
      exact fl.op.tr
  | gen t old rest hctl hst hsf gc =>
    right
    have ru := g.running hctl
    cases gc with
    | neutral q => exact ofQ q
    | withCtx c b kk s0 h0 e =>
      have hc : c ≠ .nonasync := by
        intro hc
        subst hc
        have hent : (step s).ctxs[s.ctxs.length]? = some { kind := .nonasync, owner := s0.active } := by
          rw [e]
          simp only [beq_self_eq_true, if_true, updTask_ctxs]
          exact newCtx_entry s0 _ t _ (by rcases h0 with rfl | ⟨v, rfl⟩ <;> simp)
        exact hna _ _ hent rfl
      obtain ⟨go, _⟩ := enter_spec s s0 t c b kk g.na hc ru.lt ru.active h0
      have e' : step s = enterSt s s0 t c b kk := e
      rw [e']; exact go.op.tr
    | endwith cid kk cs hconts e =>
      have hcid : cid ∈ (s.task t).ctxs := by
        have := k.k1 t
        rw [hconts] at this
        have h2 : cid ∈ (s.task t).ctxs.reverse := by rw [← this]; simp
        exact List.mem_reverse.1 h2
      obtain ⟨x, hx, hxo, _⟩ := hreg t cid hcid
      obtain ⟨go, _⟩ := endwith_spec s t cid kk cs g.na ru.lt ru.act hconts (k.k1 t) (g.i.j.nodup t) x hx hxo
      rw [e]; exact go.op.tr
    | finish o hnc e =>
      obtain ⟨go, _⟩ := finish_spec s t old o g.na ru.lt ru.act (k.k1 t) (g.i.j.nodup t)
        (fun c hc => by obtain ⟨x, hx, hxo, _⟩ := hreg t c hc; exact ⟨x, hx, hxo⟩)
      rw [e]; exact go.op.tr
  | guard h => rw [h] at hg; cases hg

end AsynqModel.Core.P7
