import AsynqModel.Proofs.P25Live
/-
  P25, part 10: `InvL'` is preserved by every instruction of a task body (`GD'`), for runs in which the
  MAX_TASK_STACK_SIZE guard has not fired (the running task is then on top of the scheduler stack: `P10.CInv.disc`).
-/
namespace AsynqModel.Core.P25
open AsynqModel.Core AsynqModel.Core.P6 AsynqModel.Core.P6T AsynqModel.Core.P20

theorem GD'.comp {s r : State} {t : Nat} (d : GD' s r t) {f : Nat} (h : s.computed f = true) : r.computed f = true := by
  cases d with
  | start hp hs hu => exact upd1_comp hu (fun hn => hn) h
  | loc v' hu hkind hout hpend hstart hbs hsame hdeps => exact upd1_comp hu (fun hn => by rw [hout]; exact hn) h
  | locNA b k cid hb hp hl htops hvt hvo =>
    by_cases e : f = t
    · subst e; rw [computed_eq_view, hvt]; exact h
    · rw [computed_of_view (hvo f e)]; exact h
  | spawn child k pass hb hp hu hbat => exact upd2_comp hu rfl h
  | item kind payload mode k seq hb hp hu hbat => exact upd2_comp hu rfl h
  | other k kd out hb hp hu hbat hkd => exact upd2_comp hu rfl h
  | yield npy nd leave hp hu hdy => exact upd1_comp hu (fun hn => hn) h
  | finish o hp hu => exact upd1_comp hu (fun _ => by simp [finishView]) h
  | sync child k hh pass hb hp hu hbat => exact upd2_comp hu rfl h
  | syncfut rf k hh s1 hb hp hu F hT => exact F.computed_mono (upd1_comp hu (fun hn => hn) h)

/-- a fresh future: suspended, no dependencies -/
theorem pvu_fresh {r : State} {u : Nat} (h1 : (view r u).pending = true) (h2 : (view r u).deps = []) : PVu r u := by
  unfold PVu
  rw [h2, h1]
  exact ⟨fun d hd => (by cases hd), fun _ hp => (by cases hp), fun _ hd => absurd rfl hd⟩

/-- the running task after an instruction that leaves it started, with dependencies that are computed or named in
    the structure it yielded last -/
theorem pvu_run {r : State} {u : Nat} (h1 : (view r u).started = true)
    (h2 : ∀ d ∈ (view r u).deps, r.computed d = true ∨ d ∈ extractFutures (view r u).prevY) : PVu r u :=
  ⟨h2, fun _ _ => h1, fun _ _ => h1⟩

theorem lstep_gen {s : State} (h : Good' s) (hL : InvL' s) (hC : P10.CInv s) {t : Nat} {old : Option Nat}
    {rest : List Ctl} (hctl : s.ctl = .gen t old :: rest) (d : GD' s (s.genStep t old) t) :
    LStep' s (s.genStep t old) := by
  have pin := P2.pinv_reach h.ws.reach
  have hI : P2.ItemsOk s := pin.items
  have htm : t ∈ P2.gens s.ctl := by rw [hctl]; simp [P2.gens]
  have hgnb : ∀ x ∈ (view s t).deps, s.computed x = true := pin.gnb t htm
  have hcm : ∀ f, s.computed f = true → (s.genStep t old).computed f = true := fun f hf => d.comp hf
  have hgs := P3.genStep_trans s t old
  have hstack : (s.genStep t old).stack = s.stack := by
    rcases hgs with h1 | h1 | ⟨f, h1⟩ <;> exact h1.stack
  have htstack : t ∈ s.stack := by
    have := hC.disc
    rw [hctl] at this
    have h1 := this.1
    cases hst : s.stack with
    | nil => rw [hst] at h1; cases h1
    | cons a as =>
      rw [hst] at h1
      simp at h1
      rw [h1]
      exact List.mem_cons_self
  obtain ⟨htk, htout⟩ := h.gen hctl
  have htl : t < s.futs.length := lt_of_view_task s t htk
  -- the running task has started as soon as it is not suspended
  have hstarted : (view s t).pending = false → (view s t).started = true := (hL.pv t).2.1 htout
  have keepO : ∀ u, view (s.genStep t old) u = view s u → PVu (s.genStep t old) u :=
    fun u e => pvu_of_view hcm (hL.pv u) e
  refine ⟨hcm, ?_, ?_, ?_, ?_, ?_, ?_⟩
  · -- awaiting edges
    intro u x hux hox
    left
    by_cases e : u = t
    · subst e
      exfalso
      have := hcm x (hgnb x hux.2.2)
      rw [uncomputed_of_out_none hox] at this; cases this
    · have hlt : u < s.futs.length := lt_of_view_task s u hux.1
      have same : view (s.genStep t old) u = view s u → Aw (s.genStep t old) u x := fun e1 => aw_of_view e1 hux
      cases d with
      | start hp hs hu => exact same (hu.viewO u e)
      | loc v' hu hkind hout hpend hstart hbs hsame hdeps => exact same (hu.viewO u e)
      | locNA b k cid hb hp hl htops hvt hvo => exact same (hvo u e)
      | spawn child k pass hb hp hu hbat => exact same (hu.viewO u e (Nat.ne_of_lt hlt))
      | item kind payload mode k seq hb hp hu hbat => exact same (hu.viewO u e (Nat.ne_of_lt hlt))
      | other k kd out hb hp hu hbat hkd => exact same (hu.viewO u e (Nat.ne_of_lt hlt))
      | yield npy nd leave hp hu hdy => exact same (hu.viewO u e)
      | finish o hp hu => exact same (hu.viewO u e)
      | sync child k hh pass hb hp hu hbat => exact same (hu.viewO u e (Nat.ne_of_lt hlt))
      | syncfut rf k hh s1 hb hp hu F hT =>
        have hv1 : ∀ g, (view s1 g).kind = (view s g).kind := by
          intro g
          rcases hu.toS.view_cases g with ⟨rfl, e1⟩ | ⟨_, e1⟩
          · rw [e1]; rfl
          · rw [e1]
        have hI1 : P2.ItemsOk s1 := by
          intro b hb i hi
          rw [hu.batches] at hb
          have := hI b hb i hi
          have hk1 : (s1.fut i).kind = (s.fut i).kind := hv1 i
          rw [hk1]; exact this
        have e1 : view s1 u = view s u := hu.viewO u e
        exact same ((hT hI1 u (by rw [e1]; exact hux.1)).trans e1)
  · -- roots
    intro x ⟨c, hc, hx⟩ _
    rcases hgs with h1 | h1 | ⟨f, h1⟩
    · exact ⟨c, by rw [h1.ctl]; exact hc, hx⟩
    · rw [hctl] at hc
      rcases List.mem_cons.1 hc with e | e
      · subst e; cases hx
      · exact ⟨c, by rw [h1.ctl, hctl]; exact e, hx⟩
    · exact ⟨c, by rw [h1.ctl]; exact List.mem_cons_of_mem _ hc, hx⟩
  · -- orphans: their witnesses are computed, hence untouched
    refine orph_of_views ?_
    intro u hu
    have hne : u ≠ t := by intro e; subst e; rw [htout] at hu; cases hu
    have hlt : u < s.futs.length := by
      apply Classical.byContradiction
      intro hn
      rw [view_ge s u (by omega)] at hu
      cases hu
    cases d with
    | start hp hs hu' => exact hu'.viewO u hne
    | loc v' hu' hkind hout hpend hstart hbs hsame hdeps => exact hu'.viewO u hne
    | locNA b k cid hb hp hl htops hvt hvo => exact hvo u hne
    | spawn child k pass hb hp hu' hbat => exact hu'.viewO u hne (Nat.ne_of_lt hlt)
    | item kind payload mode k seq hb hp hu' hbat => exact hu'.viewO u hne (Nat.ne_of_lt hlt)
    | other k kd out hb hp hu' hbat hkd => exact hu'.viewO u hne (Nat.ne_of_lt hlt)
    | yield npy nd leave hp hu' hdy => exact hu'.viewO u hne
    | finish o hp hu' => exact hu'.viewO u hne
    | sync child k hh pass hb hp hu' hbat => exact hu'.viewO u hne (Nat.ne_of_lt hlt)
    | syncfut rf k hh s1 hb hp hu' F hT =>
      have e1 : view s1 u = view s u := hu'.viewO u hne
      rcases F.view u with e2 | ⟨e2, _⟩
      · exact e2.trans e1
      · rw [e1, hu] at e2; cases e2
  · -- started tasks
    intro t' ht'
    by_cases e : t' = t
    · subst e; exact Or.inr ⟨htstack, htout⟩
    · left
      have same : view (s.genStep t old) t' = view s t' → StartedU s t' := fun e1 => by
        unfold StartedU at ht' ⊢; rw [e1] at ht'; exact ht'
      have new : ∀ {v' nv : FV}, Upd2 s (s.genStep t old) t v' nv → (nv.kind ≠ .task ∨ nv.started = false) →
          StartedU s t' := by
        intro v' nv U hn
        rcases U.view_cases t' with ⟨e1, _⟩ | ⟨rfl, e1⟩ | ⟨_, _, e1⟩
        · exact absurd e1 e
        · exfalso
          unfold StartedU at ht'; rw [e1] at ht'
          rcases hn with hn | hn
          · exact hn ht'.1
          · rw [hn] at ht'; cases ht'.2.1
        · exact same e1
      cases d with
      | start hp hs hu => exact same (hu.viewO t' e)
      | loc v' hu hkind hout hpend hstart hbs hsame hdeps => exact same (hu.viewO t' e)
      | locNA b k cid hb hp hl htops hvt hvo => exact same (hvo t' e)
      | spawn child k pass hb hp hu hbat => exact new hu (Or.inr rfl)
      | item kind payload mode k seq hb hp hu hbat => exact new hu (Or.inl (by simp [plainView]))
      | other k kd out hb hp hu hbat hkd =>
        refine new hu (Or.inl ?_)
        rcases hkd with ⟨e1, _⟩ | ⟨e1, _⟩ | ⟨⟨o, e1⟩, _⟩ <;> rw [e1] <;> simp [plainView]
      | yield npy nd leave hp hu hdy => exact same (hu.viewO t' e)
      | finish o hp hu => exact same (hu.viewO t' e)
      | sync child k hh pass hb hp hu hbat => exact new hu (Or.inr rfl)
      | syncfut rf k hh s1 hb hp hu F hT =>
        rcases F.view t' with e1 | ⟨_, o, e1⟩
        · exact same (e1.trans (hu.viewO t' e))
        · exfalso
          have := ht'.2.2
          rw [e1] at this
          simp [doneView] at this
  · -- the stack
    intro x hx _
    rw [hstack] at hx
    exact Or.inl hx
  · -- bookkeeping
    intro u
    have upd2 : ∀ {v' nv : FV}, Upd2 s (s.genStep t old) t v' nv →
        (v'.deps = (view s t).deps ∧ v'.prevY = (view s t).prevY ∧ v'.out = (view s t).out ∧
          v'.pending = (view s t).pending ∧ v'.started = (view s t).started) →
        (nv.pending = true ∧ nv.deps = []) → PVu (s.genStep t old) u := by
      intro v' nv U hv hn
      rcases U.view_cases u with ⟨rfl, e1⟩ | ⟨rfl, e1⟩ | ⟨_, _, e1⟩
      · exact pvu_keep hcm (hL.pv u) (by rw [e1]; exact hv.1) (by rw [e1]; exact hv.2.1) (by rw [e1]; exact hv.2.2.1)
          (by rw [e1]; exact hv.2.2.2.1) (by rw [e1]; exact hv.2.2.2.2)
      · exact pvu_fresh (by rw [e1]; exact hn.1) (by rw [e1]; exact hn.2)
      · exact keepO u e1
    cases d with
    | start hp hs hu =>
      rcases hu.toS.view_cases u with ⟨rfl, e1⟩ | ⟨_, e1⟩
      · exact pvu_run (by rw [e1]; rfl) (by rw [e1]; intro d hd; cases hd)
      · exact keepO u e1
    | loc v' hu hkind hout hpend hstart hbs hsame hdeps =>
      rcases hu.toS.view_cases u with ⟨rfl, e1⟩ | ⟨_, e1⟩
      · refine pvu_run ?_ ?_
        · rw [e1]
          rcases hstart with h1 | ⟨h1, h2⟩
          · exact h1
          · rw [h2]; exact hstarted h1
        · rw [e1]
          intro d hd
          rcases hdeps with h1 | h1
          · rw [h1] at hd; cases hd
          · rw [h1] at hd; exact Or.inl (hcm d (hgnb d hd))
      · exact keepO u e1
    | locNA b k cid hb hp hl htops hvt hvo =>
      by_cases e : u = t
      · subst e
        exact pvu_keep hcm (hL.pv u) (by rw [hvt]; rfl) (by rw [hvt]; rfl) (by rw [hvt]; rfl) (by rw [hvt]; rfl)
          (by rw [hvt]; rfl)
      · exact keepO u (hvo u e)
    | spawn child k pass hb hp hu hbat => exact upd2 hu ⟨rfl, rfl, rfl, rfl, rfl⟩ ⟨rfl, rfl⟩
    | item kind payload mode k seq hb hp hu hbat => exact upd2 hu ⟨rfl, rfl, rfl, rfl, rfl⟩ ⟨rfl, rfl⟩
    | other k kd out hb hp hu hbat hkd => exact upd2 hu ⟨rfl, rfl, rfl, rfl, rfl⟩ ⟨rfl, rfl⟩
    | yield npy nd leave hp hu hdy =>
      rcases hu.toS.view_cases u with ⟨rfl, e1⟩ | ⟨_, e1⟩
      · refine pvu_run (by rw [e1]; exact hstarted hp) ?_
        rw [e1]
        intro d hd
        rcases hdy d hd with h1 | h1
        · exact Or.inl (hcm d (hgnb d h1))
        · exact Or.inr h1
      · exact keepO u e1
    | finish o hp hu =>
      rcases hu.toS.view_cases u with ⟨rfl, e1⟩ | ⟨_, e1⟩
      · exact pvu_done (by rw [e1]; simp [finishView]) (by rw [e1]; rfl)
      · exact keepO u e1
    | sync child k hh pass hb hp hu hbat => exact upd2 hu ⟨rfl, rfl, rfl, rfl, rfl⟩ ⟨rfl, rfl⟩
    | syncfut rf k hh s1 hb hp hu F hT =>
      have hc1 : ∀ f, s.computed f = true → s1.computed f = true := fun f hf => upd1_comp hu (fun hn => hn) hf
      have hp1 : PVu s1 u := by
        rcases hu.toS.view_cases u with ⟨rfl, e1⟩ | ⟨_, e1⟩
        · exact pvu_keep hc1 (hL.pv u) (by rw [e1]; rfl) (by rw [e1]; rfl) (by rw [e1]; rfl) (by rw [e1]; rfl)
            (by rw [e1]; rfl)
        · exact pvu_of_view hc1 (hL.pv u) e1
      rcases F.view u with e2 | ⟨_, o, e2⟩
      · exact pvu_of_view (fun f hf => F.computed_mono hf) hp1 e2
      · exact pvu_done (by rw [e2]; simp [doneView]) (by rw [e2]; rfl)

end AsynqModel.Core.P25
