import AsynqModel.Proofs.P11Inv
/-!
  P11, part 3: every transition of the machine is a `Desc` (after a change of bookkeeping fields, `Pre`).
  One lemma per branch of `step` / `executeIter` / `handleTask` / `schedulerFlush` / `genStep` / `finishTask`.
-/
namespace AsynqModel.Core.P11
open AsynqModel.Core
open P2

def StepOk (s s' : State) : Prop := ∃ s0, Pre s s0 ∧ Desc s0 s'

theorem StepOk.of {s s' : State} (d : Desc s s') : StepOk s s' := ⟨s, Pre.refl s, d⟩

/-! ### `_handle_async_task` -/

theorem handleTask_desc (s : State) (t : Nat) (ht : t ∈ s.stack) : Desc s (s.handleTask t) := by
  unfold State.handleTask
  simp only []
  split
  · split
    · have b : B {} s ((s.updTask t fun ts => { ts with depsSched := false }).pauseContexts t) :=
        (b_updTask _ _ _).trans (b_pauseContexts _ _)
      exact .mk' b .triv rfl rfl (stack_of_tail (by show (State.stack _).tail = _; rw [b.stack])) (ctl_of_eq b.ctl)
        (raising_of_eq b.raising)
    · have b : B {} s ((s.updTask t fun ts => { ts with depsSched := true }).resumeContexts t) :=
        (b_updTask _ _ _).trans (b_resumeContexts _ _)
      refine .mk' b .triv rfl rfl ?_ (ctl_of_eq b.ctl) (raising_of_eq b.raising)
      intro x hx
      have hx' : x ∈ ((s.task t).deps.filter fun d =>
          !((s.updTask t fun ts => { ts with depsSched := true }).resumeContexts t).computed d).reverse ++
          ((s.updTask t fun ts => { ts with depsSched := true }).resumeContexts t).stack := hx
      rcases List.mem_append.1 hx' with h | h
      · exact Or.inl (Or.inr (Or.inr ⟨t, (List.mem_filter.1 (List.mem_reverse.1 h)).1⟩))
      · exact Or.inl (Or.inl (b.stack ▸ h))
  · split
    · exact .same (b_fail _ _) .triv
    · have b : B {} s (s.resumeContexts t) := b_resumeContexts _ _
      exact .mk' b .triv rfl rfl (stack_of_eq b.stack)
        (ctl_of_push (c0 := .gen t (s.resumeContexts t).active) (by show _ :: (s.resumeContexts t).ctl = _; rw [b.ctl])
          (Or.inl (Or.inl ht)))
        (raising_of_eq b.raising)

/-! ### one iteration of `_execute` -/

theorem executeIter_desc (s : State) : Desc s s.executeIter := by
  unfold State.executeIter
  split
  · exact .same (b_fail _ _) .triv
  · rename_i top rest hst
    split
    · exact .mk' (B.refl s) .triv rfl rfl (fun x hx => by cases hx) (ctl_of_tail rfl)
        (fun e he => Or.inr ⟨by injection he with he; exact he.symm, rfl⟩)
    · split
      · exact .mk' (B.refl s) .triv rfl rfl (stack_of_tail rfl) (ctl_of_eq rfl) (raising_of_eq rfl)
      · rename_i hc
        split
        · exact handleTask_desc s top (by rw [hst]; simp)
        · split
          · split
            · exact .mk' (B.refl s) .triv rfl rfl (stack_of_tail rfl) (ctl_of_eq rfl) (raising_of_eq rfl)
            · exact .mk' (B.refl s) .triv rfl rfl (stack_of_tail rfl) (ctl_of_eq rfl) (raising_of_eq rfl)
          · exact .mk' (B.refl s) .triv rfl rfl (stack_of_tail rfl) (ctl_of_eq rfl) (raising_of_eq rfl)
        · rename_i o hk
          have b : B {} s (s.complete top (lazyOutcome o)) :=
            b_complete _ _ _ (computed_false hc) (fun h => by rw [hk] at h; cases h)
          exact .mk' b .triv rfl rfl (stack_of_tail rfl) (ctl_of_eq rfl) (raising_of_eq rfl)
        · exact .same (b_fail _ _) .triv

/-! ### the scheduler flush -/

theorem flush_tail (s0 s1 : State) (e e' : Event) (k q : Nat) (hf : s1.futs = s0.futs) (ht : s1.trace = s0.trace)
    (hc : s1.ctl = s0.ctl) (hs : s1.stack = s0.stack) (ha : s1.active = s0.active) (hr : s1.raising = s0.raising)
    (hg : s1.guardFired = s0.guardFired)
    (hi : ItemsOk (s1.emit e)) (he : plainEv e = true) (he' : plainEv e' = true) :
    Desc s0 (((s1.emit e).flushBatch k q).emit e') :=
  .same ((((B.of_eq hf ht hc hs ha hr hg).trans (b_emit s1 e he)).trans (b_flushBatch _ k q hi)).trans
    (b_emit _ e' he')) .triv

theorem schedulerFlush_desc (s : State) (root b : Nat) (rest : List Ctl) (hctl : s.ctl = .waitLoop root b :: rest)
    (hi : ItemsOk s) : StepOk s (s.schedulerFlush root) := by
  refine ⟨{ s with sbatches := s.flushable, ctl := .waitEnter root :: s.ctl.tail }, ⟨rfl, rfl, ?_, Or.inl rfl, rfl⟩, ?_⟩
  · intro x hx
    rcases hx with hx | ⟨c, hc, hx⟩ | hx
    · exact Or.inl hx
    · refine Or.inr (Or.inl ?_)
      have hc' : c ∈ Ctl.waitEnter root :: s.ctl.tail := hc
      rcases List.mem_cons.1 hc' with h | h
      · exact ⟨.waitLoop root b, by rw [hctl]; simp, by rw [← hx, h]; rfl⟩
      · exact ⟨c, List.mem_of_mem_tail h, hx⟩
    · exact Or.inr (Or.inr hx)
  · unfold State.schedulerFlush
    simp only []
    repeat' split
    all_goals first
      | exact Desc.refl _
      | exact .same (b_fail _ _) .triv
      | exact flush_tail _ _ _ _ _ _ rfl rfl rfl rfl rfl rfl rfl hi rfl rfl

/-! ### the task finishes -/

theorem finishTask_desc (s : State) (t : Nat) (old : Option Nat) (o : Outcome) (hk : (s.fut t).kind = .task)
    (hfin : ∀ e, o = .err e → Fin s t e) : Desc s (s.finishTask t old o) := by
  unfold State.finishTask
  split
  · exact .same (b_fail _ _) .triv
  · rename_i hc
    let p : Par := { E := fun f e => f = t ∧ o = .err e }
    have b2 : B p s (((s.exitAll t).updTask t fun ts => { ts with pending := false }).complete t o) :=
      ((b_exitAll s t).trans (b_updTask _ _ _)).trans
        (b_complete _ _ _ (by rw [out_updTask, out_exitAll]; exact computed_false hc) (fun _ e he => Or.inr ⟨rfl, he⟩))
    have b3 := b2.trans (b_updTask (p := p) _ t (fun ts => { ts with depsSched := false }))
    unfold State.leaveGen
    refine .popCtl b3 ⟨?_, fun _ h => h.elim, fun _ h => h.elim, fun _ _ h => h.elim, fun _ h => h.elim⟩ old
    rintro f e ⟨rfl, he⟩ _
    refine finB_congr ?_ ?_ (hfin e he)
    · rcases (b3.fut f).body hk with h4 | h4
      · exact h4.elim
      · exact h4
    · rcases (b3.fut f).caught with h4 | ⟨h4, _⟩
      · exact h4
      · exact h4.elim

/-! ### one instruction of the running task -/

theorem item_tail (s s0 : State) (t : Nat) (ht : s.out t = none) (b0 : B (parL t) s s0) (cb : Option Batch)
    (kind : Nat) (x : Batch → Fut) (nk : Batch → NewKind)
    (hx : ∀ b, (x b).ts.deps = [] ∧ (x b).ts.caught = none ∧ ((x b).kind = .task → (x b).out = none))
    (g : Batch → TaskSt → TaskSt) (hg : ∀ b, TOkL (g b)) :
    Desc s (match cb with
      | none => s0.fail "no batch"
      | some b =>
        ((s0.alloc (x b) (nk b)).1.updBatch kind b.seq fun b' =>
          { b' with items := b'.items ++ [(s0.alloc (x b) (nk b)).2] }).updTask t (g b)) := by
  cases cb with
  | none => exact .same (b0.trans (b_fail _ _)) (.live ht)
  | some b =>
    obtain ⟨h1, h2, h3⟩ := hx b
    exact .same (((b0.trans (b_alloc s0 _ _ h1 h2 h3)).trans (b_updBatch _ _ _ _)).trans
      (b_updTaskL _ _ _ rfl (hg b))) (.live ht)

/-- a resume that throws `e` into the generator -/
theorem runErr_desc (s : State) (t : Nat) (ht : s.out t = none) (g : TaskSt → TaskSt) (e : Err) (i : Nat) (dc : Bool)
    (hg : (∀ d ∈ (g (s.task t)).deps, d ∈ (s.task t).deps) ∧ (g (s.task t)).caught = some e)
    (hsrc : SrcAt s s.trace t e) :
    Desc s ((s.updTask t g).emit (.run t (i + 1) dc (.out (.err e)))) := by
  let p : Par := { L := fun f => f = t, C := fun f e' => f = t ∧ e' = e }
  have b : B p s ((s.updTask t g).emit (.run t (i + 1) dc (.out (.err e)))) :=
    (b_updTaskG (p := p) s t g ⟨fun d hd => Or.inl (hg.1 d hd), Or.inr ⟨rfl, e, hg.2, rfl, rfl⟩, Or.inl rfl⟩).trans
      (b_emit _ _ rfl)
  refine .same b ⟨fun _ _ h => h.elim, fun f h => by rw [h]; exact ht, fun _ h => h.elim, ?_, fun _ h => h.elim⟩
  rintro f e' ⟨rfl, rfl⟩
  refine ⟨Or.inl ⟨_, _, List.mem_cons_self⟩, ?_⟩
  rcases hsrc with h | h | ⟨f', h1, h2⟩
  · exact Or.inl h
  · exact Or.inr (Or.inl h)
  · exact Or.inr (Or.inr ⟨f', AwaitedBy.mono [_] h1, h2⟩)

theorem yield_desc (s : State) (t : Nat) (old : Option Nat) (ht : s.out t = none) (ry : RY) (n : Nat)
    (g : TaskSt → TaskSt) (c : Prop) [Decidable c]
    (hg : (∀ d ∈ (g (s.task t)).deps, d ∈ (s.task t).deps ∨ d ∈ extractFutures ry) ∧
      (g (s.task t)).caught = (s.task t).caught) :
    Desc s (if c then (s.emit (.yield t n ry)).updTask t g
      else ((s.emit (.yield t n ry)).updTask t g).leaveGen t old) := by
  let p : Par := { L := fun f => f = t, D := fun d => d ∈ extractFutures ry }
  have b1 : B p s ((s.emit (.yield t n ry)).updTask t g) :=
    (b_emit _ _ rfl).trans (b_updTaskG _ t _ ⟨hg.1, Or.inl hg.2, Or.inl rfl⟩)
  have hD : ∀ d, p.D d → Awaited d (Event.yield t n ry :: s.trace) := fun d hd =>
    .of_mem List.mem_cons_self (by simpa [awaitsEv] using (mem_extractFutures ry d).1 hd)
  split
  · exact .same b1 ⟨fun _ _ h => h.elim, fun f h => by rw [h]; exact ht, hD, fun _ _ h => h.elim, fun _ h => h.elim⟩
  · unfold State.leaveGen
    exact .popCtl (b1.trans (b_updTask _ _ _))
      ⟨fun _ _ h => h.elim, fun f h => by rw [h]; exact ht, hD, fun _ _ h => h.elim, fun _ h => h.elim⟩ old

theorem syncfut_desc (s s1 : State) (t f : Nat) (ht : s.out t = none) (b : B (parL t) s s1)
    (hb : s1.batches = s.batches) (hi : ItemsOk s) (haw : Awaited f s1.trace) :
    Desc s (if s1.computed f then s1 else
      match (s1.fut f).kind with
      | .task => { s1 with ctl := .waitEnter f :: s1.ctl }
      | .item kind seq _ _ =>
        match s1.batch? kind seq with
        | some b => if b.flushed then s1 else s1.flushBatch kind seq
        | none => s1
      | .lazy o => s1.complete f (lazyOutcome o)
      | _ => s1) := by
  split
  · exact .same b (.live ht)
  · rename_i hc
    split
    · exact .pushWait b (.live ht) f haw
    · split
      · split
        · exact .same b (.live ht)
        · exact .same (b.trans (b_flushBatch _ _ _ (b.itemsOk hb hi))) (.live ht)
      · exact .same b (.live ht)
    · rename_i o hk
      exact .same (b.trans (b_complete _ _ _ (computed_false hc) (fun h => by rw [hk] at h; cases h))) (.live ht)
    · exact .same b (.live ht)

/-- `value()` returns into the generator -/
theorem syncret_desc (s : State) (t f : Nat) (ht : s.out t = none) (g : TaskSt → TaskSt) (o : Outcome)
    (ho : s.out f = some o ∨ (o = .err .stackguard ∧ s.guardFired = true))
    (hg : (∀ d ∈ (g (s.task t)).deps, d ∈ (s.task t).deps) ∧
      ((g (s.task t)).caught = (s.task t).caught ∨ ∃ e, o = .err e ∧ (g (s.task t)).caught = some e)) :
    StepOk s (({ s with raising := none }.updTask t g).emit (.syncX t f o)) := by
  refine ⟨{ s with raising := none }, ⟨rfl, rfl, tracked_of_eq rfl rfl rfl, Or.inr rfl, rfl⟩, ?_⟩
  let p : Par :=
    { L := fun f' => f' = t, C := fun f' e' => f' = t ∧ o = .err e', X := fun ev => ev = .syncX t f o }
  have hc : (g (s.task t)).caught = (s.task t).caught ∨ (p.L t ∧ ∃ e, (g (s.task t)).caught = some e ∧ p.C t e) := by
    rcases hg.2 with h | ⟨e, h1, h2⟩
    · exact Or.inl h
    · exact Or.inr ⟨rfl, e, h2, rfl, h1⟩
  have b : B p { s with raising := none } (({ s with raising := none }.updTask t g).emit (.syncX t f o)) :=
    (b_updTaskG (p := p) { s with raising := none } t g ⟨fun d hd => Or.inl (hg.1 d hd), hc, Or.inl rfl⟩).trans
      (b_emitX _ _ (Or.inr rfl))
  refine .same b ⟨fun _ _ h => h.elim, fun f h => by rw [h]; exact ht, fun _ h => h.elim, ?_, ?_⟩
  · rintro f' e' ⟨rfl, rfl⟩
    refine ⟨Or.inr ⟨f, List.mem_cons_self⟩, ?_⟩
    rcases ho with ho | ⟨ho, hg'⟩
    · exact Or.inr (Or.inr ⟨f, Or.inr (Or.inr ⟨_, List.mem_cons_self⟩), ho⟩)
    · injection ho with ho
      exact Or.inr (Or.inl ⟨ho, hg'⟩)
  · intro ev hev
    have hev' : ev = .syncX t f o := hev
    subst hev'
    refine ⟨fun _ _ _ h => (by cases h), fun t' f' o' h => ?_⟩
    injection h with h1 h2 h3
    subst h2; subst h3
    rcases ho with ho | ho
    · left
      show ((State.updTask { s with raising := none } t g).emit _).out _ = _
      rw [emit_out, out_updTask]; exact ho
    · exact Or.inr ho

theorem b_ite_right {p : Par} {s a : State} {c : Prop} [Decidable c] (f : State → State) (h : B p s a)
    (hf : B p a (f a)) : B p s (if c then a else f a) := by
  split
  · exact h
  · exact h.trans hf

theorem genStep_desc (s : State) (t : Nat) (old : Option Nat) (hk : (s.fut t).kind = .task) (hlive : s.out t = none)
    (hi : ItemsOk s) (hraise : ∀ e, s.raising = some e → e = .stackguard ∧ s.guardFired = true) (haw : Awaited t s.trace)
    (hly : (s.task t).pending = true → (s.task t).started = true →
      (∃ i, Event.yield t i (s.task t).lastY ∈ s.trace) ∧ ∀ f ∈ (s.task t).lastY.leaves, s.computed f = true) :
    StepOk s (s.genStep t old) := by
  unfold State.genStep
  simp only []
  split
  · split
    · -- the generator starts
      let p : Par := { L := fun f => f = t, X := fun e => e = .run t 0 true .start }
      have b : B p s ((s.updTask t fun ts =>
          { ts with pending := false, started := true, lastY := .none, deps := [] }).emit (.run t 0 true .start)) :=
        (b_updTaskL _ t _ rfl).trans (b_emitX _ _ (Or.inr rfl))
      refine .of (.same b ⟨fun _ _ h => h.elim, fun f h => by rw [h]; exact hlive, fun _ h => h.elim,
        fun _ _ h => h.elim, ?_⟩)
      intro e he
      have he' : e = .run t 0 true .start := he
      subst he'
      exact ⟨fun t' dc r h => by injection h with h1; subst h1; exact haw, fun _ _ _ h => by cases h⟩
    · rename_i hp hs
      have hsrc : ∀ e, unwrap s.out (s.task t).lastY = .error e → SrcAt s s.trace t e := by
        intro e hu
        obtain ⟨⟨i, hy⟩, hcomp⟩ := hly hp (by simpa using hs)
        rcases unwrap_error_src s.out _ e hu with h | ⟨f, hf, h⟩ | ⟨f, hf, h⟩
        · exact Or.inl h
        · exact Or.inr (Or.inr ⟨f, Or.inl ⟨i, _, hy, hf⟩, h⟩)
        · have := hcomp f hf
          unfold State.computed at this
          rw [h] at this; cases this
      split
      · exact .of (.same ((b_updTaskL _ t _ rfl).trans (b_emit _ _ rfl)) (.live hlive))
      · rename_i hu
        exact .of (runErr_desc s t hlive _ _ _ _
          ⟨fun d hd => (by split at hd <;> first | exact hd | cases hd), rfl⟩ (hsrc _ hu))
      · exact .of (.same ((b_updTaskL _ t _ rfl).trans (b_emit _ _ rfl)) (.live hlive))
      · rename_i hu
        exact .of (runErr_desc s t hlive _ _ _ _
          ⟨fun d hd => (by split at hd <;> first | exact hd | cases hd), rfl⟩ (hsrc _ hu))
      · exact .of (.same (b_fail _ _) .triv)
  · split
    · exact .of (finishTask_desc s t old _ hk (fun e h => by cases h))
    · exact .of (finishTask_desc s t old _ hk (fun e h => by cases h))
    · rename_i e hb
      refine .of (finishTask_desc s t old _ hk (fun e' h => ?_))
      injection h with h; subst h
      exact Or.inr (Or.inl ⟨e, rfl, hb⟩)
    · rename_i hb
      refine .of (finishTask_desc s t old _ hk (fun e' h => ?_))
      injection h with h
      unfold Fin FinB
      cases hc : (s.task t).caught with
      | none => rw [hc] at h; exact Or.inr (Or.inr (Or.inl ⟨h.symm, hb, rfl⟩))
      | some e0 => rw [hc] at h; exact Or.inr (Or.inr (Or.inr ⟨hb, by rw [← h]; rfl⟩))
    · -- spawn
      exact .of (.same ((b_newTask s _ _).trans (b_updTaskL _ t _ rfl)) (.live hlive))
    · -- item
      refine .of (item_tail s _ t hlive ?_ _ _ _ _ (fun b => ⟨rfl, rfl, fun h => by cases h⟩) _ (fun b => by tokl_tac))
      split
      · exact B.refl _
      · exact B.of_eq rfl rfl rfl rfl rfl rfl rfl
    · exact .of (.same ((b_alloc s _ _ rfl rfl (fun h => by cases h)).trans (b_updTaskL _ t _ rfl)) (.live hlive))
    · exact .of (.same ((b_alloc s _ _ rfl rfl (fun h => by cases h)).trans (b_updTaskL _ t _ rfl)) (.live hlive))
    · exact .of (.same ((b_alloc s _ _ rfl rfl (fun h => by cases h)).trans (b_updTaskL _ t _ rfl)) (.live hlive))
    · -- yld
      refine .of (yield_desc s t old hlive _ _ _ _ ⟨fun d hd => ?_, rfl⟩)
      rcases List.mem_append.1 hd with h | h
      · left; split at h <;> first | exact h | cases h
      · exact Or.inr h
    · -- reyld
      refine .of (yield_desc s t old hlive _ _ _ _ ⟨fun d hd => ?_, rfl⟩)
      rcases List.mem_append.1 hd with h | h
      · left; split at h <;> first | exact h | cases h
      · exact Or.inr h
    · -- sync
      refine .of (.pushWait (((b_newTask s _ _).trans (b_updTaskL _ t _ rfl)).trans (b_emit _ _ rfl)) (.live hlive) _
        (.of_mem List.mem_cons_self (by simp [awaitsEv])))
    · -- syncfut
      exact .of (syncfut_desc s _ t _ hlive ((b_updTaskL s t _ rfl).trans (b_emit _ _ rfl)) rfl hi
        (.of_mem List.mem_cons_self (by simp [awaitsEv])))
    · -- syncret
      rename_i f k h hb
      split
      · exact .of (.same (b_fail _ _) .triv)
      · rename_i v ho
        refine syncret_desc s t f hlive _ _ ?_ ⟨fun d hd => hd, Or.inl rfl⟩
        cases hr : s.raising with
        | none => rw [hr] at ho; exact Or.inl ho
        | some e0 => rw [hr] at ho; cases ho
      · rename_i e ho
        refine syncret_desc s t f hlive _ _ ?_ ⟨fun d hd => hd, Or.inr ⟨e, rfl, rfl⟩⟩
        cases hr : s.raising with
        | none => rw [hr] at ho; exact Or.inl ho
        | some e0 =>
          rw [hr] at ho
          injection ho with ho; injection ho with ho
          right; rw [← ho, (hraise e0 hr).1]; exact ⟨rfl, (hraise e0 hr).2⟩
    · -- withCtx
      refine .of (.same (B.trans ?_ (b_updTaskL _ t _ rfl)) (.live hlive))
      refine b_ite_right (fun x => x.ctxResumeOne s.ctxs.length) ?_ (b_ctxResumeOne _ _)
      have b0 : ∀ s0 : State, B (parL t) s s0 → B (parL t) s
          (match (State.emit s0 (.ctxN s.ctxs.length t ‹CtxKind›)).active with
          | some a => State.updTask { (State.emit s0 (.ctxN s.ctxs.length t ‹CtxKind›)) with
              ctxs := (State.emit s0 (.ctxN s.ctxs.length t ‹CtxKind›)).ctxs ++
                [({ kind := ‹CtxKind›, owner := (State.emit s0 (.ctxN s.ctxs.length t ‹CtxKind›)).active } : CtxSt)] } a
              fun ts => { ts with ctxs := ts.ctxs ++ [s.ctxs.length] }
          | none => { (State.emit s0 (.ctxN s.ctxs.length t ‹CtxKind›)) with
              ctxs := (State.emit s0 (.ctxN s.ctxs.length t ‹CtxKind›)).ctxs ++
                [({ kind := ‹CtxKind›, owner := (State.emit s0 (.ctxN s.ctxs.length t ‹CtxKind›)).active } : CtxSt)] }) := by
        intro s0 h0
        have h1 := (h0.trans (b_emit s0 (.ctxN s.ctxs.length t ‹CtxKind›) rfl)).trans
          (B.of_eq (s' := { (State.emit s0 (.ctxN s.ctxs.length t ‹CtxKind›)) with
              ctxs := (State.emit s0 (.ctxN s.ctxs.length t ‹CtxKind›)).ctxs ++
                [({ kind := ‹CtxKind›, owner := (State.emit s0 (.ctxN s.ctxs.length t ‹CtxKind›)).active } : CtxSt)] })
            rfl rfl rfl rfl rfl rfl rfl)
        split
        · exact h1.trans (b_updTask _ _ _)
        · exact h1
      refine b0 _ ?_
      split
      · exact b_svTouch _ _
      · exact B.refl _
    · -- endwith
      split
      · exact .of (finishTask_desc s t old _ hk (fun e h => by cases h))
      · exact .of (.same ((b_ctxExit s _).trans (b_updTaskL _ t _ rfl)) (.live hlive))
    · -- read
      exact .of (.same (((b_svTouch s _).trans (b_emit _ _ rfl)).trans (b_updTaskL _ t _ rfl)) (.live hlive))
    · exact .of (.same ((b_emit _ _ rfl).trans (b_updTaskL _ t _ rfl)) (.live hlive))

/-! ### the transition function -/

theorem raise_desc (s : State) (hr : s.raising.isSome = true) : Desc s (s.raiseOutOfWait (s.raising.getD .other)) := by
  refine .mk' (B.refl s) .triv rfl rfl (stack_of_eq rfl) (ctl_of_tail rfl) (fun e he => Or.inl ?_)
  cases h : s.raising with
  | none => rw [h] at hr; cases hr
  | some e0 =>
    have he' : some (s.raising.getD .other) = some e := he
    rw [h] at he'; exact he'

theorem step_desc (s : State) (hi : ItemsOk s) (hgk : ∀ t ∈ gens s.ctl, (s.fut t).kind = .task)
    (hlive : ∀ t ∈ gens s.ctl, s.out t = none) (hact : s.ctl = [] → s.active = none)
    (hraise : ∀ e, s.raising = some e → e = .stackguard ∧ s.guardFired = true) (htr : ∀ x, Tracked s x → Awaited x s.trace)
    (hly : ∀ t ∈ gens s.ctl, (s.task t).pending = true → (s.task t).started = true →
      (∃ i, Event.yield t i (s.task t).lastY ∈ s.trace) ∧ ∀ f ∈ (s.task t).lastY.leaves, s.computed f = true) :
    StepOk s (step s) := by
  unfold step
  split
  · exact .of (Desc.refl _)
  · split
    · rename_i hctl
      split
      · -- the outermost call returns
        refine ⟨{ s with raising := none, curTop := none }, ⟨rfl, rfl, tracked_of_eq rfl rfl rfl, Or.inr rfl, rfl⟩, ?_⟩
        unfold State.finishTop
        simp only []
        exact .same (((b_emit _ _ rfl).trans (b_emit _ _ rfl)).trans (b_emit _ _ rfl)) .triv
      · split
        · exact .of (Desc.refl _)
        · -- a top-level computation starts
          simp only []
          rename_i conv body rest' _
          have b : B {} s (State.newTask (State.emit { s with tops := rest', topIdx := s.topIdx + 1 }
              (.top s.topIdx conv)) body []).1 :=
            ((B.of_eq (s := s) (s' := { s with tops := rest', topIdx := s.topIdx + 1 }) rfl rfl rfl rfl rfl rfl rfl).trans
              (b_emit _ _ rfl)).trans (b_newTask _ _ _)
          refine .of (.mk' b .triv rfl rfl (stack_of_eq b.stack) ?_ (raising_of_eq b.raising))
          intro c hc
          have hc' : c = .waitEnter s.futs.length := by simpa using hc
          subst hc'
          refine Or.inr (Or.inr ⟨[], s.topIdx, conv, s.trace, ?_⟩)
          show Event.new s.futs.length (.task s.active) :: Event.top s.topIdx conv :: s.trace = _
          rw [hact hctl]; rfl
    · rename_i root rest hctl
      split
      · rename_i hr
        exact .of (raise_desc s hr)
      · split
        · exact .of (.mk' (B.refl s) .triv rfl rfl (stack_of_eq rfl) (ctl_of_tail rfl) (raising_of_eq rfl))
        · refine .of (.mk' (B.refl s) .triv rfl rfl ?_ (ctl_of_swap hctl rfl rfl) (raising_of_eq rfl))
          intro x hx
          have hx' : x ∈ root :: s.stack := hx
          rcases List.mem_cons.1 hx' with h | h
          · exact Or.inl (Or.inr (Or.inl ⟨.waitEnter root, by rw [hctl]; simp, h.symm⟩))
          · exact Or.inl (Or.inl h)
    · rename_i root base rest hctl
      split
      · rename_i hr
        exact .of (raise_desc s hr)
      · split
        · exact .of (executeIter_desc s)
        · split
          · exact .of (.mk' (B.refl s) .triv rfl rfl (stack_of_eq rfl) (ctl_of_tail rfl) (raising_of_eq rfl))
          · exact schedulerFlush_desc s root base rest hctl hi
    · rename_i t old rest hctl
      have hm : t ∈ gens s.ctl := by rw [hctl]; simp [gens]
      have haw := htr t (Or.inr (Or.inl ⟨.gen t old, by rw [hctl]; simp, rfl⟩))
      repeat' split
      all_goals first
        | exact .of (.same (b_fail _ _) .triv)
        | exact genStep_desc s t old (hgk t hm) (hlive t hm) hi hraise haw (hly t hm)

/-! ### both invariants hold in every reachable state -/

theorem linv_init (cfg : Cfg) (tops : List (Conv × Body)) (choices : List (Nat × Nat)) :
    LInv (initState cfg tops choices) := by
  refine ⟨fun l1 l2 t dc r h => ?_, fun x hx => ?_⟩
  · have : (initState cfg tops choices).trace = [] := rfl
    rw [this] at h
    cases l1 <;> cases h
  · exfalso
    rcases hx with hx | ⟨c, hc, _⟩ | ⟨t, hx⟩
    · cases hx
    · cases hc
    · rw [show (initState cfg tops choices).task t = {} from by simp [State.task, fut_init]] at hx
      cases hx

theorem einv_init (cfg : Cfg) (tops : List (Conv × Body)) (choices : List (Nat × Nat)) :
    EInv (initState cfg tops choices) := by
  refine ⟨fun t e hk _ => ?_, fun t e hc => ?_, fun t f o hm => ?_, fun e he => ?_⟩
  · rw [fut_init] at hk; cases hk
  · rw [show (initState cfg tops choices).task t = {} from by simp [State.task, fut_init]] at hc
    cases hc
  · cases hm
  · cases he

/-- a running generator that is about to be resumed: its last yield is in the trace and everything it yielded is
    computed (from the P2 invariant) -/
theorem pinv_lastYield {s : State} (inv : PInv s) : ∀ t ∈ gens s.ctl, (s.task t).pending = true →
    (s.task t).started = true →
    (∃ i, Event.yield t i (s.task t).lastY ∈ s.trace) ∧ ∀ f ∈ (s.task t).lastY.leaves, s.computed f = true := by
  intro t ht hp hs
  refine ⟨⟨_, List.mem_of_find?_eq_some (inv.lastYield t hp hs)⟩, fun f hf => ?_⟩
  exact inv.gnb t ht f (inv.leaves t hp hs f hf)

/-- the hypotheses of `step_desc` hold in every reachable state -/
theorem step_desc_reach {s : State} (hr : Reach s) (hraise : ∀ e, s.raising = some e → e = .stackguard ∧ s.guardFired = true)
    (htr : ∀ x, Tracked s x → Awaited x s.trace) : StepOk s (step s) := by
  have inv := pinv_reach hr
  exact step_desc s inv.items inv.genKind inv.live
    (fun hc => by
      cases ha : s.active with
      | none => rfl
      | some a => have := inv.actIn a ha; rw [hc] at this; simp [gens] at this)
    hraise htr (pinv_lastYield inv)

theorem inv_reach {s : State} (h : Reach s) : LInv s ∧ EInv s := by
  induction h with
  | init cfg tops choices => exact ⟨linv_init _ _ _, einv_init _ _ _⟩
  | @step s hr ih =>
    obtain ⟨s0, q, d⟩ := step_desc_reach hr ih.2.raising ih.1.tracked
    exact ⟨linv_desc (linv_pre ih.1 q) d, einv_desc (einv_pre ih.2 q) d⟩

end AsynqModel.Core.P11
