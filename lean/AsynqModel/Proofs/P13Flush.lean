import AsynqModel.Proofs.P13Rel
/-!
  P13, part 4: the batch table and `flushBatch` (`BatchBase.flush()`): the observer accepts the events of a flush body
  - `flushI`, the `done` events of the items (each inside its own flush, with the answer `itemOutcome`), `bdone` with no
  item left pending - both when the flush is called by `item.value()` (no scheduler flush open) and inside a scheduler
  flush of the same batch.
-/
namespace AsynqModel.Core.P13
open AsynqModel.Core AsynqModel.Core.Spec AsynqModel.Core.P1

/-! ### changes of the batch table -/

theorem op_batches {c x} {y z : State} (hf : z.futs = y.futs) (ht : z.trace = y.trace) (hc : z.cfg = y.cfg)
    (hctl : z.ctl = y.ctl) (htop : z.curTop = y.curTop)
    (hitems : LI c y → ∀ b ∈ z.batches, ∀ i ∈ b.items,
      i < y.futs.length ∧ ∃ p m, (y.fut i).kind = .item b.kind b.seq p m)
    (hfl : ∀ k q b, y.batch? k q = some b → b.flushed = true → ∃ b', z.batch? k q = some b' ∧ b'.flushed = true) :
    Op c x y z :=
  ⟨Nat.le_of_eq (by rw [hf]), fun f _ => by rw [fut_of_futs hf],
   fun t _ _ => by rw [task_of_futs hf]; exact ⟨rfl, id⟩, hctl, htop,
   fun h => ⟨h.batches ht hf hc (hitems h) hfl, by simp only [W, ht]⟩⟩

namespace T
variable {c : Ctx} {x : Option Nat} {g : List (Nat × Nat) → List (Nat × Nat)} {s y : State} {ctl' : List Ctl}

/-- a fresh, empty batch is appended -/
theorem appendBatch (h : T c x g s y ctl') (b0 : Batch) (hb0 : b0.items = []) :
    T c x g s { y with batches := y.batches ++ [b0] } ctl' := by
  refine h.op (op_batches rfl rfl rfl rfl rfl ?_ ?_)
  · intro hy b hb i hi
    rcases List.mem_append.1 hb with hb | hb
    · exact hy.base.items b hb i hi
    · simp only [List.mem_singleton] at hb
      subst hb
      rw [hb0] at hi
      cases hi
  · intro k q b hb hfl
    exact ⟨b, batch?_append_some y b0 b k q hb, hfl⟩

theorem switchActive (h : T c x g s y ctl') (k q : Nat) : T c x g s (y.switchActive k q) ctl' := by
  unfold State.switchActive
  split
  · split
    · exact h.appendBatch _ rfl
    · exact h
  · exact h

/-- an allocated item future joins its batch -/
theorem addItem (h : T c x g s y ctl') (k q f p : Nat) (m : ItemMode) (hf : f < y.futs.length)
    (hk : (y.fut f).kind = .item k q p m) :
    T c x g s (y.updBatch k q fun b => { b with items := b.items ++ [f] }) ctl' := by
  refine h.op (op_batches rfl rfl rfl rfl rfl ?_ ?_)
  · intro hy b hb i hi
    simp only [State.updBatch, List.mem_map] at hb
    obtain ⟨b0, hb0, rfl⟩ := hb
    split at hi
    · next hkey =>
      simp only [Bool.and_eq_true, beq_iff_eq] at hkey
      rcases List.mem_append.1 hi with hi | hi
      · simpa [hkey] using hy.base.items b0 hb0 i hi
      · simp only [List.mem_singleton] at hi
        subst hi
        simp only [hkey, if_true, Bool.and_self, beq_self_eq_true]
        exact ⟨hf, p, m, by rw [hk]⟩
    · next hkey =>
      simp only [hkey]
      exact hy.base.items b0 hb0 i hi
  · intro k' q' b hb hfl
    rw [batch?_updBatch y k q (fun b => { b with items := b.items ++ [f] }) (fun _ => ⟨rfl, rfl⟩)]
    split
    · next hkey =>
      obtain ⟨rfl, rfl⟩ := hkey
      rw [hb]
      exact ⟨_, rfl, hfl⟩
    · exact ⟨b, hb, hfl⟩

end T

/-! ### inside a flush body -/

/-- the observer relation while the flush body of batch `(k, q)` with items `its` runs: `fbl` and `sv` are the
    observer's flushed batches and sync stack / top root, which the body does not change -/
structure Mid (c : Ctx) (k q : Nat) (its : List Nat) (m : Option (Nat × Nat × List Nat × Bool × Bool))
    (fbl : List (Nat × Nat)) (sv : List (Nat × Nat) × Option Nat) (s : State) : Prop where
  acc : Acc checkC05 c s.trace
  base : Base c s
  cb : (W s).curBody = some (k, q, its)
  inf : (W s).inFlush = m
  fbl : (W s).flushedB = fbl
  sv : sview (W s) = sv

theorem Mid.complete {c k q its m fbl sv} {s : State} (h : Mid c k q its m fbl sv s) (i p : Nat) (mo : ItemMode)
    (o : Outcome) (hc : s.computed i = false) (hl : i < s.futs.length) (hk : (s.fut i).kind = .item k q p mo)
    (ho : o = itemOutcome c.cfg k p mo) : Mid c k q its m fbl sv (s.complete i o) := by
  refine ⟨⟨h.acc, ?_⟩, h.base.complete i o hl, h.cb, h.inf, h.fbl, h.sv⟩
  show checkC05 c (W s) (.done i o) = none
  have hd : (W s).isDone i = false := by rw [h.base.outs]; exact hc
  simp only [checkC05, hd, Bool.false_eq_true, if_false]
  cases hlk : (W s).kinds.lookup i with
  | none => rfl
  | some nk =>
    cases nk with
    | item k' q' idx p' m' =>
      have := (h.base.kinds i k' q' idx p' m' hlk).2
      rw [hk] at this
      injection this with e1 e2 e3 e4
      subst e1; subst e2; subst e3; subst e4
      simp [h.cb, ho]
    | _ => rfl

theorem itemOutcome_unset (cfg : Cfg) (k p : Nat) : itemOutcome cfg k p .unset = .err (flushErr cfg k) := by
  simp only [itemOutcome, flushErr]
  split <;> rfl

theorem Mid.flushOne {c k q its m fbl sv} {s : State} (h : Mid c k q its m fbl sv s) (i : Nat)
    (hl : i < s.futs.length) (hk : ∃ p mo, (s.fut i).kind = .item k q p mo) :
    Mid c k q its m fbl sv (flushOne s k i) := by
  obtain ⟨p, mo, hk⟩ := hk
  unfold P1.flushOne
  split
  · exact h
  · next hc =>
    have hc' : s.computed i = false := by simpa using hc
    split
    · next k' q' p' heq =>
      rw [hk] at heq
      injection heq with e1 e2 e3 e4
      subst e1; subst e2; subst e3; subst e4
      exact h.complete i p .ok _ hc' hl hk rfl
    · next k' q' p' e heq =>
      rw [hk] at heq
      injection heq with e1 e2 e3 e4
      subst e1; subst e2; subst e3; subst e4
      exact h.complete i p (.err e) _ hc' hl hk rfl
    · exact h

theorem Mid.flushItems {c k q its m fbl sv} (l : List Nat) : ∀ {s : State}, Mid c k q its m fbl sv s →
    (∀ i ∈ l, i < s.futs.length ∧ ∃ p mo, (s.fut i).kind = .item k q p mo) →
    Mid c k q its m fbl sv (s.flushItems k l) := by
  induction l with
  | nil => intro s h _; exact h
  | cons i is ih =>
    intro s h hl
    rw [flushItems_cons]
    refine ih (h.flushOne i (hl i List.mem_cons_self).1 (hl i List.mem_cons_self).2) ?_
    intro j hj
    simpa using hl j (List.mem_cons_of_mem _ hj)

theorem finishOne_kind (s : State) (e : Err) (i g : Nat) : ((finishOne s e i).fut g).kind = (s.fut g).kind := by
  unfold P1.finishOne
  split
  · rfl
  · simp

theorem finishItems_kind (e : Err) (l : List Nat) : ∀ (s : State) (g : Nat),
    ((s.finishItems e l).fut g).kind = (s.fut g).kind := by
  induction l with
  | nil => intro s g; rfl
  | cons i is ih => intro s g; rw [finishItems_cons, ih, finishOne_kind]

theorem finishOne_computed_false (s : State) (e : Err) (i g : Nat) (h : (finishOne s e i).computed g = false) :
    s.computed g = false := by
  cases ho : s.out g with
  | none => simp [State.computed, ho]
  | some o =>
    have : (finishOne s e i).out g = some o := by
      unfold P1.finishOne
      split
      · exact ho
      · next hc => exact out_complete_stable s i _ (by simpa using hc) g o ho
    simp [State.computed, this] at h

theorem Mid.finishItems {c k q its m fbl sv} (l : List Nat) : ∀ {s : State}, Mid c k q its m fbl sv s →
    (∀ i ∈ l, i < s.futs.length ∧ (s.computed i = false → ∃ p, (s.fut i).kind = .item k q p .unset)) →
    Mid c k q its m fbl sv (s.finishItems (flushErr c.cfg k) l) := by
  induction l with
  | nil => intro s h _; exact h
  | cons i is ih =>
    intro s h hl
    rw [finishItems_cons]
    have h1 : Mid c k q its m fbl sv (finishOne s (flushErr c.cfg k) i) := by
      unfold P1.finishOne
      split
      · exact h
      · next hc =>
        have hc' : s.computed i = false := by simpa using hc
        obtain ⟨hlt, hu⟩ := hl i List.mem_cons_self
        obtain ⟨p, hk⟩ := hu hc'
        exact h.complete i p .unset _ hc' hlt hk (itemOutcome_unset c.cfg k p).symm
    refine ih h1 ?_
    intro j hj
    obtain ⟨hlt, hu⟩ := hl j (List.mem_cons_of_mem _ hj)
    refine ⟨by simpa using hlt, fun hcj => ?_⟩
    obtain ⟨p, hk⟩ := hu (finishOne_computed_false s _ i j hcj)
    exact ⟨p, by rw [finishOne_kind]; exact hk⟩

/-! ### the whole flush -/

theorem key_of_batch? {s : State} {k q : Nat} {b : Batch} (h : s.batch? k q = some b) : b.kind = k ∧ b.seq = q := by
  have := List.find?_some h
  simpa using this

/-- what a flush of batch `(k, q)` does to the observer's open scheduler flush -/
def flushedMode (k q : Nat) (items : List Nat) : Option (Nat × Nat × List Nat × Bool × Bool) →
    Option (Nat × Nat × List Nat × Bool × Bool)
  | none => none
  | some _ => some (k, q, items, true, true)

theorem lf_appendBatch {c : Ctx} {m} {s : State} (h : LF c m s) (b0 : Batch) (hb0 : b0.items = []) :
    LF c m { s with batches := s.batches ++ [b0] } := by
  refine h.batches rfl rfl rfl ?_ ?_
  · intro b hb i hi
    rcases List.mem_append.1 hb with hb | hb
    · exact h.base.items b hb i hi
    · simp only [List.mem_singleton] at hb
      subst hb
      rw [hb0] at hi
      cases hi
  · intro k q b hb hfl
    exact ⟨b, batch?_append_some s b0 b k q hb, hfl⟩

theorem lf_switchActive {c : Ctx} {m} {s : State} (h : LF c m s) (k q : Nat) : LF c m (s.switchActive k q) := by
  unfold State.switchActive
  split
  · split
    · exact lf_appendBatch h _ rfl
    · exact h
  · exact h

/-- the observer's open scheduler flush after the flush body of `(k, q)` has started -/
def startedMode (k q : Nat) (items : List Nat) : Option (Nat × Nat × List Nat × Bool × Bool) →
    Option (Nat × Nat × List Nat × Bool × Bool)
  | none => none
  | some _ => some (k, q, items, true, false)

/-- the flush body starts: `flushI` is accepted -/
theorem mid_start {c : Ctx} {m} {s : State} {k q : Nat} {b : Batch} (h : LF c m s)
    (hb : s.batch? k q = some b) (hf : b.flushed = false)
    (hm : m = none ∨ m = some (k, q, b.items, false, false)) :
    Mid c k q b.items (startedMode k q b.items m) ((k, q) :: (W s).flushedB) (sview (W s))
      ((s.switchActive k q).emit (.flushI k q b.items)) := by
  have hnf : (W s).flushedB.contains (k, q) = false := by
    cases hc : (W s).flushedB.contains (k, q) with
    | false => rfl
    | true =>
      obtain ⟨b', hb1, hb2⟩ := h.fb k q (by simpa using hc)
      rw [hb] at hb1
      cases hb1
      rw [hf] at hb2
      cases hb2
  have h1 := lf_switchActive h k q
  have hw : W (s.switchActive k q) = W s := by simp only [W, trace_switchActive]
  refine ⟨⟨h1.acc, ?_⟩, ?_, ?_, ?_, ?_, ?_⟩
  · rw [show obs (s.switchActive k q).trace = W s from hw]
    simp only [checkC05, hnf, Bool.false_eq_true, if_false, h.inf]
    rcases hm with rfl | rfl <;> simp
  · exact h1.base.transport' rfl rfl rfl rfl (fun _ => rfl) (fun _ => rfl) rfl rfl
  · show (watchEvent (W (s.switchActive k q)) (.flushI k q b.items)).curBody = _
    rfl
  · show (watchEvent (W (s.switchActive k q)) (.flushI k q b.items)).inFlush = _
    rw [hw]
    show Option.map _ (W s).inFlush = _
    rw [h.inf]
    rcases hm with rfl | rfl <;> simp [startedMode]
  · show (k, q) :: (W (s.switchActive k q)).flushedB = _
    rw [hw]
  · show sview (W (s.switchActive k q)) = _
    rw [hw]

theorem Base.of_items {c : Ctx} {s s' : State} (h : Base c s) (h1 : (W s').kinds = (W s).kinds)
    (h2 : (W s').outs = (W s).outs) (h6 : (W s').expectRoot = (W s).expectRoot) (hf : s'.futs = s.futs)
    (hc : s'.cfg = s.cfg)
    (hitems : ∀ b ∈ s'.batches, ∀ i ∈ b.items, i < s.futs.length ∧ ∃ p m, (s.fut i).kind = .item b.kind b.seq p m) :
    Base c s' := by
  have hfut : ∀ f, s'.fut f = s.fut f := fut_of_futs hf
  refine ⟨?_, ?_, hc.trans h.cfg, h6.trans h.xr, ?_⟩
  · intro f
    simp only [Watch.isDone, h2]
    rw [show s'.computed f = s.computed f by simp [State.computed, State.out, hfut]]
    exact h.outs f
  · intro f k q idx p m hl
    rw [h1] at hl
    rw [hf, hfut]
    exact h.kinds f k q idx p m hl
  · intro b hbm i hi
    rw [hf, hfut]
    exact hitems b hbm i hi

theorem lf_flushBatch {c : Ctx} {m} {s : State} {k q : Nat} {b : Batch} (h : LF c m s)
    (hb : s.batch? k q = some b) (hf : b.flushed = false)
    (hm : m = none ∨ m = some (k, q, b.items, false, false)) :
    LF c (flushedMode k q b.items m) (s.flushBatch k q) ∧ sview (W (s.flushBatch k q)) = sview (W s) := by
  obtain ⟨hbk, hbq⟩ := key_of_batch? hb
  have hbm : b ∈ s.batches := mem_of_batch? hb
  have hcfg : s.cfg = c.cfg := h.base.cfg
  have hit : ∀ i ∈ b.items, i < s.futs.length ∧ ∃ p mo, (s.fut i).kind = .item k q p mo := by
    intro i hi
    have := h.base.items b hbm i hi
    rw [hbk, hbq] at this
    exact this
  have h2 := mid_start h hb hf hm
  have h3 := h2.flushItems b.items (by
    intro i hi
    simpa using hit i hi)
  have h4 := h3.finishItems b.items (by
    intro i hi
    obtain ⟨hlt, p, mo, hk⟩ := hit i hi
    refine ⟨by simpa using hlt, fun hc => ?_⟩
    cases mo with
    | unset => exact ⟨p, by simpa using hk⟩
    | ok =>
      exfalso
      cases ho : ((s.switchActive k q).emit (.flushI k q b.items)).out i with
      | none =>
        have := flushItems_out_item c.cfg k b.items _ i k q p .ok hi ho (by simpa using hlt) (by simpa using hk)
          (by intro e; cases e)
        simp [State.computed, this] at hc
      | some o =>
        have := flushItems_out_stable k b.items _ i o ho
        simp [State.computed, this] at hc
    | err e =>
      exfalso
      cases ho : ((s.switchActive k q).emit (.flushI k q b.items)).out i with
      | none =>
        have := flushItems_out_item c.cfg k b.items _ i k q p (.err e) hi ho (by simpa using hlt) (by simpa using hk)
          (by intro e; cases e)
        simp [State.computed, this] at hc
      | some o =>
        have := flushItems_out_stable k b.items _ i o ho
        simp [State.computed, this] at hc)
  have hself := flushBatch_batch?_self s k q b hb
  have hother := flushBatch_batch?_other s k q
  rw [flushBatch_eq s k q b hb] at hself hother ⊢
  rw [hcfg] at hself hother ⊢
  have hdone : ∀ i ∈ b.items, (W ((((s.switchActive k q).emit (.flushI k q b.items)).flushItems k b.items).finishItems
      (flushErr c.cfg k) b.items)).isDone i = true := by
    intro i hi
    rw [h4.base.outs]
    exact finishItems_computed _ _ _ i hi (by simpa using (hit i hi).1)
  refine ⟨⟨⟨h4.acc, ?_⟩, ?_, ?_, rfl, ?_⟩, ?_⟩
  · -- `bdone` is accepted
    simp only [checkC05, h4.cb, bne_self_eq_false, Bool.false_eq_true, if_false]
    have : (b.items.any fun i => !(W ((((s.switchActive k q).emit (.flushI k q b.items)).flushItems k b.items).finishItems
        (flushErr c.cfg k) b.items)).isDone i) = false := by
      rw [List.any_eq_false]
      intro i hi
      simp [hdone i hi]
    simp [this]
  · refine h4.base.of_items rfl rfl rfl rfl rfl ?_
    intro b' hb' i hi
    simp only [State.updBatch, batches_emit, finishItems_batches, flushItems_batches, List.mem_map] at hb'
    obtain ⟨b0, hb0, rfl⟩ := hb'
    have hb0' : b0 ∈ (s.switchActive k q).batches := hb0
    have key : ∀ i ∈ b0.items, i < s.futs.length ∧ ∃ p m, (s.fut i).kind = .item b0.kind b0.seq p m := by
      intro i hi
      exact (lf_switchActive h k q).base.items b0 hb0' i (by simpa using hi) |> fun ⟨a, b⟩ => ⟨by simpa using a, by simpa using b⟩
    have hlen : ∀ i, i < s.futs.length → i < ((((s.switchActive k q).emit (.flushI k q b.items)).flushItems k b.items).finishItems
        (flushErr c.cfg k) b.items).futs.length := fun i hi => by simpa using hi
    have hkey : (if (b0.kind == k && b0.seq == q) = true then flushUpd c.cfg b0 else b0).kind = b0.kind ∧
        (if (b0.kind == k && b0.seq == q) = true then flushUpd c.cfg b0 else b0).seq = b0.seq := by
      split <;> exact ⟨rfl, rfl⟩
    have hi' : i ∈ b0.items := by
      split at hi
      · exact flushUpd_items c.cfg b0 i hi
      · exact hi
    have := key i hi'
    refine ⟨hlen i this.1, ?_⟩
    obtain ⟨p, m', hk⟩ := this.2
    refine ⟨p, m', ?_⟩
    rw [hkey.1, hkey.2, finishItems_kind]
    simpa using hk
  · intro k' q' hmem
    have hfb : (W ((((((s.switchActive k q).emit (.flushI k q b.items)).flushItems k b.items).finishItems
        (flushErr c.cfg k) b.items).emit (.bdone k q (!(c.cfg.kind k).raises))).updBatch k q (flushUpd c.cfg))).flushedB =
        (k, q) :: (W s).flushedB := h4.fbl
    rw [hfb] at hmem
    by_cases hkq : k' = k ∧ q' = q
    · obtain ⟨rfl, rfl⟩ := hkq
      exact ⟨_, hself, rfl⟩
    · rcases List.mem_cons.1 hmem with e | hmem
      · injection e with e1 e2
        exact absurd ⟨e1, e2⟩ hkq
      · obtain ⟨b', hb1, hb2⟩ := h.fb k' q' hmem
        exact ⟨b', hother k' q' b' hkq hb1, hb2⟩
  · show Option.map _ (W _).inFlush = _
    rw [h4.inf]
    rcases hm with rfl | rfl <;> simp [startedMode, flushedMode]
  · exact h4.sv

/-! ### a flush does not touch task bodies -/

/-- body and suspension flag of every task are the same -/
def BP (s s' : State) : Prop :=
  ∀ t, (s'.task t).body = (s.task t).body ∧ (s'.task t).pending = (s.task t).pending

theorem BP.refl (s : State) : BP s s := fun _ => ⟨rfl, rfl⟩
theorem BP.trans {a b c : State} (h1 : BP a b) (h2 : BP b c) : BP a c :=
  fun t => ⟨(h2 t).1.trans (h1 t).1, (h2 t).2.trans (h1 t).2⟩
theorem BP.of_futs {s s' : State} (h : s'.futs = s.futs) : BP s s' := fun t => by rw [task_of_futs h]; exact ⟨rfl, rfl⟩
theorem BP.complete (s : State) (f : Nat) (o : Outcome) : BP s (s.complete f o) := fun t => task_complete s f o t

theorem BP.flushItems (k : Nat) (l : List Nat) : ∀ s : State, BP s (s.flushItems k l) := by
  induction l with
  | nil => intro s; exact BP.refl s
  | cons i is ih =>
    intro s
    rw [flushItems_cons]
    refine BP.trans ?_ (ih _)
    unfold P1.flushOne
    split
    · exact BP.refl s
    · split
      · exact BP.complete _ _ _
      · exact BP.complete _ _ _
      · exact BP.refl s

theorem BP.finishItems (e : Err) (l : List Nat) : ∀ s : State, BP s (s.finishItems e l) := by
  induction l with
  | nil => intro s; exact BP.refl s
  | cons i is ih =>
    intro s
    rw [finishItems_cons]
    refine BP.trans ?_ (ih _)
    unfold P1.finishOne
    split
    · exact BP.refl s
    · exact BP.complete _ _ _

theorem BP.flushBatch (s : State) (k q : Nat) : BP s (s.flushBatch k q) := by
  cases h : s.batch? k q with
  | none => rw [flushBatch_none s k q h]; exact BP.refl s
  | some b =>
    rw [flushBatch_eq s k q b h]
    refine BP.trans (b := (((s.switchActive k q).emit (.flushI k q b.items)).flushItems k b.items).finishItems
      (flushErr s.cfg k) b.items) ?_ (BP.of_futs rfl)
    refine BP.trans ?_ (BP.finishItems _ _ _)
    refine BP.trans ?_ (BP.flushItems _ _ _)
    exact BP.of_futs (by simp)

theorem ctl_flushBatch (s : State) (k q : Nat) : (s.flushBatch k q).ctl = s.ctl ∧ (s.flushBatch k q).curTop = s.curTop := by
  have hI : ∀ (l : List Nat) (x : State), (x.flushItems k l).ctl = x.ctl ∧ (x.flushItems k l).curTop = x.curTop := by
    intro l
    induction l with
    | nil => intro x; exact ⟨rfl, rfl⟩
    | cons i is ih =>
      intro x
      rw [flushItems_cons]
      refine ⟨(ih _).1.trans ?_, (ih _).2.trans ?_⟩ <;>
      · unfold P1.flushOne
        split
        · rfl
        · split <;> rfl
  have hF : ∀ (e : Err) (l : List Nat) (x : State), (x.finishItems e l).ctl = x.ctl ∧ (x.finishItems e l).curTop = x.curTop := by
    intro e l
    induction l with
    | nil => intro x; exact ⟨rfl, rfl⟩
    | cons i is ih =>
      intro x
      rw [finishItems_cons]
      refine ⟨(ih _).1.trans ?_, (ih _).2.trans ?_⟩ <;>
      · unfold P1.finishOne
        split <;> rfl
  have hS : (s.switchActive k q).ctl = s.ctl ∧ (s.switchActive k q).curTop = s.curTop := by
    unfold State.switchActive
    split
    · split <;> exact ⟨rfl, rfl⟩
    · exact ⟨rfl, rfl⟩
  cases h : s.batch? k q with
  | none => rw [flushBatch_none s k q h]; exact ⟨rfl, rfl⟩
  | some b =>
    rw [flushBatch_eq s k q b h]
    show (State.finishItems _ _ _).ctl = _ ∧ (State.finishItems _ _ _).curTop = _
    rw [(hF _ _ _).1, (hF _ _ _).2, (hI _ _).1, (hI _ _).2]
    exact hS

/-- `BatchBase.flush()` called by `item.value()`: no scheduler flush is open -/
theorem T.flushBatch {c : Ctx} {x : Option Nat} {g : List (Nat × Nat) → List (Nat × Nat)} {s y : State}
    {ctl' : List Ctl} (h : T c x g s y ctl') (k q : Nat) (b : Batch) (hb : y.batch? k q = some b)
    (hf : b.flushed = false) : T c x g s (y.flushBatch k q) ctl' := by
  refine h.op ⟨by simp, fun f _ => by simp, ?_, (ctl_flushBatch y k q).1, (ctl_flushBatch y k q).2, ?_⟩
  · intro t _ _
    have := BP.flushBatch y k q t
    exact ⟨this.1, fun hp => by rw [this.2]; exact hp⟩
  · intro hy
    exact lf_flushBatch hy hb hf (Or.inl rfl)

end AsynqModel.Core.P13
