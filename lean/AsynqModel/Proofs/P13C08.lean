import AsynqModel.Proofs.P13Main
import AsynqModel.Proofs.P3Main
import AsynqModel.Proofs.P3Weak
/-!
  P13, part 8: the observer of C08 (`Spec.checkC08`) on the traces of the machine.  `checkC08` does not look at the
  observer state, so acceptance is a statement about the single events of the trace: `active t seen` has
  `seen = some t` (P3, needs `guardFired = false`), `sched same n _ live a` has `same`, `n = 0`, `a = none` (P3, always)
  and no `bad` event occurs (`P13.no_bad`).  The clause `live ≠ 0 → "scheduler-retains-pending-batch"` is the only one
  without a theorem about the machine: `checkC08r` is `checkC08` without it.
-/
namespace AsynqModel.Core.P13
open AsynqModel.Core AsynqModel.Core.Spec

/-- `Spec.checkC08` without the clause "scheduler-retains-pending-batch" -/
def checkC08r (c : Ctx) (w : Watch) : Event → Option String
  | .sched same n _ _ a =>
    if !same then some "scheduler-replaced"
    else if n != 0 then some "scheduler-retains-tasks"
    else if a != none then some "active-task-not-cleared"
    else none
  | e => checkC08 c w e

theorem c08r_event {s : State} (h : Reach s) (hg : s.guardFired = false) (c : Ctx) (w : Watch) (e : Event)
    (he : e ∈ s.trace) : checkC08r c w e = none := by
  cases e with
  | active t seen =>
    have := (P3.reach_core s h hg).2 (.active t seen) he
    have hs : seen = some t := this
    subst hs
    simp [checkC08r, checkC08]
  | sched same n nb live a =>
    obtain ⟨h1, h2, h3⟩ : same = true ∧ n = 0 ∧ a = none := (P3.reach_weak s h).2 (.sched same n nb live a) he
    subst h1; subst h2; subst h3
    rfl
  | bad m => exact absurd he (no_bad h m)
  | _ => rfl

theorem c08_event {s : State} (h : Reach s) (hg : s.guardFired = false)
    (hlive : ∀ same n nb live a, Event.sched same n nb live a ∈ s.trace → live = 0)
    (c : Ctx) (w : Watch) (e : Event) (he : e ∈ s.trace) : checkC08 c w e = none := by
  cases e with
  | sched same n nb live a =>
    obtain ⟨h1, h2, h3⟩ : same = true ∧ n = 0 ∧ a = none := (P3.reach_weak s h).2 (.sched same n nb live a) he
    have h4 := hlive same n nb live a he
    subst h1; subst h2; subst h3; subst h4
    rfl
  | _ =>
    have := c08r_event h hg c w _ he
    simpa [checkC08r] using this

/-! ### where `sched` events come from -/

theorem not_sched_of_genEv {t a} {e : Event} (h : P3.GenEv t a e) : ∀ same n nb live x, e ≠ .sched same n nb live x := by
  intro same n nb live x he
  subst he
  rcases h with (h | ⟨f, h⟩) | h
  · cases h
  · cases h
  · cases h

theorem sched_of_ext {P : Event → Prop} {s r : State} (h : P3.Ext P s r)
    (hP : ∀ e, P e → ∀ same n nb live x, e ≠ .sched same n nb live x) {same n nb live x}
    (hm : Event.sched same n nb live x ∈ r.trace) : Event.sched same n nb live x ∈ s.trace := by
  obtain ⟨pre, e, hpre⟩ := h
  rw [e] at hm
  rcases List.mem_append.1 hm with hm | hm
  · exact absurd rfl (hP _ (hpre _ hm) same n nb live x)
  · exact hm

/-- a `sched` event is emitted only by the return of an outermost call, and its `live` count is the number of
    scheduled, non-empty, unflushed batches at that moment -/
theorem sched_of_step (s : State) {same n nb live x} (hm : Event.sched same n nb live x ∈ (step s).trace) :
    Event.sched same n nb live x ∈ s.trace ∨
      (s.ctl = [] ∧ (∃ f, s.curTop = some f) ∧ live = s.flushable.length) := by
  have hN : ∀ e, P3.N e → ∀ same n nb live x, e ≠ .sched same n nb live x :=
    fun e h => not_sched_of_genEv (t := 0) (a := none) (P3.N.genEv h)
  have hNew : ∀ a e, P3.NewEv a e → ∀ same n nb live x, e ≠ .sched same n nb live x :=
    fun a e h => not_sched_of_genEv (t := 0) (P3.NewEv.genEv h)
  cases P3.step_shape s with
  | idle h => exact Or.inl (sched_of_ext h.trace hN hm)
  | topStart f hctl h => exact Or.inl (sched_of_ext h.trace (hNew _) hm)
  | raiseEnter root rest hctl hr h => exact Or.inl (sched_of_ext h.trace hN hm)
  | raiseLoop root base rest hctl hr h => exact Or.inl (sched_of_ext h.trace hN hm)
  | popEnter root rest hctl hr h => exact Or.inl (sched_of_ext h.trace hN hm)
  | enterLoop root rest hctl hr h => exact Or.inl (sched_of_ext h.trace hN hm)
  | guard root base rest hctl hr hlen hmax e =>
    rw [e] at hm
    exact Or.inl hm
  | iter root base rest hctl hr hlen st hst h => exact Or.inl (sched_of_ext h.trace hN hm)
  | enterGen root base rest hctl hr t h => exact Or.inl (sched_of_ext h.trace hN hm)
  | popLoop root base rest hctl hr hlen h => exact Or.inl (sched_of_ext h.trace hN hm)
  | flush root base rest hctl hr hlen h => exact Or.inl (sched_of_ext h.trace hN hm)
  | genStay t old rest hctl h => exact Or.inl (sched_of_ext h.trace (fun e => not_sched_of_genEv) hm)
  | genLeave t old rest hctl h => exact Or.inl (sched_of_ext h.trace (fun e => not_sched_of_genEv) hm)
  | genCall t old rest hctl f h => exact Or.inl (sched_of_ext h.trace (fun e => not_sched_of_genEv) hm)
  | finishTop hctl h hr =>
    cases hst : s.stuck with
    | some m =>
      rw [P1.step_stuck s m hst] at hm
      exact Or.inl hm
    | none =>
      cases hcur : s.curTop with
      | some f =>
        have e : step s = s.finishTop f := by
          unfold step
          simp [hst, hctl, hcur]
        rw [e] at hm
        unfold State.finishTop at hm
        simp only [State.emit, List.mem_cons] at hm
        rcases hm with hm | hm | hm | hm
        · cases hm
        · injection hm with _ _ _ h4 _
          exact Or.inr ⟨hctl, ⟨f, rfl⟩, h4⟩
        · cases hm
        · exact Or.inl hm
      | none =>
        cases htops : s.tops with
        | nil =>
          have e : step s = s := by
            unfold step
            simp [hst, hctl, hcur, htops]
          rw [e] at hm
          exact Or.inl hm
        | cons p rest =>
          have e : (step s).trace = .new s.futs.length (.task s.active) :: .top s.topIdx p.1 :: s.trace := by
            unfold step
            simp [hst, hctl, hcur, htops, State.newTask, State.alloc, State.emit]
          rw [e] at hm
          simp only [List.mem_cons] at hm
          rcases hm with hm | hm | hm
          · cases hm
          · cases hm
          · exact Or.inl hm

/-- every scheduler snapshot in the trace reports no scheduled, non-empty, unflushed batch -/
def liveOK (tr : List Event) : Bool :=
  tr.all fun e => match e with
    | .sched _ _ _ live _ => live == 0
    | _ => true

theorem liveOK_iff (tr : List Event) :
    liveOK tr = true ↔ ∀ same n nb live a, Event.sched same n nb live a ∈ tr → live = 0 := by
  simp only [liveOK, List.all_eq_true]
  constructor
  · intro h same n nb live a hm
    simpa using h _ hm
  · intro h e he
    cases e with
    | sched same n nb live a => simpa using h same n nb live a he
    | _ => rfl

/-- the runs in which no scheduled, non-empty, unflushed batch is left whenever an outermost call returns -/
inductive ReachC : State → Prop
  | init (cfg : Cfg) (tops : List (Conv × Body)) (choices : List (Nat × Nat)) : ReachC (initState cfg tops choices)
  | step {s : State} : ReachC s → (s.ctl = [] → s.curTop ≠ none → s.flushable = []) → ReachC (step s)

theorem ReachC.reach {s : State} (h : ReachC s) : Reach s := by
  induction h with
  | init cfg tops choices => exact Reach.init cfg tops choices
  | step _ _ ih => exact Reach.step ih

theorem ReachC.liveOK {s : State} (h : ReachC s) : liveOK s.trace = true := by
  induction h with
  | init cfg tops choices => rfl
  | @step s _ hf ih =>
    rw [liveOK_iff] at ih ⊢
    intro same n nb live a hm
    rcases sched_of_step s hm with h1 | ⟨hctl, ⟨f, hcur⟩, hl⟩
    · exact ih same n nb live a h1
    · rw [hl, hf hctl (by rw [hcur]; simp)]
      rfl

end AsynqModel.Core.P13
