import AsynqModel.Proofs.Batching7
/-! helper lemmas for C11, part 9: what an accepted `fateClause` says about the batch the operation is about -/
namespace AsynqModel.Batching
set_option linter.unusedSimpArgs false

/-- what the observer demands of an operation that has to flush the pending batch `b` (rx = false) -/
structure FlushedOk (pre : St) (b : Nat) (clear : Bool) (post : St) (evs : List Ev) : Prop where
  finished : (post.bout b).isSome
  slot : slotOk pre post (some b) = true
  items : post.bitems b = if clear && !pre.keep then [] else pre.bitems b
  user : pre.kind = .user →
    post.runs b = 1 ∧ evs.head? = some (.body b post.active) ∧ (evs.filter Ev.isBody).length = 1 ∧
    (∃ r, evs.filterMap Ev.bodyEnd? = [(b, r, none)] ∧ post.bout b = some (bodyOutc r)) ∧
    libBeforeEnd evs = false
  debug : pre.kind = .debug →
    evs.any Ev.isBodyEv = false ∧
    (post.bout b = some (.val 0) ∨ (post.bout b = some (.err .already) ∧ alreadyCause pre b evs = true))

/-- what the observer demands of an operation that has to cancel the pending batch `b` with error `x` -/
structure CancelledOk (pre : St) (b : Nat) (x : Err) (post : St) (evs : List Ev) : Prop where
  outcome : post.bout b = some (.err x)
  noBody : post.runs b = 0 ∧ evs.any Ev.isBodyEv = false
  slot : slotOk pre post (some b) = true
  items : post.bitems b = pre.bitems b

theorem flushedOk_of_fateClause {pre : St} {ob : Obs} {b : Nat} {clear : Bool}
    (h : fateClause false pre ob = none) (hf : fate pre ob.op = .flushed b clear) :
    FlushedOk pre b clear ob.post ob.evs := by
  unfold fateClause at h
  rw [firstFail_none] at h
  unfold fateChecks at h
  simp only [hf, List.mem_append, List.mem_cons, List.not_mem_nil, or_false] at h
  have h1 := h (_, "flush-finishes") (Or.inl (Or.inl rfl))
  have h2 := h (_, "fresh-batch") (Or.inl (Or.inr (Or.inl rfl)))
  have h3 := h (_, "keep-dependencies") (Or.inl (Or.inr (Or.inr rfl)))
  have hbody := fun x hx => h x (Or.inr hx)
  refine ⟨h1, h2, by simpa using h3, ?_, ?_⟩
  · intro hk
    unfold bodyChecks at hbody
    simp only [hk, List.mem_cons, List.not_mem_nil, or_false] at hbody
    have r1 := hbody (_, "flush-runs-body-once") (Or.inl rfl)
    have r2 := hbody (_, "flush-runs-body-once") (Or.inr (Or.inl rfl))
    have r3 := hbody (_, "flush-runs-body-once") (Or.inr (Or.inr (Or.inl rfl)))
    have r4 := hbody (_, "flush-outcome") (Or.inr (Or.inr (Or.inr (Or.inl rfl))))
    have r5 := hbody (_, "leftover-before-body-end") (Or.inr (Or.inr (Or.inr (Or.inr rfl))))
    refine ⟨by simpa using r1, by simpa using r2, by simpa using r3, ?_, by simpa using r5⟩
    simp only at r4
    cases hl : ob.evs.filterMap Ev.bodyEnd? with
    | nil => simp [hl] at r4
    | cons x xs =>
      cases xs with
      | cons y ys => simp [hl] at r4
      | nil =>
        obtain ⟨b', r, done⟩ := x
        simp only [hl, Bool.false_or, Bool.and_eq_true, beq_iff_eq, Option.isNone_iff_eq_none] at r4
        obtain ⟨⟨q1, q2⟩, q3⟩ := r4
        subst q1; subst q2
        exact ⟨r, rfl, by simpa using q3⟩
  · intro hk
    unfold bodyChecks at hbody
    simp only [hk, List.mem_cons, List.not_mem_nil, or_false] at hbody
    have r1 := hbody (_, "debug-body-events") (Or.inl rfl)
    have r2 := hbody (_, "flush-outcome") (Or.inr rfl)
    exact ⟨by simpa using r1, by simpa using r2⟩

theorem cancelledOk_of_fateClause {rx : Bool} {pre : St} {ob : Obs} {b : Nat} {x : Err}
    (h : fateClause rx pre ob = none) (hf : fate pre ob.op = .cancelled b x) :
    CancelledOk pre b x ob.post ob.evs := by
  unfold fateClause at h
  rw [firstFail_none] at h
  unfold fateChecks at h
  simp only [hf, List.mem_cons, List.not_mem_nil, or_false] at h
  have h1 := h (_, "cancel-outcome") (Or.inl rfl)
  have h2 := h (_, "cancel-runs-no-body") (Or.inr (Or.inl rfl))
  have h3 := h (_, "cancel-runs-no-body") (Or.inr (Or.inr (Or.inl rfl)))
  have h4 := h (_, "fresh-batch") (Or.inr (Or.inr (Or.inr (Or.inl rfl))))
  have h5 := h (_, "cancel-keeps-items") (Or.inr (Or.inr (Or.inr (Or.inr rfl))))
  exact ⟨by simpa using h1, ⟨by simpa using h2, by simpa using h3⟩, h4, by simpa using h5⟩

/-- an operation that has nothing to finish logs nothing but creations and leaves the slot alone -/
theorem quiet_of_fateClause {rx : Bool} {pre : St} {ob : Obs}
    (h : fateClause rx pre ob = none) (hf : fate pre ob.op = .quiet) :
    ob.evs.all Ev.isCreated = true ∧ slotOk pre ob.post none = true := by
  unfold fateClause at h
  rw [firstFail_none] at h
  unfold fateChecks at h
  simp only [hf, List.mem_cons, List.not_mem_nil, or_false] at h
  exact ⟨h (_, "quiet-op-events") (Or.inl rfl), h (_, "fresh-batch") (Or.inr rfl)⟩

end AsynqModel.Batching
