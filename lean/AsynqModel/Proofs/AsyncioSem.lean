import AsynqModel.Lib.Asyncio
import AsynqModel.Proofs.Asyncio
/-! C15: asyncio evaluation = reference evaluation whenever the asyncio run attempts no synchronous call, for ANY pair of
    starting states (flag on / flag off) - the counting argument (the number of logged synchronous calls does not grow) -/
namespace AsynqModel.Asyncio
open AsynqModel.Core (Val)

theorem emit_nSync (s : St) (e : Ev) : (s.emit e).nSync = s.nSync + (if isSyncX e then 1 else 0) := by
  simp only [St.nSync, St.emit, List.countP_cons]

@[simp] theorem exitMode_nSync (tok : Bool) (s : St) : (exitMode tok s).nSync = s.nSync := rfl
@[simp] theorem setMode_nSync (m : Bool) (s : St) : ({ s with mode := m } : St).nSync = s.nSync := rfl

theorem callPre_nSync (c : Call) (s : St) : (callPre c s).nSync = s.nSync := by
  unfold callPre
  cases c.afn <;> cases (c.kind == Kind.proxy) <;> simp [enterMode, exitMode, St.emit, St.nSync, isSyncX]

mutual
theorem bodyA_sem : ∀ (p : Prog) (gen : Bool) (t : Nat) (env : List Val) (caught : Option Err) (i : Nat) (s s' : St),
    s.mode = true → s'.mode = false → p.plainY = true → Safe p caught →
    (bodyA gen t env caught i p s).2.nSync = s.nSync →
    (bodyA gen t env caught i p s).1 = (bodyR gen t env caught i p s').1
  | .ret _, _, _, _, _, _, _, _, _, _, _, _, _ => by simp [bodyA, bodyR]
  | .res _, _, _, _, _, _, _, _, _, _, _, _, _ => by simp [bodyA, bodyR]
  | .raise _, _, _, _, _, _, _, _, _, _, _, _, _ => by simp [bodyA, bodyR]
  | .raiseB _, _, _, _, _, _, _, _, _, _, _, _, _ => by simp [bodyA, bodyR]
  | .reraise, _, _, _, _, _, _, _, _, _, _, _, _ => by simp [bodyA, bodyR]
  | .sync c child k h, gen, t, env, caught, i, s, s', hm, _, hr, _, hn => by
    exfalso
    simp only [Prog.plainY, Bool.and_eq_true] at hr
    unfold bodyA at hn
    simp only [hm, if_true, refusal_isBase, Bool.false_eq_true, if_false] at hn
    have hx := (bodyA_good h gen t env (some (refusal c)) i (s.emit (.syncX t (.err (refusal c)))) (by simp [hm])).2
    have hle := hx.nSync_le
    rw [emit_nSync] at hle
    simp only [isSyncX, if_true] at hle
    omega
  | .yld hb y k h, gen, t, env, caught, i, s, s', hm, hm', hr, hx, hn => by
    simp only [Prog.plainY, Bool.and_eq_true] at hr
    obtain ⟨hxy, hxk, hxh⟩ := hx.yld
    unfold bodyA bodyR
    unfold bodyA at hn
    cases gen
    · simp
    · have hgy := (resolveA_good y s hm).2.nSync_le
      have h1 := resolveA_mode y s
      have h2 := ysR_mode y s'
      have hy := resolveA_sem y s s' hm hm' hr.1.1 hxy
      have hnb := fun hn => resolveA_noB y s hn
      rcases hA : resolveA y s with ⟨r, s1⟩
      rcases hR : ysR y s' with ⟨r', s1'⟩
      rw [hA] at hy h1 hgy hn hnb
      rw [hR] at hy h2
      simp only at hy h1 h2 hgy
      have hm1 : s1.mode = true := by rw [h1, hm]
      cases r with
      | ok v =>
        simp only [Bool.not_true, Bool.false_eq_true, if_false] at hn ⊢
        have hgk := (bodyA_good k true t (env ++ [v]) caught (i + 1) (s1.emit (.run t (i + 1) (s1.dc (Ys.labelsA y)) s1.mode (.ok v)))
          (by simp [hm1])).2.nSync_le
        rw [emit_nSync] at hgk
        simp only [isSyncX, Bool.false_eq_true, if_false, Nat.add_zero] at hgk
        have hy' := hy (by omega)
        subst hy'
        exact bodyA_sem k _ _ _ _ _ _ _ (by simp [hm1]) (by simp [h2, hm']) hr.1.2 hxk
          (by rw [emit_nSync]; simp only [isSyncX, Bool.false_eq_true, if_false, Nat.add_zero]; omega)
      | err e =>
        obtain ⟨hag, hsafe⟩ := hxh e (fun hn' => by simpa [Out.noB] using hnb hn')
        simp only [Bool.not_true, Bool.false_eq_true, if_false] at hn ⊢
        by_cases hbase : e.isBase = true
        · have hhb : hb = false := by simpa [hbase] using hag
          subst hhb
          simp only [hbase, if_true] at hn ⊢
          rw [emit_nSync] at hn
          simp only [isSyncX, Bool.false_eq_true, if_false, Nat.add_zero] at hn
          have hy' := hy (by omega)
          subst hy'
          simp [hbase]
        · have hb0 : e.isBase = false := by simpa using hbase
          simp only [hb0, Bool.false_eq_true, if_false] at hn ⊢
          have hgk := (bodyA_good h true t env (some e) (i + 1) (s1.emit (.run t (i + 1) (s1.dc (Ys.labelsA y)) s1.mode (.err e)))
            (by simp [hm1])).2.nSync_le
          rw [emit_nSync] at hgk
          simp only [isSyncX, Bool.false_eq_true, if_false, Nat.add_zero] at hgk
          have hy' := hy (by omega)
          subst hy'
          simp only [hb0, Bool.false_eq_true, if_false, Bool.false_and]
          exact bodyA_sem h _ _ _ _ _ _ _ (by simp [hm1]) (by simp [h2, hm']) hr.2 hsafe
            (by rw [emit_nSync]; simp only [isSyncX, Bool.false_eq_true, if_false, Nat.add_zero]; omega)
      | esc v =>
        simp only [Bool.not_true, Bool.false_eq_true, if_false] at hn ⊢
        have hy' := hy (by omega)
        subst hy'
        rfl
theorem resolveA_sem : ∀ (y : Ys) (s s' : St),
    s.mode = true → s'.mode = false → y.plainY = true → SafeY y →
    (resolveA y s).2.nSync = s.nSync → (resolveA y s).1 = (ysR y s').1
  | .none, _, _, _, _, _, _, _ => by simp [resolveA, ysR]
  | .junk, _, _, _, _, _, _, _ => by simp [resolveA, ysR]
  | .const _, _, _, _, _, _, _, _ => by simp [resolveA, ysR]
  | .pconst _, s, _, hm, _, _, _, _ => by simp [resolveA, ysR, hm]
  | .task c p, s, s', hm, hm', hr, hx, hn => by
    simp only [Ys.plainY] at hr
    unfold resolveA at hn ⊢
    unfold ysR
    simp only [hm, hm', if_true, Bool.false_eq_true, if_false] at hn ⊢
    rw [callA_eq] at hn ⊢
    simp only [exitMode_nSync] at hn
    exact bodyA_sem p _ _ _ _ _ _ _ (by simp) (by simp [hm']) hr hx.task (by rw [callPre_nSync]; exact hn)
  | .tup l, s, s', hm, hm', hr, hx, hn => by
    simp only [Ys.plainY] at hr
    simp only [resolveA] at hn
    simp [resolveA, ysR, gatherA_sem l s s' hm hm' hr (by simpa [SafeY, SafeL, Ys.excOnly, Ys.noRaiseB] using hx) hn]
  | .lst l, s, s', hm, hm', hr, hx, hn => by
    simp only [Ys.plainY] at hr
    simp only [resolveA] at hn
    simp [resolveA, ysR, gatherA_sem l s s' hm hm' hr (by simpa [SafeY, SafeL, Ys.excOnly, Ys.noRaiseB] using hx) hn]
  | .dict _ l, s, s', hm, hm', hr, hx, hn => by
    simp only [Ys.plainY] at hr
    simp only [resolveA] at hn
    simp [resolveA, ysR, gatherA_sem l s s' hm hm' hr (by simpa [SafeY, SafeL, Ys.excOnly, Ys.noRaiseB] using hx) hn]
  | .sub _, _, _, _, _, hr, _, _ => by simp [Ys.plainY] at hr
  | .pval _, _, _, _, _, hr, _, _ => by simp [Ys.plainY] at hr
  | .gco y, s, s', hm, hm', hr, hx, hn => by
    simp only [Ys.plainY] at hr
    simp only [resolveA] at hn
    simp only [resolveA, ysR]
    exact resolveA_sem y s s' hm hm' hr (by simpa [SafeY, Ys.excOnly, Ys.noRaiseB] using hx) hn
  | .ofut b _, _, _, _, _, _, _, _ => by cases b <;> simp [resolveA, ysR]
theorem gatherA_sem : ∀ (l : YsL) (s s' : St),
    s.mode = true → s'.mode = false → l.plainY = true → SafeL l →
    (gatherA l s).2.nSync = s.nSync → (gatherA l s).1 = (yslR l s').1
  | .nil, _, _, _, _, _, _, _ => by simp [gatherA, yslR]
  | .cons y l, s, s', hm, hm', hr, hx, hn => by
    simp only [YsL.plainY, Bool.and_eq_true] at hr
    simp only [gatherA] at hn
    simp only [gatherA, yslR]
    have hg1 := (resolveA_good y s hm).2.nSync_le
    have hg2 := (gatherA_good l { (resolveA y s).2 with mode := s.mode } hm).2.nSync_le
    simp only [setMode_nSync] at hg2
    rw [resolveA_sem y s s' hm hm' hr.1 hx.cons.1 (by omega)]
    rw [gatherA_sem l { (resolveA y s).2 with mode := s.mode } (ysR y s').2 hm (by rw [ysR_mode]; exact hm') hr.2 hx.cons.2
      (by simp only [setMode_nSync]; omega)]
end


end AsynqModel.Asyncio
