import AsynqModel.Proofs.P6Step
/-
  P19, part 2: the frame `XF s r` of everything the machine does except starting / ending a top-level computation
  and the scheduler's flush announcement: the sequential denotations `den` of existing futures, the configuration
  and the bookkeeping of top-level computations are unchanged, and only events other than `flushB` / `top` / `ret`
  are emitted.  Every heap-side helper, `genStep` and `executeIter` are `XF` steps.
-/
namespace AsynqModel.Core.P19
open AsynqModel.Core

/-- events that are neither a scheduler flush nor the start / end of a top-level computation -/
def quietEv : Event → Bool
  | .flushB .. => false
  | .top .. => false
  | .ret _ => false
  | _ => true

structure XF (s r : State) : Prop where
  cfg : r.cfg = s.cfg
  len : s.futs.length ≤ r.futs.length
  den : ∀ f, f < s.futs.length → (r.fut f).den = (s.fut f).den
  trace : ∃ evs, r.trace = evs ++ s.trace ∧ ∀ e ∈ evs, quietEv e = true
  topIdx : r.topIdx = s.topIdx
  curTop : r.curTop = s.curTop
  tops : r.tops = s.tops

theorem XF.refl (s : State) : XF s s := ⟨rfl, Nat.le_refl _, fun _ _ => rfl, ⟨[], rfl, nofun⟩, rfl, rfl, rfl⟩

theorem XF.trans {s s1 s2 : State} (a : XF s s1) (b : XF s1 s2) : XF s s2 := by
  refine ⟨b.cfg.trans a.cfg, Nat.le_trans a.len b.len,
    fun f hf => (b.den f (Nat.lt_of_lt_of_le hf a.len)).trans (a.den f hf), ?_, b.topIdx.trans a.topIdx,
    b.curTop.trans a.curTop, b.tops.trans a.tops⟩
  obtain ⟨e1, h1, k1⟩ := a.trace
  obtain ⟨e2, h2, k2⟩ := b.trace
  refine ⟨e2 ++ e1, by rw [h2, h1, List.append_assoc], fun e he => ?_⟩
  rcases List.mem_append.1 he with h | h
  · exact k2 e h
  · exact k1 e h

theorem XF.of_eq {s r : State} (hc : r.cfg = s.cfg) (hf : r.futs = s.futs) (ht : r.trace = s.trace)
    (hi : r.topIdx = s.topIdx) (hcur : r.curTop = s.curTop) (htops : r.tops = s.tops) : XF s r :=
  ⟨hc, by rw [hf]; exact Nat.le_refl _, fun f _ => by unfold State.fut; rw [hf], ⟨[], by simp [ht], nofun⟩, hi, hcur, htops⟩

theorem xf_emit (s : State) (e : Event) (h : quietEv e = true) : XF s (s.emit e) :=
  ⟨rfl, Nat.le_refl _, fun _ _ => rfl, ⟨[e], rfl, by simpa using h⟩, rfl, rfl, rfl⟩

theorem xf_setFut (s : State) (t : Nat) (x : Fut) (hx : x.den = (s.fut t).den) : XF s (s.setFut t x) := by
  refine ⟨rfl, by simp, fun f _ => ?_, ⟨[], rfl, nofun⟩, rfl, rfl, rfl⟩
  rw [P6.fut_setFut]
  split
  · rename_i h; rw [h.1]; exact hx
  · rfl

theorem xf_updTask (s : State) (t : Nat) (g : TaskSt → TaskSt) : XF s (s.updTask t g) := by
  unfold State.updTask
  exact xf_setFut s t _ rfl

theorem xf_fail (s : State) (m : String) : XF s (s.fail m) := XF.of_eq rfl rfl rfl rfl rfl rfl

theorem xf_updBatch (s : State) (k q : Nat) (g : Batch → Batch) : XF s (s.updBatch k q g) := XF.of_eq rfl rfl rfl rfl rfl rfl

theorem xf_popStack (s : State) : XF s s.popStack := XF.of_eq rfl rfl rfl rfl rfl rfl

theorem xf_svSet (s : State) (var val : Nat) : XF s (s.svSet var val) := by
  unfold State.svSet
  split <;> exact XF.of_eq rfl rfl rfl rfl rfl rfl

theorem xf_svTouch (s : State) (var : Nat) : XF s (s.svTouch var) := by
  unfold State.svTouch
  split
  · exact XF.refl _
  · exact XF.of_eq rfl rfl rfl rfl rfl rfl

theorem xf_complete (s : State) (f : Nat) (o : Outcome) : XF s (s.complete f o) := by
  unfold State.complete
  refine (xf_setFut s f _ ?_).trans (xf_emit _ _ rfl)
  rfl

theorem xf_alloc (s : State) (x : Fut) (nk : NewKind) : XF s (s.alloc x nk).1 := by
  refine ⟨rfl, by simp, fun f hf => ?_, ⟨[.new s.futs.length nk], rfl, by simp [quietEv]⟩, rfl, rfl, rfl⟩
  rw [P6.fut_alloc, if_neg (Nat.ne_of_lt hf)]

theorem xf_ctxSetResumed (s : State) (c : Nat) (r : Bool) : XF s (s.ctxSetResumed c r) := by
  unfold State.ctxSetResumed
  split
  · exact XF.of_eq rfl rfl rfl rfl rfl rfl
  · exact XF.refl _

theorem xf_ctxResumeOne (s : State) (c : Nat) : XF s (s.ctxResumeOne c) := by
  unfold State.ctxResumeOne
  have h0 : XF s ((s.emit (.ctx true c)).ctxSetResumed c true) := (xf_emit s _ rfl).trans (xf_ctxSetResumed _ _ _)
  refine h0.trans ?_
  generalize (s.emit (.ctx true c)).ctxSetResumed c true = s1
  dsimp only
  split
  · split
    · exact (xf_svSet s1 _ _).trans (XF.of_eq rfl rfl rfl rfl rfl rfl)
    · exact XF.refl _
  · exact XF.refl _

theorem xf_ctxPauseOne (s : State) (c : Nat) : XF s (s.ctxPauseOne c) := by
  unfold State.ctxPauseOne
  have h0 : XF s ((s.emit (.ctx false c)).ctxSetResumed c false) := (xf_emit s _ rfl).trans (xf_ctxSetResumed _ _ _)
  refine h0.trans ?_
  generalize (s.emit (.ctx false c)).ctxSetResumed c false = s1
  dsimp only
  split
  · split
    · exact xf_svSet s1 _ _
    · exact XF.refl _
  · exact XF.refl _

theorem xf_ctxExitAux (s : State) (c : Nat) (owner : Option Nat) : XF s (P3.ctxExitAux s c owner) := by
  unfold P3.ctxExitAux
  refine XF.trans ?_ (xf_emit _ _ rfl)
  cases owner <;> dsimp only
  · split
    · exact XF.refl _
    · exact xf_ctxPauseOne _ _
  · split
    · exact xf_updTask _ _ _
    · exact (xf_updTask _ _ _).trans (xf_ctxPauseOne _ _)

theorem xf_ctxExit (s : State) (c : Nat) : XF s (s.ctxExit c) := by
  rw [P3.ctxExit_eq]
  exact xf_ctxExitAux _ _ _

theorem xf_foldl {α : Type} (g : State → α → State) (hg : ∀ s a, XF s (g s a)) (l : List α) (s : State) :
    XF s (l.foldl g s) := by
  induction l generalizing s with
  | nil => exact XF.refl _
  | cons a l ih => exact (hg s a).trans (ih _)

theorem xf_exitAll (s : State) (t : Nat) : XF s (s.exitAll t) := by
  unfold State.exitAll
  exact (xf_foldl (fun s (p : Nat × Body) => s.ctxExit p.1) (fun s p => xf_ctxExit s p.1) _ s).trans (xf_updTask _ _ _)

theorem xf_failSuspended (s : State) (t : Nat) (e : Err) : XF s (s.failSuspended t e) := by
  unfold State.failSuspended
  split
  · exact XF.refl _
  · exact ((xf_exitAll s t).trans (xf_updTask _ _ _)).trans (xf_complete _ _ _)

theorem xf_resumeContexts (s : State) (t : Nat) : XF s (s.resumeContexts t) := by
  unfold State.resumeContexts
  dsimp only
  split
  · exact XF.refl _
  · have h : XF s ((s.task t).ctxs.foldl (fun s c => if s.ctxIsNonAsync c then s else s.ctxResumeOne c)
        (s.updTask t fun ts => { ts with ctxActive := true })) :=
      (xf_updTask s t _).trans (xf_foldl _ (fun s c => by
        split
        · exact XF.refl _
        · exact xf_ctxResumeOne _ _) _ _)
    split
    · exact h.trans (xf_failSuspended _ _ _)
    · exact h

theorem xf_pauseContexts (s : State) (t : Nat) : XF s (s.pauseContexts t) := by
  unfold State.pauseContexts
  dsimp only
  split
  · exact XF.refl _
  · have h : XF s ((s.task t).ctxs.reverse.foldl (fun s c => if s.ctxIsNonAsync c then s else s.ctxPauseOne c)
        (s.updTask t fun ts => { ts with ctxActive := false })) :=
      (xf_updTask s t _).trans (xf_foldl _ (fun s c => by
        split
        · exact XF.refl _
        · exact xf_ctxPauseOne _ _) _ _)
    split
    · exact h.trans (xf_failSuspended _ _ _)
    · exact h

theorem xf_switchActive (s : State) (k q : Nat) : XF s (s.switchActive k q) := by
  unfold State.switchActive
  split
  · split
    · exact XF.of_eq rfl rfl rfl rfl rfl rfl
    · exact XF.refl _
  · exact XF.refl _

theorem xf_flushItems (s : State) (kind : Nat) (l : List Nat) : XF s (s.flushItems kind l) := by
  induction l generalizing s with
  | nil => exact XF.refl _
  | cons i is ih =>
    unfold State.flushItems
    refine XF.trans ?_ (ih _)
    split
    · exact XF.refl _
    · split
      · exact xf_complete _ _ _
      · exact xf_complete _ _ _
      · exact XF.refl _

theorem xf_finishItems (s : State) (e : Err) (l : List Nat) : XF s (s.finishItems e l) := by
  induction l generalizing s with
  | nil => exact XF.refl _
  | cons i is ih =>
    unfold State.finishItems
    refine XF.trans ?_ (ih _)
    split
    · exact XF.refl _
    · exact xf_complete _ _ _

theorem xf_flushBatch (s : State) (k q : Nat) : XF s (s.flushBatch k q) := by
  unfold State.flushBatch
  split
  · exact xf_fail _ _
  · dsimp only
    exact ((((xf_switchActive s k q).trans (xf_emit _ _ rfl)).trans (xf_flushItems _ _ _)).trans
      (xf_finishItems _ _ _)).trans ((xf_emit _ _ rfl).trans (xf_updBatch _ _ _ _))

theorem xf_leaveGen (s : State) (t : Nat) (old : Option Nat) : XF s (s.leaveGen t old) := by
  unfold State.leaveGen
  exact (xf_updTask s t (fun ts => { ts with depsSched := false })).trans (XF.of_eq rfl rfl rfl rfl rfl rfl)

theorem xf_finishTask (s : State) (t : Nat) (old : Option Nat) (o : Outcome) : XF s (s.finishTask t old o) := by
  unfold State.finishTask
  split
  · exact xf_fail _ _
  · exact (((xf_exitAll _ _).trans (xf_updTask _ _ _)).trans (xf_complete _ _ _)).trans (xf_leaveGen _ _ _)

theorem xf_newTask (s : State) (child : Body) (inh : List Nat) : XF s (s.newTask child inh).1 := by
  unfold State.newTask
  exact xf_alloc _ _ _

theorem xf_ensureBatch (s : State) (kind : Nat) : XF s (match s.curBatch? kind with
    | some _ => s
    | none => { s with batches := s.batches ++ [({ kind := kind, seq := 0 } : Batch)] }) := by
  split
  · exact XF.refl _
  · exact XF.of_eq rfl rfl rfl rfl rfl rfl

/-! ### `handleTask`, `executeIter` -/

theorem xf_handleTask (s : State) (t : Nat) : XF s (s.handleTask t) := by
  unfold State.handleTask
  dsimp only
  split
  · split
    · exact ((xf_updTask _ _ _).trans (xf_pauseContexts _ _)).trans (xf_popStack _)
    · exact ((xf_updTask _ _ _).trans (xf_resumeContexts _ _)).trans (XF.of_eq rfl rfl rfl rfl rfl rfl)
  · split
    · exact xf_fail _ _
    · exact (xf_resumeContexts _ _).trans (XF.of_eq rfl rfl rfl rfl rfl rfl)

theorem xf_executeIter (s : State) : XF s s.executeIter := by
  unfold State.executeIter
  split
  · exact xf_fail _ _
  · split
    · exact XF.of_eq rfl rfl rfl rfl rfl rfl
    · split
      · exact xf_popStack _
      · split
        · exact xf_handleTask _ _
        · refine XF.trans ?_ (xf_popStack _)
          split
          · split
            · exact XF.refl _
            · exact XF.of_eq rfl rfl rfl rfl rfl rfl
          · exact XF.refl _
        · exact (xf_complete _ _ _).trans (xf_popStack _)
        · exact xf_fail _ _

/-! ### `genStep` -/

theorem xf_genStep (s : State) (t : Nat) (old : Option Nat) : XF s (s.genStep t old) := by
  unfold State.genStep
  dsimp only
  split
  · split
    · exact (xf_updTask _ _ _).trans (xf_emit _ _ rfl)
    · split
      · exact (xf_updTask _ _ _).trans (xf_emit _ _ rfl)
      · exact (xf_updTask _ _ _).trans (xf_emit _ _ rfl)
      · exact (xf_updTask _ _ _).trans (xf_emit _ _ rfl)
      · exact (xf_updTask _ _ _).trans (xf_emit _ _ rfl)
      · exact xf_fail _ _
  · split
    · exact xf_finishTask _ _ _ _
    · exact xf_finishTask _ _ _ _
    · exact xf_finishTask _ _ _ _
    · exact xf_finishTask _ _ _ _
    · exact (xf_newTask s _ _).trans (xf_updTask _ _ _)
    · split
      · exact (xf_ensureBatch s _).trans (xf_fail _ _)
      · refine XF.trans ?_ (xf_updTask _ _ _)
        refine XF.trans ?_ (xf_updBatch _ _ _ _)
        refine XF.trans ?_ (xf_alloc _ _ _)
        exact xf_ensureBatch s _
    · exact (xf_alloc _ _ _).trans (xf_updTask _ _ _)
    · exact (xf_alloc _ _ _).trans (xf_updTask _ _ _)
    · exact (xf_alloc _ _ _).trans (xf_updTask _ _ _)
    · split <;> split <;>
        first
        | exact (xf_emit _ _ rfl).trans (xf_updTask _ _ _)
        | exact ((xf_emit _ _ rfl).trans (xf_updTask _ _ _)).trans (xf_leaveGen _ _ _)
    · split <;> split <;>
        first
        | exact (xf_emit _ _ rfl).trans (xf_updTask _ _ _)
        | exact ((xf_emit _ _ rfl).trans (xf_updTask _ _ _)).trans (xf_leaveGen _ _ _)
    · exact (((xf_newTask s _ _).trans (xf_updTask _ _ _)).trans (xf_emit _ _ rfl)).trans (XF.of_eq rfl rfl rfl rfl rfl rfl)
    · have h0 : ∀ (g : TaskSt → TaskSt) (e : Event), quietEv e = true → XF s ((s.updTask t g).emit e) :=
        fun g e he => (xf_updTask _ _ _).trans (xf_emit _ _ he)
      split
      · exact h0 _ _ rfl
      · split
        · exact (h0 _ _ rfl).trans (XF.of_eq rfl rfl rfl rfl rfl rfl)
        · split
          · split
            · exact h0 _ _ rfl
            · exact (h0 _ _ rfl).trans (xf_flushBatch _ _ _)
          · exact h0 _ _ rfl
        · exact (h0 _ _ rfl).trans (xf_complete _ _ _)
        · exact h0 _ _ rfl
    · have h0 : XF s { s with raising := none } := XF.of_eq rfl rfl rfl rfl rfl rfl
      split
      · exact xf_fail _ _
      · exact (h0.trans (xf_updTask _ _ _)).trans (xf_emit _ _ rfl)
      · exact (h0.trans (xf_updTask _ _ _)).trans (xf_emit _ _ rfl)
    · rename_i c b k hb
      refine XF.trans ?_ (xf_updTask _ _ _)
      show XF s (P3.wc5 (P3.wc4 (P3.wc3 (P3.wc1 s c) s.ctxs.length t c) s.ctxs.length) c s.ctxs.length)
      have h1 : XF s (P3.wc1 s c) := by
        unfold P3.wc1; split
        · exact xf_svTouch _ _
        · exact XF.refl _
      have h3 : ∀ s' : State, XF s' (P3.wc3 s' s.ctxs.length t c) := fun s' =>
        (xf_emit s' (.ctxN s.ctxs.length t c) rfl).trans (XF.of_eq rfl rfl rfl rfl rfl rfl)
      have h4 : ∀ s' : State, XF s' (P3.wc4 s' s.ctxs.length) := by
        intro s'; unfold P3.wc4; split
        · exact xf_updTask _ _ _
        · exact XF.refl _
      have h5 : ∀ s' : State, XF s' (P3.wc5 s' c s.ctxs.length) := by
        intro s'; unfold P3.wc5; split
        · exact XF.refl _
        · exact xf_ctxResumeOne _ _
      exact ((h1.trans (h3 _)).trans (h4 _)).trans (h5 _)
    · split
      · exact xf_finishTask _ _ _ _
      · exact (xf_ctxExit _ _).trans (xf_updTask _ _ _)
    · exact ((xf_svTouch _ _).trans (xf_emit _ _ rfl)).trans (xf_updTask _ _ _)
    · exact (xf_emit _ _ rfl).trans (xf_updTask _ _ _)

end AsynqModel.Core.P19
