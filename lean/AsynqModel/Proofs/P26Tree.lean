import AsynqModel.Proofs.P10Gen
import AsynqModel.Proofs.P19Frame
import AsynqModel.Core.Spec
/-!
  P26 (C06, "awaiting ⇒ resumed"), part 1: tree-shaped programs, the vocabulary.

  * `lns b q`  : "live no-share": on every path of `b` that can be executed no future is handed to a child
                 (`spawn` / `sync` with an empty `pass` list); `q` says the same of what follows the `endwith` exits of
                 `b` (continuation-passing, like `P10.wsB`).  `lns_of_ws`: a well-scoped body with
                 `Spec.bodyShares = false` is `lns`.
  * `NsT ts`   : the task inherited nothing and the rest of it (body, continuations of its open with-blocks) is `lns`.
  * `TS s r`   : the summary of a transition as far as the creation forest is concerned: `own` lists only grow, by
                 futures created in the transition, and no such future enters two lists; every task stays `NsT`.
                 (Only the field `futs` of the two states matters.)
-/
namespace AsynqModel.Core.P26
open AsynqModel.Core AsynqModel.Core.P10

/-! ### live no-share -/

def lns : Body → Bool → Bool
  | .ret _, _ => true
  | .res _, _ => true
  | .raise _, _ => true
  | .reraise, _ => true
  | .endwith, q => q
  | .spawn c pass k, q => pass.isEmpty && lns c true && lns k q
  | .item _ _ _ k, q => lns k q
  | .const _ k, q => lns k q
  | .errfut _ k, q => lns k q
  | .lazy _ k, q => lns k q
  | .yld _ k h, q => lns k q && lns h q
  | .reyld k h, q => lns k q && lns h q
  | .sync c pass k h, q => pass.isEmpty && lns c true && lns k q && lns h q
  | .syncfut _ k h, q => lns k q && lns h q
  | .syncret _ k h, q => lns k q && lns h q
  | .withCtx _ b k, q => lns b (lns k q)
  | .read _ k, q => lns k q
  | .active k, q => lns k q

theorem lns_mono : ∀ (b : Body) (q q' : Bool), (q = true → q' = true) → lns b q = true → lns b q' = true
  | .ret _, _, _, _, _ => rfl
  | .res _, _, _, _, _ => rfl
  | .raise _, _, _, _, _ => rfl
  | .reraise, _, _, _, _ => rfl
  | .endwith, _, _, hq, h => hq h
  | .spawn c pass k, q, q', hq, h => by
    simp only [lns, Bool.and_eq_true] at h ⊢
    exact ⟨h.1, lns_mono k q q' hq h.2⟩
  | .item _ _ _ k, q, q', hq, h => lns_mono k q q' hq h
  | .const _ k, q, q', hq, h => lns_mono k q q' hq h
  | .errfut _ k, q, q', hq, h => lns_mono k q q' hq h
  | .lazy _ k, q, q', hq, h => lns_mono k q q' hq h
  | .yld _ k h', q, q', hq, h => by
    simp only [lns, Bool.and_eq_true] at h ⊢
    exact ⟨lns_mono k q q' hq h.1, lns_mono h' q q' hq h.2⟩
  | .reyld k h', q, q', hq, h => by
    simp only [lns, Bool.and_eq_true] at h ⊢
    exact ⟨lns_mono k q q' hq h.1, lns_mono h' q q' hq h.2⟩
  | .sync c pass k h', q, q', hq, h => by
    simp only [lns, Bool.and_eq_true] at h ⊢
    exact ⟨⟨h.1.1, lns_mono k q q' hq h.1.2⟩, lns_mono h' q q' hq h.2⟩
  | .syncfut _ k h', q, q', hq, h => by
    simp only [lns, Bool.and_eq_true] at h ⊢
    exact ⟨lns_mono k q q' hq h.1, lns_mono h' q q' hq h.2⟩
  | .syncret _ k h', q, q', hq, h => by
    simp only [lns, Bool.and_eq_true] at h ⊢
    exact ⟨lns_mono k q q' hq h.1, lns_mono h' q q' hq h.2⟩
  | .withCtx _ b k, q, q', hq, h => by
    simp only [lns] at h ⊢
    exact lns_mono b _ _ (fun hm => lns_mono k q q' hq hm) h
  | .read _ k, q, q', hq, h => lns_mono k q q' hq h
  | .active k, q, q', hq, h => lns_mono k q q' hq h

/-- a well-scoped body that hands no future to a child is `lns` (the continuation `q` is only needed if some
    `endwith` exit of the body can be reached) -/
theorem lns_of_ws : ∀ (b : Body) (n ninh : Nat) (Q : Nat → Bool) (q : Bool), wsB b n ninh Q = true →
    Spec.bodyShares b = false → ((∃ m, Q m = true) → q = true) → lns b q = true
  | .ret _, _, _, _, _, _, _, _ => rfl
  | .res _, _, _, _, _, _, _, _ => rfl
  | .raise _, _, _, _, _, _, _, _ => rfl
  | .reraise, _, _, _, _, _, _, _ => rfl
  | .endwith, n, _, Q, q, hw, _, hq => hq ⟨n, hw⟩
  | .spawn c pass k, n, ninh, Q, q, hw, hs, hq => by
    simp only [wsB, Bool.and_eq_true] at hw
    simp only [Spec.bodyShares, Bool.or_eq_false_iff, Bool.not_eq_false'] at hs
    simp only [lns, Bool.and_eq_true]
    exact ⟨⟨hs.1.1, lns_of_ws c 0 pass.length (fun _ => true) true hw.1.2 hs.1.2 (fun _ => rfl)⟩,
      lns_of_ws k (n + 1) ninh Q q hw.2 hs.2 hq⟩
  | .item _ _ _ k, n, ninh, Q, q, hw, hs, hq => lns_of_ws k (n + 1) ninh Q q hw hs hq
  | .const _ k, n, ninh, Q, q, hw, hs, hq => lns_of_ws k (n + 1) ninh Q q hw hs hq
  | .errfut _ k, n, ninh, Q, q, hw, hs, hq => lns_of_ws k (n + 1) ninh Q q hw hs hq
  | .lazy _ k, n, ninh, Q, q, hw, hs, hq => lns_of_ws k (n + 1) ninh Q q hw hs hq
  | .yld _ k h, n, ninh, Q, q, hw, hs, hq => by
    simp only [wsB, Bool.and_eq_true] at hw
    simp only [Spec.bodyShares, Bool.or_eq_false_iff] at hs
    simp only [lns, Bool.and_eq_true]
    exact ⟨lns_of_ws k n ninh Q q hw.1.2 hs.1 hq, lns_of_ws h n ninh Q q hw.2 hs.2 hq⟩
  | .reyld k h, n, ninh, Q, q, hw, hs, hq => by
    simp only [wsB, Bool.and_eq_true] at hw
    simp only [Spec.bodyShares, Bool.or_eq_false_iff] at hs
    simp only [lns, Bool.and_eq_true]
    exact ⟨lns_of_ws k n ninh Q q hw.1 hs.1 hq, lns_of_ws h n ninh Q q hw.2 hs.2 hq⟩
  | .sync c pass k h, n, ninh, Q, q, hw, hs, hq => by
    simp only [wsB, Bool.and_eq_true] at hw
    simp only [Spec.bodyShares, Bool.or_eq_false_iff, Bool.not_eq_false'] at hs
    simp only [lns, Bool.and_eq_true]
    exact ⟨⟨⟨hs.1.1.1, lns_of_ws c 0 pass.length (fun _ => true) true hw.1.1.2 hs.1.1.2 (fun _ => rfl)⟩,
      lns_of_ws k (n + 1) ninh Q q hw.1.2 hs.1.2 hq⟩, lns_of_ws h (n + 1) ninh Q q hw.2 hs.2 hq⟩
  | .syncfut _ k h, n, ninh, Q, q, hw, hs, hq => by
    simp only [wsB, Bool.and_eq_true] at hw
    simp only [Spec.bodyShares, Bool.or_eq_false_iff] at hs
    simp only [lns, Bool.and_eq_true]
    exact ⟨lns_of_ws k n ninh Q q hw.1.2 hs.1 hq, lns_of_ws h n ninh Q q hw.2 hs.2 hq⟩
  | .syncret _ _ _, _, _, _, _, hw, _, _ => by simp [wsB] at hw
  | .withCtx _ b k, n, ninh, Q, q, hw, hs, hq => by
    simp only [wsB] at hw
    simp only [Spec.bodyShares, Bool.or_eq_false_iff] at hs
    simp only [lns]
    refine lns_of_ws b n ninh (fun m => wsB k m ninh Q) (lns k q) hw hs.1 ?_
    rintro ⟨m, hm⟩
    exact lns_of_ws k m ninh Q q hm hs.2 hq
  | .read _ k, n, ninh, Q, q, hw, hs, hq => lns_of_ws k n ninh Q q hw hs hq
  | .active k, n, ninh, Q, q, hw, hs, hq => lns_of_ws k n ninh Q q hw hs hq

/-- a well-scoped top-level computation with `Spec.bodyShares = false` -/
theorem lns_of_top {b : Body} (hw : WellScoped b 0 0 = true) (hs : Spec.bodyShares b = false) : lns b true = true :=
  lns_of_ws b 0 0 (fun _ => true) true hw hs (fun _ => rfl)

/-- what follows the `endwith` exits of the current body: the continuations of the open with-blocks -/
def contL : List (Nat × Body) → Bool
  | [] => true
  | (_, k) :: rest => lns k (contL rest)

structure NsT (ts : TaskSt) : Prop where
  inh : ts.inh = []
  body : lns ts.body (contL ts.conts) = true

theorem nsT_default : NsT {} := ⟨rfl, rfl⟩

theorem NsT.keep {a b : TaskSt} (k : TsKeep a b) (h : NsT a) : NsT b := by
  refine ⟨k.inh.trans h.inh, ?_⟩
  rw [k.body]
  rcases k.conts with e | e
  · rw [e]; exact h.body
  · rw [e]; exact lns_mono _ _ _ (fun _ => rfl) h.body

/-! ### the summary of a transition -/

/-- created futures exist -/
def Bd (s : State) : Prop := ∀ u f, f ∈ (s.task u).own → f < s.futs.length

structure TS (s r : State) : Prop where
  len : s.futs.length ≤ r.futs.length
  bound : Bd s → Bd r
  ownOld : Bd s → ∀ u f, f ∈ (r.task u).own → f < s.futs.length → f ∈ (s.task u).own
  ownNew : Bd s → ∀ u v f, s.futs.length ≤ f → f ∈ (r.task u).own → f ∈ (r.task v).own → u = v
  ns : (∀ u, NsT (s.task u)) → ∀ u, NsT (r.task u)

theorem TS.refl (s : State) : TS s s :=
  ⟨Nat.le_refl _, id, fun _ _ _ h _ => h, fun hb u _ f hf hu _ => absurd (hb u f hu) (by omega), id⟩

theorem TS.trans {a b c : State} (h1 : TS a b) (h2 : TS b c) : TS a c where
  len := Nat.le_trans h1.len h2.len
  bound := fun hb => h2.bound (h1.bound hb)
  ownOld := fun hb u f hf hl =>
    h1.ownOld hb u f (h2.ownOld (h1.bound hb) u f hf (Nat.lt_of_lt_of_le hl h1.len)) hl
  ownNew := fun hb u v f hl hu hv => by
    rcases Nat.lt_or_ge f b.futs.length with hlt | hge
    · exact h1.ownNew hb u v f hl (h2.ownOld (h1.bound hb) u f hu hlt) (h2.ownOld (h1.bound hb) v f hv hlt)
    · exact h2.ownNew (h1.bound hb) u v f hge hu hv
  ns := fun h => h2.ns (h1.ns h)

theorem task_of_futs {s r : State} (h : r.futs = s.futs) (u : Nat) : r.task u = s.task u := by
  unfold State.task State.fut; rw [h]

/-- only `futs` matters -/
theorem TS.congr {s r r' : State} (h : TS s r) (hf : r'.futs = r.futs) : TS s r' where
  len := by rw [hf]; exact h.len
  bound := fun hb u f hu => by
    rw [task_of_futs hf] at hu; rw [hf]; exact h.bound hb u f hu
  ownOld := fun hb u f hu hl => by rw [task_of_futs hf] at hu; exact h.ownOld hb u f hu hl
  ownNew := fun hb u v f hl hu hv => by
    rw [task_of_futs hf] at hu hv; exact h.ownNew hb u v f hl hu hv
  ns := fun hn u => by rw [task_of_futs hf]; exact h.ns hn u

theorem TS.congr_left {s s' r : State} (h : TS s r) (hf : s'.futs = s.futs) : TS s' r where
  len := by rw [hf]; exact h.len
  bound := fun hb => h.bound (fun u f hu => by have := hb u f (by rw [task_of_futs hf]; exact hu); rwa [hf] at this)
  ownOld := fun hb u f hu hl => by
    rw [task_of_futs hf]
    exact h.ownOld (fun u f hu => by have := hb u f (by rw [task_of_futs hf]; exact hu); rwa [hf] at this) u f hu
      (by rwa [hf] at hl)
  ownNew := fun hb u v f hl hu hv =>
    h.ownNew (fun u f hu => by have := hb u f (by rw [task_of_futs hf]; exact hu); rwa [hf] at this) u v f
      (by rwa [hf] at hl) hu hv
  ns := fun hn => h.ns (fun u => by have := hn u; rwa [task_of_futs hf] at this)

/-- nothing is created, every task keeps `own`, and stays `NsT` -/
theorem ts_of_own {s r : State} (hlen : r.futs.length = s.futs.length) (hown : ∀ u, (r.task u).own = (s.task u).own)
    (hns : (∀ u, NsT (s.task u)) → ∀ u, NsT (r.task u)) : TS s r where
  len := by rw [hlen]; exact Nat.le_refl _
  bound := fun hb u f hu => by rw [hown] at hu; rw [hlen]; exact hb u f hu
  ownOld := fun _ u f hu _ => by rw [hown] at hu; exact hu
  ownNew := fun hb u _ f hl hu _ => by rw [hown] at hu; exact absurd (hb u f hu) (by omega)
  ns := hns

theorem ts_of_futs {s r : State} (hf : r.futs = s.futs) : TS s r := (TS.refl s).congr hf

/-- the heap-side helpers (`P10.NZ`) -/
theorem ts_nz {s r : State} (nz : NZ s r) : TS s r :=
  ts_of_own nz.len (fun u => (nz.ts u).own) (fun hn u => (hn u).keep (nz.ts u))

/-- the running task moves on without creating anything -/
theorem ts_updTask (s : State) (t : Nat) (g : TaskSt → TaskSt)
    (hown : (g (s.task t)).own = (s.task t).own) (hinh : (g (s.task t)).inh = (s.task t).inh)
    (hns : lns (s.task t).body (contL (s.task t).conts) = true →
      lns (g (s.task t)).body (contL (g (s.task t)).conts) = true) : TS s (s.updTask t g) := by
  refine ts_of_own (by simp) (fun u => ?_) (fun hn u => ?_)
  · rw [task_updTask]; split
    · rename_i h; rw [h.1]; exact hown
    · rfl
  · rw [task_updTask]; split
    · exact ⟨hinh.trans (hn t).inh, hns (hn t).body⟩
    · exact hn u

/-- the running task `t` creates the future `x` and records it -/
theorem ts_alloc_upd (s : State) (x : Fut) (nk : NewKind) (t : Nat) (g : TaskSt → TaskSt) (ht : t < s.futs.length)
    (hxo : x.ts.own = []) (hx : (∀ u, NsT (s.task u)) → NsT x.ts)
    (hown : (g (s.task t)).own = (s.task t).own ++ [s.futs.length]) (hinh : (g (s.task t)).inh = (s.task t).inh)
    (hns : lns (s.task t).body (contL (s.task t).conts) = true →
      lns (g (s.task t)).body (contL (g (s.task t)).conts) = true) :
    TS s ((s.alloc x nk).1.updTask t g) := by
  have hlen : ((s.alloc x nk).1.updTask t g).futs.length = s.futs.length + 1 := by simp [State.alloc, State.emit]
  have htask : ∀ u, ((s.alloc x nk).1.updTask t g).task u =
      if u = t then g (s.task t) else if u = s.futs.length then x.ts else s.task u := by
    intro u
    rw [task_updTask]
    have hl : t < (s.alloc x nk).1.futs.length := by simp [State.alloc, State.emit]; omega
    by_cases hu : u = t
    · subst hu
      simp only [hl, and_self, if_true]
      rw [task_alloc, if_neg (Nat.ne_of_lt ht)]
    · simp only [hu, false_and, if_false]
      exact task_alloc s x nk u
  have hmem : ∀ u f, f ∈ (((s.alloc x nk).1.updTask t g).task u).own →
      f ∈ (s.task u).own ∨ (u = t ∧ f = s.futs.length) := by
    intro u f hf
    rw [htask] at hf
    split at hf
    · rename_i h
      rw [hown, List.mem_append, List.mem_singleton] at hf
      rcases hf with hf | hf
      · exact .inl (h ▸ hf)
      · exact .inr ⟨h, hf⟩
    · split at hf
      · rw [hxo] at hf; cases hf
      · exact .inl hf
  refine ⟨by rw [hlen]; omega, ?_, ?_, ?_, ?_⟩
  · intro hb u f hf
    rw [hlen]
    rcases hmem u f hf with h | ⟨_, h⟩
    · have := hb u f h; omega
    · omega
  · intro _ u f hf hl
    rcases hmem u f hf with h | ⟨_, h⟩
    · exact h
    · omega
  · intro hb u v f hl hu hv
    rcases hmem u f hu with h | ⟨h1, _⟩
    · have := hb u f h; omega
    · rcases hmem v f hv with h | ⟨h2, _⟩
      · have := hb v f h; omega
      · rw [h1, h2]
  · intro hn u
    rw [htask]
    split
    · exact ⟨hinh.trans (hn t).inh, hns (hn t).body⟩
    · split
      · exact hx hn
      · exact hn u

end AsynqModel.Core.P26
