import AsynqModel.Proofs.P19Mild
/-
  P19, part 10: the scheduler's flush.  At a flush everything reachable from the root is settled
  (`C04_settled_at_flush`); a settled uncompleted future is complete after the next flush at the earliest, and the
  prediction of a task that is blocked at a `yield` with everything it awaits started does not depend on the number
  of flushes that have happened as long as something it awaits is incomplete.  So the prediction invariant survives
  the flush with the same descriptions and the counter increased by one.
-/
namespace AsynqModel.Core.P19
open AsynqModel.Core AsynqModel.Core.P6

/-- the index of a leaf of the structure yielded last -/
theorem leaf_index {v : FV} {y : Y} (hpv : PVok v y) {d : Nat} (hd : d ∈ v.prevY.leaves) :
    ∃ i, i ∈ idxOf y ∧ i < v.own.length ∧ v.own[i]? = some d := by
  rw [hpv.eq, P4.leaves_mapLeaves] at hd
  obtain ⟨r, hr, rfl⟩ := List.mem_map.1 hd
  obtain ⟨i, rfl, hi⟩ := hpv.sc r hr
  refine ⟨i, mem_idxOf.2 hr, hi, ?_⟩
  show v.own[i]? = some (v.own.getD i 0)
  rw [List.getD_eq_getElem?_getD, List.getElem?_eq_getElem hi]; rfl

theorem index_leaf {v : FV} {y : Y} (hpv : PVok v y) {i : Nat} (hi : i ∈ idxOf y) :
    i < v.own.length ∧ ∃ d, v.own[i]? = some d ∧ d ∈ v.prevY.leaves := by
  have hr := mem_idxOf.1 hi
  obtain ⟨j, e, hj⟩ := hpv.sc _ hr
  cases e
  refine ⟨hj, v.own[i], List.getElem?_eq_getElem hj, ?_⟩
  rw [hpv.eq, P4.leaves_mapLeaves]
  refine List.mem_map.2 ⟨.own i, hr, ?_⟩
  show v.own.getD i 0 = _
  rw [List.getD_eq_getElem?_getD, List.getElem?_eq_getElem hj]; rfl

theorem tbl_get (fin : Nat → FutR) (l : List Nat) (i d : Nat) (h : l[i]? = some d) : (l.map fin)[i]? = some (fin d) := by
  rw [List.getElem?_map, h]; rfl

theorem settled_ready {s : State} {n : Nat} {fin : Nat → FutR} {d : Nat} (hs : Settled s d) (L : Loc s n fin d) :
    ∃ q, fin d = .ready q := by
  cases hs with
  | computed h =>
    have : (view s d).out ≠ none := by
      intro h2; have := uncomputed_of_out_none h2; rw [h] at this; cases this
    obtain ⟨q, _, e⟩ := L.done this
    exact ⟨q, e⟩
  | item hk hu _ => exact ⟨_, L.item _ _ _ _ (out_none_of_uncomputed hu) hk⟩
  | task hk hu hst _ _ _ =>
    obtain ⟨pv, q, LL⟩ := L.live ⟨hk, out_none_of_uncomputed hu, hst⟩
    exact ⟨q, LL.hfin⟩

/-- a settled task is blocked at a first-time `yield` -/
theorem settled_task_yld {s : State} (hV : VInv s) {t : Nat} (hl : Live s t) (hp : (view s t).pending = true)
    (hbl : ∃ d ∈ (view s t).deps, s.computed d = false) : ∃ y k h, (view s t).body = .yld y k h := by
  rcases hV.pendShape t hl hp with h | ⟨k, h, hb⟩
  · exact h
  · exfalso
    obtain ⟨d, hd, hc⟩ := hbl
    rcases hV.dD t hl hp d hd with h1 | h1
    · have := hV.dD2 t hl (Or.inr ⟨k, h, hb⟩) d h1
      rw [this] at hc; cases hc
    · rw [h1] at hc; cases hc

/-- a settled uncompleted tracked future is complete after the next flush at the earliest -/
theorem settled_ge {s : State} {n : Nat} {fin : Nat → FutR} {root : Nat} (hV : VInv s)
    (hloc : ∀ f, Trk s root f → Loc s n fin f) :
    ∀ {d : Nat}, Settled s d → Trk s root d → s.computed d = false → ∃ q, fin d = .ready q ∧ n + 1 ≤ q := by
  intro d hs
  induction hs with
  | computed h => intro _ hc; rw [h] at hc; cases hc
  | @item f k q p m hk hu _ => intro ht _; exact ⟨_, (hloc f ht).item k q p m (out_none_of_uncomputed hu) hk, Nat.le_refl _⟩
  | @task t hk hu hst hp hd hbl ih =>
    intro ht _
    have hl : Live s t := ⟨hk, out_none_of_uncomputed hu, hst⟩
    obtain ⟨pv, q, LL⟩ := (hloc t ht).live hl
    obtain ⟨y, k, h, hb⟩ := settled_task_yld hV hl hp hbl
    have hpvy : pv = y := LL.hyld y k h hp hb
    subst hpvy
    refine ⟨q, LL.hfin, ?_⟩
    -- nothing awaited is unstarted
    have hno : ∀ i ∈ idxOf pv, ∀ x, ((view s t).own.map fin)[i]? ≠ some (.unstarted x) := by
      intro i hi x hx
      obtain ⟨_, e, he, hel⟩ := index_leaf LL.hpv hi
      rw [tbl_get fin _ i e he] at hx
      have hed : e ∈ (view s t).deps := hV.lv t hl hp e hel
      have hte : Trk s root e := .own ht hl (hV.depsOwn t e hed)
      obtain ⟨q', hq'⟩ := settled_ready (hd e hed) (hloc e hte)
      rw [hq'] at hx; cases hx
    -- something awaited is incomplete
    obtain ⟨d2, hd2, hc2⟩ := hbl
    have hd2l : d2 ∈ (view s t).prevY.leaves := by
      rcases hV.dD t hl hp d2 hd2 with h1 | h1
      · exact h1
      · rw [h1] at hc2; cases hc2
    obtain ⟨i, hi, _, hie⟩ := leaf_index LL.hpv hd2l
    have htd2 : Trk s root d2 := .own ht hl (hV.depsOwn t d2 hd2)
    obtain ⟨q2, hq2, hge⟩ := ih d2 hd2 htd2 hc2
    have h1 := mx_ge ((view s t).own.map fin) (idxOf pv) i q2 hi (by rw [tbl_get fin _ i d2 hie, hq2])
    have h2 := pr_yld_ge s.cfg pv k h (view s t).conts n ((view s t).own.map fin) (Inv.dens s (view s t).own) pv hno
    have hpr := LL.hpr
    rw [hb] at hpr
    omega

/-- every tracked started task is settled when the root is -/
theorem trk_settled {s : State} {n : Nat} {fin : Nat → FutR} {root : Nat}
    (hloc : ∀ f, Trk s root f → Loc s n fin f) (hroot : Settled s root) :
    ∀ {f : Nat}, Trk s root f → Live s f → Settled s f := by
  intro f hf
  induction hf with
  | root => intro _; exact hroot
  | @own t f ht hlt hm ih =>
    intro hlf
    have hst := ih hlt
    cases hst with
    | computed h =>
      have := uncomputed_of_out_none hlt.2.1
      rw [h] at this; cases this
    | item hk _ _ =>
      have hk' : (view s t).kind = _ := hk
      rw [hlt.1] at hk'; cases hk'
    | task _ _ _ hp hd _ =>
      obtain ⟨pv, q, LL⟩ := (hloc t ht).live hlt
      have hp' : (view s t).pending = true := hp
      by_cases hfd : f ∈ (view s t).deps
      · exact hd f hfd
      · exfalso
        rcases LL.hidle f hm (Or.inr hfd) with h | ⟨k, q', p, m, h⟩ | ⟨lo, h⟩ | ⟨_, h, _⟩
        · exact h hlf.2.1
        · rw [hlf.1] at h; cases h
        · rw [hlf.1] at h; cases h
        · rw [hlf.2.2] at h; cases h

theorem E_flush {k0 : Nat} {s r : State} {root R : Nat}
    (hE : E s root R) (hc : s.computed root = false) (hV : VInv s) (hS : SInv k0 s) (hB : InvB s) (hFI : P4.FI s)
    (hset : Settled s root) (hrk : (view s root).kind = .task) (F : FlushDesc s r)
    (k q : Nat) (b : Batch) (hb : s.batch? k q = some b) (hfl : b.flushed = false)
    (hcomp : ∀ i ∈ b.items, i < s.futs.length → r.computed i = true)
    (hother : ∀ f, f ∉ b.items → r.fut f = s.fut f)
    (hfc : fcount r.trace = fcount s.trace + 1) (hcfg : r.cfg = s.cfg)
    (hden : ∀ f, f < s.futs.length → (r.fut f).den = (s.fut f).den) : E r root R := by
  rcases hE with ⟨hc', _⟩ | ⟨_, fin, hfr, hloc⟩
  · rw [hc] at hc'; cases hc'
  obtain ⟨hbm, hbk, hbq⟩ := P4.batch?_some hb
  have hk0 : k = k0 := hbk.symm.trans (hS.bat.1 b hbm)
  -- the items of the flushed batch are items
  have hitem : ∀ f ∈ b.items, ∃ q' p m, (view s f).kind = .item b.kind q' p m := fun f hf => hFI.batchItems b hbm f hf
  have vsame : ∀ f, f ∉ b.items → view r f = view s f := fun f hf => by unfold view; rw [hother f hf]
  -- every uncompleted item is in the flushed batch
  have allItems : ∀ f kk qq p m, (view s f).kind = .item kk qq p m → (view s f).out = none → f ∈ b.items := by
    intro f kk qq p m hk ho
    obtain ⟨b', hb', hfl', hmem⟩ := hB.item f kk qq p m hk ho
    obtain ⟨hbm', hbk', hbq'⟩ := P4.batch?_some hb'
    obtain ⟨cur, hcur, hs1⟩ := hS.bat.2 b hbm hfl
    obtain ⟨cur', hcur', hs2⟩ := hS.bat.2 b' hbm' hfl'
    rw [hcur] at hcur'; cases hcur'
    have hkk : kk = k := by rw [← hbk', hS.bat.1 b' hbm', hk0]
    have hqq : qq = q := by rw [← hbq', hs2, ← hs1, hbq]
    subst hkk hqq
    rw [hb] at hb'; cases hb'
    exact hmem
  have hn1 : (view s root).started = true := by
    cases hset with
    | computed h => rw [hc] at h; cases h
    | item hk _ _ =>
      have hk' : (view s root).kind = _ := hk
      rw [hrk] at hk'; cases hk'
    | task _ _ hst _ _ _ => exact hst
  have hfroot : fin root = .ready R := by
    rcases hfr with h | ⟨h, _⟩
    · exact h
    · rw [hn1] at h; cases h
  have hrootNI : root ∉ b.items := by
    intro hm
    obtain ⟨_, _, _, h⟩ := hitem root hm
    rw [hrk] at h; cases h
  have hcr : r.computed root = false := by rw [computed_of_view (vsame root hrootNI)]; exact hc
  refine Or.inr ⟨hcr, fin, Or.inl hfroot, ?_⟩
  intro f hf
  rw [hfc]
  -- tracked in `r` implies tracked in `s`: started uncompleted tasks are untouched
  have liveS : ∀ t, Live r t → t ∉ b.items := by
    intro t hl hm
    obtain ⟨q', p, m, h⟩ := hitem t hm
    have hkr : (view r t).kind = (view s t).kind := (mild_flush F t).kind
    rw [hl.1] at hkr
    rw [h] at hkr; cases hkr
  have hfs : Trk s root f := Trk.of_sub (fun t x hl hx => by
    have e := vsame t (liveS t hl)
    rw [Live, e] at hl
    rw [e] at hx
    exact ⟨hl, hx⟩) hf
  have L := hloc f hfs
  have hflt : f < r.futs.length := by rw [F.len]; exact L.lt
  by_cases hfb : f ∈ b.items
  · -- a flushed item
    have hcf : r.computed f = true := hcomp f hfb L.lt
    have hor : (view r f).out ≠ none := by
      intro h; have := uncomputed_of_out_none h; rw [hcf] at this; cases this
    refine Loc.of_done hflt hor ?_
    obtain ⟨q', p, m, hk⟩ := hitem f hfb
    cases ho : (view s f).out with
    | none => exact ⟨_, Nat.le_refl _, L.item _ _ _ _ ho hk⟩
    | some o =>
      obtain ⟨q2, h1, h2⟩ := L.done (by rw [ho]; simp)
      exact ⟨q2, by omega, h2⟩
  · have e := vsame f hfb
    -- idleness is inherited
    have idleT : ∀ d, Idle s d → Idle r d := by
      intro d hid
      by_cases hdb : d ∈ b.items
      · have hltd : d < s.futs.length := by
          obtain ⟨_, _, _, hk⟩ := hitem d hdb
          exact lt_of_kind_ne_const s d (by rw [hk]; simp)
        refine Idle.of_done ?_
        intro h; have := uncomputed_of_out_none h; rw [hcomp d hdb hltd] at this; cases this
      · exact hid.of_view ⟨_, by rw [vsame d hdb]; rfl⟩ (by rw [F.stack]; exact id)
    refine ⟨hflt, ?_, ?_, ?_, ?_, ?_, ?_⟩
    · intro ho; rw [e] at ho
      obtain ⟨q', h1, h2⟩ := L.done ho
      exact ⟨q', by omega, h2⟩
    · intro kk qq p m ho hk
      rw [e] at ho hk
      exact absurd (allItems f kk qq p m hk ho) hfb
    · intro lo ho hk
      rw [e] at ho hk
      obtain ⟨q', h1, h2⟩ := L.lazy lo ho hk
      exact ⟨q', by omega, h2⟩
    · intro ho; rw [e] at ho ⊢; exact L.noconst ho
    · intro ho hk hs
      rw [e] at ho hk hs ⊢
      rw [hcfg]; exact L.fresh ho hk hs
    · intro hl
      rw [Live, e] at hl
      have hl' : Live s f := hl
      obtain ⟨pv, q', LL⟩ := L.live hl'
      have hsf := trk_settled hloc hset hfs hl'
      cases hsf with
      | computed h =>
        have := uncomputed_of_out_none hl'.2.1
        rw [h] at this; cases this
      | item hk _ _ =>
        have hk' : (view s f).kind = _ := hk
        rw [hl'.1] at hk'; cases hk'
      | task _ _ _ hp hd hbl =>
        have hp' : (view s f).pending = true := hp
        obtain ⟨y, kb, h, hbd⟩ := settled_task_yld hV hl' hp' hbl
        have hpvy : pv = y := LL.hyld y kb h hp' hbd
        subst hpvy
        refine ⟨pv, q', LL.hfin, by rw [e]; exact LL.hpv, ?_, ?_, ?_⟩
        · rw [e, hcfg, dens_congr (fun d hd' => hden d (hV.ownLt f d hd'))]
          have hno : ∀ i ∈ idxOf pv, ∀ x, ((view s f).own.map fin)[i]? ≠ some (.unstarted x) := by
            intro i hi x hx
            obtain ⟨_, e', he, hel⟩ := index_leaf LL.hpv hi
            rw [tbl_get fin _ i e' he] at hx
            have hed : e' ∈ (view s f).deps := hV.lv f hl' hp' e' hel
            have hte : Trk s root e' := .own hfs hl' (hV.depsOwn f e' hed)
            obtain ⟨q2, hq2⟩ := settled_ready (hd e' hed) (hloc e' hte)
            rw [hq2] at hx; cases hx
          obtain ⟨d2, hd2, hc2⟩ := hbl
          have hd2l : d2 ∈ (view s f).prevY.leaves := by
            rcases hV.dD f hl' hp' d2 hd2 with h1 | h1
            · exact h1
            · rw [h1] at hc2; cases hc2
          obtain ⟨i, hi, _, hie⟩ := leaf_index LL.hpv hd2l
          have htd2 : Trk s root d2 := .own hfs hl' (hV.depsOwn f d2 hd2)
          obtain ⟨q2, hq2, hge⟩ := settled_ge hV hloc (hd d2 hd2) htd2 hc2
          have hbl' : ∃ i ∈ idxOf pv, ∃ q, ((view s f).own.map fin)[i]? = some (.ready q) ∧ fcount s.trace + 1 ≤ q :=
            ⟨i, hi, q2, by rw [tbl_get fin _ i d2 hie, hq2], hge⟩
          rw [hbd]
          rw [pr_flush s.cfg pv kb h (view s f).conts (fcount s.trace) _ _ pv hno hbl']
          have hpr := LL.hpr
          rw [hbd] at hpr
          exact hpr
        · intro d hd' hob
          rw [e] at hd' hob
          exact idleT d (LL.hidle d hd' hob)
        · intro y' k' h' hp'' hb'
          rw [e] at hp'' hb'
          exact LL.hyld y' k' h' hp'' hb'

end AsynqModel.Core.P19
