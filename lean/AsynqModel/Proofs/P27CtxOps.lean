import AsynqModel.Proofs.P7Exit
import AsynqModel.Proofs.P16J
/-!
  P27, C07 part 1: the context operations of the machine (`_resume_contexts`, `_pause_contexts`, `__exit__`, `__enter__`,
  the end of a task) WITHOUT the hypothesis that no NonAsyncContext exists (`P7.NA`) - the statements of
  `Proofs/P7Ops.lean` / `P7Exit.lean` with the registered contexts of a task replaced by its LIVE contexts
  `lv s l` (the members of `l` that are not NonAsyncContexts: only these are ever resumed or paused), plus the new case:
  `_pause_contexts` of a task with a registered NonAsyncContext pauses its live contexts, innermost first, then fails
  the task (its open with-blocks are left without further pauses: the contexts are already inactive).
-/
namespace AsynqModel.Core.P27
open AsynqModel.Core P5 P7

/-! ### live contexts -/

/-- the members of `l` that are not NonAsyncContexts -/
def lv (s : State) (l : List Nat) : List Nat := l.filter fun c => !s.ctxIsNonAsync c

@[simp] theorem lv_nil (s : State) : lv s [] = [] := rfl

theorem lv_cons_na {s : State} {c : Nat} (l : List Nat) (h : s.ctxIsNonAsync c = true) : lv s (c :: l) = lv s l := by
  simp [lv, h]

theorem lv_cons_live {s : State} {c : Nat} (l : List Nat) (h : s.ctxIsNonAsync c = false) :
    lv s (c :: l) = c :: lv s l := by
  simp [lv, h]

theorem lv_append (s : State) (l1 l2 : List Nat) : lv s (l1 ++ l2) = lv s l1 ++ lv s l2 := by
  simp [lv]

theorem lv_reverse (s : State) (l : List Nat) : lv s l.reverse = (lv s l).reverse := by
  simp [lv, List.filter_reverse]

theorem lv_congr {s s' : State} {l : List Nat} (h : ∀ c ∈ l, s'.ctxIsNonAsync c = s.ctxIsNonAsync c) :
    lv s' l = lv s l := by
  unfold lv
  apply List.filter_congr
  intro c hc
  rw [h c hc]

theorem lv_eq_self {s : State} {l : List Nat} (h : ∀ c ∈ l, s.ctxIsNonAsync c = false) : lv s l = l := by
  unfold lv
  rw [List.filter_eq_self]
  intro c hc
  simp [h c hc]

theorem mem_lv {s : State} {l : List Nat} {c : Nat} : c ∈ lv s l ↔ c ∈ l ∧ s.ctxIsNonAsync c = false := by
  simp [lv]

theorem lv_sub {s : State} {l : List Nat} {c : Nat} (h : c ∈ lv s l) : c ∈ l := (mem_lv.1 h).1

theorem nodup_lv {s : State} {l : List Nat} (h : l.Nodup) : (lv s l).Nodup := h.filter _

theorem isNA_of_entry {s s' : State} {c : Nat} (h : s'.ctxs[c]? = s.ctxs[c]?) :
    s'.ctxIsNonAsync c = s.ctxIsNonAsync c := by
  unfold State.ctxIsNonAsync; rw [h]

theorem isNA_of_ko {s s' : State} {c : Nat} {x : CtxSt} (hx : s.ctxs[c]? = some x)
    (h : ∃ x', s'.ctxs[c]? = some x' ∧ x'.kind = x.kind ∧ x'.owner = x.owner) :
    s'.ctxIsNonAsync c = s.ctxIsNonAsync c := by
  obtain ⟨x', hx', hk, _⟩ := h
  unfold State.ctxIsNonAsync; rw [hx, hx']; simp only [hk]

/-- an operation keeps the kind of every existing context -/
theorem isNA_op {s s' : State} {t : Nat} {cs : List Nat} {b : Bool} (op : Op s s' t cs b) {c : Nat}
    (hc : c < s.ctxs.length) : s'.ctxIsNonAsync c = s.ctxIsNonAsync c := by
  obtain ⟨x, hx⟩ := entry_of_lt hc
  exact isNA_of_ko hx (op.ko c x hx)

/-! ### the loop of `_pause_contexts` with NonAsyncContexts in the list -/

theorem M_foldPauseN (l : List Nat) : ∀ (s : State) (R : List Nat), M s (lv s l ++ R) →
    M (l.foldl (flipOne false) s) R := by
  induction l with
  | nil => intro s R m; exact m
  | cons c l ih =>
    intro s R m
    rw [List.foldl_cons]
    cases hna : s.ctxIsNonAsync c with
    | true =>
      have e : flipOne false s c = s := by unfold flipOne; rw [hna]; rfl
      rw [e]
      rw [lv_cons_na l hna] at m
      exact ih s R m
    | false =>
      have e : flipOne false s c = s.ctxPauseOne c := by rw [flipOne_na _ _ _ hna]; rfl
      rw [lv_cons_live l hna, List.cons_append] at m
      have m1 := M_pause m
      have hl : lv (flipOne false s c) l = lv s l := lv_congr (fun c' _ => isNonAsync_flipOne false s c c')
      refine ih _ R ?_
      rw [hl, e]; exact m1

/-! ### `_resume_contexts` / `_pause_contexts` that do not fail -/

/-- `P7.Flip` without the clause "no NonAsyncContext exists afterwards" -/
structure Flip' (s s' : State) (t : Nat) (b : Bool) : Prop where
  op : Op s s' t (s.task t).ctxs b
  tctxs : (s'.task t).ctxs = (s.task t).ctxs
  tconts : (s'.task t).conts = (s.task t).conts
  tact : (s'.task t).ctxActive = b
  comp : ∀ f, s'.computed f = s.computed f
  ctl : s'.ctl = s.ctl
  guard : s'.guardFired = s.guardFired

theorem nafree_updTask {s : State} {t : Nat} (g : TaskSt → TaskSt) (hg1 : ∀ x, (g x).ctxs = x.ctxs)
    (ht : t < s.futs.length) (h : P2.NAfree s t) : P2.NAfree (s.updTask t g) t := by
  intro c hc
  rw [task_updTask_self _ _ _ ht, hg1] at hc
  exact h c hc

theorem flip_resume' (s : State) (t : Nat) (g : TaskSt → TaskSt) (hg1 : ∀ x, (g x).ctxs = x.ctxs)
    (hg2 : ∀ x, (g x).ctxActive = x.ctxActive) (hg3 : ∀ x, (g x).conts = x.conts) (hn : P2.NAfree s t)
    (ht : t < s.futs.length) (hact : (s.task t).ctxActive = false) :
    Flip' s ((s.updTask t g).resumeContexts t) t true ∧
    ∀ R, M s R → (s.task t).ctxs.Nodup → (∀ c ∈ (s.task t).ctxs, c ∉ R ∧ c < s.ctxs.length) →
      M ((s.updTask t g).resumeContexts t) ((s.task t).ctxs.reverse ++ R) := by
  have hts : (s.updTask t g).task t = g (s.task t) := task_updTask_self _ _ _ ht
  rw [P16.nf_resume' _ t (nafree_updTask g hg1 ht hn) (by rw [hts, hg2]; exact hact), hts, hg1]
  have hna2 : ∀ c ∈ (s.task t).ctxs,
      ((s.updTask t g).updTask t fun ts => { ts with ctxActive := true }).ctxIsNonAsync c = false :=
    fun c hc => hn c hc
  have o1 : Op s ((s.updTask t g).updTask t fun ts => { ts with ctxActive := true }) t [] true := by
    have := (op_updTask s t g true).trans (op_updTask (s.updTask t g) t (fun ts => { ts with ctxActive := true }) true)
    simpa using this
  have o2 := op_foldFlip true t (s.task t).ctxs _ hna2
  have hts2 : ((s.updTask t g).updTask t fun ts => { ts with ctxActive := true }).task t =
      { g (s.task t) with ctxActive := true } := by
    rw [task_updTask_self _ _ _ (by simpa using ht), hts]
  refine ⟨⟨by simpa using o1.trans o2, ?_, ?_, ?_, ?_, ?_, ?_⟩, ?_⟩
  · rw [task_foldFlip, hts2]; exact hg1 _
  · rw [task_foldFlip, hts2]; exact hg3 _
  · rw [task_foldFlip, hts2]
  · intro f
    simp only [State.computed, State.out, State.fut, futs_foldFlip]
    show ((s.updTask t g).updTask t _).computed f = s.computed f
    rw [computed_updTask, computed_updTask]
  · rw [(same_foldFlip true _ _).ctl]; rfl
  · rw [(same_foldFlip true _ _).guardFired]; rfl
  · intro R m hnd hc
    have m0 : M ((s.updTask t g).updTask t fun ts => { ts with ctxActive := true }) R :=
      M_frame m (fun _ _ => rfl) (Nat.le_refl _) (fun _ => rfl) id rfl
    exact M_foldResume _ _ R m0 hnd (fun c hm => ⟨(hc c hm).1, (hc c hm).2, hna2 c hm⟩)

theorem flip_pause' (s : State) (t : Nat) (g : TaskSt → TaskSt) (hg1 : ∀ x, (g x).ctxs = x.ctxs)
    (hg2 : ∀ x, (g x).ctxActive = x.ctxActive) (hg3 : ∀ x, (g x).conts = x.conts) (hn : P2.NAfree s t)
    (ht : t < s.futs.length) (hact : (s.task t).ctxActive = true) :
    Flip' s ((s.updTask t g).pauseContexts t) t false ∧
    ∀ R, M s ((s.task t).ctxs.reverse ++ R) → M ((s.updTask t g).pauseContexts t) R := by
  have hts : (s.updTask t g).task t = g (s.task t) := task_updTask_self _ _ _ ht
  rw [P16.nf_pause' _ t (nafree_updTask g hg1 ht hn) (by rw [hts, hg2]; exact hact), hts, hg1]
  have hna2 : ∀ c ∈ (s.task t).ctxs.reverse,
      ((s.updTask t g).updTask t fun ts => { ts with ctxActive := false }).ctxIsNonAsync c = false :=
    fun c hc => hn c (List.mem_reverse.1 hc)
  have o1 : Op s ((s.updTask t g).updTask t fun ts => { ts with ctxActive := false }) t [] false := by
    have := (op_updTask s t g false).trans (op_updTask (s.updTask t g) t (fun ts => { ts with ctxActive := false }) false)
    simpa using this
  have o2 := op_foldFlip false t (s.task t).ctxs.reverse _ hna2
  have hts2 : ((s.updTask t g).updTask t fun ts => { ts with ctxActive := false }).task t =
      { g (s.task t) with ctxActive := false } := by
    rw [task_updTask_self _ _ _ (by simpa using ht), hts]
  refine ⟨⟨?_, ?_, ?_, ?_, ?_, ?_, ?_⟩, ?_⟩
  · have := o1.trans o2
    exact (by simpa using this : Op s _ t (s.task t).ctxs.reverse false).perm (fun c => List.mem_reverse)
  · rw [task_foldFlip, hts2]; exact hg1 _
  · rw [task_foldFlip, hts2]; exact hg3 _
  · rw [task_foldFlip, hts2]
  · intro f
    simp only [State.computed, State.out, State.fut, futs_foldFlip]
    show ((s.updTask t g).updTask t _).computed f = s.computed f
    rw [computed_updTask, computed_updTask]
  · rw [(same_foldFlip false _ _).ctl]; rfl
  · rw [(same_foldFlip false _ _).guardFired]; rfl
  · intro R m
    have m0 : M ((s.updTask t g).updTask t fun ts => { ts with ctxActive := false }) ((s.task t).ctxs.reverse ++ R) :=
      M_frame m (fun _ _ => rfl) (Nat.le_refl _) (fun _ => rfl) id rfl
    exact M_foldPause _ _ R m0 hna2

/-! ### `__exit__` -/

/-- is `c`, a context of task `t`, paused by its `__exit__`: it is not a NonAsyncContext and `t`'s contexts are active -/
def pz (s : State) (t c : Nat) : Bool := !s.ctxIsNonAsync c && (s.task t).ctxActive

theorem pz_active {s : State} {t : Nat} (hact : (s.task t).ctxActive = true) (l : List Nat) :
    l.filter (pz s t) = lv s l := by
  unfold lv pz
  apply List.filter_congr
  intro c _
  simp [hact]

theorem pz_inactive {s : State} {t : Nat} (hact : (s.task t).ctxActive = false) (l : List Nat) :
    l.filter (pz s t) = [] := by
  rw [List.filter_eq_nil_iff]
  intro c _
  simp [pz, hact]

/-- more contexts may be listed as touched, if their flag is as claimed -/
theorem op_add {s s' : State} {t : Nat} {cs : List Nat} {b : Bool} (h : Op s s' t cs b) (extra : List Nat)
    (he : ∀ c ∈ extra, ∀ x', s'.ctxs[c]? = some x' → x'.resumed = b) : Op s s' t (cs ++ extra) b :=
  ⟨h.stack, h.len, h.tne, h.kind, h.cne, h.clen,
    fun c hc => h.ene c (fun hm => hc (List.mem_append_left _ hm)),
    fun c hc x' hx' => by
      by_cases h1 : c ∈ cs
      · exact h.eb c h1 x' hx'
      · rcases List.mem_append.1 hc with h2 | h2
        · exact absurd h2 h1
        · exact he c h2 x' hx',
    fun c h1 h2 => List.mem_append_left _ (h.new c h1 h2), h.ko, h.tr⟩

/-- the contexts `cs` (in this order) of task `t` have exited; `pre` are the ones still registered.  `P7.Exit` without
    `na`: the contexts that are paused are the live ones, and only if the task's contexts are active. -/
structure Exit' (s s' : State) (t : Nat) (cs pre : List Nat) : Prop where
  op : Op s s' t cs false
  tctxs : (s'.task t).ctxs = pre
  tact : (s'.task t).ctxActive = (s.task t).ctxActive
  tconts : (s'.task t).conts = (s.task t).conts
  comp : ∀ f, s'.computed f = s.computed f
  na : ∀ c, s'.ctxIsNonAsync c = s.ctxIsNonAsync c
  ctl : s'.ctl = s.ctl
  guard : s'.guardFired = s.guardFired
  m : ∀ R, M s (cs.filter (pz s t) ++ R) → M s' R

theorem Exit'.pz_eq {s s' : State} {t : Nat} {cs pre : List Nat} (h : Exit' s s' t cs pre) : pz s' t = pz s t := by
  funext c
  simp [pz, h.na c, h.tact]

theorem Exit'.trans {s s1 s2 : State} {t : Nat} {cs1 cs2 pre1 pre2 : List Nat} (h1 : Exit' s s1 t cs1 pre1)
    (h2 : Exit' s1 s2 t cs2 pre2) : Exit' s s2 t (cs1 ++ cs2) pre2 :=
  ⟨h1.op.trans h2.op, h2.tctxs, h2.tact.trans h1.tact, h2.tconts.trans h1.tconts,
    fun f => (h2.comp f).trans (h1.comp f), fun c => (h2.na c).trans (h1.na c), h2.ctl.trans h1.ctl,
    h2.guard.trans h1.guard,
    fun R m => h2.m R (by
      rw [h1.pz_eq]
      exact h1.m (cs2.filter (pz s t) ++ R) (by rw [← List.append_assoc, ← List.filter_append]; exact m))⟩

theorem exit_one' (s : State) (t c : Nat) (x : CtxSt) (pre : List Nat) (hx : s.ctxs[c]? = some x)
    (ho : x.owner = some t) (hctxs : (s.task t).ctxs = pre ++ [c]) (hnd : (s.task t).ctxs.Nodup)
    (hres : pz s t c = false → x.resumed = false) : Exit' s (s.ctxExit c) t [c] pre := by
  have hcp : c ∉ pre := by
    rw [hctxs] at hnd
    intro hm
    have := (List.nodup_append.1 hnd).2.2 c hm c (by simp)
    exact this rfl
  have hisna : s.ctxIsNonAsync c = (x.kind == .nonasync) := by unfold State.ctxIsNonAsync; rw [hx]
  have o1 : Op s (eraseReg s c t) t [] false := op_updTask s t _ false
  have htctxs : ((eraseReg s c t).task t).ctxs = pre := by
    rw [ctxs_eraseReg, if_pos rfl, hctxs, List.erase_append_right _ hcp]; simp
  rw [ctxExit_some s c t x hx ho]
  by_cases hq : (x.kind == .nonasync || !(s.task t).ctxActive) = true
  · -- no pause: a NonAsyncContext, or the task's contexts are already inactive
    rw [if_pos hq]
    have hpz : pz s t c = false := by
      unfold pz; rw [hisna]
      simp only [Bool.or_eq_true, Bool.not_eq_true'] at hq
      rcases hq with h | h <;> simp [h]
    have o3 := op_emit (eraseReg s c t) (.ctxX c) t false rfl
    have o13 : Op s ((eraseReg s c t).emit (.ctxX c)) t [] false := by simpa using o1.trans o3
    have hadd : ∀ c' ∈ [c], ∀ x', ((eraseReg s c t).emit (.ctxX c)).ctxs[c']? = some x' → x'.resumed = false := by
      intro c' hc' x' hx'
      simp only [List.mem_singleton] at hc'
      subst hc'
      have : ((eraseReg s c' t).emit (.ctxX c')).ctxs = s.ctxs := rfl
      rw [this, hx] at hx'
      cases hx'
      exact hres hpz
    refine ⟨by simpa using op_add o13 [c] hadd, ?_, ?_, ?_, ?_, ?_, rfl, rfl, ?_⟩
    · rw [emit_task]; exact htctxs
    · rw [emit_task, act_eraseReg]
    · rw [emit_task, conts_eraseReg]
    · intro f
      show (eraseReg s c t).computed f = s.computed f
      exact computed_updTask s t f _
    · intro c'; rfl
    · intro R m
      have hf : [c].filter (pz s t) = [] := by simp [hpz]
      rw [hf] at m
      have m0 : M (eraseReg s c t) R := M_frame m (fun _ _ => rfl) (Nat.le_refl _) (fun _ => rfl) id rfl
      exact M_frame m0 (fun _ _ => rfl) (Nat.le_refl _) (fun _ => rfl) id (lifo_cons_other _ _ rfl)
  · rw [if_neg hq]
    have hpz : pz s t c = true := by
      unfold pz; rw [hisna]
      simp only [Bool.or_eq_true, Bool.not_eq_true', not_or] at hq
      cases h1 : (x.kind == .nonasync) <;> cases h2 : (s.task t).ctxActive <;> simp_all
    have hf := flagOp_pause (eraseReg s c t) c
    have hs := same_pauseOne (eraseReg s c t) c
    have o2 : Op (eraseReg s c t) ((eraseReg s c t).ctxPauseOne c) t [c] false := op_flag hf hs t
    have o3 := op_emit ((eraseReg s c t).ctxPauseOne c) (.ctxX c) t false rfl
    refine ⟨by simpa using (o1.trans o2).trans o3, ?_, ?_, ?_, ?_, ?_, ?_, ?_, ?_⟩
    · rw [emit_task, hf.task]; exact htctxs
    · rw [emit_task, hf.task, act_eraseReg]
    · rw [emit_task, hf.task, conts_eraseReg]
    · intro f
      show ((eraseReg s c t).ctxPauseOne c).computed f = s.computed f
      rw [hf.computed]; exact computed_updTask s t f _
    · intro c'
      show ((eraseReg s c t).ctxPauseOne c).ctxIsNonAsync c' = s.ctxIsNonAsync c'
      rw [isNonAsync_flag hf]; rfl
    · show ((eraseReg s c t).ctxPauseOne c).ctl = s.ctl
      rw [hs.ctl]; rfl
    · show ((eraseReg s c t).ctxPauseOne c).guardFired = s.guardFired
      rw [hs.guardFired]; rfl
    · intro R m
      have hfl : [c].filter (pz s t) = [c] := by simp [hpz]
      rw [hfl] at m
      have m0 : M (eraseReg s c t) (c :: R) := M_frame m (fun _ _ => rfl) (Nat.le_refl _) (fun _ => rfl) id rfl
      have m1 := M_pause m0
      exact M_frame m1 (fun _ _ => rfl) (Nat.le_refl _) (fun _ => rfl) id (lifo_cons_other _ _ rfl)

theorem exit_nil' (s : State) (t : Nat) : Exit' s s t [] (s.task t).ctxs :=
  ⟨op_nil_refl s t false, rfl, rfl, rfl, fun _ => rfl, fun _ => rfl, rfl, rfl, fun _ m => m⟩

/-- what `exit_fold'` needs to know about a context: it exists, belongs to `t`, and is not resumed unless `__exit__`
    is going to pause it -/
def ExOK (s : State) (t c : Nat) : Prop :=
  ∃ x : CtxSt, s.ctxs[c]? = some x ∧ x.owner = some t ∧ (pz s t c = false → x.resumed = false)

theorem exit_fold' (t : Nat) : ∀ (l : List (Nat × Body)) (s : State) (pre : List Nat),
    (s.task t).ctxs = pre ++ (l.map (·.1)).reverse → (s.task t).ctxs.Nodup → (l.map (·.1)).Nodup →
    (∀ c ∈ l.map (·.1), ExOK s t c) →
    Exit' s (l.foldl (fun s p => s.ctxExit p.1) s) t (l.map (·.1)) pre := by
  intro l
  induction l with
  | nil =>
    intro s pre hctxs _ _ _
    have := exit_nil' s t
    simp only [List.map_nil, List.reverse_nil, List.append_nil] at hctxs
    rw [hctxs] at this
    exact this
  | cons p l ih =>
    intro s pre hctxs hnd hnd2 hown
    rw [List.foldl_cons]
    obtain ⟨x, hx, ho, hres⟩ := hown p.1 (by simp)
    have hctxs' : (s.task t).ctxs = (pre ++ (l.map (·.1)).reverse) ++ [p.1] := by
      rw [hctxs]; simp
    have e1 := exit_one' s t p.1 x _ hx ho hctxs' hnd hres
    have hnd1 : ((s.ctxExit p.1).task t).ctxs.Nodup := by
      rw [e1.tctxs]
      rw [hctxs'] at hnd
      exact (List.nodup_append.1 hnd).1
    rw [List.map_cons, List.nodup_cons] at hnd2
    have e2 := ih (s.ctxExit p.1) pre e1.tctxs hnd1 hnd2.2 (by
      intro c hc
      obtain ⟨y, hy, hyo, hyr⟩ := hown c (by simp at hc ⊢; exact .inr hc)
      have hne : c ∉ [p.1] := by
        simp only [List.mem_singleton]
        intro h; exact hnd2.1 (h ▸ hc)
      have hlt : c < s.ctxs.length := lt_of_getElem?_some hy
      refine ⟨y, by rw [e1.op.ene c hne hlt]; exact hy, hyo, ?_⟩
      rw [e1.pz_eq]; exact hyr)
    have := e1.trans e2
    simpa using this

/-! ### the end of a task, the end of a with-block -/

/-- `P7.GenOp` without `na` -/
structure GenOp' (s r : State) (t : Nat) (cs : List Nat) (b : Bool) (ctxs' : List Nat) (conts' : List (Nat × Body)) :
    Prop where
  op : Op s r t cs b
  tctxs : (r.task t).ctxs = ctxs'
  tconts : (r.task t).conts = conts'
  tact : (r.task t).ctxActive = (s.task t).ctxActive
  guard : r.guardFired = s.guardFired

/-- the heap-only tail of `finishTask` / `failSuspended` after the exits: forget the with-blocks, clear `pending`,
    store the outcome -/
theorem finish_tail (s s1 : State) (t : Nat) (o : Outcome) (cs : List Nat) (ht : t < s.futs.length)
    (op1 : Op s s1 t cs false) :
    let r := ((s1.updTask t fun ts => { ts with conts := [] }).updTask t fun ts => { ts with pending := false }).complete t o
    Op s r t cs false ∧ (r.task t).ctxs = (s1.task t).ctxs ∧ (r.task t).conts = [] ∧
      (r.task t).ctxActive = (s1.task t).ctxActive ∧ r.guardFired = s1.guardFired ∧ r.ctl = s1.ctl ∧
      r.computed t = true ∧ ∀ R, M s1 R → M r R := by
  intro r
  have hlen1 : t < s1.futs.length := by rw [op1.len]; exact ht
  have o2 := op_updTask s1 t (fun ts => { ts with conts := [] }) false
  have o3 := op_updTask (s1.updTask t fun ts => { ts with conts := [] }) t (fun ts => { ts with pending := false }) false
  have o4 := op_complete ((s1.updTask t fun ts => { ts with conts := [] }).updTask t fun ts => { ts with pending := false })
    t o false
  have x4 := ext_complete ((s1.updTask t fun ts => { ts with conts := [] }).updTask t fun ts => { ts with pending := false })
    t o
  have ht2 : (s1.updTask t fun ts => { ts with conts := [] }).task t = { s1.task t with conts := [] } :=
    task_updTask_self _ _ _ hlen1
  have ht3 : ((s1.updTask t fun ts => { ts with conts := [] }).updTask t fun ts => { ts with pending := false }).task t
      = { s1.task t with conts := [], pending := false } := by
    rw [task_updTask_self _ _ _ (by simpa using hlen1), ht2]
  refine ⟨?_, ?_, ?_, ?_, rfl, rfl, ?_, ?_⟩
  · have := ((op1.trans o2).trans o3).trans o4
    simpa using this
  · show (r.task t).ctxs = _
    rw [x4.tctxs, ht3]
  · show (r.task t).conts = _
    rw [x4.tconts, ht3]
  · show (r.task t).ctxActive = _
    rw [x4.tact, ht3]
  · exact computed_complete_self _ _ _ (by simpa using hlen1)
  · intro R m1
    have m3 : M ((s1.updTask t fun ts => { ts with conts := [] }).updTask t fun ts => { ts with pending := false }) R :=
      M_frame m1 (fun _ _ => rfl) (Nat.le_refl _) (fun _ => rfl) id rfl
    exact M_ext x4 m3

theorem finish_spec' (s : State) (t : Nat) (old : Option Nat) (o : Outcome) (ht : t < s.futs.length)
    (hact : (s.task t).ctxActive = true) (hk1 : (s.task t).conts.map (·.1) = (s.task t).ctxs.reverse)
    (hnd : (s.task t).ctxs.Nodup) (hown : ∀ c ∈ (s.task t).ctxs, ExOK s t c) :
    GenOp' s ((((s.exitAll t).updTask t fun ts => { ts with pending := false }).complete t o).leaveGen t old) t
      (s.task t).ctxs false [] [] ∧
    ∀ R, M s ((lv s (s.task t).ctxs).reverse ++ R) →
      M ((((s.exitAll t).updTask t fun ts => { ts with pending := false }).complete t o).leaveGen t old) R := by
  have e1 := exit_fold' t (s.task t).conts s [] (by rw [hk1]; simp) hnd
    (by rw [hk1]; exact nodup_reverse hnd)
    (by intro c hc; rw [hk1] at hc; exact hown c (List.mem_reverse.1 hc))
  rw [hk1] at e1
  have hex : s.exitAll t = ((s.task t).conts.foldl (fun s p => s.ctxExit p.1) s).updTask t
      (fun ts => { ts with conts := [] }) := rfl
  rw [hex]
  generalize hs1 : (s.task t).conts.foldl (fun s p => s.ctxExit p.1) s = s1 at e1 ⊢
  obtain ⟨op4, hc4, hk4, ha4, hg4, _, _, hm4⟩ := finish_tail s s1 t o _ ht e1.op
  generalize hr4 : ((s1.updTask t fun ts => { ts with conts := [] }).updTask t
      fun ts => { ts with pending := false }).complete t o = r4 at op4 hc4 hk4 ha4 hg4 hm4
  have o5 := op_leaveGen r4 t old false
  have x5 := ext_leaveGen r4 t old
  refine ⟨⟨?_, ?_, ?_, ?_, ?_⟩, ?_⟩
  · have := op4.trans o5
    exact (by simpa using this : Op s _ t (s.task t).ctxs.reverse false).perm (fun c => List.mem_reverse)
  · rw [x5.tctxs, hc4]; exact e1.tctxs
  · rw [x5.tconts, hk4]
  · rw [x5.tact, ha4]; exact e1.tact
  · rw [← e1.guard, ← hg4]; rfl
  · intro R m
    have m1 := e1.m R (by rw [pz_active hact, lv_reverse]; exact m)
    exact M_ext x5 (hm4 R m1)

/-- leaving the innermost with-block of the running task -/
theorem endwith_spec' (s : State) (t cid : Nat) (k : Body) (cs : List (Nat × Body))
    (ht : t < s.futs.length) (hact : (s.task t).ctxActive = true) (hconts : (s.task t).conts = (cid, k) :: cs)
    (hk1 : (s.task t).conts.map (·.1) = (s.task t).ctxs.reverse) (hnd : (s.task t).ctxs.Nodup)
    (hex : ExOK s t cid) :
    GenOp' s ((s.ctxExit cid).updTask t fun ts => { ts with conts := cs, body := k }) t [cid] false
      (cs.map (·.1)).reverse cs ∧
    (∀ f, ((s.ctxExit cid).updTask t fun ts => { ts with conts := cs, body := k }).computed f = s.computed f) ∧
    ∀ R, M s (lv s [cid] ++ R) → M ((s.ctxExit cid).updTask t fun ts => { ts with conts := cs, body := k }) R := by
  have hctxs : (s.task t).ctxs = (cs.map (·.1)).reverse ++ [cid] := by
    have := congrArg List.reverse hk1
    rw [List.reverse_reverse, hconts] at this
    rw [← this]; simp
  obtain ⟨x, hx, ho, hres⟩ := hex
  have e1 := exit_one' s t cid x _ hx ho hctxs hnd hres
  have hlen1 : t < (s.ctxExit cid).futs.length := by rw [e1.op.len]; exact ht
  have o2 := op_updTask (s.ctxExit cid) t (fun ts => { ts with conts := cs, body := k }) false
  have ht2 : ((s.ctxExit cid).updTask t fun ts => { ts with conts := cs, body := k }).task t =
      { (s.ctxExit cid).task t with conts := cs, body := k } := task_updTask_self _ _ _ hlen1
  refine ⟨⟨by simpa using e1.op.trans o2, ?_, ?_, ?_, e1.guard⟩,
    fun f => by rw [computed_updTask]; exact e1.comp f, ?_⟩
  · rw [ht2]; exact e1.tctxs
  · rw [ht2]
  · rw [ht2]; exact e1.tact
  · intro R m
    exact M_frame (e1.m R (by rw [pz_active hact]; exact m)) (fun _ _ => rfl) (Nat.le_refl _) (fun _ => rfl) id rfl

/-! ### `_pause_contexts` of a task with a registered NonAsyncContext: the task is failed -/

theorem op_foldFlipN (b : Bool) (t : Nat) (l : List Nat) : ∀ (s : State), Op s (l.foldl (flipOne b) s) t (lv s l) b := by
  induction l with
  | nil => intro s; exact op_nil_refl s t b
  | cons c l ih =>
    intro s
    rw [List.foldl_cons]
    cases hna : s.ctxIsNonAsync c with
    | true =>
      have e : flipOne b s c = s := by unfold flipOne; rw [hna]; rfl
      rw [e, lv_cons_na l hna]; exact ih s
    | false =>
      have hl : lv (flipOne b s c) l = lv s l := lv_congr (fun c' _ => isNonAsync_flipOne b s c c')
      have := (op_flipOne b s c t hna).trans (ih (flipOne b s c))
      rw [hl] at this
      rw [lv_cons_live l hna]
      simpa using this

/-- the state after the failure: the task is computed, has no registered context and no open with-block left -/
structure Fail (s r : State) (t : Nat) : Prop where
  op : Op s r t (s.task t).ctxs false
  tctxs : (r.task t).ctxs = []
  tconts : (r.task t).conts = []
  tact : (r.task t).ctxActive = false
  compT : r.computed t = true
  ctl : r.ctl = s.ctl
  guard : r.guardFired = s.guardFired

theorem pause_fail_spec (s : State) (t : Nat) (g : TaskSt → TaskSt) (hg1 : ∀ x, (g x).ctxs = x.ctxs)
    (hg2 : ∀ x, (g x).ctxActive = x.ctxActive) (hg3 : ∀ x, (g x).conts = x.conts)
    (ht : t < s.futs.length) (hact : (s.task t).ctxActive = true) (hna : ¬ P2.NAfree s t)
    (hnc : s.computed t = false) (hk1 : (s.task t).conts.map (·.1) = (s.task t).ctxs.reverse)
    (hnd : (s.task t).ctxs.Nodup)
    (hown : ∀ c ∈ (s.task t).ctxs, ∃ x : CtxSt, s.ctxs[c]? = some x ∧ x.owner = some t ∧
      (x.kind = .nonasync → x.resumed = false)) :
    Fail s ((s.updTask t g).pauseContexts t) t ∧
    ∀ R, M s ((lv s (s.task t).ctxs).reverse ++ R) → M ((s.updTask t g).pauseContexts t) R := by
  have hts : (s.updTask t g).task t = g (s.task t) := task_updTask_self _ _ _ ht
  rw [pauseContexts_eq]
  have hact1 : ((s.updTask t g).task t).ctxActive = true := by rw [hts, hg2]; exact hact
  simp only [hact1, Bool.not_true, Bool.false_eq_true, if_false]
  rw [hts, hg1]
  -- the state before the loop, and after it
  generalize hs1 : (s.updTask t g).updTask t (fun ts => { ts with ctxActive := false }) = s1
  have hts1 : s1.task t = { g (s.task t) with ctxActive := false } := by
    rw [← hs1, task_updTask_self _ _ _ (by simpa using ht), hts]
  have o1 : Op s s1 t [] false := by
    rw [← hs1]
    have := (op_updTask s t g false).trans (op_updTask (s.updTask t g) t (fun ts => { ts with ctxActive := false }) false)
    simpa using this
  have hna1 : ∀ c, s1.ctxIsNonAsync c = s.ctxIsNonAsync c := by intro c; rw [← hs1]; rfl
  have hctx1 : s1.ctxs = s.ctxs := by rw [← hs1]; rfl
  have o2 := op_foldFlipN false t (s.task t).ctxs.reverse s1
  rw [lv_congr (s := s) (s' := s1) (fun c _ => hna1 c)] at o2
  generalize hs2 : (s.task t).ctxs.reverse.foldl (flipOne false) s1 = s2 at o2
  have hna2 : ∀ c, s2.ctxIsNonAsync c = s.ctxIsNonAsync c := by
    intro c; rw [← hs2, isNonAsync_foldFlip]; exact hna1 c
  have hts2 : s2.task t = { g (s.task t) with ctxActive := false } := by rw [← hs2, task_foldFlip]; exact hts1
  have hany : (s.task t).ctxs.any s2.ctxIsNonAsync = true := by
    rw [List.any_eq_true]
    refine Classical.byContradiction fun hne => hna ?_
    intro c hc
    cases hcc : s.ctxIsNonAsync c with
    | false => rfl
    | true => exact absurd ⟨c, hc, by rw [hna2]; exact hcc⟩ hne
  rw [if_pos hany]
  have o12 : Op s s2 t (lv s (s.task t).ctxs.reverse) false := by simpa using o1.trans o2
  -- every registered context of `t` is paused now
  have hoff : ∀ c ∈ (s.task t).ctxs, ∀ x', s2.ctxs[c]? = some x' → x'.resumed = false := by
    intro c hc x' hx'
    by_cases hl : c ∈ lv s (s.task t).ctxs.reverse
    · exact o12.eb c hl x' hx'
    · obtain ⟨x, hx, _, hres⟩ := hown c hc
      rw [o12.ene c hl (lt_of_getElem?_some hx), hx] at hx'
      cases hx'
      apply hres
      have : s.ctxIsNonAsync c = true := by
        cases hcc : s.ctxIsNonAsync c with
        | true => rfl
        | false => exact absurd (mem_lv.2 ⟨List.mem_reverse.2 hc, hcc⟩) hl
      unfold State.ctxIsNonAsync at this
      rw [hx] at this
      simpa using this
  have oall : Op s s2 t (s.task t).ctxs false := by
    have := op_add o12 (s.task t).ctxs hoff
    refine this.perm (fun c => ?_)
    constructor
    · intro h
      rcases List.mem_append.1 h with h | h
      · exact List.mem_reverse.1 (lv_sub h)
      · exact h
    · intro h; exact List.mem_append_right _ h
  have hc2 : s2.computed t = false := by
    rw [← hs2]
    simp only [State.computed, State.out, State.fut, futs_foldFlip]
    show s1.computed t = false
    rw [← hs1, computed_updTask, computed_updTask]; exact hnc
  have hg2' : s2.guardFired = s.guardFired := by
    rw [← hs2, (same_foldFlip false _ _).guardFired, ← hs1]; rfl
  have hctl2 : s2.ctl = s.ctl := by
    rw [← hs2, (same_foldFlip false _ _).ctl, ← hs1]; rfl
  unfold State.failSuspended
  rw [if_neg (by rw [hc2]; simp)]
  have hex : s2.exitAll t = ((s2.task t).conts.foldl (fun s p => s.ctxExit p.1) s2).updTask t
      (fun ts => { ts with conts := [] }) := rfl
  rw [hex]
  have hctxs2 : (s2.task t).ctxs = (s.task t).ctxs := by rw [hts2]; exact hg1 _
  have hconts2 : (s2.task t).conts = (s.task t).conts := by rw [hts2]; exact hg3 _
  have hact2 : (s2.task t).ctxActive = false := by rw [hts2]
  have hmap : (s2.task t).conts.map (·.1) = (s.task t).ctxs.reverse := by rw [hconts2, hk1]
  have e1 := exit_fold' t (s2.task t).conts s2 [] (by rw [hmap, hctxs2]; simp) (by rw [hctxs2]; exact hnd)
    (by rw [hmap]; exact nodup_reverse hnd)
    (by
      intro c hc
      rw [hmap] at hc
      have hc' := List.mem_reverse.1 hc
      obtain ⟨x, hx, ho, _⟩ := hown c hc'
      obtain ⟨x', hx', _, ho'⟩ := oall.ko c x hx
      exact ⟨x', hx', ho'.trans ho, fun _ => hoff c hc' x' hx'⟩)
  rw [hmap] at e1
  generalize hs3 : (s2.task t).conts.foldl (fun s p => s.ctxExit p.1) s2 = s3 at e1 ⊢
  have o3 : Op s s3 t (s.task t).ctxs false := by
    refine (oall.trans e1.op).perm (fun c => ?_)
    constructor
    · intro h
      rcases List.mem_append.1 h with h | h
      · exact h
      · exact List.mem_reverse.1 h
    · intro h; exact List.mem_append_left _ h
  obtain ⟨op4, hc4, hk4, ha4, hg4, hl4, hcomp4, hm4⟩ := finish_tail s s3 t (.err .nonasync) _ ht o3
  refine ⟨⟨op4, ?_, hk4, ?_, hcomp4, ?_, ?_⟩, ?_⟩
  · rw [hc4]; exact e1.tctxs
  · rw [ha4, e1.tact]; exact hact2
  · rw [hl4, e1.ctl]; exact hctl2
  · rw [hg4, e1.guard]; exact hg2'
  · intro R m
    have m0 : M s1 ((lv s (s.task t).ctxs).reverse ++ R) := by
      rw [← hs1]
      exact M_frame m (fun _ _ => rfl) (Nat.le_refl _) (fun _ => rfl) id rfl
    have m2 : M s2 R := by
      rw [← hs2]
      refine M_foldPauseN _ s1 R ?_
      rw [lv_congr (s := s) (s' := s1) (fun c _ => hna1 c), lv_reverse]
      exact m0
    have m3 : M s3 R := e1.m R (by rw [pz_inactive hact2]; exact m2)
    exact hm4 R m3

/-! ### entering a with-block -/

/-- `P7.enter_spec` without `NA`: entering an AsyncContext -/
theorem enter_spec' (s s0 : State) (t : Nat) (c : CtxKind) (b k : Body) (hc : c ≠ .nonasync)
    (ht : t < s.futs.length) (ha : s.active = some t) (h0 : s0 = s ∨ ∃ var, s0 = s.svTouch var) :
    GenOp' s (enterSt s s0 t c b k) t [s.ctxs.length] true ((s.task t).ctxs ++ [s.ctxs.length])
      ((s.ctxs.length, k) :: (s.task t).conts) ∧
    (∀ x' : CtxSt, (enterSt s s0 t c b k).ctxs[s.ctxs.length]? = some x' → x'.owner = some t) ∧
    (∀ f, (enterSt s s0 t c b k).computed f = s.computed f) ∧
    ∀ R, M s R → M (enterSt s s0 t c b k) (s.ctxs.length :: R) := by
  -- facts about `s0`
  have h0f : s0.futs = s.futs := by rcases h0 with rfl | ⟨v, rfl⟩ <;> simp
  have h0c : s0.ctxs = s.ctxs := by rcases h0 with rfl | ⟨v, rfl⟩ <;> simp
  have h0t : s0.trace = s.trace := by rcases h0 with rfl | ⟨v, rfl⟩ <;> simp
  have h0a : s0.active = s.active := by rcases h0 with rfl | ⟨v, rfl⟩ <;> simp
  have h0st : s0.stack = s.stack := by rcases h0 with rfl | ⟨v, rfl⟩ <;> simp
  have h0g : s0.guardFired = s.guardFired := by rcases h0 with rfl | ⟨v, rfl⟩ <;> simp
  have h0sv : ∀ v, s0.svGet v = s.svGet v := by
    rcases h0 with rfl | ⟨v, rfl⟩
    · intro _; rfl
    · exact svGet_svTouch s v
  have h0svn : (s.sv.map (·.1)).Nodup → (s0.sv.map (·.1)).Nodup := by
    rcases h0 with rfl | ⟨v, rfl⟩
    · exact id
    · exact svn_svTouch s v
  have h0task : ∀ u, s0.task u = s.task u := fun u => by simp [State.task, State.fut, h0f]
  have h0fut : ∀ u, s0.fut u = s.fut u := fun u => by simp [State.fut, h0f]
  have hck : (c == CtxKind.nonasync) = false := by simpa using hc
  -- the new context object and the state after `enter_context`
  let new : CtxSt := { kind := c, owner := s0.active }
  let B : State := { (s0.emit (.ctxN s.ctxs.length t c)) with ctxs := s0.ctxs ++ [new] }
  have hN : newCtx s0 s.ctxs.length t c = B.updTask t fun ts => { ts with ctxs := ts.ctxs ++ [s.ctxs.length] } := by
    have hh : s0.active = some t := h0a.trans ha
    unfold newCtx
    simp only [emit_active]
    split
    · next a heq => rw [hh] at heq; cases heq; rfl
    · next heq => rw [hh] at heq; cases heq
  have hBtask : ∀ u, B.task u = s.task u := fun u => h0task u
  have hBlen : B.futs.length = s.futs.length := by show s0.futs.length = _; rw [h0f]
  have hNt : (newCtx s0 s.ctxs.length t c).task t = { s.task t with ctxs := (s.task t).ctxs ++ [s.ctxs.length] } := by
    rw [hN, task_updTask_self _ _ _ (by rw [hBlen]; exact ht), hBtask]
  have hNne : ∀ u, u ≠ t → (newCtx s0 s.ctxs.length t c).task u = s.task u := by
    intro u hu; rw [hN, task_updTask_ne _ _ _ _ hu, hBtask]
  have hNctxs : (newCtx s0 s.ctxs.length t c).ctxs = s.ctxs ++ [new] := by rw [hN]; show s0.ctxs ++ [new] = _; rw [h0c]
  have hNent : (newCtx s0 s.ctxs.length t c).ctxs[s.ctxs.length]? = some new := by rw [hNctxs]; simp
  have hNold : ∀ c', c' < s.ctxs.length → (newCtx s0 s.ctxs.length t c).ctxs[c']? = s.ctxs[c']? := by
    intro c' hc'; rw [hNctxs, List.getElem?_append_left hc']
  have hf := flagOp_resume (newCtx s0 s.ctxs.length t c) s.ctxs.length
  have hs := same_resumeOne (newCtx s0 s.ctxs.length t c) s.ctxs.length
  obtain ⟨xn, hxn, hxk, hxo, hxr⟩ := hf.eq new hNent
  -- unfold the final state
  have hr : enterSt s s0 t c b k = ((newCtx s0 s.ctxs.length t c).ctxResumeOne s.ctxs.length).updTask t
      fun ts => { ts with conts := (s.ctxs.length, k) :: ts.conts, body := b } := by
    unfold enterSt; rw [hck]; rfl
  rw [hr]
  have hXlen : ((newCtx s0 s.ctxs.length t c).ctxResumeOne s.ctxs.length).futs.length = s.futs.length := by
    rw [hf.futs, hN]; simpa using hBlen
  have hrt : (((newCtx s0 s.ctxs.length t c).ctxResumeOne s.ctxs.length).updTask t
      fun ts => { ts with conts := (s.ctxs.length, k) :: ts.conts, body := b }).task t =
      { s.task t with ctxs := (s.task t).ctxs ++ [s.ctxs.length], conts := (s.ctxs.length, k) :: (s.task t).conts,
                      body := b } := by
    rw [task_updTask_self _ _ _ (by rw [hXlen]; exact ht), hf.task, hNt]
  have hcomp : ∀ f, (((newCtx s0 s.ctxs.length t c).ctxResumeOne s.ctxs.length).updTask t
      fun ts => { ts with conts := (s.ctxs.length, k) :: ts.conts, body := b }).computed f = s.computed f := by
    intro f
    rw [computed_updTask, hf.computed, hN, computed_updTask]
    show s0.computed f = _
    simp [State.computed, State.out, h0fut]
  have hXlenc : ((newCtx s0 s.ctxs.length t c).ctxResumeOne s.ctxs.length).ctxs.length = s.ctxs.length + 1 := by
    rw [hf.len, hNctxs]; simp
  have hXold : ∀ c', c' < s.ctxs.length →
      ((newCtx s0 s.ctxs.length t c).ctxResumeOne s.ctxs.length).ctxs[c']? = s.ctxs[c']? := by
    intro c' hc'; rw [hf.ne c' (by omega), hNold c' hc']
  refine ⟨⟨⟨?_, ?_, ?_, ?_, fun f _ => hcomp f, ?_, ?_, ?_, ?_, ?_, ?_⟩, ?_, ?_, ?_, ?_⟩, ?_, hcomp, ?_⟩
  · show ((newCtx s0 s.ctxs.length t c).ctxResumeOne s.ctxs.length).stack = s.stack
    rw [hs.stack, hN]; exact h0st
  · rw [updTask_len]; exact hXlen
  · intro u hu; rw [task_updTask_ne _ _ _ _ hu, hf.task, hNne u hu]
  · intro f
    rw [kind_updTask]
    show (((newCtx s0 s.ctxs.length t c).ctxResumeOne s.ctxs.length).fut f).kind = _
    have : ((newCtx s0 s.ctxs.length t c).ctxResumeOne s.ctxs.length).fut f = (newCtx s0 s.ctxs.length t c).fut f := by
      simp [State.fut, hf.futs]
    rw [this, hN, kind_updTask]
    show (s0.fut f).kind = _
    rw [h0fut]
  · show s.ctxs.length ≤ ((newCtx s0 s.ctxs.length t c).ctxResumeOne s.ctxs.length).ctxs.length
    omega
  · intro c' hc' hlt
    exact hXold c' hlt
  · intro c' hc' x' hx'
    simp only [List.mem_singleton] at hc'
    subst hc'
    rw [updTask_ctxs, hxn] at hx'
    cases hx'; exact hxr
  · intro c' h1 h2
    rw [updTask_ctxs, hXlenc] at h2
    simp only [List.mem_singleton]; omega
  · intro c' x hx
    exact ⟨x, by rw [updTask_ctxs, hXold c' (lt_of_getElem?_some hx)]; exact hx, rfl, rfl⟩
  · refine ⟨[.ctx true s.ctxs.length, .ctxN s.ctxs.length t c], ?_, by simp [nosv]⟩
    rw [updTask_trace, hf.trace, hN]
    show _ :: _ :: s0.trace = _
    rw [h0t]; rfl
  · rw [hrt]
  · rw [hrt]
  · rw [hrt]
  · show ((newCtx s0 s.ctxs.length t c).ctxResumeOne s.ctxs.length).guardFired = s.guardFired
    rw [hs.guardFired, hN]; exact h0g
  · intro x' hx'
    rw [updTask_ctxs, hxn] at hx'
    cases hx'; exact hxo.trans (h0a.trans ha)
  · intro R m
    have hval : ∀ c' ∈ R, c' < s.ctxs.length := m.valid
    have mN : M (newCtx s0 s.ctxs.length t c) R := by
      refine M_frame m (fun c' hm => hNold c' (hval c' hm)) (by rw [hNctxs]; simp) ?_ ?_ ?_
      · intro v; rw [hN]; exact h0sv v
      · intro h; rw [hN]; exact h0svn h
      · rw [hN]
        show lifo (.ctxN s.ctxs.length t c :: s0.trace) = _
        rw [lifo_cons_other _ _ rfl, h0t]
    have mX := M_resume mN (fun hm => Nat.lt_irrefl _ (hval _ hm)) (by rw [hNctxs]; simp)
    exact M_frame mX (fun _ _ => rfl) (Nat.le_refl _) (fun _ => rfl) id rfl


/-- entering a NonAsyncContext: it is registered with the running task, nothing is resumed -/
theorem enter_spec_na (s s0 : State) (t : Nat) (c : CtxKind) (b k : Body) (hc : c = .nonasync)
    (ht : t < s.futs.length) (ha : s.active = some t) (h0 : s0 = s ∨ ∃ var, s0 = s.svTouch var) :
    GenOp' s (enterSt s s0 t c b k) t [s.ctxs.length] false ((s.task t).ctxs ++ [s.ctxs.length])
      ((s.ctxs.length, k) :: (s.task t).conts) ∧
    (∀ x' : CtxSt, (enterSt s s0 t c b k).ctxs[s.ctxs.length]? = some x' → x'.owner = some t ∧ x'.kind = .nonasync) ∧
    (∀ f, (enterSt s s0 t c b k).computed f = s.computed f) ∧
    (∀ c', c' < s.ctxs.length → (enterSt s s0 t c b k).ctxs[c']? = s.ctxs[c']?) ∧
    ∀ R, M s R → M (enterSt s s0 t c b k) R := by
  -- facts about `s0`
  have h0f : s0.futs = s.futs := by rcases h0 with rfl | ⟨v, rfl⟩ <;> simp
  have h0c : s0.ctxs = s.ctxs := by rcases h0 with rfl | ⟨v, rfl⟩ <;> simp
  have h0t : s0.trace = s.trace := by rcases h0 with rfl | ⟨v, rfl⟩ <;> simp
  have h0a : s0.active = s.active := by rcases h0 with rfl | ⟨v, rfl⟩ <;> simp
  have h0st : s0.stack = s.stack := by rcases h0 with rfl | ⟨v, rfl⟩ <;> simp
  have h0g : s0.guardFired = s.guardFired := by rcases h0 with rfl | ⟨v, rfl⟩ <;> simp
  have h0sv : ∀ v, s0.svGet v = s.svGet v := by
    rcases h0 with rfl | ⟨v, rfl⟩
    · intro _; rfl
    · exact svGet_svTouch s v
  have h0svn : (s.sv.map (·.1)).Nodup → (s0.sv.map (·.1)).Nodup := by
    rcases h0 with rfl | ⟨v, rfl⟩
    · exact id
    · exact svn_svTouch s v
  have h0task : ∀ u, s0.task u = s.task u := fun u => by simp [State.task, State.fut, h0f]
  have h0fut : ∀ u, s0.fut u = s.fut u := fun u => by simp [State.fut, h0f]
  -- the new context object and the state after `enter_context`
  let new : CtxSt := { kind := c, owner := s0.active }
  let B : State := { (s0.emit (.ctxN s.ctxs.length t c)) with ctxs := s0.ctxs ++ [new] }
  have hN : newCtx s0 s.ctxs.length t c = B.updTask t fun ts => { ts with ctxs := ts.ctxs ++ [s.ctxs.length] } := by
    have hh : s0.active = some t := h0a.trans ha
    unfold newCtx
    simp only [emit_active]
    split
    · next a heq => rw [hh] at heq; cases heq; rfl
    · next heq => rw [hh] at heq; cases heq
  have hBtask : ∀ u, B.task u = s.task u := fun u => h0task u
  have hBlen : B.futs.length = s.futs.length := by show s0.futs.length = _; rw [h0f]
  have hNt : (newCtx s0 s.ctxs.length t c).task t = { s.task t with ctxs := (s.task t).ctxs ++ [s.ctxs.length] } := by
    rw [hN, task_updTask_self _ _ _ (by rw [hBlen]; exact ht), hBtask]
  have hNne : ∀ u, u ≠ t → (newCtx s0 s.ctxs.length t c).task u = s.task u := by
    intro u hu; rw [hN, task_updTask_ne _ _ _ _ hu, hBtask]
  have hNctxs : (newCtx s0 s.ctxs.length t c).ctxs = s.ctxs ++ [new] := by rw [hN]; show s0.ctxs ++ [new] = _; rw [h0c]
  have hNent : (newCtx s0 s.ctxs.length t c).ctxs[s.ctxs.length]? = some new := by rw [hNctxs]; simp
  have hNold : ∀ c', c' < s.ctxs.length → (newCtx s0 s.ctxs.length t c).ctxs[c']? = s.ctxs[c']? := by
    intro c' hc'; rw [hNctxs, List.getElem?_append_left hc']
  have hr : enterSt s s0 t c b k = (newCtx s0 s.ctxs.length t c).updTask t
      fun ts => { ts with conts := (s.ctxs.length, k) :: ts.conts, body := b } := by
    unfold enterSt; rw [hc]; rfl
  rw [hr]
  have hXlen : (newCtx s0 s.ctxs.length t c).futs.length = s.futs.length := by
    rw [hN]; simpa using hBlen
  have hrt : ((newCtx s0 s.ctxs.length t c).updTask t
      fun ts => { ts with conts := (s.ctxs.length, k) :: ts.conts, body := b }).task t =
      { s.task t with ctxs := (s.task t).ctxs ++ [s.ctxs.length], conts := (s.ctxs.length, k) :: (s.task t).conts,
                      body := b } := by
    rw [task_updTask_self _ _ _ (by rw [hXlen]; exact ht), hNt]
  have hcomp : ∀ f, ((newCtx s0 s.ctxs.length t c).updTask t
      fun ts => { ts with conts := (s.ctxs.length, k) :: ts.conts, body := b }).computed f = s.computed f := by
    intro f
    rw [computed_updTask, hN, computed_updTask]
    show s0.computed f = _
    simp [State.computed, State.out, h0fut]
  have hXlenc : (newCtx s0 s.ctxs.length t c).ctxs.length = s.ctxs.length + 1 := by
    rw [hNctxs]; simp
  refine ⟨⟨⟨?_, ?_, ?_, ?_, fun f _ => hcomp f, ?_, ?_, ?_, ?_, ?_, ?_⟩, ?_, ?_, ?_, ?_⟩, ?_, hcomp, ?_, ?_⟩
  · show (newCtx s0 s.ctxs.length t c).stack = s.stack
    rw [hN]; exact h0st
  · rw [updTask_len]; exact hXlen
  · intro u hu; rw [task_updTask_ne _ _ _ _ hu, hNne u hu]
  · intro f
    rw [kind_updTask, hN, kind_updTask]
    show (s0.fut f).kind = _
    rw [h0fut]
  · show s.ctxs.length ≤ (newCtx s0 s.ctxs.length t c).ctxs.length
    omega
  · intro c' _ hlt
    exact hNold c' hlt
  · intro c' hc' x' hx'
    simp only [List.mem_singleton] at hc'
    subst hc'
    rw [updTask_ctxs, hNent] at hx'
    cases hx'; rfl
  · intro c' h1 h2
    rw [updTask_ctxs, hXlenc] at h2
    simp only [List.mem_singleton]; omega
  · intro c' x hx
    exact ⟨x, by rw [updTask_ctxs, hNold c' (lt_of_getElem?_some hx)]; exact hx, rfl, rfl⟩
  · refine ⟨[.ctxN s.ctxs.length t c], ?_, by simp [nosv]⟩
    rw [updTask_trace, hN]
    show _ :: s0.trace = _
    rw [h0t]; rfl
  · rw [hrt]
  · rw [hrt]
  · rw [hrt]
  · show (newCtx s0 s.ctxs.length t c).guardFired = s.guardFired
    rw [hN]; exact h0g
  · intro x' hx'
    rw [updTask_ctxs, hNent] at hx'
    cases hx'
    exact ⟨h0a.trans ha, hc⟩
  · intro c' hc'
    rw [updTask_ctxs]; exact hNold c' hc'
  · intro R m
    have hval : ∀ c' ∈ R, c' < s.ctxs.length := m.valid
    have mN : M (newCtx s0 s.ctxs.length t c) R := by
      refine M_frame m (fun c' hm => hNold c' (hval c' hm)) (by rw [hNctxs]; simp) ?_ ?_ ?_
      · intro v; rw [hN]; exact h0sv v
      · intro h; rw [hN]; exact h0svn h
      · rw [hN]
        show lifo (.ctxN s.ctxs.length t c :: s0.trace) = _
        rw [lifo_cons_other _ _ rfl, h0t]
    exact M_frame mN (fun _ _ => rfl) (Nat.le_refl _) (fun _ => rfl) id rfl

end AsynqModel.Core.P27
