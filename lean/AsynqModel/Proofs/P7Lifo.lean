import AsynqModel.Proofs.P7Rel
/-!
  P7: list lemmas about `fo`, the bracket checker `lifo`, and the invariant `M s R` ("the resumed contexts form the
  stack `R`: the trace is well bracketed and ends with `R` resumed; the scoped values and the saved old values are
  those of a stack of overrides") with its behaviour under `resume()` / `pause()` of one context.
-/
namespace AsynqModel.Core.P7
open AsynqModel.Core P5

/-! ### `fo` -/

theorem fo_cons_neg {p : Nat → Bool} {t : Nat} (r : List Nat) (h : p t = false) : fo p (t :: r) = fo p r := by
  simp [fo, h]

theorem fo_cons_pos {p : Nat → Bool} {t : Nat} (r : List Nat) (h : p t = true) :
    fo p (t :: r) = t :: (fo p r).filter (· != t) := by
  simp [fo, h]

theorem mem_fo {p : Nat → Bool} {l : List Nat} {x : Nat} : x ∈ fo p l ↔ x ∈ l ∧ p x = true := by
  induction l with
  | nil => simp [fo]
  | cons t r ih =>
    by_cases h : p t = true
    · rw [fo_cons_pos r h]
      simp only [List.mem_cons, List.mem_filter, ih, bne_iff_ne, ne_eq]
      constructor
      · rintro (rfl | ⟨⟨h1, h2⟩, _⟩)
        · exact ⟨.inl rfl, h⟩
        · exact ⟨.inr h1, h2⟩
      · rintro ⟨rfl | h1, h2⟩
        · exact .inl rfl
        · by_cases hx : x = t
          · exact .inl hx
          · exact .inr ⟨⟨h1, h2⟩, hx⟩
    · have h' : p t = false := by simpa using h
      rw [fo_cons_neg r h']
      simp only [ih, List.mem_cons]
      constructor
      · rintro ⟨h1, h2⟩; exact ⟨.inr h1, h2⟩
      · rintro ⟨rfl | h1, h2⟩
        · rw [h'] at h2; cases h2
        · exact ⟨h1, h2⟩

theorem nodup_fo (p : Nat → Bool) (l : List Nat) : (fo p l).Nodup := by
  induction l with
  | nil => simp [fo]
  | cons t r ih =>
    by_cases h : p t = true
    · rw [fo_cons_pos r h, List.nodup_cons]
      exact ⟨by simp, ih.filter _⟩
    · rw [fo_cons_neg r (by simpa using h)]; exact ih

theorem fo_congr {p q : Nat → Bool} {l : List Nat} (h : ∀ x ∈ l, p x = q x) : fo p l = fo q l := by
  induction l with
  | nil => rfl
  | cons t r ih =>
    have ht := h t (by simp)
    have ih' := ih (fun x hx => h x (by simp [hx]))
    simp only [fo, ht, ih']

theorem fo_append_neg {p : Nat → Bool} (ds l : List Nat) (h : ∀ d ∈ ds, p d = false) : fo p (ds ++ l) = fo p l := by
  induction ds with
  | nil => rfl
  | cons d ds ih =>
    rw [List.cons_append, fo_cons_neg _ (h d (by simp)), ih (fun x hx => h x (by simp [hx]))]

theorem filter_ne_comm (l : List Nat) (a b : Nat) :
    (l.filter (· != a)).filter (· != b) = (l.filter (· != b)).filter (· != a) := by
  rw [List.filter_filter, List.filter_filter]
  congr 1; funext x; exact Bool.and_comm _ _

/-- removing `t` from the predicate removes it from the result -/
theorem fo_remove (p : Nat → Bool) (t : Nat) (l : List Nat) :
    fo (fun x => p x && x != t) l = (fo p l).filter (· != t) := by
  induction l with
  | nil => rfl
  | cons h r ih =>
    by_cases hh : h = t
    · subst hh
      rw [fo_cons_neg r (by simp), ih]
      by_cases hp : p h = true
      · rw [fo_cons_pos r hp, List.filter_cons]
        simp [List.filter_filter]
      · rw [fo_cons_neg r (by simpa using hp)]
    · by_cases hp : p h = true
      · rw [fo_cons_pos r (by simp [hp, hh]), fo_cons_pos r hp, ih, List.filter_cons]
        simp only [bne_iff_ne, ne_eq, hh, not_false_eq_true, if_true]
        rw [filter_ne_comm]
      · have hp' : p h = false := by simpa using hp
        rw [fo_cons_neg r (by simp [hp']), fo_cons_neg r hp', ih]

theorem filter_ne_of_not_mem {l : List Nat} {t : Nat} (h : t ∉ l) : l.filter (· != t) = l := by
  rw [List.filter_eq_self]
  intro a ha
  simp only [bne_iff_ne, ne_eq]
  intro hh; exact h (hh ▸ ha)

theorem fo_filter_self {p : Nat → Bool} {t : Nat} (l : List Nat) (h : p t = false) :
    (fo p l).filter (· != t) = fo p l :=
  filter_ne_of_not_mem (fun hm => by rw [(mem_fo.1 hm).2] at h; cases h)

/-- `fo p (t :: stk)` in one formula -/
theorem fo_head (p : Nat → Bool) (t : Nat) (stk : List Nat) :
    fo p (t :: stk) = (if p t then [t] else []) ++ (fo p stk).filter (· != t) := by
  by_cases h : p t = true
  · rw [fo_cons_pos stk h]; simp [h]
  · have h' : p t = false := by simpa using h
    rw [fo_cons_neg stk h', fo_filter_self stk h']; simp [h']

/-- the part of `fo` below the top entry `t` does not depend on `p t` -/
theorem fo_tail_congr {p q : Nat → Bool} (t : Nat) (stk : List Nat) (h : ∀ x, x ≠ t → p x = q x) :
    (fo p stk).filter (· != t) = (fo q stk).filter (· != t) := by
  rw [← fo_remove, ← fo_remove]
  apply fo_congr
  intro x _
  by_cases hx : x = t
  · simp [hx]
  · simp [h x hx]

/-! ### the resumed stack of a state -/

theorem flatMap_congr' {l : List Nat} {f g : Nat → List Nat} (h : ∀ x ∈ l, f x = g x) : l.flatMap f = l.flatMap g := by
  induction l with
  | nil => rfl
  | cons a l ih =>
    rw [List.flatMap_cons, List.flatMap_cons, h a (by simp), ih (fun x hx => h x (by simp [hx]))]

/-- the resumed contexts below those of the top-of-stack task `t` -/
def below (s : State) (t : Nat) (stk : List Nat) : List Nat :=
  ((fo (hot s) stk).filter (· != t)).flatMap fun o => (s.task o).ctxs.reverse

theorem rstack_head (s : State) (t : Nat) (stk : List Nat) (hst : s.stack = t :: stk) :
    rstack s = (if hot s t then (s.task t).ctxs.reverse else []) ++ below s t stk := by
  unfold rstack hotTasks below
  rw [hst, fo_head]
  split <;> simp

theorem below_congr {s r : State} (t : Nat) (stk : List Nat)
    (h : ∀ o, o ≠ t → (r.task o).ctxActive = (s.task o).ctxActive ∧ (r.task o).ctxs = (s.task o).ctxs) :
    below r t stk = below s t stk := by
  unfold below
  have hh : ∀ o, o ≠ t → hot r o = hot s o := fun o ho => by simp [hot, (h o ho).1, (h o ho).2]
  rw [fo_tail_congr t stk hh]
  apply flatMap_congr'
  intro o ho
  have : o ≠ t := by
    have := (List.mem_filter.1 ho).2
    simpa using this
  rw [(h o this).2]

theorem rstack_congr {s r : State} (hst : r.stack = s.stack)
    (h : ∀ o, (r.task o).ctxActive = (s.task o).ctxActive ∧ (r.task o).ctxs = (s.task o).ctxs) :
    rstack r = rstack s := by
  unfold rstack hotTasks
  have hh : hot r = hot s := by funext o; simp [hot, (h o).1, (h o).2]
  rw [hst, hh]
  apply flatMap_congr'
  intro o _
  rw [(h o).2]

/-- pushing entries that are not hot does not change the resumed stack -/
theorem rstack_push {s r : State} (ds : List Nat) (hst : r.stack = ds ++ s.stack)
    (h : ∀ o, (r.task o).ctxActive = (s.task o).ctxActive ∧ (r.task o).ctxs = (s.task o).ctxs)
    (hd : ∀ d ∈ ds, hot r d = false) : rstack r = rstack s := by
  unfold rstack hotTasks
  have hh : hot r = hot s := by funext o; simp [hot, (h o).1, (h o).2]
  rw [hst, fo_append_neg ds _ hd, hh]
  apply flatMap_congr'
  intro o _
  rw [(h o).2]

/-! ### `lifo` -/

def isCtx : Event → Bool
  | .ctx _ _ => true
  | _ => false

theorem lifo_cons_other (e : Event) (tr : List Event) (h : isCtx e = false) : lifo (e :: tr) = lifo tr := by
  cases hl : lifo tr with
  | none => simp [lifo, hl]
  | some R => cases e <;> simp_all [lifo, isCtx]

theorem lifo_append_other (evs tr : List Event) (h : ∀ e ∈ evs, isCtx e = false) : lifo (evs ++ tr) = lifo tr := by
  induction evs with
  | nil => rfl
  | cons e evs ih =>
    rw [List.cons_append, lifo_cons_other _ _ (h e (by simp)), ih (fun e he => h e (by simp [he]))]

theorem silent_not_ctx {e : Event} (h : silent e = true) : isCtx e = false := by
  cases e <;> simp_all [silent, isCtx]

theorem lifo_resume {tr : List Event} {R : List Nat} {c : Nat} (h : lifo tr = some R) (hc : c ∉ R) :
    lifo (.ctx true c :: tr) = some (c :: R) := by
  simp [lifo, h, hc]

theorem lifo_pause {tr : List Event} {R : List Nat} {c : Nat} (h : lifo tr = some (c :: R)) :
    lifo (.ctx false c :: tr) = some R := by
  simp [lifo, h]

/-- elementary reading of `lifo`: if the whole trace is well bracketed then so is every suffix (earlier part), and a
    pause event pauses the context on top of the stack of resumed contexts at that moment -/
theorem lifo_suffix {post pre : List Event} {R : List Nat} (h : lifo (post ++ pre) = some R) :
    ∃ R', lifo pre = some R' := by
  induction post generalizing R with
  | nil => exact ⟨R, h⟩
  | cons e post ih =>
    rw [List.cons_append] at h
    cases hl : lifo (post ++ pre) with
    | none => simp [lifo, hl] at h
    | some R1 => exact ih hl

theorem lifo_pause_top {pre : List Event} {c : Nat} {R : List Nat} (h : lifo (.ctx false c :: pre) = some R) :
    lifo pre = some (c :: R) := by
  cases hl : lifo pre with
  | none => simp [lifo, hl] at h
  | some R1 =>
    cases R1 with
    | nil => simp [lifo, hl] at h
    | cons c' R' =>
      simp only [lifo, hl] at h
      split at h
      · next hc => cases h; rw [hc]
      · cases h

theorem lifo_resume_fresh {pre : List Event} {c : Nat} {R : List Nat} (h : lifo (.ctx true c :: pre) = some R) :
    ∃ R', lifo pre = some R' ∧ c ∉ R' ∧ R = c :: R' := by
  cases hl : lifo pre with
  | none => simp [lifo, hl] at h
  | some R1 =>
    simp only [lifo, hl] at h
    split at h
    · cases h
    · next hc => cases h; exact ⟨R1, rfl, hc, rfl⟩

/-! ### scoped values as a stack of overrides -/

theorem expect_congr {s s' : State} (R : List Nat) (h : ∀ c ∈ R, kindOf s' c = kindOf s c) (v : Nat) :
    expect s' R v = expect s R v := by
  induction R with
  | nil => rfl
  | cons c R ih =>
    have ih' := ih (fun c hc => h c (by simp [hc]))
    simp only [expect, h c (by simp), ih']

theorem svChain_congr {s s' : State} (R : List Nat)
    (h : ∀ c ∈ R, kindOf s' c = kindOf s c ∧ oldOf s' c = oldOf s c) (hc : svChain s R) : svChain s' R := by
  induction R with
  | nil => trivial
  | cons c R ih =>
    obtain ⟨h1, h2⟩ := hc
    refine ⟨?_, ih (fun c hc => h c (by simp [hc])) h2⟩
    intro var val hk
    rw [(h c (by simp)).1] at hk
    rw [(h c (by simp)).2, h1 var val hk]
    exact (expect_congr R (fun c' hc' => (h c' (by simp [hc'])).1) var).symm

theorem kindOf_of_entry {s s' : State} {c : Nat} (h : s'.ctxs[c]? = s.ctxs[c]?) : kindOf s' c = kindOf s c := by
  simp [kindOf, h]
theorem oldOf_of_entry {s s' : State} {c : Nat} (h : s'.ctxs[c]? = s.ctxs[c]?) : oldOf s' c = oldOf s c := by
  simp [oldOf, h]

structure M (s : State) (R : List Nat) : Prop where
  lifo : lifo s.trace = some R
  nodup : R.Nodup
  valid : ∀ c ∈ R, c < s.ctxs.length
  top : ∀ v, s.svGet v = expect s R v
  chain : svChain s R
  svn : (s.sv.map (·.1)).Nodup

/-- a change that leaves the resumed contexts, the scoped values and the resume/pause word alone -/
theorem M_frame {s s' : State} {R : List Nat} (m : M s R) (hc : ∀ c ∈ R, s'.ctxs[c]? = s.ctxs[c]?)
    (hlen : s.ctxs.length ≤ s'.ctxs.length) (hsv : ∀ v, s'.svGet v = s.svGet v)
    (hsvn : (s.sv.map (·.1)).Nodup → (s'.sv.map (·.1)).Nodup) (hl : lifo s'.trace = lifo s.trace) : M s' R :=
  ⟨by rw [hl]; exact m.lifo, m.nodup, fun c hm => Nat.lt_of_lt_of_le (m.valid c hm) hlen,
    fun v => by rw [hsv, m.top, expect_congr R (fun c hm => kindOf_of_entry (hc c hm))],
    svChain_congr R (fun c hm => ⟨kindOf_of_entry (hc c hm), oldOf_of_entry (hc c hm)⟩) m.chain, hsvn m.svn⟩

theorem M_q {P : Event → Bool} {s s' : State} {R : List Nat} (hp : ∀ e, P e = true → silent e = true)
    (q : Q P s s') (m : M s R) : M s' R := by
  obtain ⟨evs, he, hs⟩ := q.trace
  refine M_frame m (fun c _ => by rw [q.ctxs]) (by rw [q.ctxs]; exact Nat.le_refl _) q.svg q.svn ?_
  rw [he, lifo_append_other _ _ (fun e hm => silent_not_ctx (hp e (hs e hm)))]

/-! ### `svSet` keeps the keys distinct -/

theorem svn_svSet (s : State) (var val : Nat) (h : (s.sv.map (·.1)).Nodup) : ((s.svSet var val).sv.map (·.1)).Nodup := by
  unfold State.svSet
  split
  · simp only [List.map_map]
    have : ((fun p : Nat × Nat => p.1) ∘ fun p => if p.1 == var then (var, val) else p) = fun p : Nat × Nat => p.1 := by
      funext p
      simp only [Function.comp]
      split
      · next h => simp at h; simp [h]
      · rfl
    rw [this]; exact h
  · next hn =>
    simp only [List.map_append, List.map_cons, List.map_nil]
    rw [List.nodup_append]
    refine ⟨h, by simp, ?_⟩
    intro a ha b hb
    simp only [List.mem_singleton] at hb
    subst hb
    intro hab
    apply hn
    rw [List.any_eq_true]
    obtain ⟨p, hp, hpa⟩ := List.mem_map.1 ha
    exact ⟨p, hp, by simp [hpa, hab]⟩

theorem svn_resumeOne (s : State) (c : Nat) (h : (s.sv.map (·.1)).Nodup) :
    ((s.ctxResumeOne c).sv.map (·.1)).Nodup := by
  unfold State.ctxResumeOne
  simp only
  split
  · split
    · exact svn_svSet _ _ _ (by unfold State.ctxSetResumed; split <;> exact h)
    · unfold State.ctxSetResumed; split <;> exact h
  · unfold State.ctxSetResumed; split <;> exact h

theorem svn_pauseOne (s : State) (c : Nat) (h : (s.sv.map (·.1)).Nodup) :
    ((s.ctxPauseOne c).sv.map (·.1)).Nodup := by
  unfold State.ctxPauseOne
  simp only
  split
  · split
    · exact svn_svSet _ _ _ (by unfold State.ctxSetResumed; split <;> exact h)
    · unfold State.ctxSetResumed; split <;> exact h
  · unfold State.ctxSetResumed; split <;> exact h

/-! ### resume / pause of one context -/

theorem entry_of_lt {s : State} {c : Nat} (h : c < s.ctxs.length) : ∃ x, s.ctxs[c]? = some x :=
  ⟨s.ctxs[c], List.getElem?_eq_getElem h⟩

theorem M_resume {s : State} {R : List Nat} {c : Nat} (m : M s R) (hc : c ∉ R) (hv : c < s.ctxs.length) :
    M (s.ctxResumeOne c) (c :: R) := by
  obtain ⟨x, hx⟩ := entry_of_lt hv
  have hf := flagOp_resume s c
  have hent := entry_resumeOne s c x hx
  have hne : ∀ c' ∈ R, (s.ctxResumeOne c).ctxs[c']? = s.ctxs[c']? :=
    fun c' hm => hf.ne c' (fun h => hc (h ▸ hm))
  have hkc : kindOf (s.ctxResumeOne c) c = x.kind := by simp [kindOf, hent]
  have hexp : ∀ v, expect (s.ctxResumeOne c) R v = expect s R v :=
    fun v => expect_congr R (fun c' hm => kindOf_of_entry (hne c' hm)) v
  refine ⟨?_, List.nodup_cons.2 ⟨hc, m.nodup⟩, ?_, ?_, ?_, svn_resumeOne s c m.svn⟩
  · rw [hf.trace]; exact lifo_resume m.lifo hc
  · intro c' hm
    rw [hf.len]
    rcases List.mem_cons.1 hm with h | h
    · rw [h]; exact hv
    · exact m.valid c' h
  · intro v
    rw [svGet_resumeOne, hx]
    simp only [expect, hkc, hexp]
    cases hk : x.kind with
    | override var val => simp only [m.top v]
    | plain => exact m.top v
    | nonasync => exact m.top v
  · refine ⟨?_, svChain_congr R (fun c' hm => ⟨kindOf_of_entry (hne c' hm), oldOf_of_entry (hne c' hm)⟩) m.chain⟩
    intro var val hk
    rw [hkc] at hk
    rw [hexp, ← m.top var]
    simp [oldOf, hent, hk]

theorem M_pause {s : State} {R : List Nat} {c : Nat} (m : M s (c :: R)) : M (s.ctxPauseOne c) R := by
  have hv : c < s.ctxs.length := m.valid c (by simp)
  obtain ⟨x, hx⟩ := entry_of_lt hv
  have hf := flagOp_pause s c
  have hnd := List.nodup_cons.1 m.nodup
  have hne : ∀ c' ∈ R, (s.ctxPauseOne c).ctxs[c']? = s.ctxs[c']? :=
    fun c' hm => hf.ne c' (fun h => hnd.1 (h ▸ hm))
  have hexp : ∀ v, expect (s.ctxPauseOne c) R v = expect s R v :=
    fun v => expect_congr R (fun c' hm => kindOf_of_entry (hne c' hm)) v
  have hkc : kindOf s c = x.kind := by simp [kindOf, hx]
  have hoc : oldOf s c = x.old := by simp [oldOf, hx]
  refine ⟨?_, hnd.2, ?_, ?_, ?_, svn_pauseOne s c m.svn⟩
  · rw [hf.trace]; exact lifo_pause m.lifo
  · intro c' hm; rw [hf.len]; exact m.valid c' (by simp [hm])
  · intro v
    rw [svGet_pauseOne, hx, hexp]
    have ht := m.top v
    simp only [expect, hkc] at ht
    cases hk : x.kind with
    | override var val =>
      simp only [hk] at ht ⊢
      by_cases hvv : v = var
      · simp only [hvv, if_true]
        rw [← hoc]
        exact m.chain.1 var val (by rw [hkc, hk])
      · simp only [hvv, if_false] at ht ⊢; exact ht
    | plain => simp only [hk] at ht ⊢; exact ht
    | nonasync => simp only [hk] at ht ⊢; exact ht
  · exact svChain_congr R (fun c' hm => ⟨kindOf_of_entry (hne c' hm), oldOf_of_entry (hne c' hm)⟩) m.chain.2

/-! ### the loops of `_resume_contexts` / `_pause_contexts` without NonAsyncContexts -/

theorem flipOne_na (b : Bool) (s : State) (c : Nat) (h : s.ctxIsNonAsync c = false) :
    flipOne b s c = if b then s.ctxResumeOne c else s.ctxPauseOne c := by
  unfold flipOne; rw [h]; rfl

theorem ctxs_len_flipOne (b : Bool) (s : State) (c : Nat) : (flipOne b s c).ctxs.length = s.ctxs.length := by
  unfold flipOne
  split
  · rfl
  · split
    · exact (flagOp_resume ..).len
    · exact (flagOp_pause ..).len

theorem M_foldResume (l : List Nat) : ∀ (s : State) (R : List Nat), M s R → l.Nodup →
    (∀ c ∈ l, c ∉ R ∧ c < s.ctxs.length ∧ s.ctxIsNonAsync c = false) →
    M (l.foldl (flipOne true) s) (l.reverse ++ R) := by
  induction l with
  | nil => intro s R m _ _; simpa using m
  | cons c l ih =>
    intro s R m hn h
    rw [List.nodup_cons] at hn
    obtain ⟨h1, h2, h3⟩ := h c (by simp)
    rw [List.foldl_cons, List.reverse_cons, List.append_assoc]
    have e : flipOne true s c = s.ctxResumeOne c := by rw [flipOne_na _ _ _ h3]; rfl
    refine ih _ _ (by rw [e]; exact M_resume m h1 h2) hn.2 ?_
    intro c' hc'
    obtain ⟨g1, g2, g3⟩ := h c' (by simp [hc'])
    refine ⟨?_, by rw [ctxs_len_flipOne]; exact g2, by rw [isNonAsync_flipOne]; exact g3⟩
    intro hm
    rcases List.mem_cons.1 hm with hm | hm
    · exact hn.1 (hm ▸ hc')
    · exact g1 hm

theorem M_foldPause (l : List Nat) : ∀ (s : State) (R : List Nat), M s (l ++ R) →
    (∀ c ∈ l, s.ctxIsNonAsync c = false) → M (l.foldl (flipOne false) s) R := by
  induction l with
  | nil => intro s R m _; exact m
  | cons c l ih =>
    intro s R m h
    rw [List.foldl_cons]
    have e : flipOne false s c = s.ctxPauseOne c := by rw [flipOne_na _ _ _ (h c (by simp))]; rfl
    refine ih _ _ (by rw [e]; exact M_pause m) ?_
    intro c' hc'
    rw [isNonAsync_flipOne]; exact h c' (by simp [hc'])

end AsynqModel.Core.P7
