import AsynqModel.Proofs.P6Static
/-
  P6T (termination, property C03), part 2: the set of scheduled batches `sbatches` only grows between two scheduler
  flushes, and the visit of an uncomputed item schedules its (unflushed) batch.
-/
namespace AsynqModel.Core.P6T
open AsynqModel.Core AsynqModel.Core.P6

@[simp] theorem sb_emit (s : State) (e : Event) : (s.emit e).sbatches = s.sbatches := rfl
@[simp] theorem sb_updTask (s : State) (t : Nat) (g : TaskSt → TaskSt) : (s.updTask t g).sbatches = s.sbatches := rfl
@[simp] theorem sb_setFut (s : State) (t : Nat) (x : Fut) : (s.setFut t x).sbatches = s.sbatches := rfl
@[simp] theorem sb_alloc (s : State) (x : Fut) (nk : NewKind) : (s.alloc x nk).1.sbatches = s.sbatches := rfl
@[simp] theorem sb_complete (s : State) (f : Nat) (o : Outcome) : (s.complete f o).sbatches = s.sbatches := rfl
@[simp] theorem sb_updBatch (s : State) (k q : Nat) (g : Batch → Batch) : (s.updBatch k q g).sbatches = s.sbatches := rfl
@[simp] theorem sb_fail (s : State) (m : String) : (s.fail m).sbatches = s.sbatches := rfl
@[simp] theorem sb_leaveGen (s : State) (t : Nat) (old : Option Nat) : (s.leaveGen t old).sbatches = s.sbatches := rfl
@[simp] theorem sb_newTask (s : State) (c : Body) (inh : List Nat) : (s.newTask c inh).1.sbatches = s.sbatches := rfl
@[simp] theorem sb_popStack (s : State) : s.popStack.sbatches = s.sbatches := rfl
@[simp] theorem sb_svTouch (s : State) (v : Nat) : (s.svTouch v).sbatches = s.sbatches := (eqv_svTouch s v).sbatches
@[simp] theorem sb_ctxExit (s : State) (c : Nat) : (s.ctxExit c).sbatches = s.sbatches := (eqv_ctxExit s c).sbatches
@[simp] theorem sb_ctxResumeOne (s : State) (c : Nat) : (s.ctxResumeOne c).sbatches = s.sbatches :=
  (eqv_ctxResumeOne s c).sbatches

@[simp] theorem sb_exitAll (s : State) (t : Nat) : (s.exitAll t).sbatches = s.sbatches := by
  unfold State.exitAll
  exact (eqv_exitFold s _).sbatches

@[simp] theorem sb_finishTask (s : State) (t : Nat) (old : Option Nat) (o : Outcome) :
    (s.finishTask t old o).sbatches = s.sbatches := by
  unfold State.finishTask
  split <;> simp

@[simp] theorem sb_switchActive (s : State) (k q : Nat) : (s.switchActive k q).sbatches = s.sbatches := by
  unfold State.switchActive
  split
  · split <;> rfl
  · rfl

@[simp] theorem sb_flushItems (kind : Nat) (l : List Nat) (s : State) : (s.flushItems kind l).sbatches = s.sbatches := by
  induction l generalizing s with
  | nil => rfl
  | cons i is ih =>
    unfold State.flushItems
    rw [ih]
    split
    · rfl
    · split <;> rfl

@[simp] theorem sb_finishItems (e : Err) (l : List Nat) (s : State) : (s.finishItems e l).sbatches = s.sbatches := by
  induction l generalizing s with
  | nil => rfl
  | cons i is ih =>
    unfold State.finishItems
    rw [ih]
    split <;> rfl

@[simp] theorem sb_flushBatch (s : State) (k q : Nat) : (s.flushBatch k q).sbatches = s.sbatches := by
  unfold State.flushBatch
  split <;> simp

theorem sb_genStep (s : State) (t : Nat) (old : Option Nat) : (s.genStep t old).sbatches = s.sbatches := by
  unfold State.genStep
  dsimp only
  repeat' split
  all_goals first | rfl | (simp; done)

theorem sb_foldl {α : Type} (g : State → α → State) (hg : ∀ s a, (g s a).sbatches = s.sbatches) (l : List α)
    (s : State) : (l.foldl g s).sbatches = s.sbatches := by
  induction l generalizing s with
  | nil => rfl
  | cons a l ih => exact (ih _).trans (hg s a)

@[simp] theorem sb_ctxPauseOne (s : State) (c : Nat) : (s.ctxPauseOne c).sbatches = s.sbatches :=
  (eqv_ctxPauseOne s c).sbatches

@[simp] theorem sb_failSuspended (s : State) (t : Nat) (e : Err) : (s.failSuspended t e).sbatches = s.sbatches := by
  unfold State.failSuspended
  split <;> simp

@[simp] theorem sb_resumeContexts (s : State) (t : Nat) : (s.resumeContexts t).sbatches = s.sbatches := by
  unfold State.resumeContexts
  dsimp only
  split
  · rfl
  · have h : ((s.task t).ctxs.foldl (fun s c => if s.ctxIsNonAsync c then s else s.ctxResumeOne c)
        (s.updTask t fun ts => { ts with ctxActive := true })).sbatches = s.sbatches :=
      (sb_foldl _ (fun s c => by split <;> simp) _ _).trans rfl
    split
    · rw [sb_failSuspended]; exact h
    · exact h

@[simp] theorem sb_pauseContexts (s : State) (t : Nat) : (s.pauseContexts t).sbatches = s.sbatches := by
  unfold State.pauseContexts
  dsimp only
  split
  · rfl
  · have h : ((s.task t).ctxs.reverse.foldl (fun s c => if s.ctxIsNonAsync c then s else s.ctxPauseOne c)
        (s.updTask t fun ts => { ts with ctxActive := false })).sbatches = s.sbatches :=
      (sb_foldl _ (fun s c => by split <;> simp) _ _).trans rfl
    split
    · rw [sb_failSuspended]; exact h
    · exact h

theorem sb_handleTask (s : State) (t : Nat) : (s.handleTask t).sbatches = s.sbatches := by
  unfold State.handleTask
  dsimp only
  repeat' split
  all_goals first | rfl | (simp [State.popStack]; done)

/-- until the next scheduler flush (and unless the guard resets the scheduler) no batch is unscheduled -/
theorem sb_step_mono (s : State) (hnf : ¬ IsFlush s) (hg : (step s).guardFired = false) :
    ∀ c ∈ s.sbatches, c ∈ (step s).sbatches := by
  revert hg
  unfold step
  split
  · intro _ c hc; exact hc
  · split
    · split
      · intro _ c hc; exact hc
      · split
        · intro _ c hc; exact hc
        · intro _ c hc; exact hc
    · split
      · intro _ c hc; exact hc
      · split
        · intro _ c hc; exact hc
        · intro _ c hc; exact hc
    · rename_i root base rest hctl
      split
      · intro _ c hc; exact hc
      · split
        · unfold State.executeIter
          split
          · intro _ c hc; exact hc
          · split
            · intro h; simp [State.raiseOutOfWait] at h
            · split
              · intro _ c hc; exact hc
              · split
                · intro _ c hc; rw [sb_handleTask]; exact hc
                · intro _ c hc
                  split
                  · split
                    · exact hc
                    · exact List.mem_append_left _ hc
                  · exact hc
                · intro _ c hc; exact hc
                · intro _ c hc; exact hc
        · rename_i hlen
          split
          · intro _ c hc; exact hc
          · rename_i hroot
            exact absurd ⟨root, base, rest, hctl, by omega, by simpa using hroot⟩ hnf
    · intro _ c hc
      repeat' split
      all_goals first | exact hc | (rw [sb_genStep]; exact hc)

/-- the visit of an uncomputed item whose batch is not flushed schedules the batch -/
theorem sb_step_item (s : State) (root base : Nat) (rest : List Ctl) (hctl : s.ctl = .waitLoop root base :: rest)
    (hs : s.stuck = none) (hr : s.raising = none) (top : Nat) (st : List Nat) (hstk : s.stack = top :: st)
    (hlen : s.stack.length > base) (hg : (step s).guardFired = false)
    (hc : s.computed top = false) {k q p : Nat} {m : ItemMode} (hk : (s.fut top).kind = .item k q p m)
    {b : Batch} (hb : s.batch? k q = some b) (hf : b.flushed = false) : (k, q) ∈ (step s).sbatches := by
  have e : step s = s.executeIter := by
    unfold step
    simp [hs, hctl, hr, hlen]
  rw [e] at hg ⊢
  revert hg
  unfold State.executeIter
  rw [hstk]
  dsimp only
  split
  · intro h; simp [State.raiseOutOfWait] at h
  · intro _
    rw [if_neg (by simp [hc]), hk]
    dsimp only
    rw [hb]
    dsimp only
    rw [hf]
    simp only [Bool.false_or]
    split
    · rename_i hcon
      simpa using hcon
    · simp [State.popStack]

end AsynqModel.Core.P6T
