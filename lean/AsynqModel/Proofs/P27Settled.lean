import AsynqModel.Proofs.P6Settled
import AsynqModel.Proofs.P2Inv
/-
  P27: the C04 development of P6 (Proofs/P6*.lean) WITHOUT the hypothesis that no NonAsyncContext exists.  The files
  P27Settled .. P27Static are copies of P6Settled .. P6Static in which
  * `NoNA` is the trivial predicate (the records keep their `noNA` field, which now says nothing),
  * `bodyOK` only says "yield-only",
  * `Settled` asks in addition that a settled task has no registered NonAsyncContext (`P2.NAfree`): the scheduler fails a
    task with a registered NonAsyncContext when it suspends it, so such a task is never left waiting; `Settled.toP6`
    forgets the extra clause,
  * `Desc` has one more case, `naFail`: the second visit of a blocked task with a registered NonAsyncContext completes
    the task with the AssertionError of `NonAsyncContext.pause()` and pops it.
  P6 (property C04), part 2: `Settled s f` - nothing below `f` can run before the next flush - its executable
  version `settledB`, and the stability lemma `Settled.mono`.
-/
namespace AsynqModel.Core.P27
open AsynqModel.Core.P6
open AsynqModel.Core

/-- `f` is computed; or an uncomputed batch item whose batch has not been flushed; or an uncompleted task that has
    started, is suspended at a yield, is blocked (awaits something uncomputed) and awaits only settled futures. -/
inductive Settled (s : State) : Nat → Prop
  | computed {f : Nat} : s.computed f = true → Settled s f
  | item {f k q p : Nat} {m : ItemMode} : (s.fut f).kind = .item k q p m → s.computed f = false →
      (∃ b, s.batch? k q = some b ∧ b.flushed = false) → Settled s f
  | task {t : Nat} : (s.fut t).kind = .task → s.computed t = false →
      (s.task t).started = true → (s.task t).pending = true →
      (∀ d ∈ (s.task t).deps, Settled s d) → (∃ d ∈ (s.task t).deps, s.computed d = false) →
      P2.NAfree s t → Settled s t

/-- the strengthened predicate implies the one of `Theorems/C04.lean` -/
theorem Settled.toP6 {s : State} {f : Nat} (h : Settled s f) : P6.Settled s f := by
  induction h with
  | computed h => exact .computed h
  | item hk hu hb => exact .item hk hu hb
  | task hk hu hs hp _ hbl _ ih => exact .task hk hu hs hp ih hbl

/-- executable version with fuel (the depth of the awaits relation) -/
def settledB (s : State) : Nat → Nat → Bool
  | 0, _ => false
  | fuel + 1, f =>
    if s.computed f then true else
    match (s.fut f).kind with
    | .item k q _ _ =>
      match s.batch? k q with
      | some b => !b.flushed
      | none => false
    | .task =>
      (s.task f).started && (s.task f).pending && (s.task f).deps.all (fun d => settledB s fuel d) &&
        (s.task f).deps.any (fun d => !s.computed d) && (s.task f).ctxs.all (fun c => !s.ctxIsNonAsync c)
    | _ => false

theorem settledB_sound (s : State) : ∀ (fuel f : Nat), settledB s fuel f = true → Settled s f := by
  intro fuel
  induction fuel with
  | zero => intro f h; simp [settledB] at h
  | succ n ih =>
    intro f h
    unfold settledB at h
    split at h
    · exact .computed ‹_›
    · rename_i hc
      have hc : s.computed f = false := by simpa using hc
      split at h
      · rename_i k q p m hk
        split at h
        · rename_i b hb
          exact .item hk hc ⟨b, hb, by simpa using h⟩
        · cases h
      · rename_i hk
        simp only [Bool.and_eq_true, List.all_eq_true, List.any_eq_true] at h
        obtain ⟨⟨⟨⟨h1, h2⟩, h3⟩, d, hd, hdc⟩, h4⟩ := h
        exact .task hk hc h1 h2 (fun d hd => ih d (h3 d hd)) ⟨d, hd, by simpa using hdc⟩
          (fun c hc' => by simpa using h4 c hc')
      · cases h

theorem computed_eq_view (s : State) (f : Nat) : s.computed f = (view s f).out.isSome := rfl

theorem computed_of_view {s s' : State} {f : Nat} (h : view s' f = view s f) : s'.computed f = s.computed f := by
  rw [computed_eq_view, computed_eq_view, h]

/-- a settled future that is not computed is a batch item or a task -/
theorem Settled.kind_of_uncomputed {s : State} {f : Nat} (h : Settled s f) (hc : s.computed f = false) :
    (∃ k q p m, (s.fut f).kind = .item k q p m) ∨ (s.fut f).kind = .task := by
  cases h with
  | computed h => rw [h] at hc; cases hc
  | item hk _ _ => exact Or.inl ⟨_, _, _, _, hk⟩
  | task hk _ _ _ _ _ _ => exact Or.inr hk

/-- a future that does not exist is not settled -/
theorem not_settled_of_ge {s : State} {f : Nat} (hf : s.futs.length ≤ f) : ¬ Settled s f := by
  intro h
  have e := fut_ge s f hf
  cases h with
  | computed h => simp [State.computed, State.out, e] at h
  | item hk _ _ => rw [e] at hk; cases hk
  | task hk _ _ _ _ _ _ => rw [e] at hk; cases hk

/-- the fields `Settled` reads agree -/
def SEq (v v' : FV) : Prop :=
  v'.kind = v.kind ∧ v'.out = v.out ∧ v'.started = v.started ∧ v'.pending = v.pending ∧ v'.deps = v.deps

theorem SEq.of_eq {v v' : FV} (h : v' = v) : SEq v v' := by subst h; exact ⟨rfl, rfl, rfl, rfl, rfl⟩

theorem SEq.computed {s s' : State} {f : Nat} (h : SEq (view s f) (view s' f)) : s'.computed f = s.computed f := by
  rw [computed_eq_view, computed_eq_view, h.2.1]

/-- P27: a blocked task (one that awaits an uncomputed future) without registered NonAsyncContext has none in `s'`
    either.  Every step of the machine has this property (`P27Main.naf_step`): a context is registered only with the
    active task, whose generator is running and which therefore awaits nothing uncomputed. -/
def NAF (s s' : State) : Prop :=
  ∀ u, (∃ d ∈ (s.task u).deps, s.computed d = false) → P2.NAfree s u → P2.NAfree s' u

/-- Stability: `s'` keeps computed futures computed and unflushed batches unflushed, and changes the fields of
    futures in `T` only; if no future in `T` is settled-and-uncomputed, every settled future stays settled. -/
theorem Settled.mono {s s' : State} (T : Nat → Prop)
    (hc : ∀ f, s.computed f = true → s'.computed f = true)
    (hb : ∀ k q b, s.batch? k q = some b → b.flushed = false → ∃ b', s'.batch? k q = some b' ∧ b'.flushed = false)
    (hT : ∀ f, T f → Settled s f → s.computed f = true)
    (hv : ∀ f, ¬ T f → SEq (view s f) (view s' f))
    (hn : NAF s s')
    {f : Nat} (h : Settled s f) : Settled s' f := by
  induction h with
  | computed h => exact .computed (hc _ h)
  | @item f k q p m hk hu hbat =>
    have hnT : ¬ T f := fun hT' => by
      have := hT f hT' (.item hk hu hbat)
      rw [this] at hu; cases hu
    have e := hv f hnT
    obtain ⟨b, hb1, hb2⟩ := hbat
    refine .item (k := k) (q := q) (p := p) (m := m) ?_ ?_ (hb k q b hb1 hb2)
    · exact e.1.trans hk
    · rw [e.computed]; exact hu
  | @task t hk hu hs hp hd hbl hna ih =>
    have hnT : ¬ T t := fun hT' => by
      have := hT t hT' (.task hk hu hs hp hd hbl hna)
      rw [this] at hu; cases hu
    have e := hv t hnT
    have ed : (s'.task t).deps = (s.task t).deps := e.2.2.2.2
    refine .task (e.1.trans hk) (by rw [e.computed]; exact hu)
      (e.2.2.1.trans hs) (e.2.2.2.1.trans hp) ?_ ?_ (hn t hbl hna)
    · intro d hd'
      rw [ed] at hd'
      exact ih d hd'
    · obtain ⟨d, hd1, hd2⟩ := hbl
      refine ⟨d, by rw [ed]; exact hd1, ?_⟩
      have hnTd : ¬ T d := fun hT' => by
        have := hT d hT' (hd d hd1)
        rw [this] at hd2; cases hd2
      rw [(hv d hnTd).computed]; exact hd2

/-- `Settled` only reads part of the view and the batches -/
theorem Settled.of_view {s s' : State} (hv : ∀ f, SEq (view s f) (view s' f)) (hb : s'.batches = s.batches)
    (hn : NAF s s')
    {f : Nat} (h : Settled s f) : Settled s' f := by
  refine Settled.mono (fun _ => False) ?_ ?_ (fun _ h => h.elim) (fun f _ => hv f) hn h
  · intro f hf; rw [(hv f).computed]; exact hf
  · intro k q b h1 h2
    exact ⟨b, by unfold State.batch? at *; rw [hb]; exact h1, h2⟩

end AsynqModel.Core.P27
