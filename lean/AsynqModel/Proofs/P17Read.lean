import AsynqModel.Proofs.P17Aw
import AsynqModel.Proofs.P17Chain
import AsynqModel.Theorems.C07b
/-!
  P17, part 10: the clause "scoped-read-differs-from-sequential" of `Spec.checkC07` holds for the value the running
  task reads (`read_ok`), and with it the relation `RA` holds in every reachable state (`RA_reach`).

  * the observer's expected value along a chain `ch` is `P7.expect` over the registered contexts of the tasks of `ch`,
    nearest task first, latest entered first (`expected_eq`, from `G2`);
  * the observer's chain of the running task is the spine of the labelled stack (`chain_top`);
  * the tasks with resumed contexts, in the order of the task stack, are the tasks of the spine that have contexts
    (inside `read_ok`, by `sorted_unique`: both lists are sorted by the creation order and have the same members);
  * the scoped value is `P7.expect` over the resumed contexts (`C07_values`).
-/
namespace AsynqModel.Core.P17
open AsynqModel.Core AsynqModel.Core.Spec
open AsynqModel.Core.P13 (obs W)
open AsynqModel.Core.P10 (Named)
open AsynqModel.Core.P7 (kindOf expect rstack hotTasks hot)

/-! ### the observer's expected value -/

/-- the override of `var` context `c` holds, if it is one -/
def ovOf (s : State) (var c : Nat) : Option (Nat × Nat) :=
  match kindOf s c with
  | .override v val => if var = v then some (c, val) else none
  | _ => none

theorem expect_findSome (s : State) (var : Nat) : ∀ R : List Nat,
    expect s R var = match R.findSome? (ovOf s var) with | some p => p.2 | none => 0
  | [] => rfl
  | c :: R => by
    have ih := expect_findSome s var R
    simp only [expect, List.findSome?_cons, ovOf]
    cases hk : kindOf s c with
    | override v val =>
      simp only
      by_cases hv : var = v
      · simp [hv]
      · simp only [hv, if_false]; exact ih
    | plain => simp only; exact ih
    | nonasync => simp only; exact ih

/-- the candidate of task `u` in `Spec.checkC07`: its open override of `var` with the largest id -/
def candOf (w : Watch) (var u : Nat) : Option (Nat × Nat) :=
  (w.ctxs.filterMap fun (cid, x) =>
    match x.kind with
    | .override var' val => if x.isOpen && x.owner == u && var' == var then some (cid, val) else none
    | _ => none).foldl (fun (acc : Option (Nat × Nat)) p =>
      match acc with | some a => if p.1 > a.1 then some p else some a | none => some p) none

def expectedOf (w : Watch) (var : Nat) (ch : List Nat) : Nat :=
  match ch.filterMap (candOf w var) with
  | (_, val) :: _ => val
  | [] => 0

theorem checkRead_read (c : Ctx) (w : Watch) (t var : Nat) (v : Val) :
    checkRead c w (.read t var v) =
      match w.chain w.fuel t with
      | none => none
      | some ch => if v != .a (expectedOf w var ch) then some "scoped-read-differs-from-sequential" else none := rfl


/-- the candidate, computed on the projection `cv` of the observer's table -/
def candCv (var u : Nat) (e : Nat × Nat × CtxKind × Bool) : Option (Nat × Nat) :=
  match e.2.2.1 with
  | .override var' val => if e.2.2.2 && e.2.1 == u && var' == var then some (e.1, val) else none
  | _ => none

theorem filterMap_congr' {α β : Type} {f g : α → Option β} : ∀ {l : List α}, (∀ a ∈ l, f a = g a) →
    l.filterMap f = l.filterMap g
  | [], _ => rfl
  | a :: l, h => by
    rw [List.filterMap_cons, List.filterMap_cons, h a List.mem_cons_self,
      filterMap_congr' (fun x hx => h x (List.mem_cons_of_mem _ hx))]

theorem cand_cv (w : Watch) (var u : Nat) :
    (w.ctxs.filterMap fun (cid, x) =>
      match x.kind with
      | .override var' val => if x.isOpen && x.owner == u && var' == var then some (cid, val) else none
      | _ => none) = (cv w).filterMap (candCv var u) := by
  unfold cv
  rw [List.filterMap_map]
  apply filterMap_congr'
  intro p _
  rfl

theorem keys_unique {s : State} (h : G2 s) {e1 e2 : Nat × Nat × CtxKind × Bool} (h1 : e1 ∈ cv (W s))
    (h2 : e2 ∈ cv (W s)) (hk : e1.1 = e2.1) : e1 = e2 := by
  have hn : ((cv (W s)).map (·.1)).Nodup := by
    rw [h.keys]
    have : (List.range s.ctxs.length).reverse.Pairwise (fun a b => b < a) :=
      List.pairwise_reverse.2 List.pairwise_lt_range
    exact this.imp (fun hab => Nat.ne_of_gt hab)
  have l1 := lookup_of_mem_nodup (cv (W s)) e1.1 e1.2 hn h1
  have l2 := lookup_of_mem_nodup (cv (W s)) e2.1 e2.2 hn h2
  rw [hk, l2] at l1
  exact Prod.ext hk (Option.some.inj l1).symm

theorem filterMap_ite_filter {α β : Type} (p : α → Bool) (f : α → Option β) (l : List α) :
    l.filterMap (fun a => if p a then f a else none) = (l.filter p).filterMap f := by
  induction l with
  | nil => rfl
  | cons a l ih =>
    cases hp : p a with
    | true => simp [List.filterMap_cons, hp, ih]
    | false => simp [List.filterMap_cons, hp, ih]

/-- the observer's candidate of task `u` is the innermost override of `var` among the contexts registered with `u` -/
theorem cand_eq {s : State} (h : G2 s) (var u : Nat) :
    candOf (W s) var u = ((s.task u).ctxs.reverse).findSome? (ovOf s var) := by
  unfold candOf
  rw [cand_cv]
  -- every entry: candidate iff registered with `u` and an override of `var`
  have h1 : (cv (W s)).filterMap (candCv var u) =
      ((cv (W s)).map (·.1)).filterMap (fun c => if decide (c ∈ (s.task u).ctxs) then ovOf s var c else none) := by
    rw [List.filterMap_map]
    apply filterMap_congr'
    intro e he
    simp only [Function.comp]
    have hkind := h.kind e he
    have hreg : (e.2.2.2 = true ∧ e.2.1 = u) ↔ e.1 ∈ (s.task u).ctxs := by
      constructor
      · rintro ⟨hb, ho⟩
        refine (h.mem u e.1).2 ⟨e.2.2.1, ?_⟩
        have : e = (e.1, u, e.2.2.1, true) := by
          obtain ⟨a, b, k, d⟩ := e
          simp only at hb ho
          rw [hb, ho]
        rw [← this]; exact he
      · intro hm
        obtain ⟨k, hk⟩ := (h.mem u e.1).1 hm
        have := keys_unique h he hk rfl
        rw [this]; exact ⟨rfl, rfl⟩
    unfold candCv ovOf
    rw [hkind]
    by_cases hm : e.1 ∈ (s.task u).ctxs
    · obtain ⟨hb, ho⟩ := hreg.2 hm
      simp only [hm, decide_true, if_true]
      cases e.2.2.1 with
      | override v val =>
        simp only [hb, ho, beq_self_eq_true, Bool.and_self, Bool.true_and]
        by_cases hv : var = v
        · simp [hv]
        · have : ¬ v = var := fun e' => hv e'.symm
          simp [hv, this]
      | plain => rfl
      | nonasync => rfl
    · simp only [hm, decide_false, Bool.false_eq_true, if_false]
      have hno : ¬ (e.2.2.2 = true ∧ e.2.1 = u) := fun hh => hm (hreg.1 hh)
      cases e.2.2.1 with
      | override v val =>
        simp only
        rw [if_neg]
        intro hc
        simp only [Bool.and_eq_true, beq_iff_eq] at hc
        exact hno ⟨hc.1.1, hc.1.2⟩
      | plain => rfl
      | nonasync => rfl
  have hbound : ∀ c ∈ (s.task u).ctxs, c < s.ctxs.length := by
    intro c hc
    obtain ⟨k, hk⟩ := (h.mem u c).1 hc
    exact key_lt h hk
  rw [h1, h.keys, filterMap_ite_filter, filter_range_rev _ _ (h.sort u) hbound]
  refine (foldl_pick _ ?_).trans List.head?_filterMap
  -- the candidates come with decreasing context ids
  refine List.Pairwise.filterMap (R := fun a b : Nat => b < a) _ ?_ ?_
  · intro a a' hlt b hb b' hb'
    have e1 : b.1 = a := by
      unfold ovOf at hb
      split at hb
      · split at hb
        · cases hb; rfl
        · cases hb
      · cases hb
    have e2 : b'.1 = a' := by
      unfold ovOf at hb'
      split at hb'
      · split at hb'
        · cases hb'; rfl
        · cases hb'
      · cases hb'
    rw [e1, e2]; exact hlt
  · rw [List.pairwise_reverse]; exact h.sort u

/-- the observer's expected value along `ch` -/
theorem expected_eq {s : State} (h : G2 s) (var : Nat) (ch : List Nat) :
    expectedOf (W s) var ch = expect s (ch.flatMap fun u => (s.task u).ctxs.reverse) var := by
  rw [expect_findSome, findSome_flatMap]
  unfold expectedOf
  have : candOf (W s) var = fun u => ((s.task u).ctxs.reverse).findSome? (ovOf s var) := by
    funext u; exact cand_eq h var u
  rw [this]
  cases (ch.filterMap fun u => ((s.task u).ctxs.reverse).findSome? (ovOf s var)) with
  | nil => rfl
  | cons p l => rfl


/-! ### the running task reads the observer's expected value -/

theorem read_ok {c : Ctx} {s : State} (hs : P10.WSReach s) (hg : s.guardFired = false) (hna : P7.NA s) (ra : RA c s)
    {t : Nat} {old : Option Nat} {rest : List Ctl} (hctl : s.ctl = .gen t old :: rest) (var : Nat) :
    checkRead c (W s) (.read t var (.a (s.svGet var))) = none := by
  rw [checkRead_read]
  cases hch : (W s).chain (W s).fuel t with
  | none => rfl
  | some ch =>
    simp only
    -- the library
    have lb := P12.lib_of_ws hs hg hna
    have good := P7.good_of_reach hs.reach hg hna
    have run := good.running hctl
    have k := P7.K_reach hs.reach hg hna
    have hpos := P7.hotPos_reach hs hg hna
    have sr := (P13.inv13_of_reach hs.reach { (default : Ctx) with cfg := s.cfg } rfl).sr
    have hlt : ∀ p a, P12.Link s p a → P10.lt s a p := fun p a hl => hl.lt lb.hinv lb.chain
    obtain ⟨L, hL, hlab, hheads, hbot⟩ := LabIA_reach hs hg hna
    have hd := lb.disc
    rw [hctl] at hd
    have hhead : s.stack.head? = some t := P12.disc_gen_head hd
    -- the chain of the running task is the spine of the labelled stack
    have hA : ∀ p a, LinkA s p a → s.computed a = false → p ∈ (W s).awaiters a :=
      fun p a hl hc => link_awaiter ra.g1 sr hl.1 hc
    have hU : ∀ p a, P12.Link s p a → s.computed p = false := by
      intro p a hl
      rcases hl.2 with h1 | h1
      · exact h1.1
      · have := good.pi.live p (P12.edgeIn_gens h1.2.2)
        simp [State.computed, this]
    have hbb : ∀ x, L.getLast? = some x → (W s).awaiters x.1 = [] :=
      fun x hx => awaiters_bottom ra.g1 sr (hbot x hx)
    cases L with
    | nil => rw [← hL] at hhead; cases hhead
    | cons x0 Lr =>
      obtain ⟨a0, p0⟩ := x0
      have ha0 : a0 = t := by rw [← hL] at hhead; simpa using hhead
      subst ha0
      have hsp := chain_top hA hU a0 p0 Lr hlab hbb run.nc _ ch hch
      -- the tasks of the spine
      have hact : ∀ u ∈ ch, (s.task u).ctxActive = true := by
        intro u hu
        rw [hsp] at hu
        rcases List.mem_cons.1 hu with e | hu
        · rw [e]; exact run.act
        · obtain ⟨_, a, hl⟩ := lspine_sub _ hlab u hu
          exact hl.2
      have hsorted : ch.Pairwise (P10.lt s) := by
        rw [hsp, List.pairwise_cons]
        refine ⟨?_, lspine_pairwise hlt (fun a b c => P10.lt_trans) _ hlab⟩
        intro q hq
        cases Lr with
        | nil => cases hq
        | cons y Lr' =>
          exact P12.Lab.top_lt hlt (LabA.toLab _ hlab) (lspine_sub _ hlab q hq).1
      have hhot_in : ∀ o, hot s o = true → o ∈ ch := by
        intro o ho
        obtain ⟨h1, h2⟩ := P7.hot_ctxs ho
        obtain ⟨h3, h4⟩ := k.live o h2
        rw [hsp]
        rcases hheads o h3 h1 h4 with h5 | h5
        · rw [hhead] at h5
          simp only [Option.some.injEq] at h5
          rw [h5]; exact List.mem_cons_self
        · cases Lr with
          | nil =>
            have : p0 = a0 := hlab
            simp only [List.map_cons, List.map_nil, List.mem_singleton] at h5
            rw [h5, this]; exact List.mem_cons_self
          | cons y Lr' => exact List.mem_cons_of_mem _ (labels_sub Lr' (a0, p0) y hlab o h5)
      -- the hot tasks in stack order are the hot tasks of the spine
      have hht : hotTasks s = ch.filter (hot s) := by
        apply sorted_unique (P10.lt s) (fun a => lb.hinv.irrefl a) (fun a b c => P10.lt_trans)
        · exact pairwise_fo (P10.lt s) s.stack (hot s) (fun o _ ho => hpos o ho)
        · exact hsorted.filter _
        · intro x
          unfold hotTasks
          rw [P7.mem_fo, List.mem_filter]
          constructor
          · rintro ⟨_, hx⟩; exact ⟨hhot_in x hx, hx⟩
          · rintro ⟨_, hx⟩; exact ⟨k.stk x hx, hx⟩
      have hrs : rstack s = ch.flatMap fun u => (s.task u).ctxs.reverse := by
        unfold rstack
        rw [hht]
        apply filter_flatMap
        intro x hx hnh
        have := hact x hx
        simp only [hot, this, Bool.true_and, Bool.not_eq_false', List.isEmpty_iff] at hnh
        rw [hnh]; rfl
      -- the value read
      have hval := (C07_values s hs hg (P7.noNonAsync_of_na hna)).1 var
      rw [expected_eq ra.g2, ← hrs, ← hval]
      simp

/-! ### the relation holds in every reachable state -/

theorem RA_init (c : Ctx) (cfg : Cfg) (tops : List (Conv × Body)) (choices : List (Nat × Nat)) :
    RA c (initState cfg tops choices) := by
  have ht : ∀ p, (initState cfg tops choices).task p = {} := fun p => by simp [initState, State.task, State.fut]
  refine ⟨⟨trivial, ?_, ?_, ?_, ?_, ?_, rfl⟩, ⟨rfl, ?_, ?_, ?_, ?_⟩⟩
  · intro p d _ hd; rw [ht] at hd; cases hd
  · intro p d _ _ hd; rw [ht] at hd; cases hd
  · intro p i y d hl; cases hl
  · intro p f hm; cases hm
  · intro r hr; cases hr
  · intro e he; cases he
  · intro e he; cases he
  · intro u c
    rw [ht]
    constructor
    · intro h; cases h
    · rintro ⟨k, hk⟩; cases hk
  · intro u; rw [ht]; exact List.Pairwise.nil

theorem RA_reach {s : State} (hs : P10.WSReach s) (hg : s.guardFired = false) (hna : P7.NA s) (c : Ctx) : RA c s := by
  induction hs with
  | init cfg tops choices _ => exact RA_init c cfg tops choices
  | @step s hs ih =>
    have hg0 := P3.guard_mono s hg
    have hna0 := P7.na_back s hs.reach hna
    have ra := ih hg0 hna0
    have hi := (P10.ws_hinv hs).1
    have good := P7.good_of_reach hs.reach hg0 hna0
    refine R_step ra (fun u y hn => hi.named_bound hn) ?_
    intro t old rest hctl
    have run := good.running hctl
    refine ⟨run.lt, run.active, ?_, hi.ws t, fun d hd => hi.prevY t d hd, ?_⟩
    · intro _ _ d hd
      exact good.pi.gnb t (by rw [hctl]; simp [P2.gens]) d hd
    · intro var k _ _
      exact read_ok hs hg0 hna0 ra hctl var

end AsynqModel.Core.P17
