import AsynqModel.Proofs.P2Inv
import AsynqModel.Proofs.P3Base
/-!
  P11 (C03 "lazy start", C02 "unaffected"), part 1: the frame relation `B p s s'` of the heap-side helpers.

  `B p s s'`: the control stack, the task stack, the active task and the propagating exception do not change; the trace
  grows by "plain" events (no `run t 0`, no `syncX`) or events allowed by `p.X`; and every future changes only as `FrF`
  says: `_dependencies` only shrink (or gain members of `p.D`), the exception caught last and the body of a task do not
  change (except for the tasks in `p.L`, which may also catch the exceptions in `p.C`), outcomes are written once, and
  a task is failed only with the NonAsyncContext assertion error (or an error in `p.E`).
  Every helper of the machine (contexts, batches, completion, allocation) is `B p` for every `p` (one lemma each, as in
  P3Base); the parameters are used by `genStep` (P11Step.lean).
-/
namespace AsynqModel.Core.P11
open AsynqModel.Core
open P2

def plainEv : Event → Bool
  | .run _ 0 _ _ => false
  | .syncX _ _ _ => false
  | _ => true

/-- what a transition may do beyond the frame conditions -/
structure Par where
  /-- errors (other than the NonAsyncContext assertion) a task may be failed with -/
  E : Nat → Err → Prop := fun _ _ => False
  /-- the tasks whose body may change -/
  L : Nat → Prop := fun _ => False
  /-- new dependencies -/
  D : Nat → Prop := fun _ => False
  /-- exceptions a task in `L` may catch -/
  C : Nat → Err → Prop := fun _ _ => False
  /-- events that are not plain -/
  X : Event → Prop := fun _ => False

/-- how one future may change under a helper (`x` before, `y` after) -/
structure FrF (E : Err → Prop) (L : Prop) (D : Nat → Prop) (C : Err → Prop) (x y : Fut) : Prop where
  deps : ∀ d ∈ y.ts.deps, d ∈ x.ts.deps ∨ D d
  caught : y.ts.caught = x.ts.caught ∨ (L ∧ ∃ e, y.ts.caught = some e ∧ C e)
  body : x.kind = .task → L ∨ y.ts.body = x.ts.body
  kind : y.kind = x.kind ∨ (x.kind = .const ∧ x.out = none)
  out : ∀ o, x.out = some o → y.out = some o
  err : y.kind = .task → x.out = none → ∀ e, y.out = some (.err e) → e = .nonasync ∨ E e

section
variable {E : Err → Prop} {L : Prop} {D : Nat → Prop} {C : Err → Prop}

theorem FrF.refl (x : Fut) : FrF E L D C x x :=
  ⟨fun _ h => Or.inl h, Or.inl rfl, fun _ => Or.inr rfl, Or.inl rfl, fun _ h => h, fun _ h e h' => by rw [h] at h'; cases h'⟩

theorem FrF.kind_task {x y : Fut} (h : FrF E L D C x y) (hx : x.kind = .task) : y.kind = .task := by
  rcases h.kind with hk | ⟨hk, _⟩
  · rw [hk]; exact hx
  · rw [hk] at hx; cases hx

theorem FrF.kind_item {x y : Fut} (h : FrF E L D C x y) (hx : isItemKind x.kind = true) : isItemKind y.kind = true := by
  rcases h.kind with hk | ⟨hk, _⟩
  · rw [hk]; exact hx
  · rw [hk] at hx; cases hx

/-- a future that is computed keeps its kind -/
theorem FrF.kind_of_out {x y : Fut} (h : FrF E L D C x y) {o : Outcome} (hx : x.out = some o) : y.kind = x.kind := by
  rcases h.kind with hk | ⟨_, hk⟩
  · exact hk
  · rw [hk] at hx; cases hx

theorem FrF.trans {x y z : Fut} (h1 : FrF E L D C x y) (h2 : FrF E L D C y z) : FrF E L D C x z where
  deps := fun d hd => by
    rcases h2.deps d hd with h | h
    · exact h1.deps d h
    · exact Or.inr h
  caught := by
    rcases h2.caught with a | a
    · rcases h1.caught with b | ⟨l, e, b1, b2⟩
      · exact Or.inl (a.trans b)
      · exact Or.inr ⟨l, e, a.trans b1, b2⟩
    · exact Or.inr a
  body := by
    intro hx
    rcases h2.body (h1.kind_task hx) with a | a
    · exact Or.inl a
    · rcases h1.body hx with b | b
      · exact Or.inl b
      · exact Or.inr (a.trans b)
  kind := by
    rcases h1.kind with a | a
    · rcases h2.kind with b | ⟨b1, b2⟩
      · exact Or.inl (b.trans a)
      · right
        refine ⟨a ▸ b1, ?_⟩
        cases hx : x.out with
        | none => rfl
        | some o => rw [h1.out o hx] at b2; cases b2
    · exact Or.inr a
  out := fun o h => h2.out o (h1.out o h)
  err := by
    intro hz hx e he
    cases hy : y.out with
    | none => exact h2.err hz hy e he
    | some o =>
      have h3 := h2.out o hy
      rw [he] at h3; injection h3 with h3; subst h3
      have hk : y.kind = .task := by rw [← h2.kind_of_out hy]; exact hz
      exact h1.err hk hx e hy

end

structure B (p : Par) (s s' : State) : Prop where
  ctl : s'.ctl = s.ctl
  stack : s'.stack = s.stack
  active : s'.active = s.active
  raising : s'.raising = s.raising
  guard : s'.guardFired = s.guardFired
  trace : ∃ pre, s'.trace = pre ++ s.trace ∧ ∀ e ∈ pre, plainEv e = true ∨ p.X e
  fut : ∀ f, FrF (p.E f) (p.L f) p.D (p.C f) (s.fut f) (s'.fut f)

variable {p : Par}

theorem B.refl (s : State) : B p s s := ⟨rfl, rfl, rfl, rfl, rfl, ⟨[], rfl, by simp⟩, fun _ => FrF.refl _⟩

theorem B.trans {s s1 s2 : State} (h1 : B p s s1) (h2 : B p s1 s2) : B p s s2 := by
  obtain ⟨p1, e1, q1⟩ := h1.trace
  obtain ⟨p2, e2, q2⟩ := h2.trace
  refine ⟨h2.ctl.trans h1.ctl, h2.stack.trans h1.stack, h2.active.trans h1.active, h2.raising.trans h1.raising,
    h2.guard.trans h1.guard,
    ⟨p2 ++ p1, by rw [e2, e1, List.append_assoc], ?_⟩, fun f => (h1.fut f).trans (h2.fut f)⟩
  intro e he
  rcases List.mem_append.1 he with h | h
  · exact q2 e h
  · exact q1 e h

theorem B.out {s s' : State} (h : B p s s') {f : Nat} {o : Outcome} (ho : s.out f = some o) : s'.out f = some o :=
  (h.fut f).out o ho

theorem B.computed {s s' : State} (h : B p s s') {f : Nat} (hc : s.computed f = true) : s'.computed f = true := by
  unfold State.computed at *
  cases ho : s.out f with
  | none => simp [ho] at hc
  | some o => simp [h.out ho]

theorem B.kind_item {s s' : State} (h : B p s s') {f : Nat} (hk : isItemKind (s.fut f).kind = true) :
    isItemKind (s'.fut f).kind = true := (h.fut f).kind_item hk

theorem B.kind_task {s s' : State} (h : B p s s') {f : Nat} (hk : (s.fut f).kind = .task) :
    (s'.fut f).kind = .task := (h.fut f).kind_task hk

/-- a change of fields other than futures, trace, control stack, task stack, active task, propagating exception -/
theorem B.of_eq {s s' : State} (hf : s'.futs = s.futs) (ht : s'.trace = s.trace) (hc : s'.ctl = s.ctl)
    (hs : s'.stack = s.stack) (ha : s'.active = s.active) (hr : s'.raising = s.raising)
    (hg : s'.guardFired = s.guardFired) : B p s s' :=
  ⟨hc, hs, ha, hr, hg, ⟨[], by simp [ht], by simp⟩, fun f => by unfold State.fut; rw [hf]; exact FrF.refl _⟩

theorem b_ite {s a b : State} {c : Prop} [Decidable c] (ha : B p s a) (hb : B p s b) : B p s (if c then a else b) := by
  split <;> assumption

theorem b_emitX (s : State) (e : Event) (h : plainEv e = true ∨ p.X e) : B p s (s.emit e) :=
  ⟨rfl, rfl, rfl, rfl, rfl, ⟨[e], rfl, by simpa using h⟩, fun _ => FrF.refl _⟩

theorem b_emit (s : State) (e : Event) (h : plainEv e = true) : B p s (s.emit e) := b_emitX s e (Or.inl h)

theorem b_fail (s : State) (m : String) : B p s (s.fail m) := B.of_eq rfl rfl rfl rfl rfl rfl rfl

/-- a task update, as far as `p` allows (`ts` is the task state before) -/
def TOkG (p : Par) (t : Nat) (g : TaskSt → TaskSt) (ts : TaskSt) : Prop :=
  (∀ d ∈ (g ts).deps, d ∈ ts.deps ∨ p.D d) ∧
    ((g ts).caught = ts.caught ∨ (p.L t ∧ ∃ e, (g ts).caught = some e ∧ p.C t e)) ∧
    (p.L t ∨ (g ts).body = ts.body)

theorem b_updTaskG (s : State) (t : Nat) (g : TaskSt → TaskSt) (hg : TOkG p t g (s.task t)) :
    B p s (s.updTask t g) := by
  refine ⟨rfl, rfl, rfl, rfl, rfl, ⟨[], rfl, by simp⟩, fun f => ?_⟩
  rw [fut_updTask]; split
  · rename_i h; rw [h.1]
    obtain ⟨a, b, c⟩ := hg
    exact ⟨a, b, fun _ => c, Or.inl rfl, fun _ h => h, fun _ h e h' => by
      have : (s.fut t).out = some (.err e) := h'
      rw [h] at this; cases this⟩
  · exact FrF.refl _

/-- the task updates of the helpers: dependencies only shrink, `caught` and `body` are not touched -/
def TOk (g : TaskSt → TaskSt) : Prop :=
  ∀ ts, (∀ d ∈ (g ts).deps, d ∈ ts.deps) ∧ (g ts).caught = ts.caught ∧ (g ts).body = ts.body

/-- proves `TOk g` for an explicit record update -/
macro "tok_tac" : tactic =>
  `(tactic| (intro ts; refine ⟨?_, rfl, rfl⟩; intro d hd;
             first | exact hd | cases hd | (split at hd <;> first | exact hd | cases hd)))

theorem b_updTask (s : State) (t : Nat) (g : TaskSt → TaskSt) (hg : TOk g := by tok_tac) : B p s (s.updTask t g) :=
  b_updTaskG s t g ⟨fun d hd => Or.inl ((hg _).1 d hd), Or.inl (hg _).2.1, Or.inr (hg _).2.2⟩

/-- the updates of a task whose body may change (`p.L t`) -/
def TOkL (g : TaskSt → TaskSt) : Prop :=
  ∀ ts, (∀ d ∈ (g ts).deps, d ∈ ts.deps) ∧ (g ts).caught = ts.caught

macro "tokl_tac" : tactic =>
  `(tactic| (intro ts; refine ⟨?_, rfl⟩; intro d hd;
             first | exact hd | cases hd | (split at hd <;> first | exact hd | cases hd)))

theorem b_updTaskL (s : State) (t : Nat) (g : TaskSt → TaskSt) (hl : p.L t) (hg : TOkL g := by tokl_tac) :
    B p s (s.updTask t g) :=
  b_updTaskG s t g ⟨fun d hd => Or.inl ((hg _).1 d hd), Or.inl (hg _).2, Or.inl hl⟩

/-- completing an uncomputed future; a task only with the NonAsyncContext error (or one allowed by `p.E`) -/
theorem b_complete (s : State) (f : Nat) (o : Outcome) (h0 : s.out f = none)
    (hk : (s.fut f).kind = .task → ∀ e, o = .err e → e = .nonasync ∨ p.E f e) : B p s (s.complete f o) := by
  refine ⟨rfl, rfl, rfl, rfl, rfl, ⟨[.done f o], rfl, by simp [plainEv]⟩, fun g => ?_⟩
  rw [fut_complete]; split
  · rename_i h; rw [h.1]
    refine ⟨fun d hd => (by cases hd), Or.inl ?_, fun _ => Or.inr ?_, Or.inl rfl, fun o' h' => ?_, fun hkk _ e he => ?_⟩
    · split <;> rfl
    · split <;> rfl
    · unfold State.out at h0; rw [h0] at h'; cases h'
    · have : some o = some (Outcome.err e) := he
      injection this with this
      exact hk hkk e this
  · exact FrF.refl _

theorem b_alloc (s : State) (x : Fut) (nk : NewKind) (h1 : x.ts.deps = []) (h2 : x.ts.caught = none)
    (h3 : x.kind = .task → x.out = none) : B p s (s.alloc x nk).1 := by
  refine ⟨rfl, rfl, rfl, rfl, rfl, ⟨[.new s.futs.length nk], rfl, by simp [plainEv]⟩, fun f => ?_⟩
  rw [fut_alloc]; split
  · rename_i h; rw [h, fut_default_of_le s _ (Nat.le_refl _)]
    exact ⟨fun d hd => (by rw [h1] at hd; cases hd), Or.inl h2, fun h => (by cases h), Or.inr ⟨rfl, rfl⟩,
      fun _ h => (by cases h), fun hk _ e he => (by rw [h3 hk] at he; cases he)⟩
  · exact FrF.refl _

theorem b_newTask (s : State) (child : Body) (inh : List Nat) : B p s (s.newTask child inh).1 := by
  unfold State.newTask
  exact b_alloc _ _ _ rfl rfl (fun _ => rfl)

theorem b_updBatch (s : State) (k q : Nat) (g : Batch → Batch) : B p s (s.updBatch k q g) :=
  B.of_eq rfl rfl rfl rfl rfl rfl rfl

theorem b_svSet (s : State) (var val : Nat) : B p s (s.svSet var val) := by
  unfold State.svSet
  split <;> exact B.of_eq rfl rfl rfl rfl rfl rfl rfl

theorem b_svTouch (s : State) (var : Nat) : B p s (s.svTouch var) := by
  unfold State.svTouch
  split
  · exact B.refl _
  · exact B.of_eq rfl rfl rfl rfl rfl rfl rfl

theorem b_ctxSetResumed (s : State) (c : Nat) (r : Bool) : B p s (s.ctxSetResumed c r) := by
  unfold State.ctxSetResumed
  split
  · exact B.of_eq rfl rfl rfl rfl rfl rfl rfl
  · exact B.refl _

theorem b_ctxResumeOne (s : State) (c : Nat) : B p s (s.ctxResumeOne c) := by
  unfold State.ctxResumeOne
  have h0 : B p s ((s.emit (.ctx true c)).ctxSetResumed c true) := (b_emit s _ rfl).trans (b_ctxSetResumed _ _ _)
  refine h0.trans ?_
  generalize (s.emit (.ctx true c)).ctxSetResumed c true = s1
  dsimp only
  split
  · split
    · exact B.trans (b_svSet s1 _ _) (B.of_eq rfl rfl rfl rfl rfl rfl rfl)
    · exact B.refl _
  · exact B.refl _

theorem b_ctxPauseOne (s : State) (c : Nat) : B p s (s.ctxPauseOne c) := by
  unfold State.ctxPauseOne
  have h0 : B p s ((s.emit (.ctx false c)).ctxSetResumed c false) := (b_emit s _ rfl).trans (b_ctxSetResumed _ _ _)
  refine h0.trans ?_
  generalize (s.emit (.ctx false c)).ctxSetResumed c false = s1
  dsimp only
  split
  · split
    · exact b_svSet s1 _ _
    · exact B.refl _
  · exact B.refl _

theorem tok_ctxs (h : List Nat → List Nat) : TOk fun ts => { ts with ctxs := h ts.ctxs } :=
  fun _ => ⟨fun _ h => h, rfl, rfl⟩

theorem b_ctxExit (s : State) (c : Nat) : B p s (s.ctxExit c) := by
  rcases ctxExit_cases s c with h | ⟨o, h⟩
  · rw [h]
    exact B.trans (b_ite (B.refl _) (b_ctxPauseOne _ _)) (b_emit _ _ rfl)
  · rw [h]
    have q1 : B p s (s.updTask o fun ts => { ts with ctxs := ts.ctxs.erase c }) := b_updTask _ _ _
    exact (q1.trans (b_ite (B.refl _) (b_ctxPauseOne _ _))).trans (b_emit _ _ rfl)

theorem b_foldl {α : Type} (g : State → α → State) (hg : ∀ s a, B p s (g s a)) (l : List α) (s : State) :
    B p s (l.foldl g s) := by
  induction l generalizing s with
  | nil => exact B.refl _
  | cons a l ih => exact (hg s a).trans (ih _)

theorem b_exitAll (s : State) (t : Nat) : B p s (s.exitAll t) := by
  unfold State.exitAll
  exact (b_foldl (fun s (p : Nat × Body) => s.ctxExit p.1) (fun s p => b_ctxExit s p.1) _ s).trans
    (b_updTask _ _ _)

theorem b_failSuspended (s : State) (t : Nat) : B p s (s.failSuspended t .nonasync) := by
  unfold State.failSuspended
  split
  · exact B.refl _
  · rename_i hc
    refine ((b_exitAll s t).trans (b_updTask _ _ _)).trans
      (b_complete _ _ (.err .nonasync) ?_ (fun _ e he => by injection he with he; exact Or.inl he.symm))
    rw [P2.out_updTask, P2.out_exitAll]; exact computed_false hc

theorem b_resumeContexts (s : State) (t : Nat) : B p s (s.resumeContexts t) := by
  unfold State.resumeContexts
  dsimp only
  split
  · exact B.refl _
  · have h : B p s ((s.task t).ctxs.foldl (fun s c => if s.ctxIsNonAsync c then s else s.ctxResumeOne c)
        (s.updTask t fun ts => { ts with ctxActive := true })) :=
      (b_updTask s t _).trans (b_foldl _ (fun s c => by
        split
        · exact B.refl _
        · exact b_ctxResumeOne _ _) _ _)
    split
    · exact h.trans (b_failSuspended _ _)
    · exact h

theorem b_pauseContexts (s : State) (t : Nat) : B p s (s.pauseContexts t) := by
  unfold State.pauseContexts
  dsimp only
  split
  · exact B.refl _
  · have h : B p s ((s.task t).ctxs.reverse.foldl (fun s c => if s.ctxIsNonAsync c then s else s.ctxPauseOne c)
        (s.updTask t fun ts => { ts with ctxActive := false })) :=
      (b_updTask s t _).trans (b_foldl _ (fun s c => by
        split
        · exact B.refl _
        · exact b_ctxPauseOne _ _) _ _)
    split
    · exact h.trans (b_failSuspended _ _)
    · exact h

theorem b_switchActive (s : State) (k q : Nat) : B p s (s.switchActive k q) := by
  unfold State.switchActive
  split
  · split
    · exact B.of_eq rfl rfl rfl rfl rfl rfl rfl
    · exact B.refl _
  · exact B.refl _

theorem b_flushItems (s : State) (kind : Nat) (l : List Nat) : B p s (s.flushItems kind l) := by
  induction l generalizing s with
  | nil => exact B.refl _
  | cons i is ih =>
    unfold State.flushItems
    refine B.trans ?_ (ih _)
    split
    · exact B.refl _
    · rename_i hc
      split
      · rename_i hk
        exact b_complete _ _ _ (computed_false hc) (fun h => by rw [hk] at h; cases h)
      · rename_i hk
        exact b_complete _ _ _ (computed_false hc) (fun h => by rw [hk] at h; cases h)
      · exact B.refl _

theorem b_finishItems (s : State) (e : Err) (l : List Nat) (hl : ∀ i ∈ l, isItemKind (s.fut i).kind = true) :
    B p s (s.finishItems e l) := by
  induction l generalizing s with
  | nil => exact B.refl _
  | cons i is ih =>
    unfold State.finishItems
    have hi := P2.kind_of_isItem (hl i (by simp))
    have q : B p s (if s.computed i then s else s.complete i (.err e)) := by
      split
      · exact B.refl _
      · rename_i hc
        exact b_complete _ _ _ (computed_false hc) (fun h => absurd h hi.2)
    exact q.trans (ih _ (fun j hj => q.kind_item (hl j (by simp [hj]))))

theorem b_flushBatch (s : State) (kind seq : Nat) (hi : ItemsOk s) : B p s (s.flushBatch kind seq) := by
  unfold State.flushBatch
  split
  · exact b_fail _ _
  · rename_i b hb
    have hb' : b ∈ s.batches := List.mem_of_find?_eq_some hb
    simp only []
    have q1 : B p s (((s.switchActive kind seq).emit (.flushI kind seq b.items)).flushItems kind b.items) :=
      ((b_switchActive s kind seq).trans (b_emit _ _ rfl)).trans (b_flushItems _ _ _)
    refine ((q1.trans (b_finishItems _ _ _ ?_)).trans (b_emit _ _ rfl)).trans (b_updBatch _ _ _ _)
    intro i hib; exact q1.kind_item (hi b hb' i hib)

end AsynqModel.Core.P11
