import AsynqModel.Proofs.P21G
/-
  P21, part 3: one instruction of a task body (`genStep`), classified by what it does to the control stack, to
  `raising`, and to the body of the running task as far as the run-time instruction `syncret` is concerned.
-/
namespace AsynqModel.Core.P21
open AsynqModel.Core

/-- the `fail` messages that `Theorems/Acyclic.lean` (`not_stuck_with`) excludes for well-scoped programs -/
def nineMsgs : List String :=
  ["re-entrant task", "flush of unknown batch", "no admissible batch", "unknown batch", "empty stack",
   "task completed twice", "no batch", "suspended task is not at a yield", "uncomputed constant future"]

inductive GOut (s : State) (t : Nat) (r : State) : Prop
  /-- an instruction after which the task is not stopped at a `syncret` -/
  | stay (g : G (some t) s r) (c : r.ctl = s.ctl) (rz : r.raising = s.raising) (nb : isSR (r.task t).body = false)
  /-- the task yields or finishes -/
  | leave (g : G (some t) s r) (c : r.ctl = s.ctl.tail) (rz : r.raising = s.raising)
      (nb : isSR (r.task t).body = false)
  /-- a synchronous call that starts a nested `wait_for(f)` -/
  | call (f : Nat) (k h : Body) (g : G (some t) s r) (c : r.ctl = .waitEnter f :: s.ctl) (rz : r.raising = s.raising)
      (hb : (r.task t).body = .syncret f k h) (hp : (r.task t).pending = false)
  /-- `f.value()` that needs no `wait_for`: `f` is computed when the instruction is over -/
  | callNow (f : Nat) (k h : Body) (g : G (some t) s r) (c : r.ctl = s.ctl) (rz : r.raising = s.raising)
      (hb : (r.task t).body = .syncret f k h) (hp : (r.task t).pending = false) (hc : r.computed f = true)
  /-- the synchronous call returns -/
  | ret (f : Nat) (k h : Body) (hb : (s.task t).body = .syncret f k h) (hp : (s.task t).pending = false)
      (g : G (some t) s r) (c : r.ctl = s.ctl) (rz : r.raising = none) (nb : isSR (r.task t).body = false)
  | retFail (f : Nat) (k h : Body) (hb : (s.task t).body = .syncret f k h) (hp : (s.task t).pending = false)
      (hr : s.raising = none) (ho : s.out f = none) (e : r = s.fail "value() returned without an outcome")
  | bad (m : String) (hm : m ∈ nineMsgs) (e : r = s.fail m)

section
variable {s : State} {t : Nat} (ht : t < s.futs.length)
include ht

theorem hx_some : ∀ u, some t = some u → u < s.futs.length := by
  intro u hu; injection hu with hu; subst hu; exact ht

/-- `G`, then a heap-side helper -/
theorem G.fz {a r : State} (h : G (some t) s a) (f : FZ a r) : G (some t) s r := h.trans (hx_some ht) (f.g _)

theorem G.upd {a : State} (h : G (some t) s a) (g : TaskSt → TaskSt) : G (some t) s (a.updTask t g) :=
  h.trans (hx_some ht) (g_updSelf a t g)

theorem G.emit {a : State} (h : G (some t) s a) (e : Event) (he : isRet e = false) : G (some t) s (a.emit e) :=
  G.fz ht h (fz_emit a e he)

end

theorem task_upd_self (a : State) (t : Nat) (g : TaskSt → TaskSt) (ht : t < a.futs.length) :
    (a.updTask t g).task t = g (a.task t) := P10.task_updTask_self a t g ht

/-- `leaveGen` as far as this proof looks -/
theorem leaveGen_facts (a : State) (t : Nat) (old : Option Nat) :
    FZ a (a.updTask t fun ts => { ts with depsSched := false }) ∧
    (a.leaveGen t old).futs = (a.updTask t fun ts => { ts with depsSched := false }).futs ∧
    (a.leaveGen t old).ctl = a.ctl.tail ∧ (a.leaveGen t old).raising = a.raising := by
  refine ⟨fz_updTask a t _ P10.keep_sched_false, rfl, rfl, rfl⟩

theorem G.leaveGen {s a : State} {t : Nat} (ht : t < s.futs.length) (h : G (some t) s a) (old : Option Nat) :
    G (some t) s (a.leaveGen t old) :=
  (G.fz ht h (leaveGen_facts a t old).1).congr rfl rfl rfl rfl rfl rfl rfl rfl

theorem task_leaveGen (a : State) (t : Nat) (old : Option Nat) (f : Nat) :
    ((a.leaveGen t old).task f).body = (a.task f).body ∧ ((a.leaveGen t old).task f).pending = (a.task f).pending := by
  have e : (a.leaveGen t old).task f = (a.updTask t fun ts => { ts with depsSched := false }).task f := rfl
  rw [e, P10.task_updTask]
  split
  · rename_i h; rw [h.1]; exact ⟨rfl, rfl⟩
  · exact ⟨rfl, rfl⟩

/-- `finishTask`: the task leaves its generator for good -/
theorem gout_finish (s : State) (t : Nat) (old : Option Nat) (o : Outcome) (ht : t < s.futs.length)
    (hb : isSR (s.task t).body = false) : GOut s t (s.finishTask t old o) := by
  unfold State.finishTask
  split
  · exact .bad _ (by decide) rfl
  · have f1 : FZ s (((s.exitAll t).updTask t fun ts => { ts with pending := false }).complete t o) :=
      ((fz_exitAll s t).trans (fz_updTask _ t _ P10.keep_pending_false)).trans (fz_complete _ t o)
    generalize (((s.exitAll t).updTask t fun ts => { ts with pending := false }).complete t o) = a at f1
    refine .leave (G.leaveGen ht (f1.g _) old) ?_ ?_ ?_
    · rw [(leaveGen_facts a t old).2.2.1, f1.nz.ctl]
    · rw [(leaveGen_facts a t old).2.2.2, f1.nz.raising]
    · rw [(task_leaveGen a t old t).1, (f1.nz.ts t).body]; exact hb

theorem gout_item_key (s s1 : State) (t kind payload : Nat) (mode : ItemMode) (k : Body) (b : Batch)
    (ht : t < s.futs.length) (hk : isSR k = false) (hib : P6.InvB s)
    (e : P6.EqvNB s s1) (h0 : G0 (some t) s s1) (hc : s1.ctl = s.ctl) (hr : s1.raising = s.raising)
    (hbat : s1.batches = s.batches ∨ (P6.curBatchL s.batches kind = none ∧
      s1.batches = s.batches ++ [({ kind := kind, seq := 0 } : Batch)]))
    (hcur : s1.curBatch? kind = some b) :
    GOut s t (((s1.alloc (P6.itemFut s1.cfg kind b.seq payload mode)
        (.item kind b.seq b.items.length payload mode)).1.updBatch kind b.seq
          (P6.addItemB s1.futs.length)).updTask t (P6.ownTs s1.futs.length k)) := by
  have hl : s1.futs.length = s.futs.length := e.len
  have hx := hx_some ht
  have g1 : G0 (some t) s (s1.alloc (P6.itemFut s1.cfg kind b.seq payload mode)
      (.item kind b.seq b.items.length payload mode)).1 := h0.trans hx (g0_alloc _ s1 _ _ rfl)
  have g2 := g1.trans hx (g0_of_nz (some t) (P10.nz_updBatch _ kind b.seq (P6.addItemB s1.futs.length))
    (aux_updBatch _ _ _ _))
  have g3 := g2.trans hx (g_updSelf _ t (P6.ownTs s1.futs.length k)).toG0
  have hl2 : t < ((s1.alloc (P6.itemFut s1.cfg kind b.seq payload mode)
      (.item kind b.seq b.items.length payload mode)).1.updBatch kind b.seq (P6.addItemB s1.futs.length)).futs.length := by
    simp; omega
  refine .stay ⟨g3, fun _ => ?_⟩ hc hr ?_
  · have U := (P6.Upd2.alloc e t ht (P6.itemFut s1.cfg kind b.seq payload mode)
        (.item kind b.seq b.items.length payload mode)).eqvNB
      (r' := ((s1.alloc (P6.itemFut s1.cfg kind b.seq payload mode)
        (.item kind b.seq b.items.length payload mode)).1.updBatch kind b.seq (P6.addItemB s1.futs.length)))
      ⟨rfl, fun _ => rfl, rfl, rfl, id⟩
    have U' := U.updTask ht (P6.ownTs s1.futs.length k) (fun v => P6.ownView v s1.futs.length k) (fun _ => rfl)
    refine hib.of_item (kind := kind) (seq := b.seq) (payload := payload) (mode := mode) U'
      ⟨s1.batches, b, ?_, hcur, rfl, ?_⟩ rfl rfl
    · rcases hbat with h | ⟨h1, h2⟩
      · exact Or.inl h
      · exact Or.inr ⟨h1, h2⟩
    · rw [← hl]; rfl
  · rw [task_upd_self _ _ _ hl2]; exact hk

theorem gout_yield (s : State) (t : Nat) (old : Option Nat) (ht : t < s.futs.length) (e : Event)
    (he : isRet e = false) (g : TaskSt → TaskSt) (hg : ∀ ts, (g ts).body = ts.body) (deps : List Nat)
    (hb : isSR (s.task t).body = false) :
    GOut s t (if deps.isEmpty then (s.emit e).updTask t g else ((s.emit e).updTask t g).leaveGen t old) := by
  have g1 := G.upd ht ((fz_emit s e he).g (some t)) g
  have hb1 : isSR (((s.emit e).updTask t g).task t).body = false := by
    rw [task_upd_self _ _ _ (show t < (s.emit e).futs.length from ht), hg]
    exact hb
  split
  · exact .stay g1 rfl rfl hb1
  · refine .leave (G.leaveGen ht g1 old) rfl rfl ?_
    rw [(task_leaveGen _ t old t).1]; exact hb1

theorem gout_call {s a : State} {t f : Nat} {k h : Body} (g : G (some t) s a) (hc : a.ctl = s.ctl)
    (hr : a.raising = s.raising) (hb : (a.task t).body = .syncret f k h) (hp : (a.task t).pending = false) :
    GOut s t { a with ctl := .waitEnter f :: a.ctl } :=
  .call f k h (g.congr rfl rfl rfl rfl rfl rfl rfl rfl) (by rw [← hc]) hr hb hp

theorem gout_next {s a : State} {t : Nat} (ht : t < s.futs.length) (fz : FZ s a) (g : TaskSt → TaskSt)
    (hb : isSR (g (a.task t)).body = false) : GOut s t (a.updTask t g) :=
  .stay (G.upd ht (fz.g _) g) fz.nz.ctl fz.nz.raising
    (by rw [task_upd_self _ _ _ (by rw [fz.nz.len]; exact ht)]; exact hb)

theorem g_flushBatch (x : Option Nat) (a : State) (k q : Nat) (b : Batch) (hb : a.batch? k q = some b)
    (hs : a.stuck = none) : G x a (a.flushBatch k q) := by
  have hst : (a.flushBatch k q).stuck = none := by rw [P1.flushBatch_stuck a k q b hb]; exact hs
  exact ⟨g0_of_nz x (P10.nz_flushBatch a k q b hb) (aux_flushBatch a k q),
    fun hi => hi.of_flush (P20.flushDesc_flushBatch a k q hst)⟩

theorem gen_out (s : State) (t : Nat) (old : Option Nat) (ht : t < s.futs.length)
    (hws : P10.wsTS (s.task t) = true)
    (hsr : ∀ f k h, (s.task t).body = .syncret f k h → (s.task t).pending = false)
    (hnb : ∀ y, P10.Named s t y → y < s.futs.length)
    (hib : P6.InvB s) (hcd : P10.ConstDone s) (hs : s.stuck = none) : GOut s t (s.genStep t old) := by
  have wsb : ∀ {X : Body}, (s.task t).body = X → (∀ f k hh, X ≠ .syncret f k hh) →
      P10.wsB X (s.task t).own.length (s.task t).inh.length
        (P10.contQ (s.task t).inh.length (s.task t).conts) = true := fun hX hns => P10.ws_body _ hws hX hns
  unfold State.genStep
  dsimp only
  split
  · rename_i hpend
    have hnsr : isSR (s.task t).body = false := by
      cases hb : (s.task t).body <;> first | rfl | (have := hsr _ _ _ hb; rw [hpend] at this; cases this)
    split
    · refine .stay (G.emit ht (g_updSelf s t _) _ rfl) rfl rfl ?_
      rw [P2.emit_task, task_upd_self _ _ _ ht]; exact hnsr
    · split
      · rename_i heq _
        have hw := wsb heq (by intro _ _ _ h; cases h)
        simp only [P10.wsB, Bool.and_eq_true] at hw
        refine .stay (G.emit ht (g_updSelf s t _) _ rfl) rfl rfl ?_
        rw [P2.emit_task, task_upd_self _ _ _ ht]; exact isSR_of_wsB hw.1.2
      · rename_i heq _
        have hw := wsb heq (by intro _ _ _ h; cases h)
        simp only [P10.wsB, Bool.and_eq_true] at hw
        refine .stay (G.emit ht (g_updSelf s t _) _ rfl) rfl rfl ?_
        rw [P2.emit_task, task_upd_self _ _ _ ht]; exact isSR_of_wsB hw.2
      · rename_i heq _
        have hw := wsb heq (by intro _ _ _ h; cases h)
        simp only [P10.wsB, Bool.and_eq_true] at hw
        refine .stay (G.emit ht (g_updSelf s t _) _ rfl) rfl rfl ?_
        rw [P2.emit_task, task_upd_self _ _ _ ht]; exact isSR_of_wsB hw.1
      · rename_i heq _
        have hw := wsb heq (by intro _ _ _ h; cases h)
        simp only [P10.wsB, Bool.and_eq_true] at hw
        refine .stay (G.emit ht (g_updSelf s t _) _ rfl) rfl rfl ?_
        rw [P2.emit_task, task_upd_self _ _ _ ht]; exact isSR_of_wsB hw.2
      · exact .bad _ (by decide) rfl
  · rename_i hpend
    have hpend : (s.task t).pending = false := by simpa using hpend
    split
    · rename_i heq; exact gout_finish _ _ _ _ ht (by rw [heq]; rfl)
    · rename_i heq; exact gout_finish _ _ _ _ ht (by rw [heq]; rfl)
    · rename_i heq; exact gout_finish _ _ _ _ ht (by rw [heq]; rfl)
    · rename_i heq; exact gout_finish _ _ _ _ ht (by rw [heq]; rfl)
    · -- spawn
      rename_i child pass k heq
      have hw := wsb heq (by intro _ _ _ h; cases h)
      simp only [P10.wsB, Bool.and_eq_true] at hw
      have hl : t < (s.newTask child (pass.map (s.task t).resolve)).1.futs.length := by
        simp [State.newTask]; omega
      refine .stay (G.upd ht (g_newTask _ s child _ (isSR_of_wsB hw.1.2)) _) rfl rfl ?_
      rw [task_upd_self _ _ _ hl]; exact isSR_of_wsB hw.2
    · -- item
      rename_i kind payload mode k heq
      have hw := wsb heq (by intro _ _ _ h; cases h)
      simp only [P10.wsB] at hw
      have hk := isSR_of_wsB hw
      cases hcb : s.curBatch? kind with
      | some b0 =>
        simp only [hcb]
        exact gout_item_key s s t kind payload mode k b0 ht hk hib (P6.EqvNB.refl s) (G0.refl _ s) rfl rfl (Or.inl rfl) hcb
      | none =>
        simp only []
        split
        · rename_i hcur; exact absurd hcur (P10.curBatch_append s kind)
        · rename_i b hcur
          exact gout_item_key s _ t kind payload mode k b ht hk hib ⟨rfl, fun _ => rfl, rfl, rfl, id⟩
            ((G0.refl _ s).congr rfl rfl rfl rfl rfl rfl rfl) rfl rfl (Or.inr ⟨hcb, rfl⟩) hcur
    · -- const
      rename_i v k heq
      have hw := wsb heq (by intro _ _ _ h; cases h)
      simp only [P10.wsB] at hw
      have hl : t < (s.alloc { kind := .const, out := some (.ok (.a v)), den := .ok (.a v) } (.const v)).1.futs.length := by
        simp; omega
      refine .stay (G.upd ht (g_alloc _ s _ _ rfl (by intro _ _ _ _ h; cases h)) _) rfl rfl ?_
      rw [task_upd_self _ _ _ hl]; exact isSR_of_wsB hw
    · -- errfut
      rename_i v k heq
      have hw := wsb heq (by intro _ _ _ h; cases h)
      simp only [P10.wsB] at hw
      have hl : t < (s.alloc { kind := .errfut, out := some (.err (.u v)), den := .err (.u v) } (.errfut v)).1.futs.length := by
        simp; omega
      refine .stay (G.upd ht (g_alloc _ s _ _ rfl (by intro _ _ _ _ h; cases h)) _) rfl rfl ?_
      rw [task_upd_self _ _ _ hl]; exact isSR_of_wsB hw
    · -- lazy
      rename_i v k heq
      have hw := wsb heq (by intro _ _ _ h; cases h)
      simp only [P10.wsB] at hw
      have hl : t < (s.alloc { kind := .lazy v, den := lazyOutcome v } .lazy).1.futs.length := by
        simp; omega
      refine .stay (G.upd ht (g_alloc _ s _ _ rfl (by intro _ _ _ _ h; cases h)) _) rfl rfl ?_
      rw [task_upd_self _ _ _ hl]; exact isSR_of_wsB hw
    · -- yld
      rename_i y k h heq
      exact gout_yield s t old ht _ (by rfl) _ (by intro ts; rfl) _ (by rw [heq]; rfl)
    · -- reyld
      rename_i k h heq
      exact gout_yield s t old ht _ (by rfl) _ (by intro ts; rfl) _ (by rw [heq]; rfl)
    · -- sync
      rename_i child pass k h heq
      have hw := wsb heq (by intro _ _ _ h; cases h)
      simp only [P10.wsB, Bool.and_eq_true] at hw
      have hl : t < (s.newTask child (pass.map (s.task t).resolve)).1.futs.length := by
        simp [State.newTask]; omega
      have g1 := G.emit ht (G.upd ht (g_newTask (some t) s child (pass.map (s.task t).resolve) (isSR_of_wsB hw.1.1.2))
        (fun ts => { ts with own := ts.own ++ [(s.newTask child (pass.map (s.task t).resolve)).2],
                             body := .syncret (s.newTask child (pass.map (s.task t).resolve)).2 k h }))
        (.syncE t (s.newTask child (pass.map (s.task t).resolve)).2) rfl
      refine gout_call (k := k) (h := h) g1 rfl rfl ?_ ?_
      · rw [P2.emit_task, task_upd_self _ _ _ hl]
      · rw [P2.emit_task, task_upd_self _ _ _ hl]
        show ((s.newTask child (pass.map (s.task t).resolve)).1.task t).pending = false
        unfold State.newTask
        rw [P10.task_alloc, if_neg (Nat.ne_of_lt ht)]
        exact hpend
    · -- syncfut
      rename_i r k h heq
      have hw := wsb heq (by intro _ _ _ h; cases h)
      simp only [P10.wsB, Bool.and_eq_true] at hw
      have hfl : (s.task t).resolve r < s.futs.length := hnb _ (P10.resolve_mem _ _ hw.1.1)
      have g1 : G (some t) s ((s.updTask t fun ts => { ts with body := .syncret ((s.task t).resolve r) k h }).emit
          (.syncE t ((s.task t).resolve r))) := G.emit ht (g_updSelf s t _) _ rfl
      have hb1 : (((s.updTask t fun ts => { ts with body := .syncret ((s.task t).resolve r) k h }).emit
          (.syncE t ((s.task t).resolve r))).task t).body = .syncret ((s.task t).resolve r) k h := by
        rw [P2.emit_task, task_upd_self _ _ _ ht]
      have hp1 : (((s.updTask t fun ts => { ts with body := .syncret ((s.task t).resolve r) k h }).emit
          (.syncE t ((s.task t).resolve r))).task t).pending = false := by
        rw [P2.emit_task, task_upd_self _ _ _ ht]; exact hpend
      generalize hs1 : ((s.updTask t fun ts => { ts with body := .syncret ((s.task t).resolve r) k h }).emit
          (.syncE t ((s.task t).resolve r))) = s1 at g1 hb1 hp1
      have hc1 : s1.ctl = s.ctl := by rw [← hs1]; rfl
      have hr1 : s1.raising = s.raising := by rw [← hs1]; rfl
      have hst1 : s1.stuck = none := by rw [g1.stuck]; exact hs
      have hl1 : (s.task t).resolve r < s1.futs.length := Nat.lt_of_lt_of_le hfl g1.len
      have ht1 : t < s1.futs.length := Nat.lt_of_lt_of_le ht g1.len
      generalize (s.task t).resolve r = f at *
      split
      · rename_i hcf
        exact .callNow f k h g1 hc1 hr1 hb1 hp1 hcf
      · rename_i hcf
        split
        · exact gout_call g1 hc1 hr1 hb1 hp1
        · rename_i kind seq payload mode hk
          have ho : s1.out f = none := by
            cases ho : s1.out f with
            | none => rfl
            | some o => exact absurd (by unfold State.computed; rw [ho]; rfl) hcf
          obtain ⟨b, hb, hfl', hmem⟩ := (g1.ib hib).item f kind seq payload mode hk ho
          rw [hb]
          simp only [hfl', Bool.false_eq_true, if_false]
          have g2 := g1.trans (hx_some ht) (g_flushBatch (some t) s1 kind seq b hb hst1)
          have nz := P10.nz_flushBatch s1 kind seq b hb
          refine .callNow f k h g2 (nz.ctl.trans hc1) (nz.raising.trans hr1) ?_ ?_
            (P1.flushBatch_computed s1 kind seq b hb f hmem hl1)
          · rw [(nz.ts t).body]; exact hb1
          · cases hp : ((s1.flushBatch kind seq).task t).pending with
            | false => rfl
            | true => have := (nz.ts t).pending hp; rw [hp1] at this; cases this
        · rename_i o hk
          have g2 := G.fz ht g1 (fz_complete s1 f (lazyOutcome o))
          have nz := P10.nz_complete s1 f (lazyOutcome o)
          refine .callNow f k h g2 (nz.ctl.trans hc1) (nz.raising.trans hr1) ?_ ?_ ?_
          · rw [(nz.ts t).body]; exact hb1
          · cases hp : ((s1.complete f (lazyOutcome o)).task t).pending with
            | false => rfl
            | true => have := (nz.ts t).pending hp; rw [hp1] at this; cases this
          · rw [P10.computed_complete]; simp [hl1]
        · -- a constant or error future is born computed
          rename_i h1 h2 h3
          exfalso
          have hk0 : (s1.fut f).kind = (s.fut f).kind := g1.kind f hfl
          have hcs : s.computed f = true := by
            cases hk : (s.fut f).kind with
            | task => exact absurd (hk0.trans hk) h1
            | item a b c d => exact absurd (hk0.trans hk) (h2 _ _ _ _)
            | lazy o => exact absurd (hk0.trans hk) (h3 _)
            | const => exact hcd f hfl (.inl hk)
            | errfut => exact hcd f hfl (.inr hk)
          exact hcf (g1.comp f hcs)
    · -- syncret
      rename_i f k h heq
      have hw := P20.wsTS_syncret hws heq
      split
      · rename_i ho
        refine .retFail f k h heq hpend ?_ ?_ rfl
        · cases hr : s.raising with
          | none => rfl
          | some e => rw [hr] at ho; cases ho
        · cases hr : s.raising with
          | none => rw [hr] at ho; exact ho
          | some e => rw [hr] at ho; cases ho
      · have g0 : G (some t) s { s with raising := none } := (G.refl _ s).congr rfl rfl rfl rfl rfl rfl rfl rfl
        refine .ret f k h heq hpend (G.emit ht (G.upd ht g0 _) _ rfl) rfl rfl ?_
        rw [P2.emit_task, task_upd_self _ _ _ (show t < ({ s with raising := none } : State).futs.length from ht)]
        exact isSR_of_wsB hw.1
      · have g0 : G (some t) s { s with raising := none } := (G.refl _ s).congr rfl rfl rfl rfl rfl rfl rfl rfl
        refine .ret f k h heq hpend (G.emit ht (G.upd ht g0 _) _ rfl) rfl rfl ?_
        rw [P2.emit_task, task_upd_self _ _ _ (show t < ({ s with raising := none } : State).futs.length from ht)]
        exact isSR_of_wsB hw.2
    · -- withCtx
      rename_i c b k heq
      have hw := wsb heq (by intro _ _ _ h; cases h)
      simp only [P10.wsB] at hw
      have fz : FZ s (P3.wc5 (P3.wc4 (P3.wc3 (P3.wc1 s c) s.ctxs.length t c) s.ctxs.length) c s.ctxs.length) := by
        have h1 : FZ s (P3.wc1 s c) := by
          unfold P3.wc1; split
          · exact fz_svTouch _ _
          · exact FZ.refl _
        have h3 : ∀ s0 : State, FZ s0 (P3.wc3 s0 s.ctxs.length t c) := fun s0 =>
          (fz_emit s0 (.ctxN s.ctxs.length t c) rfl).trans (fz_of_eq rfl rfl rfl rfl rfl rfl rfl rfl rfl rfl rfl rfl)
        have h4 : ∀ s0 : State, FZ s0 (P3.wc4 s0 s.ctxs.length) := fun s0 => by
          unfold P3.wc4; split
          · exact fz_updTask _ _ _ (fun ts => P10.keep_ctxs _ ts)
          · exact FZ.refl _
        have h5 : ∀ s0 : State, FZ s0 (P3.wc5 s0 c s.ctxs.length) := fun s0 => by
          unfold P3.wc5; split
          · exact FZ.refl _
          · exact fz_ctxResumeOne _ _
        exact ((h1.trans (h3 _)).trans (h4 _)).trans (h5 _)
      exact gout_next ht fz _ (isSR_of_wsB hw)
    · -- endwith
      rename_i heq
      split
      · exact gout_finish _ _ _ _ ht (by rw [heq]; rfl)
      · rename_i cid k rest hc
        have hw := wsb heq (by intro _ _ _ h; cases h)
        rw [hc] at hw
        simp only [P10.wsB, P10.contQ] at hw
        have fz := fz_ctxExit s cid
        exact gout_next ht fz _ (isSR_of_wsB hw)
    · -- read
      rename_i var k heq
      have hw := wsb heq (by intro _ _ _ h; cases h)
      simp only [P10.wsB] at hw
      have fz : FZ s ((s.svTouch var).emit (.read t var (.a ((s.svTouch var).svGet var)))) :=
        (fz_svTouch _ _).trans (fz_emit _ _ rfl)
      exact gout_next ht fz _ (isSR_of_wsB hw)
    · -- active
      rename_i k heq
      have hw := wsb heq (by intro _ _ _ h; cases h)
      simp only [P10.wsB] at hw
      have fz : FZ s (s.emit (.active t s.active)) := fz_emit _ _ rfl
      exact gout_next ht fz _ (isSR_of_wsB hw)

end AsynqModel.Core.P21
