import AsynqModel.Proofs.CtxAlt2
/-! alternation: exit / suspend / continue / finish and the whole run (helper lemmas for Theorems/C06c.lean) -/
namespace AsynqModel.Contexts

theorem nodup_reverse' (l : List Nat) (h : l.Nodup) : l.reverse.Nodup := by
  unfold List.Nodup at *
  rw [List.pairwise_reverse]
  exact h.imp (fun hab => fun e => hab e.symm)

theorem WF_close (w : W) (d : Nat) (hwf : WF w) : WF (closeCtx w d) :=
  { nodup := closeCtx_nodup w d hwf.nodup, runAct := hwf.runAct, susAct := hwf.susAct }

theorem alt_exit (defs : List Kind) (nvars : Nat) (w w' : W) (ob : Obs) (c d : Nat) (hp : isPlain defs c = true)
    (hwf : WF w) (hop : isOpen w d = true) (h : watchExit defs nvars w d ob = .ok w') : AltStep w w' ob c := by
  -- the block is closed, with or without a pause()
  have hclose : ∀ w1 : W, w1.opened = (closeCtx w d).opened → w1.act = w.act → w1.phase = w.phase →
      (d ≠ c → onCtx c ob.calls = []) →
      (d = c → onCtx c ob.calls = if (!ownedOpen w c || w.act) then [false] else []) → AltStep w w1 ob c := by
    intro w1 h1 h2 h3 hne heq
    refine ⟨WF_congr (closeCtx w d) w1 (WF_close w d hwf) h1 h2 h3, ?_⟩
    rw [resumedNow_congr (closeCtx w d) w1 c h1 h2]
    by_cases hcd : d = c
    · subst hcd
      rw [heq rfl, resumedNow_close_self]
      have : resumedNow w d = (!ownedOpen w d || w.act) := by simp [resumedNow, hop]
      rw [this]
      cases (!ownedOpen w d || w.act) <;> simp [altRun]
    · rw [hne hcd, resumedNow_close_ne w c d hcd]; rfl
  unfold watchExit at h
  cases hk : kindOf defs d with
  | na =>
    have hcd : d ≠ c := fun e => by subst e; simp [isPlain, hk] at hp
    rw [hk] at h; simp only at h
    split at h
    · rename_i hc
      simp only [Bool.and_eq_true, List.isEmpty_iff] at hc
      have e := common_inv defs nvars _ _ _ h; rw [e]
      exact hclose _ rfl rfl rfl (fun _ => by rw [hc.1]; rfl) (fun e => absurd e hcd)
    · simp at h
  | ov x v =>
    have hcd : d ≠ c := fun e => by subst e; simp [isPlain, hk] at hp
    rw [hk] at h; simp only at h
    split at h
    · rename_i hc
      simp only [Bool.and_eq_true, List.isEmpty_iff] at hc
      have e := common_inv defs nvars _ _ _ h; rw [e]
      split
      · have hf := popOv_fields defs (closeCtx w d) d
        exact hclose _ hf.1 hf.2.2.1 hf.2.1 (fun _ => by rw [hc.1]; rfl) (fun e => absurd e hcd)
      · exact hclose _ rfl rfl rfl (fun _ => by rw [hc.1]; rfl) (fun e => absurd e hcd)
    · simp at h
  | plain rr pr =>
    rw [hk] at h; simp only at h
    split at h
    · rename_i hres
      split at h
      · rename_i hc
        simp only [Bool.and_eq_true, List.isEmpty_iff] at hc
        have e := common_inv defs nvars _ _ _ h; rw [e]
        refine hclose _ rfl rfl rfl (fun _ => by rw [hc.1]; rfl) (fun e => ?_)
        subst e
        have : (!ownedOpen w d || w.act) = false := by
          cases h1 : (!ownedOpen w d || w.act) with
          | false => rfl
          | true => rw [h1] at hres; simp at hres
        rw [this, hc.1]; rfl
      · simp at h
    · rename_i hres
      split at h
      · rename_i cl hcalls
        split at h
        · simp at h
        · rename_i hcl1
          have hcl2 : cl.isR = false ∧ cl.c = d := by simpa using hcl1
          generalize (if cl.raised = true then Esc.exc (Exc.hookP d) else Esc.none) = E at h
          split at h
          · simp at h
          · have e := common_inv defs nvars _ _ _ h; rw [e]
            refine hclose _ rfl rfl rfl
              (fun hcd => onCtx_other c d _ (by rw [hcalls]; intro x hx; simp at hx; rw [hx]; exact hcl2.2) hcd) (fun e => ?_)
            subst e
            have : (!ownedOpen w d || w.act) = true := by
              cases h1 : (!ownedOpen w d || w.act) with
              | true => rfl
              | false => rw [h1] at hres; simp at hres
            rw [this, hcalls]
            simp [onCtx, hcl2.1, hcl2.2]
      · simp at h

theorem mem_targets (w : W) (c : Nat) : c ∈ ownedIds w ↔ ownedOpen w c = true := by
  rw [mem_ownedIds, ownedOpen_iff]

theorem alt_suspend (defs : List Kind) (nvars : Nat) (w w' : W) (ob : Obs) (c : Nat) (hp : isPlain defs c = true)
    (hwf : WF w) (hph : w.phase = .running) (h : watchSuspend defs nvars w ob = .ok w') : AltStep w w' ob c := by
  unfold watchSuspend at h
  split at h
  · simp at h
  · simp only at h
    split at h
    · split at h <;> simp at h
    · rename_i errs hwalk
      have e := common_inv defs nvars _ _ _ h; rw [e]
      have hf := failWith_fields ((ownedIds w).reverse.foldl (popOv defs) { w with act := false }) (lastSome errs) .suspended
      have hg := foldl_popOv_fields defs (ownedIds w).reverse { w with act := false }
      have hact : w.act = true := hwf.runAct hph
      have hon := walk_onCtx defs false c hp _ _ _ hwalk
        (nodup_reverse' _ (ownedIds_nodup w hwf.nodup))
      refine ⟨{ nodup := by rw [hf.1, hg.1]; exact hwf.nodup, runAct := fun hx => ?_, susAct := fun _ => hf.2.1.trans hg.2.2.1 }, ?_⟩
      · rcases hf.2.2.2 with h1 | h1 <;> rw [h1] at hx <;> simp at hx
      · rw [hon]
        have hafter : resumedNow (failWith ((ownedIds w).reverse.foldl (popOv defs) { w with act := false }) (lastSome errs) .suspended) c
            = (isOpen w c && !ownedOpen w c) := by
          have h1 : (failWith ((ownedIds w).reverse.foldl (popOv defs) { w with act := false }) (lastSome errs) .suspended).opened = w.opened := by
            rw [hf.1, hg.1]
          have h2 : (failWith ((ownedIds w).reverse.foldl (popOv defs) { w with act := false }) (lastSome errs) .suspended).act = false := by
            rw [hf.2.1, hg.2.2.1]
          unfold resumedNow
          rw [isOpen_congr _ w c h1, ownedOpen_congr _ w c h1, h2]; simp
        have hbefore : resumedNow w c = isOpen w c := by simp [resumedNow, hact]
        rw [hafter, hbefore]
        simp only [List.mem_reverse, mem_targets]
        cases ho : ownedOpen w c with
        | true =>
          have : isOpen w c = true := (isOpen_iff w c).mpr ⟨true, (ownedOpen_iff w c).mp ho⟩
          simp [this, altRun]
        | false => simp [altRun]

theorem alt_continue (defs : List Kind) (nvars : Nat) (w w' : W) (ob : Obs) (c : Nat) (hp : isPlain defs c = true)
    (hwf : WF w) (hph : w.phase = .suspended) (h : watchContinue defs nvars w ob = .ok w') : AltStep w w' ob c := by
  unfold watchContinue at h
  split at h
  · simp at h
  · simp only at h
    split at h
    · split at h <;> simp at h
    · rename_i errs hwalk
      have e := common_inv defs nvars _ _ _ h; rw [e]
      have hf := failWith_fields ((ownedIds w).foldl (pushOv defs) { w with act := true }) (firstSome errs) .running
      have hg := foldl_pushOv_fields defs (ownedIds w) { w with act := true }
      have hact : w.act = false := hwf.susAct hph
      have hon := walk_onCtx defs true c hp _ _ _ hwalk (ownedIds_nodup w hwf.nodup)
      refine ⟨{ nodup := by rw [hf.1, hg.1]; exact hwf.nodup, runAct := fun _ => hf.2.1.trans hg.2.2.1, susAct := fun hx => ?_ }, ?_⟩
      · rcases hf.2.2.2 with h1 | h1 <;> rw [h1] at hx <;> simp at hx
      · rw [hon]
        have hafter : resumedNow (failWith ((ownedIds w).foldl (pushOv defs) { w with act := true }) (firstSome errs) .running) c
            = isOpen w c := by
          have h1 : (failWith ((ownedIds w).foldl (pushOv defs) { w with act := true }) (firstSome errs) .running).opened = w.opened := by
            rw [hf.1, hg.1]
          have h2 : (failWith ((ownedIds w).foldl (pushOv defs) { w with act := true }) (firstSome errs) .running).act = true := by
            rw [hf.2.1, hg.2.2.1]
          unfold resumedNow
          rw [isOpen_congr _ w c h1, h2]; simp
        have hbefore : resumedNow w c = (isOpen w c && !ownedOpen w c) := by simp [resumedNow, hact]
        rw [hafter, hbefore]
        simp only [mem_targets]
        cases ho : ownedOpen w c with
        | true =>
          have : isOpen w c = true := (isOpen_iff w c).mpr ⟨true, (ownedOpen_iff w c).mp ho⟩
          simp [this, altRun]
        | false => simp [altRun]

/-- one accepted observation (the observer still making claims afterwards) -/
theorem alt_step (defs : List Kind) (nvars : Nat) (w w' : W) (ob : Obs) (c : Nat) (hp : isPlain defs c = true)
    (hwf : WF w) (hs : w.stopped = false) (h : watchStep defs nvars w ob = .ok w') (hs' : w'.stopped = false)
    (hnr : ∀ cl ∈ ob.calls, cl.c = c → cl.raised = false) : AltStep w w' ob c := by
  have hskip : watchSkip defs nvars w ob = .ok w' → AltStep w w' ob c := by
    intro h1
    obtain ⟨e, hc⟩ := watchSkip_inv defs nvars w w' ob h1
    rw [e]; exact alt_same w w ob c hwf (by rw [hc]; rfl) rfl rfl rfl
  unfold watchStep at h
  simp only [hs, Bool.false_eq_true, if_false] at h
  split at h
  · rename_i d _
    split at h
    · exact hskip h
    · split at h
      · simp at h; rw [← h] at hs'; simp at hs'
      · rename_i hcl
        exact alt_enter defs nvars w w' ob c d hp hwf (by simpa using hcl) h hnr
  · rename_i d _
    split at h
    · exact hskip h
    · split at h
      · simp at h; rw [← h] at hs'; simp at hs'
      · rename_i hop
        exact alt_exit defs nvars w w' ob c d hp hwf (by simpa using hop) h
  · split at h
    · exact hskip h
    · rename_i hph
      exact alt_suspend defs nvars w w' ob c hp hwf (by simpa using hph) h
  · split at h
    · exact hskip h
    · rename_i hph
      exact alt_continue defs nvars w w' ob c hp hwf (by simpa using hph) h
  · rename_i ok _
    split at h
    · exact hskip h
    · unfold watchFinish at h
      split at h
      · simp at h
      · rename_i hc
        have e := common_inv defs nvars _ _ _ h; rw [e]
        have hcalls : ob.calls = [] := by
          cases hcl : ob.calls with
          | nil => rfl
          | cons x xs => simp [hcl] at hc
        refine ⟨{ nodup := hwf.nodup, runAct := fun hx => by simp at hx, susAct := fun hx => by simp at hx }, ?_⟩
        rw [hcalls]
        show some (resumedNow w c) = some (resumedNow _ c)
        rfl

theorem watchStep_stopped (defs : List Kind) (nvars : Nat) (w : W) (ob : Obs) (h : w.stopped = true) :
    watchStep defs nvars w ob = .ok w := by simp [watchStep, h]

theorem onCtx_append (c : Nat) (a b : List Call) : onCtx c (a ++ b) = onCtx c a ++ onCtx c b := by
  simp [onCtx, List.filter_append]

/-- the whole history: the calls on a plain context c none of whose hooks raised strictly alternate -/
theorem alt_run (defs : List Kind) (nvars : Nat) (c : Nat) (hp : isPlain defs c = true) :
    ∀ (obs : List Obs) (w w' : W), WF w → w.stopped = false → watchRun defs nvars w obs = .ok w' → w'.stopped = false →
      (∀ ob ∈ obs, ∀ cl ∈ ob.calls, cl.c = c → cl.raised = false) →
      altRun (resumedNow w c) (onCtx c (obs.flatMap (·.calls))) = some (resumedNow w' c) := by
  intro obs
  induction obs with
  | nil =>
    intro w w' _ _ h _ _
    simp [watchRun] at h; subst h; rfl
  | cons ob rest ih =>
    intro w w' hwf hs h hs' hnr
    unfold watchRun at h
    cases h1 : watchStep defs nvars w ob with
    | error e => rw [h1] at h; simp at h
    | ok w1 =>
      rw [h1] at h; simp only at h
      have hs1 : w1.stopped = false := by
        cases hx : w1.stopped with
        | false => rfl
        | true =>
          have : ∀ (l : List Obs), watchRun defs nvars w1 l = .ok w1 := by
            intro l
            induction l with
            | nil => rfl
            | cons o r ihr => simp [watchRun, watchStep_stopped defs nvars w1 o hx, ihr]
          rw [this rest] at h
          simp at h; rw [← h, hx] at hs'; exact absurd hs' (by simp)
      obtain ⟨hwf1, halt⟩ := alt_step defs nvars w w1 ob c hp hwf hs h1 hs1 (hnr ob (by simp))
      have := ih w1 w' hwf1 hs1 h hs' (fun o ho => hnr o (by simp [ho]))
      simp only [List.flatMap_cons, onCtx_append, altRun_append, halt, Option.bind_some]
      exact this

end AsynqModel.Contexts
