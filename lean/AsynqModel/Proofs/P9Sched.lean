import AsynqModel.Proofs.P9Keep
import AsynqModel.Proofs.P3Shape
/-
  P9 (property C20), part 4: `leaveGen`, `finishTask`, `newTask`, `handleTask`, `executeIter` under `P`.
-/
namespace AsynqModel.Core.P9
open AsynqModel.Core

/-! ### sequential evaluation reads only `cfg.kinds` -/

theorem itemOutcome_cfg (c c' : Cfg) (h : c.kinds = c'.kinds) : itemOutcome c = itemOutcome c' := by
  funext k p m
  unfold itemOutcome Cfg.kind
  rw [h]

theorem evalBody_cfg (c c' : Cfg) (h : c.kinds = c'.kinds) (b : Body) :
    ∀ env own inh caught pv, evalBody c b env own inh caught pv = evalBody c' b env own inh caught pv := by
  induction b with
  | ret | res | raise | reraise | syncret | endwith => intros; simp [evalBody]
  | spawn child pass k ihc ihk => intros; simp [evalBody, ihc, ihk]
  | item kind payload mode k ih => intros; simp [evalBody, ih, itemOutcome_cfg c c' h]
  | const v k ih => intros; simp [evalBody, ih]
  | errfut e k ih => intros; simp [evalBody, ih]
  | «lazy» o k ih => intros; simp [evalBody, ih]
  | yld y k h ihk ihh => intros; simp [evalBody, ihk, ihh]
  | reyld k h ihk ihh => intros; simp [evalBody, ihk, ihh]
  | sync child pass k h ihc ihk ihh => intros; simp [evalBody, ihc, ihk, ihh]
  | syncfut r k h ihk ihh => intros; simp [evalBody, ihk, ihh]
  | withCtx c b k ihb ihk => intros; simp [evalBody, ihb, ihk]
  | read v k ih => intros; simp [evalBody, ih]
  | active k ih => intros; simp [evalBody, ih]

theorem P_newTask_fst (s : State) (child : Body) (inh : List Nat) :
    P (s.newTask child inh).1 = ((P s).newTask child inh).1 := by
  unfold State.newTask
  simp only [P_fut, projF_den, P_active]
  rw [evalBody_cfg (P s).cfg s.cfg rfl]
  exact P_alloc_fst _ _ _ rfl rfl

@[simp] theorem P_newTask_snd (s : State) (child : Body) (inh : List Nat) :
    ((P s).newTask child inh).2 = (s.newTask child inh).2 := by
  simp [State.newTask, State.alloc]

theorem newTask_ctl (s : State) (child : Body) (inh : List Nat) : (s.newTask child inh).1.ctl = s.ctl := rfl


/-! ### two-function version of `P_updTask` -/

theorem P_updTask2 (s : State) (t : Nat) (g g' : TaskSt → TaskSt) (fr : Bool) (hfr : inFrame s.ctl t = fr)
    (hg : ∀ ts, projT fr (g ts) = g' (projT fr ts)) :
    P (s.updTask t g) = (P s).updTask t g' := by
  unfold State.updTask
  simp only [P_setFut, P_fut, hfr]
  congr 1
  simp [projF, hg _]

/-! ### `leaveGen`, `finishTask` -/

theorem pfs_set_congr (c c' : List Ctl) (l : List Fut) (i j : Nat) (a : Fut)
    (h : ∀ k, k ≠ j → inFrame c (i + k) = inFrame c' (i + k)) :
    (pfs c i l).set j a = (pfs c' i l).set j a := by
  induction l generalizing i j with
  | nil => rfl
  | cons x xs ih =>
    cases j with
    | zero =>
      simp only [pfs, List.set_cons_zero]
      congr 1
      have : ∀ (i' : Nat), (∀ k, inFrame c (i' + k) = inFrame c' (i' + k)) → pfs c i' xs = pfs c' i' xs := by
        intro i' hk
        clear ih
        induction xs generalizing i' with
        | nil => rfl
        | cons y ys ih2 =>
          simp only [pfs]
          have h0 := hk 0
          simp only [Nat.add_zero] at h0
          rw [h0, ih2 (i' + 1) (fun k => by rw [show i' + 1 + k = i' + (k + 1) by omega]; exact hk (k + 1))]
      exact this (i + 1) (fun k => by rw [show i + 1 + k = i + (k + 1) by omega]; exact h (k + 1) (by omega))
    | succ j =>
      simp only [pfs, List.set_cons_succ]
      have h0 := h 0 (by omega)
      simp only [Nat.add_zero] at h0
      rw [h0]
      congr 1
      exact ih (i + 1) j (fun k hk => by rw [show i + 1 + k = i + (k + 1) by omega]; exact h (k + 1) (by omega))

/-- leaving the generator frame of `t`: its `depsSched` is reset in the same breath, so the projections agree -/
theorem P_leaveGen (s : State) (t : Nat) (old o' : Option Nat) (rest : List Ctl) (hctl : s.ctl = .gen t o' :: rest) :
    P (s.leaveGen t old) = (P s).leaveGen t old := by
  unfold State.leaveGen State.updTask
  simp only [P, State.setFut, State.fut]
  congr 1
  rw [set_pfs, getD_pfs]
  simp only [Nat.zero_add, hctl, List.tail_cons]
  have h1 : projF (inFrame rest t) { s.futs.getD t {} with ts := { (s.futs.getD t {}).ts with depsSched := false } } =
      { projF (inFrame (.gen t o' :: rest) t) (s.futs.getD t {}) with
        ts := { (projF (inFrame (.gen t o' :: rest) t) (s.futs.getD t {})).ts with depsSched := false } } := by
    simp [projF, projT]
  rw [h1]
  apply pfs_set_congr
  intro k hk
  simp only [Nat.zero_add, inFrame_gen]
  have : (t == k) = false := by simpa using fun h => hk h.symm
  simp [this]

theorem ctl_pre_finish (s : State) (t : Nat) (o : Outcome) :
    (((s.exitAll t).updTask t fun ts => { ts with pending := false }).complete t o).ctl = s.ctl :=
  (((P3.q_exitAll s t).trans (P3.q_updTask _ _ _)).trans (P3.q_complete _ _ _)).ctl

theorem P_finishTask (s : State) (t : Nat) (old o' : Option Nat) (rest : List Ctl) (hctl : s.ctl = .gen t o' :: rest)
    (o : Outcome) : P (s.finishTask t old o) = (P s).finishTask t old o := by
  unfold State.finishTask
  simp only [P_computed]
  rw [apply_ite P, P_fail]
  congr 1
  rw [P_leaveGen _ t old o' rest (by rw [ctl_pre_finish]; exact hctl), P_complete,
    P_updTask _ _ _ (fun _ _ => rfl), P_exitAll]

/-! ### `handleTask` -/

/-- replacing the control stack by a bigger one: projecting first changes nothing -/
theorem P_setCtl_grow (s : State) (c' : List Ctl) (a : Option Nat)
    (h : ∀ t, inFrame s.ctl t = true → inFrame c' t = true) :
    P { s with ctl := c', active := a } = P { P s with ctl := c', active := a } := by
  have hn : ∀ e, norm (norm e) = norm e := by
    intro e; cases e <;> simp [norm]
  simp only [P, List.map_map]
  congr 1
  · exact (pfs_idem _ _ _ _ h).symm
  · simp
  · apply List.map_congr_left
    intro e _
    exact (hn e).symm

/-- what `handleTask t` needs to know: the entries of `deps` that are not in the last yield are computed, and a task
    whose generator is running is not blocked -/
structure HT (s : State) (t : Nat) : Prop where
  deps : ∃ extra, (s.task t).deps = extra ++ extractFutures (s.task t).lastY ∧ ∀ d ∈ extra, s.computed d = true
  fr : inFrame s.ctl t = true → ∀ d ∈ (s.task t).deps, s.computed d = true

theorem HT.blocked {s : State} {t : Nat} (h : HT s t) :
    ((s.task t).deps.any fun d => !s.computed d) = ((extractFutures (s.task t).lastY).any fun d => !s.computed d) := by
  obtain ⟨extra, e, hx⟩ := h.deps
  rw [e, List.any_append]
  have : (extra.any fun d => !s.computed d) = false := by
    rw [List.any_eq_false]
    intro d hd
    simp [hx d hd]
  rw [this, Bool.false_or]

theorem HT.filter {s s1 : State} {t : Nat} {A} (h : HT s t) (hk : Keep A none1 s s1) :
    (s.task t).deps.filter (fun d => !s1.computed d) =
      (extractFutures (s.task t).lastY).filter (fun d => !s1.computed d) := by
  obtain ⟨extra, e, hx⟩ := h.deps
  rw [e, List.filter_append]
  have : extra.filter (fun d => !s1.computed d) = [] := by
    rw [List.filter_eq_nil_iff]
    intro d hd
    simp [hk.computed d (hx d hd)]
  rw [this, List.nil_append]

theorem HT.notFrame {s : State} {t : Nat} (h : HT s t) (hb : ((s.task t).deps.any fun d => !s.computed d) = true) :
    inFrame s.ctl t = false := by
  cases hf : inFrame s.ctl t with
  | false => rfl
  | true =>
    have := h.fr hf
    rw [List.any_eq_true] at hb
    obtain ⟨d, hd, hc⟩ := hb
    simp [this d hd] at hc

/-- `handleTask` with its reads of the state made parameters -/
def handleCore (s : State) (t : Nat) (blocked dS inF : Bool) (deps : List Nat) : State :=
  if blocked then
    if dS then
      ((s.updTask t fun ts => { ts with depsSched := false }).pauseContexts t).popStack
    else
      let s := (s.updTask t fun ts => { ts with depsSched := true }).resumeContexts t
      let ds := deps.filter fun d => !s.computed d
      { s with stack := ds.reverse ++ s.stack }
  else if inF then s.fail "re-entrant task"
  else
    let s := s.resumeContexts t
    { s with ctl := .gen t s.active :: s.ctl, active := some t }

theorem handleTask_eq (s : State) (t : Nat) :
    s.handleTask t = handleCore s t ((s.task t).deps.any fun d => !s.computed d) (s.task t).depsSched
      (inFrame s.ctl t) (s.task t).deps := rfl

theorem P_handleTask (s : State) (t : Nat) (h : HT s t) : P (s.handleTask t) = P ((P s).handleTask t) := by
  rw [handleTask_eq, handleTask_eq]
  simp only [P_task, projT_deps, projT_depsSched, P_computed, P_ctl]
  rw [← h.blocked]
  cases hb : ((s.task t).deps.any fun d => !s.computed d) with
  | true =>
    have hfr := h.notFrame hb
    rw [hfr]
    simp only [Bool.not_false, Bool.true_and]
    unfold handleCore
    simp only [if_true]
    cases hd : (s.task t).depsSched with
    | true =>
      simp only [if_true]
      have e : ∀ s' : State, inFrame s'.ctl t = false →
          P (((s'.updTask t fun ts => { ts with depsSched := false }).pauseContexts t).popStack) =
            (((P s').updTask t fun ts => { ts with depsSched := false }).pauseContexts t).popStack := fun s' h' => by
        rw [P_popStack, P_pauseContexts, P_updTask2 s' t (fun ts => { ts with depsSched := false })
          (fun ts => { ts with depsSched := false }) false h' (fun _ => rfl)]
      rw [e s hfr, e (P s) hfr, P_idem]
    | false =>
      simp only [Bool.false_eq_true, if_false]
      have hk : Keep (· = t) none1 s ((s.updTask t fun ts => { ts with depsSched := true }).resumeContexts t) :=
        (k_updTask _ _ _).trans (k_resumeContexts _ _)
      have e1 : P ((s.updTask t fun ts => { ts with depsSched := true }).resumeContexts t) =
          ((P s).updTask t fun ts => { ts with depsSched := true }).resumeContexts t := by
        rw [P_resumeContexts, P_updTask2 s t (fun ts => { ts with depsSched := true })
          (fun ts => { ts with depsSched := true }) false hfr (fun _ => by simp [projT])]
      rw [← e1]
      generalize ((s.updTask t fun ts => { ts with depsSched := true }).resumeContexts t) = s1 at hk
      simp only [P_computed, P_stack]
      rw [h.filter hk]
      have : ∀ st, P { s1 with stack := st } = { P s1 with stack := st } := fun _ => rfl
      rw [← this]
      exact (P_idem _).symm
  | false =>
    unfold handleCore
    simp only [Bool.false_eq_true, if_false]
    cases hr : inFrame s.ctl t with
    | true => simp only [if_true, P_fail, P_idem]
    | false =>
      simp only [Bool.false_eq_true, if_false]
      have e1 : P (s.resumeContexts t) = (P s).resumeContexts t := P_resumeContexts _ _
      rw [← e1]
      have hc : (s.resumeContexts t).ctl = s.ctl := (P3.q_resumeContexts s t).ctl
      generalize (s.resumeContexts t) = s1 at hc
      simp only [P_active, P_ctl]
      exact P_setCtl_grow s1 _ _ (fun u hu => by simp [hu])


/-! ### `executeIter` -/

/-- scheduling the batch of an item (the `.item` branch of `executeIter`), the lookup made a parameter -/
def schedItem (s : State) (kind seq : Nat) (fl : Option Bool) : State :=
  match fl with
  | some f => if f || s.sbatches.contains (kind, seq) then s else { s with sbatches := s.sbatches ++ [(kind, seq)] }
  | none => s

def iterCore (s : State) (top : Nat) (over comp : Bool) (k : FKind) : State :=
  if over then
    ({ s with stack := [], sbatches := [], active := none, guardFired := true }).raiseOutOfWait .stackguard
  else if comp then s.popStack
  else match k with
    | .task => s.handleTask top
    | .item kind seq _ _ => (schedItem s kind seq ((s.batch? kind seq).map (·.flushed))).popStack
    | .lazy o => (s.complete top (lazyOutcome o)).popStack
    | _ => s.fail "uncomputed constant future"

theorem executeIter_nil (s : State) (h : s.stack = []) : s.executeIter = s.fail "empty stack" := by
  unfold State.executeIter
  rw [h]

theorem executeIter_cons (s : State) (top : Nat) (rest : List Nat) (hst : s.stack = top :: rest) :
    s.executeIter = iterCore s top (decide (s.stack.length > s.cfg.maxStack)) (s.computed top) (s.fut top).kind := by
  unfold State.executeIter iterCore schedItem
  rw [hst]
  simp only [decide_eq_true_eq]
  by_cases h1 : (top :: rest).length > s.cfg.maxStack
  · simp only [h1, if_true]
  · simp only [h1, if_false]
    by_cases h2 : s.computed top = true
    · simp only [h2, if_true]
    · simp only [h2]
      cases hk : (s.fut top).kind with
      | task => rfl
      | item kind seq pl md =>
        simp only
        cases s.batch? kind seq <;> rfl
      | «lazy» o => rfl
      | const => rfl
      | errfut => rfl

theorem P_schedItem (s : State) (kind seq : Nat) (fl : Option Bool) :
    P (schedItem s kind seq fl) = schedItem (P s) kind seq fl := by
  unfold schedItem
  cases fl with
  | none => rfl
  | some f =>
    simp only [P_sbatches]
    rw [apply_ite P]; rfl

theorem P_guardReset (s : State) (h : ∀ t o, s.ctl.head? ≠ some (.gen t o)) :
    P (P3.guardReset s) = P3.guardReset (P s) := by
  unfold P3.guardReset State.raiseOutOfWait
  exact P_setCtl { s with stack := [], sbatches := [], active := none, guardFired := true, raising := some .stackguard }
    s.ctl.tail (inFrame_tail_wait s.ctl h)

/-- strong commutation gives the weak one -/
theorem weak_of_strong (h : State → State) (C : ∀ s, P (h s) = h (P s)) (s : State) : P (h s) = P (h (P s)) := by
  rw [C, C, P_idem]

theorem P_iterCore (s : State) (top : Nat) (over comp : Bool) (k : FKind)
    (hg : ∀ t o, s.ctl.head? ≠ some (.gen t o)) (h : k = .task → HT s top) :
    P (iterCore s top over comp k) = P (iterCore (P s) top over comp k) := by
  unfold iterCore
  cases over with
  | true =>
    simp only [if_true]
    show P (P3.guardReset s) = P (P3.guardReset (P s))
    rw [P_guardReset s hg, P_guardReset (P s) hg, P_idem]
  | false =>
    simp only [Bool.false_eq_true, if_false]
    cases comp with
    | true => exact weak_of_strong State.popStack P_popStack s
    | false =>
      simp only [Bool.false_eq_true, if_false]
      cases k with
      | task => exact P_handleTask s top (h rfl)
      | item kind seq pl md =>
        simp only [P_batch?, Option.map_map]
        have : ((fun x : Batch => x.flushed) ∘ projB) = fun x => x.flushed := by funext b; simp
        rw [this]
        generalize Option.map (fun x : Batch => x.flushed) (s.batch? kind seq) = fl
        exact weak_of_strong (fun s => (schedItem s kind seq fl).popStack)
          (fun s => by rw [P_popStack, P_schedItem]) s
      | «lazy» o =>
        exact weak_of_strong (fun s => (s.complete top (lazyOutcome o)).popStack)
          (fun s => by rw [P_popStack, P_complete]) s
      | const => exact weak_of_strong (fun s => s.fail _) (fun s => P_fail s _) s
      | errfut => exact weak_of_strong (fun s => s.fail _) (fun s => P_fail s _) s

theorem P_executeIter (s : State) (hg : ∀ t o, s.ctl.head? ≠ some (.gen t o))
    (h : ∀ top, s.stack.head? = some top → HT s top) :
    P s.executeIter = P (P s).executeIter := by
  cases hst : s.stack with
  | nil => rw [executeIter_nil s hst, executeIter_nil (P s) hst, P_fail, P_fail, P_idem]
  | cons top rest =>
    rw [executeIter_cons s top rest hst, executeIter_cons (P s) top rest hst]
    simp only [P_stack, P_maxStack, P_computed, P_fut, projF_kind]
    exact P_iterCore s top _ _ _ hg (fun _ => h top (by simp [hst]))

end AsynqModel.Core.P9
