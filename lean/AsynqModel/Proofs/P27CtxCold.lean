import AsynqModel.Proofs.P27CtxL
import AsynqModel.Proofs.P7Cold
/-!
  P27, C07 part 4: `noRevisit` holds on every run of a WELL-SCOPED program in which the stack guard has not fired -
  `P7.reachNR_of_ws` without the hypothesis that no NonAsyncContext exists (the invariant `P7.HotPos` with the new
  case of a task failed by `NonAsyncContext.pause()`: it is popped and no longer hot).
-/
namespace AsynqModel.Core.P27
open AsynqModel.Core P5 P7

theorem noRevisit_of_cold' (s : State) (g : Good' s) (hg : (step s).guardFired = false) (c : Cold s) :
    noRevisit s = true := by
  have nil : (step s).stack.length ≤ s.stack.length → noRevisit s = true := by
    intro h
    unfold noRevisit
    rw [pushed_nil s h]; rfl
  cases step_cases s g.pi.items g.co.raising with
  | neutral q hst hsf => exact nil (by rw [hst]; exact Nat.le_refl _)
  | top f hctl e => exact nil (by rw [e]; exact Nat.le_refl _)
  | enterLoop root rest hctl hnc q hst hc =>
    unfold noRevisit
    rw [pushed_eq s [root] (by rw [hst]; rfl)]
    simp only [List.all_cons, List.all_nil, Bool.and_true, Bool.not_eq_true']
    rw [hot_q q]
    exact c.root root rest hctl hnc
  | pop root base rest top stk hctl hst hlen hno q hst' hc => exact nil (by rw [hst', hst]; simp)
  | suspend root base rest t stk hctl hst hlen hk hnc hsched e =>
    refine nil ?_
    rw [e]
    show ((s.updTask t fun ts => { ts with depsSched := false }).pauseContexts t).stack.tail.length ≤ _
    rw [(same_pauseContexts _ t).stack]
    show s.stack.tail.length ≤ _
    simp
  | visit root base rest t stk hctl hst hlen hk hnc hsched ds hds e =>
    have ht := lt_of_kind_task s t hk
    unfold noRevisit
    have hstk : (step s).stack = ds.reverse ++ s.stack := by
      rw [e]
      show ds.reverse ++ ((s.updTask t fun ts => { ts with depsSched := true }).resumeContexts t).stack = _
      rw [(same_resumeContexts _ t).stack]; rfl
    rw [pushed_eq s ds.reverse hstk, List.all_eq_true]
    intro d hd
    have hd' := hds d (List.mem_reverse.1 hd)
    simp only [Bool.not_eq_true']
    by_cases hact : (s.task t).ctxActive = true
    · have hts : (s.updTask t fun ts => { ts with depsSched := true }).task t = { s.task t with depsSched := true } :=
        task_updTask_self _ _ _ ht
      rw [nf_resume_active _ t (by rw [hts]; exact hact)] at hd' e
      have hcd : s.computed d = false := by rw [← hd'.2]; exact (computed_updTask s t d _).symm
      obtain ⟨hne, hcold⟩ := c.deps root base rest t stk hctl hst hlen hk hnc hsched d hd'.1 hcd
      rw [← hcold, e]
      show hot (s.updTask t fun ts => { ts with depsSched := true }) d = hot s d
      exact hot_congr (task_updTask_field s t d (fun ts => { ts with depsSched := true }) (·.ctxActive) (fun _ => rfl))
        (task_updTask_field s t d (fun ts => { ts with depsSched := true }) (·.ctxs) (fun _ => rfl))
    · have hact' : (s.task t).ctxActive = false := by simpa using hact
      obtain ⟨fl, _⟩ := flip_resume' s t (fun ts => { ts with depsSched := true }) (fun _ => rfl) (fun _ => rfl)
        (fun _ => rfl) (g.pi.z t (out_none hnc) hact') ht hact'
      have hcd : s.computed d = false := by rw [← hd'.2]; exact (fl.comp d).symm
      obtain ⟨hne, hcold⟩ := c.deps root base rest t stk hctl hst hlen hk hnc hsched d hd'.1 hcd
      rw [← hcold, e]
      show hot ((s.updTask t fun ts => { ts with depsSched := true }).resumeContexts t) d = hot s d
      simp [hot, fl.op.tne d hne]
  | enterGen root base rest t stk hctl hst hlen hk hnc e =>
    refine nil ?_
    rw [e]
    show (s.resumeContexts t).stack.length ≤ _
    rw [(same_resumeContexts s t).stack]; exact Nat.le_refl _
  | gen t old rest hctl hst hsf gc => exact nil (by rw [hst]; exact Nat.le_refl _)
  | guard h => rw [h] at hg; cases hg


theorem hotPos_step' (s : State) (hs : P10.WSReach s) (g : Good' s) (k : K s) (hp : HotPos s)
    (hg0 : s.guardFired = false) (hg : (step s).guardFired = false) : HotPos (step s) := by
  have hi := (P10.ws_hinv hs).1
  have gr : P10.Grow s (step s) := ((P10.ws_step_sh hs).base (P10.ws_hinv hs).2).grow
  have hreg := g.i.j.reg
  intro o ho
  cases step_cases s g.pi.items g.co.raising with
  | neutral q hst hsf =>
    rw [hst]; exact (hp o (by rw [← hot_q q o]; exact ho)).mono gr
  | top f hctl e =>
    have q := q_finishTop s f
    have hst : (step s).stack = s.stack := by rw [e]; rfl
    rw [hst]
    exact (hp o (by rw [← hot_q q o, ← e]; exact ho)).mono gr
  | enterLoop root rest hctl hnc q hst hc =>
    have ho' : hot s o = true := by rw [← hot_q q o]; exact ho
    have hpo := hp o ho'
    rw [hst]
    refine Pos.mono gr ?_
    -- the root precedes the calling generator's task, which is the top of the stack
    have hd := (P10.ws_cinv hs hg0).disc
    rw [hctl] at hd
    rcases hd.1 with hnil | ⟨t, o', rest', hrest⟩
    · rw [hnil] at hd
      have : s.stack = [] := hd.2
      rw [this] at hpo
      exact absurd hpo Pos.not_nil
    · rw [hrest] at hd
      have hhead : s.stack.head? = some t := hd.2.1
      have hch := (P10.ws_binv hs).chain
      rw [hctl, hrest] at hch
      have hrt : P10.lt s root t := by
        have := (List.pairwise_cons.1 hch).1 _ List.mem_cons_self
        simpa only [P10.nest, P10.node] using this
      obtain ⟨stk, hstk⟩ : ∃ stk, s.stack = t :: stk := by
        cases hs' : s.stack with
        | nil => rw [hs'] at hhead; simp at hhead
        | cons a l => rw [hs'] at hhead; simp at hhead; exact ⟨l, by rw [hhead]⟩
      rw [hstk] at hpo
      have hro : P10.lt s root o := P10.lt_le_trans hrt hpo.head_le
      rw [hstk]
      have := Pos.push [root] hpo (fun d hd => by simp at hd; rw [hd]; exact hro)
      simpa using this
  | pop root base rest top stk hctl hst hlen hno q hst' hc =>
    have ho' : hot s o = true := by rw [← hot_q q o]; exact ho
    have hne : o ≠ top := by
      intro h
      subst h
      obtain ⟨h1, h2⟩ := k.live o (hot_ctxs ho').2
      rcases hno with h | h
      · rw [h2] at h; cases h
      · exact h h1
    rw [hst']
    have := hp o ho'
    rw [hst] at this
    exact (this.pop hne).mono gr
  | suspend root base rest t stk hctl hst hlen hk hnc hsched e =>
    have ht := lt_of_kind_task s t hk
    have hact := g.i.d t hsched
    have key : ∃ s2 : State, step s = s2.popStack ∧ Op s s2 t (s.task t).ctxs false ∧ (s2.task t).ctxActive = false := by
      by_cases hnaf : P2.NAfree s t
      · obtain ⟨fl, _⟩ := flip_pause' s t (fun ts => { ts with depsSched := false }) (fun _ => rfl) (fun _ => rfl)
          (fun _ => rfl) hnaf ht hact
        exact ⟨_, e, fl.op, fl.tact⟩
      · obtain ⟨fl, _⟩ := pause_fail_spec s t (fun ts => { ts with depsSched := false }) (fun _ => rfl) (fun _ => rfl)
          (fun _ => rfl) ht hact hnaf hnc (k.k1 t) (g.i.j.nodup t) (fun c hc => by
            obtain ⟨x, hx, hxo, _⟩ := hreg t c hc
            exact ⟨x, hx, hxo, g.i.j.na c x hx⟩)
        exact ⟨_, e, fl.op, fl.tact⟩
    obtain ⟨s2, e2, op, tact⟩ := key
    have ho2 : hot s2 o = true := by rw [e2] at ho; exact ho
    have hne : o ≠ t := by
      intro h; subst h
      simp [hot, tact] at ho2
    have ho' : hot s o = true := by rw [← ho2]; simp [hot, op.tne o hne]
    have hstk : (step s).stack = stk := by
      rw [e2]
      show s2.stack.tail = stk
      rw [op.stack, hst]; rfl
    rw [hstk]
    have := hp o ho'
    rw [hst] at this
    exact (this.pop hne).mono gr
  | visit root base rest t stk hctl hst hlen hk hnc hsched ds hds e =>
    have ht := lt_of_kind_task s t hk
    have hdl : ∀ d, d ∈ ds.reverse → P10.lt s d t := fun d hd =>
      hi.named_lt (hi.deps t d (hds d (List.mem_reverse.1 hd)).1)
    -- the new stack and the hot tasks other than `t`
    have key : (step s).stack = ds.reverse ++ s.stack ∧ ∀ u, u ≠ t → hot (step s) u = hot s u := by
      rw [e]
      by_cases hact : (s.task t).ctxActive = true
      · have hts : (s.updTask t fun ts => { ts with depsSched := true }).task t = { s.task t with depsSched := true } :=
          task_updTask_self _ _ _ ht
        rw [nf_resume_active _ t (by rw [hts]; exact hact)]
        refine ⟨rfl, fun u hu => ?_⟩
        show hot (s.updTask t fun ts => { ts with depsSched := true }) u = hot s u
        simp [hot, task_updTask_ne _ _ _ _ hu]
      · have hact' : (s.task t).ctxActive = false := by simpa using hact
        obtain ⟨fl, _⟩ := flip_resume' s t (fun ts => { ts with depsSched := true }) (fun _ => rfl) (fun _ => rfl)
          (fun _ => rfl) (g.pi.z t (out_none hnc) hact') ht hact'
        refine ⟨?_, fun u hu => ?_⟩
        · show ds.reverse ++ ((s.updTask t fun ts => { ts with depsSched := true }).resumeContexts t).stack = _
          rw [fl.op.stack]
        · show hot ((s.updTask t fun ts => { ts with depsSched := true }).resumeContexts t) u = hot s u
          simp [hot, fl.op.tne u hu]
    rw [key.1, hst]
    by_cases hne : o = t
    · subst hne
      exact Pos.mono gr ((Pos.head s o stk).push ds.reverse hdl)
    · have ho' : hot s o = true := by rw [← key.2 o hne]; exact ho
      have hpo := hp o ho'
      rw [hst] at hpo
      have hto : P10.lt s t o := by
        rcases hpo.head_le with h | h
        · exact absurd h.symm hne
        · exact h
      exact Pos.mono gr (hpo.push ds.reverse (fun d hd => P10.lt_trans (hdl d hd) hto))
  | enterGen root base rest t stk hctl hst hlen hk hnc e =>
    have ht := lt_of_kind_task s t hk
    have key : (step s).stack = s.stack ∧ ∀ u, u ≠ t → hot (step s) u = hot s u := by
      rw [e]
      by_cases hact : (s.task t).ctxActive = true
      · rw [nf_resume_active _ t hact]
        exact ⟨rfl, fun u _ => rfl⟩
      · have hact' : (s.task t).ctxActive = false := by simpa using hact
        obtain ⟨fl, _⟩ := flip_resume' s t (fun ts => ts) (fun _ => rfl) (fun _ => rfl) (fun _ => rfl)
          (g.pi.z t (out_none hnc) hact') ht hact'
        rw [updTask_id] at fl
        refine ⟨?_, fun u hu => ?_⟩
        · show (s.resumeContexts t).stack = _
          rw [fl.op.stack]
        · show hot (s.resumeContexts t) u = hot s u
          simp [hot, fl.op.tne u hu]
    rw [key.1, hst]
    by_cases hne : o = t
    · subst hne; exact Pos.head _ o stk
    · have ho' : hot s o = true := by rw [← key.2 o hne]; exact ho
      have := hp o ho'
      rw [hst] at this
      exact this.mono gr
  | gen t old rest hctl hst hsf gc =>
    have ru := g.running hctl
    obtain ⟨stk, hstk⟩ : ∃ stk, s.stack = t :: stk := by
      have := k.sf
      rw [hctl, SF_gen] at this
      cases hs' : s.stack with
      | nil => rw [hs'] at this; simp at this
      | cons a l => rw [hs'] at this; simp at this; exact ⟨l, by rw [this.1]⟩
    rw [hst, hstk]
    by_cases hne : o = t
    · subst hne; exact Pos.head _ o stk
    · have fin : hot s o = true → Pos (step s) (t :: stk) o := by
        intro ho'
        have := hp o ho'
        rw [hstk] at this
        exact this.mono gr
      have finOp : ∀ {cs : List Nat} {b : Bool} {ctxs' : List Nat} {conts' : List (Nat × Body)},
          GenOp' s (step s) t cs b ctxs' conts' → hot s o = true := by
        intro cs b ctxs' conts' go
        rw [← ho]; simp [hot, go.op.tne o hne]
      cases gc with
      | neutral q => exact fin (by rw [← hot_q q o]; exact ho)
      | withCtx c b kk s0 h0 e =>
        have e' : step s = enterSt s s0 t c b kk := e
        by_cases hc : c = .nonasync
        · obtain ⟨go, _⟩ := enter_spec_na s s0 t c b kk hc ru.lt ru.active h0
          rw [← e'] at go
          exact fin (finOp go)
        · obtain ⟨go, _⟩ := enter_spec' s s0 t c b kk hc ru.lt ru.active h0
          rw [← e'] at go
          exact fin (finOp go)
      | endwith cid kk cs hconts e =>
        have hcid : cid ∈ (s.task t).ctxs := by
          have := k.k1 t
          rw [hconts] at this
          have h2 : cid ∈ (s.task t).ctxs.reverse := by rw [← this]; simp
          exact List.mem_reverse.1 h2
        obtain ⟨go, _⟩ := endwith_spec' s t cid kk cs ru.lt ru.act hconts (k.k1 t) (g.i.j.nodup t)
          (exOK_of_J g.i.j hcid ru.act)
        rw [← e] at go
        exact fin (finOp go)
      | finish o' hnc e =>
        obtain ⟨go, _⟩ := finish_spec' s t old o' ru.lt ru.act (k.k1 t) (g.i.j.nodup t)
          (fun c hc => exOK_of_J g.i.j hc ru.act)
        rw [← e] at go
        exact fin (finOp go)
  | guard h => rw [h] at hg; cases hg


theorem hotPos_reach' {s : State} (h : P10.WSReach s) (hg : s.guardFired = false) : HotPos s := by
  induction h with
  | init cfg tops choices _ => exact hotPos_init cfg tops choices
  | @step s hs ih =>
    have hg0 := P3.guard_mono s hg
    exact hotPos_step' s hs (good'_of_reach hs.reach hg0) (K_reach' hs.reach hg0) (ih hg0) hg0 hg

theorem cold_of_ws' {s : State} (h : P10.WSReach s) (hg : s.guardFired = false) : Cold s := by
  have hi := (P10.ws_hinv h).1
  have hp := hotPos_reach' h hg
  refine ⟨?_, ?_⟩
  · intro root rest hctl _
    cases hh : hot s root with
    | false => rfl
    | true =>
      exfalso
      have hpo := hp root hh
      have hd := (P10.ws_cinv h hg).disc
      rw [hctl] at hd
      rcases hd.1 with hnil | ⟨t, o', rest', hrest⟩
      · rw [hnil] at hd
        have : s.stack = [] := hd.2
        rw [this] at hpo
        exact hpo.not_nil
      · rw [hrest] at hd
        have hhead : s.stack.head? = some t := hd.2.1
        have hch := (P10.ws_binv h).chain
        rw [hctl, hrest] at hch
        have hrt : P10.lt s root t := by
          have := (List.pairwise_cons.1 hch).1 _ List.mem_cons_self
          simpa only [P10.nest, P10.node] using this
        obtain ⟨stk, hstk⟩ : ∃ stk, s.stack = t :: stk := by
          cases hs' : s.stack with
          | nil => rw [hs'] at hhead; simp at hhead
          | cons a l => rw [hs'] at hhead; simp at hhead; exact ⟨l, by rw [hhead]⟩
        rw [hstk] at hpo
        exact hi.irrefl root (P10.lt_le_trans hrt hpo.head_le)
  · intro root base rest t stk hctl hst _ _ _ _ d hd _
    have hdt : P10.lt s d t := hi.named_lt (hi.deps t d hd)
    refine ⟨fun h => hi.irrefl t (by rw [h] at hdt; exact hdt), ?_⟩
    cases hh : hot s d with
    | false => rfl
    | true =>
      exfalso
      have hpo := hp d hh
      rw [hst] at hpo
      exact hi.irrefl d (P10.lt_le_trans hdt hpo.head_le)


/-- every reachable state of a well-scoped program (guard not fired) is reachable by a `noRevisit` run -
    NonAsyncContexts allowed -/
theorem reachNR_of_ws' {s : State} (h : P10.WSReach s) (hg : s.guardFired = false) : ReachNR s := by
  induction h with
  | init cfg tops choices _ => exact ReachNR.init cfg tops choices
  | @step s hs ih =>
    have hg0 := P3.guard_mono s hg
    exact ReachNR.step (ih hg0) (noRevisit_of_cold' s (good'_of_reach hs.reach hg0) hg (cold_of_ws' hs hg0))

end AsynqModel.Core.P27
