import AsynqModel.Proofs.P9Batch
/-
  P9 (property C20), part 4: what the heap-side helpers leave alone (`Keep`).

  `Keep A D s s'`:
  * a task future stays a task future,
  * every future either keeps its outcome, `deps` and `lastY`, or it has been completed (`complete` clears both),
  * `ctxActive` of every task outside `A` is unchanged.
-/
namespace AsynqModel.Core.P9
open AsynqModel.Core

theorem fut_setFut (s : State) (f g : Nat) (x : Fut) :
    (s.setFut f x).fut g = if f = g ∧ f < s.futs.length then x else s.fut g := by
  simp only [State.fut, State.setFut, List.getD_eq_getElem?_getD, List.getElem?_set]
  by_cases h : f = g
  · subst h
    by_cases h2 : f < s.futs.length
    · simp [h2]
    · simp [h2]
  · simp [h]

theorem fut_setFut_self (s : State) (f : Nat) (x : Fut) (h : f < s.futs.length) : (s.setFut f x).fut f = x := by
  rw [fut_setFut]; simp [h]

theorem fut_setFut_ne (s : State) (f g : Nat) (x : Fut) (h : f ≠ g) : (s.setFut f x).fut g = s.fut g := by
  rw [fut_setFut]; simp [h]

theorem fut_oob (s : State) (f : Nat) (h : ¬ f < s.futs.length) : s.fut f = {} := by
  simp only [State.fut, List.getD_eq_getElem?_getD]
  rw [List.getElem?_eq_none (by omega)]
  rfl

/-- the changes a future may undergo -/
def Chg (s s' : State) (f : Nat) : Prop :=
  (s'.out f = s.out f ∧ (s'.task f).deps = (s.task f).deps ∧ (s'.task f).lastY = (s.task f).lastY) ∨
  (s'.out f ≠ none ∧ (s'.task f).deps = [] ∧ (s'.task f).lastY = .none)

/-- the current batch of every kind is not flushed -/
def CurOK (s : State) : Prop := ∀ k b, s.curBatch? k = some b → b.flushed = false

structure Keep (A D : Nat → Prop) (s s' : State) : Prop where
  kind : ∀ f, (s.fut f).kind = .task → (s'.fut f).kind = .task
  chg : ∀ f, ¬ D f → Chg s s' f
  act : ∀ u, ¬ A u → (s'.task u).ctxActive = (s.task u).ctxActive
  cur : CurOK s → CurOK s'
  mon : ∀ d, s.computed d = true → s'.computed d = true

def none1 : Nat → Prop := fun _ => False

abbrev Keep0 := Keep none1 none1

theorem curOK_of_batches {s s' : State} (hb : s'.batches = s.batches) (hc : CurOK s) : CurOK s' := by
  intro k b
  simp only [State.curBatch?, hb]
  exact hc k b

theorem Keep.refl (A D) (s : State) : Keep A D s s :=
  ⟨fun _ h => h, fun _ _ => Or.inl ⟨rfl, rfl, rfl⟩, fun _ _ => rfl, id, fun _ h => h⟩

theorem Keep.of_futs {A D} {s s' : State} (h : s'.futs = s.futs) (hb : s'.batches = s.batches) : Keep A D s s' := by
  have hf : ∀ f, s'.fut f = s.fut f := fun f => by simp [State.fut, h]
  refine ⟨fun f hk => by rw [hf]; exact hk, fun f _ => Or.inl ?_, fun u _ => by simp [State.task, hf], ?_,
    fun d hd => by simpa [State.computed, State.out, hf] using hd⟩
  · simp [State.out, State.task, hf]
  · exact curOK_of_batches hb

theorem Keep.trans {A D} {s s1 s2 : State} (h1 : Keep A D s s1) (h2 : Keep A D s1 s2) : Keep A D s s2 := by
  refine ⟨fun f hk => h2.kind f (h1.kind f hk), fun f hd => ?_, fun u hu => (h2.act u hu).trans (h1.act u hu),
    fun hc => h2.cur (h1.cur hc), fun d hd => h2.mon d (h1.mon d hd)⟩
  rcases h1.chg f hd with ⟨a1, a2, a3⟩ | ⟨b1, b2, b3⟩
  · rcases h2.chg f hd with ⟨c1, c2, c3⟩ | ⟨d1, d2, d3⟩
    · exact Or.inl ⟨c1.trans a1, c2.trans a2, c3.trans a3⟩
    · exact Or.inr ⟨d1, d2, d3⟩
  · rcases h2.chg f hd with ⟨c1, c2, c3⟩ | ⟨d1, d2, d3⟩
    · exact Or.inr ⟨by rw [c1]; exact b1, c2.trans b2, c3.trans b3⟩
    · exact Or.inr ⟨d1, d2, d3⟩

theorem Keep.mono {A B D E : Nat → Prop} {s s' : State} (hab : ∀ u, A u → B u) (hde : ∀ u, D u → E u)
    (h : Keep A D s s') : Keep B E s s' :=
  ⟨h.kind, fun f hf => h.chg f (fun hd => hf (hde f hd)), fun u hu => h.act u (fun ha => hu (hab u ha)), h.cur,
    h.mon⟩

theorem Keep.lift {A D : Nat → Prop} {s s' : State} (h : Keep0 s s') : Keep A D s s' :=
  h.mono (fun _ h => h.elim) (fun _ h => h.elim)

theorem Chg.computed {s s' : State} {d : Nat} (h : Chg s s' d) (hd : s.computed d = true) : s'.computed d = true := by
  unfold State.computed at hd ⊢
  rcases h with ⟨a, _, _⟩ | ⟨b, _, _⟩
  · rw [a]; exact hd
  · cases hb : s'.out d with
    | none => exact absurd hb b
    | some _ => rfl

theorem Keep.computed {A D} {s s' : State} (h : Keep A D s s') (d : Nat) (hd : s.computed d = true) :
    s'.computed d = true := h.mon d hd

/-! ### the primitive updates -/

theorem k_emit {A D} (s : State) (e : Event) : Keep A D s (s.emit e) := Keep.of_futs rfl rfl
theorem k_fail {A D} (s : State) (m : String) : Keep A D s (s.fail m) := Keep.of_futs rfl rfl
theorem k_popStack {A D} (s : State) : Keep A D s s.popStack := Keep.of_futs rfl rfl

/-- an update of the task state that leaves `deps`, `lastY` alone (and `ctxActive`, unless the task is in `A`) -/
theorem out_updTask (s : State) (t f : Nat) (g : TaskSt → TaskSt) : (s.updTask t g).out f = s.out f := by
  unfold State.updTask State.out
  rw [fut_setFut]
  split
  · rename_i h; rw [← h.1]
  · rfl

theorem k_updTask {A D} (s : State) (t : Nat) (g : TaskSt → TaskSt)
    (h1 : ∀ ts, (g ts).deps = ts.deps := by intros; rfl) (h2 : ∀ ts, (g ts).lastY = ts.lastY := by intros; rfl)
    (h3 : A t ∨ ∀ ts, (g ts).ctxActive = ts.ctxActive := by
      first | exact Or.inr (fun _ => rfl) | exact Or.inl rfl) : Keep A D s (s.updTask t g) := by
  unfold State.updTask
  have hf : ∀ f, (s.setFut t { s.fut t with ts := g (s.fut t).ts }).fut f =
      if t = f ∧ t < s.futs.length then { s.fut t with ts := g (s.fut t).ts } else s.fut f := fun f => fut_setFut _ _ _ _
  refine ⟨fun f hk => ?_, fun f _ => Or.inl ?_, fun u hu => ?_, curOK_of_batches rfl,
    fun d hd => by
      have := out_updTask s t d g
      unfold State.updTask at this
      unfold State.computed at hd ⊢; rw [this]; exact hd⟩
  · rw [hf]; split
    · rename_i h; rw [← h.1] at hk; exact hk
    · exact hk
  · simp only [State.out, State.task, hf]
    split
    · rename_i h; rw [← h.1]; simp [h1, h2]
    · simp
  · simp only [State.task, hf]
    split
    · rename_i h
      rw [← h.1]
      rcases h3 with h3 | h3
      · rw [h.1] at h3; exact absurd h3 hu
      · exact h3 _
    · rfl

theorem k_complete {A D} (s : State) (f : Nat) (o : Outcome) : Keep A D s (s.complete f o) := by
  unfold State.complete
  refine Keep.trans (s1 := s.setFut f _) ?_ (k_emit _ _)
  have hf := fun g => fut_setFut s f g
    { s.fut f with out := some o, ts := { (if s.cfg.keepDeps then (s.fut f).ts else { (s.fut f).ts with deps := [] }) with
                                          lastY := .none, deps := [] } }
  have hchg : ∀ g, Chg s (s.setFut f { s.fut f with out := some o, ts := { (if s.cfg.keepDeps then (s.fut f).ts else { (s.fut f).ts with deps := [] }) with
                                          lastY := .none, deps := [] } }) g := ?_
  refine ⟨fun g hk => ?_, fun g _ => hchg g, fun u _ => ?_, curOK_of_batches rfl, fun d hd => (hchg d).computed hd⟩
  · rw [hf]; split
    · rename_i h; rw [← h.1] at hk; exact hk
    · exact hk
  rotate_left
  · intro g
    by_cases h : f = g ∧ f < s.futs.length
    · right
      unfold State.out State.task
      rw [hf, if_pos h]
      exact ⟨by simp, rfl, rfl⟩
    · left
      unfold State.out State.task
      rw [hf, if_neg h]
      exact ⟨rfl, rfl, rfl⟩
  · unfold State.task
    rw [hf]
    split
    · rename_i h
      rw [← h.1]
      cases s.cfg.keepDeps <;> rfl
    · rfl

theorem k_alloc {A D} (s : State) (x : Fut) (nk : NewKind) (h1 : x.ts.deps = []) (h2 : x.ts.lastY = .none)
    (h3 : x.ts.ctxActive = false) : Keep A D s (s.alloc x nk).1 := by
  unfold State.alloc
  refine Keep.trans (s1 := { s with futs := s.futs ++ [x] }) ?_ (k_emit _ _)
  have hf : ∀ g, ({ s with futs := s.futs ++ [x] } : State).fut g =
      if g < s.futs.length then s.fut g else if g = s.futs.length then x else {} := by
    intro g
    simp only [State.fut, List.getD_eq_getElem?_getD]
    by_cases hg : g < s.futs.length
    · simp [hg, List.getElem?_append_left hg]
    · by_cases hg2 : g = s.futs.length
      · subst hg2; simp
      · simp only [hg, hg2, if_false]
        rw [List.getElem?_eq_none (by simp; omega)]
        rfl
  have hd : ∀ g, ¬ g < s.futs.length → s.fut g = {} := fun g hg => fut_oob s g hg
  have hchg : ∀ g, Chg s ({ s with futs := s.futs ++ [x] } : State) g := by
    intro g
    unfold Chg State.out State.task
    rw [hf]
    by_cases hg : g < s.futs.length
    · rw [if_pos hg]; exact Or.inl ⟨rfl, rfl, rfl⟩
    · rw [if_neg hg, hd g hg]
      by_cases hg2 : g = s.futs.length
      · rw [if_pos hg2, h1, h2]
        cases hx : x.out with
        | none => exact Or.inl ⟨rfl, rfl, rfl⟩
        | some o => exact Or.inr ⟨by simp, rfl, rfl⟩
      · rw [if_neg hg2]; exact Or.inl ⟨rfl, rfl, rfl⟩
  refine ⟨fun g hk => ?_, fun g _ => hchg g, fun u _ => ?_, curOK_of_batches rfl, fun d hd => (hchg d).computed hd⟩
  · rw [hf]
    split
    · exact hk
    · rename_i hg; rw [hd g hg] at hk; cases hk
  · unfold State.task
    rw [hf]
    by_cases hg : u < s.futs.length
    · rw [if_pos hg]
    · rw [if_neg hg, hd u hg]
      by_cases hg2 : u = s.futs.length
      · rw [if_pos hg2, h3]
      · rw [if_neg hg2]

theorem k_svSet {A D} (s : State) (var val : Nat) : Keep A D s (s.svSet var val) := by
  unfold State.svSet; split <;> exact Keep.of_futs rfl rfl

theorem k_svTouch {A D} (s : State) (var : Nat) : Keep A D s (s.svTouch var) := by
  unfold State.svTouch; split
  · exact Keep.refl _ _ _
  · exact Keep.of_futs rfl rfl

theorem k_ctxSetResumed {A D} (s : State) (c : Nat) (r : Bool) : Keep A D s (s.ctxSetResumed c r) := by
  unfold State.ctxSetResumed; split
  · exact Keep.of_futs rfl rfl
  · exact Keep.refl _ _ _

theorem k_ctxResumeOne {A D} (s : State) (c : Nat) : Keep A D s (s.ctxResumeOne c) := by
  unfold State.ctxResumeOne
  have h0 : Keep A D s ((s.emit (.ctx true c)).ctxSetResumed c true) := (k_emit s _).trans (k_ctxSetResumed _ _ _)
  refine h0.trans ?_
  generalize (s.emit (.ctx true c)).ctxSetResumed c true = s1
  dsimp only
  split
  · split
    · exact Keep.trans (k_svSet s1 _ _) (Keep.of_futs rfl rfl)
    · exact Keep.refl _ _ _
  · exact Keep.refl _ _ _

theorem k_ctxPauseOne {A D} (s : State) (c : Nat) : Keep A D s (s.ctxPauseOne c) := by
  unfold State.ctxPauseOne
  have h0 : Keep A D s ((s.emit (.ctx false c)).ctxSetResumed c false) := (k_emit s _).trans (k_ctxSetResumed _ _ _)
  refine h0.trans ?_
  generalize (s.emit (.ctx false c)).ctxSetResumed c false = s1
  dsimp only
  split
  · split
    · exact k_svSet s1 _ _
    · exact Keep.refl _ _ _
  · exact Keep.refl _ _ _

theorem k_ctxExitAux {A D} (s : State) (c : Nat) (owner : Option Nat) : Keep A D s (P3.ctxExitAux s c owner) := by
  cases owner with
  | none =>
    show Keep A D s ((if s.ctxIsNonAsync c || !true then s else s.ctxPauseOne c).emit (.ctxX c))
    refine Keep.trans ?_ (k_emit _ _)
    split
    · exact Keep.refl _ _ _
    · exact k_ctxPauseOne _ _
  | some o =>
    have h := k_updTask (A := A) (D := D) s o (fun ts => { ts with ctxs := ts.ctxs.erase c })
    unfold P3.ctxExitAux
    dsimp only
    refine Keep.trans ?_ (k_emit _ _)
    split
    · exact h
    · exact h.trans (k_ctxPauseOne _ _)

theorem k_ctxExit {A D} (s : State) (c : Nat) : Keep A D s (s.ctxExit c) := by
  rw [P3.ctxExit_eq]
  exact k_ctxExitAux _ _ _

theorem k_foldl {A D} {α : Type} (g : State → α → State) (hg : ∀ s a, Keep A D s (g s a)) (l : List α) (s : State) :
    Keep A D s (l.foldl g s) := by
  induction l generalizing s with
  | nil => exact Keep.refl _ _ _
  | cons a l ih => exact (hg s a).trans (ih _)

theorem k_exitAll {A D} (s : State) (t : Nat) : Keep A D s (s.exitAll t) := by
  unfold State.exitAll
  exact (k_foldl (fun s (p : Nat × Body) => s.ctxExit p.1) (fun s p => k_ctxExit s p.1) _ s).trans
    (k_updTask _ _ _)

theorem k_failSuspended {A D} (s : State) (t : Nat) (e : Err) : Keep A D s (s.failSuspended t e) := by
  unfold State.failSuspended
  split
  · exact Keep.refl _ _ _
  · exact ((k_exitAll s t).trans (k_updTask _ _ _)).trans (k_complete _ _ _)

theorem k_resumeContexts (s : State) (t : Nat) : Keep (· = t) none1 s (s.resumeContexts t) := by
  unfold State.resumeContexts
  dsimp only
  split
  · exact Keep.refl _ _ _
  · have h : Keep (· = t) none1 s ((s.task t).ctxs.foldl (fun s c => if s.ctxIsNonAsync c then s else s.ctxResumeOne c)
        (s.updTask t fun ts => { ts with ctxActive := true })) :=
      (k_updTask (A := (· = t)) (D := none1) s t _).trans (k_foldl _ (fun s c => by
        split
        · exact Keep.refl _ _ _
        · exact k_ctxResumeOne _ _) _ _)
    split
    · exact h.trans (k_failSuspended _ _ _)
    · exact h

theorem k_pauseContexts (s : State) (t : Nat) : Keep (· = t) none1 s (s.pauseContexts t) := by
  unfold State.pauseContexts
  dsimp only
  split
  · exact Keep.refl _ _ _
  · have h : Keep (· = t) none1 s ((s.task t).ctxs.reverse.foldl (fun s c => if s.ctxIsNonAsync c then s else s.ctxPauseOne c)
        (s.updTask t fun ts => { ts with ctxActive := false })) :=
      (k_updTask (A := (· = t)) (D := none1) s t _).trans (k_foldl _ (fun s c => by
        split
        · exact Keep.refl _ _ _
        · exact k_ctxPauseOne _ _) _ _)
    split
    · exact h.trans (k_failSuspended _ _ _)
    · exact h

/-! ### batches: the current batch of a kind -/

theorem curBatch_kind (s : State) (k : Nat) (b : Batch) (h : s.curBatch? k = some b) : b.kind = k := by
  unfold State.curBatch? at h
  have := List.mem_of_getLast? h
  simpa using (List.mem_filter.1 this).2

theorem curBatch_append (s : State) (b0 : Batch) (k : Nat) :
    ({ s with batches := s.batches ++ [b0] } : State).curBatch? k =
      if b0.kind == k then some b0 else s.curBatch? k := by
  simp only [State.curBatch?, List.filter_append, List.filter_cons, List.filter_nil]
  split
  · simp
  · simp

theorem curBatch_updBatch (s : State) (k q : Nat) (g : Batch → Batch) (hg : ∀ b, (g b).kind = b.kind) (k' : Nat) :
    (s.updBatch k q g).curBatch? k' =
      (s.curBatch? k').map (fun b => if b.kind == k && b.seq == q then g b else b) := by
  simp only [State.curBatch?, State.updBatch, List.filter_map]
  rw [List.getLast?_map]
  congr 2
  apply List.filter_congr
  intro b _
  simp only [Function.comp]
  split
  · rw [hg]
  · rfl

theorem curOK_updBatch (s : State) (k q : Nat) (g : Batch → Batch) (hg : ∀ b, (g b).kind = b.kind)
    (hf : ∀ b, (g b).flushed = b.flushed) (h : CurOK s) : CurOK (s.updBatch k q g) := by
  intro k' b hb
  rw [curBatch_updBatch s k q g hg] at hb
  cases hc : s.curBatch? k' with
  | none => simp [hc] at hb
  | some b0 =>
    simp only [hc, Option.map_some, Option.some.injEq] at hb
    rw [← hb]
    split
    · rw [hf]; exact h k' b0 hc
    · exact h k' b0 hc

theorem k_switchActive {A D} (s : State) (k q : Nat) : Keep A D s (s.switchActive k q) := by
  unfold State.switchActive
  cases hb : s.curBatch? k with
  | none => exact Keep.refl _ _ _
  | some b =>
    simp only
    split
    · refine ⟨(Keep.of_futs (A := A) (D := D) (s := s) (s' := s) rfl rfl).kind,
        (Keep.refl A D s).chg, (Keep.refl A D s).act, ?_, (Keep.refl A D s).mon⟩
      intro hc k' b' hb'
      rw [curBatch_append] at hb'
      split at hb'
      · cases hb'; rfl
      · exact hc k' b' hb'
    · exact Keep.refl _ _ _

/-- after `switchActive k q` the current batch of kind `k` is not `(k, q)` -/
theorem switchActive_ne (s : State) (k q : Nat) (b : Batch) (h : (s.switchActive k q).curBatch? k = some b) :
    b.seq ≠ q := by
  unfold State.switchActive at h
  cases hb : s.curBatch? k with
  | none => simp only [hb] at h; cases h
  | some b0 =>
    simp only [hb] at h
    by_cases hq : (b0.seq == q) = true
    · simp only [hq, if_true] at h
      rw [curBatch_append] at h
      simp only [BEq.rfl, if_true, Option.some.injEq] at h
      rw [← h]
      simp
    · have hq' : (b0.seq == q) = false := by simpa using hq
      simp only [hq', Bool.false_eq_true, if_false] at h
      rw [hb] at h
      cases h
      simpa using hq

theorem k_flushItems {A D} (s : State) (kind : Nat) (l : List Nat) : Keep A D s (s.flushItems kind l) := by
  induction l generalizing s with
  | nil => exact Keep.refl _ _ _
  | cons i is ih =>
    unfold State.flushItems
    refine Keep.trans ?_ (ih _)
    split
    · exact Keep.refl _ _ _
    · split
      · exact k_complete _ _ _
      · exact k_complete _ _ _
      · exact Keep.refl _ _ _

theorem k_finishItems {A D} (s : State) (e : Err) (l : List Nat) : Keep A D s (s.finishItems e l) := by
  induction l generalizing s with
  | nil => exact Keep.refl _ _ _
  | cons i is ih =>
    unfold State.finishItems
    refine Keep.trans ?_ (ih _)
    split
    · exact Keep.refl _ _ _
    · exact k_complete _ _ _

theorem batches_flushItems (s : State) (kind : Nat) (l : List Nat) : (s.flushItems kind l).batches = s.batches := by
  induction l generalizing s with
  | nil => rfl
  | cons i is ih =>
    unfold State.flushItems
    rw [ih]
    split
    · rfl
    · split <;> rfl

theorem batches_finishItems (s : State) (e : Err) (l : List Nat) : (s.finishItems e l).batches = s.batches := by
  induction l generalizing s with
  | nil => rfl
  | cons i is ih =>
    unfold State.finishItems
    rw [ih]
    split <;> rfl

theorem k_flushBody {A D} (s : State) (k q : Nat) (b : Batch) (r kd : Bool) : Keep A D s (flushBody s k q b r kd) := by
  unfold flushBody
  dsimp only
  have h1 : Keep A D s ((((s.switchActive k q).emit (.flushI k q b.items)).flushItems k b.items).finishItems
      (if r then .flushraise k else .notset) b.items) :=
    (((k_switchActive s k q).trans (k_emit _ _)).trans (k_flushItems _ _ _)).trans (k_finishItems _ _ _)
  have hb : ((((s.switchActive k q).emit (.flushI k q b.items)).flushItems k b.items).finishItems
      (if r then .flushraise k else .notset) b.items).batches = (s.switchActive k q).batches := by
    rw [batches_finishItems, batches_flushItems]; rfl
  generalize ((((s.switchActive k q).emit (.flushI k q b.items)).flushItems k b.items).finishItems
      (if r then .flushraise k else .notset) b.items) = s4 at h1 hb
  have h2 : Keep A D s4 ((s4.emit (.bdone k q (!r))).updBatch k q
      fun b => { b with flushed := true, items := if kd then b.items else [] }) := by
    refine ⟨(Keep.of_futs (A := A) (D := D) (s := s4) (s' := s4) rfl rfl).kind,
      (Keep.refl A D s4).chg, (Keep.refl A D s4).act, ?_, (Keep.refl A D s4).mon⟩
    intro hc k' b' hb'
    rw [curBatch_updBatch (s4.emit (.bdone k q (!r))) k q
      (fun b => { b with flushed := true, items := if kd then b.items else [] }) (fun _ => rfl)] at hb'
    have hcur : ∀ k'', (s4.emit (.bdone k q (!r))).curBatch? k'' = (s.switchActive k q).curBatch? k'' := by
      intro k''
      simp only [State.curBatch?]
      show (List.filter _ s4.batches).getLast? = _
      rw [hb]
    rw [hcur] at hb'
    cases hc0 : (s.switchActive k q).curBatch? k' with
    | none => simp [hc0] at hb'
    | some b0 =>
      simp only [hc0, Option.map_some, Option.some.injEq] at hb'
      have hk0 := curBatch_kind _ _ _ hc0
      have hf0 : b0.flushed = false := by
        have : s4.curBatch? k' = some b0 := by
          simp only [State.curBatch?, hb]; exact hc0
        exact hc k' b0 this
      by_cases hm : (b0.kind == k && b0.seq == q) = true
      · exfalso
        simp only [Bool.and_eq_true, beq_iff_eq] at hm
        have : k' = k := by rw [← hk0]; exact hm.1
        subst this
        exact switchActive_ne s k' q b0 hc0 hm.2
      · simp only [hm] at hb'
        rw [← hb']; exact hf0
  exact h1.trans h2

theorem k_flushBatch {A D} (s : State) (k q : Nat) : Keep A D s (s.flushBatch k q) := by
  rw [flushBatch_eq]
  cases s.batch? k q with
  | none => exact k_fail _ _
  | some b => exact k_flushBody _ _ _ _ _ _

theorem k_flushRest {A D} (s : State) (fl : List (Nat × Nat)) : Keep A D s (P3.flushRest s fl) := by
  unfold P3.flushRest
  split
  · exact Keep.refl _ _ _
  · dsimp only
    split
    · exact k_fail _ _
    · split
      · exact k_fail _ _
      · split
        · exact k_fail _ _
        · refine Keep.trans ?_ (k_emit _ _)
          refine Keep.trans ?_ (k_flushBatch _ _ _)
          refine Keep.trans ?_ (k_emit _ _)
          exact Keep.of_futs rfl rfl

theorem k_schedulerFlush {A D} (s : State) (root : Nat) : Keep A D s (s.schedulerFlush root) := by
  rw [P3.schedulerFlush_eq]
  exact Keep.trans (s1 := { s with sbatches := s.flushable, ctl := .waitEnter root :: s.ctl.tail })
    (Keep.of_futs rfl rfl) (k_flushRest _ _)

theorem k_newTask {A D} (s : State) (child : Body) (inh : List Nat) : Keep A D s (s.newTask child inh).1 := by
  unfold State.newTask
  exact k_alloc _ _ _ rfl rfl rfl

end AsynqModel.Core.P9
