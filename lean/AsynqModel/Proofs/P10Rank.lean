import AsynqModel.Proofs.P10Inv
/-
  P10, part 10: a rank.  The order `lt s` restricted to existing futures embeds into `(Nat, <)`: the rank of a future
  is the number of existing futures that precede it.  This gives induction along the await graph.
-/
namespace AsynqModel.Core.P10
open AsynqModel.Core

theorem countP_le_of_imp {α : Type} (P Q : α → Bool) :
    ∀ l : List α, (∀ z, z ∈ l → P z = true → Q z = true) → l.countP P ≤ l.countP Q
  | [], _ => Nat.le_refl _
  | a :: l, h => by
    have ih := countP_le_of_imp P Q l (fun z hz => h z (List.mem_cons_of_mem _ hz))
    rw [List.countP_cons, List.countP_cons]
    cases hp : P a with
    | false => simp; omega
    | true => simp [h a List.mem_cons_self hp]; exact ih

theorem countP_lt_of_imp {α : Type} (P Q : α → Bool) :
    ∀ l : List α, (∀ z, z ∈ l → P z = true → Q z = true) → (∃ y, y ∈ l ∧ Q y = true ∧ P y = false) →
      l.countP P < l.countP Q
  | [], _, ⟨_, hy, _⟩ => by cases hy
  | a :: l, h, ⟨y, hy, hq, hp⟩ => by
    have hle := countP_le_of_imp P Q l (fun z hz => h z (List.mem_cons_of_mem _ hz))
    rw [List.countP_cons, List.countP_cons]
    rcases List.mem_cons.1 hy with rfl | hy
    · simp [hq, hp]; omega
    · have ih := countP_lt_of_imp P Q l (fun z hz => h z (List.mem_cons_of_mem _ hz)) ⟨y, hy, hq, hp⟩
      cases hpa : P a with
      | false => simp; omega
      | true => simp [h a List.mem_cons_self hpa]; exact ih

/-- the number of existing futures that precede `x` (with respect to the addressing `p`) -/
def rankOf (s : State) (p : Nat → List Nat) (x : Nat) : Nat :=
  (List.range s.futs.length).countP fun z => plt (p z) (p x)

theorem rankOf_lt {s : State} {p : Nat → List Nat} (hp : PathOK s p) {y x : Nat} (hl : lt s y x)
    (hy : y < s.futs.length) : rankOf s p y < rankOf s p x := by
  unfold rankOf
  refine countP_lt_of_imp _ _ _ ?_ ⟨y, List.mem_range.2 hy, hl p hp, plt_irrefl _⟩
  intro z _ hz
  exact plt_trans _ _ _ hz (hl p hp)

end AsynqModel.Core.P10
