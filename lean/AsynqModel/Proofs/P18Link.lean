import AsynqModel.Proofs.P18Fuel
import AsynqModel.Proofs.P18Step
import AsynqModel.Proofs.P13Main
import AsynqModel.Proofs.P14Exact
import AsynqModel.Proofs.P9InvStep
import AsynqModel.Proofs.P6Settled
/-!
  P18, part 4: the link between the state-level `P6.Settled s f` and the trace observer's `Watch.settled`.

  In a reachable state in which the stack guard has not fired, with `w` the observer state after the trace:
  * `w.isDone = s.computed`, `(k, q) ∈ w.flushedB →` batch `(k, q)` is flushed            (P13, `Inv13`)
  * `w.lastYield t = (resumes, _last_value)` for a started, suspended, uncomputed task    (P14, `K.ly`)
  * `_dependencies = computed left-overs ++ extract_futures(_last_value)`                 (P9, `J.dep`; the left-overs
    exist with `KEEP_DEPENDENCIES` only)
  * `w.kinds` / `w.runs` hold the machine's kinds / the started tasks                     (`G`, this group)
  so `Settled s f` gives `w'.settled n f` for some fuel, for every watch `w'` that agrees with `w` except that it may
  know fewer flushed batches; `settled_fuel` brings the fuel down to `w'.kinds.length + 1 = Watch.fuel`.
-/
namespace AsynqModel.Core.P18
open AsynqModel.Core AsynqModel.Core.Spec AsynqModel.Core.P2
open AsynqModel.Core.P13 (obs Acc)

theorem wOf_eq_obs : ∀ tr : List Event, P14.wOf tr = obs tr
  | [] => rfl
  | e :: tr => by rw [P14.wOf_cons, P13.obs_cons, wOf_eq_obs tr]

/-- the invariant of P9 in every reachable state in which the guard has not fired -/
theorem J_reach {s : State} (h : Reach s) (hg : s.guardFired = false) : P9.J s := by
  induction h with
  | init cfg tops choices => exact P9.J_init cfg tops choices
  | @step s _ ih => exact P9.J_step s (ih (P3.guard_mono s hg)) hg

theorem stepF_item (w : Watch) (S : Nat → Bool) (f k q idx p : Nat) (m : ItemMode) (hd : w.isDone f = false)
    (hk : w.kinds.lookup f = some (.item k q idx p m)) (hf : w.flushedB.contains (k, q) = false) :
    stepF w S f = true := by
  unfold stepF
  rw [hd, hk]
  simp only [Bool.false_eq_true, if_false, hf, Bool.not_false]

theorem stepF_task (w : Watch) (S : Nat → Bool) (f : Nat) (cr : Option Nat) (i : Nat) (y : RY)
    (hd : w.isDone f = false) (hk : w.kinds.lookup f = some (.task cr)) (hl : w.lastYield.lookup f = some (i, y))
    (hs : w.started f = true) (hany : ∃ x ∈ y.leaves, w.isDone x = false) (hall : ∀ x ∈ y.leaves, S x = true) :
    stepF w S f = true := by
  unfold stepF
  rw [hd, hk]
  simp only [Bool.false_eq_true, if_false, hl, hs, Bool.true_and, Bool.and_eq_true, List.any_eq_true,
    List.all_eq_true]
  obtain ⟨x, hx, hxd⟩ := hany
  exact ⟨⟨x, hx, by simp [hxd]⟩, hall⟩

theorem out_none_of {s : State} {f : Nat} (h : s.computed f = false) : s.out f = none := by
  unfold State.computed at h
  cases e : s.out f with
  | none => rfl
  | some o => rw [e] at h; cases h

/-- what the link needs from the machine state and a watch `w'` -/
structure Rel (s : State) (w' : Watch) : Prop where
  done : ∀ f, w'.isDone f = s.computed f
  kd : ∀ f, f < s.futs.length → ∃ nk, w'.kinds.lookup f = some nk ∧ KM nk (s.fut f).kind
  fb : ∀ k q, (k, q) ∈ w'.flushedB → ∃ b, s.batch? k q = some b ∧ b.flushed = true
  rs : ∀ t, (s.task t).started = true → w'.started t = true
  ly : ∀ t, (s.task t).pending = true → (s.task t).started = true → s.out t = none →
    w'.lastYield.lookup t = some ((s.task t).resumes, (s.task t).lastY)
  dep : ∀ t, P9.DepOK s t

/-- **the link**: a future that is settled in the machine state is settled for the observer, with the observer's fuel -/
theorem settled_of_rel {s : State} {w' : Watch} (R : Rel s w') {f : Nat} (h : P6.Settled s f) :
    w'.settled (w'.kinds.length + 1) f = true := by
  induction h with
  | @computed f hc =>
    rw [settled_succ]
    exact stepF_done w' _ f (by rw [R.done]; exact hc)
  | @item f k q p m hk hu hbat =>
    have hlt : f < s.futs.length := P2.lt_of_kind s f (by rw [hk]; intro h; cases h)
    obtain ⟨nk, hl, hkm⟩ := R.kd f hlt
    obtain ⟨idx, e⟩ := hkm.2 k q p m hk
    subst e
    rw [settled_succ]
    refine stepF_item w' _ f k q idx p m (by rw [R.done]; exact hu) hl ?_
    cases hcon : w'.flushedB.contains (k, q) with
    | false => rfl
    | true =>
      have hm : (k, q) ∈ w'.flushedB := by simpa using hcon
      obtain ⟨b', hb1, hb2⟩ := R.fb k q hm
      obtain ⟨b, hb3, hb4⟩ := hbat
      rw [hb3] at hb1
      injection hb1 with hb1
      subst hb1
      rw [hb4] at hb2; cases hb2
  | @task t hk hu hs hp hd hbl ih =>
    have hlt : t < s.futs.length := P2.lt_of_kind s t (by rw [hk]; intro h; cases h)
    obtain ⟨nk, hl, hkm⟩ := R.kd t hlt
    obtain ⟨cr, e⟩ := hkm.1 hk
    subst e
    obtain ⟨extra, hdeps, hextra⟩ := R.dep t
    have hly := R.ly t hp hs (out_none_of hu)
    apply settled_fuel w' (w'.kinds.length + 2)
    rw [settled_succ]
    refine stepF_task w' _ t cr _ _ (by rw [R.done]; exact hu) hl hly (R.rs t hs) ?_ ?_
    · obtain ⟨d, hd1, hd2⟩ := hbl
      rw [hdeps] at hd1
      rcases List.mem_append.1 hd1 with hx | hx
      · rw [hextra d hx] at hd2; cases hd2
      · exact ⟨d, (P2.mem_extractFutures _ d).1 hx, by rw [R.done]; exact hd2⟩
    · intro x hx
      apply ih x
      rw [hdeps]
      exact List.mem_append.2 (Or.inr ((P2.mem_extractFutures _ x).2 hx))

/-- the relation holds between a reachable state and the observer state after its trace, with any subset of the
    flushed batches -/
theorem rel_of_reach {c : Ctx} {s : State} (hr : Reach s) (hg : s.guardFired = false) (hG : G c s) (w' : Watch)
    (h1 : w'.kinds = (obs s.trace).kinds) (h2 : w'.outs = (obs s.trace).outs)
    (h3 : w'.lastYield = (obs s.trace).lastYield) (h4 : w'.runs = (obs s.trace).runs)
    (h5 : ∀ x, x ∈ w'.flushedB → x ∈ (obs s.trace).flushedB) : Rel s w' := by
  have hi := P13.inv13_of_reach hr { (default : Ctx) with cfg := s.cfg } rfl
  have hK := P14.K_reach default hr
  refine ⟨fun f => ?_, fun f hlt => ?_, fun k q hm => hi.li.fb k q (h5 _ hm), fun t hs => ?_, fun t a1 a2 a3 => ?_,
    (J_reach hr hg).dep⟩
  · have := hi.li.base.outs f
    unfold Watch.isDone at this ⊢
    rw [h2]; exact this
  · rw [h1]; exact hG.kd f hlt
  · unfold Watch.started; rw [h4]; exact hG.rs t hs
  · rw [h3, ← wOf_eq_obs]; exact hK.ly t a1 a2 a3

end AsynqModel.Core.P18
