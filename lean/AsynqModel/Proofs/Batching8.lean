import AsynqModel.Proofs.Batching7
/-! helper lemmas for C11, part 8: the nesting bound of `completeItem` never cuts a chain of handlers short -/
namespace AsynqModel.Batching
set_option linter.unusedSimpArgs false

/-- an item that is pending and carries a `link` handler -/
def Item.linkedPending (it : Item) : Bool := it.link.isSome && it.out.isNone

/-- how many nested completions are possible at most: every nested `completeItem` is entered through the `link`
    handler of an item that has just been completed -/
def St.linkedPending (s : St) : Nat := s.items.countP Item.linkedPending

theorem countP_modify_dec {α} (p : α → Bool) (f : α → α) :
    ∀ (l : List α) (i : Nat) (x : α), l[i]? = some x → p x = true → p (f x) = false →
      (l.modify i f).countP p + 1 = l.countP p
  | [], i, x, h, _, _ => by simp at h
  | y :: ys, 0, x, h, hp, hq => by
    simp at h; subst h
    simp [List.countP_cons, hp, hq]
  | y :: ys, i + 1, x, h, hp, hq => by
    simp at h
    have := countP_modify_dec p f ys i x h hp hq
    simp only [List.modify_succ_cons, List.countP_cons]
    omega

theorem linkedPending_le (s : St) : s.linkedPending ≤ s.items.length := List.countP_le_length

theorem linkedPending_setItemOut {s : St} {i : Nat} {it : Item} (o : Outc) (e : s.items[i]? = some it)
    (hl : it.link.isSome) (hn : it.out = none) : (s.setItemOut i o).linkedPending + 1 = s.linkedPending := by
  unfold St.linkedPending St.setItemOut
  exact countP_modify_dec _ _ _ _ _ e (by simp [Item.linkedPending, hl, hn]) (by simp [Item.linkedPending])

theorem linkedPending_pushItem (s : St) (b p : Nat) (sp : Option Nat) :
    (s.pushItem b p sp none).linkedPending = s.linkedPending := by
  simp [St.linkedPending, St.pushItem, List.countP_append, Item.linkedPending]

theorem linkedPending_spawnPart (s1 : St) (it : Item) : (spawnPart s1 it).1.linkedPending = s1.linkedPending := by
  unfold spawnPart
  cases it.spawn with
  | none => rfl
  | some p =>
    simp only
    cases hx : newItemOn s1 s1.active p none (some it.batch) with
    | none => rfl
    | some r =>
      obtain ⟨s2, evs⟩ := r
      simp only
      unfold newItemOn at hx
      cases hb : s1.batches[s1.active]? with
      | none => simp [hb] at hx
      | some B =>
        simp only [hb] at hx
        split at hx
        · cases hx
        · simp only [Option.some.injEq, Prod.mk.injEq] at hx
          rw [← hx.1]; exact linkedPending_pushItem _ _ _ _

/-- the result of `completeItem` does not depend on the nesting bound as soon as the bound is at least the number of
    pending items that carry a `link` handler -/
theorem completeItem_fuel_irrelevant (f1 : Nat) :
    ∀ (f2 : Nat) (s : St) (i : Nat) (o : Outc) (bb : Bool), s.iout i = none →
      s.linkedPending ≤ f1 → s.linkedPending ≤ f2 → completeItem f1 s i o bb = completeItem f2 s i o bb := by
  induction f1 with
  | zero =>
    intro f2 s i o bb hn h1 _
    cases f2 with
    | zero => rfl
    | succ m =>
      unfold completeItem
      cases e : s.items[i]? with
      | none => rfl
      | some it =>
        simp only
        cases hl : it.link with
        | none => rfl
        | some l =>
          have hout : it.out = none := by simpa [St.iout, e] using hn
          have := linkedPending_setItemOut o e (by simp [hl]) hout
          omega
  | succ k ih =>
    intro f2 s i o bb hn h1 h2
    cases f2 with
    | zero =>
      unfold completeItem
      cases e : s.items[i]? with
      | none => rfl
      | some it =>
        simp only
        cases hl : it.link with
        | none => rfl
        | some l =>
          have hout : it.out = none := by simpa [St.iout, e] using hn
          have := linkedPending_setItemOut o e (by simp [hl]) hout
          omega
    | succ m =>
      unfold completeItem
      cases e : s.items[i]? with
      | none => rfl
      | some it =>
        simp only
        cases hl : it.link with
        | none => rfl
        | some l =>
          simp only
          have hout : it.out = none := by simpa [St.iout, e] using hn
          have hdec := linkedPending_setItemOut o e (by simp [hl]) hout
          have hsp := linkedPending_spawnPart (s.setItemOut i o) it
          split
          · rename_i hf
            have ⟨_, _, jn⟩ := linkFires_spec hf
            rw [ih m _ l.target l.outc true jn (by omega) (by omega)]
          · rfl

end AsynqModel.Batching
