import AsynqModel.Proofs.P3Sched
/-
  P3 (property C08), part 3: the shape of one step of a task body (`genStep`): it stays in the generator frame,
  leaves it restoring the saved active task, or enters a nested `wait_for`; the stack is never touched, the
  only non-neutral events are `.active t <active task>` and task creations with creator `<active task>`.
-/
namespace AsynqModel.Core.P3
open AsynqModel.Core

/-- the three shapes of a generator step -/
def GS (s : State) (t : Nat) (old : Option Nat) (r : State) : Prop :=
  Quiet (GenEv t s.active) s r ∨
  Trans (GenEv t s.active) s r s.ctl.tail old s.stack ∨
  ∃ f, Trans (GenEv t s.active) s r (.waitEnter f :: s.ctl) s.active s.stack

theorem GS.stayN {s t old r} (h : Quiet N s r) : GS s t old r := Or.inl (h.mono fun _ => N.genEv)
theorem GS.stay {s t old r} (h : Quiet (GenEv t s.active) s r) : GS s t old r := Or.inl h
theorem GS.leave {s t old s1} (h : Quiet (GenEv t s.active) s s1) : GS s t old (s1.leaveGen t old) :=
  Or.inr (Or.inl (leaveGen_trans h t old))
theorem GS.call {s t old s1} (h : Quiet (GenEv t s.active) s s1) (f : Nat) :
    GS s t old { s1 with ctl := .waitEnter f :: s1.ctl } :=
  Or.inr (Or.inr ⟨f, by simp [h.ctl], h.active, h.stack, h.guard, h.raising, h.cfg, h.trace⟩)
theorem GS.finish (s t old o) : GS s t old (s.finishTask t old o) := by
  rcases finishTask_trans s t old o with h | h
  · exact GS.stayN h
  · exact Or.inr (Or.inl (h.mono fun _ => N.genEv))

theorem qg_newTask (s : State) (t : Nat) (child : Body) (inh : List Nat) :
    Quiet (GenEv t s.active) s (s.newTask child inh).1 := (q_newTask s child inh).mono fun _ => NewEv.genEv

theorem qg {s s1 : State} {t a} (h : Quiet N s s1) : Quiet (GenEv t a) s s1 := h.mono fun _ => N.genEv

theorem q_ensureBatch {P} (s : State) (kind : Nat) : Quiet P s (match s.curBatch? kind with
    | some _ => s
    | none => { s with batches := s.batches ++ [({ kind := kind, seq := 0 } : Batch)] }) := by
  split
  · exact Quiet.refl _ _
  · exact Quiet.of_eq rfl rfl rfl rfl rfl rfl rfl

theorem pushWait_trans {P} {s s1 : State} (h : Quiet P s s1) (f : Nat) :
    Trans P s { s1 with ctl := .waitEnter f :: s1.ctl } (.waitEnter f :: s.ctl) s.active s.stack :=
  ⟨by simp [h.ctl], h.active, h.stack, h.guard, h.raising, h.cfg, h.trace⟩

/-! the pieces of the `withCtx` instruction -/
def wc1 (s : State) (c : CtxKind) : State := match c with | .override var _ => s.svTouch var | _ => s
def wc3 (s : State) (cid t : Nat) (c : CtxKind) : State :=
  { s.emit (.ctxN cid t c) with ctxs := s.ctxs ++ [({ kind := c, owner := s.active } : CtxSt)] }
def wc4 (s : State) (cid : Nat) : State :=
  match s.active with
  | some a => s.updTask a fun ts => { ts with ctxs := ts.ctxs ++ [cid] }
  | none => s
def wc5 (s : State) (c : CtxKind) (cid : Nat) : State := if c == .nonasync then s else s.ctxResumeOne cid

theorem q_wc1 {P} (s : State) (c : CtxKind) : Quiet P s (wc1 s c) := by
  unfold wc1; split
  · exact q_svTouch _ _
  · exact Quiet.refl _ _
theorem q_wc3 (s : State) (cid t : Nat) (c : CtxKind) : Quiet N s (wc3 s cid t c) :=
  Quiet.trans (q_emitN s (.ctxN cid t c) rfl) (Quiet.of_eq rfl rfl rfl rfl rfl rfl rfl)
theorem q_wc4 {P} (s : State) (cid : Nat) : Quiet P s (wc4 s cid) := by
  unfold wc4; split
  · exact q_updTask _ _ _
  · exact Quiet.refl _ _
theorem q_wc5 (s : State) (c : CtxKind) (cid : Nat) : Quiet N s (wc5 s c cid) := by
  unfold wc5; split
  · exact Quiet.refl _ _
  · exact q_ctxResumeOne _ _

theorem genStep_trans (s : State) (t : Nat) (old : Option Nat) : GS s t old (s.genStep t old) := by
  unfold State.genStep
  dsimp only
  split
  · split
    · exact GS.stayN ((q_updTask _ _ _).trans (q_emitN _ _ rfl))
    · split
      · exact GS.stayN ((q_updTask _ _ _).trans (q_emitN _ _ rfl))
      · exact GS.stayN ((q_updTask _ _ _).trans (q_emitN _ _ rfl))
      · exact GS.stayN ((q_updTask _ _ _).trans (q_emitN _ _ rfl))
      · exact GS.stayN ((q_updTask _ _ _).trans (q_emitN _ _ rfl))
      · exact GS.stayN (q_fail _ _)
  · split
    · exact GS.finish _ _ _ _
    · exact GS.finish _ _ _ _
    · exact GS.finish _ _ _ _
    · exact GS.finish _ _ _ _
    · -- spawn
      exact GS.stay ((qg_newTask s t _ _).trans (q_updTask _ _ _))
    · -- item
      split
      · exact GS.stayN ((q_ensureBatch s _).trans (q_fail _ _))
      · refine GS.stayN ?_
        refine Quiet.trans ?_ (q_updTask _ _ _)
        refine Quiet.trans ?_ (q_updBatch _ _ _ _)
        refine Quiet.trans ?_ (q_alloc _ _ _ rfl)
        exact q_ensureBatch s _
    · -- const
      exact GS.stayN ((q_alloc _ _ _ rfl).trans (q_updTask _ _ _))
    · exact GS.stayN ((q_alloc _ _ _ rfl).trans (q_updTask _ _ _))
    · exact GS.stayN ((q_alloc _ _ _ rfl).trans (q_updTask _ _ _))
    · -- yld
      split <;> split <;>
        first
        | exact GS.stayN ((q_emitN _ _ rfl).trans (q_updTask _ _ _))
        | exact GS.leave (qg ((q_emitN _ _ rfl).trans (q_updTask _ _ _)))
    · split <;> split <;>
        first
        | exact GS.stayN ((q_emitN _ _ rfl).trans (q_updTask _ _ _))
        | exact GS.leave (qg ((q_emitN _ _ rfl).trans (q_updTask _ _ _)))
    · -- sync
      exact GS.call (((qg_newTask s t _ _).trans (q_updTask _ _ _)).trans (qg (q_emitN _ _ rfl))) _
    · -- syncfut
      have h0 : ∀ (g : TaskSt → TaskSt) (e : Event), neutral e = true →
          Quiet (GenEv t s.active) s ((s.updTask t g).emit e) :=
        fun g e he => qg ((q_updTask _ _ _).trans (q_emitN _ _ he))
      split
      · exact GS.stay (h0 _ _ rfl)
      · split
        · exact GS.call (h0 _ _ rfl) _
        · split
          · split
            · exact GS.stay (h0 _ _ rfl)
            · exact GS.stay ((h0 _ _ rfl).trans (qg (q_flushBatch _ _ _)))
          · exact GS.stay (h0 _ _ rfl)
        · exact GS.stay ((h0 _ _ rfl).trans (qg (q_complete _ _ _)))
        · exact GS.stay (h0 _ _ rfl)
    · -- syncret
      have h0 : Quiet N s { s with raising := none } := ⟨rfl, rfl, rfl, rfl, fun _ => rfl, rfl, Ext.refl _ _⟩
      split
      · exact GS.stayN (q_fail _ _)
      · exact GS.stayN ((h0.trans (q_updTask _ _ _)).trans (q_emitN _ _ rfl))
      · exact GS.stayN ((h0.trans (q_updTask _ _ _)).trans (q_emitN _ _ rfl))
    · -- withCtx
      rename_i c b k hb
      refine GS.stayN (Quiet.trans ?_ (q_updTask _ _ _))
      show Quiet N s (wc5 (wc4 (wc3 (wc1 s c) s.ctxs.length t c) s.ctxs.length) c s.ctxs.length)
      exact (((q_wc1 _ _).trans (q_wc3 _ _ _ _)).trans (q_wc4 _ _)).trans (q_wc5 _ _ _)
    · -- endwith
      split
      · exact GS.finish _ _ _ _
      · exact GS.stayN ((q_ctxExit _ _).trans (q_updTask _ _ _))
    · -- read
      exact GS.stayN (((q_svTouch _ _).trans (q_emitN _ _ rfl)).trans (q_updTask _ _ _))
    · -- active
      exact GS.stay ((q_emit _ _ (Or.inr rfl)).trans (q_updTask _ _ _))

end AsynqModel.Core.P3
