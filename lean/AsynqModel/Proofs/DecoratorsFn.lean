import AsynqModel.Lib.Decorators
import AsynqModel.Proofs.Decorators
import AsynqModel.Proofs.DecoratorsSib
/-! helper lemmas for C09:
    * the model of the code as it is (`modelCv`: `def async_call(fn, *args, **kwargs)`) against the model of the repaired
      tree (`modelCvF`: `fn` positional-only): equal on every call without a keyword called `fn` and on every convention
      that does not go through async_call; TypeError, no body entered, otherwise;
    * the body kind of a decorated callable never shows, WITHOUT any hypothesis on the key function. -/
namespace AsynqModel.Decorators

/-! ### keyword names of the derived argument lists -/

theorem callerArgs_hasKw (ft : FnType) (acc : Access) (off : Nat) (a : Args) (n : Nat) :
    (callerArgs ft acc off a).hasKw n = a.hasKw n := rfl

theorem subst_hasKw (a : Args) (n : Nat) : a.subst.hasKw n = a.hasKw n := by
  obtain ⟨pos, kw⟩ := a
  simp only [Args.hasKw, Args.subst]
  induction kw with
  | nil => rfl
  | cons p ps ih => simp only [List.map_cons, List.any_cons, ih]

theorem sibCallerArgs_hasKw (ft : FnType) (acc : Access) (rel : Rel) (a : Args) (n : Nat) :
    (sibCallerArgs ft acc rel a).hasKw n = a.hasKw n := by
  unfold sibCallerArgs
  split
  · rfl
  · rw [callerArgs_hasKw, subst_hasKw]

theorem asyncCall_of_free (env : Env) (o : Obj) (a : Args) (h : a.hasKw nameFn = false) :
    asyncCall env o a = asyncCallBody env o a := by
  simp [asyncCall, h]

theorem asyncCall_of_fn (env : Env) (o : Obj) (a : Args) (h : a.hasKw nameFn = true) :
    asyncCall env o a = .err .typeError := by
  simp [asyncCall, h]

theorem fnFree_iff (a : Args) : a.fnFree = true ↔ a.hasKw nameFn = false := by
  simp [Args.fnFree]

/-! ### code as it is vs. repaired tree -/

/-- a convention that does not go through async_call is the same computation in both models -/
theorem modelCv_eq_F_other (env : Env) (c : Cell) (cv : Cv) (a : Args) (rel : Rel) (hcv : cv.viaAsyncCall = false) :
    modelCv env c cv a rel = modelCvF env c cv a rel := by
  cases cv <;> first | rfl | (simp [Cv.viaAsyncCall] at hcv)

/-- without a keyword called `fn` the two models coincide on every convention -/
theorem modelCv_eq_F (env : Env) (c : Cell) (cv : Cv) (a : Args) (rel : Rel) (h : a.fnFree = true) :
    modelCv env c cv a rel = modelCvF env c cv a rel := by
  have h' : a.hasKw nameFn = false := (fnFree_iff a).mp h
  have h1 : (callerArgs c.ft c.acc 0 a).hasKw nameFn = false := by rw [callerArgs_hasKw]; exact h'
  have h2 : (sibCallerArgs c.ft c.acc rel a).hasKw nameFn = false := by rw [sibCallerArgs_hasKw]; exact h'
  cases hv : cv.viaAsyncCall
  · exact modelCv_eq_F_other env c cv a rel hv
  · unfold modelCv modelCvF modelCvWith
    split
    · rfl
    · unfold modelCvRunWith
      cases cv <;> first
        | (simp [Cv.viaAsyncCall] at hv; done)
        | (simp only [runCvWith, asyncCall_of_free _ _ _ h1, asyncCall_of_free _ _ _ h2])

theorem identicalSib_of_hasKw (ft : FnType) (acc : Access) (rel : Rel) (a : Args) (n : Nat) (h : a.hasKw n = true) :
    identicalSib ft acc rel a = false := by
  obtain ⟨pos, kw⟩ := a
  cases kw with
  | nil => simp [Args.hasKw] at h
  | cons p ps => simp [identicalSib]

/-- WITH a keyword called `fn` every convention that goes through async_call ends in TypeError before anything of the
    callable is touched: no future is created, no body entered (`execRes` of `.err` logs nothing) -/
theorem modelCv_of_fn (env : Env) (c : Cell) (cv : Cv) (a : Args) (rel : Rel) (h : a.hasKw nameFn = true)
    (hcv : cv.viaAsyncCall = true) :
    modelCv env c cv a rel = ⟨if cv = .siblingCall then [.err .typeError] else [], .err .typeError, false⟩ := by
  have h1 : (callerArgs c.ft c.acc 0 a).hasKw nameFn = true := by rw [callerArgs_hasKw]; exact h
  have h2 : (sibCallerArgs c.ft c.acc rel a).hasKw nameFn = true := by rw [sibCallerArgs_hasKw]; exact h
  have hi := identicalSib_of_hasKw c.ft c.acc rel a nameFn h
  unfold modelCv modelCvWith
  rw [hi]
  simp only [Bool.and_false, Bool.false_eq_true, if_false]
  unfold modelCvRunWith
  cases cv <;> first
    | (simp [Cv.viaAsyncCall] at hcv; done)
    | (simp [runCvWith, asyncCall_of_fn _ _ _ h1, asyncCall_of_fn _ _ _ h2, Res.value])

/-! ### the body kind of a decorated callable never shows (no hypothesis on the key function) -/

theorem build_gen_batch (k : Kind) (ft : FnType) (tw : Bool) : build k ft .batch tw = build k ft .gen tw := by
  cases k <;> rfl

theorem runF_batch_gen (env : Env) (k : Kind) (ft : FnType) (acc : Access) (cv : Cv) (a : Args) (rel : Rel) :
    modelCvRunF env ⟨k, ft, acc, .batch⟩ cv a rel = modelCvRunF env ⟨k, ft, acc, .gen⟩ cv a rel := by
  have hc : Cell.callable ⟨k, ft, acc, .batch⟩ = Cell.callable ⟨k, ft, acc, .gen⟩ := by
    simp only [Cell.callable, build_gen_batch]
  unfold modelCvRunF modelCvRunWith Cell.twinCallable Cell.sibCallable
  simp only [hc, build_gen_batch]

/-- plain function vs. generator function: all 11 decorated kinds x supported bindings x 13 conventions x 2 relations -/
theorem runF_plain_gen (k : Kind) (ft : FnType) (acc : Access) (cv : Cv) (a : Args)
    (keyOf : Args → Args) (hf : Nat → Nat) (rs : Bool) (rel : Rel) (h : supported k ft acc = true) (hk : k ≠ .raw) :
    modelCvRunF (Env.quiet keyOf hf rs) ⟨k, ft, acc, .plain⟩ cv a rel =
      modelCvRunF (Env.quiet keyOf hf rs) ⟨k, ft, acc, .gen⟩ cv a rel := by
  cases k <;> first | exact absurd rfl hk | skip
  all_goals (cases ft <;> cases acc <;> first | (simp [supported] at h; done) | skip)
  all_goals (cases cv <;> cases rel <;> rfl)

theorem runF_to_gen (k : Kind) (ft : FnType) (acc : Access) (bk : BodyKind) (cv : Cv) (a : Args)
    (keyOf : Args → Args) (hf : Nat → Nat) (rs : Bool) (rel : Rel) (h : supported k ft acc = true) (hk : k ≠ .raw) :
    modelCvRunF (Env.quiet keyOf hf rs) ⟨k, ft, acc, bk⟩ cv a rel =
      modelCvRunF (Env.quiet keyOf hf rs) ⟨k, ft, acc, .gen⟩ cv a rel := by
  cases bk
  · exact runF_plain_gen k ft acc cv a keyOf hf rs rel h hk
  · rfl
  · exact runF_batch_gen _ k ft acc cv a rel

theorem bk_irrelevant_F (k : Kind) (ft : FnType) (acc : Access) (bk bk' : BodyKind) (cv : Cv) (a : Args)
    (keyOf : Args → Args) (hf : Nat → Nat) (rs : Bool) (rel : Rel) (h : supported k ft acc = true) (hk : k ≠ .raw) :
    modelCvF (Env.quiet keyOf hf rs) ⟨k, ft, acc, bk⟩ cv a rel = modelCvF (Env.quiet keyOf hf rs) ⟨k, ft, acc, bk'⟩ cv a rel := by
  unfold modelCvF modelCvWith
  have := runF_to_gen k ft acc bk cv a keyOf hf rs rel h hk
  have := runF_to_gen k ft acc bk' cv a keyOf hf rs rel h hk
  simp only [modelCvRunF] at *
  simp only [*]

/-- the same for the code as it is: the TypeError of a keyword called `fn` does not look at the callable at all -/
theorem bk_irrelevant_nokey (k : Kind) (ft : FnType) (acc : Access) (bk bk' : BodyKind) (cv : Cv) (a : Args)
    (keyOf : Args → Args) (hf : Nat → Nat) (rs : Bool) (rel : Rel) (h : supported k ft acc = true) (hk : k ≠ .raw) :
    modelCv (Env.quiet keyOf hf rs) ⟨k, ft, acc, bk⟩ cv a rel = modelCv (Env.quiet keyOf hf rs) ⟨k, ft, acc, bk'⟩ cv a rel := by
  cases hfn : a.hasKw nameFn
  · have hf' : a.fnFree = true := (fnFree_iff a).mpr hfn
    rw [modelCv_eq_F _ _ _ _ _ hf', modelCv_eq_F _ _ _ _ _ hf']
    exact bk_irrelevant_F k ft acc bk bk' cv a keyOf hf rs rel h hk
  · cases hv : cv.viaAsyncCall
    · rw [modelCv_eq_F_other _ _ _ _ _ hv, modelCv_eq_F_other _ _ _ _ _ hv]
      exact bk_irrelevant_F k ft acc bk bk' cv a keyOf hf rs rel h hk
    · rw [modelCv_of_fn _ _ _ _ _ hfn hv, modelCv_of_fn _ _ _ _ _ hfn hv]

/-- the report of the code as it is, for a call without a keyword called `fn` -/
theorem modelReport_eq_F (c : Case) (h : c.args.fnFree = true) : modelReport c = modelReportF c := by
  simp only [modelReport, modelReportF, report, Report.mk.injEq, and_true]
  apply List.map_congr_left
  intro cv _
  rw [modelCv_eq_F _ _ _ _ _ h]

end AsynqModel.Decorators
