import AsynqModel.Proofs.P26Tree
/-!
  P26, part 2: one instruction of a task body (`genStep`) is a `TS` transition: the running task creates at most one
  future and records it in its own `own` list; a child gets an empty `inh` list when the rest of the creator is `lns`;
  the rest of the running task stays `lns`.  The walk follows `P10.genStep_out` (Proofs/P10Gen.lean) branch by branch.
-/
namespace AsynqModel.Core.P26
open AsynqModel.Core AsynqModel.Core.P10

theorem ts_leaveGen (s : State) (t : Nat) (old : Option Nat) : TS s (s.leaveGen t old) :=
  (ts_updTask s t (fun ts => { ts with depsSched := false }) rfl rfl id).congr rfl

theorem ts_finishTask (s : State) (t : Nat) (old : Option Nat) (o : Outcome) : TS s (s.finishTask t old o) := by
  unfold State.finishTask
  split
  · exact ts_of_futs rfl
  · have h : NZ s (((s.exitAll t).updTask t fun ts => { ts with pending := false }).complete t o) :=
      ((nz_exitAll s t).trans (nz_updTask _ _ _ keep_pending_false)).trans (nz_complete _ _ _)
    exact (ts_nz h).trans (ts_leaveGen _ t old)

theorem ts_ite_leave {s s1 : State} {t : Nat} {old : Option Nat} (c : Prop) [Decidable c] (key : TS s s1) :
    TS s (if c then s1 else s1.leaveGen t old) := by
  split
  · exact key
  · exact key.trans (ts_leaveGen s1 t old)

/-- a child created by an `lns` creator with an empty `pass` list -/
theorem nsT_child (child : Body) (pass : List Ref) (f : Ref → Nat) (cr : Option Nat) (hp : pass.isEmpty = true)
    (hc : lns child true = true) :
    NsT ({ body := child, inh := pass.map f, creator := cr } : TaskSt) := by
  refine ⟨?_, hc⟩
  have : pass = [] := by simpa using hp
  rw [this]; rfl


section
variable (s : State) (t : Nat) (g : TaskSt → TaskSt)
  (hown : (g (s.task t)).own = (s.task t).own) (hinh : (g (s.task t)).inh = (s.task t).inh)
  (hns : lns (s.task t).body (contL (s.task t).conts) = true →
    lns (g (s.task t)).body (contL (g (s.task t)).conts) = true)
include hown hinh hns

theorem ts_updE (e : Event) : TS s ((s.updTask t g).emit e) := (ts_updTask s t g hown hinh hns).congr rfl
theorem ts_updP (e : Event) : TS s ((s.emit e).updTask t g) := (ts_updTask s t g hown hinh hns).congr rfl
theorem ts_updR (e : Event) : TS s (({ s with raising := none }.updTask t g).emit e) :=
  (ts_updTask s t g hown hinh hns).congr rfl
end

section
variable (s : State) (x : Fut) (nk : NewKind) (t : Nat) (g : TaskSt → TaskSt) (ht : t < s.futs.length)
  (hxo : x.ts.own = []) (hx : (∀ u, NsT (s.task u)) → NsT x.ts)
  (hown : (g (s.task t)).own = (s.task t).own ++ [s.futs.length]) (hinh : (g (s.task t)).inh = (s.task t).inh)
  (hns : lns (s.task t).body (contL (s.task t).conts) = true →
    lns (g (s.task t)).body (contL (g (s.task t)).conts) = true)
include ht hxo hx hown hinh hns

theorem ts_allocB (k q : Nat) (gb : Batch → Batch) : TS s (((s.alloc x nk).1.updBatch k q gb).updTask t g) :=
  (ts_alloc_upd s x nk t g ht hxo hx hown hinh hns).congr rfl

theorem ts_allocE (e : Event) (c : List Ctl) :
    TS s { ((s.alloc x nk).1.updTask t g).emit e with ctl := c } :=
  (ts_alloc_upd s x nk t g ht hxo hx hown hinh hns).congr rfl
end

theorem ts_genStep (s : State) (t : Nat) (old : Option Nat) (ht : t < s.futs.length) : TS s (s.genStep t old) := by
  unfold State.genStep
  dsimp only
  split
  · split
    · exact ts_updE s t _ rfl rfl id _
    · split
      · rename_i y k h v hb _
        refine ts_updE s t _ rfl rfl ?_ _
        intro hl; rw [hb] at hl
        simp only [lns, Bool.and_eq_true] at hl
        exact hl.1
      · rename_i y k h e hb _
        refine ts_updE s t _ rfl rfl ?_ _
        intro hl; rw [hb] at hl
        simp only [lns, Bool.and_eq_true] at hl
        exact hl.2
      · rename_i k h v hb _
        refine ts_updE s t _ rfl rfl ?_ _
        intro hl; rw [hb] at hl
        simp only [lns, Bool.and_eq_true] at hl
        exact hl.1
      · rename_i k h e hb _
        refine ts_updE s t _ rfl rfl ?_ _
        intro hl; rw [hb] at hl
        simp only [lns, Bool.and_eq_true] at hl
        exact hl.2
      · exact ts_of_futs rfl
  · split
    · exact ts_finishTask ..
    · exact ts_finishTask ..
    · exact ts_finishTask ..
    · exact ts_finishTask ..
    · -- spawn
      rename_i child pass k hb
      unfold State.newTask
      refine ts_alloc_upd s _ _ t _ ht rfl ?_ rfl rfl ?_
      · intro hn
        have hl := (hn t).body
        rw [hb] at hl
        simp only [lns, Bool.and_eq_true] at hl
        exact nsT_child child pass _ _ hl.1.1 hl.1.2
      · intro hl; rw [hb] at hl
        simp only [lns, Bool.and_eq_true] at hl
        exact hl.2
    · -- item
      rename_i kind payload mode k hb
      have hk : lns (s.task t).body (contL (s.task t).conts) = true → lns k (contL (s.task t).conts) = true := by
        intro hl; rw [hb] at hl; exact hl
      cases hcb : s.curBatch? kind with
      | some b0 =>
        simp only [hcb]
        refine ts_allocB s _ _ t _ ht ?_ ?_ ?_ ?_ ?_ _ _ _
        · rfl
        · exact fun _ => nsT_default
        · rfl
        · rfl
        · exact hk
      | none =>
        split
        · exact ts_of_futs rfl
        · refine TS.congr_left (s := { s with batches := s.batches ++ [({ kind := kind, seq := 0 } : Batch)] }) ?_ rfl
          refine ts_allocB { s with batches := s.batches ++ [({ kind := kind, seq := 0 } : Batch)] } _ _ t _ ht ?_ ?_ ?_ ?_ ?_ _ _ _
          · rfl
          · exact fun _ => nsT_default
          · rfl
          · rfl
          · exact hk
    · -- const
      rename_i v k hb
      refine ts_alloc_upd s _ _ t _ ht rfl (fun _ => nsT_default) rfl rfl ?_
      intro hl; rw [hb] at hl; exact hl
    · -- errfut
      rename_i v k hb
      refine ts_alloc_upd s _ _ t _ ht rfl (fun _ => nsT_default) rfl rfl ?_
      intro hl; rw [hb] at hl; exact hl
    · -- lazy
      rename_i v k hb
      refine ts_alloc_upd s _ _ t _ ht rfl (fun _ => nsT_default) rfl rfl ?_
      intro hl; rw [hb] at hl; exact hl
    · -- yld
      rename_i y k h hb
      refine ts_ite_leave _ ?_
      exact ts_updP s t _ rfl rfl id _
    · -- reyld
      rename_i k h hb
      refine ts_ite_leave _ ?_
      exact ts_updP s t _ rfl rfl id _
    · -- sync
      rename_i child pass k h hb
      unfold State.newTask
      refine ts_allocE s _ _ t _ ht rfl ?_ rfl rfl ?_ _ _
      · intro hn
        have hl := (hn t).body
        rw [hb] at hl
        simp only [lns, Bool.and_eq_true] at hl
        exact nsT_child child pass _ _ hl.1.1.1 hl.1.1.2
      · intro hl; rw [hb] at hl
        simp only [lns, Bool.and_eq_true] at hl ⊢
        exact ⟨hl.1.2, hl.2⟩
    · -- syncfut
      rename_i r k h hb
      have key : TS s ((s.updTask t fun ts => { ts with body := .syncret ((s.task t).resolve r) k h }).emit
          (.syncE t ((s.task t).resolve r))) := by
        refine ts_updE s t _ rfl rfl ?_ _
        intro hl; rw [hb] at hl
        exact hl
      split
      · exact key
      · split
        · exact key.congr rfl
        · split
          · split
            · exact key
            · rename_i b heq _
              exact key.trans (ts_nz (nz_flushBatch _ _ _ b heq))
          · exact key
        · exact key.trans (ts_nz (nz_complete _ _ _))
        · exact key
    · -- syncret
      rename_i f k h hb
      split
      · exact ts_of_futs rfl
      · refine ts_updR s t _ rfl rfl ?_ _
        intro hl; rw [hb] at hl
        simp only [lns, Bool.and_eq_true] at hl
        exact hl.1
      · refine ts_updR s t _ rfl rfl ?_ _
        intro hl; rw [hb] at hl
        simp only [lns, Bool.and_eq_true] at hl
        exact hl.2
    · -- withCtx
      rename_i c b k hb
      have nz : NZ s (P3.wc5 (P3.wc4 (P3.wc3 (P3.wc1 s c) s.ctxs.length t c) s.ctxs.length) c s.ctxs.length) := by
        have h1 : NZ s (P3.wc1 s c) := by
          unfold P3.wc1; split
          · exact nz_svTouch _ _
          · exact NZ.refl _
        have h3 : ∀ s0 : State, NZ s0 (P3.wc3 s0 s.ctxs.length t c) := fun s0 =>
          (nz_emit s0 (.ctxN s.ctxs.length t c)).trans (nz_of_futs rfl rfl rfl rfl rfl rfl rfl)
        have h4 : ∀ s0 : State, NZ s0 (P3.wc4 s0 s.ctxs.length) := fun s0 => by
          unfold P3.wc4; split
          · exact nz_updTask _ _ _ (fun ts => keep_ctxs _ ts)
          · exact NZ.refl _
        have h5 : ∀ s0 : State, NZ s0 (P3.wc5 s0 c s.ctxs.length) := fun s0 => by
          unfold P3.wc5; split
          · exact NZ.refl _
          · exact nz_ctxResumeOne _ _
        exact ((h1.trans (h3 _)).trans (h4 _)).trans (h5 _)
      refine (ts_nz nz).trans (ts_updTask _ t _ rfl rfl ?_)
      intro hl
      rw [(nz.ts t).body, hb] at hl
      exact hl
    · -- endwith
      rename_i hb
      split
      · exact ts_finishTask ..
      · rename_i cid k rest hc
        have nz := nz_ctxExit s cid
        refine (ts_nz nz).trans (ts_updTask _ t _ rfl rfl ?_)
        intro hl
        rw [(nz.ts t).body, hb, (conts_ctxExit s cid t).trans hc] at hl
        exact hl
    · -- read
      rename_i var k hb
      have nz : NZ s ((s.svTouch var).emit (.read t var (.a ((s.svTouch var).svGet var)))) :=
        (nz_svTouch _ _).trans (nz_emit _ _)
      refine (ts_nz nz).trans (ts_updTask _ t _ rfl rfl ?_)
      intro hl
      rw [(nz.ts t).body, hb] at hl
      have hcs : (((s.svTouch var).emit (.read t var (.a ((s.svTouch var).svGet var)))).task t).conts =
          (s.task t).conts ∨ _ := (nz.ts t).conts
      exact hl
    · -- active
      rename_i k hb
      refine ts_updP s t _ rfl rfl ?_ _
      intro hl
      rw [hb] at hl
      exact hl

end AsynqModel.Core.P26
