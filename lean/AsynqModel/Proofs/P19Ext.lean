import AsynqModel.Proofs.P19Frame
import AsynqModel.Proofs.P19Rounds
/-
  P19, part 3: facts about single instructions that the view-level description `P6.GenDesc` does not record:
  which branch a resumed task takes, that only a final instruction completes the task, the denotation of the
  futures an instruction creates.
-/
namespace AsynqModel.Core.P19
open AsynqModel.Core

theorem step_gen (s : State) (t : Nat) (old : Option Nat) (rest : List Ctl) (hs : s.stuck = none)
    (hr : s.raising = none) (hctl : s.ctl = .gen t old :: rest) : step s = s.genStep t old := by
  unfold step
  simp [hs, hctl, hr]

theorem task_updTask_self (s : State) (t : Nat) (g : TaskSt → TaskSt) (ht : t < s.futs.length) :
    (s.updTask t g).task t = g (s.task t) := by
  unfold State.task
  rw [P6.fut_updTask, if_pos ⟨rfl, ht⟩]

/-- the body a resumed task continues with -/
def branch (s : State) (t : Nat) (k h : Body) : Body :=
  match unwrap s.out (s.task t).lastY with
  | .ok _ => k
  | .error _ => h

theorem genStep_resume_yld (s : State) (t : Nat) (old : Option Nat) (ht : t < s.futs.length)
    (hp : (s.task t).pending = true) (hst : (s.task t).started = true) (y : Y) (k h : Body)
    (hb : (s.task t).body = .yld y k h) : ((s.genStep t old).task t).body = branch s t k h := by
  unfold State.genStep branch
  simp only [hp, hst, hb]
  cases unwrap s.out (s.task t).lastY with
  | ok v => simp [State.task, P6.fut_updTask, ht]
  | error e => simp [State.task, P6.fut_updTask, ht]

theorem genStep_resume_reyld (s : State) (t : Nat) (old : Option Nat) (ht : t < s.futs.length)
    (hp : (s.task t).pending = true) (hst : (s.task t).started = true) (k h : Body)
    (hb : (s.task t).body = .reyld k h) : ((s.genStep t old).task t).body = branch s t k h := by
  unfold State.genStep branch
  simp only [hp, hst, hb]
  cases unwrap s.out (s.task t).lastY with
  | ok v => simp [State.task, P6.fut_updTask, ht]
  | error e => simp [State.task, P6.fut_updTask, ht]

theorem genStep_resume_conts (s : State) (t : Nat) (old : Option Nat) (ht : t < s.futs.length)
    (hp : (s.task t).pending = true) (hst : (s.task t).started = true)
    (hb : (∃ y k h, (s.task t).body = .yld y k h) ∨ ∃ k h, (s.task t).body = .reyld k h) :
    ((s.genStep t old).task t).conts = (s.task t).conts := by
  unfold State.genStep
  rcases hb with ⟨y, k, h, hb⟩ | ⟨k, h, hb⟩
  · simp only [hp, hst, hb]
    cases unwrap s.out (s.task t).lastY with
    | ok v => simp [State.task, P6.fut_updTask, ht]
    | error e => simp [State.task, P6.fut_updTask, ht]
  · simp only [hp, hst, hb]
    cases unwrap s.out (s.task t).lastY with
    | ok v => simp [State.task, P6.fut_updTask, ht]
    | error e => simp [State.task, P6.fut_updTask, ht]

/-- the first step of a task only marks it as started -/
theorem genStep_start (s : State) (t : Nat) (old : Option Nat) (ht : t < s.futs.length)
    (hp : (s.task t).pending = true) (hst : (s.task t).started = false) :
    ((s.genStep t old).task t).body = (s.task t).body ∧ ((s.genStep t old).task t).conts = (s.task t).conts := by
  unfold State.genStep
  simp only [hp, hst]
  simp [State.task, P6.fut_updTask, ht]

theorem pending_leaveGen (X : State) (t : Nat) (old : Option Nat) (f : Nat) :
    ((X.leaveGen t old).task f).pending = (X.task f).pending := by
  have : (X.leaveGen t old).task f = (X.updTask t fun ts => { ts with depsSched := false }).task f := rfl
  rw [this]
  unfold State.task
  rw [P6.fut_updTask]
  split
  · rename_i h; rw [h.1]
  · rfl

/-- a `yield` suspends the task -/
theorem genStep_yield_pending (s : State) (t : Nat) (old : Option Nat) (ht : t < s.futs.length)
    (hp : (s.task t).pending = false)
    (hb : (∃ y k h, (s.task t).body = .yld y k h) ∨ ∃ k h, (s.task t).body = .reyld k h) :
    ((s.genStep t old).task t).pending = true := by
  unfold State.genStep
  rcases hb with ⟨y, k, h, hb⟩ | ⟨k, h, hb⟩
  · simp only [hp, hb, Bool.false_eq_true, if_false]
    split <;> split <;> first
      | (rw [task_updTask_self _ _ _ (by exact ht)])
      | (rw [pending_leaveGen, task_updTask_self _ _ _ (by exact ht)])
  · simp only [hp, hb, Bool.false_eq_true, if_false]
    split <;> split <;> first
      | (rw [task_updTask_self _ _ _ (by exact ht)])
      | (rw [pending_leaveGen, task_updTask_self _ _ _ (by exact ht)])

/-! ### the denotation of new futures -/

theorem genStep_const_den (s : State) (t : Nat) (old : Option Nat) (ht : t < s.futs.length)
    (hp : (s.task t).pending = false) (v : Nat) (k : Body) (hb : (s.task t).body = .const v k) :
    ((s.genStep t old).fut s.futs.length).den = .ok (.a v) := by
  unfold State.genStep
  simp only [hp, hb]
  simp [P6.fut_updTask, P6.fut_alloc, Nat.ne_of_gt ht]

theorem genStep_errfut_den (s : State) (t : Nat) (old : Option Nat) (ht : t < s.futs.length)
    (hp : (s.task t).pending = false) (e : Nat) (k : Body) (hb : (s.task t).body = .errfut e k) :
    ((s.genStep t old).fut s.futs.length).den = .err (.u e) := by
  unfold State.genStep
  simp only [hp, hb]
  simp [P6.fut_updTask, P6.fut_alloc, Nat.ne_of_gt ht]

theorem genStep_lazy_den (s : State) (t : Nat) (old : Option Nat) (ht : t < s.futs.length)
    (hp : (s.task t).pending = false) (o : LazyOut) (k : Body) (hb : (s.task t).body = .lazy o k) :
    ((s.genStep t old).fut s.futs.length).den = lazyOutcome o := by
  unfold State.genStep
  simp only [hp, hb]
  simp [P6.fut_updTask, P6.fut_alloc, Nat.ne_of_gt ht]

theorem genStep_spawn_den (s : State) (t : Nat) (old : Option Nat) (ht : t < s.futs.length)
    (hp : (s.task t).pending = false) (child k : Body) (hb : (s.task t).body = .spawn child [] k) :
    ((s.genStep t old).fut s.futs.length).den = (evalBody s.cfg child [] [] [] none .none).outcome := by
  unfold State.genStep
  simp only [hp, hb]
  simp [P6.fut_updTask, P6.fut_alloc, Nat.ne_of_gt ht, State.newTask]

/-! ### only a final instruction completes the task -/

theorem out_updTask (s : State) (t : Nat) (g : TaskSt → TaskSt) (f : Nat) : (s.updTask t g).out f = s.out f := by
  unfold State.out
  rw [P6.fut_updTask]
  split
  · rename_i h; rw [h.1]
  · rfl

theorem out_alloc_lt (s : State) (x : Fut) (nk : NewKind) (f : Nat) (hf : f < s.futs.length) :
    (s.alloc x nk).1.out f = s.out f := by
  unfold State.out
  rw [P6.fut_alloc, if_neg (Nat.ne_of_lt hf)]

theorem out_updBatch (s : State) (k q : Nat) (g : Batch → Batch) (f : Nat) : (s.updBatch k q g).out f = s.out f := rfl

theorem out_of_eqv {s r : State} (e : P6.Eqv s r) (f : Nat) : r.out f = s.out f := congrArg P6.FV.out (e.view f)
theorem out_of_eqvK {s r : State} (e : P6.EqvK s r) (f : Nat) : r.out f = s.out f := congrArg P6.FV.out (e.view f)

theorem out_leaveGen (s : State) (t : Nat) (old : Option Nat) (f : Nat) : (s.leaveGen t old).out f = s.out f := by
  have : (s.leaveGen t old).out f = (s.updTask t fun ts => { ts with depsSched := false }).out f := rfl
  rw [this]
  exact out_updTask s t _ f

theorem genStep_keeps_out (s : State) (t : Nat) (old : Option Nat) (ht : t < s.futs.length)
    (hp : (s.task t).pending = false) (hnt : ¬ terminal (s.task t).body)
    (hne : (s.task t).body = .endwith → (s.task t).conts ≠ [])
    (hyo : Spec.bodyHasSync (s.task t).body = false) (hna : Spec.bodyHasNonAsync (s.task t).body = false) :
    (s.genStep t old).out t = s.out t := by
  revert hnt hne hyo hna
  unfold State.genStep
  simp only [hp, Bool.false_eq_true, if_false]
  have oof : ∀ X : State, X.futs = s.futs → X.out t = s.out t := fun X h => by unfold State.out State.fut; rw [h]
  split
  · intro h; simp_all [terminal]
  · intro h; simp_all [terminal]
  · intro h; simp_all [terminal]
  · intro h; simp_all [terminal]
  · intro _ _ _ _
    rw [out_updTask]
    exact out_alloc_lt _ _ _ _ ht
  · intro _ _ _ _
    have hX : ∀ kind, State.futs (match s.curBatch? kind with
        | some _ => s
        | none => { s with batches := s.batches ++ [({ kind := kind, seq := 0 } : Batch)] }) = s.futs := by
      intro kind; split <;> rfl
    split
    · exact oof _ (hX _)
    · rw [out_updTask, out_updBatch, out_alloc_lt]
      · exact oof _ (hX _)
      · exact Nat.lt_of_lt_of_eq ht (congrArg List.length (hX _).symm)
  · intro _ _ _ _; rw [out_updTask]; exact out_alloc_lt _ _ _ _ ht
  · intro _ _ _ _; rw [out_updTask]; exact out_alloc_lt _ _ _ _ ht
  · intro _ _ _ _; rw [out_updTask]; exact out_alloc_lt _ _ _ _ ht
  · intro _ _ _ _
    split <;> split <;> first | (rw [out_updTask]; rfl) | (rw [out_leaveGen, out_updTask]; rfl)
  · intro _ _ _ _
    split <;> split <;> first | (rw [out_updTask]; rfl) | (rw [out_leaveGen, out_updTask]; rfl)
  · intro _ _ h; simp_all [Spec.bodyHasSync]
  · intro _ _ h; simp_all [Spec.bodyHasSync]
  · intro _ _ h; simp_all [Spec.bodyHasSync]
  · rename_i c b k hb
    intro _ _ _ hna
    have hc : c ≠ .nonasync := by
      intro h; subst h; simp_all [Spec.bodyHasNonAsync]
    rw [out_updTask]
    exact out_of_eqvK (P6.eqvK_withCtx s t c hc) t
  · rename_i hbe
    intro _ hne _ _
    split
    · rename_i hc; exact absurd hc (hne hbe)
    · rw [out_updTask]
      exact out_of_eqv (P6.eqv_ctxExit s _) t
  · intro _ _ _ _
    rw [out_updTask]
    exact out_of_eqv ((P6.eqv_svTouch s _).trans (P6.eqv_emit _ _)) t
  · intro _ _ _ _
    rw [out_updTask]; rfl

end AsynqModel.Core.P19
