import AsynqModel.Proofs.P20Live
import AsynqModel.Proofs.P13Main
/-
  P23 (property C08, "no pending batch is left scheduled when an outermost call returns"), part 1:
  the invariant `K` - a batch item that is computed belongs to a batch whose flush body has run (`P1.fl s k q = 1`) -
  on the states of runs of well-scoped programs without NonAsyncContext (`P20.Good`).
  (Contrapositive: the items of kind `(k, q)` stay uncomputed as long as batch `(k, q)` is not flushed.)
-/
namespace AsynqModel.Core.P23
open AsynqModel.Core AsynqModel.Core.P6 AsynqModel.Core.P6T AsynqModel.Core.P20

/-- a computed batch item belongs to a flushed batch -/
def K (s : State) : Prop :=
  ∀ i k q p m, (view s i).kind = .item k q p m → (view s i).out ≠ none → 0 < P1.fl s k q

/-- the members of a batch are items of that batch -/
def Items (s : State) : Prop :=
  ∀ b ∈ s.batches, ∀ i ∈ b.items, ∃ p m, (s.fut i).kind = .item b.kind b.seq p m

theorem items_reach {s : State} (h : Reach s) : Items s := by
  obtain ⟨cfg0, h0⟩ := P13.inv13_reach h
  have := (h0 (Spec.mkCtx cfg0 []) rfl).li.base.items
  intro b hb i hi
  exact (this b hb i hi).2

theorem K_init (cfg : Cfg) (tops : List (Conv × Body)) (choices : List (Nat × Nat)) : K (initState cfg tops choices) := by
  intro i k q p m hk _
  rw [view_ge _ i (Nat.zero_le _)] at hk
  cases hk

/-- `K` is carried along when flushed batches stay flushed and every computed item was a computed item before -/
theorem K_of {s r : State} (h : K s) (hfl : ∀ k q, P1.fl s k q ≤ P1.fl r k q)
    (hv : ∀ i k q p m, (view r i).kind = .item k q p m → (view r i).out ≠ none →
      (view s i).kind = .item k q p m ∧ (view s i).out ≠ none) : K r := by
  intro i k q p m hk ho
  obtain ⟨h1, h2⟩ := hv i k q p m hk ho
  exact Nat.lt_of_lt_of_le (h i k q p m h1 h2) (hfl k q)

theorem K_same {s r : State} (h : K s) (hb : r.batches = s.batches) (hv : ∀ i, view r i = view s i) : K r :=
  K_of h (fun k q => Nat.le_of_eq (P1.fl_of_batches hb k q).symm) (fun i k q p m hk ho => by
    rw [hv i] at hk ho; exact ⟨hk, ho⟩)

theorem fl_step (s : State) (k q : Nat) : P1.fl s k q ≤ P1.fl (step s) k q := by
  obtain ⟨es, _, _, hc⟩ := (P1.mild_step s).tr
  have := hc k q
  omega

theorem fl_genStep (s : State) (t : Nat) (old : Option Nat) (k q : Nat) :
    P1.fl s k q ≤ P1.fl (s.genStep t old) k q := by
  obtain ⟨es, _, _, hc⟩ := (P1.mild_genStep s t old).tr
  have := hc k q
  omega

theorem hv_upd1 {s r : State} {t : Nat} {v' : FV} (U : Upd1S s r t v') (hk : v'.kind = (view s t).kind)
    (ho : v'.out = (view s t).out ∨ (view s t).kind = .task) :
    ∀ i k q p m, (view r i).kind = .item k q p m → (view r i).out ≠ none →
      (view s i).kind = .item k q p m ∧ (view s i).out ≠ none := by
  intro i k q p m h1 h2
  rcases U.view_cases i with ⟨rfl, e⟩ | ⟨_, e⟩
  · rw [e] at h1 h2
    rw [hk] at h1
    rcases ho with ho | ho
    · rw [ho] at h2; exact ⟨h1, h2⟩
    · rw [ho] at h1; cases h1
  · rw [e] at h1 h2; exact ⟨h1, h2⟩

theorem hv_upd2 {s r : State} {t : Nat} {v' nv : FV} (U : Upd2 s r t v' nv) (hk : v'.kind = (view s t).kind)
    (ho : v'.out = (view s t).out) (hn : ∀ k q p m, nv.kind = .item k q p m → nv.out = none) :
    ∀ i k q p m, (view r i).kind = .item k q p m → (view r i).out ≠ none →
      (view s i).kind = .item k q p m ∧ (view s i).out ≠ none := by
  intro i k q p m h1 h2
  rcases U.view_cases i with ⟨rfl, e⟩ | ⟨rfl, e⟩ | ⟨_, _, e⟩
  · rw [e] at h1 h2
    rw [hk] at h1; rw [ho] at h2; exact ⟨h1, h2⟩
  · rw [e] at h1 h2
    exact absurd (hn k q p m h1) h2
  · rw [e] at h1 h2; exact ⟨h1, h2⟩

/-! ### the flush of a batch -/

theorem key_of_batch? {s : State} {k q : Nat} {b : Batch} (h : s.batch? k q = some b) : b.kind = k ∧ b.seq = q := by
  have := List.find?_some h
  simpa using this

theorem K_flushBatch {s : State} (hK : K s) (hit : Items s) (k q : Nat)
    (hf : ∀ b, s.batch? k q = some b → b.flushed = false) : K (s.flushBatch k q) := by
  cases hb : s.batch? k q with
  | none =>
    rw [P1.flushBatch_none s k q hb]
    exact K_same hK rfl (fun _ => rfl)
  | some b =>
    have hm := P1.mild_flushBatch true s k q b hb (hf b hb)
    have hfl : ∀ k' q', P1.fl s k' q' ≤ P1.fl (s.flushBatch k q) k' q' := by
      intro k' q'
      obtain ⟨es, _, _, hc⟩ := hm.tr
      have := hc k' q'
      omega
    intro i k0 q0 p m hk ho
    by_cases hi : i ∈ b.items
    · obtain ⟨p', m', hki⟩ := hit b (P1.mem_of_batch? hb) i hi
      have hk' : ((s.flushBatch k q).fut i).kind = .item k0 q0 p m := hk
      rw [P1.flushBatch_kind, hki] at hk'
      obtain ⟨e1, e2⟩ := key_of_batch? hb
      injection hk' with h1 h2 _ _
      rw [← h1, ← h2, e1, e2]
      unfold P1.fl
      rw [P1.flushBatch_batch?_self s k q b hb]
      simp [P1.flushUpd]
    · have e : view (s.flushBatch k q) i = view s i := by
        unfold view; rw [P1.flushBatch_fut_notin s k q b hb i hi]
      rw [e] at hk ho
      exact Nat.lt_of_lt_of_le (hK i k0 q0 p m hk ho) (hfl k0 q0)

theorem K_schedulerFlush {s : State} (hK : K s) (hit : Items s) (root : Nat) : K (s.schedulerFlush root) := by
  by_cases hfl : s.flushable = []
  · rw [P1.schedulerFlush_empty s root hfl]
    exact K_same hK rfl (fun _ => rfl)
  · rcases P1.schedulerFlush_cases s root hfl with ⟨m, hm, _⟩ | ⟨c, b, _, ha, hb, he⟩
    · rw [hm]
      exact K_same hK rfl (fun _ => rfl)
    · rw [he]
      obtain ⟨hc, b', hb', _⟩ := P1.admissible_spec s c ha
      obtain ⟨_, b'', hb'', _, hf⟩ := (P1.mem_flushable s c.1 c.2).1 hc
      rw [hb] at hb''
      cases hb''
      have key : ∀ (X : State) (e : Event), X.batches = s.batches → (∀ i, X.fut i = s.fut i) →
          K ((X.flushBatch c.1 c.2).emit e) := by
        intro X e hXb hXf
        refine K_same (s := X.flushBatch c.1 c.2) ?_ rfl (fun _ => rfl)
        refine K_flushBatch (K_same hK hXb (fun i => by unfold view; rw [hXf i])) ?_ c.1 c.2 ?_
        · intro b0 hb0 i hi
          rw [hXb] at hb0
          rw [hXf i]
          exact hit b0 hb0 i hi
        · intro b0 hb0
          rw [P1.batch?_of_batches hXb, hb] at hb0
          cases hb0
          exact hf
      unfold P1.flushWith
      exact key _ _ rfl (fun _ => rfl)

/-! ### `future.value()` -/

theorem genStep_syncfut (s : State) (t : Nat) (old : Option Nat) (rf : Ref) (k h : Body)
    (hp : (s.task t).pending = false) (hb : (s.task t).body = .syncfut rf k h) :
    s.genStep t old =
      (let f := (s.task t).resolve rf
       let s1 := (s.updTask t fun ts => { ts with body := .syncret f k h }).emit (.syncE t f)
       if s1.computed f then s1 else
       match (s1.fut f).kind with
       | .task => { s1 with ctl := .waitEnter f :: s1.ctl }
       | .item kind seq _ _ =>
         match s1.batch? kind seq with
         | some b => if b.flushed then s1 else s1.flushBatch kind seq
         | none => s1
       | .lazy o => s1.complete f (lazyOutcome o)
       | _ => s1) := by
  unfold State.genStep
  simp only [hp, hb]
  rfl

theorem K_syncfut {s : State} (hK : K s) (hit : Items s) (t : Nat) (old : Option Nat) (rf : Ref) (k h : Body)
    (hp : (s.task t).pending = false) (hb : (s.task t).body = .syncfut rf k h) : K (s.genStep t old) := by
  rw [genStep_syncfut s t old rf k h hp hb]
  dsimp only
  generalize hs1 : ((s.updTask t fun ts => { ts with body := .syncret ((s.task t).resolve rf) k h }).emit
    (.syncE t ((s.task t).resolve rf))) = s1
  have hv1 : ∀ i, (view s1 i).kind = (view s i).kind ∧ (view s1 i).out = (view s i).out := by
    intro i
    subst hs1
    have e0 : ∀ (g : TaskSt → TaskSt) (e : Event), view ((s.updTask t g).emit e) i = view (s.updTask t g) i :=
      fun _ _ => rfl
    rw [e0, view_updTask]
    split
    · rename_i hh
      rw [hh.1]
      exact ⟨rfl, rfl⟩
    · exact ⟨rfl, rfl⟩
  have hb1 : s1.batches = s.batches := by subst hs1; rfl
  have hK1 : K s1 := K_of hK (fun k q => Nat.le_of_eq (P1.fl_of_batches hb1 k q).symm) (fun i k q p m h1 h2 => by
    rw [(hv1 i).1] at h1; rw [(hv1 i).2] at h2; exact ⟨h1, h2⟩)
  have hit1 : Items s1 := by
    intro b hb0 i hi
    rw [hb1] at hb0
    have := hit b hb0 i hi
    have e : (s1.fut i).kind = (s.fut i).kind := (hv1 i).1
    rw [e]; exact this
  split
  · exact hK1
  · rename_i hcf
    split
    · exact K_same hK1 rfl (fun _ => rfl)
    · rename_i kind seq _ _ hkf
      split
      · rename_i b hb0
        split
        · exact hK1
        · rename_i hfl
          refine K_flushBatch hK1 hit1 kind seq ?_
          intro b' hb'
          rw [hb0] at hb'
          cases hb'
          simpa using hfl
      · exact hK1
    · rename_i o hkf
      intro i k0 q0 p m h1 h2
      by_cases e : i = (s.task t).resolve rf
      · subst e
        have : (view (s1.complete ((s.task t).resolve rf) (lazyOutcome o)) ((s.task t).resolve rf)).kind =
            (s1.fut ((s.task t).resolve rf)).kind := by
          rw [view_complete]; split <;> rfl
        rw [this, hkf] at h1
        cases h1
      · rw [view_complete_ne _ _ _ _ e] at h1 h2
        have := hK1 i k0 q0 p m h1 h2
        rw [P1.fl_of_batches (s := s1) (s' := s1.complete _ _) rfl]
        exact this
    · exact hK1

/-! ### every step -/

theorem K_step {s : State} (h : Good s) (hK : K s) (hst : (step s).stuck = none) (hg : (step s).guardFired = false) :
    K (step s) := by
  have hit : Items s := items_reach h.ws.reach
  by_cases hng : ∀ t old rest, s.ctl ≠ .gen t old :: rest
  · have d := step_desc s h.stuck h.raising h.o.noNA (fun t old rest hc => absurd hc (hng t old rest)) hst hg
    have same : (step s).batches = s.batches → (∀ i, view (step s) i = view s i) → K (step s) :=
      fun hb hv => K_same hK hb hv
    cases d with
    | quiet e _ _ => exact same e.batches e.view
    | top conv body rest _ _ U _ _ =>
      refine K_of hK (fl_step s) ?_
      intro i k q p m h1 h2
      by_cases e : i = s.futs.length
      · subst e
        rw [U.viewN] at h1
        cases h1
      · rw [U.viewO i e] at h1 h2
        exact ⟨h1, h2⟩
    | ret _ _ _ e _ _ => exact same e.batches e.view
    | enterLoop _ _ _ _ e _ _ => exact same e.batches e.view
    | pop _ _ _ _ _ e _ _ => exact same e.batches e.view
    | popLazy _ top st _ lo hkl _ U _ _ =>
      refine K_of hK (fl_step s) ?_
      intro i k q p m h1 h2
      rcases U.view_cases i with ⟨rfl, e⟩ | ⟨_, e⟩
      · rw [e] at h1
        have : (doneView (lazyOutcome lo) (view s i)).kind = (view s i).kind := rfl
        rw [this, hkl] at h1
        cases h1
      · rw [e] at h1 h2; exact ⟨h1, h2⟩
    | second _ top st _ _ _ _ _ U _ _ => exact K_of hK (fl_step s) (hv_upd1 U rfl (Or.inl rfl))
    | first _ top st _ _ _ _ _ U _ _ => exact K_of hK (fl_step s) (hv_upd1 U rfl (Or.inl rfl))
    | enterGen _ _ _ _ _ _ _ e _ _ _ => exact same e.batches e.view
    | gen t old rest hctl0 _ => exact absurd hctl0 (hng t old rest)
    | flush root base rest hctl0 hlen hroot F _ =>
      rw [step_waitLoop_flush s h.stuck h.raising hctl0 hlen hroot]
      exact K_schedulerFlush hK hit root
  · have : ∃ t old rest, s.ctl = .gen t old :: rest := by
      apply Classical.byContradiction
      intro hn
      exact hng (fun t old rest hc => hn ⟨t, old, rest, hc⟩)
    obtain ⟨t, old, rest, hctl⟩ := this
    have e := step_gen s h.stuck h.raising hctl
    rw [e] at hst ⊢
    have hkt := (h.gen hctl).1
    have d := genStep_gd s t old hkt (h.o.nf t) (h.hinv.ws t) hst
    have hfl := fl_genStep s t old
    cases d with
    | start hp hs hu => exact K_of hK hfl (hv_upd1 hu.toS rfl (Or.inl rfl))
    | loc v' hu hkind hout hpend hstart hnf hbs hsame hdeps => exact K_of hK hfl (hv_upd1 hu.toS hkind (Or.inl hout))
    | spawn child k pass hb hp hu hbat hnc hnk =>
      exact K_of hK hfl (hv_upd2 hu rfl rfl (fun _ _ _ _ hh => by cases hh))
    | item kind payload mode k seq hb hp hu hbat hnk =>
      exact K_of hK hfl (hv_upd2 hu rfl rfl (fun _ _ _ _ _ => rfl))
    | other k kd out hb hp hu hbat hnk hkd =>
      refine K_of hK hfl (hv_upd2 hu rfl rfl ?_)
      intro k0 q0 p0 m0 hh
      have hh' : kd = .item k0 q0 p0 m0 := hh
      rcases hkd with ⟨e1, _⟩ | ⟨e1, _⟩ | ⟨⟨o, e1⟩, _⟩ <;> rw [e1] at hh' <;> cases hh'
    | yield npy nd leave hp hu => exact K_of hK hfl (hv_upd1 hu.toS rfl (Or.inl rfl))
    | finish o hp hu => exact K_of hK hfl (hv_upd1 hu.toS rfl (Or.inr hkt))
    | sync child k hh pass hb hp hu hbat hnc hnk hnh =>
      exact K_of hK hfl (hv_upd2 hu rfl rfl (fun _ _ _ _ hh => by cases hh))
    | syncfut rf k hh s1 hb hp hu F hnk hnh hT => exact K_syncfut hK hit t old rf k hh hp hb

end AsynqModel.Core.P23
