import AsynqModel.Core.Reach
/-
  P9 (property C20), part 1: the projection `P` that erases what KEEP_DEPENDENCIES leaves behind.

  * `norm`      : the normalisation of events the driver uses (`handle20` in Drv/Core.lean)
  * `projT`     : `deps := extractFutures lastY` (without KEEP_DEPENDENCIES that is what `_dependencies` holds) and
                  `depsSched := false` for a task whose generator is running (`_dependencies_scheduled` is only read
                  for a blocked task; a running task is never blocked)
  * `projB`     : a flushed batch has no items
  * `P`         : all of that, `cfg.keepDeps := false`, and the trace normalised
  and the commutation `P (h s) = h (P s)` of every heap-side helper of the machine.
-/
namespace AsynqModel.Core.P9
open AsynqModel.Core

/-- the normalisation of `handle20`: the pending entries of flushed batches are dropped from `flushB` events,
    the `nbatches` field of `sched` is ignored -/
def norm : Event → Event
  | .flushB k q its p pend => .flushB k q its p (pend.filter fun x => !x.flushed)
  | .sched same n _ live a => .sched same n 0 live a
  | e => e

/-- is the generator of task `t` running (the very test `handleTask` makes) -/
def inFrame (ctl : List Ctl) (t : Nat) : Bool :=
  ctl.any (fun c => match c with | .gen u _ => u == t | _ => false)

def projT (fr : Bool) (ts : TaskSt) : TaskSt :=
  { ts with deps := extractFutures ts.lastY, depsSched := !fr && ts.depsSched }

def projF (fr : Bool) (x : Fut) : Fut := { x with ts := projT fr x.ts }

def projB (b : Batch) : Batch := if b.flushed then { b with items := [] } else b

/-- `projF` over the heap; the flag of future `i + j` for the `j`-th element -/
def pfs (ctl : List Ctl) : Nat → List Fut → List Fut
  | _, [] => []
  | i, x :: xs => projF (inFrame ctl i) x :: pfs ctl (i + 1) xs

def P (s : State) : State :=
  { s with cfg := { s.cfg with keepDeps := false }, futs := pfs s.ctl 0 s.futs,
           batches := s.batches.map projB, trace := s.trace.map norm }

/-! ### `inFrame` -/

@[simp] theorem inFrame_nil (t) : inFrame [] t = false := rfl
@[simp] theorem inFrame_waitEnter (r c t) : inFrame (.waitEnter r :: c) t = inFrame c t := by simp [inFrame]
@[simp] theorem inFrame_waitLoop (r b c t) : inFrame (.waitLoop r b :: c) t = inFrame c t := by simp [inFrame]
@[simp] theorem inFrame_gen (u o c t) : inFrame (.gen u o :: c) t = (u == t || inFrame c t) := by simp [inFrame]

/-! ### `projT`, `projF`, `projB` -/

@[simp] theorem ef_none : extractFutures (.none : RY) = [] := by simp [extractFutures]

@[simp] theorem projT_body (fr ts) : (projT fr ts).body = ts.body := rfl
@[simp] theorem projT_conts (fr ts) : (projT fr ts).conts = ts.conts := rfl
@[simp] theorem projT_env (fr ts) : (projT fr ts).env = ts.env := rfl
@[simp] theorem projT_own (fr ts) : (projT fr ts).own = ts.own := rfl
@[simp] theorem projT_inh (fr ts) : (projT fr ts).inh = ts.inh := rfl
@[simp] theorem projT_caught (fr ts) : (projT fr ts).caught = ts.caught := rfl
@[simp] theorem projT_pending (fr ts) : (projT fr ts).pending = ts.pending := rfl
@[simp] theorem projT_started (fr ts) : (projT fr ts).started = ts.started := rfl
@[simp] theorem projT_lastY (fr ts) : (projT fr ts).lastY = ts.lastY := rfl
@[simp] theorem projT_prevY (fr ts) : (projT fr ts).prevY = ts.prevY := rfl
@[simp] theorem projT_prevYRef (fr ts) : (projT fr ts).prevYRef = ts.prevYRef := rfl
@[simp] theorem projT_deps (fr ts) : (projT fr ts).deps = extractFutures ts.lastY := rfl
@[simp] theorem projT_depsSched (fr ts) : (projT fr ts).depsSched = (!fr && ts.depsSched) := rfl
@[simp] theorem projT_ctxs (fr ts) : (projT fr ts).ctxs = ts.ctxs := rfl
@[simp] theorem projT_ctxActive (fr ts) : (projT fr ts).ctxActive = ts.ctxActive := rfl
@[simp] theorem projT_resumes (fr ts) : (projT fr ts).resumes = ts.resumes := rfl
@[simp] theorem projT_creator (fr ts) : (projT fr ts).creator = ts.creator := rfl
@[simp] theorem projT_resolve (fr ts) (r : Ref) : (projT fr ts).resolve r = ts.resolve r := by
  cases r <;> rfl

@[simp] theorem projF_kind (fr x) : (projF fr x).kind = x.kind := rfl
@[simp] theorem projF_out (fr x) : (projF fr x).out = x.out := rfl
@[simp] theorem projF_den (fr x) : (projF fr x).den = x.den := rfl
@[simp] theorem projF_ts (fr x) : (projF fr x).ts = projT fr x.ts := rfl

theorem projT_idem (fr fr' : Bool) (ts : TaskSt) (h : fr = true → fr' = true) :
    projT fr' (projT fr ts) = projT fr' ts := by
  cases fr <;> cases fr' <;> simp_all [projT]

theorem projF_idem (fr fr' : Bool) (x : Fut) (h : fr = true → fr' = true) :
    projF fr' (projF fr x) = projF fr' x := by
  simp [projF, projT_idem fr fr' _ h]

/-- a future that carries no diagnostic residue is its own projection -/
theorem projF_clean (fr : Bool) (x : Fut) (h1 : x.ts.deps = extractFutures x.ts.lastY) (h2 : x.ts.depsSched = false) :
    projF fr x = x := by
  cases x with
  | mk kind out ts den =>
    cases ts
    simp_all [projF, projT]

@[simp] theorem projF_default (fr : Bool) : projF fr ({} : Fut) = {} := projF_clean _ _ (by simp) rfl

@[simp] theorem projB_kind (b) : (projB b).kind = b.kind := by unfold projB; split <;> rfl
@[simp] theorem projB_seq (b) : (projB b).seq = b.seq := by unfold projB; split <;> rfl
@[simp] theorem projB_flushed (b) : (projB b).flushed = b.flushed := by unfold projB; split <;> rfl
theorem projB_unflushed (b : Batch) (h : b.flushed = false) : projB b = b := by simp [projB, h]
@[simp] theorem projB_idem (b) : projB (projB b) = projB b := by
  unfold projB; split <;> simp_all
@[simp] theorem projB_fresh (k q : Nat) : projB ({ kind := k, seq := q } : Batch) = { kind := k, seq := q } := rfl

/-! ### `pfs` -/

@[simp] theorem length_pfs (ctl) (l : List Fut) (i : Nat) : (pfs ctl i l).length = l.length := by
  induction l generalizing i with
  | nil => rfl
  | cons x xs ih => simp [pfs, ih]

theorem getD_pfs (ctl) (l : List Fut) (i j : Nat) :
    (pfs ctl i l).getD j {} = projF (inFrame ctl (i + j)) (l.getD j {}) := by
  induction l generalizing i j with
  | nil => simp [pfs]
  | cons x xs ih =>
    cases j with
    | zero => simp [pfs]
    | succ j =>
      simp only [pfs, List.getD_cons_succ]
      rw [ih, show i + 1 + j = i + (j + 1) by omega]

theorem set_pfs (ctl) (l : List Fut) (i j : Nat) (x : Fut) :
    pfs ctl i (l.set j x) = (pfs ctl i l).set j (projF (inFrame ctl (i + j)) x) := by
  induction l generalizing i j with
  | nil => simp [pfs]
  | cons y ys ih =>
    cases j with
    | zero => simp [pfs]
    | succ j =>
      simp only [pfs, List.set_cons_succ]
      rw [ih, show i + 1 + j = i + (j + 1) by omega]

theorem append_pfs (ctl) (l : List Fut) (i : Nat) (x : Fut) :
    pfs ctl i (l ++ [x]) = pfs ctl i l ++ [projF (inFrame ctl (i + l.length)) x] := by
  induction l generalizing i with
  | nil => simp [pfs]
  | cons y ys ih =>
    simp only [pfs, List.cons_append, List.length_cons]
    rw [ih, show i + 1 + ys.length = i + (ys.length + 1) by omega]

/-- changing the control stack: only the flags of the tasks whose frame status changes matter -/
theorem pfs_idem (ctl ctl' : List Ctl) (l : List Fut) (i : Nat)
    (h : ∀ t, inFrame ctl t = true → inFrame ctl' t = true) :
    pfs ctl' i (pfs ctl i l) = pfs ctl' i l := by
  induction l generalizing i with
  | nil => rfl
  | cons x xs ih => simp [pfs, ih, projF_idem _ _ _ (h i)]

theorem pfs_congr (ctl ctl' : List Ctl) (l : List Fut) (i : Nat) (h : ∀ t, inFrame ctl t = inFrame ctl' t) :
    pfs ctl i l = pfs ctl' i l := by
  induction l generalizing i with
  | nil => rfl
  | cons x xs ih => simp [pfs, ih, h]

/-! ### reading the projected state -/

@[simp] theorem P_ctl (s : State) : (P s).ctl = s.ctl := rfl
@[simp] theorem P_stack (s : State) : (P s).stack = s.stack := rfl
@[simp] theorem P_sbatches (s : State) : (P s).sbatches = s.sbatches := rfl
@[simp] theorem P_active (s : State) : (P s).active = s.active := rfl
@[simp] theorem P_ctxs (s : State) : (P s).ctxs = s.ctxs := rfl
@[simp] theorem P_sv (s : State) : (P s).sv = s.sv := rfl
@[simp] theorem P_tops (s : State) : (P s).tops = s.tops := rfl
@[simp] theorem P_topIdx (s : State) : (P s).topIdx = s.topIdx := rfl
@[simp] theorem P_curTop (s : State) : (P s).curTop = s.curTop := rfl
@[simp] theorem P_raising (s : State) : (P s).raising = s.raising := rfl
@[simp] theorem P_choices (s : State) : (P s).choices = s.choices := rfl
@[simp] theorem P_stuck (s : State) : (P s).stuck = s.stuck := rfl
@[simp] theorem P_guardFired (s : State) : (P s).guardFired = s.guardFired := rfl
@[simp] theorem P_trace (s : State) : (P s).trace = s.trace.map norm := rfl
@[simp] theorem P_batches (s : State) : (P s).batches = s.batches.map projB := rfl
@[simp] theorem P_futs_length (s : State) : (P s).futs.length = s.futs.length := by simp [P]
@[simp] theorem P_keepDeps (s : State) : (P s).cfg.keepDeps = false := rfl
@[simp] theorem P_maxStack (s : State) : (P s).cfg.maxStack = s.cfg.maxStack := rfl
@[simp] theorem P_kinds (s : State) : (P s).cfg.kinds = s.cfg.kinds := rfl
@[simp] theorem P_kind (s : State) (k : Nat) : (P s).cfg.kind k = s.cfg.kind k := rfl

@[simp] theorem P_fut (s : State) (f : Nat) : (P s).fut f = projF (inFrame s.ctl f) (s.fut f) := by
  have := getD_pfs s.ctl s.futs 0 f
  simp only [Nat.zero_add] at this
  exact this

@[simp] theorem P_task (s : State) (t : Nat) : (P s).task t = projT (inFrame s.ctl t) (s.task t) := by
  simp [State.task]

@[simp] theorem P_out (s : State) (f : Nat) : (P s).out f = s.out f := by simp [State.out]
@[simp] theorem P_computed (s : State) (f : Nat) : (P s).computed f = s.computed f := by simp [State.computed]
@[simp] theorem P_computed_fun (s : State) : (P s).computed = s.computed := funext (P_computed s)
@[simp] theorem P_out_fun (s : State) : (P s).out = s.out := funext (P_out s)

theorem find?_map_projB (l : List Batch) (k q : Nat) :
    (l.map projB).find? (fun b => b.kind == k && b.seq == q) = (l.find? (fun b => b.kind == k && b.seq == q)).map projB := by
  induction l with
  | nil => rfl
  | cons b bs ih =>
    simp only [List.map_cons, List.find?_cons, projB_kind, projB_seq]
    split <;> simp [ih]

@[simp] theorem P_batch? (s : State) (k q : Nat) : (P s).batch? k q = (s.batch? k q).map projB := by
  exact find?_map_projB _ _ _

@[simp] theorem P_curBatch? (s : State) (k : Nat) : (P s).curBatch? k = (s.curBatch? k).map projB := by
  simp only [State.curBatch?, P_batches, List.filter_map]
  rw [List.getLast?_map]
  have : ((fun b => b.kind == k) ∘ projB) = fun (b : Batch) => b.kind == k := by
    funext b; simp
  rw [this]

@[simp] theorem P_svGet (s : State) (v : Nat) : (P s).svGet v = s.svGet v := rfl
@[simp] theorem P_ctxIsNonAsync (s : State) (c : Nat) : (P s).ctxIsNonAsync c = s.ctxIsNonAsync c := rfl
@[simp] theorem P_ctxIsNonAsync_fun (s : State) : (P s).ctxIsNonAsync = s.ctxIsNonAsync := rfl

/-! ### commutation with the primitive updates -/

theorem P_emit (s : State) (e : Event) : P (s.emit e) = (P s).emit (norm e) := rfl

theorem P_emit_id (s : State) (e : Event) (h : norm e = e) : P (s.emit e) = (P s).emit e := by
  rw [P_emit, h]

theorem P_fail (s : State) (m : String) : P (s.fail m) = (P s).fail m := rfl

theorem P_setFut (s : State) (f : Nat) (x : Fut) :
    P (s.setFut f x) = (P s).setFut f (projF (inFrame s.ctl f) x) := by
  simp [State.setFut, P, set_pfs]

/-- `g` does not look at (or consistently resets) the residue -/
def Comm (g : TaskSt → TaskSt) : Prop := ∀ fr ts, projT fr (g ts) = g (projT fr ts)

theorem P_updTask (s : State) (t : Nat) (g : TaskSt → TaskSt) (hg : Comm g) :
    P (s.updTask t g) = (P s).updTask t g := by
  unfold State.updTask
  simp only [P_setFut, P_fut]
  congr 1
  simp [projF, hg _ _]

/-- the same for a task whose generator is running: only `fr = true` matters -/
theorem P_updTask_fr (s : State) (t : Nat) (g : TaskSt → TaskSt) (fr : Bool) (hfr : inFrame s.ctl t = fr)
    (hg : ∀ ts, projT fr (g ts) = g (projT fr ts)) :
    P (s.updTask t g) = (P s).updTask t g := by
  unfold State.updTask
  simp only [P_setFut, P_fut, hfr]
  congr 1
  simp [projF, hg _]

theorem P_popStack (s : State) : P s.popStack = (P s).popStack := rfl

end AsynqModel.Core.P9
